(* C05 model (hand-written, tied to the code by the correspondence of harness/props/c05.py):
   - the documented contract of a `filters={...}` entry, stated through a class's filter-METHOD table
     (Gen/GenDispatch.v): "the names of the filters are the same as the names of the filter methods",
     a method without arguments needs a True switch, spacetime_cut takes [dim, (lo, hi)];
   - the per-event application loop of the loaders' set_particle_list;
   - the method path (load, then call the methods);
   - the abstract operations (particle-level / event-level) on which the equivalence is proved. *)
From Coq Require Import List ZArith QArith Bool String.
From SX Require Import Model.PyRt Model.FilterSpec.
Import ListNotations.
Local Notation length := List.length.

Section Contract.
  (* a class's filter methods: number of arguments (None: no such filter method) and what the method does *)
  Variable arity : string -> option nat.
  Variable method : string -> list pyv -> list (list pobs) -> result (list (list pobs)).

  Definition entry (k : string) (v : pyv) (ev : list (list pobs)) : result (list (list pobs)) :=
    match arity k with
    | None => Err ValueError
    | Some 0%nat => c <- py_truthy v ;; if c then method k [] ev else Ok ev
    | Some 1%nat => method k [v] ev
    | Some _ => match v with
                | VList (a :: b :: _) => method k [a; b] ev
                | _ => Err ValueError
                end
    end.

  (* filters={k1: v1, k2: v2, ...} applied in dictionary order *)
  Definition ctor_spec (d : list (string * pyv)) (ev : list (list pobs)) : result (list (list pobs)) :=
    fold_leftM (fun e kv => entry (fst kv) (snd kv) e) d ev.
End Contract.

(* ------------------------------------------------------------------ loader loops *)
Section Loops.
  (* __apply_kwargs_filters(., filters) of the loader *)
  Variable apply : list (list pobs) -> result (list (list pobs)).

  Definition apply_one (data : list pobs) : result (list pobs) :=
    r <- apply [data] ;; seq_get r (VInt 0).

  (* OscarLoader / JetscapeLoader.set_particle_list at the end of an event: the filtered event is appended and its
     count row rewritten, unless it was non-empty and became empty: then it is dropped and its row deleted.
     State: events kept so far, count column of the rows of the loaded events. *)
  Definition remove_nth {A} (n : nat) (l : list A) : list A := firstn n l ++ skipn (S n) l.
  Definition set_nth {A} (n : nat) (x : A) (l : list A) : list A := firstn n l ++ x :: skipn (S n) l.

  Definition file_event_end (st : list (list pobs) * list Z) (data : list pobs)
    : result (list (list pobs) * list Z) :=
    d <- apply_one data ;;
    let j := length (fst st) in
    if negb (Nat.eqb (length d) 0) || Nat.eqb (length data) 0
    then Ok (fst st ++ [d], set_nth j (Z.of_nat (length d)) (snd st))
    else Ok (fst st, remove_nth j (snd st)).

  Definition file_loader (evs : list (list pobs)) : result (list (list pobs) * list Z) :=
    st <- fold_leftM file_event_end evs ([], map (fun e => Z.of_nat (length e)) evs) ;;
    Ok (match fst st with [] => [[]] | l => l end, snd st).

  (* ParticleObjectLoader.set_particle_list: every event is kept *)
  Definition pobj_loader (evs : list (list pobs)) : result (list (list pobs) * list Z) :=
    r <- mapM apply_one evs ;; Ok (r, map (fun e => Z.of_nat (length e)) r).
End Loops.

(* ------------------------------------------------------------------ method path *)
(* one call  storer.name(args)  per dictionary entry; a switch that is False means: no call *)
Section MethodPath.
  Variable arity : string -> option nat.
  Variable method : string -> list pyv -> list (list pobs) -> result (list (list pobs)).

  Definition method_call (k : string) (v : pyv) (pl : list (list pobs)) : result (list (list pobs)) :=
    match arity k with
    | None => method k [v] pl                 (* a method the class does not have / refuses *)
    | Some 0%nat => c <- py_truthy v ;; if c then method k [] pl else Ok pl
    | Some 1%nat => method k [v] pl
    | Some _ => match v with
                | VList (a :: b :: _) => method k [a; b] pl
                | _ => Err ValueError
                end
    end.
  Definition method_path (d : list (string * pyv)) (pl : list (list pobs)) : result (list (list pobs)) :=
    fold_leftM (fun e kv => method_call (fst kv) (snd kv) e) d pl.
End MethodPath.

(* ------------------------------------------------------------------ abstract operations *)
Inductive fop :=
| PLevel (pred : pobs -> bool)          (* particle-level filter: map (filter pred) *)
| ELevel (keep : list pobs -> bool)     (* event-level cut: filter keep, [[]] when nothing is left *)
| Noop.                                 (* switched off *)

Definition run_op (o : fop) (evs : list (list pobs)) : list (list pobs) :=
  match o with
  | PLevel p => particle_level p evs
  | ELevel k => event_level k evs
  | Noop => evs
  end.
Definition run_ops (ops : list fop) (evs : list (list pobs)) : list (list pobs) :=
  fold_left (fun e o => run_op o e) ops evs.

Definition is_nil {A} (l : list A) : bool := match l with [] => true | _ => false end.
(* the events that still contain particles *)
Definition nonempty (evs : list (list pobs)) : list (list pobs) := filter (fun e => negb (is_nil e)) evs.

Definition abs_event (ops : list fop) (data : list pobs) : list pobs := hd [] (run_ops ops [data]).
(* file loaders: an event that was non-empty and became empty is dropped *)
Definition abs_file_loader (ops : list fop) (evs : list (list pobs)) : list (list pobs) :=
  match flat_map (fun data => let d := abs_event ops data in
                              if negb (is_nil d) || is_nil data then [d] else []) evs with
  | [] => [[]]
  | l => l
  end.
Definition abs_pobj_loader (ops : list fop) (evs : list (list pobs)) : list (list pobs) :=
  map (abs_event ops) evs.

(* ------------------------------------------------------------------ admissible filter calls *)
(* a documented call of a filter with documented arguments: dictionary key, value, and what it selects *)
Inductive fcall :=
| C_switch (name : string) (a : acc) (zero : bool) (on : bool)   (* charge/ncoll/class filters: True/False *)
| C_photons (on : bool)
| C_species (s : shape) (ids : list Z)
| C_remove_species (s : shape) (ids : list Z)
| C_status (s : shape) (ids : list Z)
| C_pT (lo hi : lim)
| C_mT (lo hi : lim)
| C_spacetime (d : dim) (lo hi : lim)
| C_rap (name : string) (a : acc) (c1 c2 : num)
| C_rap1 (name : string) (a : acc) (c : num)
| C_energy (thr : num)
| C_mult (lo hi : lim).

Definition call_key (c : fcall) : string :=
  match c with
  | C_switch n _ _ _ => n
  | C_photons _ => "remove_photons"
  | C_species _ _ => "particle_species"
  | C_remove_species _ _ => "remove_particle_species"
  | C_status _ _ => "particle_status"
  | C_pT _ _ => "pT_cut"
  | C_mT _ _ => "mT_cut"
  | C_spacetime _ _ _ => "spacetime_cut"
  | C_rap n _ _ _ => n
  | C_rap1 n _ _ => n
  | C_energy _ => "lower_event_energy_cut"
  | C_mult _ _ => "multiplicity_cut"
  end%string.

Definition call_val (c : fcall) : pyv :=
  match c with
  | C_switch _ _ _ on => VBool on
  | C_photons on => VBool on
  | C_species s ids | C_remove_species s ids | C_status s ids => v_ids s ids
  | C_pT lo hi | C_mT lo hi | C_mult lo hi => v_pair (v_lim lo) (v_lim hi)
  | C_spacetime d lo hi => VList [v_dim d; v_pair (v_lim lo) (v_lim hi)]
  | C_rap _ _ c1 c2 => v_pair (v_num c1) (v_num c2)
  | C_rap1 _ _ c => v_num c
  | C_energy thr => v_num thr
  end.

Definition call_op (c : fcall) : fop :=
  match c with
  | C_switch _ a zero on => if on then PLevel (if zero then vanishes a else holds a) else Noop
  | C_photons on => if on then PLevel (pdg_notin [22%Z]) else Noop
  | C_species _ ids => PLevel (pdg_in ids)
  | C_remove_species _ ids => PLevel (pdg_notin ids)
  | C_status _ ids => PLevel (status_in ids)
  | C_pT lo hi => PLevel (window M_pT_abs lo hi)
  | C_mT lo hi => PLevel (window M_mT lo hi)
  | C_spacetime d lo hi => PLevel (window (dim_acc d) lo hi)
  | C_rap _ a c1 c2 => PLevel (window2 a c1 c2)
  | C_rap1 _ a c => PLevel (window_sym a c)
  | C_energy thr => ELevel (fun ev => fle (num_val thr) (total_energy ev))
  | C_mult lo hi => ELevel (fun ev => between_excl (lo_of lo) (hi_of hi) (fofZ (Z.of_nat (length ev))))
  end.

(* the switch filters and the rapidity-like cuts by name *)
Definition switch_table : list (string * (acc * bool)) :=
  [ ("charged_particles", (A_charge, false)); ("uncharged_particles", (A_charge, true));
    ("participants", (A_ncoll, false)); ("spectators", (A_ncoll, true));
    ("keep_hadrons", (M_is_hadron, false)); ("keep_leptons", (M_is_lepton, false));
    ("keep_quarks", (M_is_quark, false)); ("keep_mesons", (M_is_meson, false));
    ("keep_baryons", (M_is_baryon, false)); ("keep_up", (M_has_up, false)); ("keep_down", (M_has_down, false));
    ("keep_strange", (M_has_strange, false)); ("keep_charm", (M_has_charm, false));
    ("keep_bottom", (M_has_bottom, false)); ("keep_top", (M_has_top, false)) ]%string.
Definition rap_table : list (string * acc) :=
  [ ("rapidity_cut", M_rapidity); ("pseudorapidity_cut", M_pseudorapidity);
    ("spacetime_rapidity_cut", M_spacetime_rapidity) ]%string.

Definition admissible (c : fcall) : Prop :=
  match c with
  | C_switch n a z _ => In (n, (a, z)) switch_table
  | C_photons _ => True
  | C_species s ids | C_remove_species s ids | C_status s ids => shape_ok s ids /\ forallb in_int64 ids = true
  | C_pT lo hi | C_mT lo hi | C_mult lo hi => (lo <> LNone \/ hi <> LNone) /\ lim_nonneg lo /\ lim_nonneg hi
  | C_spacetime _ lo hi => lo <> LNone \/ hi <> LNone
  | C_rap n a _ _ | C_rap1 n a _ => In (n, a) rap_table
  | C_energy thr => num_pos thr
  end.

Definition dict_of (cs : list fcall) : list (string * pyv) := map (fun c => (call_key c, call_val c)) cs.

(* every accessor returned a value on every particle; the pdg accessor an int or nan *)
Definition obs_total (evs : list (list pobs)) : Prop :=
  forall ev p, In ev evs -> In p ev ->
    (forall a, exists v, obs p a = Ret v) /\ (obs p A_pdg <> Ret PInf /\ obs p A_pdg <> Ret NInf).

(* Hand model of sparkx.Histogram (src/sparkx/Histogram.py), statement by statement.

   Numbers: a finite double is the rational it denotes, carrier [Qc] (canonical rationals, Leibniz
   equality, executable).  A cell of a numpy float array is [option Qc]; [None] stands for a
   non-finite entry (NaN, or +-inf: the two are collapsed, sign tests on [None] are false).
   Arrays carry their numpy shape: [A1 v] is 1-D, [A2 rows] is 2-D, so that "an average left a
   1-D array behind" is a state of the model and not something the types exclude.
   Python exceptions are results [Err cls]; the state after an exception is not modelled (a history
   ends at the first exception).
   Oracles (section variables, no laws assumed in the model): [usqrt] = np.sqrt on a non-negative
   finite argument, [ulinspace lo hi n] = np.linspace(lo, hi, num=n+1).
   numpy primitives are their documented list semantics: digitize (= searchsorted side 'right' on
   non-decreasing bins, mirrored on non-increasing bins, ValueError otherwise), insert, delete,
   vstack, average(axis=0, weights), sum(axis=0), reshape(1,-1).
   Input domain: values/weights/factors/errors are floats or NaN, given as scalars or 1-D lists;
   weights of average_weighted a 1-D list; labels and column names are abstracted to numbers
   (only equality of names is ever used).  On arrays whose shape has drifted to 1-D the model gives
   numpy's error where that is a one-liner and [Err Unmodelled] otherwise. *)
From Coq Require Import List ZArith QArith Qcanon Bool Arith.
Import ListNotations.
Local Open Scope Qc_scope.

Inductive ecls := TypeError | ValueError | IndexError | KeyError | AttributeError
                | ZeroDivisionError | Unmodelled.
Inductive result (A : Type) := Ok (a : A) | Err (c : ecls).
Arguments Ok {A} a. Arguments Err {A} c.
Definition bind {A B} (r : result A) (f : A -> result B) : result B :=
  match r with Ok a => f a | Err c => Err c end.
Notation "'do' x <- r ; k" := (bind r (fun x => k)) (at level 200, x name, r at level 100, k at level 200).

(* ---------------------------------------------------------------- numbers *)
Definition Qcleb (x y : Qc) : bool := Qle_bool x y.
Definition Qcltb (x y : Qc) : bool := negb (Qle_bool y x).
Definition q2 : Qc := Q2Qc (2 # 1).

Definition cell := option Qc.
Definition c0 : cell := Some 0.
Definition c1 : cell := Some 1.
Definition cadd (a b : cell) : cell := match a, b with Some x, Some y => Some (x + y) | _, _ => None end.
Definition csub (a b : cell) : cell := match a, b with Some x, Some y => Some (x - y) | _, _ => None end.
Definition cmul (a b : cell) : cell := match a, b with Some x, Some y => Some (x * y) | _, _ => None end.
(* numpy float division: x/0 is inf or NaN (a warning, not an exception) *)
Definition cdiv (a b : cell) : cell :=
  match a, b with Some x, Some y => if Qc_eq_bool y 0 then None else Some (x / y) | _, _ => None end.
Definition csq (a : cell) : cell := cmul a a.
Definition c_is0 (a : cell) : bool := match a with Some x => Qc_eq_bool x 0 | None => false end.
Definition c_neg (a : cell) : bool := match a with Some x => Qcltb x 0 | None => false end.
Definition c_nan (a : cell) : bool := match a with None => true | Some _ => false end.

Definition csum (l : list cell) : cell := fold_right cadd c0 l.
Definition map2 {A B C} (f : A -> B -> C) (a : list A) (b : list B) : list C :=
  map (fun p => f (fst p) (snd p)) (combine a b).
(* element-wise operation of two 1-D arrays of equal length (no broadcasting needed by the callers) *)
Definition zipw (f : cell -> cell -> cell) (a b : list cell) : result (list cell) :=
  if Nat.eqb (length a) (length b) then Ok (map2 f a b) else Err ValueError.

Definition nth_res {A} (l : list A) (i : nat) : result A :=
  match nth_error l i with Some x => Ok x | None => Err IndexError end.
Fixpoint upd_nth {A} (i : nat) (f : A -> A) (l : list A) : list A :=
  match l, i with
  | [], _ => []
  | x :: t, O => f x :: t
  | x :: t, S j => x :: upd_nth j f t
  end.
Fixpoint insert_at {A} (i : nat) (x : A) (l : list A) : list A :=
  match i, l with
  | O, _ => x :: l
  | S j, y :: t => y :: insert_at j x t
  | S _, [] => [x]
  end.
Fixpoint delete_at {A} (i : nat) (l : list A) : list A :=
  match l, i with
  | [], _ => []
  | _ :: t, O => t
  | y :: t, S j => y :: delete_at j t
  end.
Fixpoint mapM {A B} (f : A -> result B) (l : list A) : result (list B) :=
  match l with
  | [] => Ok []
  | x :: t => do y <- f x; do r <- mapM f t; Ok (y :: r)
  end.

(* ---------------------------------------------------------------- arrays with shape *)
Inductive arr := A1 (v : list cell) | A2 (rows : list (list cell)).

(* a[-1] <- f(a[-1]) on the last ROW; a 1-D array has no rows: numpy raises IndexError on a[-1, j] *)
Fixpoint upd_last {A} (f : A -> result A) (l : list A) : result (list A) :=
  match l with
  | [] => Err IndexError
  | [x] => do y <- f x; Ok [y]
  | x :: t => do r <- upd_last f t; Ok (x :: r)
  end.
Definition upd_last_row (a : arr) (f : list cell -> result (list cell)) : result arr :=
  match a with
  | A2 rows => do r <- upd_last f rows; Ok (A2 r)
  | A1 _ => Err IndexError
  end.
Definition last_row (a : arr) : result (list cell) :=
  match a with
  | A2 rows => match rows with [] => Err IndexError | _ => Ok (last rows []) end
  | A1 _ => Err Unmodelled
  end.
(* np.asarray([g(row) for row in a]) *)
Definition map_rows (a : arr) (g : list cell -> result (list cell)) : result arr :=
  match a with
  | A2 rows => do r <- mapM g rows; Ok (A2 r)
  | A1 _ => Err Unmodelled
  end.
(* np.vstack((a, row)) : a 1-D array is promoted to one row *)
Definition vstack (a : arr) (row : list cell) : result arr :=
  match a with
  | A2 rows => if forallb (fun r => Nat.eqb (length r) (length row)) rows then Ok (A2 (rows ++ [row])) else Err ValueError
  | A1 v => if Nat.eqb (length v) (length row) then Ok (A2 [v; row]) else Err ValueError
  end.
(* x.reshape(1, -1) *)
Definition reshape_row (a : arr) : arr :=
  match a with A1 v => A2 [v] | A2 rows => A2 [concat rows] end.

(* ---------------------------------------------------------------- the object *)
Record hist := mkH {
  nbins : nat;               (* number_of_bins_ *)
  edges : list Qc;           (* bin_edges_ *)
  nhist : nat;               (* number_of_histograms_ *)
  hH : arr;                  (* histograms_ *)
  hRAW : arr;                (* histograms_raw_count_ *)
  hERR : arr;                (* error_ *)
  hSCAL : arr;               (* scaling_ *)
  hSYS : arr                 (* systematic_error_ *)
}.

Definition zeros (n : nat) : list cell := repeat c0 n.
Definition ones (n : nat) : list cell := repeat c1 n.

Definition fresh (n : nat) (es : list Qc) : hist :=
  mkH n es 1 (A2 [zeros n]) (A2 [zeros n]) (A2 [zeros n]) (A2 [ones n]) (A2 [zeros n]).

(* bin_width(), bin_centers(), bin_bounds_left(), bin_bounds_right() *)
Definition widths (es : list Qc) : list Qc := map2 (fun r l => r - l) (tl es) (removelast es).
Definition centers (es : list Qc) : list Qc := map2 (fun l r => (l + r) / q2) (removelast es) (tl es).
Definition bounds_left (es : list Qc) : list Qc := removelast es.
Definition bounds_right (es : list Qc) : list Qc := tl es.

(* np.digitize(x, bins) with right=False *)
Fixpoint nondecreasing (es : list Qc) : bool :=
  match es with
  | a :: ((b :: _) as t) => Qcleb a b && nondecreasing t
  | _ => true
  end.
Fixpoint nonincreasing (es : list Qc) : bool :=
  match es with
  | a :: ((b :: _) as t) => Qcleb b a && nonincreasing t
  | _ => true
  end.
Definition count_le (v : Qc) (es : list Qc) : nat := length (filter (fun e => Qcleb e v) es).
Definition count_gt (v : Qc) (es : list Qc) : nat := length (filter (fun e => Qcltb v e) es).
Definition digitize (v : Qc) (es : list Qc) : result nat :=
  if nondecreasing es then Ok (count_le v es)
  else if nonincreasing es then Ok (count_gt v es)
  else Err ValueError.

Section WithOracles.
  Variable usqrt : Qc -> Qc.
  Variable ulinspace : Qc -> Qc -> nat -> list Qc.

  Definition csqrt (a : cell) : cell :=
    match a with Some x => if Qcltb x 0 then None else Some (usqrt x) | None => None end.

  (* ------------------------------------------------------------ __init__ *)
  (* tuple (hist_min, hist_max, num_bins); [is_int] = isinstance(num_bins, int) *)
  Definition init_tuple (lo hi : Qc) (is_int : bool) (n : Z) : result hist :=
    if Qcltb hi lo || Qc_eq_bool lo hi then Err ValueError
    else if negb is_int || (n <=? 0)%Z then Err ValueError
    else Ok (fresh (Z.to_nat n) (ulinspace lo hi (Z.to_nat n))).
  (* list / ndarray of edges: no validation; number_of_bins_ = len - 1, np.zeros(-1) raises *)
  Definition init_list (es : list Qc) : result hist :=
    match es with [] => Err ValueError | _ => Ok (fresh (length es - 1) es) end.

  (* ------------------------------------------------------------ add_value *)
  Inductive vals := VScalar (c : cell) | VList (l : list cell).
  Inductive wts := WNone | WScalar (c : cell) | WList (l : list cell).

  Definition add_at (j : nat) (w : cell) (row : list cell) : result (list cell) :=
    if j <? length row then Ok (upd_nth j (fun c => cadd c w) row) else Err IndexError.

  (* the scalar branch ("Case 1.1") after the NaN test, weight already a number or absent *)
  Definition fill_one (h : hist) (v : Qc) (w : cell) : result hist :=
    do k <- digitize v (edges h);
    if (k =? 0) || (nbins h <? k) then Ok h
    else
      do H' <- upd_last_row (hH h) (add_at (k - 1) w);
      do R' <- upd_last_row (hRAW h) (add_at (k - 1) w);
      Ok (mkH (nbins h) (edges h) (nhist h) H' R' (hERR h) (hSCAL h) (hSYS h)).

  (* add_value(element, weight=w) for one element of a list: the weight check of the recursive call,
     then the NaN test, then the scalar branch *)
  Definition fill_elem (h : hist) (v : cell) (w : option cell) : result hist :=
    match w with
    | Some wc => if c_nan wc then Err ValueError
                 else match v with None => Err ValueError | Some x => fill_one h x wc end
    | None => match v with None => Err ValueError | Some x => fill_one h x c1 end
    end.

  Fixpoint fill_list (h : hist) (l : list (cell * option cell)) : result hist :=
    match l with
    | [] => Ok h
    | (v, w) :: t => do h' <- fill_elem h v w; fill_list h' t
    end.

  Definition add_value (h : hist) (v : vals) (w : wts) : result hist :=
    match w, v with
    | WNone, VScalar c => fill_elem h c None
    | WNone, VList l => if existsb c_nan l then Err ValueError else fill_list h (map (fun c => (c, None)) l)
    | WScalar wc, VScalar c => fill_elem h c (Some wc)
    | WScalar _, VList _ => Err ValueError            (* "Value must be numeric when weight is scalar" *)
    | WList wl, VScalar c =>        (* length test, NaN test; an in-range value then fails in `+= list` (numpy) *)
        if negb (Nat.eqb (length wl) 1) then Err ValueError
        else match c with
             | None => Err ValueError
             | Some x => do k <- digitize x (edges h);
                         if (k =? 0) || (nbins h <? k) then Ok h else Err ValueError
             end
    | WList wl, VList l =>
        if negb (Nat.eqb (length wl) (length l)) then Err ValueError
        else if existsb c_nan l then Err ValueError
        else fill_list h (map (fun p => (fst p, Some (snd p))) (combine l wl))
    end.

  (* ------------------------------------------------------------ add_histogram *)
  Definition add_histogram (h : hist) : result hist :=
    do H' <- vstack (hH h) (zeros (nbins h));
    do R' <- vstack (hRAW h) (zeros (nbins h));
    do S' <- vstack (hSCAL h) (ones (nbins h));
    do E' <- vstack (hERR h) (zeros (nbins h));
    do Y' <- vstack (hSYS h) (zeros (nbins h));
    Ok (mkH (nbins h) (edges h) (S (nhist h)) H' R' E' S' Y').

  (* ------------------------------------------------------------ statistical_error *)
  (* for k, histogram in enumerate(self.histogram()): self.error_[k] = np.sqrt(histogram) *)
  Fixpoint stat_rows (rows erows : list (list cell)) : result (list (list cell)) :=
    match rows, erows with
    | [], _ => Ok erows
    | _ :: _, [] => Err IndexError
    | r :: t, e :: et => if Nat.eqb (length e) (length r)
                         then do rest <- stat_rows t et; Ok (map csqrt r :: rest)
                         else Err ValueError
    end.
  Definition statistical_error (h : hist) : result hist :=
    match hH h, hERR h with
    | A2 rows, A2 erows => do E' <- stat_rows rows erows;
                           Ok (mkH (nbins h) (edges h) (nhist h) (hH h) (hRAW h) (A2 E') (hSCAL h) (hSYS h))
    | _, _ => Err Unmodelled
    end.

  (* ------------------------------------------------------------ scale_histogram *)
  Inductive scl := SScalar (c : cell) | SList (l : list cell).

  (* a[-1] *= c : on a 2-D array the last row, on a 1-D array the last ELEMENT *)
  Definition scale_last_scalar (a : arr) (c : cell) : result arr :=
    match a with
    | A2 rows => do r <- upd_last (fun row => Ok (map (fun x => cmul x c) row)) rows; Ok (A2 r)
    | A1 v => do r <- upd_last (fun x => Ok (cmul x c)) v; Ok (A1 r)
    end.
  Definition scale_last_list (a : arr) (l : list cell) : result arr :=
    match a with
    | A2 rows => do r <- upd_last (fun row => zipw cmul row l) rows; Ok (A2 r)
    | A1 _ => Err ValueError
    end.

  Definition scale_histogram (h : hist) (s : scl) : result hist :=
    match s with
    | SScalar c =>
        if c_neg c then Err ValueError
        else
          do H' <- scale_last_scalar (hH h) c;
          do S' <- scale_last_scalar (hSCAL h) c;
          do E' <- scale_last_scalar (hERR h) c;
          Ok (mkH (nbins h) (edges h) (nhist h) H' (hRAW h) E' S' (hSYS h))
    | SList l =>
        if existsb c_neg l then Err ValueError
        else if negb (Nat.eqb (length l) (nbins h)) then Err ValueError
        else
          do lastH <- match hH h with A2 _ => last_row (hH h) | A1 _ => Err ValueError end;
          if negb (Nat.eqb (length l) (length lastH)) then Err ValueError
          else
            do H' <- scale_last_list (hH h) l;
            do S' <- scale_last_list (hSCAL h) l;
            do E' <- scale_last_list (hERR h) l;
            Ok (mkH (nbins h) (edges h) (nhist h) H' (hRAW h) E' S' (hSYS h))
    end.

  (* ------------------------------------------------------------ set_error / set_systematic_error *)
  Definition set_last_row (a : arr) (l : list cell) : result arr :=
    match a with
    | A2 rows => do r <- upd_last (fun row => if Nat.eqb (length row) (length l) then Ok l else Err ValueError) rows; Ok (A2 r)
    | A1 _ => Err ValueError
    end.
  Definition set_error (h : hist) (l : list cell) : result hist :=
    if negb (Nat.eqb (length l) (nbins h)) then Err ValueError
    else do E' <- set_last_row (hERR h) l;
         Ok (mkH (nbins h) (edges h) (nhist h) (hH h) (hRAW h) E' (hSCAL h) (hSYS h)).
  Definition set_systematic_error (h : hist) (l : list cell) : result hist :=
    if negb (Nat.eqb (length l) (nbins h)) then Err ValueError
    else do Y' <- set_last_row (hSYS h) l;
         Ok (mkH (nbins h) (edges h) (nhist h) (hH h) (hRAW h) (hERR h) (hSCAL h) Y').

  (* ------------------------------------------------------------ make_density *)
  Definition make_density (h : hist) : result hist :=
    if Nat.eqb (nhist h) 0 then Err ValueError
    else
      do last <- last_row (hH h);
      let ws := map (@Some Qc) (widths (edges h)) in
      do density <- zipw cdiv last ws;
      do dw <- zipw cmul density ws;
      let integral := csum dw in
      if c_is0 integral then Err ValueError
      else
        let scale_factor := cdiv c1 integral in
        do h1 <- statistical_error h;
        scale_histogram h1 (SList (map (fun w => cdiv scale_factor w) ws)).

  (* ------------------------------------------------------------ averaging *)
  Definition ncols (rows : list (list cell)) : nat := match rows with [] => 0 | r :: _ => length r end.
  Definition rect (rows : list (list cell)) : bool := forallb (fun r => Nat.eqb (length r) (ncols rows)) rows.
  (* np.sum(a, axis=0) *)
  Definition colsum (rows : list (list cell)) : list cell :=
    fold_right (fun r acc => map2 cadd r acc) (zeros (ncols rows)) rows.
  (* np.average(a, axis=0, weights=w), w 1-D: sum_k w_k a_k / sum_k w_k *)
  Definition average0 (rows : list (list cell)) (ws : list cell) : result (list cell) :=
    if negb (rect rows) then Err Unmodelled
    else if negb (Nat.eqb (length ws) (length rows)) then Err ValueError
    else
      let scl := csum ws in
      if c_is0 scl then Err ZeroDivisionError
      else Ok (map (fun c => cdiv c scl) (colsum (map2 (fun w r => map (cmul w) r) ws rows))).
  (* np.average(a, axis=0, weights=W), W of the shape of a *)
  Definition average0_2d (rows wrows : list (list cell)) : result (list cell) :=
    if negb (rect rows && rect wrows && Nat.eqb (length rows) (length wrows) && Nat.eqb (ncols rows) (ncols wrows))
    then Err ValueError
    else
      let scl := colsum wrows in
      if existsb c_is0 scl then Err ZeroDivisionError
      else Ok (map2 cdiv (colsum (map2 (map2 cmul) rows wrows)) scl).

  Definition rows_of (a : arr) : result (list (list cell)) :=
    match a with A2 rows => Ok rows | A1 _ => Err Unmodelled end.
  (* np.asarray(self.scaling_[0]); reshape(1,-1) if 1-D *)
  Definition first_row_2d (a : arr) : result arr :=
    match a with
    | A2 (r :: _) => Ok (A2 [r])
    | A2 [] => Err IndexError
    | A1 _ => Err Unmodelled
    end.

  Definition average_weighted (h : hist) (ws : list cell) : result hist :=
    do rows <- rows_of (hH h);
    do avg <- average0 rows ws;
    do variance <- average0 (map (fun r => map2 (fun x a => csq (csub x a)) r avg) rows) ws;
    let H' := reshape_row (A1 avg) in
    let E' := reshape_row (A1 (map csqrt variance)) in
    do srows <- rows_of (hSYS h);
    do savg <- average0 (map (map csq) srows) ws;
    let Y' := reshape_row (A1 (map csqrt savg)) in
    do rrows <- rows_of (hRAW h);
    let R' := reshape_row (A1 (colsum rrows)) in
    do S' <- first_row_2d (hSCAL h);
    Ok (mkH (nbins h) (edges h) 1 H' R' E' S' Y').

  Definition average (h : hist) : result hist := average_weighted h (ones (nhist h)).

  Definition average_weighted_by_error (h : hist) : result hist :=
    do erows <- rows_of (hERR h);
    if existsb (existsb c_is0) erows then Err TypeError
    else
      let W := map (map (fun e => cdiv c1 (csq e))) erows in
      do rows <- rows_of (hH h);
      do avg <- average0_2d rows W;
      let H' := reshape_row (A1 avg) in
      let E' := reshape_row (A1 (map (fun s => csqrt (cdiv c1 s)) (colsum W))) in
      do srows <- rows_of (hSYS h);
      do savg <- average0_2d (map (map csq) srows) W;
      let Y' := reshape_row (A1 (map csqrt savg)) in
      do rrows <- rows_of (hRAW h);
      let R' := reshape_row (A1 (colsum rrows)) in
      do S' <- first_row_2d (hSCAL h);
      Ok (mkH (nbins h) (edges h) 1 H' R' E' S' Y').

  (* ------------------------------------------------------------ add_bin / remove_bin *)
  Definition ins_row (i : nat) (x : cell) (row : list cell) : result (list cell) :=
    if i <=? length row then Ok (insert_at i x row) else Err IndexError.
  Definition del_row (i : nat) (row : list cell) : result (list cell) :=
    if i <? length row then Ok (delete_at i row) else Err IndexError.

  Definition add_bin (h : hist) (index : Z) (e : Qc) : result hist :=
    if (index <? 0)%Z || (Z.of_nat (length (edges h)) <=? index)%Z then Err ValueError
    else
      let i := Z.to_nat index in
      if (0 <? i) && Qcleb e (nth (i - 1) (edges h) 0) then Err ValueError
      else if Qcleb (nth i (edges h) 0) e then Err ValueError
      else
        do H' <- map_rows (hH h) (ins_row i c0);
        do E' <- map_rows (hERR h) (ins_row i c0);
        do R' <- map_rows (hRAW h) (ins_row i c0);
        do Y' <- map_rows (hSYS h) (ins_row i c0);
        do S' <- map_rows (hSCAL h) (ins_row i c1);
        Ok (mkH (S (nbins h)) (insert_at i e (edges h)) (nhist h) H' R' E' S' Y').

  Definition remove_bin (h : hist) (index : Z) : result hist :=
    if (index <? 0)%Z || (Z.of_nat (nbins h) <=? index)%Z then Err ValueError
    else
      let i := Z.to_nat index in
      do H' <- map_rows (hH h) (del_row i);
      do E' <- map_rows (hERR h) (del_row i);
      do R' <- map_rows (hRAW h) (del_row i);
      do Y' <- map_rows (hSYS h) (del_row i);
      do S' <- map_rows (hSCAL h) (del_row i);
      Ok (mkH (nbins h - 1) (delete_at i (edges h)) (nhist h) H' R' E' S' Y').

  (* ------------------------------------------------------------ write_to_file *)
  (* column names: 0..7 = bin_center, bin_low, bin_high, distribution, stat_err+, stat_err-, sys_err+,
     sys_err-; any other number is a non-default key.  A label dictionary is an association list. *)
  Definition default_columns : list nat := seq 0 8.
  Definition ldict := list (nat * nat).
  Fixpoint lookup (d : ldict) (k : nat) : result nat :=
    match d with
    | [] => Err KeyError
    | (k', v) :: t => if Nat.eqb k k' then Ok v else lookup t k
    end.
  Definition has_key (d : ldict) (k : nat) : bool := existsb (fun kv => Nat.eqb k (fst kv)) d.

  Definition cell2 (a : arr) (idx i : nat) : result cell :=
    match a with
    | A2 rows => do r <- nth_res rows idx; nth_res r i
    | A1 v => do _x <- nth_res v idx; Err IndexError       (* indexing a scalar *)
    end.
  Definition qcell (l : list Qc) (i : nat) : result cell := do x <- nth_res l i; Ok (Some x).

  Definition data_row (h : hist) (idx i : nat) : result (list cell) :=
    do a0 <- qcell (centers (edges h)) i;
    do a1 <- qcell (bounds_left (edges h)) i;
    do a2 <- qcell (bounds_right (edges h)) i;
    do a3 <- cell2 (hH h) idx i;
    do a4 <- cell2 (hERR h) idx i;
    do a6 <- cell2 (hSYS h) idx i;
    Ok [a0; a1; a2; a3; a4; a4; a6; a6].

  Definition table := list (list nat * list (list cell)).   (* per histogram: header, rows *)

  Definition write_to_file (h : hist) (labels : list ldict) (columns : option (list nat)) : result table :=
    do _c <- match columns with
             | Some cols => match labels with
                            | [] => Err IndexError
                            | d0 :: _ => if forallb (has_key d0) cols then Ok tt else Err TypeError
                            end
             | None => Ok tt
             end;
    do labels' <- (if (1 <? nhist h) && Nat.eqb (length labels) 1 then Ok (concat (repeat labels (nhist h)))
                   else if (1 <? nhist h) && (1 <? length labels) && (length labels <? nhist h) then Err ValueError
                   else Ok labels);
    do cols <- match columns with
               | None => Ok default_columns
               | Some cols => if forallb (fun c => existsb (Nat.eqb c) default_columns) cols then Ok cols else Err ValueError
               end;
    mapM (fun idx =>
            do d <- nth_res labels' idx;
            do header <- mapM (lookup d) cols;
            do rows <- mapM (fun i => do data <- data_row h idx i; mapM (fun c => nth_res data c) cols) (seq 0 (nbins h));
            Ok (header, rows))
         (seq 0 (nhist h)).

  (* ------------------------------------------------------------ histories *)
  Inductive op :=
  | OFill (v : vals) (w : wts) | OAddHist | OScale (s : scl) | OSetErr (l : list cell) | OSetSys (l : list cell)
  | OStatErr | ODensity | OAddBin (i : Z) (e : Qc) | ORemoveBin (i : Z)
  | OAverage | OAvgW (ws : list cell) | OAvgErr.

  Definition step (h : hist) (o : op) : result hist :=
    match o with
    | OFill v w => add_value h v w
    | OAddHist => add_histogram h
    | OScale s => scale_histogram h s
    | OSetErr l => set_error h l
    | OSetSys l => set_systematic_error h l
    | OStatErr => statistical_error h
    | ODensity => make_density h
    | OAddBin i e => add_bin h i e
    | ORemoveBin i => remove_bin h i
    | OAverage => average h
    | OAvgW ws => average_weighted h ws
    | OAvgErr => average_weighted_by_error h
    end.

  Fixpoint run (h : hist) (ops : list op) : result hist :=
    match ops with
    | [] => Ok h
    | o :: t => do h' <- step h o; run h' t
    end.

  (* the same run, recording the state after every operation (used by the correspondence) *)
  Fixpoint trace (h : hist) (ops : list op) : list (result hist) :=
    match ops with
    | [] => []
    | o :: t => match step h o with
                | Ok h' => Ok h' :: trace h' t
                | Err c => [Err c]
                end
    end.
End WithOracles.

(* ---------------------------------------------------------------- shape (the invariant of C10) *)
Definition shape2b (k n : nat) (a : arr) : bool :=
  match a with
  | A2 rows => Nat.eqb (length rows) k && forallb (fun r => Nat.eqb (length r) n) rows
  | A1 _ => false
  end.
Definition shapeb (h : hist) : bool :=
  (1 <=? nhist h) && Nat.eqb (length (edges h)) (S (nbins h))
  && shape2b (nhist h) (nbins h) (hH h) && shape2b (nhist h) (nbins h) (hRAW h)
  && shape2b (nhist h) (nbins h) (hERR h) && shape2b (nhist h) (nbins h) (hSCAL h)
  && shape2b (nhist h) (nbins h) (hSYS h).

(* ---------------------------------------------------------------- executable oracles *)
(* sqrt of a non-negative rational: exact on squares of rationals, otherwise rounded down at relative
   precision 1e-20 (the correspondence compares with np.sqrt within 1e-9) *)
Definition sqrt_scale : Z := (10 ^ 20)%Z.
Definition qsqrt (x : Qc) : Qc :=
  let n := Qnum x in let d := Zpos (Qden x) in
  let sn := Z.sqrt n in let sd := Z.sqrt d in
  if ((sn * sn =? n) && (sd * sd =? d))%Z then Q2Qc (Qmake sn (Z.to_pos sd))
  else Q2Qc (Qmake (Z.sqrt (n * d * sqrt_scale * sqrt_scale)) (Z.to_pos (d * sqrt_scale))).
(* exact linspace: lo + i (hi - lo) / n, i = 0..n *)
Definition linspace_exact (lo hi : Qc) (n : nat) : list Qc :=
  map (fun i => lo + Q2Qc (Z.of_nat i # 1) * (hi - lo) / Q2Qc (Z.of_nat n # 1)) (seq 0 (S n)).

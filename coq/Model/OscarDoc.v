(* The format definition: what a well-formed Oscar-family file is, how it is rendered as lines,
   and what loading it is expected to yield.  (Specification side; the loader model is Model/Oscar.v.) *)
From Coq Require Import List String ZArith QArith Bool Arith.
From SX Require Import Lib.Strs Gen.GenParticleMap Model.Oscar.
Import ListNotations.
Local Open Scope string_scope.

Record event := { e_head : line; e_rows : list line; e_foot : line }.
Record doc := { d_h1 : line; d_h2 : line; d_h3 : line; d_events : list event }.

Definition render_event (e : event) : list line := e_head e :: (e_rows e ++ [e_foot e])%list.
Definition render_events (evs : list event) : list line := flat_map render_event evs.
Definition render (d : doc) : list line := d_h1 d :: d_h2 d :: d_h3 d :: render_events (d_events d).

Section WF.
  Variable tok_float : string -> option Q.
  Variable tok_int : string -> option Q.
  Variable pdg_valid : Q -> bool.

  Definition zq (z : Z) : Q := inject_Z z.

  (* every line is recognised as what it is, and says what the format definition makes it say *)
  Definition wf_row (fmt : string) (attrs : list string) (r : line) : Prop :=
    kind_scan r = SOther /\ kind_loop r = KRow /\
    exists p, mk_particle tok_float tok_int pdg_valid fmt attrs r = Ok p.

  Definition wf_event (fmt : string) (attrs : list string) (i : nat) (e : event) : Prop :=
    kind_scan (e_head e) = SOut /\ kind_loop (e_head e) = KSkip /\
    (exists lt ct, nth_error (e_head e) 2 = Some lt /\ nth_error (e_head e) 4 = Some ct /\
                   tok_int lt = Some (zq (Z.of_nat i)) /\
                   tok_int ct = Some (zq (Z.of_nat (List.length (e_rows e))))) /\
    Forall (wf_row fmt attrs) (e_rows e) /\
    kind_scan (e_foot e) = SEnd /\ kind_loop (e_foot e) = KEnd /\
    (exists b, impact_of tok_float (e_foot e) = Ok b).

  Fixpoint wf_events (fmt : string) (attrs : list string) (i : nat) (evs : list event) : Prop :=
    match evs with
    | [] => True
    | e :: t => wf_event fmt attrs i e /\ wf_events fmt attrs (S i) t
    end.

  Definition wf_last (n : nat) (foot : line) : Prop :=
    nth 0 foot "" = "#" /\ (2 <= List.length foot)%nat /\ mem_str "event" (removelast_s foot) = true /\
    exists lt, nth_error foot 2 = Some lt /\ tok_int lt = Some (zq (Z.of_nat n - 1)).

  Definition std_format (fmt : string) : Prop :=
    fmt = "Oscar2013" \/ fmt = "Oscar2013Extended" \/ fmt = "ASCII".

  Definition wf (d : doc) (fmt : string) (attrs : list string) : Prop :=
    oscar_format (d_h1 d) = Ok (fmt, attrs) /\ std_format fmt /\
    kind_scan (d_h1 d) = SOther /\ kind_scan (d_h2 d) = SOther /\ kind_scan (d_h3 d) = SOther /\
    d_events d <> [] /\
    wf_events fmt attrs 0 (d_events d) /\
    wf_last (List.length (d_events d)) (e_foot (last (d_events d) {| e_head := []; e_rows := []; e_foot := [] |})).

  (* ---- what the file states *)
  Fixpoint parse_rows (fmt : string) (attrs : list string) (rows : list line) : list particle :=
    match rows with
    | [] => []
    | r :: t => match mk_particle tok_float tok_int pdg_valid fmt attrs r with
                | Ok p => p :: parse_rows fmt attrs t
                | Err _ => parse_rows fmt attrs t
                end
    end.

  Fixpoint counts_from (i : nat) (evs : list event) : list (Z * Z) :=
    match evs with
    | [] => []
    | e :: t => (Z.of_nat i, Z.of_nat (List.length (e_rows e))) :: counts_from (S i) t
    end.

  Definition expected (d : doc) (fmt : string) (attrs : list string) : loaded :=
    {| l_events := map (fun e => parse_rows fmt attrs (e_rows e)) (d_events d);
       l_nevents := Z.of_nat (List.length (d_events d));
       l_counts := counts_from 0 (d_events d);
       l_format := fmt; l_attrs := attrs;
       l_footers := map e_foot (d_events d) |}.
End WF.

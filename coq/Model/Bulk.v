(* Hand model of sparkx.BulkObservables (src/sparkx/BulkObservables.py) on top of Model/Histogram.v.

   A particle is seen only through the methods the code calls on it: the model's particle is the
   observation of those calls (what getattr(particle, quantity)() returned, and pT_abs() / mT()),
   a cell each: [None] = NaN.  [qcallable] is the observation "getattr(particle, quantity) is callable".
   Input domain: bin_properties a tuple (number, number, n) - [is_int] says whether n is an int - or a
   list of numbers; y_width a number.  Everything else as in Model/Histogram.v. *)
From Coq Require Import List ZArith QArith Qcanon Bool Arith.
From SX Require Import Model.Histogram.
Import ListNotations.
Local Open Scope Qc_scope.

Definition qnat (n : nat) : Qc := Q2Qc (Z.of_nat n # 1).

Inductive binspec := BTuple (lo hi : Qc) (is_int : bool) (n : Z) | BList (es : list Qc).

Section WithOracles.
  Variable usqrt : Qc -> Qc.
  Variable ulinspace : Qc -> Qc -> nat -> list Qc.

  (* the validation of bin_properties in _differential_yield, then Histogram(bin_properties) *)
  Definition make_hist (b : binspec) : result hist :=
    match b with
    | BTuple lo hi is_int n => if negb is_int then Err ValueError else init_tuple ulinspace lo hi true n
    | BList es => init_list es
    end.

  (* 1 / hist.bin_width() : numpy, a zero width gives inf *)
  Definition inv_widths (es : list Qc) : list cell := map (fun w => cdiv c1 (Some w)) (widths es).

  (* for particle in event: callable test, hist.add_value(particle_method()) *)
  Fixpoint fill_event (qcallable : bool) (h : hist) (ev : list cell) : result hist :=
    match ev with
    | [] => Ok h
    | q :: t => if negb qcallable then Err AttributeError
                else do h' <- fill_elem h q None; fill_event qcallable h' t
    end.

  (* for event in range(num_events): fill; if num_events > 1 and not last: hist.add_histogram() *)
  Fixpoint fill_events (qcallable : bool) (h : hist) (evs : list (list cell)) : result hist :=
    match evs with
    | [] => Ok h
    | ev :: rest =>
        do h1 <- fill_event qcallable h ev;
        match rest with
        | [] => Ok h1
        | _ :: _ => do h2 <- add_histogram h1; fill_events qcallable h2 rest
        end
    end.

  (* _differential_yield: dNdy, dNdpT, dNdEta, dNdmT differ only in the quantity observed *)
  Definition differential_yield (qcallable : bool) (b : binspec) (evs : list (list cell)) : result hist :=
    do h0 <- make_hist b;
    let inv := inv_widths (edges h0) in
    do h1 <- fill_events qcallable h0 evs;
    do h2 <- average usqrt h1;
    scale_histogram h2 (SList inv).

  (* ------------------------------------------------------------ mid-rapidity observables *)
  (* -y_width / 2 <= q <= y_width / 2 ; a NaN compares false *)
  Definition in_window (w : Qc) (q : cell) : bool :=
    match q with
    | Some x => Qcleb (- w / q2) x && Qcleb x (w / q2)
    | None => false
    end.

  (* the callable test on the first particle of the first non-empty event *)
  Fixpoint first_particle_check {A} (qcallable : bool) (evs : list (list A)) : result unit :=
    match evs with
    | [] => Ok tt
    | [] :: rest => first_particle_check qcallable rest
    | (_ :: _) :: _ => if qcallable then Ok tt else Err AttributeError
    end.

  (* particle_counter over all events *)
  Definition count_event (w : Qc) (counter : nat) (ev : list cell) : nat :=
    fold_left (fun c q => if in_window w q then S c else c) ev counter.
  Definition mid_rapidity_yield (qcallable : bool) (w : Qc) (evs : list (list cell)) : result Qc :=
    if Qcleb w 0 then Err ValueError
    else match evs with
         | [] => Ok 0
         | _ => do _u <- first_particle_check qcallable evs;
                Ok (qnat (fold_left (count_event w) evs O) / qnat (length evs))
         end.

  (* per event: (particle_counter, pT_sum) over the particles inside the window; the particle is (q, x) with
     x = pT_abs() or mT() *)
  Definition event_stats (w : Qc) (ev : list (cell * cell)) : nat * cell :=
    fold_left (fun cs p => if in_window w (fst p) then (S (fst cs), cadd (snd cs) (snd p)) else cs) ev (O, c0).
  (* (mean_sum, event_counter) over the events: an event without particles in the window does not enter *)
  Definition mean_step (w : Qc) (acc : cell * nat) (ev : list (cell * cell)) : cell * nat :=
    let cs := event_stats w ev in
    if 0 <? fst cs then (cadd (fst acc) (cdiv (snd cs) (Some (qnat (fst cs)))), S (snd acc)) else acc.
  Definition mid_rapidity_mean (qcallable : bool) (w : Qc) (evs : list (list (cell * cell))) : result cell :=
    if Qcleb w 0 then Err ValueError
    else match evs with
         | [] => Ok c0
         | _ => do _u <- first_particle_check qcallable evs;
                let acc := fold_left (mean_step w) evs (c0, O) in
                if Nat.eqb (snd acc) 0 then Ok c0 else Ok (cdiv (fst acc) (Some (qnat (snd acc))))
         end.
End WithOracles.

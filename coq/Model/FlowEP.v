(* Hand model of EventPlaneFlow (integrated_flow, differential_flow; the first two return values).
   As Model/FlowSP.v, with the event-plane specific parts:
     sub-event Q-vectors are divided by sqrt(sum w^2) (or set to 0 when that sum is 0.0),
     cosAB a b   = cos(n (Psi_A - Psi_B)),  Psi_X = arctan2(Im X, Re X) / n             (oracle, see Proofs/C12_EPReal.v)
     obs u Q     = cos(n (phi - Psi(Q))),  u = exp(i n phi)                              (oracle)
     res_fun Rn  = the Bessel-function resolution solved with brentq (or Rn on failure)  (oracle of its argument only)
   The returned event-plane angle and its error (third and fourth return values) are not modelled. *)
From Coq Require Import List ZArith QArith Bool.
From SX Require Import Lib.KRing Lib.Cpx Model.FlowRP Model.FlowSP.
Import ListNotations.

Section EP.
  Variable K : Type.
  Variables (k0 k1 : K) (kadd kmul ksub : K -> K -> K) (kopp : K -> K).
  Variables (kinv ksqrt kabs : K -> K) (kis0 : K -> bool) (kltb : K -> K -> bool).
  Variable D : Type.
  Variables (pw pwt : D -> K) (inA inB inbin : D -> bool).
  Variable cosAB : cpx K -> cpx K -> K.
  Variable obs : cpx K -> cpx K -> K.
  Variable res_fun : K -> K.
  Notation part := (part K D).
  Notation event := (event K D).
  Notation qvec := (qvec K k0 kadd kmul D pw).
  Notation qfull := (qfull K k0 kadd kmul D pw).

  (* __sum_weights and the normalisation of the sub-event vectors *)
  Definition sumw2 (sel : D -> bool) (ev : list part) : K :=
    ksum k0 kadd (map (fun p : part => kmul (pw (snd p)) (pw (snd p))) (filter (fun p : part => sel (snd p)) ev)).
  Definition qnorm (sel : D -> bool) (ev : list part) : cpx K :=
    let s := sumw2 sel ev in
    if kis0 s then c0 K k0 else cscale K kmul (kinv (ksqrt s)) (qvec sel ev).

  (* __compute_event_plane_resolution *)
  Definition rn2 (e : event) : K := cosAB (qnorm inA (snd e)) (qnorm inB (snd e)).
  Definition ep_resf (m : K) : option K :=
    if kltb m k0 then None else
    let r := res_fun (ksqrt m) in if kis0 r then None else Some r.

  (* __compute_flow_particles *)
  Definition ep_obs (self_corr : bool) (Q : cpx K) (p : part) : K :=
    let Qp := if self_corr then csub K ksub Q (cscale K kmul (kabs (pw (snd p))) (fst p)) else Q in
    obs (fst p) Qp.

  Definition ep_integrated (self_corr : bool) (evs : list event) : option K * option K :=
    skel K k0 k1 kadd kmul ksub kinv ksqrt kis0 kltb D pwt rn2 (fun e p => ep_obs self_corr (qfull (snd e)) p) ep_resf evs.
  Definition ep_differential_bin (self_corr : bool) (evs : list event) : option K * option K :=
    ep_integrated self_corr (map (to_bin K D inbin) evs).
End EP.

(* Hand model of JetscapeLoader.load / Jetscape.__init__ (hadron or parton files).  A line is the
   list of tokens of  line.replace("\n","").replace("\t"," ").split(" ");  every test the loader
   makes on the raw line uses a blank-free pattern, hence is a test on some token.  No proofs here. *)
From Coq Require Import List String ZArith QArith Qabs Bool Arith.
From SX Require Import Lib.Strs Gen.GenParticleMap Model.Oscar.
Import ListNotations.
Local Open Scope string_scope.

Section JLoader.
  Variable tok_float : string -> option Q.
  Variable tok_int : string -> option Q.
  Variable pdg_valid : Q -> bool.
  Variable pdg_charge : Q -> Q.               (* PDGID(pdg).charge, third-party table *)
  Variable usqrt : Q -> Q.                    (* numpy sqrt on a non-negative argument *)

  Definition massless_pdg : list Z := [22; 21; 12; -12; 14; -14; 16; -16; 18; -18]%Z.

  Definition sq (x : Q) : Q := x * x.
  (* Particle("JETSCAPE", tokens): the seven columns, then derived mass and charge *)
  Definition mk_jet_particle (toks : list string) : result particle :=
    p <- mk_particle tok_float tok_int pdg_valid "JETSCAPE" [] toks ;;
    match get_slot 5 p, get_slot 6 p, get_slot 7 p, get_slot 8 p, get_slot 9 p with
    | Some E, Some px, Some py, Some pz, Some pdg =>
      let mass :=
        if existsb (fun z => Qeq_bool pdg (inject_Z z)) massless_pdg then Some 0%Q
        else let p2 := (sq px + sq py + sq pz)%Q in
             if Qle_bool p2 (sq E) then Some (usqrt (sq E - p2)) else None in
      let charge :=
        if pdg_valid pdg
        then let c := pdg_charge pdg in
             Some (if Qle_bool 1 (Qabs c) then c else (c * 3)%Q)
        else None in
      Ok (set_slot 12 charge (set_slot 4 mass p))
    | _, _, _, _, _ => Err OtherError
    end.

  (* set_num_output_per_event *)
  Fixpoint jscan (defstr : string) (ls : list line) : result (list (Z * Z)) :=
    match ls with
    | [] => Ok []
    | l :: t =>
      if has "#" l && has defstr l then
        match nth_error l 2, nth_error l 8 with
        | Some e, Some c =>
          match tok_int e, tok_int c with
          | Some ev, Some cn => r <- jscan defstr t ;; Ok ((to_Z ev, to_Z cn) :: r)
          | _, _ => Err ValueError
          end
        | _, _ => Err IndexError
        end
      else jscan defstr t
    end.

  Fixpoint jsum (counts : list (Z * Z)) (from n : nat) : result Z :=
    match n with
    | O => Ok 0%Z
    | S m => c <- zcount counts from ;; r <- jsum counts (S from) m ;; Ok (c + 1 + r)%Z
    end.

  Definition jnum_skip (sel : selector) (counts : list (Z * Z)) : result Z :=
    match sel with
    | SelAll => Ok 1%Z
    | SelOne k => r <- jsum counts 0 (Z.to_nat k) ;; Ok (1 + r)%Z
    | SelRange a _ => r <- jsum counts 0 (Z.to_nat a) ;; Ok (1 + r)%Z
    end.

  Definition jnum_read (sel : selector) (counts : list (Z * Z)) : result Z :=
    match sel with
    | SelAll => match counts with
                | [] => Err IndexError
                | _ => Ok (fold_right (fun c acc => snd c + acc) 0 counts + Z.of_nat (List.length counts) + 1)%Z
                end
    | SelOne k => c <- zcount counts (Z.to_nat k) ;; Ok (c + 1 + 1)%Z
    | SelRange a b => r <- jsum counts (Z.to_nat a) (Z.to_nat (b - a + 1)) ;; Ok (r + 1)%Z
    end.

  Variable flt : option (list particle -> list particle).

  (* closing an event: labels are written 1-based *)
  Definition jclose (first : Z) (st : lstate) : result lstate :=
    let old := List.length (data st) in
    let k := List.length (plist st) in
    let d := match flt with Some f => f (data st) | None => data st end in
    c' <- match flt with
          | None => Ok (counts st)
          | Some _ =>
            if negb (List.length d =? 0)%nat || (old =? 0)%nat
            then set_row k (first + Z.of_nat k + 1, Z.of_nat (List.length d))%Z (counts st)
            else if (k <? List.length (counts st))%nat
                 then Ok (dec_labels_from k (delete_row k (counts st)))
                 else Err IndexError
          end ;;
    if negb (List.length d =? 0)%nat || (old =? 0)%nat
    then Ok {| plist := (plist st ++ [d])%list; data := d; counts := c'; cut := cut st |}
    else Ok {| plist := plist st; data := d; counts := c'; cut := (cut st + 1)%Z |}.

  Definition first_header (sel : selector) : Z :=
    match sel with SelAll => 1 | SelOne k => 1 + k | SelRange a _ => 1 + a end%Z.

  Fixpoint jread (sel : selector) (first : bool) (n : nat) (ls : list line) (st : lstate) : result lstate :=
    match n with
    | O => Ok st
    | S m =>
      match ls with
      | [] => Err IndexError
      | l :: t =>
        if has "#" l && has "sigmaGen" l then
          st' <- jclose (sel_first sel) st ;; jread sel false m t st'          (* data is not reset here *)
        else if first && negb (has "#" l) && negb (has "weight" l) then Err ValueError
        else if has "Event" l && has "weight" l then
          match nth_error l 2 with
          | None => Err IndexError
          | Some e =>
            match tok_int e with
            | None => Err ValueError
            | Some ev =>
              if (to_Z ev =? first_header sel)%Z then jread sel false m t st
              else st' <- jclose (sel_first sel) st ;;
                   jread sel false m t {| plist := plist st'; data := []; counts := counts st'; cut := cut st' |}
            end
          end
        else
          p <- mk_jet_particle l ;;
          jread sel false m t {| plist := plist st; data := (data st ++ [p])%list; counts := counts st; cut := cut st |}
      end
    end.

  Record jloaded := { j_events : list (list particle); j_nevents : Z; j_counts : list (Z * Z);
                      j_counts_2d : bool; j_sigma : Q * Q }.

  (* get_sigmaGen: the first two words of the last line that parse as floats *)
  Fixpoint first_floats (n : nat) (ws : list string) : list Q :=
    match n, ws with
    | O, _ => []
    | _, [] => []
    | S m, w :: t => match tok_float w with Some v => v :: first_floats m t | None => first_floats n t end
    end.

  Definition jload (file : list line) (defstr : string) (sel : selector) : result jloaded :=
    let lastl := last file [] in
    if negb (has "sigmaGen" lastl) then Err ValueError else
    cnts <- jscan defstr file ;;
    let nev := Z.of_nat (List.length cnts) in
    ns <- jnum_skip sel cnts ;;
    nr <- jnum_read sel cnts ;;
    st <- jread sel true (Z.to_nat nr) (skipn (Z.to_nat ns) file)
               {| plist := []; data := []; counts := sel_counts sel cnts; cut := 0 |} ;;
    let nev' := (nev - cut st)%Z in
    fin <- match sel with
           | SelAll => if (Z.of_nat (List.length (plist st)) =? nev')%Z then Ok (nev', counts st, true) else Err IndexError
           | _ => Ok (Z.of_nat (List.length (plist st)), counts st, true)
           end ;;
    match first_floats 2 (filter (fun s => negb (s =? "")) lastl) with
    | [s1; s2] =>
      Ok {| j_events := match plist st with [] => [[]] | pl => pl end;
            j_nevents := fst (fst fin); j_counts := snd (fst fin); j_counts_2d := snd fin; j_sigma := (s1, s2) |}
    | _ => Err IndexError
    end.
End JLoader.

(* comparison with the implementation (correspondence cases only) *)
Inductive jobserved :=
| JObsErr (e : err)
| JObsOk (events : list (list particle)) (nevents : Z) (counts : list (Z * Z)) (two_d : bool) (s1 s2 : Q).

Definition close9 (m i : Q) : bool := Qle_bool (Qabs (m - i)) ((1 # 1000000000) * (Qabs m + Qabs i)).
(* slot 4 (derived mass) goes through the sqrt oracle: compared within 1e-9 *)
Definition jparticle_eqb (m i : particle) : bool :=
  list_eqb oq_eqb (set_slot 4 None m) (set_slot 4 None i) &&
  match get_slot 4 m, get_slot 4 i with
  | Some a, Some b => Qeq_bool a b || close9 a b
  | None, None => true
  | _, _ => false
  end.

Definition check_jetscape (tf ti : string -> option Q) (pv : Q -> bool) (pc : Q -> Q) (sq : Q -> Q)
           (file : list line) (defstr : string) (sel : selector) (obs : jobserved) : nat :=
  match jload tf ti pv pc sq None file defstr sel, obs with
  | Err e, JObsErr e' => if err_eqb e e' then 0 else 2
  | Ok ld, JObsOk ev n c two s1 s2 =>
    if negb (list_eqb (list_eqb jparticle_eqb) (j_events ld) ev) then 3
    else if negb (j_nevents ld =? n)%Z then 4
    else if negb (list_eqb zz_eqb (j_counts ld) c) then 5
    else if negb (Bool.eqb (j_counts_2d ld) two) then 6
    else if negb (Qeq_bool (fst (j_sigma ld)) s1 && Qeq_bool (snd (j_sigma ld)) s2) then 8
    else 0
  | Ok _, JObsErr _ => 9
  | Err _, JObsOk _ _ _ _ _ _ => 10
  end%nat.

Definition qtable (t : list (Q * Q)) : Q -> Q :=
  fun q => match find (fun e => Qeq_bool (fst e) q) t with Some e => snd e | None => 0 end.

(* C07: damaged files; error classes compared loosely *)
Definition check_jdamaged (tf ti : string -> option Q) (pv : Q -> bool) (pc : Q -> Q) (sq : Q -> Q)
           (file : list line) (defstr : string) (obs : jobserved) : nat :=
  match jload tf ti pv pc sq None file defstr SelAll, obs with
  | Err e, JObsErr e' => if err_eqb e e' then 0 else 1
  | Ok ld, JObsOk ev n c two s1 s2 =>
    if negb (list_eqb (list_eqb jparticle_eqb) (j_events ld) ev) then 3
    else if negb (j_nevents ld =? n)%Z then 4
    else if negb (list_eqb zz_eqb (j_counts ld) c) then 5
    else if negb (Qeq_bool (fst (j_sigma ld)) s1 && Qeq_bool (snd (j_sigma ld)) s2) then 8
    else 0
  | Ok _, JObsErr _ => 9
  | Err _, JObsOk _ _ _ _ _ _ => 10
  end%nat.

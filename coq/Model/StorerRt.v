(* Python / numpy run-time fragment in which the bookkeeping methods of the storer classes are written
   (BaseStorer._update_num_output_per_event_after_filter, particle_list, __add__, the accessors, the
   filter wrappers, _update_after_merge of Oscar / Jetscape / ParticleObjectStorer).
   tools/py2coq/gen_storer.py translates those method bodies statement by statement into Gallina over
   this file (Gen/GenStorer.v); Proofs/C04_Source.v proves the hand model Model/Storer.v equal to the
   result.  Definitions only.

   Values are dynamically typed, as in Python.  What is abstracted (the same abstractions as
   Model/Storer.v): a particle object is its identity; the row _particle_as_list(p) is named by the
   particle; strings that are only compared (oscar_format_, particle_type_, ...) are tokens;
   event_end_lines_ is a list of line tokens; sigmaGen_ is the pair whose first component is a
   rational (a finite double) and whose second component is not modelled; np.ndarray / np.empty
   (uninitialised memory) yield zeros.  [Err OtherError] marks operations this fragment does not
   describe: no theorem concludes [Ok] through it and the hand model never produces it. *)
From Coq Require Import List ZArith Bool QArith.
From SX Require Import Lib.Py Model.Storer.
Import ListNotations.
Local Open Scope Z_scope.

Notation bind := rbind (only parsing).
Notation "x <- a ;; b" := (rbind a (fun x => b)) (at level 61, a at next level, right associativity).

Inductive pv :=
| VNone
| VBool (b : bool)
| VInt (z : Z)              (* Python int *)
| VNpInt (z : Z)            (* numpy integer scalar: what indexing an integer array yields *)
| VFloat (q : Q)            (* a finite double *)
| VTok (z : Z)              (* an opaque value that is only compared (a string) *)
| VArr (c : carr)           (* num_output_per_event_ with its shape: ndarray (n,2) / (n,) / plain list *)
| VL0                       (* the list [] (of anything) *)
| VEvs (l : list event)     (* a list of events *)
| VEv (e : event)           (* an event: a list of particle objects *)
| VP (p : pid)              (* a particle object *)
| VRow (p : pid)            (* _particle_as_list(p) *)
| VRows (l : list pid)      (* a non-empty list of rows *)
| VRowss (l : list (list pid))   (* a non-empty list of lists of rows *)
| VLines (l : list Z)       (* event_end_lines_ *)
| VSig (q : Q)              (* sigmaGen_: (q, <not modelled>) *)
| VObj (s : storer).        (* a storer object *)

(* attributes of the storer classes the translated methods may touch *)
Inductive attr := A_events | A_counts | A_nevents | A_xend | A_fmt | A_ptype | A_ptype_str | A_sigma | A_loader.

Definition py_getattr (o : pv) (a : attr) : result pv :=
  match o with
  | VObj s =>
    match a with
    | A_events => Ok (VEvs (events s))
    | A_counts => Ok (VArr (counts s))
    | A_nevents => Ok (VInt (nevents s))
    | A_xend => Ok (VLines (xend s))
    | A_fmt => Ok (VTok (xfmt s))
    | A_ptype => Ok (VTok (xptype s))
    | A_ptype_str => Ok (VTok (xptype s))
    | A_sigma => Ok (VSig (xsigma s))
    | A_loader => Err OtherError
    end
  | _ => Err AttributeError
  end.

Definition set_xend (s : storer) (l : list Z) : storer :=
  mkS (scls s) (events s) (counts s) (nevents s) l (xfmt s) (xptype s) (xsigma s).
Definition set_xsigma (s : storer) (q : Q) : storer :=
  mkS (scls s) (events s) (counts s) (nevents s) (xend s) (xfmt s) (xptype s) q.

Definition py_setattr (o : pv) (a : attr) (v : pv) : result pv :=
  match o with
  | VObj s =>
    match a, v with
    | A_events, VEvs l => Ok (VObj (set_events s l))
    | A_events, VL0 => Ok (VObj (set_events s []))
    | A_counts, VArr c => Ok (VObj (set_counts s c))
    | A_nevents, VInt n => Ok (VObj (set_nevents s n))
    | A_nevents, VNpInt n => Ok (VObj (set_nevents s n))
    | A_xend, VLines l => Ok (VObj (set_xend s l))
    | A_xend, VL0 => Ok (VObj (set_xend s []))
    | A_sigma, VSig q => Ok (VObj (set_xsigma s q))
    | A_loader, _ => Ok (VObj s)                  (* loader_ is not part of the model *)
    | _, _ => Err OtherError
    end
  | _ => Err AttributeError
  end.

Definition py_is_none (v : pv) : bool := match v with VNone => true | _ => false end.

Definition as_int (v : pv) : option Z :=
  match v with VInt z | VNpInt z => Some z | VBool b => Some (if b then 1 else 0) | _ => None end.

(* ------------------------------------------------------------------ sequences *)
Definition pyset {A} (l : list A) (i : Z) (v : A) : result (list A) :=
  let n := Z.of_nat (length l) in
  let j := if i <? 0 then n + i else i in
  if (j <? 0) || (n <=? j) then Err IndexError
  else Ok (firstn (Z.to_nat j) l ++ v :: skipn (S (Z.to_nat j)) l).

(* column index of a row of an (n,2) array *)
Definition col_of (j : Z) : option bool :=
  if (j =? 0) || (j =? -2) then Some false else if (j =? 1) || (j =? -1) then Some true else None.
Definition rget (r : Z * Z) (c : bool) : Z := if c then snd r else fst r.
Definition rset (r : Z * Z) (c : bool) (v : Z) : Z * Z := if c then (fst r, v) else (v, snd r).

Definition py_len (v : pv) : result pv :=
  match v with
  | VL0 => Ok (VInt 0)
  | VEvs l => Ok (VInt (zlen l))
  | VEv e => Ok (VInt (zlen e))
  | VRows l => Ok (VInt (zlen l))
  | VRowss l => Ok (VInt (zlen l))
  | VLines l => Ok (VInt (zlen l))
  | VArr (A2 rows) => Ok (VInt (zlen rows))
  | VArr (A1 l) | VArr (PyL l) => Ok (VInt (zlen l))
  | VSig _ => Ok (VInt 2)
  | _ => Err TypeError
  end.

(* x[i] *)
Definition py_getitem (x i : pv) : result pv :=
  match as_int i with
  | None => Err OtherError
  | Some i =>
    match x with
    | VL0 => Err IndexError
    | VEvs l => rmap VEv (pyget l i)
    | VEv e => rmap VP (pyget e i)
    | VRows l => rmap VRow (pyget l i)
    | VLines l => rmap VTok (pyget l i)
    | VArr (A2 rows) => rmap (fun r => VArr (A1 [fst r; snd r])) (pyget rows i)   (* a row *)
    | VArr (A1 l) => rmap VNpInt (pyget l i)
    | VArr (PyL l) => rmap VInt (pyget l i)
    | VNpInt _ => Err IndexError            (* invalid index to scalar variable *)
    | VInt _ | VBool _ | VFloat _ | VNone => Err TypeError     (* object is not subscriptable *)
    | VSig q => if i =? 0 then Ok (VFloat q) else Err OtherError
    | _ => Err OtherError
    end
  end.

(* x[i, j] *)
Definition py_getitem2 (x i j : pv) : result pv :=
  match as_int i, as_int j with
  | Some i, Some j =>
    match x with
    | VArr (A2 rows) =>
        r <- pyget rows i ;; match col_of j with Some c => Ok (VNpInt (rget r c)) | None => Err IndexError end
    | VArr (A1 _) => Err IndexError         (* too many indices for array *)
    | VArr (PyL _) => Err TypeError         (* list indices must be integers or slices, not tuple *)
    | _ => Err OtherError
    end
  | _, _ => Err OtherError
  end.

(* x[:, j] *)
Definition py_getcol (x j : pv) : result pv :=
  match as_int j with
  | Some j =>
    match x with
    | VArr (A2 rows) => match col_of j with Some c => Ok (VArr (A1 (map (fun r => rget r c) rows))) | None => Err IndexError end
    | VArr (A1 _) => Err IndexError
    | VArr (PyL _) => Err TypeError
    | _ => Err OtherError
    end
  | None => Err OtherError
  end.

(* x[i] = v  (the new x) *)
Definition py_setitem (x i v : pv) : result pv :=
  match as_int i, x with
  | Some i, VArr (A1 l) =>
      match as_int v with Some z => rmap (fun l' => VArr (A1 l')) (pyset l i z) | None => Err OtherError end
  | Some i, VArr (PyL l) =>
      match as_int v with Some z => rmap (fun l' => VArr (PyL l')) (pyset l i z) | None => Err OtherError end
  | Some i, VArr (A2 rows) =>             (* the scalar is broadcast over the row *)
      match as_int v with Some z => rmap (fun r' => VArr (A2 r')) (pyset rows i (z, z)) | None => Err OtherError end
  | Some i, VEvs l => match v with
                      | VEv e => rmap VEvs (pyset l i e)
                      | VL0 => rmap VEvs (pyset l i [])
                      | _ => Err OtherError
                      end
  | _, _ => Err OtherError
  end.

(* x[i][j] = v  (x[i] is a view of the array) *)
Definition py_setitem2 (x i j v : pv) : result pv :=
  match as_int i, as_int j, as_int v, x with
  | Some i, Some j, Some z, VArr (A2 rows) =>
      r <- pyget rows i ;;
      match col_of j with
      | Some c => rmap (fun r' => VArr (A2 r')) (pyset rows i (rset r c z))
      | None => Err IndexError
      end
  | Some i, Some j, Some z, VArr (A1 l) => _ <- pyget l i ;; Err TypeError      (* numpy scalar: no item assignment *)
  | Some i, Some j, Some z, VArr (PyL l) => _ <- pyget l i ;; Err TypeError
  | _, _, _, _ => Err OtherError
  end.

(* x[n:, j] += v *)
Definition slice_start (n len : Z) : nat :=
  Z.to_nat (if n <? 0 then Z.max 0 (len + n) else Z.min n len).
Definition py_iadd_colslice (x n j v : pv) : result pv :=
  match as_int n, as_int j, as_int v, x with
  | Some n, Some j, Some z, VArr (A2 rows) =>
      match col_of j with
      | Some c => let k := slice_start n (zlen rows) in
                  Ok (VArr (A2 (firstn k rows ++ map (fun r => rset r c (rget r c + z)) (skipn k rows))))
      | None => Err IndexError
      end
  | Some _, Some _, Some _, VArr (A1 _) => Err IndexError
  | Some _, Some _, Some _, VArr (PyL _) => Err TypeError
  | _, _, _, _ => Err OtherError
  end.

(* l.append(x)  (the new l) *)
Definition py_append (l x : pv) : result pv :=
  match l, x with
  | VL0, VRow p => Ok (VRows [p])
  | VRows a, VRow p => Ok (VRows (a ++ [p]))
  | VL0, VRows r => Ok (VRowss [r])
  | VL0, VL0 => Ok (VRowss [[]])
  | VRowss a, VRows r => Ok (VRowss (a ++ [r]))
  | VRowss a, VL0 => Ok (VRowss (a ++ [[]]))
  | VL0, VEv e => Ok (VEvs [e])
  | VEvs a, VEv e => Ok (VEvs (a ++ [e]))
  | VEvs a, VL0 => Ok (VEvs (a ++ [[]]))
  | VEv a, VP p => Ok (VEv (a ++ [p]))
  | VL0, VP p => Ok (VEv [p])
  | _, _ => Err OtherError
  end.

Definition py_particle_as_list (p : pv) : result pv :=
  match p with VP p => Ok (VRow p) | _ => Err OtherError end.

Fixpoint zrange_n (a : Z) (n : nat) : list Z := match n with O => [] | S n' => a :: zrange_n (a + 1) n' end.
Definition zrange (a b : Z) : list Z := zrange_n a (Z.to_nat (b - a)).
Definition py_range (a b : pv) : result (list pv) :=
  match as_int a, as_int b with
  | Some a, Some b => Ok (map VInt (zrange a b))
  | _, _ => Err TypeError
  end.
Definition py_iter (v : pv) : result (list pv) :=
  match v with
  | VL0 => Ok []
  | VEvs l => Ok (map VEv l)
  | VEv e => Ok (map VP e)
  | VArr (A1 l) => Ok (map VNpInt l)
  | VArr (PyL l) => Ok (map VInt l)
  | VArr (A2 rows) => Ok (map (fun r => VArr (A1 [fst r; snd r])) rows)
  | _ => Err TypeError
  end.
(* enumerate(x): the pairs are kept apart *)
Definition py_enumerate (v : pv) : result (list (pv * pv)) :=
  l <- py_iter v ;; Ok (combine (map VInt (zrange 0 (zlen l))) l).

(* ------------------------------------------------------------------ numpy *)
Definition py_size (v : pv) : result pv :=
  match v with
  | VArr (A2 rows) => Ok (VInt (2 * zlen rows))
  | VArr (A1 l) => Ok (VInt (zlen l))
  | _ => Err AttributeError
  end.
Definition py_ndim (v : pv) : result pv :=
  match v with
  | VArr (A2 _) => Ok (VInt 2)
  | VArr (A1 _) => Ok (VInt 1)
  | _ => Err AttributeError
  end.
(* np.ndarray((n, m), dtype=int) / np.empty((n, m), dtype=int): m = 2 only; the memory is modelled as zeros *)
Definition py_ndarray2 (n m : pv) : result pv :=
  match as_int n, as_int m with
  | Some n, Some m =>
      if n <? 0 then Err ValueError
      else if m =? 2 then Ok (VArr (A2 (repeat (0, 0) (Z.to_nat n)))) else Err OtherError
  | _, _ => Err TypeError
  end.
(* x.reshape(-1, 2) *)
Definition py_reshape_m1_2 (v : pv) : result pv :=
  match v with VArr c => rmap (fun r => VArr (A2 r)) (reshape2 c) | _ => Err AttributeError end.
(* np.concatenate((x, y)) *)
Definition py_concat2 (x y : pv) : result pv :=
  match x, y with
  | VArr (A2 a), VArr (A2 b) => Ok (VArr (A2 (a ++ b)))
  | VArr (A1 a), VArr (A1 b) => Ok (VArr (A1 (a ++ b)))
  | VArr (A2 _), VArr (A1 _) | VArr (A1 _), VArr (A2 _) => Err ValueError
  | _, _ => Err OtherError
  end.
(* x.astype(int) of an integer array *)
Definition py_astype_int (v : pv) : result pv :=
  match v with
  | VArr (A2 r) => Ok (VArr (A2 r))
  | VArr (A1 l) => Ok (VArr (A1 l))
  | _ => Err AttributeError
  end.

(* ------------------------------------------------------------------ arithmetic, comparisons *)
Definition int_like (a b : pv) (z : Z) : pv :=
  match a, b with VNpInt _, _ | _, VNpInt _ => VNpInt z | _, _ => VInt z end.

Definition py_add (a b : pv) : result pv :=
  match as_int a, as_int b with
  | Some x, Some y => Ok (int_like a b (x + y))
  | _, _ =>
    match a, b with
    | VFloat x, VFloat y => Ok (VFloat (Qred (x + y)))
    | VL0, VL0 => Ok VL0
    | VL0, VEvs l => Ok (VEvs l)
    | VEvs l, VL0 => Ok (VEvs l)
    | VEvs l, VEvs m => Ok (VEvs (l ++ m))
    | VL0, VLines l => Ok (VLines l)
    | VLines l, VL0 => Ok (VLines l)
    | VLines l, VLines m => Ok (VLines (l ++ m))
    | _, _ => Err OtherError
    end
  end.
Definition py_sub (a b : pv) : result pv :=
  match as_int a, as_int b with
  | Some x, Some y => Ok (int_like a b (x - y))
  | _, _ => Err OtherError
  end.
Definition as_q (v : pv) : option Q :=
  match v with VFloat q => Some q | VInt z | VNpInt z => Some (inject_Z z) | _ => None end.
(* true division; at least one operand a float (int / int is not needed by the fragment) *)
Definition py_div (a b : pv) : result pv :=
  match a, b with
  | VFloat _, _ | _, VFloat _ =>
    match as_q a, as_q b with
    | Some x, Some y => if Qeq_bool y 0 then Err ZeroDivisionError else Ok (VFloat (Qred (x / y)))
    | _, _ => Err OtherError
    end
  | _, _ => Err OtherError
  end.

Definition is_empty_list (v : pv) : option bool :=
  match v with
  | VL0 => Some true
  | VEvs l => Some (is_nil l)
  | VEv l => Some (is_nil l)
  | VLines l => Some (is_nil l)
  | VRows _ | VRowss _ => Some false
  | _ => None
  end.

Definition py_eq (a b : pv) : result bool :=
  match as_int a, as_int b with
  | Some x, Some y => Ok (x =? y)
  | _, _ =>
    match a, b with
    | VTok x, VTok y => Ok (x =? y)
    | _, VL0 => match is_empty_list a with Some e => Ok e | None => Err OtherError end
    | VL0, _ => match is_empty_list b with Some e => Ok e | None => Err OtherError end
    | _, _ => Err OtherError
    end
  end.
Definition py_ne (a b : pv) : result bool := rmap negb (py_eq a b).
Definition py_cmp (f : Z -> Z -> bool) (a b : pv) : result bool :=
  match as_int a, as_int b with
  | Some x, Some y => Ok (f x y)
  | _, _ => Err OtherError
  end.
Definition py_lt := py_cmp Z.ltb.
Definition py_le := py_cmp Z.leb.
Definition py_gt := py_cmp Z.gtb.
Definition py_ge := py_cmp Z.geb.

(* ------------------------------------------------------------------ classes *)
Definition py_is_storer (v : pv) : result bool := Ok (match v with VObj _ => true | _ => false end).
Definition py_isinstance_cls (v : pv) (c : cls) : result bool :=
  Ok (match v with VObj s => cls_eqb (scls s) c | _ => false end).
(* type(a) is type(b) *)
Definition py_same_type (a b : pv) : result bool :=
  match a, b with
  | VObj s, VObj t => Ok (cls_eqb (scls s) (scls t))
  | _, _ => Err OtherError
  end.
(* c = a.__class__.__new__(a.__class__); c.__dict__.update(a.__dict__): every attribute of a, shared *)
Definition py_shallow_copy (a : pv) : result pv :=
  match a with VObj s => Ok (VObj s) | _ => Err OtherError end.
(* (x, <second component, not modelled>) assigned to sigmaGen_ *)
Definition py_sig_tuple (x : pv) : result pv :=
  match x with VFloat q => Ok (VSig q) | _ => Err OtherError end.
(* <function of Filter.py>(particle_list, args): as in Model/Storer.v the function with its arguments is an
   arbitrary map of event lists (its own shape is C03's subject; argument errors are outside) *)
Definition py_apply_filter (g : list event -> list event) (v : pv) : result pv :=
  match v with
  | VEvs l => Ok (VEvs (g l))
  | VL0 => Ok (VEvs (g []))
  | _ => Err OtherError
  end.
Definition py_class_of (v : pv) : result cls :=
  match v with VObj s => Ok (scls s) | _ => Err OtherError end.

(* ------------------------------------------------------------------ control *)
Definition py_unbound {A} (o : option A) : result A :=
  match o with Some a => Ok a | None => Err OtherError end.      (* UnboundLocalError *)
Fixpoint fold_leftM {S A} (f : S -> A -> result S) (l : list A) (s : S) : result S :=
  match l with
  | [] => Ok s
  | x :: t => s' <- f s x ;; fold_leftM f t s'
  end.
Definition andM (a b : result bool) : result bool := x <- a ;; if x then b else Ok false.
Definition orM (a b : result bool) : result bool := x <- a ;; if x then Ok true else b.
Definition notM (a : result bool) : result bool := x <- a ;; Ok (negb x).

(* ------------------------------------------------------------------ reading results back *)
(* what Python shows of the model's particle_list() result: a flat and a nested empty list are both [] *)
Definition plres_pv (r : plres) : pv :=
  match r with
  | Flat [] | Nested [] => VL0
  | Flat l => VRows l
  | Nested l => VRowss l
  end.

(* Runtime of the fragment in which tools/py2coq/gen_particle_init.py re-states the construction of a Particle from
   one line of a file (Particle.__init__, __initialize_from_array, the property getters / setters they go through,
   mass_from_energy_momentum, p_abs, charge_from_pdg) as Gen/GenParticleInit.v - definitions only, no proofs.
   Everything here is the fixed, trusted reading of the Python / numpy primitives the translated methods call; the
   methods themselves (statements in order, conditions, constants, argument order, defaults, exception classes) are
   regenerated from the source on every run and proved equal to Model/Oscar.v / Model/Jetscape.v in
   Proofs/ParticleInit_Source.v.

   * exceptions: [result] / [err] of Model/Oscar.v (the classes the hand model distinguishes); [bind] sequences
   * a Python / numpy number (float, np.float64, int stored in the float array) is [num] = option Q, None = NaN;
     ints that never meet a float stay Z (len, literals) or nat (table entries, list.index)
   * the object: Particle has the single slot data_, so self IS the data_ array, a [list num] (Model/Oscar.v
     [particle]); element read / write outside the array raise IndexError as numpy does
   * a dict with string keys is an association list in insertion order; d[k] = v replaces the value of an
     existing key in place and appends a new key at the end; d[k] raises KeyError; k in d; d.items()
   * a two-element list [a, b] of table indices is a pair; x[0] / x[1] are fst / snd
   * float(token) / int(token) / PDGID(x).is_valid / PDGID(x).charge / np.sqrt are the oracles of the hand model,
     bundled in the record [oracles]; float()/int() of a token that the oracle rejects raise ValueError;
     int(nan) raises ValueError; PDGID(nan) raises ValueError (int() inside the package); np.sqrt of a negative
     number or of nan is nan
   * comparisons with nan are False; bool(nan) is True; `x in [ints]` compares by value *)
From Coq Require Import List String ZArith QArith Qabs Bool Arith.
From SX Require Import Lib.Strs Model.Oscar.
Import ListNotations.

Definition num := option Q.

Record oracles := Oracles {
  o_float : string -> option Q;      (* float(token); None = ValueError *)
  o_int : string -> option Q;        (* int(token) as the float it is stored as; None = ValueError *)
  o_valid : Q -> bool;               (* PDGID(pdg).is_valid *)
  o_charge : Q -> Q;                 (* PDGID(pdg).charge *)
  o_sqrt : Q -> Q }.                 (* np.sqrt on a non-negative argument *)

(* ---- exceptions ---------------------------------------------------------------------------------------------- *)
Definition orE (a b : result bool) : result bool := bind a (fun x => if x then Ok true else b).
Definition andE (a b : result bool) : result bool := bind a (fun x => if x then b else Ok false).
(* for x in l: body  with the loop-carried variables s *)
Fixpoint loopE {A S} (body : S -> A -> result S) (l : list A) (s : S) : result S :=
  match l with
  | [] => Ok s
  | a :: t => match body s a with Err e => Err e | Ok s' => loopE body t s' end
  end.

(* ---- numbers --------------------------------------------------------------------------------------------------- *)
Definition is_nan (x : num) : bool := match x with None => true | Some _ => false end.
Definition num_of_Z (z : Z) : num := Some (inject_Z z).
Definition q_trunc (q : Q) : Q := inject_Z (Z.quot (Qnum q) (Zpos (Qden q))).      (* int(): towards zero *)
Definition py_int (x : num) : result num :=
  match x with None => Err ValueError | Some q => Ok (Some (q_trunc q)) end.
Definition py_bool (x : num) : bool := match x with None => true | Some q => negb (Qeq_bool q 0) end.
Definition num_abs (x : num) : num := option_map Qabs x.
Definition num_bin (f : Q -> Q -> Q) (x y : num) : num :=
  match x, y with Some a, Some b => Some (f a b) | _, _ => None end.
Definition num_add := num_bin Qplus.
Definition num_sub := num_bin Qminus.
Definition num_mul := num_bin Qmult.
Definition num_pow2 (x : num) : num := match x with Some a => Some (a * a) | None => None end.   (* x ** 2.0 *)
Definition num_cmp (f : Q -> Q -> bool) (x y : num) : bool :=
  match x, y with Some a, Some b => f a b | _, _ => false end.
Definition num_le := num_cmp Qle_bool.                                  (* x <= y *)
Definition num_lt := num_cmp (fun a b => negb (Qle_bool b a)).          (* x <  y *)
Definition num_ge := num_cmp (fun a b => Qle_bool b a).                 (* x >= y *)
Definition num_gt := num_cmp (fun a b => negb (Qle_bool a b)).          (* x >  y *)
Definition num_in (x : num) (l : list Z) : bool :=
  match x with None => false | Some q => existsb (fun z => Qeq_bool q (inject_Z z)) l end.
Definition np_sqrt (o : oracles) (x : num) : num :=
  match x with None => None | Some q => if Qle_bool 0 q then Some (o_sqrt o q) else None end.

(* ---- tokens and the PDG package ------------------------------------------------------------------------------ *)
Definition py_float (o : oracles) (s : string) : result Q :=
  match o_float o s with Some q => Ok q | None => Err ValueError end.
Definition py_intstr (o : oracles) (s : string) : result Q :=
  match o_int o s with Some q => Ok q | None => Err ValueError end.
Definition pdgid_is_valid (o : oracles) (x : num) : result bool :=
  match x with None => Err ValueError | Some q => Ok (o_valid o q) end.
Definition pdgid_charge (o : oracles) (x : num) : result num :=
  match x with None => Err ValueError | Some q => Ok (Some (o_charge o q)) end.

(* ---- lists, arrays ----------------------------------------------------------------------------------------------- *)
Definition zlen {A} (l : list A) : Z := Z.of_nat (List.length l).
Definition list_mul {A} (n : Z) (l : list A) : list A := List.concat (repeat l (Z.to_nat n)).      (* n * [..] *)
Definition list_get {A} (l : list A) (i : nat) : result A :=
  match nth_error l i with Some a => Ok a | None => Err IndexError end.
Definition arr_set (a : list num) (i : nat) (v : num) : result (list num) :=
  if (i <? List.length a)%nat then Ok (set_slot i v a) else Err IndexError.
Definition list_index (s : string) (l : list string) : result nat :=
  match index_of s l with Some i => Ok i | None => Err ValueError end.
(* a value that may be None where a list is needed: iterating / list() of None is a TypeError *)
Definition need_list {A} (o : option (list A)) : result (list A) :=
  match o with Some l => Ok l | None => Err TypeError end.
Definition is_none {A} (o : option A) : bool := match o with None => true | Some _ => false end.
Definition is_some {A} (o : option A) : bool := negb (is_none o).
(* x == [] where x may be None *)
Definition olist_is_nil {A} (o : option (list A)) : bool := match o with Some [] => true | _ => false end.
(* x == "literal" where x may be None *)
Definition ostr_eqb (o : option string) (s : string) : bool :=
  match o with Some x => String.eqb x s | None => false end.

(* ---- dicts ------------------------------------------------------------------------------------------------------- *)
Fixpoint dict_set {A} (k : string) (v : A) (d : list (string * A)) : list (string * A) :=
  match d with
  | [] => [(k, v)]
  | (k', v') :: t => if String.eqb k k' then (k', v) :: t else (k', v') :: dict_set k v t
  end.
Definition dict_get {A} (k : string) (d : list (string * A)) : result A :=
  match assoc k d with Some v => Ok v | None => Err KeyError end.
Definition dict_mem {A} (k : string) (d : list (string * A)) : bool :=
  match assoc k d with Some _ => true | None => false end.

(* Vocabulary of the C04 statements: the bookkeeping invariant, admissible operations, labelled
   contents.  Definitions only. *)
From Coq Require Import List ZArith Bool QArith.
From SX Require Import Lib.Py Model.Storer.
Import ListNotations.
Local Open Scope Z_scope.

Definition labels_from (l0 : Z) (n : nat) : list Z := map (fun i => l0 + Z.of_nat i) (seq 0 n).

(* at least one event (possibly empty ones): a 2-D count array whose rows are
   (first label + position, size of the event at that position) and num_events_ = number of events *)
Definition Reg (s : storer) : Prop :=
  exists rows l0, counts s = A2 rows /\ events s <> [] /\
    nevents s = zlen (events s) /\
    map snd rows = map zlen (events s) /\
    map fst rows = labels_from l0 (length (events s)).

(* no events: num_events_ = 0, an empty count array, particle_list_ is the placeholder [[]]
   (or the empty list a ParticleObjectStorer was built from) *)
Definition Emp (s : storer) : Prop :=
  nevents s = 0 /\ (counts s = A1 [] \/ counts s = A2 []) /\ (events s = [] \/ events s = [[]]).

Definition Inv (s : storer) : Prop := Reg s \/ Emp s.

(* + needs the same class and, for Jetscape, the same particle type (else the code raises TypeError) *)
Definition compatible (a b : storer) : Prop :=
  scls a = scls b /\ (scls a = CJetscape -> xptype a = xptype b).

(* admissible operations on a storer of the class / particle type of s0: a particle-level filter
   returns nothing on an empty event (every filter of Filter.py returns a sub-list), any event-level
   cut, + of a compatible storer that itself satisfies the invariant *)
Definition adm_op (s0 : storer) (o : op) : Prop :=
  match o with
  | F (PL f) => f [] = []
  | F (EV _) => True
  | ADD b => Inv b /\ compatible s0 b
  end.

(* the rows of the count array, whatever its (empty) shape *)
Definition rows_of (s : storer) : list (Z * Z) :=
  match counts s with A2 r => r | _ => [] end.

(* contents with labels: (label, event) in order *)
Definition labelled (s : storer) : list (Z * event) := combine (map fst (rows_of s)) (held s).
Definition relabel (l0 : Z) (l : list (Z * event)) : list (Z * event) :=
  combine (labels_from l0 (length l)) (map snd l).
Definition last_label (s : storer) : Z := fst (last (rows_of s) (0, 0)).
(* the same counts under labels l0, l0+1, ... *)
Definition relabel_rows (l0 : Z) (rows : list (Z * Z)) : list (Z * Z) :=
  combine (labels_from l0 (length rows)) (map snd rows).

(* what users see of an addition *)
Definition core (s : storer) := (events s, counts s, nevents s).

(* particle_list() mirrors the held events: flat for exactly one event *)
Definition plist_spec (s : storer) : plres :=
  match held s with
  | [e] => Flat e
  | l => Nested l
  end.

(* concrete filters for the non-vacuity examples *)
Definition ex_charged : fop := PL (filter (fun p => existsb (Z.eqb p) [1; 3; 6])).
Definition ex_big : fop := EV (fun e => 2 <=? zlen e).

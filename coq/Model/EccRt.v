(* Runtime of the fragment in which tools/py2coq/gen_ecc_methods.py re-states the eccentricity methods of
   src/sparkx/EventCharacteristics.py (Gen/GenEccMethods.v) - definitions only, no proofs.
   Everything here is the fixed reading of the Python / numpy primitives the translated methods use; the methods
   themselves (statements, operators, constants, argument order, defaults, loops) are regenerated from the source on
   every run and proved equal to Model/Ecc.v in Proofs/Ecc_Source.v.

   * exceptions: [result] of Lib/Py.v ([Err cls]); [bind] evaluates left to right
   * a float is a tagged value [fl]: [Py v] a Python float (finite, v in the carrier K), [Np v] a numpy float64
     ([Np None] = non-finite: NaN or +-inf).  An arithmetic operation of two Python floats is a Python float,
     everything else is a numpy float; non-finite operands give a non-finite result (so None stands for NaN; the
     inputs of the domain are finite or NaN, rounding and overflow are not modelled).
     Division: Python float / Python float raises ZeroDivisionError on a zero divisor, a numpy division by zero is
     non-finite.  [fl_divc] is the division by a non-zero numeric literal (the translator checks the literal).
   * `a + b * 1j` of two floats is the complex number with these parts ([cx_make]); a complex with a non-finite part
     is None, as in Model/Ecc.v
   * np.arctan2 / np.cos / np.sin and `**` with a float exponent are ORACLES (section variables uatan2, ucos, usin,
     upow) applied to finite values; `x ** k` with a non-negative int literal k is [kpow]
   * a particle is the observation record [pobs] of Model/Ecc.v: `.x`/`.y` are [ox]/[oy], any other attribute name
     goes through [oattr] (None = NaN); an object that is not a Particle has no attribute (AttributeError)
   * the event data argument is a Lattice3D ([ALattice]), a list / ndarray of objects ([ASeq]) or something else
   * Lattice3D: record of the attributes the two methods called here read; [lat_get_coordinates],
     [lat_get_value_by_index] re-state Lattice3D.get_coordinates / get_value_by_index (with __get_value /
     __is_valid_index), whose source text is pinned by the translator; np.ndindex(shape) enumerates the index
     triples in C order (last index fastest) *)
From Coq Require Import List ZArith Bool String.
From SX Require Import Lib.KRing Lib.Py Model.Ecc.
Import ListNotations.

Definition bind {A B} := @rbind A B.

Fixpoint fold_leftM {S A} (f : S -> A -> result S) (l : list A) (s : S) : result S :=
  match l with
  | [] => Ok s
  | a :: t => bind (f s a) (fun s' => fold_leftM f t s')
  end.
Definition orM (a b : result bool) : result bool := bind a (fun x => if x then Ok true else b).
Definition andM (a b : result bool) : result bool := bind a (fun x => if x then b else Ok false).

(* ---- isinstance --------------------------------------------------------------------------------------------- *)
Inductive pyty := T_list | T_ndarray | T_Lattice3D | T_Particle.
Definition pyty_eqb (a b : pyty) : bool :=
  match a, b with
  | T_list, T_list | T_ndarray, T_ndarray | T_Lattice3D, T_Lattice3D | T_Particle, T_Particle => true
  | _, _ => false
  end.
Definition has (t : pyty) (tys : list pyty) : bool := existsb (pyty_eqb t) tys.

(* ---- Optional[int] ------------------------------------------------------------------------------------------- *)
Definition opt_is_none {A} (o : option A) : bool := match o with None => true | Some _ => false end.
(* `x is None` for x an int *)
Definition int_is_none (z : Z) : bool := false.
(* an Optional[int] used as a number: None raises TypeError *)
Definition need_int (o : option Z) : result Z := match o with Some v => Ok v | None => Err TypeError end.

Section Rt.
  Variable K : Type.
  Variables (k0 k1 : K) (kadd kmul ksub kdiv : K -> K -> K) (kopp : K -> K).
  Variable kis0 : K -> bool.
  Variables (upow uatan2 : K -> K -> K) (ucos usin : K -> K).

  (* ---- floats ------------------------------------------------------------------------------------------------ *)
  Inductive fl := Py (v : K) | Np (v : option K).
  Definition fval (a : fl) : option K := match a with Py v => Some v | Np v => v end.
  Definition lift2 (f : K -> K -> K) (a b : option K) : option K :=
    match a, b with Some x, Some y => Some (f x y) | _, _ => None end.
  Definition fl_bin (f : K -> K -> K) (a b : fl) : fl :=
    match a, b with Py x, Py y => Py (f x y) | _, _ => Np (lift2 f (fval a) (fval b)) end.
  Definition fl_add := fl_bin kadd.
  Definition fl_sub := fl_bin ksub.
  Definition fl_mul := fl_bin kmul.
  Definition fl_neg (a : fl) : fl := match a with Py x => Py (kopp x) | Np v => Np (option_map kopp v) end.
  Definition fl_div (a b : fl) : result fl :=
    match a, b with
    | Py x, Py y => if kis0 y then Err ZeroDivisionError else Ok (Py (kdiv x y))
    | _, _ => Ok (Np (match fval a, fval b with
                      | Some x, Some y => if kis0 y then None else Some (kdiv x y)
                      | _, _ => None
                      end))
    end.
  (* division by a non-zero literal *)
  Definition fl_divc (a : fl) (c : K) : fl :=
    match a with Py x => Py (kdiv x c) | Np v => Np (option_map (fun x => kdiv x c) v) end.
  (* a numeric literal with an integral value; int -> float *)
  Definition k_lit (z : Z) : K := kz k0 k1 kadd kmul kopp z.
  Definition fl_lit (z : Z) : fl := Py (k_lit z).
  Definition fl_of_int (z : Z) : fl := Py (k_lit z).
  (* a ** k, k a non-negative int literal *)
  Definition fl_powi (a : fl) (k : nat) : fl :=
    match a with Py x => Py (kpow k1 kmul x k) | Np v => Np (option_map (fun x => kpow k1 kmul x k) v) end.
  (* a ** e, e a float *)
  Definition fl_powf (a e : fl) : fl := fl_bin upow a e.
  Definition np_arctan2 (y x : fl) : fl := Np (lift2 uatan2 (fval y) (fval x)).
  Definition np_cos (a : fl) : fl := Np (option_map ucos (fval a)).
  Definition np_sin (a : fl) : fl := Np (option_map usin (fval a)).
  (* an Optional[float] used as a number *)
  Definition need_float (o : option fl) : result fl := match o with Some v => Ok v | None => Err TypeError end.

  (* ---- complex ------------------------------------------------------------------------------------------------ *)
  Definition cx := option (K * K).
  Definition cx_make (re im : fl) : cx :=
    match fval re, fval im with Some a, Some b => Some (a, b) | _, _ => None end.
  Definition cx_neg (c : cx) : cx := match c with Some (a, b) => Some (kopp a, kopp b) | None => None end.

  (* ---- objects ------------------------------------------------------------------------------------------------ *)
  Inductive pyobj := OParticle (p : pobs K) | OOther.
  Definition obj_isinstance (o : pyobj) (tys : list pyty) : bool :=
    match o with OParticle _ => has T_Particle tys | OOther => false end.
  Definition obj_attr (o : pyobj) (name : string) : result fl :=
    match o with
    | OParticle p => Ok (Np (if String.eqb name "x" then Some (ox p)
                             else if String.eqb name "y" then Some (oy p) else oattr p name))
    | OOther => Err AttributeError
    end.

  Record lattice := Lattice { l_num_points_x : Z; l_num_points_y : Z; l_num_points_z : Z;
                              l_x_values : list K; l_y_values : list K; l_z_values : list K;
                              l_grid_shape : Z * Z * Z; l_grid : nat -> nat -> nat -> K }.

  (* Lattice3D.__get_value(index, values, num_points) *)
  Definition lat_get_value (index : Z) (values : list K) (num_points : Z) : result fl :=
    if ((index <? 0) || (num_points <=? index))%Z then Err ValueError
    else match nth_error values (Z.to_nat index) with Some v => Ok (Np (Some v)) | None => Err IndexError end.
  (* Lattice3D.get_coordinates(i, j, k) *)
  Definition lat_get_coordinates (L : lattice) (i j k : Z) : result (fl * fl * fl) :=
    bind (lat_get_value i (l_x_values L) (l_num_points_x L)) (fun x =>
    bind (lat_get_value j (l_y_values L) (l_num_points_y L)) (fun y =>
    bind (lat_get_value k (l_z_values L) (l_num_points_z L)) (fun z => Ok (x, y, z)))).
  (* Lattice3D.__is_valid_index(i, j, k) *)
  Definition lat_is_valid_index (L : lattice) (i j k : Z) : bool :=
    (((0 <=? i) && (i <? l_num_points_x L)) && ((0 <=? j) && (j <? l_num_points_y L))
     && ((0 <=? k) && (k <? l_num_points_z L)))%Z.
  (* Lattice3D.get_value_by_index(i, j, k): None (after a warning) for an invalid index, else grid_[i, j, k] *)
  Definition lat_get_value_by_index (L : lattice) (i j k : Z) : result (option fl) :=
    if negb (lat_is_valid_index L i j k) then Ok None
    else let '(a, b, c) := l_grid_shape L in
         if ((i <? a) && (j <? b) && (k <? c))%Z
         then Ok (Some (Np (Some (l_grid L (Z.to_nat i) (Z.to_nat j) (Z.to_nat k)))))
         else Err IndexError.

  Inductive evarg := ALattice (L : lattice) | ASeq (is_ndarray : bool) (items : list pyobj) | AOther.
  Definition ev_isinstance (e : evarg) (tys : list pyty) : bool :=
    match e with
    | ALattice _ => has T_Lattice3D tys
    | ASeq true _ => has T_ndarray tys
    | ASeq false _ => has T_list tys
    | AOther => false
    end.
  (* for x in e *)
  Definition ev_iter (e : evarg) : result (list pyobj) :=
    match e with ASeq _ items => Ok items | _ => Err TypeError end.
  (* e.grid_.shape *)
  Definition ev_grid_shape (e : evarg) : result (Z * Z * Z) :=
    match e with ALattice L => Ok (l_grid_shape L) | _ => Err AttributeError end.
  Definition ev_get_coordinates (e : evarg) (i j k : Z) : result (fl * fl * fl) :=
    match e with ALattice L => lat_get_coordinates L i j k | _ => Err AttributeError end.
  Definition ev_get_value_by_index (e : evarg) (i j k : Z) : result (option fl) :=
    match e with ALattice L => lat_get_value_by_index L i j k | _ => Err AttributeError end.

  (* np.ndindex(shape), shape a triple *)
  Definition zrange (n : Z) : list Z := map Z.of_nat (seq 0 (Z.to_nat n)).
  Definition np_ndindex (shape : Z * Z * Z) : list (Z * Z * Z) :=
    let '(a, b, c) := shape in
    flat_map (fun i => flat_map (fun j => map (fun k => (i, j, k)) (zrange c)) (zrange b)) (zrange a).

  (* ---- the EventCharacteristics object ---------------------------------------------------------------------- *)
  Record ecself := ECSelf { event_data_ : evarg; has_lattice_ : bool }.
  Definition set_event_data_ (s : ecself) (v : evarg) : ecself := ECSelf v (has_lattice_ s).
  Definition set_has_lattice_ (s : ecself) (v : bool) : ecself := ECSelf (event_data_ s) v.
End Rt.

Arguments Py {K}. Arguments Np {K}. Arguments fval {K}.
Arguments OParticle {K}. Arguments OOther {K}.
Arguments ALattice {K}. Arguments ASeq {K}. Arguments AOther {K}.
Arguments ECSelf {K}. Arguments event_data_ {K}. Arguments has_lattice_ {K}.
Arguments set_event_data_ {K}. Arguments set_has_lattice_ {K}.
Arguments l_num_points_x {K}. Arguments l_num_points_y {K}. Arguments l_num_points_z {K}.
Arguments l_x_values {K}. Arguments l_y_values {K}. Arguments l_z_values {K}.
Arguments l_grid_shape {K}. Arguments l_grid {K}.
Arguments obj_isinstance {K}. Arguments ev_isinstance {K}. Arguments ev_iter {K}. Arguments ev_grid_shape {K}.
Arguments ev_get_coordinates {K}. Arguments ev_get_value_by_index {K}.
Arguments obj_attr {K}. Arguments need_float {K}.
Arguments cx_make {K}.

(* Hand model of Oscar.print_particle_lists_to_file (with Oscar._particle_as_list and
   BaseStorer.particle_list) and of Jetscape.print_particle_lists_to_file, over the printf formats
   regenerated from the source (Gen/GenFormats.v).  Output: the file as token lines.  No proofs here. *)
From Coq Require Import List String ZArith QArith Bool Arith.
From SX Require Import Lib.Strs Gen.GenParticleMap Gen.GenFormats Model.Oscar.
Import ListNotations.
Local Open Scope string_scope.

(* written column: attribute-with-underscore (as in the loader's tables), slot, whether it is written through int() *)
Definition wcol := (string * nat * bool)%type.

Definition wcols_2013 : list wcol :=
  [("t_",0,false); ("x_",1,false); ("y_",2,false); ("z_",3,false); ("mass_",4,false); ("E_",5,false);
   ("px_",6,false); ("py_",7,false); ("pz_",8,false); ("pdg_",9,true); ("ID_",11,true); ("charge_",12,true)]%nat.
Definition wcols_ext20 : list wcol :=
  (wcols_2013 ++ [("ncoll_",13,true); ("form_time_",14,false); ("xsecfac_",15,false); ("proc_id_origin_",16,true);
                  ("proc_type_origin_",17,true); ("t_last_coll_",18,false); ("pdg_mother1_",19,true);
                  ("pdg_mother2_",20,true)])%list%nat.
Definition wcol_baryon : wcol := ("baryon_number_", 22, true)%nat.
Definition wcol_strange : wcol := ("strangeness_", 23, true)%nat.

(* attribute name (custom_attr_list entry) -> slot and int-ness of its property getter *)
Definition attr_table : list (string * (nat * bool)) :=
  [("t",(0,false)); ("x",(1,false)); ("y",(2,false)); ("z",(3,false)); ("mass",(4,false)); ("E",(5,false));
   ("px",(6,false)); ("py",(7,false)); ("pz",(8,false)); ("pdg",(9,true)); ("ID",(11,true)); ("charge",(12,true));
   ("ncoll",(13,true)); ("form_time",(14,false)); ("xsecfac",(15,false)); ("proc_id_origin",(16,true));
   ("proc_type_origin",(17,true)); ("t_last_coll",(18,false)); ("pdg_mother1",(19,true)); ("pdg_mother2",(20,true));
   ("baryon_number",(22,true)); ("strangeness",(23,true))]%nat.

Section Writer.
  Variable fmt : colfmt -> Q -> string.      (* Python  '%g' % x, '%.9g' % x, '%d' % x  for a finite double x *)
  Variable dec : Z -> string.                (* str(int) *)

  (* ------------------------------------------------------------ _particle_as_list *)
  (* the columns written for one particle of a fixed-layout format: the optional trailing columns are
     present iff their slot is set *)
  Definition wcols_of (format : string) (p : particle) : result (list wcol) :=
    if format =? "Oscar2013" then Ok wcols_2013
    else if (format =? "Oscar2013Extended") || (format =? "Oscar2013Extended_IC") then
      Ok (wcols_ext20
          ++ (match get_slot 22 p with Some _ => [wcol_baryon] | None => [] end)
          ++ (match get_slot 23 p with Some _ => [wcol_strange] | None => [] end))%list
    else Err TypeError.

  (* value of a column: int(nan) raises, float(nan) is written as "nan" (not modelled: Err OtherError) *)
  Definition col_value (c : wcol) (p : particle) : result Q :=
    match get_slot (snd (fst c)) p with
    | Some v => Ok v
    | None => if snd c then Err ValueError else Err OtherError
    end.

  Fixpoint zipfmt (fs : list colfmt) (vs : list Q) : result line :=
    match fs, vs with
    | [], [] => Ok []
    | f :: fs', v :: vs' => r <- zipfmt fs' vs' ;; Ok (fmt f v :: r)
    | _, _ => Err ValueError                  (* savetxt: wrong number of % formats *)
    end.

  (* formats for a row of n columns *)
  Definition row_formats (format : string) (attrs : list string) (n : nat) : result (list colfmt) :=
    if format =? "Oscar2013" then Ok gen_format_oscar2013
    else if (format =? "Oscar2013Extended") || (format =? "Oscar2013Extended_IC") then
      Ok (gen_format_extended ++ repeat gen_format_extension (n - 20))%list
    else if format =? "ASCII" then
      mapr (fun a => match assoc a gen_format_map with Some f => Ok f | None => Err KeyError end) attrs
    else Err TypeError.

  Definition row_values (format : string) (attrs : list string) (p : particle) : result (list Q) :=
    if format =? "ASCII" then
      mapr (fun a => match assoc a attr_table with
                     | Some (s, isint) => col_value (a, s, isint) p
                     | None => Err OtherError            (* AttributeError *)
                     end) attrs
    else cs <- wcols_of format p ;; mapr (fun c => col_value c p) cs.

  Definition format_particle (format : string) (attrs : list string) (ncols : nat) (p : particle) : result line :=
    vs <- row_values format attrs p ;;
    fs <- row_formats format attrs ncols ;;
    zipfmt fs vs.

  (* ------------------------------------------------------------ footers *)
  Fixpoint set_nth {A} (i : nat) (v : A) (l : list A) : result (list A) :=
    match l, i with
    | [], _ => Err IndexError
    | _ :: t, O => Ok (v :: t)
    | x :: t, S j => r <- set_nth j v t ;; Ok (x :: r)
    end.
  (* the end line of the event labelled [label], renumbered to position [pos] in the written file *)
  Definition footer_for (footers : list line) (label : Z) (pos : nat) : result line :=
    match nth_error footers (Z.to_nat label) with
    | Some f => set_nth 2 (dec (Z.of_nat pos)) f
    | None => Err IndexError
    end.

  (* ------------------------------------------------------------ the file *)
  Record ostate := { os_events : list (list particle); os_nevents : Z; os_counts : list (Z * Z);
                     os_format : string; os_attrs : list string; os_footers : list line;
                     os_header : list line }.

  (* number of columns of the first particle of the first non-empty event (fixes the extended format) *)
  Fixpoint first_ncols (format : string) (attrs : list string) (evs : list (list particle)) : nat :=
    match evs with
    | [] => 0
    | [] :: t => first_ncols format attrs t
    | (p :: _) :: _ => match row_values format attrs p with Ok vs => List.length vs | Err _ => 0 end
    end.

  Fixpoint take {A} (n : nat) (l : list A) : result (list A) :=
    match n, l with
    | O, _ => Ok []
    | S m, x :: t => r <- take m t ;; Ok (x :: r)
    | S _, [] => Err IndexError
    end.

  Fixpoint write_events (format : string) (attrs : list string) (footers : list line) (ncols : nat) (pos : nat)
           (evs : list (list particle)) (cnts : list (Z * Z)) : result (list line) :=
    match evs, cnts with
    | [], [] => Ok []
    | ev :: evs', (label, n) :: cnts' =>
      rows <- take (Z.to_nat n) ev ;;                       (* particle_list(): the first n particles *)
      toks <- mapr (format_particle format attrs ncols) rows ;;
      foot <- footer_for footers label pos ;;
      rest <- write_events format attrs footers ncols (S pos) evs' cnts' ;;
      Ok ((["#"; "event"; dec (Z.of_nat pos); "out"; dec n] :: toks ++ [foot]) ++ rest)%list
    | _, _ => Err IndexError
    end.

  Definition write_oscar (s : ostate) : result (list line) :=
    if (os_nevents s =? 0)%Z then Ok (os_header s)
    else
      body <- write_events (os_format s) (os_attrs s) (os_footers s)
                           (first_ncols (os_format s) (os_attrs s) (os_events s)) 0
                           (os_events s) (os_counts s) ;;
      Ok (os_header s ++ body)%list.

  (* ------------------------------------------------------------ Jetscape.print_particle_lists_to_file *)
  Definition jet_cols : list wcol :=
    [("ID_",11,true); ("pdg_",9,true); ("status_",21,true); ("E_",5,false); ("px_",6,false); ("py_",7,false); ("pz_",8,false)]%nat.
  Definition format_jet_particle (p : particle) : result line :=
    vs <- mapr (fun c => col_value c p) jet_cols ;; zipfmt gen_format_jetscape vs.

  Fixpoint write_jet_events (defstr : string) (pos : nat) (evs : list (list particle)) (cnts : list (Z * Z))
    : result (list line) :=
    match evs, cnts with
    | [], [] => Ok []
    | ev :: evs', (_, n) :: cnts' =>
      rows <- take (Z.to_nat n) ev ;;
      toks <- mapr format_jet_particle rows ;;
      rest <- write_jet_events defstr (S pos) evs' cnts' ;;
      Ok ((["#"; "Event"; dec (Z.of_nat pos + 1); "weight"; "1"; "EPangle"; "0"; defstr; dec n] :: toks) ++ rest)%list
    | _, _ => Err IndexError
    end.

  Record jstate := { js_events : list (list particle); js_nevents : Z; js_counts : list (Z * Z);
                     js_defstr : string; js_header : line; js_last : line }.
  Definition write_jetscape (s : jstate) : result (list line) :=
    if (js_nevents s =? 0)%Z then Ok [js_header s; js_last s]
    else body <- write_jet_events (js_defstr s) 0 (js_events s) (js_counts s) ;;
         Ok (js_header s :: body ++ [js_last s])%list.
End Writer.

(* ---------------------------------------------------------------- correspondence helper *)
Definition lines_eqb (a b : list line) : bool := list_eqb (list_eqb String.eqb) a b.

Definition qstable (t : list (colfmt * Q * string)) : colfmt -> Q -> string :=
  fun f v => match find (fun e => (match fst (fst e), f with FG, FG | FG9, FG9 | FD, FD => true | _, _ => false end)
                                   && Qeq_bool (snd (fst e)) v) t with
             | Some e => snd e | None => "?" end.
Definition zstable (t : list (Z * string)) : Z -> string :=
  fun z => match find (fun e => (fst e =? z)%Z) t with Some e => snd e | None => "?" end.

(* 0 = the model writes exactly the file the implementation wrote *)
Definition check_write (fmt : colfmt -> Q -> string) (dec : Z -> string) (s : ostate) (written : option (list line)) : nat :=
  match write_oscar fmt dec s, written with
  | Ok ls, Some w => if lines_eqb ls w then 0 else 2
  | Err _, None => 0
  | Ok _, None => 3
  | Err _, Some _ => 4
  end%nat.

Definition check_jwrite (fmt : colfmt -> Q -> string) (dec : Z -> string) (s : jstate) (written : option (list line)) : nat :=
  match write_jetscape fmt dec s, written with
  | Ok ls, Some w => if lines_eqb ls w then 0 else 2
  | Err _, None => 0
  | Ok _, None => 3
  | Err _, Some _ => 4
  end%nat.

(* C02, particle-object part: the hand model Model/PObj.v equals what tools/py2coq/gen_pobj.py regenerates from the
   source of loader/ParticleObjectLoader.py, loader/BaseLoader.py, BaseStorer.py and ParticleObjectStorer.py on
   every run (Gen/GenPObj.v, Gallina over the Python fragment Model/PObjRt.v).
   Objects are attribute dictionaries; the proofs read them only through lookups (so they do not depend on the order
   in which independent attributes are assigned), loops are handled through the behaviour of their bodies on one
   item (proved by computation from the generated text). *)
From Coq Require Import List ZArith Bool String Lia.
From SX Require Import Lib.Py Model.PObj Model.PObjRt Gen.GenPObj Proofs.C02_PObj.
Import ListNotations.
Local Open Scope Z_scope.

(* ------------------------------------------------------------------ dictionaries *)
Lemma lookup_update_eq {A} k (v : A) d : lookup k (update k v d) = Some v.
Proof.
  induction d as [|[k' v'] d IH]; cbn.
  - rewrite String.eqb_refl. reflexivity.
  - destruct (String.eqb k k') eqn:E; cbn; rewrite E; [reflexivity | exact IH].
Qed.
Lemma lookup_update_ne {A} k k' (v : A) d : String.eqb k k' = false -> lookup k (update k' v d) = lookup k d.
Proof.
  intros Hn. induction d as [|[k2 v2] d IH]; cbn.
  - rewrite Hn. reflexivity.
  - destruct (String.eqb k' k2) eqn:E; cbn.
    + apply String.eqb_eq in E. subst k2. rewrite Hn. reflexivity.
    + destruct (String.eqb k k2); [reflexivity | exact IH].
Qed.
Lemma update_update {A} k (v v' : A) d : update k v (update k v' d) = update k v d.
Proof.
  induction d as [|[k2 v2] d IH]; cbn.
  - rewrite String.eqb_refl. reflexivity.
  - destruct (String.eqb k k2) eqn:E; cbn; rewrite E; [reflexivity | rewrite IH; reflexivity].
Qed.
Lemma update_same {A} k (v : A) d : lookup k d = Some v -> update k v d = d.
Proof.
  induction d as [|[k2 v2] d IH]; cbn; [discriminate|].
  destruct (String.eqb k k2) eqn:E.
  - intros H. injection H as <-. reflexivity.
  - intros H. rewrite (IH H). reflexivity.
Qed.

Lemma lookup_remove_eq {A} k (d : list (string * A)) : lookup k (remove_key k d) = None.
Proof.
  induction d as [|[k2 v2] d IH]; cbn; [reflexivity|].
  destruct (String.eqb k k2) eqn:E; [exact IH|]. cbn. rewrite E. exact IH.
Qed.
Lemma lookup_remove_ne {A} k k' (d : list (string * A)) :
  String.eqb k k' = false -> lookup k (remove_key k' d) = lookup k d.
Proof.
  intros Hn. induction d as [|[k2 v2] d IH]; cbn; [reflexivity|].
  destruct (String.eqb k' k2) eqn:E.
  - apply String.eqb_eq in E. subst k2. rewrite Hn. exact IH.
  - cbn. destruct (String.eqb k k2); [reflexivity | exact IH].
Qed.

(* ------------------------------------------------------------------ sequences *)
Lemma pyget_0 {A} (a : A) l : pyget (a :: l) 0 = Ok a.
Proof. reflexivity. Qed.
Lemma pyget_1 {A} (a b : A) l : pyget (a :: b :: l) 1 = Ok b.
Proof. reflexivity. Qed.
Lemma pyget_2 {A} (a b c : A) l : pyget (a :: b :: c :: l) 2 = Ok c.
Proof. reflexivity. Qed.
Lemma pyget_3 {A} (a b c d : A) l : pyget (a :: b :: c :: d :: l) 3 = Ok d.
Proof. reflexivity. Qed.
Lemma zlen_map {A B} (f : A -> B) l : zlen (map f l) = zlen l.
Proof. unfold zlen. rewrite map_length. reflexivity. Qed.
Lemma zlen_app1 {A} (l : list A) x : zlen (l ++ [x]) = zlen l + 1.
Proof. unfold zlen. rewrite app_length. cbn [List.length]. lia. Qed.
Lemma zlen_ge0 {A} (l : list A) : 0 <= zlen l.
Proof. unfold zlen. lia. Qed.

Lemma pyget_nonneg {A} (l : list A) k : 0 <= k ->
  pyget l k = match nth_error l (Z.to_nat k) with Some a => Ok a | None => Err IndexError end.
Proof.
  intros Hk. unfold pyget.
  assert (H1 : (k <? 0) = false) by (apply Z.ltb_ge; exact Hk). rewrite H1, H1. reflexivity.
Qed.
Lemma pyget_nth {A} (l : list A) i x : nth_error l i = Some x -> pyget l (Z.of_nat i) = Ok x.
Proof. intros H. rewrite pyget_nonneg by lia. rewrite Nat2Z.id, H. reflexivity. Qed.
Lemma pyget_map {A B} (f : A -> B) l k : pyget (map f l) k = rmap f (pyget l k).
Proof.
  unfold pyget. rewrite map_length. destruct (_ <? 0); [reflexivity|].
  rewrite nth_error_map. destruct (nth_error l _); reflexivity.
Qed.

Lemma zrange_nil a b : b <= a -> zrange a b = [].
Proof. intros H. unfold zrange. replace (Z.to_nat (b - a)) with 0%nat by lia. reflexivity. Qed.
Lemma zrange_cons a b : a < b -> zrange a b = a :: zrange (a + 1) b.
Proof.
  intros H. unfold zrange.
  replace (Z.to_nat (b - a)) with (S (Z.to_nat (b - (a + 1)))) by lia.
  cbn [seq map]. f_equal; [lia|].
  rewrite <- seq_shift, map_map. apply map_ext. intros k. lia.
Qed.

(* x[a : b + 1] of a valid inclusive pair is the model's slice *)
Lemma pyslice_pslice {A} (l : list A) a b : 0 <= a -> a <= b -> pyslice l a (b + 1) = pslice a b l.
Proof.
  intros Ha Hab. unfold pyslice, pslice, slice_idx.
  replace (a <? 0) with false by (symmetry; apply Z.ltb_ge; lia).
  replace (b + 1 <? 0) with false by (symmetry; apply Z.ltb_ge; lia).
  pose proof (zlen_ge0 l) as Hl. unfold zlen in *.
  destruct (Z.le_gt_cases (Z.of_nat (List.length l)) a) as [Hge|Hlt].
  - rewrite (Z.min_r a) by lia. rewrite (Z.min_r (b + 1)) by lia.
    rewrite !skipn_all2 by lia. rewrite !firstn_nil. reflexivity.
  - rewrite (Z.min_l a) by lia.
    destruct (Z.le_gt_cases (b + 1) (Z.of_nat (List.length l))) as [H1|H1].
    + rewrite (Z.min_l (b + 1)) by lia. reflexivity.
    + rewrite (Z.min_r (b + 1)) by lia.
      rewrite !firstn_all2; [reflexivity | rewrite skipn_length; lia | rewrite skipn_length; lia].
Qed.
Lemma pslice_map {A B} (f : A -> B) a b l : pslice a b (map f l) = map f (pslice a b l).
Proof. unfold pslice. rewrite skipn_map, firstn_map. reflexivity. Qed.

(* ------------------------------------------------------------------ monadic list operations *)
Lemma forallM_pure {A} (f : A -> bool) l : forallM (fun x => Ok (f x)) l = Ok (forallb f l).
Proof. induction l as [|x l IH]; cbn; [reflexivity|]. destruct (f x); cbn; [exact IH | reflexivity]. Qed.

Lemma mapM_mapr {A B C} (G : C -> result C) (emb : A -> C) (emb' : B -> C) (f : A -> result B) l :
  (forall x, G (emb x) = rmap emb' (f x)) ->
  mapM G (map emb l) = rmap (map emb') (mapr f l).
Proof.
  intros HG. induction l as [|x l IH]; cbn; [reflexivity|].
  rewrite HG. destruct (f x) as [y|e]; cbn; [|reflexivity].
  rewrite IH. destruct (mapr f l) as [ys|e]; reflexivity.
Qed.

Section Src.
Variable P : Type.
Local Notation val := (pv P).
Variable flt : list (list P) -> val -> result (list (list P)).
Variable pattr : P -> string -> result val.

(* ------------------------------------------------------------------ values *)
Lemma as_int_isinstance (v : val) : py_isinstance v T_int = match as_int v with Some _ => true | None => false end.
Proof. destruct v; try reflexivity. Qed.
Lemma as_ev_of_ev (e : list P) : as_ev (of_ev e) = Some e.
Proof. unfold of_ev, as_ev. induction e as [|p e IH]; cbn; [reflexivity|]. cbn in IH. rewrite IH. reflexivity. Qed.
Lemma as_evs_of_evs (l : list (list P)) : as_evs (of_evs l) = Some l.
Proof.
  unfold of_evs, as_evs. induction l as [|e l IH]; cbn -[as_ev of_ev]; [reflexivity|].
  rewrite as_ev_of_ev. cbn -[as_ev of_ev] in IH. rewrite IH. reflexivity.
Qed.
Lemma len_of_ev (e : list P) : py_len (of_ev e) = Ok (VInt (zlen e)).
Proof. unfold of_ev. cbn. rewrite zlen_map. reflexivity. Qed.

(* "k" in d.keys() *)
Lemma in_keys k (d : list (string * val)) :
  existsM (fun e : val => py_eq (VStr k) e) (map (fun kv : string * val => VStr (fst kv)) d)
  = Ok (match lookup k d with Some _ => true | None => false end).
Proof.
  induction d as [|[k' v] d IH]; cbn; [reflexivity|].
  destruct (String.eqb k k'); cbn; [reflexivity | exact IH].
Qed.

(* ------------------------------------------------------------------ ParticleObjectLoader.__init__ *)
Theorem source_loader_init c attrs (x : val) :
  gen_ParticleObjectLoader_init P (VObj c attrs) x
  = if py_isinstance x T_list then Ok (VObj c (update "particle_list_" x attrs), VNone) else Err TypeError.
Proof. unfold gen_ParticleObjectLoader_init. destruct (py_isinstance x T_list); reflexivity. Qed.

(* ------------------------------------------------------------------ BaseLoader._check_that_tuple_contains_integers_only *)
Definition ints (l : list val) : bool := forallb (fun v => py_isinstance v T_int) l.

Theorem source_check_tuple (self : val) l :
  gen_BaseLoader_check_that_tuple_contains_integers_only P self (VTuple l)
  = if ints l then Ok (self, VNone) else Err TypeError.
Proof.
  unfold gen_BaseLoader_check_that_tuple_contains_integers_only, ints.
  cbn [py_iter rbind]. rewrite forallM_pure. cbn [notM rbind]. destruct (forallb _ l); reflexivity.
Qed.

(* ------------------------------------------------------------------ ParticleObjectLoader.set_num_output_per_event *)
Definition counts_of (evs : list (list P)) : list val := map (fun e => VInt (zlen e)) evs.

Lemma fold_counts (body : val -> val -> result val) c attrs (evs : list (list P)) :
  (forall acc i e, nth_error evs i = Some e ->
     body (VObj c (update "num_output_per_event_" (VList acc) attrs)) (VInt (Z.of_nat i))
     = Ok (VObj c (update "num_output_per_event_" (VList (acc ++ [VInt (zlen e)])) attrs))) ->
  fold_leftM body (map VInt (zrange 0 (zlen evs))) (VObj c (update "num_output_per_event_" (VList []) attrs))
  = Ok (VObj c (update "num_output_per_event_" (VList (counts_of evs)) attrs)).
Proof.
  intros Hb.
  assert (G : forall suf pre acc, evs = pre ++ suf ->
     fold_leftM body (map VInt (zrange (zlen pre) (zlen evs))) (VObj c (update "num_output_per_event_" (VList acc) attrs))
     = Ok (VObj c (update "num_output_per_event_" (VList (acc ++ counts_of suf)) attrs))).
  { induction suf as [|e suf IH]; intros pre acc He.
    - subst evs. rewrite app_nil_r. rewrite zrange_nil by lia. cbn. rewrite app_nil_r. reflexivity.
    - rewrite zrange_cons.
      2:{ subst evs. unfold zlen. rewrite app_length. cbn [List.length]. lia. }
      cbn [map fold_leftM]. unfold zlen at 1. rewrite (Hb acc (List.length pre) e).
      2:{ subst evs. rewrite nth_error_app2 by lia. rewrite Nat.sub_diag. reflexivity. }
      cbn [rbind]. specialize (IH (pre ++ [e]) (acc ++ [VInt (zlen e)])).
      rewrite zlen_app1 in IH. fold (zlen pre). rewrite IH.
      2:{ rewrite <- app_assoc. exact He. }
      rewrite <- app_assoc. reflexivity. }
  specialize (G evs [] [] eq_refl). exact G.
Qed.

Theorem source_set_num_output_per_event c attrs evs :
  lookup "particle_list_" attrs = Some (of_evs evs) ->
  lookup "num_events_" attrs = Some (VInt (zlen evs)) ->
  gen_ParticleObjectLoader_set_num_output_per_event P (VObj c attrs)
  = Ok (VObj c (update "num_output_per_event_" (VList (counts_of evs)) attrs), VList (counts_of evs)).
Proof.
  intros Hpl Hn. unfold gen_ParticleObjectLoader_set_num_output_per_event.
  cbn [py_setattr rbind py_getattr].
  rewrite lookup_update_ne by reflexivity. rewrite Hn. cbn [rbind py_range as_int].
  rewrite (fold_counts _ c attrs evs).
  - cbn [rbind py_getattr]. rewrite lookup_update_eq. reflexivity.
  - intros acc i e Hi. cbn [py_getattr py_setattr rbind]. rewrite lookup_update_eq.
    rewrite lookup_update_ne by reflexivity. rewrite Hpl. cbn [rbind of_evs py_getitem as_int].
    rewrite (pyget_nth _ i (of_ev e)) by (rewrite nth_error_map, Hi; reflexivity).
    cbn [rbind]. rewrite len_of_ev. cbn [rbind py_append]. rewrite update_update. reflexivity.
Qed.

(* ------------------------------------------------------------------ ParticleObjectLoader.set_particle_list *)
(* the value of the keyword `events` as a selector of the model: absent; an int (bool included); a tuple that
   starts with two ints and holds only ints (items after the second are never read) *)
Definition sel_of (o : option val) : option psel :=
  match o with
  | None => Some PAll
  | Some (VTuple (x :: y :: r)) =>
      match as_int x, as_int y with
      | Some a, Some b => if ints r then Some (PRange a b) else None
      | _, _ => None
      end
  | Some v => option_map POne (as_int v)
  end.
(* the value of the keyword `filters` as the per-event function of the model:
   self.__apply_kwargs_filters([event], filters)[0] *)
Definition flt_of (o : option val) : option (list P -> result (list P)) :=
  match o with None => None | Some fd => Some (fun e => r <- flt [e] fd ;; pyget r 0) end.
Definition held_of (fo : option val) (sel : list (list P)) : result (list (list P)) :=
  match flt_of fo with None => Ok sel | Some f => mapr f sel end.

Lemma filter_item fd (e : list P) :
  (v19_ <- py_apply_filters flt (VList [of_ev e]) fd ;; py_getitem v19_ (VInt 0))
  = rmap of_ev (r <- flt [e] fd ;; pyget r 0).
Proof.
  unfold py_apply_filters.
  change (VList [of_ev e]) with (of_evs [e]). rewrite as_evs_of_evs.
  destruct (flt [e] fd) as [r|err]; cbn [rmap rbind]; [|reflexivity].
  unfold of_evs. cbn [py_getitem as_int]. apply pyget_map.
Qed.

Ltac filter_phase Hpl' Ef :=
  cbn [rbind py_getattr py_setattr py_iter of_evs];
  try rewrite lookup_update_eq; try rewrite Hpl';
  cbn [rbind py_getattr py_setattr py_iter of_evs];
  cbn [py_getitem]; rewrite ?Ef; cbn [rbind];
  try (erewrite (mapM_mapr _ of_ev of_ev) by (intros ?; apply filter_item));
  unfold held_of, flt_of;
  repeat match goal with
  | |- context [mapr ?f ?l] => destruct (mapr f l); cbn [rbind rmap py_getattr py_setattr]
  end;
  cbn [rbind rmap py_getattr py_setattr];
  rewrite ?update_update, ?lookup_update_eq, ?Hpl'; try reflexivity.

Theorem source_set_particle_list c attrs evs kw s :
  lookup "particle_list_" attrs = Some (of_evs evs) ->
  sel_of (lookup "events" kw) = Some s -> pvalidate s = Ok tt ->
  gen_ParticleObjectLoader_set_particle_list P flt (VObj c attrs) (VDict kw)
  = (sel <- pselect P s evs ;; held <- held_of (lookup "filters" kw) sel ;;
     Ok (VObj c (update "particle_list_" (of_evs held) attrs), of_evs held)).
Proof.
  intros Hpl Hs Hv. unfold gen_ParticleObjectLoader_set_particle_list.
  cbn [py_keys rbind py_in]. rewrite !in_keys. cbn [rbind py_getitem].
  destruct (lookup "events" kw) as [v|] eqn:Ev.
  2:{ (* no selection *)
    cbn in Hs. injection Hs as <-. cbn [pselect rbind].
    destruct (lookup "filters" kw) as [fd|] eqn:Ef.
    - filter_phase Hpl Ef.
    - filter_phase Hpl Ef. rewrite (update_same _ _ _ Hpl). reflexivity. }
  cbn [rbind].
  destruct v as [| b | k | | | | l | | | |]; cbn in Hs; try discriminate.
  - (* events=<bool> *)
    injection Hs as <-. cbn [py_isinstance rbind py_getattr]. rewrite Hpl. cbn [rbind of_evs py_getitem as_int].
    rewrite pyget_map. cbn [pselect].
    rewrite pyget_nonneg by (destruct b; lia).
    destruct (nth_error evs _) as [e|]; cbn [rmap rbind]; [|reflexivity].
    cbn [py_setattr rbind].
    change (VList [of_ev e]) with (of_evs [e]).
    destruct (lookup "filters" kw) as [fd|] eqn:Ef; filter_phase Hpl Ef.
  - (* events=<int> *)
    injection Hs as <-. cbn [py_isinstance rbind py_getattr]. rewrite Hpl. cbn [rbind of_evs py_getitem as_int].
    rewrite pyget_map. cbn [pselect pvalidate] in *.
    destruct (k <? 0) eqn:Ek; [discriminate|]. apply Z.ltb_ge in Ek.
    rewrite pyget_nonneg by lia.
    destruct (nth_error evs _) as [e|]; cbn [rmap rbind]; [|reflexivity].
    cbn [py_setattr rbind].
    change (VList [of_ev e]) with (of_evs [e]).
    destruct (lookup "filters" kw) as [fd|] eqn:Ef; filter_phase Hpl Ef.
  - (* events=<tuple> *)
    destruct l as [|x [|y r]]; try discriminate.
    destruct (as_int x) as [a|] eqn:Ea; [|discriminate].
    destruct (as_int y) as [b0|] eqn:Eb; [|discriminate].
    destruct (ints r); [|discriminate]. injection Hs as <-.
    cbn [py_isinstance rbind py_getattr py_getitem as_int pyget List.length nth_error Z.of_nat Z.ltb Z.compare Z.to_nat Pos.to_nat Pos.iter_op Nat.add].
    rewrite Hpl. change (Pos.to_nat 1) with 1%nat. cbn [rbind nth_error]. unfold py_add at 1. rewrite Eb. cbn [as_int rbind of_evs py_slice]. rewrite Ea.
    cbn [pvalidate] in Hv.
    destruct (b0 <? a) eqn:E1; [discriminate|]. destruct ((a <? 0) || (b0 <? 0)) eqn:E2; [discriminate|].
    apply Z.ltb_ge in E1. apply orb_false_iff in E2. destruct E2 as [E2 E3]. apply Z.ltb_ge in E2.
    rewrite pyslice_pslice by lia. rewrite pslice_map. cbn [rbind py_setattr pselect].
    change (VList (map of_ev (pslice a b0 evs))) with (of_evs (pslice a b0 evs)).
    destruct (lookup "filters" kw) as [fd|] eqn:Ef; filter_phase Hpl Ef.
Qed.

(* ------------------------------------------------------------------ ParticleObjectLoader.load *)
Definition keys_ok (kw : list (string * val)) : bool :=
  forallb (fun k => String.eqb k "events" || String.eqb k "filters") (map fst kw).

Lemma keys_loop (body : unit -> val -> result unit) (kw : list (string * val)) :
  (forall k, body tt (VStr k) = if String.eqb k "events" || String.eqb k "filters" then Ok tt else Err ValueError) ->
  fold_leftM body (map (fun kv : string * val => VStr (fst kv)) kw) tt = if keys_ok kw then Ok tt else Err ValueError.
Proof.
  intros Hb. unfold keys_ok. induction kw as [|[k v] kw IH]; cbn [map fold_leftM forallb fst]; [reflexivity|].
  rewrite Hb. destruct (String.eqb k "events" || String.eqb k "filters"); cbn [rbind andb]; [exact IH | reflexivity].
Qed.

Ltac lk := repeat first [rewrite lookup_update_eq | rewrite lookup_update_ne by reflexivity].
Ltac step Hpl :=
  cbn [rbind rmap py_getattr py_setattr py_keys py_iter py_in py_getitem py_isinstance andM orM notM fst snd];
  lk; rewrite ?Hpl, ?in_keys.
Ltac steps Hpl := repeat (progress (step Hpl)).

Ltac load_tail Hpl Hs2 :=
  erewrite source_set_num_output_per_event by (lk; first [exact Hpl | reflexivity]);
  cbn [rbind fst snd];
  erewrite source_set_particle_list by (first [lk; exact Hpl | exact Hs2 | eassumption | reflexivity]);
  repeat match goal with
  | |- context [pselect ?p ?s ?e] => destruct (pselect p s e); cbn [rbind rmap]
  | |- context [held_of ?f ?l] => destruct (held_of f l); cbn [rbind rmap]
  end;
  cbn [rbind rmap fst snd py_getattr]; lk; try reflexivity.

Theorem source_load c attrs evs kw s :
  lookup "particle_list_" attrs = Some (of_evs evs) ->
  keys_ok kw = true -> sel_of (lookup "events" kw) = Some s ->
  rmap snd (gen_ParticleObjectLoader_load P flt (VObj c attrs) (VDict kw))
  = (_ <- pvalidate s ;; sel <- pselect P s evs ;; held <- held_of (lookup "filters" kw) sel ;;
     Ok (VTuple [of_evs held; VInt (zlen evs); VList (counts_of evs); VList []])).
Proof.
  intros Hpl Hk Hs. unfold gen_ParticleObjectLoader_load.
  steps Hpl. cbn [rbind py_len of_evs]. rewrite zlen_map. steps Hpl.
  rewrite (keys_loop _ kw)
    by (intros k; unfold py_not_in, notM; cbn [py_in existsM rbind py_eq as_int];
        destruct (String.eqb k "events"), (String.eqb k "filters"); reflexivity).
  rewrite Hk. steps Hpl.
  destruct (lookup "events" kw) as [v|] eqn:Ev.
  2:{ cbn in Hs. injection Hs as <-. steps Hpl.
      assert (Hs2 : sel_of (lookup "events" kw) = Some PAll) by (rewrite Ev; reflexivity).
      load_tail Hpl Hs2. }
  destruct v as [| b | k | | | | l | | | |]; cbn in Hs; try discriminate.
  - injection Hs as <-. cbn [py_isinstance]. steps Hpl. cbn [py_isinstance]. steps Hpl.
    assert (Hv : pvalidate (POne (if b then 1 else 0)) = Ok tt) by (destruct b; reflexivity).
    rewrite Hv. replace (py_lt (VBool b) (VInt 0)) with (@Ok bool false) by (destruct b; reflexivity).
    steps Hpl.
    assert (Hs2 : sel_of (lookup "events" kw) = Some (POne (if b then 1 else 0))) by (rewrite Ev; reflexivity).
    load_tail Hpl Hs2.
  - injection Hs as <-. cbn [py_isinstance]. steps Hpl. cbn [py_isinstance]. steps Hpl.
    cbn [py_lt py_cmp as_int pvalidate].
    destruct (k <? 0) eqn:Ek; steps Hpl; [reflexivity|].
    assert (Hv : pvalidate (POne k) = Ok tt) by (cbn; rewrite Ek; reflexivity).
    assert (Hs2 : sel_of (lookup "events" kw) = Some (POne k)) by (rewrite Ev; reflexivity).
    load_tail Hpl Hs2.
  - destruct l as [|x [|y r]]; try discriminate.
    destruct (as_int x) as [a|] eqn:Ea; [|discriminate].
    destruct (as_int y) as [b0|] eqn:Eb; [|discriminate].
    destruct (ints r) eqn:Er; [|discriminate]. injection Hs as <-.
    cbn [py_isinstance]. steps Hpl. rewrite source_check_tuple.
    assert (Hi : ints (x :: y :: r) = true).
    { unfold ints in *. cbn [forallb]. rewrite !as_int_isinstance, Ea, Eb, Er. reflexivity. }
    rewrite Hi. repeat (progress (step Hpl; rewrite ?Ev)).
    cbn [as_int pyget List.length nth_error Z.of_nat Z.ltb Z.compare Z.to_nat].
    change (Pos.to_nat 1) with 1%nat. cbn [nth_error]. steps Hpl.
    unfold py_gt, py_lt, py_cmp. rewrite Ea, Eb. cbn [as_int]. steps Hpl.
    cbn [pvalidate]. rewrite Z.gtb_ltb.
    destruct (b0 <? a) eqn:E1; steps Hpl; [reflexivity|].
    destruct (a <? 0) eqn:E2; steps Hpl; [reflexivity|].
    destruct (b0 <? 0) eqn:E3; steps Hpl; [reflexivity|]. cbn [orb].
    assert (Hv : pvalidate (PRange a b0) = Ok tt) by (cbn; rewrite E1, E2, E3; reflexivity).
    steps Hpl.
    assert (Hs2 : sel_of (lookup "events" kw) = Some (PRange a b0))
      by (rewrite Ev; cbn; rewrite Ea, Eb, Er; reflexivity).
    load_tail Hpl Hs2.
Qed.

(* load: the error branches outside the model's selectors *)
Theorem source_load_unknown_key c attrs (l : list val) kw :
  lookup "particle_list_" attrs = Some (VList l) -> keys_ok kw = false ->
  gen_ParticleObjectLoader_load P flt (VObj c attrs) (VDict kw) = Err ValueError.
Proof.
  intros Hpl Hk. unfold gen_ParticleObjectLoader_load.
  steps Hpl. cbn [rbind py_len]. steps Hpl.
  rewrite (keys_loop _ kw)
    by (intros k; unfold py_not_in, notM; cbn [py_in existsM rbind py_eq as_int];
        destruct (String.eqb k "events"), (String.eqb k "filters"); reflexivity).
  rewrite Hk. reflexivity.
Qed.

Theorem source_load_bad_tuple c attrs (l : list val) kw t :
  lookup "particle_list_" attrs = Some (VList l) -> keys_ok kw = true ->
  lookup "events" kw = Some (VTuple t) ->
  (ints t = false -> gen_ParticleObjectLoader_load P flt (VObj c attrs) (VDict kw) = Err TypeError) /\
  (ints t = true -> (List.length t < 2)%nat ->
   gen_ParticleObjectLoader_load P flt (VObj c attrs) (VDict kw) = Err IndexError).
Proof.
  intros Hpl Hk Ev.
  assert (H0 : forall e,
     (if ints t then Ok (VObj c (update "num_events_" (VInt (zlen l)) (update "optional_arguments_" (VDict kw) attrs)), @VNone P)
      else Err TypeError) = Err e \/ (ints t = true /\ (List.length t < 2)%nat /\ e = IndexError) ->
     gen_ParticleObjectLoader_load P flt (VObj c attrs) (VDict kw) = Err e).
  { intros e He. unfold gen_ParticleObjectLoader_load.
    steps Hpl. cbn [rbind py_len]. steps Hpl.
    rewrite (keys_loop _ kw)
      by (intros k; unfold py_not_in, notM; cbn [py_in existsM rbind py_eq as_int];
          destruct (String.eqb k "events"), (String.eqb k "filters"); reflexivity).
    rewrite Hk. repeat (progress (step Hpl; rewrite ?Ev)).
    rewrite source_check_tuple.
    destruct He as [He | (Hi & Hlen & ->)].
    - destruct (ints t); [discriminate|]. injection He as <-. reflexivity.
    - rewrite Hi. repeat (progress (step Hpl; rewrite ?Ev)).
      destruct t as [|x [|y t]]; [reflexivity | reflexivity | cbn in Hlen; lia]. }
  split.
  - intros Hi. apply H0. left. rewrite Hi. reflexivity.
  - intros Hi Hlen. apply H0. right. auto.
Qed.

(* ------------------------------------------------------------------ BaseStorer.__init__ *)
Lemma keys_ok_starstar kw names :
  keys_ok kw = true -> str_mem "events" names = false -> str_mem "filters" names = false ->
  py_starstar (VDict kw) names = Ok (@VDict P kw).
Proof.
  intros Hk H1 H2. unfold py_starstar.
  replace (existsb (fun k => str_mem k names) (map fst kw)) with false; [reflexivity|].
  symmetry. unfold keys_ok in Hk. induction kw as [|[k v] kw IH]; cbn [map existsb forallb fst] in *; [reflexivity|].
  apply andb_true_iff in Hk. destruct Hk as [Hk1 Hk2]. rewrite (IH Hk2), orb_false_r.
  apply orb_true_iff in Hk1. destruct Hk1 as [E|E]; apply String.eqb_eq in E; subst k; assumption.
Qed.

(* what the model's selection and filtering yield: the events the storer will hold *)
Definition held_events (kw : list (string * val)) (s : psel) (evs : list (list P)) : result (list (list P)) :=
  _ <- pvalidate s ;; sel <- pselect P s evs ;; held_of (lookup "filters" kw) sel.

(* the state after BaseStorer.__init__: the tuple returned by load() has been taken over attribute by attribute *)
Definition base_post c (evs held : list (list P)) (r : val * val) : Prop :=
  exists attrs', r = (VObj c attrs', VNone) /\
    lookup "particle_list_" attrs' = Some (of_evs held) /\
    lookup "num_events_" attrs' = Some (VInt (zlen evs)) /\
    lookup "num_output_per_event_" attrs' = Some (VList (counts_of evs)) /\
    lookup "custom_attr_list" attrs' = Some (VList []) /\
    exists o, lookup "loader_" attrs' = Some o.

Theorem source_base_storer_init c attrs evs kw s :
  keys_ok kw = true -> sel_of (lookup "events" kw) = Some s ->
  match held_events kw s evs with
  | Ok held => exists r, gen_BaseStorer_init P flt (VObj c attrs) (of_evs evs) (VDict kw) = Ok r /\ base_post c evs held r
  | Err e => gen_BaseStorer_init P flt (VObj c attrs) (of_evs evs) (VDict kw) = Err e
  end.
Proof.
  intros Hk Hs. unfold gen_BaseStorer_init.
  unfold gen_ParticleObjectStorer_create_loader, gen_new_ParticleObjectLoader.
  cbn [py_setattr rbind]. rewrite source_loader_init. cbn [py_isinstance of_evs rbind fst snd py_setattr py_getattr].
  lk. cbn [rbind py_is_none negb]. unfold gen_dyn_load. cbn [py_class_of rbind]. rewrite String.eqb_refl.
  rewrite keys_ok_starstar by (exact Hk || reflexivity). cbn [rbind].
  pose proof (source_load "ParticleObjectLoader" (update "particle_list_" (of_evs evs) []) evs kw s
                (lookup_update_eq _ _ _) Hk Hs) as HL.
  fold (of_evs evs). unfold held_events.
  destruct (gen_ParticleObjectLoader_load P flt _ _) as [[o r]|e]; cbn [rmap snd] in HL.
  - destruct (pvalidate s); cbn [rbind] in *; [|discriminate].
    destruct (pselect P s evs) as [sel|]; cbn [rbind] in *; [|discriminate].
    destruct (held_of (lookup "filters" kw) sel) as [held|]; cbn [rbind] in *; [|discriminate].
    injection HL as ->. cbn [rbind fst snd py_setattr py_unpack List.length Nat.eqb py_getitem as_int].
    rewrite pyget_0, pyget_1, pyget_2, pyget_3. cbn [rbind py_setattr].
    eexists. split; [reflexivity|]. eexists. split; [reflexivity|].
    repeat split; lk; try reflexivity. eexists. reflexivity.
  - destruct (pvalidate s); cbn [rbind] in *; [|congruence].
    destruct (pselect P s evs) as [sel|]; cbn [rbind] in *; [|congruence].
    destruct (held_of (lookup "filters" kw) sel) as [held|]; cbn [rbind] in *; [discriminate | congruence].
Qed.

(* ------------------------------------------------------------------ ParticleObjectStorer.__init__ *)
Definition row_of (r : Z * Z) : val := VList [VInt (fst r); VInt (snd r)].

(* [[first_event + i, len(event)] for i, event in enumerate(held)] *)
Lemma rows_enumerate (G : val * val -> result val) first (held : list (list P)) :
  (forall i e, G (VInt i, of_ev e) = Ok (row_of (first + i, zlen e))) ->
  mapM G (combine (map (fun k => VInt (Z.of_nat k)) (seq 0 (List.length (map of_ev held)))) (map of_ev held))
  = Ok (map row_of (label_from P first held)).
Proof.
  intros HG. rewrite map_length.
  assert (H : forall l start,
     mapM G (combine (map (fun k => @VInt P (Z.of_nat k)) (seq start (List.length l))) (map of_ev l))
     = Ok (map row_of (label_from P (first + Z.of_nat start) l))).
  { induction l as [|e l IH]; intros start; [reflexivity|].
    cbn [List.length seq map combine mapM label_from]. rewrite HG. cbn [rbind].
    rewrite IH. cbn [rbind]. unfold zlen.
    replace (first + Z.of_nat (S start)) with (first + Z.of_nat start + 1) by lia. reflexivity. }
  rewrite (H held 0%nat). rewrite Z.add_0_r. reflexivity.
Qed.

(* np.array(<those rows>, dtype=int).reshape(-1, 2) *)
Lemma array_of_rows (L : list (Z * Z)) : py_array_int_m1_2 (VList (map row_of L)) = Ok (@VArr2 P L).
Proof.
  unfold py_array_int_m1_2.
  assert (H1 : opt_all (map int_row (map row_of L)) = Some (map (fun r => [fst r; snd r]) L)).
  { induction L as [|r L IH]; [reflexivity|]. cbn [map opt_all]. rewrite IH. reflexivity. }
  rewrite H1.
  assert (H2 : same_lengths (map (fun r : Z * Z => [fst r; snd r]) L) = true).
  { clear H1. destruct L as [|r L]; [reflexivity|]. cbn [map same_lengths].
    induction L as [|r2 L IH]; [reflexivity|]. cbn [map forallb List.length Nat.eqb andb]. exact IH. }
  rewrite H2.
  assert (H3 : pairs (List.concat (map (fun r : Z * Z => [fst r; snd r]) L)) = Some L).
  { clear H1 H2. induction L as [|[a b] L IH]; [reflexivity|]. cbn [map List.concat app pairs fst snd]. rewrite IH. reflexivity. }
  rewrite H3. reflexivity.
Qed.

(* the value of `events` (default 0; the first item of a tuple) from which the labels count *)
Lemma first_event_of (o : option val) s :
  sel_of o = Some s ->
  exists fe, as_int fe = Some (pfirst s) /\
    (let v := match o with Some v => v | None => VInt 0 end in
     if py_isinstance v T_tuple then py_getitem v (VInt 0) else Ok v) = Ok fe.
Proof.
  intros Hs. destruct o as [v|]; cbn in Hs.
  2:{ injection Hs as <-. exists (VInt 0). split; reflexivity. }
  destruct v as [| b | k | | | | l | | | |]; cbn in Hs; try discriminate.
  - injection Hs as <-. exists (VBool b). split; reflexivity.
  - injection Hs as <-. exists (VInt k). split; reflexivity.
  - destruct l as [|x [|y r]]; try discriminate.
    destruct (as_int x) as [a|] eqn:Ea; [|discriminate].
    destruct (as_int y) as [b0|] eqn:Eb; [|discriminate].
    destruct (ints r); [|discriminate]. injection Hs as <-.
    exists x. split; [exact Ea | reflexivity].
Qed.

(* what Python shows of the finished storer: the three attributes the property is about; loader_ must be gone *)
Definition obs (r : result val) : result (val * val * val) :=
  o <- r ;; a <- py_getattr o "particle_list_" ;; b <- py_getattr o "num_events_" ;;
  c <- py_getattr o "num_output_per_event_" ;;
  match py_getattr o "loader_" with Err AttributeError => Ok (a, b, c) | _ => Err OtherError end.
Definition of_storer (st : pstorer P) : val * val * val :=
  (of_evs (p_events P st), VInt (p_nevents P st), VArr2 (p_counts P st)).

Lemma pload_held kw s evs :
  pload P (flt_of (lookup "filters" kw)) s evs
  = (held <- held_events kw s evs ;;
     Ok {| p_events := held; p_nevents := Z.of_nat (List.length held); p_counts := label_from P (pfirst s) held |}).
Proof.
  unfold pload, held_events, held_of. destruct (pvalidate s); cbn [rbind]; [|reflexivity].
  destruct (pselect P s evs); cbn [rbind]; reflexivity.
Qed.

(* ParticleObjectStorer(evs, **kw) = pload: for every nested list evs of particle objects and every keyword
   dictionary whose keys are among events / filters and whose `events` value is a selector of the model *)
Theorem source_pload evs kw s :
  keys_ok kw = true -> sel_of (lookup "events" kw) = Some s ->
  obs (gen_new_ParticleObjectStorer P flt (of_evs evs) (VDict kw))
  = rmap of_storer (pload P (flt_of (lookup "filters" kw)) s evs).
Proof.
  intros Hk Hs. rewrite pload_held.
  unfold gen_new_ParticleObjectStorer, gen_ParticleObjectStorer_init.
  rewrite keys_ok_starstar by (exact Hk || reflexivity). cbn [rbind].
  pose proof (source_base_storer_init "ParticleObjectStorer" [] evs kw s Hk Hs) as HB.
  destruct (held_events kw s evs) as [held|e].
  2:{ rewrite HB. reflexivity. }
  destruct HB as (r & -> & attrs' & -> & Hpl & Hne & Hno & Hca & o & Hlo).
  cbn [rbind fst snd py_dict_get].
  destruct (first_event_of _ s Hs) as (fe & Hfe & Efe). cbv zeta in Efe.
  match goal with |- context [if py_isinstance ?v T_tuple then ?a else ?b] =>
    replace (if py_isinstance v T_tuple then a else b) with (@Ok val fe)
  end.
  2:{ symmetry. destruct (py_isinstance _ T_tuple); [|exact Efe]. rewrite Efe. reflexivity. }
  cbn [rbind py_getattr py_setattr]. rewrite Hpl. cbn [rbind py_len of_evs py_enumerate py_iter].
  steps Hpl. cbn [rbind py_len of_evs py_enumerate py_iter].
  rewrite (rows_enumerate _ (pfirst s) held).
  2:{ intros i e. unfold py_add. rewrite Hfe. cbn [as_int rbind]. rewrite len_of_ev. reflexivity. }
  cbn [rbind]. rewrite array_of_rows. cbn [rbind py_setattr py_delattr]. lk. rewrite Hlo. cbn [rbind fst].
  unfold obs. cbn [rbind py_getattr].
  rewrite lookup_remove_eq. rewrite !lookup_remove_ne by reflexivity. lk. rewrite Hpl. cbn [rbind rmap].
  unfold of_storer. cbn [p_events p_nevents p_counts]. rewrite zlen_map. reflexivity.
Qed.

(* the constructor's error branches outside the model *)
Theorem source_new_not_a_list (x : val) kw :
  keys_ok kw = true -> py_isinstance x T_list = false ->
  gen_new_ParticleObjectStorer P flt x (VDict kw) = Err TypeError.
Proof.
  intros Hk Hx. unfold gen_new_ParticleObjectStorer, gen_ParticleObjectStorer_init.
  rewrite keys_ok_starstar by (exact Hk || reflexivity). cbn [rbind].
  unfold gen_BaseStorer_init, gen_ParticleObjectStorer_create_loader, gen_new_ParticleObjectLoader.
  cbn [py_setattr rbind]. rewrite source_loader_init, Hx. reflexivity.
Qed.

Theorem source_new_unknown_key evs kw :
  keys_ok kw = false ->
  existsb (fun k => str_mem k ["self"; "path"]%string) (map fst kw) = false ->
  gen_new_ParticleObjectStorer P flt (of_evs evs) (VDict kw) = Err ValueError.
Proof.
  intros Hk Hn. unfold gen_new_ParticleObjectStorer, gen_ParticleObjectStorer_init.
  unfold py_starstar at 1. rewrite Hn. cbn [rbind].
  unfold gen_BaseStorer_init, gen_ParticleObjectStorer_create_loader, gen_new_ParticleObjectLoader.
  cbn [py_setattr rbind]. rewrite source_loader_init. cbn [py_isinstance of_evs rbind fst snd py_setattr py_getattr].
  lk. cbn [rbind py_is_none negb]. unfold gen_dyn_load. cbn [py_class_of rbind]. rewrite String.eqb_refl.
  unfold py_starstar.
  replace (existsb (fun k => str_mem k ["self"]%string) (map fst kw)) with false.
  2:{ symmetry. clear Hk. induction kw as [|[k v] kw IH]; [reflexivity|]. cbn [map existsb fst] in *.
      apply orb_false_iff in Hn. destruct Hn as [H1 H2]. rewrite (IH H2), orb_false_r.
      unfold str_mem in *. cbn [existsb] in *. apply orb_false_iff in H1. destruct H1 as [H1 _].
      rewrite H1. reflexivity. }
  cbn [rbind].
  rewrite (source_load_unknown_key _ _ (map of_ev evs) kw) by (exact Hk || apply lookup_update_eq).
  reflexivity.
Qed.

(* a keyword that is also a named parameter of BaseStorer.__init__ *)
Theorem source_new_clashing_key (x : val) kw :
  existsb (fun k => str_mem k ["self"; "path"]%string) (map fst kw) = true ->
  gen_new_ParticleObjectStorer P flt x (VDict kw) = Err TypeError.
Proof.
  intros Hn. unfold gen_new_ParticleObjectStorer, gen_ParticleObjectStorer_init.
  unfold py_starstar at 1. rewrite Hn. reflexivity.
Qed.

(* ------------------------------------------------------------------ the small methods *)
Theorem source_create_loader c attrs evs :
  gen_ParticleObjectStorer_create_loader P (VObj c attrs) (of_evs evs)
  = Ok (VObj c (update "loader_" (VObj "ParticleObjectLoader" [("particle_list_"%string, of_evs evs)]) attrs), VNone).
Proof.
  unfold gen_ParticleObjectStorer_create_loader, gen_new_ParticleObjectLoader.
  rewrite source_loader_init. reflexivity.
Qed.

Theorem source_update_after_merge (self other : val) :
  gen_ParticleObjectStorer_update_after_merge P self other = Ok (self, VNone).
Proof. reflexivity. Qed.

(* the row of a particle: these 24 attributes in this order *)
Definition row_fields : list string :=
  ["t"; "x"; "y"; "z"; "mass"; "E"; "px"; "py"; "pz"; "pdg"; "ID"; "charge"; "ncoll"; "form_time"; "xsecfac";
   "proc_id_origin"; "proc_type_origin"; "t_last_coll"; "pdg_mother1"; "pdg_mother2"; "baryon_number";
   "strangeness"; "weight"; "status"]%string.

Theorem source_particle_as_list (self : val) p :
  gen_ParticleObjectStorer_particle_as_list P pattr self (VP p)
  = (l <- mapM (pattr p) row_fields ;; Ok (self, VList l)).
Proof.
  unfold gen_ParticleObjectStorer_particle_as_list, row_fields. cbn [py_pattr mapM].
  repeat (match goal with |- context [pattr p ?a] => destruct (pattr p a); [|reflexivity] end).
  reflexivity.
Qed.

(* ------------------------------------------------------------------ the property, read on the translated source *)
Lemma of_evs_inj (a b : list (list P)) : of_evs a = of_evs b -> a = b.
Proof. intros H. apply (f_equal as_evs) in H. rewrite !as_evs_of_evs in H. congruence. Qed.

(* C02 (Proofs/C02_PObj.v, pobj_range_is_slice) on the regenerated constructor: with events=(a, b) the storer holds
   the slice a..b of what it holds without `events` - events, their number, the count rows under their labels *)
Theorem source_range_is_slice evs kw a b ev_full n cnts :
  keys_ok kw = true -> lookup "events" kw = None -> 0 <= a <= b -> b < zlen evs ->
  obs (gen_new_ParticleObjectStorer P flt (of_evs evs) (VDict kw)) = Ok (of_evs ev_full, VInt n, VArr2 cnts) ->
  obs (gen_new_ParticleObjectStorer P flt (of_evs evs) (VDict (("events"%string, VTuple [VInt a; VInt b]) :: kw)))
  = Ok (of_evs (pslice a b ev_full), VInt (b + 1 - a), VArr2 (pslice a b cnts)).
Proof.
  intros Hk He Hab Hb H0.
  rewrite (source_pload evs kw PAll Hk) in H0 by (rewrite He; reflexivity).
  destruct (pload P _ PAll evs) as [full|] eqn:Ef; cbn [rmap] in H0; [|discriminate].
  unfold of_storer in H0. injection H0 as H1 H2 H3. apply (f_equal (@VList P)) in H1. apply of_evs_inj in H1.
  rewrite (source_pload evs _ (PRange a b)); [| exact Hk | reflexivity].
  change (lookup "filters" (("events"%string, VTuple [VInt a; VInt b]) :: kw)) with (lookup "filters" kw).
  rewrite (pobj_range_is_slice P _ evs full a b Ef Hab Hb). cbn [rmap]. unfold of_storer.
  cbn [p_events p_nevents p_counts]. subst. reflexivity.
Qed.

(* ------------------------------------------------------------------ a run of the translated methods *)
End Src.

Example source_example :
  obs nat (gen_new_ParticleObjectStorer nat (fun l _ => Ok (map (filter Nat.even) l))
             (of_evs [[1; 2]; [3; 4; 6]; []; [8]]%nat)
             (VDict [("events", VTuple [VInt 1; VInt 2]); ("filters", VDict [])]%string))
  = Ok (of_evs [[4; 6]; []]%nat, VInt 2, VArr2 [(1, 2); (2, 0)]).
Proof. vm_compute. reflexivity. Qed.

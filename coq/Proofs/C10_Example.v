(* C10: a concrete history and its written file (non-vacuity of the C10 theorems). *)
From Coq Require Import List ZArith QArith Qcanon Bool Arith.
From SX Require Import Model.Histogram Lib.HistBase.
Import ListNotations.
Local Open Scope nat_scope.

Definition z2 (n : Z) (d : positive) : Qc := Q2Qc (n # d).
Definition tq (t : table) := map (fun hr => (fst hr, map (map (option_map this)) (snd hr))) t.
Definition ex_ops : list op :=
  [OFill (VList [Some (z2 1 2); Some (z2 3 2)]) WNone; OAddHist; OFill (VScalar (Some (z2 3 2))) (WScalar (Some (z2 3 1)));
   OAddBin 1 (z2 1 2); OAverage; OScale (SList [Some (z2 2 1); Some (z2 1 1); Some (z2 1 2)]); ORemoveBin 0; OAddHist].
Definition c10_example_stmt : Prop :=
  match run qsqrt (fresh 2 [z2 0 1; z2 1 1; z2 2 1]) ex_ops with
  | Ok h => shapeb h = true /\ map this (edges h) = [1 # 2; 1 # 1; 2 # 1]%Q
            /\ option_map tq (match write_to_file h [[(1, 11); (3, 13); (4, 14)]] (Some [3; 1; 4]) with Ok t => Some t | Err _ => None end)
               = Some [([13; 11; 14]%nat, [[Some (0 # 1); Some (1 # 2); Some (0 # 1)]; [Some (1 # 1); Some (1 # 1); Some (1 # 2)]]%Q);
                       ([13; 11; 14]%nat, [[Some (0 # 1); Some (1 # 2); Some (0 # 1)]; [Some (0 # 1); Some (1 # 1); Some (0 # 1)]]%Q)]
  | Err _ => False
  end.

Lemma c10_example : c10_example_stmt.
Proof. vm_compute. repeat split; reflexivity. Qed.

(* C17: addressing by index and by coordinate, element-wise operators, histories of set operations. *)
From Coq Require Import List ZArith QArith Qabs Bool Lia Lqa.
From SX Require Import Lib.Py Lib.QCheck Gen.GenLattice Model.Lattice Proofs.C17_Index.
Import ListNotations.

Section GridProofs.
  Variable V : Type.
  Notation lattice := (lattice V).

  (* ---- by index ------------------------------------------------------------------------------------------ *)
  Lemma valid1_iff i a : valid1 i a = true <-> (0 <= i < Z.of_nat (npts a))%Z.
  Proof. unfold valid1, gen_valid1. rewrite andb_true_iff, Z.leb_le, Z.ltb_lt. tauto. Qed.

  Lemma is_valid_iff (L : lattice) i j k :
    is_valid_index V L i j k = true <->
    (0 <= i < Z.of_nat (npts (ax L)) /\ 0 <= j < Z.of_nat (npts (ay L)) /\ 0 <= k < Z.of_nat (npts (az L)))%Z.
  Proof. unfold is_valid_index. rewrite !andb_true_iff, !valid1_iff. tauto. Qed.

  Definition out_of_bounds (L : lattice) (i j k : Z) : Prop :=
    (i < 0 \/ Z.of_nat (npts (ax L)) <= i \/ j < 0 \/ Z.of_nat (npts (ay L)) <= j
     \/ k < 0 \/ Z.of_nat (npts (az L)) <= k)%Z.

  (* outside [0,n) on any axis - negative indices included - nothing is read or written, a warning is issued *)
  Lemma by_index_outside (L : lattice) i j k v : out_of_bounds L i j k ->
    set_value_by_index V L i j k v = Warned L /\ get_value_by_index V L i j k = Warned None.
  Proof.
    intros Ho. assert (E : is_valid_index V L i j k = false).
    { destruct (is_valid_index V L i j k) eqn:E; [|reflexivity].
      apply is_valid_iff in E. unfold out_of_bounds in Ho. lia. }
    unfold set_value_by_index, get_value_by_index. now rewrite E.
  Qed.

  Lemma by_index_inside (L : lattice) (i j k : nat) v :
    (i < npts (ax L))%nat -> (j < npts (ay L))%nat -> (k < npts (az L))%nat ->
    set_value_by_index V L (Z.of_nat i) (Z.of_nat j) (Z.of_nat k) v = WOk (with_grid V L (upd V (grid L) i j k v))
    /\ get_value_by_index V L (Z.of_nat i) (Z.of_nat j) (Z.of_nat k) = WOk (Some (grid L i j k)).
  Proof.
    intros Hi Hj Hk. assert (E : is_valid_index V L (Z.of_nat i) (Z.of_nat j) (Z.of_nat k) = true).
    { apply is_valid_iff. lia. }
    unfold set_value_by_index, get_value_by_index. rewrite E, !Nat2Z.id. split; reflexivity.
  Qed.

  Lemma upd_same g i j k v : upd V g i j k v i j k = v.
  Proof. unfold upd. now rewrite !Nat.eqb_refl. Qed.
  Lemma upd_other g i j k v a b c : (a, b, c) <> (i, j, k) -> upd V g i j k v a b c = g a b c.
  Proof.
    intros Hne. unfold upd.
    destruct (Nat.eqb a i) eqn:E1; [|reflexivity]. destruct (Nat.eqb b j) eqn:E2; [|reflexivity].
    destruct (Nat.eqb c k) eqn:E3; [|reflexivity].
    apply Nat.eqb_eq in E1, E2, E3. subst. congruence.
  Qed.

  Lemma coord_bad_iff i n : gen_coord_bad i n = true <-> (i < 0 \/ n <= i)%Z.
  Proof. unfold gen_coord_bad. rewrite orb_true_iff, Z.ltb_lt, Z.leb_le. tauto. Qed.

  Lemma coord1_outside i a : (i < 0 \/ Z.of_nat (npts a) <= i)%Z -> coord1 i a = Err ValueError.
  Proof.
    intros H. unfold coord1. apply coord_bad_iff in H. rewrite H. reflexivity.
  Qed.
  Lemma coord1_inside (i : nat) a : (i < npts a)%nat -> coord1 (Z.of_nat i) a = Ok (nth i (avals a) 0%Q).
  Proof.
    intros H. unfold coord1.
    destruct (gen_coord_bad (Z.of_nat i) (Z.of_nat (npts a))) eqn:E.
    { apply coord_bad_iff in E. lia. }
    rewrite Nat2Z.id. unfold npts in H.
    rewrite (nth_error_nth' (avals a) 0%Q H). reflexivity.
  Qed.

  Lemma coord1_cases i a :
    coord1 i a = Err ValueError \/ (exists v, coord1 i a = Ok v /\ (0 <= i < Z.of_nat (npts a))%Z).
  Proof.
    destruct (Z_lt_dec i 0) as [N|N]; [left; apply coord1_outside; lia|].
    destruct (Z_le_dec (Z.of_nat (npts a)) i) as [M|M]; [left; apply coord1_outside; lia|].
    right. exists (nth (Z.to_nat i) (avals a) 0%Q). split; [|lia].
    rewrite <- (Z2Nat.id i) at 1 by lia. apply coord1_inside. lia.
  Qed.

  Lemma get_coordinates_outside (L : lattice) i j k : out_of_bounds L i j k -> get_coordinates V L i j k = Err ValueError.
  Proof.
    unfold out_of_bounds, get_coordinates. intros H.
    destruct (coord1_cases i (ax L)) as [Ex|(x & Ex & Bx)]; rewrite Ex; [reflexivity|]. simpl.
    destruct (coord1_cases j (ay L)) as [Ey|(y & Ey & By)]; rewrite Ey; [reflexivity|]. simpl.
    destruct (coord1_cases k (az L)) as [Ez|(z & Ez & Bz)]; rewrite Ez; [reflexivity|]. lia.
  Qed.

  Lemma get_coordinates_inside (L : lattice) (i j k : nat) :
    (i < npts (ax L))%nat -> (j < npts (ay L))%nat -> (k < npts (az L))%nat ->
    get_coordinates V L (Z.of_nat i) (Z.of_nat j) (Z.of_nat k)
    = Ok (nth i (avals (ax L)) 0%Q, nth j (avals (ay L)) 0%Q, nth k (avals (az L)) 0%Q).
  Proof.
    intros Hi Hj Hk. unfold get_coordinates. rewrite !coord1_inside by assumption. reflexivity.
  Qed.

  (* ---- by coordinate ------------------------------------------------------------------------------------- *)
  Definition incr_axes (L : lattice) : Prop :=
    increasing (avals (ax L)) /\ increasing (avals (ay L)) /\ increasing (avals (az L)).

  Definition in_cell (L : lattice) (i j k : nat) (x y z : Q) : Prop :=
    cell (avals (ax L)) i x /\ cell (avals (ay L)) j y /\ cell (avals (az L)) k z.

  Lemma indices3_cell (L : lattice) i j k x y z : incr_axes L -> in_cell L i j k x y z ->
    indices3 V get_index L (Fin x) (Fin y) (Fin z) = Ok (i, j, k).
  Proof.
    intros (Hx & Hy & Hz) (Cx & Cy & Cz). unfold indices3.
    rewrite (get_index_complete _ _ _ Hx Cx), (get_index_complete _ _ _ Hy Cy), (get_index_complete _ _ _ Hz Cz).
    reflexivity.
  Qed.

  Lemma indices3_sound (L : lattice) i j k x y z : incr_axes L ->
    indices3 V get_index L (Fin x) (Fin y) (Fin z) = Ok (i, j, k) -> in_cell L i j k x y z.
  Proof.
    intros (Hx & Hy & Hz). unfold indices3, rbind.
    destruct (get_index (Fin x) (avals (ax L))) eqn:Ex; [|discriminate].
    destruct (get_index (Fin y) (avals (ay L))) eqn:Ey; [|discriminate].
    destruct (get_index (Fin z) (avals (az L))) eqn:Ez; [|discriminate].
    intros [= <- <- <-].
    repeat split; eapply get_index_sound; eassumption.
  Qed.

  (* set_value / get_value address the lower corner of the cell containing the point *)
  Lemma set_value_cell (L : lattice) i j k x y z v : incr_axes L -> in_cell L i j k x y z ->
    set_value V L (Fin x) (Fin y) (Fin z) v = WOk (with_grid V L (upd V (grid L) i j k v)).
  Proof.
    intros HL HC. unfold set_value, set_at. rewrite (indices3_cell L i j k x y z HL HC).
    destruct HC as ((Hi & _) & (Hj & _) & (Hk & _)).
    exact (proj1 (by_index_inside L i j k v Hi Hj Hk)).
  Qed.

  Lemma get_value_cell (L : lattice) i j k x y z : incr_axes L -> in_cell L i j k x y z ->
    get_value V L (Fin x) (Fin y) (Fin z) = WOk (Some (grid L i j k)).
  Proof.
    intros HL HC. unfold get_value, get_at. rewrite (indices3_cell L i j k x y z HL HC).
    destruct HC as ((Hi & _) & (Hj & _) & (Hk & _)).
    exact (proj2 (by_index_inside L i j k (grid L i j k) Hi Hj Hk)).
  Qed.

  (* set, then get anywhere in the same cell *)
  Lemma set_get_same_cell (L : lattice) i j k x y z x' y' z' v : incr_axes L ->
    in_cell L i j k x y z -> in_cell L i j k x' y' z' ->
    exists L', set_value V L (Fin x) (Fin y) (Fin z) v = WOk L'
      /\ get_value V L' (Fin x') (Fin y') (Fin z') = WOk (Some v)
      /\ (forall a b c, (a, b, c) <> (i, j, k) -> grid L' a b c = grid L a b c)
      /\ ax L' = ax L /\ ay L' = ay L /\ az L' = az L.
  Proof.
    intros HL HC HC'. eexists. split; [apply set_value_cell; eassumption|].
    split.
    - rewrite (get_value_cell _ i j k); [|exact HL|exact HC']. simpl. now rewrite upd_same.
    - split; [|repeat split]. intros a b c Hne. simpl. now apply upd_other.
  Qed.

  Definition coord_rejected (vs : list Q) (c : fv) : Prop :=
    match c with Fin x => (x < nth 0 vs 0 \/ last vs 0 < x)%Q | _ => True end.

  Lemma get_index_rejected vs c : vs <> [] -> coord_rejected vs c -> get_index c vs = Err ValueError.
  Proof.
    intros Hne Hr. destruct c; simpl in Hr.
    - now apply get_index_outside.
    - now apply get_index_nonfinite.
    - now apply get_index_nonfinite.
    - now apply get_index_nonfinite.
  Qed.
  Lemma get_index_nn_rejected vs c : vs <> [] -> coord_rejected vs c -> get_index_nn c vs = Err ValueError.
  Proof.
    intros Hne Hr. destruct c; simpl in Hr.
    - now apply get_index_nn_outside.
    - now apply get_index_nn_nonfinite.
    - now apply get_index_nn_nonfinite.
    - now apply get_index_nn_nonfinite.
  Qed.

  Definition nonempty_axes (L : lattice) : Prop := avals (ax L) <> [] /\ avals (ay L) <> [] /\ avals (az L) <> [].

  Lemma lookup_errors look (Hlook : forall vs c, vs <> [] -> coord_rejected vs c -> look c vs = Err ValueError)
        (Hcls : forall vs c e, vs <> [] -> look c vs = Err e -> e = ValueError)
        (L : lattice) x y z :
    nonempty_axes L ->
    coord_rejected (avals (ax L)) x \/ coord_rejected (avals (ay L)) y \/ coord_rejected (avals (az L)) z ->
    indices3 V look L x y z = Err ValueError.
  Proof.
    intros (Nx & Ny & Nz) H. unfold indices3, rbind.
    destruct (look x (avals (ax L))) eqn:Ex.
    2:{ now rewrite (Hcls _ _ _ Nx Ex). }
    destruct (look y (avals (ay L))) eqn:Ey.
    2:{ now rewrite (Hcls _ _ _ Ny Ey). }
    destruct (look z (avals (az L))) eqn:Ez.
    2:{ now rewrite (Hcls _ _ _ Nz Ez). }
    destruct H as [H|[H|H]].
    - rewrite Hlook in Ex by assumption. discriminate.
    - rewrite Hlook in Ey by assumption. discriminate.
    - rewrite Hlook in Ez by assumption. discriminate.
  Qed.

  Lemma get_index_errcls vs c e : vs <> [] -> get_index c vs = Err e -> e = ValueError.
  Proof.
    intros Hne. destruct vs as [|v0 t]; [congruence|].
    rewrite (get_index_unfold' _ c v0 t eq_refl).
    destruct (negb (q_le_fv v0 c && fv_le_q c (last (v0 :: t) v0))) eqn:E; [congruence|].
    destruct c; try discriminate; unfold q_le_fv, fv_le_q in E; rewrite ?andb_false_r in E; discriminate.
  Qed.
  Lemma get_index_nn_errcls vs c e : vs <> [] -> get_index_nn c vs = Err e -> e = ValueError.
  Proof.
    intros Hne. destruct vs as [|v0 t]; [congruence|].
    rewrite (get_index_nn_unfold _ c v0 t eq_refl).
    destruct (negb (q_le_fv v0 c && fv_le_q c (last (v0 :: t) v0))) eqn:E; [congruence|].
    destruct c; try discriminate; unfold q_le_fv, fv_le_q in E; rewrite ?andb_false_r in E; discriminate.
  Qed.

  (* a point outside the lattice on any axis (or a non-finite coordinate) is rejected by all four accessors:
     it is never mapped to some other cell *)
  Lemma outside_rejected (L : lattice) x y z v : nonempty_axes L ->
    coord_rejected (avals (ax L)) x \/ coord_rejected (avals (ay L)) y \/ coord_rejected (avals (az L)) z ->
    set_value V L x y z v = WErr ValueError /\ get_value V L x y z = WErr ValueError
    /\ set_value_nearest_neighbor V L x y z v = WErr ValueError
    /\ get_value_nearest_neighbor V L x y z = WErr ValueError.
  Proof.
    intros Hne H.
    unfold set_value, get_value, set_value_nearest_neighbor, get_value_nearest_neighbor, set_at, get_at.
    rewrite (lookup_errors get_index get_index_rejected get_index_errcls L x y z Hne H).
    rewrite (lookup_errors get_index_nn get_index_nn_rejected get_index_nn_errcls L x y z Hne H).
    repeat split.
  Qed.

  (* nearest-neighbour access inside the range addresses the closest node (first on ties) *)
  Definition in_range (vs : list Q) (x : Q) : Prop := (nth 0 vs 0 <= x /\ x <= last vs 0)%Q.

  Lemma nn_addresses_closest (L : lattice) x y z v :
    nonempty_axes L ->
    in_range (avals (ax L)) x -> in_range (avals (ay L)) y -> in_range (avals (az L)) z ->
    exists i j k, closest (avals (ax L)) x i /\ closest (avals (ay L)) y j /\ closest (avals (az L)) z k
      /\ set_value_nearest_neighbor V L (Fin x) (Fin y) (Fin z) v = WOk (with_grid V L (upd V (grid L) i j k v))
      /\ get_value_nearest_neighbor V L (Fin x) (Fin y) (Fin z) = WOk (Some (grid L i j k)).
  Proof.
    intros (Nx & Ny & Nz) (X1 & X2) (Y1 & Y2) (Z1 & Z2).
    destruct (find_closest_total _ x Nx) as [i Ei]. destruct (find_closest_total _ y Ny) as [j Ej].
    destruct (find_closest_total _ z Nz) as [k Ek].
    exists i, j, k.
    pose proof (find_closest_spec _ _ _ Ei) as Ci. pose proof (find_closest_spec _ _ _ Ej) as Cj.
    pose proof (find_closest_spec _ _ _ Ek) as Ck.
    repeat split; try assumption; try (apply Ci); try (apply Cj); try (apply Ck).
    - unfold set_value_nearest_neighbor, set_at, indices3.
      rewrite !get_index_nn_inside, Ei, Ej, Ek by assumption. simpl rbind. cbv iota beta.
      refine (proj1 (by_index_inside L i j k v _ _ _)); [apply Ci | apply Cj | apply Ck].
    - unfold get_value_nearest_neighbor, get_at, indices3.
      rewrite !get_index_nn_inside, Ei, Ej, Ek by assumption. simpl rbind. cbv iota beta.
      refine (proj2 (by_index_inside L i j k v _ _ _)); [apply Ci | apply Cj | apply Ck].
  Qed.

  (* find_closest_indices is the inverse of get_coordinates at every node *)
  Lemma closest_of_coordinates (L : lattice) (i j k : nat) : incr_axes L ->
    (i < npts (ax L))%nat -> (j < npts (ay L))%nat -> (k < npts (az L))%nat ->
    exists x y z, get_coordinates V L (Z.of_nat i) (Z.of_nat j) (Z.of_nat k) = Ok (x, y, z)
      /\ (find_closest_indices V L (Fin x) (Fin y) (Fin z) = WOk (i, j, k)
          \/ find_closest_indices V L (Fin x) (Fin y) (Fin z) = Warned (i, j, k))
      /\ (is_within_range V L (Fin x) (Fin y) (Fin z) = true ->
          find_closest_indices V L (Fin x) (Fin y) (Fin z) = WOk (i, j, k)).
  Proof.
    intros (Hx & Hy & Hz) Hi Hj Hk. do 3 eexists. split; [now apply get_coordinates_inside|].
    unfold find_closest_indices, indices3.
    rewrite !find_closest_at_node by assumption. simpl rbind. cbv iota beta.
    destruct (is_within_range V L _ _ _); simpl; split; auto; intros; try discriminate; reflexivity.
  Qed.

  (* interpolation: inside the range the value is the oracle's, which at a node is the node value *)
  Section Interp.
    Variable interpn : lattice -> fv * fv * fv -> V.
    Hypothesis interpn_node : forall (L : lattice) (i j k : nat),
      (i < npts (ax L))%nat -> (j < npts (ay L))%nat -> (k < npts (az L))%nat ->
      interpn L (Fin (nth i (avals (ax L)) 0%Q), Fin (nth j (avals (ay L)) 0%Q), Fin (nth k (avals (az L)) 0%Q))
      = grid L i j k.

    Lemma interpolate_at_node (L : lattice) (i j k : nat) x y z :
      (i < npts (ax L))%nat -> (j < npts (ay L))%nat -> (k < npts (az L))%nat ->
      get_coordinates V L (Z.of_nat i) (Z.of_nat j) (Z.of_nat k) = Ok (x, y, z) ->
      is_within_range V L (Fin x) (Fin y) (Fin z) = true ->
      interpolate_value V interpn L (Fin x) (Fin y) (Fin z) = Ok (grid L i j k).
    Proof.
      intros Hi Hj Hk G W. rewrite get_coordinates_inside in G by assumption. injection G as <- <- <-.
      unfold interpolate_value. rewrite W. simpl. now rewrite interpn_node.
    Qed.

    Lemma interpolate_outside (L : lattice) x y z :
      is_within_range V L x y z = false -> interpolate_value V interpn L x y z = Err TypeError.
    Proof. intros W. unfold interpolate_value. now rewrite W. Qed.
  End Interp.

  Lemma within1_nonfinite c a : nonfinite c -> within1 c a = false.
  Proof. destruct c; simpl; try contradiction; intros _; unfold within1, q_le_fv, fv_le_q; now rewrite ?andb_false_r. Qed.
  Lemma within1_outside x a : (x < amin a \/ amax a < x)%Q -> within1 (Fin x) a = false.
  Proof.
    intros [H|H]; unfold within1, q_le_fv, fv_le_q; apply Qle_bool_false in H; rewrite H; now rewrite ?andb_false_r.
  Qed.

  (* ---- element-wise operators ---------------------------------------------------------------------------- *)
  Lemma operate_pointwise f (a b : lattice) : same_shape V a b = true ->
    exists r, operate V f a (OLat b) = Ok r
      /\ (forall i j k, grid r i j k = f (grid a i j k) (grid b i j k))
      /\ ax r = ax a /\ ay r = ay a /\ az r = az a.
  Proof. intros S. unfold operate. rewrite S. simpl. eexists. repeat split. Qed.

  Lemma operate_errors f (a : lattice) :
    operate V f a ONotLattice = Err TypeError
    /\ forall b, same_shape V a b = false -> operate V f a (OLat b) = Err ValueError.
  Proof. split; [reflexivity|]. intros b S. unfold operate. now rewrite S. Qed.

  Lemma same_shape_refl (a : lattice) : same_shape V a a = true.
  Proof. unfold same_shape. now rewrite !Nat.eqb_refl. Qed.

  Fixpoint lats (ls : list (operand V)) : list lattice :=
    match ls with [] => [] | OLat o :: t => o :: lats t | ONotLattice :: t => lats t end.
  Definition all_ok (self : lattice) (ls : list (operand V)) : Prop :=
    Forall (fun o => match o with OLat b => same_shape V self b = true | ONotLattice => False end) ls.

  Lemma check_all_ok self ls : all_ok self ls -> check_all V self ls = Ok (lats ls).
  Proof.
    induction 1 as [|o t Ho Ht IH]; [reflexivity|]. destruct o as [b|]; [|contradiction].
    simpl. rewrite Ho. simpl. now rewrite IH.
  Qed.

  Lemma average_pointwise vsum vdivn (self : lattice) others : all_ok self others ->
    exists r, average V vsum vdivn self others = Ok r
      /\ (forall i j k, grid r i j k
            = vdivn (vsum (grid self i j k :: map (fun l => grid l i j k) (lats others))) (S (length others)))
      /\ ax r = ax self /\ ay r = ay self /\ az r = az self.
  Proof.
    intros H. unfold average.
    assert (A : all_ok self (OLat self :: others)) by (constructor; [apply same_shape_refl | assumption]).
    rewrite (check_all_ok _ _ A). simpl rbind. eexists. split; [reflexivity|]. repeat split.
    intros i j k. simpl. f_equal. f_equal.
    clear A. induction H as [|o t Ho Ht IH]; [reflexivity|]. destruct o; [|contradiction]. simpl. now rewrite IH.
  Qed.

  Lemma average_errors vsum vdivn (self : lattice) pre bad post : all_ok self pre ->
    (bad = ONotLattice -> average V vsum vdivn self (pre ++ bad :: post) = Err TypeError)
    /\ (forall b, bad = OLat b -> same_shape V self b = false ->
        average V vsum vdivn self (pre ++ bad :: post) = Err ValueError).
  Proof.
    intros H. unfold average.
    assert (C : forall e, check_all V self (bad :: post) = Err e -> check_all V self (OLat self :: pre ++ bad :: post) = Err e).
    { intros e E. simpl. rewrite same_shape_refl. simpl.
      induction H as [|o t Ho Ht IH]; simpl.
      - simpl in E. now rewrite E.
      - destruct o; [|contradiction]. rewrite Ho. simpl.
        destruct (check_all V self (t ++ bad :: post)); [discriminate|]. simpl in *. assumption. }
    split.
    - intros ->. now rewrite (C TypeError eq_refl).
    - intros b -> S. rewrite (C ValueError); [reflexivity|]. simpl. now rewrite S.
  Qed.

  Lemma rescale_pointwise vmul (L : lattice) f :
    (forall i j k, grid (rescale V vmul L f) i j k = vmul (grid L i j k) f)
    /\ ax (rescale V vmul L f) = ax L /\ ay (rescale V vmul L f) = ay L /\ az (rescale V vmul L f) = az L.
  Proof. repeat split. Qed.

  (* ---- histories ----------------------------------------------------------------------------------------- *)
  Definition target_idx (L : lattice) (i j k : Z) : option (nat * nat * nat) :=
    if is_valid_index V L i j k then Some (Z.to_nat i, Z.to_nat j, Z.to_nat k) else None.
  (* the node an operation writes (None: it warns or raises and writes nothing) *)
  Definition target (L : lattice) (o : setop V) : option (nat * nat * nat) :=
    match o with
    | SetIdx i j k _ => target_idx L i j k
    | SetVal x y z _ => match indices3 V get_index L x y z with
                        | Ok (i, j, k) => target_idx L (Z.of_nat i) (Z.of_nat j) (Z.of_nat k) | Err _ => None end
    | SetNN x y z _ => match indices3 V get_index_nn L x y z with
                       | Ok (i, j, k) => target_idx L (Z.of_nat i) (Z.of_nat j) (Z.of_nat k) | Err _ => None end
    end.
  Definition written (o : setop V) : V :=
    match o with SetIdx _ _ _ v => v | SetVal _ _ _ v => v | SetNN _ _ _ v => v end.

  Definition same_axes (a b : lattice) : Prop := ax a = ax b /\ ay a = ay b /\ az a = az b.

  Lemma target_same_axes a b o : same_axes a b -> target a o = target b o.
  Proof.
    intros (E1 & E2 & E3). destruct o; unfold target, target_idx, indices3, is_valid_index; rewrite E1, E2, E3; reflexivity.
  Qed.

  Lemma sbi_grid (L : lattice) i j k v p :
    let L' := match set_value_by_index V L i j k v with WOk a => a | Warned a => a | WErr _ => L end in
    same_axes L' L
    /\ grid L' (fst (fst p)) (snd (fst p)) (snd p)
       = if match target_idx L i j k with Some t => if (Nat.eqb (fst (fst p)) (fst (fst t)) && Nat.eqb (snd (fst p)) (snd (fst t)) && Nat.eqb (snd p) (snd t)) then true else false | None => false end
         then v else grid L (fst (fst p)) (snd (fst p)) (snd p).
  Proof.
    unfold set_value_by_index, target_idx. destruct (is_valid_index V L i j k); simpl.
    - split; [repeat split|]. unfold upd. destruct (_ && _ && _); reflexivity.
    - split; [repeat split|reflexivity].
  Qed.

  Definition hits (t : option (nat * nat * nat)) (p : nat * nat * nat) : bool :=
    match t with
    | Some t => Nat.eqb (fst (fst p)) (fst (fst t)) && Nat.eqb (snd (fst p)) (snd (fst t)) && Nat.eqb (snd p) (snd t)
    | None => false
    end.

  Lemma hits_iff t p : hits t p = true <-> t = Some p.
  Proof.
    destruct t as [[[a b] c]|]; destruct p as [[i j] k]; simpl.
    - rewrite !andb_true_iff, !Nat.eqb_eq. split; [intros [[-> ->] ->]; reflexivity | intros [= -> -> ->]; auto].
    - split; discriminate.
  Qed.

  Lemma step_grid (L : lattice) o p :
    same_axes (step V L o) L
    /\ grid (step V L o) (fst (fst p)) (snd (fst p)) (snd p)
       = if hits (target L o) p then written o else grid L (fst (fst p)) (snd (fst p)) (snd p).
  Proof.
    unfold step, apply_op. destruct o as [i j k v|x y z v|x y z v].
    - destruct (sbi_grid L i j k v p) as [A G]. split; [exact A|]. rewrite G. unfold target, hits.
      destruct (target_idx L i j k); [|reflexivity]. destruct (_ && _ && _); reflexivity.
    - unfold set_value, set_at, target. destruct (indices3 V get_index L x y z) as [[[i j] k]|e].
      + destruct (sbi_grid L (Z.of_nat i) (Z.of_nat j) (Z.of_nat k) v p) as [A G]. split; [exact A|]. rewrite G.
        unfold hits. destruct (target_idx L _ _ _); [|reflexivity]. destruct (_ && _ && _); reflexivity.
      + split; [repeat split | reflexivity].
    - unfold set_value_nearest_neighbor, set_at, target. destruct (indices3 V get_index_nn L x y z) as [[[i j] k]|e].
      + destruct (sbi_grid L (Z.of_nat i) (Z.of_nat j) (Z.of_nat k) v p) as [A G]. split; [exact A|]. rewrite G.
        unfold hits. destruct (target_idx L _ _ _); [|reflexivity]. destruct (_ && _ && _); reflexivity.
      + split; [repeat split | reflexivity].
  Qed.

  Lemma same_axes_trans a b c : same_axes a b -> same_axes b c -> same_axes a c.
  Proof. intros (A1 & A2 & A3) (B1 & B2 & B3). repeat split; congruence. Qed.

  Lemma run_axes ops : forall L, same_axes (run V L ops) L.
  Proof.
    induction ops as [|o t IH]; intros L; [repeat split|]. simpl.
    eapply same_axes_trans; [apply IH | apply (step_grid L o (0, 0, 0)%nat)].
  Qed.

  Lemma run_untouched ops : forall (L L0 : lattice) i j k, same_axes L L0 ->
    (forall o, In o ops -> target L0 o <> Some (i, j, k)) ->
    grid (run V L ops) i j k = grid L i j k.
  Proof.
    induction ops as [|o t IH]; intros L L0 i j k SA H; [reflexivity|]. simpl.
    destruct (step_grid L o (i, j, k)) as [A G]. simpl in G.
    rewrite (IH (step V L o) L0).
    - rewrite G. destruct (hits (target L o) (i, j, k)) eqn:E; [|reflexivity].
      apply hits_iff in E. rewrite (target_same_axes L L0 o SA) in E. exfalso. apply (H o); [now left | assumption].
    - eapply same_axes_trans; eassumption.
    - intros o' Ho'. apply H. now right.
  Qed.

  (* after ANY sequence of set operations every node holds the value of the last operation that addressed it,
     and its initial value when none did *)
  Lemma run_last_write (L : lattice) pre o post i j k :
    target L o = Some (i, j, k) ->
    (forall o', In o' post -> target L o' <> Some (i, j, k)) ->
    grid (run V L (pre ++ o :: post)) i j k = written o.
  Proof.
    intros T H. unfold run. rewrite fold_left_app. simpl.
    fold (run V L pre). set (L1 := run V L pre).
    assert (SA : same_axes L1 L) by apply run_axes.
    fold (run V (step V L1 o) post).
    destruct (step_grid L1 o (i, j, k)) as [A G]. simpl in G.
    rewrite (run_untouched post (step V L1 o) L i j k).
    - rewrite G. rewrite (target_same_axes L1 L o SA), T.
      assert (E : hits (Some (i, j, k)) (i, j, k) = true) by now apply hits_iff. now rewrite E.
    - eapply same_axes_trans; eassumption.
    - assumption.
  Qed.

  Lemma run_never_written (L : lattice) ops i j k :
    (forall o, In o ops -> target L o <> Some (i, j, k)) -> grid (run V L ops) i j k = grid L i j k.
  Proof. intros H. apply (run_untouched ops L L); [repeat split | assumption]. Qed.
End GridProofs.

(* C14: mid-rapidity yield and mean pT / mT. *)
From Coq Require Import List ZArith QArith Qcanon Bool Arith Lia.
From SX Require Import Model.Histogram Model.Bulk Lib.HistBase Proofs.C09_Count.
Import ListNotations.
Local Open Scope nat_scope.

(* ---------------------------------------------------------------- the window *)
Lemma in_window_spec w x : in_window w (Some x) = true <-> (- w / q2 <= x)%Qc /\ (x <= w / q2)%Qc.
Proof. unfold in_window. now rewrite andb_true_iff, !Qcleb_le. Qed.

Lemma in_window_nan w : in_window w None = false.
Proof. reflexivity. Qed.

Lemma first_particle_check_ok {A} (evs : list (list A)) : first_particle_check true evs = Ok tt.
Proof. induction evs as [|[|p ev] rest IH]; simpl; auto. Qed.

Lemma first_particle_check_bad {A} (evs : list (list A)) :
  existsb (fun ev => negb (Nat.eqb (length ev) 0)) evs = true -> first_particle_check false evs = Err AttributeError.
Proof. induction evs as [|[|p ev] rest IH]; simpl; auto; discriminate. Qed.

(* ---------------------------------------------------------------- yield *)
Lemma count_event_spec w : forall ev c, count_event w c ev = c + length (filter (in_window w) ev).
Proof.
  unfold count_event. induction ev as [|q t IH]; intros c; simpl; [lia|].
  rewrite IH. destruct (in_window w q); simpl; lia.
Qed.

Lemma count_events_spec w : forall evs c,
  fold_left (count_event w) evs c = c + list_sum (map (fun ev => length (filter (in_window w) ev)) evs).
Proof.
  induction evs as [|ev rest IH]; intros c; simpl; [lia|].
  rewrite IH, count_event_spec. lia.
Qed.

Lemma Qcleb_pos w : (0 < w)%Qc -> Qcleb w 0 = false.
Proof. intros H. apply Qcleb_false. exact H. Qed.

(* the per-event mean count inside -w/2 <= q <= w/2 (a NaN-valued q is outside), for >= 1 events,
   empty ones at any position *)
Lemma mid_yield_spec w evs : (0 < w)%Qc -> evs <> [] ->
  mid_rapidity_yield true w evs
  = Ok (qnat (list_sum (map (fun ev => length (filter (in_window w) ev)) evs)) / qnat (length evs))%Qc.
Proof.
  intros Hw Ne. unfold mid_rapidity_yield. rewrite (Qcleb_pos _ Hw).
  destruct evs as [|ev rest]; [congruence|].
  rewrite first_particle_check_ok. cbn [bind]. rewrite count_events_spec. reflexivity.
Qed.

Lemma mid_yield_rejected b w evs : (w <= 0)%Qc -> mid_rapidity_yield b w evs = Err ValueError.
Proof. intros H. unfold mid_rapidity_yield. apply Qcleb_le in H. now rewrite H. Qed.

(* ---------------------------------------------------------------- mean pT / mT *)
Definition window (w : Qc) (ev : list (cell * cell)) : list (cell * cell) := filter (fun p => in_window w (fst p)) ev.
Definition has_window (w : Qc) (ev : list (cell * cell)) : bool := 0 <? length (window w ev).
(* mean over the particles inside the window of their pT (or mT) *)
Definition ev_mean (w : Qc) (ev : list (cell * cell)) : cell :=
  cdiv (csum (map snd (window w ev))) (Some (qnat (length (window w ev)))).

Lemma cadd_assoc a b c : cadd (cadd a b) c = cadd a (cadd b c).
Proof. destruct a, b, c; simpl; try reflexivity. f_equal. ring. Qed.
Lemma cadd_c0_l a : cadd c0 a = a.
Proof. destruct a; simpl; [f_equal; ring | reflexivity]. Qed.
Lemma cadd_c0_r a : cadd a c0 = a.
Proof. destruct a; simpl; [f_equal; ring | reflexivity]. Qed.

Lemma event_stats_gen w : forall ev n s,
  fold_left (fun cs p => if in_window w (fst p) then (S (fst cs), cadd (snd cs) (snd p)) else cs) ev (n, s)
  = (n + length (window w ev), cadd s (csum (map snd (window w ev)))).
Proof.
  unfold window. induction ev as [|p t IH]; intros n s; simpl.
  - rewrite cadd_c0_r. f_equal. lia.
  - destruct (in_window w (fst p)); simpl; rewrite IH; [|reflexivity].
    f_equal; [lia|]. unfold csum. simpl. apply cadd_assoc.
Qed.

Lemma event_stats_spec w ev : event_stats w ev = (length (window w ev), csum (map snd (window w ev))).
Proof. unfold event_stats. rewrite event_stats_gen. now rewrite cadd_c0_l. Qed.

Lemma mean_loop_spec w : forall evs ms ec,
  fold_left (mean_step w) evs (ms, ec)
  = (cadd ms (csum (map (ev_mean w) (filter (has_window w) evs))), ec + length (filter (has_window w) evs)).
Proof.
  induction evs as [|ev rest IH]; intros ms ec; simpl.
  - rewrite cadd_c0_r. f_equal. lia.
  - unfold mean_step at 2. rewrite event_stats_spec. cbn [fst snd]. fold (has_window w ev).
    destruct (has_window w ev); rewrite IH; [|reflexivity].
    f_equal; [|simpl; lia]. cbn [map csum fold_right]. fold (ev_mean w ev). apply cadd_assoc.
Qed.

(* general form: the average, over the events that have particles in the window, of the per-event means *)
Lemma mid_mean_spec w evs : (0 < w)%Qc -> evs <> [] ->
  mid_rapidity_mean true w evs
  = Ok (let good := filter (has_window w) evs in
        if Nat.eqb (length good) 0 then c0 else cdiv (csum (map (ev_mean w) good)) (Some (qnat (length good)))).
Proof.
  intros Hw Ne. unfold mid_rapidity_mean. rewrite (Qcleb_pos _ Hw).
  destruct evs as [|ev rest]; [congruence|].
  rewrite first_particle_check_ok. cbn [bind]. rewrite mean_loop_spec. cbn [fst snd plus].
  rewrite cadd_c0_l. destruct (Nat.eqb _ 0); reflexivity.
Qed.

(* the property: every event has particles in the window -> (1/N_ev) sum_ev mean_{p in window(ev)} x(p) *)
Lemma mid_mean_all w evs : (0 < w)%Qc -> evs <> [] -> forallb (has_window w) evs = true ->
  mid_rapidity_mean true w evs = Ok (cdiv (csum (map (ev_mean w) evs)) (Some (qnat (length evs)))).
Proof.
  intros Hw Ne All. rewrite mid_mean_spec by assumption.
  assert (G : filter (has_window w) evs = evs).
  { clear Ne. induction evs as [|ev rest IH]; [reflexivity|]. simpl in *. apply andb_true_iff in All.
    destruct All as [A B]. rewrite A, IH by exact B. reflexivity. }
  cbv zeta. rewrite G. destruct evs; [congruence|]. reflexivity.
Qed.

Lemma mid_mean_rejected b w evs : (w <= 0)%Qc -> mid_rapidity_mean b w evs = Err ValueError.
Proof. intros H. unfold mid_rapidity_mean. apply Qcleb_le in H. now rewrite H. Qed.

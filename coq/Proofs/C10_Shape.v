(* C10: the shape invariant is established by the constructors and preserved by every operation. *)
From Coq Require Import List ZArith QArith Qcanon Bool Arith Lia.
From SX Require Import Model.Histogram Lib.HistBase Proofs.C09_Count Proofs.C09_Scale.
Import ListNotations.
Local Open Scope nat_scope.

(* ---------------------------------------------------------------- primitives *)
Lemma Shape2_single n v : length v = n -> Shape2 1 n (A2 [v]).
Proof. intros L. exists [v]. repeat split. constructor; [exact L | constructor]. Qed.

Lemma upd_last_row_shape k n a f a' :
  Shape2 k n a -> (forall r r', length r = n -> f r = Ok r' -> length r' = n) ->
  upd_last_row a f = Ok a' -> Shape2 k n a'.
Proof.
  intros [rows [-> [L F]]] Hf E. unfold upd_last_row in E. inv_ok.
  destruct (upd_last_ok _ _ _ E0) as [pre [x [y [-> [Fx ->]]]]].
  apply Forall_app in F. destruct F as [F1 F2]. inversion F2; subst.
  exists (pre ++ [y]). repeat split.
  - rewrite !app_length. simpl. lia.
  - apply Forall_app. split; [exact F1|]. constructor; [eapply Hf; eauto | constructor].
Qed.

Lemma vstack_shape k n a row a' : Shape2 k n a -> length row = n -> vstack a row = Ok a' -> Shape2 (S k) n a'.
Proof.
  intros [rows [-> [L F]]] Lr E. unfold vstack in E. inv_ok.
  exists (rows ++ [row]). repeat split.
  - rewrite app_length. simpl. lia.
  - apply Forall_app. split; [exact F | constructor; [first [exact Lr | reflexivity] | constructor]].
Qed.

Lemma map_rows_shape k n m a g a' :
  Shape2 k n a -> (forall r r', length r = n -> g r = Ok r' -> length r' = m) ->
  map_rows a g = Ok a' -> Shape2 k m a'.
Proof.
  intros [rows [-> [L F]]] Hg E. unfold map_rows in E. inv_ok.
  exists a. repeat split.
  - rewrite (mapM_length _ _ _ E0). first [exact L | reflexivity].
  - eapply mapM_Forall; [|exact E0]. intros x y Hx Hy. rewrite Forall_forall in F. eapply Hg; eauto.
Qed.

Lemma add_at_length j w r r' : add_at j w r = Ok r' -> length r' = length r.
Proof. unfold add_at. intros E. inv_ok. apply upd_nth_length. Qed.

(* ---------------------------------------------------------------- add_value *)
Lemma fill_one_shape h v w h' : Shape h -> fill_one h v w = Ok h' -> Shape h'.
Proof.
  intros Sh E. unfold fill_one in E. inv_bind E.
  destruct ((a =? 0) || (nbins h <? a)); [injection E as <-; exact Sh|].
  inv_ok. destruct Sh as [Hn [He [SH [SR [SE [SS SY]]]]]].
  unfold Shape; cbn. repeat split; auto.
  - eapply upd_last_row_shape; [exact SH | | eassumption]. intros r r' Lr Er. rewrite (add_at_length _ _ _ _ Er). exact Lr.
  - eapply upd_last_row_shape; [exact SR | | eassumption]. intros r r' Lr Er. rewrite (add_at_length _ _ _ _ Er). exact Lr.
Qed.

Lemma fill_elem_shape h v w h' : Shape h -> fill_elem h v w = Ok h' -> Shape h'.
Proof.
  intros Sh E. unfold fill_elem in E.
  destruct w as [wc|]; [destruct (c_nan wc); [discriminate|]|]; (destruct v as [x|]; [|discriminate]);
  eapply fill_one_shape; eauto.
Qed.

Lemma fill_list_shape : forall l h h', Shape h -> fill_list h l = Ok h' -> Shape h'.
Proof.
  induction l as [|[v w] t IH]; intros h h' Sh E.
  - injection E as <-. exact Sh.
  - cbn [fill_list] in E. inv_bind E. eapply IH; [|exact E]. eapply fill_elem_shape; eauto.
Qed.

Lemma add_value_shape h v w h' : Shape h -> add_value h v w = Ok h' -> Shape h'.
Proof.
  intros Sh E. unfold add_value in E. destruct w as [|wc|wl], v as [c|vl]; try discriminate.
  - eapply fill_elem_shape; eauto.
  - destruct (existsb c_nan vl); [discriminate|]. eapply fill_list_shape; eauto.
  - eapply fill_elem_shape; eauto.
  - destruct (negb _); [discriminate|]. destruct c as [x|]; [|discriminate].
    inv_bind E. destruct ((a =? 0) || (nbins h <? a)); [|discriminate]. injection E as <-. exact Sh.
  - destruct (negb _); [discriminate|]. destruct (existsb c_nan vl); [discriminate|]. eapply fill_list_shape; eauto.
Qed.

(* ---------------------------------------------------------------- add_histogram *)
Lemma add_histogram_shape h h' : Shape h -> add_histogram h = Ok h' -> Shape h'.
Proof.
  intros [Hn [He [SH [SR [SE [SS SY]]]]]] E. unfold add_histogram in E. inv_ok.
  unfold Shape; cbn.
  split; [lia|]. split; [exact He|].
  split; [eapply vstack_shape; [exact SH | apply zeros_length | exact E0]|].
  split; [eapply vstack_shape; [exact SR | apply zeros_length | exact E1]|].
  split; [eapply vstack_shape; [exact SE | apply zeros_length | exact E3]|].
  split; [eapply vstack_shape; [exact SS | apply ones_length | exact E2]|].
  eapply vstack_shape; [exact SY | apply zeros_length | exact E4].
Qed.

(* ---------------------------------------------------------------- set_error / set_systematic_error *)
Lemma set_last_row_shape k n a l a' : Shape2 k n a -> length l = n -> set_last_row a l = Ok a' -> Shape2 k n a'.
Proof.
  intros [rows [-> [L F]]] Ll E. unfold set_last_row in E. inv_ok.
  destruct (upd_last_ok _ _ _ E0) as [pre [x [y [-> [Fx ->]]]]].
  apply Forall_app in F. destruct F as [F1 F2].
  destruct (Nat.eqb (length x) (length l)); [|discriminate]. injection Fx as <-.
  exists (pre ++ [l]). repeat split.
  - rewrite !app_length in *. simpl in *. lia.
  - apply Forall_app. split; [exact F1 | constructor; [first [exact Ll | reflexivity] | constructor]].
Qed.

Lemma set_error_shape h l h' : Shape h -> set_error h l = Ok h' -> Shape h'.
Proof.
  intros [Hn [He [SH [SR [SE [SS SY]]]]]] E. unfold set_error in E.
  destruct (Nat.eqb (length l) (nbins h)) eqn:L; [|discriminate]. cbn [negb] in E. apply Nat.eqb_eq in L. inv_ok.
  unfold Shape; cbn. repeat split; auto. eapply set_last_row_shape; [exact SE | exact L | exact E0].
Qed.

Lemma set_systematic_error_shape h l h' : Shape h -> set_systematic_error h l = Ok h' -> Shape h'.
Proof.
  intros [Hn [He [SH [SR [SE [SS SY]]]]]] E. unfold set_systematic_error in E.
  destruct (Nat.eqb (length l) (nbins h)) eqn:L; [|discriminate]. cbn [negb] in E. apply Nat.eqb_eq in L. inv_ok.
  unfold Shape; cbn. repeat split; auto. eapply set_last_row_shape; [exact SY | exact L | exact E0].
Qed.

(* ---------------------------------------------------------------- scale / statistical error / density *)
Lemma scale_shape h s h' : Shape h -> scale_histogram h s = Ok h' -> Shape h'.
Proof.
  intros Sh E. pose proof (scale_ok_valid _ _ _ Sh E) as V.
  destruct (scale_spec h s Sh V) as [h2 [E2 [S2 _]]]. rewrite E in E2. injection E2 as <-. exact S2.
Qed.

Section WithSqrt.
  Variable usqrt : Qc -> Qc.

  Lemma make_density_shape h h' : Shape h -> make_density usqrt h = Ok h' -> Shape h'.
  Proof.
    intros Sh E. unfold make_density in E.
    destruct (Nat.eqb (nhist h) 0); [discriminate|]. inv_bind E. inv_bind E. inv_bind E.
    destruct (c_is0 _); [discriminate|]. inv_bind E.
    eapply scale_shape; [|exact E]. eapply statistical_error_Shape; eauto.
  Qed.

  (* ---------------------------------------------------------------- add_bin / remove_bin *)
  Lemma ins_row_length i x r r' : ins_row i x r = Ok r' -> length r' = S (length r).
  Proof. unfold ins_row. intros E. destruct (i <=? length r) eqn:L; [|discriminate]. injection E as <-. apply insert_at_length, Nat.leb_le, L. Qed.
  Lemma del_row_length i r r' : del_row i r = Ok r' -> length r' = length r - 1.
  Proof. unfold del_row. intros E. destruct (i <? length r) eqn:L; [|discriminate]. injection E as <-. apply delete_at_length, Nat.ltb_lt, L. Qed.

  Lemma add_bin_shape h i e h' : Shape h -> add_bin h i e = Ok h' -> Shape h'.
  Proof.
    intros [Hn [He [SH [SR [SE [SS SY]]]]]] E. unfold add_bin in E.
    destruct ((i <? 0)%Z || (Z.of_nat (length (edges h)) <=? i)%Z) eqn:R; [discriminate|].
    apply orb_false_iff in R. destruct R as [R1 R2]. apply Z.ltb_ge in R1. apply Z.leb_gt in R2.
    destruct (_ && _); [discriminate|]. destruct (Qcleb _ e); [discriminate|]. inv_ok.
    unfold Shape; cbn. repeat split; auto.
    - rewrite insert_at_length; lia.
    - eapply map_rows_shape; [exact SH | | eassumption]. intros r r' Lr Er. rewrite (ins_row_length _ _ _ _ Er). lia.
    - eapply map_rows_shape; [exact SR | | eassumption]. intros r r' Lr Er. rewrite (ins_row_length _ _ _ _ Er). lia.
    - eapply map_rows_shape; [exact SE | | eassumption]. intros r r' Lr Er. rewrite (ins_row_length _ _ _ _ Er). lia.
    - eapply map_rows_shape; [exact SS | | eassumption]. intros r r' Lr Er. rewrite (ins_row_length _ _ _ _ Er). lia.
    - eapply map_rows_shape; [exact SY | | eassumption]. intros r r' Lr Er. rewrite (ins_row_length _ _ _ _ Er). lia.
  Qed.

  Lemma remove_bin_shape h i h' : Shape h -> remove_bin h i = Ok h' -> Shape h'.
  Proof.
    intros [Hn [He [SH [SR [SE [SS SY]]]]]] E. unfold remove_bin in E.
    destruct ((i <? 0)%Z || (Z.of_nat (nbins h) <=? i)%Z) eqn:R; [discriminate|].
    apply orb_false_iff in R. destruct R as [R1 R2]. apply Z.ltb_ge in R1. apply Z.leb_gt in R2.
    inv_ok. unfold Shape; cbn. repeat split; auto.
    - rewrite delete_at_length; lia.
    - eapply map_rows_shape; [exact SH | | eassumption]. intros r r' Lr Er. rewrite (del_row_length _ _ _ Er). lia.
    - eapply map_rows_shape; [exact SR | | eassumption]. intros r r' Lr Er. rewrite (del_row_length _ _ _ Er). lia.
    - eapply map_rows_shape; [exact SE | | eassumption]. intros r r' Lr Er. rewrite (del_row_length _ _ _ Er). lia.
    - eapply map_rows_shape; [exact SS | | eassumption]. intros r r' Lr Er. rewrite (del_row_length _ _ _ Er). lia.
    - eapply map_rows_shape; [exact SY | | eassumption]. intros r r' Lr Er. rewrite (del_row_length _ _ _ Er). lia.
  Qed.

  (* ---------------------------------------------------------------- averaging *)
  Lemma colsum_fold_length n : forall rows, Forall (fun r => length r = n) rows ->
    length (fold_right (fun r acc => map2 cadd r acc) (zeros n) rows) = n.
  Proof.
    induction 1 as [|r t Hr _ IH]; simpl; [apply zeros_length|]. rewrite map2_length, IH, Hr. lia.
  Qed.

  Lemma ncols_of n rows : rows <> [] -> Forall (fun r => length r = n) rows -> ncols rows = n.
  Proof. destruct rows as [|r t]; [congruence|]. intros _ F. inversion F; subst. reflexivity. Qed.

  Lemma colsum_length n rows : rows <> [] -> Forall (fun r => length r = n) rows -> length (colsum rows) = n.
  Proof. intros Ne F. unfold colsum. rewrite (ncols_of n) by assumption. now apply colsum_fold_length. Qed.

  Lemma Forall_map2_len {A} n (f : A -> list cell -> list cell) : forall ws rows,
    (forall w r, length r = n -> length (f w r) = n) -> Forall (fun r => length r = n) rows ->
    Forall (fun r => length r = n) (map2 f ws rows).
  Proof.
    unfold map2. induction ws as [|w ws IH]; intros [|r rows] Hf F; simpl; try constructor.
    - inversion F; subst. now apply Hf.
    - inversion F; subst. now apply IH.
  Qed.

  Lemma Forall_map2_len2 n (f : list cell -> list cell -> list cell) : forall a b,
    (forall x y, length x = n -> length y = n -> length (f x y) = n) ->
    Forall (fun r => length r = n) a -> Forall (fun r => length r = n) b ->
    Forall (fun r => length r = n) (map2 f a b).
  Proof.
    unfold map2. induction a as [|x a IH]; intros [|y b] Hf Fa Fb; simpl; try constructor;
    inversion Fa; inversion Fb; subst; auto.
  Qed.

  Lemma average0_length n rows ws v : rows <> [] -> Forall (fun r => length r = n) rows ->
    average0 rows ws = Ok v -> length v = n.
  Proof.
    intros Ne F E. unfold average0 in E.
    destruct (negb (rect rows)); [discriminate|].
    destruct (Nat.eqb (length ws) (length rows)) eqn:L; [|discriminate]. cbn [negb] in E. apply Nat.eqb_eq in L.
    destruct (c_is0 (csum ws)); [discriminate|]. injection E as <-.
    rewrite map_length. apply colsum_length.
    - intros Z. apply (f_equal (@length _)) in Z. rewrite map2_length in Z. simpl in Z.
      destruct rows; [congruence|]. simpl in *. lia.
    - apply Forall_map2_len; [|exact F]. intros w r Lr. now rewrite map_length.
  Qed.

  Lemma average0_2d_length n rows wrows v : rows <> [] -> Forall (fun r => length r = n) rows ->
    average0_2d rows wrows = Ok v -> length v = n.
  Proof.
    intros Ne F E. unfold average0_2d in E.
    destruct (rect rows && rect wrows && Nat.eqb (length rows) (length wrows) && Nat.eqb (ncols rows) (ncols wrows)) eqn:C;
      [|discriminate]. cbn [negb] in E.
    apply andb_true_iff in C. destruct C as [C C4]. apply andb_true_iff in C. destruct C as [C C3].
    apply andb_true_iff in C. destruct C as [C1 C2]. apply Nat.eqb_eq in C3, C4.
    destruct (existsb c_is0 (colsum wrows)); [discriminate|]. injection E as <-.
    assert (Nw : wrows <> []) by (destruct wrows; [destruct rows; [congruence | discriminate]|congruence]).
    assert (Fw : Forall (fun r => length r = n) wrows).
    { unfold rect in C2. apply forallb_Forall_len in C2. rewrite <- C4, (ncols_of n rows) in C2 by assumption. exact C2. }
    rewrite map2_length, !colsum_length with (n := n); auto; try lia.
    - intros Z. apply (f_equal (@length _)) in Z. rewrite map2_length in Z. simpl in Z.
      destruct rows, wrows; simpl in *; try congruence; lia.
    - apply Forall_map2_len2; auto. intros x y Lx Ly. rewrite map2_length. lia.
  Qed.
End WithSqrt.

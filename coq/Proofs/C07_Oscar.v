(* C07 (Oscar family, line level): a file cut at a line boundary, or with one particle line lost or
   duplicated, either fails to load or loads exactly the complete events before the cut. *)
From Coq Require Import List String ZArith QArith Bool Arith Lia.
From SX Require Import Lib.Strs Gen.GenParticleMap Model.Oscar Model.OscarDoc Proofs.C01_Oscar Proofs.C02_Oscar.
Import ListNotations.
Local Open Scope string_scope.

Section P.
  Variable tok_float : string -> option Q.
  Variable tok_int : string -> option Q.
  Variable pdg_valid : Q -> bool.

  Notation wf_row := (wf_row tok_float tok_int pdg_valid).
  Notation wf_event := (wf_event tok_float tok_int pdg_valid).
  Notation wf_events := (wf_events tok_float tok_int pdg_valid).
  Notation WF := (wf tok_float tok_int pdg_valid).
  Notation parse_rows := (parse_rows tok_float tok_int pdg_valid).
  Notation SCAN := (scan tok_int).
  Notation RL := (read_loop tok_float tok_int pdg_valid None).
  Notation LOAD := (load tok_float tok_int pdg_valid None).
  Notation EXPECTED := (expected tok_float tok_int pdg_valid).

  (* ---------------------------------------------------------------- events whose DECLARED particle count
     need not be the number of particle lines present (what a lost / duplicated line produces) *)
  Definition lwf_event (fmt : string) (attrs : list string) (i decl : nat) (e : event) : Prop :=
    kind_scan (e_head e) = SOut /\ kind_loop (e_head e) = KSkip /\
    (exists lt ct, nth_error (e_head e) 2 = Some lt /\ nth_error (e_head e) 4 = Some ct /\
                   tok_int lt = Some (zq (Z.of_nat i)) /\ tok_int ct = Some (zq (Z.of_nat decl))) /\
    Forall (wf_row fmt attrs) (e_rows e) /\
    kind_scan (e_foot e) = SEnd /\ kind_loop (e_foot e) = KEnd.

  Fixpoint lwf_events (fmt : string) (attrs : list string) (i : nat) (decls : list nat) (evs : list event) : Prop :=
    match decls, evs with
    | [], [] => True
    | dc :: ds, e :: t => lwf_event fmt attrs i dc e /\ lwf_events fmt attrs (S i) ds t
    | _, _ => False
    end.

  Fixpoint counts_decl (i : nat) (decls : list nat) : list (Z * Z) :=
    match decls with [] => [] | dc :: ds => (Z.of_nat i, Z.of_nat dc) :: counts_decl (S i) ds end.

  Lemma wf_lwf fmt attrs : forall evs i,
    wf_events fmt attrs i evs -> lwf_events fmt attrs i (map (fun e => List.length (e_rows e)) evs) evs.
  Proof.
    induction evs as [|e t IH]; intros i H; [exact I|].
    destruct H as ((A & B & Cc & D & E & F & _) & Ht). split; [|apply IH, Ht].
    repeat split; assumption.
  Qed.

  Lemma counts_decl_from : forall evs i,
    counts_decl i (map (fun e => List.length (e_rows e)) evs) = counts_from i evs.
  Proof. induction evs as [|e t IH]; intros i; cbn; [reflexivity|now rewrite IH]. Qed.

  Lemma scan_events_g fmt attrs : forall evs decls i rest,
    lwf_events fmt attrs i decls evs ->
    SCAN (render_events evs ++ rest)%list
    = (r <- SCAN rest ;; Ok ((counts_decl i decls ++ fst r)%list, (map e_foot evs ++ snd r)%list)).
  Proof.
    induction evs as [|e evs IH]; intros decls i rest H.
    - destruct decls; [|contradiction]. cbn. destruct (SCAN rest) as [[a b]|]; reflexivity.
    - destruct decls as [|dc ds]; [contradiction|]. destruct H as (He & Ht).
      destruct He as (Hhs & _ & (lt & ct & H2 & H4 & Hl & Hc) & Hrows & Hfs & _).
      unfold render_events. cbn [flat_map]. fold (render_events evs). unfold render_event.
      rewrite <- app_assoc. cbn [app scan]. rewrite Hhs, H2, H4, Hl, Hc.
      rewrite <- app_assoc. rewrite (scan_rows tok_float tok_int pdg_valid fmt attrs) by exact Hrows.
      cbn [app scan]. rewrite Hfs. rewrite (IH ds (S i) rest Ht).
      destruct (SCAN rest) as [[a b]|]; cbn [bind fst snd counts_decl map app]; [|reflexivity].
      rewrite !to_Z_zq. reflexivity.
  Qed.

  Lemma rl_events_g first fmt attrs : forall evs decls i n rest st,
    lwf_events fmt attrs i decls evs -> data st = [] ->
    RL first fmt attrs (List.length (render_events evs) + n) (render_events evs ++ rest)%list st
    = RL first fmt attrs n rest (add_events st (map (fun e => parse_rows fmt attrs (e_rows e)) evs)).
  Proof.
    induction evs as [|e evs IH]; intros decls i n rest st H Hd.
    - cbn. unfold add_events. rewrite app_nil_r. destruct st; cbn in *; subst; reflexivity.
    - destruct decls as [|dc ds]; [contradiction|]. destruct H as (He & Ht).
      destruct He as (_ & Hhk & _ & Hrows & _ & Hfk).
      unfold render_events. cbn [flat_map]. fold (render_events evs).
      unfold render_event. rewrite <- !app_comm_cons, <- !app_assoc.
      cbn [List.length]. rewrite !app_length. cbn [List.length].
      match goal with |- read_loop _ _ _ _ _ _ _ ?k _ _ = _ =>
        replace k with (S (List.length (e_rows e) + (S (List.length (render_events evs) + n))))%nat by lia end.
      cbn [read_loop app]. rewrite Hhk.
      rewrite (rl_rows tok_float tok_int pdg_valid) by exact Hrows.
      cbn [read_loop app]. rewrite Hfk. rewrite close_none. cbn [bind].
      rewrite (IH ds (S i)); [|exact Ht|reflexivity].
      f_equal. unfold add_events, add_data. cbn. rewrite Hd. cbn.
      rewrite <- app_assoc. reflexivity.
  Qed.

  Definition total_decl (decls : list nat) : nat := fold_right (fun dc acc => (dc + 2 + acc)%nat) 0%nat decls.

  Lemma read_all_decl : forall decls i,
    (fold_right (fun c acc => snd c + acc) 0 (counts_decl i decls)
     + 2 * Z.of_nat (List.length (counts_decl i decls)))%Z = Z.of_nat (total_decl decls).
  Proof.
    induction decls as [|dc ds IH]; intros i; [reflexivity|].
    specialize (IH (S i)). unfold total_decl in *. cbn [counts_decl fold_right List.length snd]. lia.
  Qed.

  (* ---------------------------------------------------------------- a file whose header and last line are
     intact but whose events declare [decls] while holding [evs] *)
  Definition hdr_ok (d : doc) (fmt : string) (attrs : list string) : Prop :=
    oscar_format (d_h1 d) = Ok (fmt, attrs) /\ std_format fmt /\
    kind_scan (d_h1 d) = SOther /\ kind_scan (d_h2 d) = SOther /\ kind_scan (d_h3 d) = SOther.

  Lemma load_prefix d fmt attrs evs decls (nlast : nat) :
    hdr_ok d fmt attrs -> evs <> [] -> lwf_events fmt attrs 0 decls evs ->
    wf_last tok_int nlast (e_foot (last evs {| e_head := []; e_rows := []; e_foot := [] |})) ->
    LOAD (d_h1 d :: d_h2 d :: d_h3 d :: render_events evs) SelAll
    = (st <- RL 0%Z fmt attrs (total_decl decls) (render_events evs)
               {| plist := []; data := []; counts := counts_decl 0 decls; cut := 0 |} ;;
       fin <- (if (Z.of_nat (List.length (plist st)) =? Z.of_nat nlast - cut st)%Z
               then Ok ((Z.of_nat nlast - cut st)%Z, counts st) else Err IndexError) ;;
       Ok {| l_events := match plist st with [] => [[]] | pl => pl end;
             l_nevents := fst fin; l_counts := snd fin; l_format := fmt; l_attrs := attrs;
             l_footers := map e_foot evs |}).
  Proof.
    intros (Hfmt & Hstd & Hs1 & Hs2 & Hs3) Hne Hev Hlast.
    unfold load. rewrite Hfmt. cbn [bind fst snd].
    assert (Hstd' : ((fmt =? "Oscar2013Extended_IC") || (fmt =? "Oscar2013Extended_Photons")) = false).
    { destruct Hstd as [->|[->| ->]]; reflexivity. }
    rewrite Hstd'. cbn [bind].
    change (d_h1 d :: d_h2 d :: d_h3 d :: render_events evs)
      with ([d_h1 d; d_h2 d] ++ (d_h3 d :: render_events evs))%list.
    assert (Hl : last ([d_h1 d; d_h2 d] ++ d_h3 d :: render_events evs)%list []
                 = e_foot (last evs {| e_head := []; e_rows := []; e_foot := [] |})).
    { cbn [app]. rewrite <- (last_render_events evs _ (d_h3 d) Hne). destruct (render_events evs); reflexivity. }
    rewrite Hl. destruct Hlast as (H0 & Hlen & Hmem & lt & Hlt & Hti).
    unfold num_events_of. rewrite H0, Hmem.
    replace (2 <=? List.length (e_foot (last evs {| e_head := []; e_rows := []; e_foot := [] |})))%nat
      with true by (symmetry; apply Nat.leb_le; exact Hlen).
    rewrite String.eqb_refl. cbn [andb]. rewrite Hlt, Hti. cbn [bind]. rewrite to_Z_zq.
    cbn [app scan]. rewrite Hs1, Hs2, Hs3.
    pose proof (scan_events_g fmt attrs evs decls 0 [] Hev) as Hsc. rewrite app_nil_r in Hsc. rewrite Hsc.
    cbn [scan bind fst snd num_skip num_read sel_first sel_counts]. rewrite !app_nil_r.
    destruct (counts_decl 0 decls) eqn:Ec.
    { destruct decls; [destruct evs; [congruence|contradiction]|discriminate]. }
    rewrite <- Ec. cbn [bind]. rewrite read_all_decl, Nat2Z.id.
    change (Z.to_nat 3) with 3%nat. cbn [skipn].
    assert (Hfirst : (match render_events evs, total_decl decls with
                      | l0 :: _, S _ => if negb (has "#" l0) && negb (has "out" l0) then Err ValueError else Ok tt
                      | _, _ => Ok tt end) = Ok tt).
    { destruct evs as [|e0 t]; [congruence|]. destruct decls as [|dc ds]; [contradiction|].
      destruct Hev as ((Hk & _) & _). unfold kind_scan in Hk.
      unfold render_events. cbn [flat_map]. unfold render_event at 1. cbn [app total_decl fold_right].
      replace (dc + 2 + _)%nat with (S (dc + 1 + fold_right (fun dc0 acc => (dc0 + 2 + acc)%nat) 0%nat ds)) by lia.
      destruct (has "#" (e_head e0)); [reflexivity|]. cbn in Hk. discriminate. }
    rewrite Hfirst. cbn [bind].
    replace (Z.of_nat nlast - 1 + 1)%Z with (Z.of_nat nlast) by lia.
    reflexivity.
  Qed.

  (* ---------------------------------------------------------------- one particle line lost: the file is
     one line shorter than its headers declare -> the reader runs off the end *)
  Theorem lost_line d fmt attrs evs decls nlast :
    hdr_ok d fmt attrs -> evs <> [] -> lwf_events fmt attrs 0 decls evs ->
    wf_last tok_int nlast (e_foot (last evs {| e_head := []; e_rows := []; e_foot := [] |})) ->
    (List.length (render_events evs) < total_decl decls)%nat ->
    LOAD (d_h1 d :: d_h2 d :: d_h3 d :: render_events evs) SelAll = Err IndexError.
  Proof.
    intros Hh Hne Hev Hlast Hshort. rewrite (load_prefix d fmt attrs evs decls nlast Hh Hne Hev Hlast).
    replace (total_decl decls)
      with (List.length (render_events evs) + S (total_decl decls - List.length (render_events evs) - 1))%nat by lia.
    pose proof (rl_events_g 0%Z fmt attrs evs decls 0 (S (total_decl decls - List.length (render_events evs) - 1)) []
                 {| plist := []; data := []; counts := counts_decl 0 decls; cut := 0 |} Hev eq_refl) as Hrl.
    rewrite app_nil_r in Hrl. rewrite Hrl. reflexivity.
  Qed.

  Lemma lwf_split fmt attrs : forall evs elast decls i,
    lwf_events fmt attrs i decls (evs ++ [elast])%list ->
    exists ds dl, decls = (ds ++ [dl])%list /\ lwf_events fmt attrs i ds evs
                  /\ lwf_event fmt attrs (i + List.length evs) dl elast.
  Proof.
    induction evs as [|e t IH]; intros elast decls i Hev.
    - destruct decls as [|dl [|? ?]]; cbn in Hev; try contradiction.
      + destruct Hev as (He & _). exists [], dl. cbn [app List.length]. rewrite Nat.add_0_r.
        split; [reflexivity|]. split; [exact I|exact He].
      + destruct Hev as (_ & []).
    - destruct decls as [|dc ds]; [contradiction|]. destruct Hev as (He & Ht).
      destruct (IH elast ds (S i) Ht) as (ds' & dl & -> & Hd & Hl).
      exists (dc :: ds'), dl. split; [reflexivity|]. split; [split; assumption|].
      cbn [List.length]. replace (i + S (List.length t))%nat with (S i + List.length t)%nat by lia. exact Hl.
  Qed.

  (* ---------------------------------------------------------------- one particle line duplicated: the file
     is one line longer than declared -> the last event is never closed, the event count disagrees *)
  Theorem extra_line d fmt attrs evs elast decls nlast :
    hdr_ok d fmt attrs -> lwf_events fmt attrs 0 decls (evs ++ [elast])%list ->
    wf_last tok_int nlast (e_foot elast) -> nlast = S (List.length evs) ->
    (List.length (render_events (evs ++ [elast])) = S (total_decl decls))%nat ->
    LOAD (d_h1 d :: d_h2 d :: d_h3 d :: render_events (evs ++ [elast])) SelAll = Err IndexError.
  Proof.
    intros Hh Hev Hlast Hn Hlong.
    assert (Hne : (evs ++ [elast])%list <> []) by (destruct evs; discriminate).
    rewrite (load_prefix d fmt attrs (evs ++ [elast]) decls nlast Hh Hne Hev).
    2:{ rewrite last_last. exact Hlast. }
    (* split the declarations like the events *)
    pose proof (lwf_split fmt attrs evs elast decls 0 Hev) as Hsplit. cbn [Nat.add] in Hsplit.
    destruct Hsplit as (ds & dl & -> & Hds & Hdl).
    rewrite render_events_app in *.
    unfold render_events at 2. cbn [flat_map]. rewrite app_nil_r. unfold render_event.
    unfold render_events at 2 in Hlong. cbn [flat_map] in Hlong. rewrite app_nil_r in Hlong.
    unfold render_event in Hlong. rewrite app_length in Hlong. cbn [List.length] in Hlong.
    rewrite app_length in Hlong. cbn [List.length] in Hlong.
    replace (total_decl (ds ++ [dl])) with (List.length (render_events evs) + (S (List.length (e_rows elast) + 0)))%nat by lia.
    pose proof (rl_events_g 0%Z fmt attrs evs ds 0 (S (List.length (e_rows elast) + 0))
                  (e_head elast :: e_rows elast ++ [e_foot elast])
                  {| plist := []; data := []; counts := counts_decl 0 (ds ++ [dl]); cut := 0 |} Hds eq_refl) as Hrl.
    rewrite Hrl. clear Hrl.
    destruct Hdl as (_ & Hhk & _ & Hrows & _ & _).
    cbn [read_loop]. rewrite Hhk.
    rewrite (rl_rows tok_float tok_int pdg_valid) by exact Hrows.
    cbn [read_loop bind add_data add_events plist cut app]. rewrite Z.sub_0_r, map_length.
    replace (Z.of_nat (List.length evs) =? Z.of_nat nlast)%Z with false by (symmetry; apply Z.eqb_neq; lia).
    reflexivity.
  Qed.

  (* ---------------------------------------------------------------- cut right after an event header line *)
  Theorem cut_after_header d fmt attrs evs (h : line) (dcl : nat) :
    hdr_ok d fmt attrs -> wf_events fmt attrs 0 evs ->
    kind_scan h = SOut -> kind_loop h = KSkip ->
    (exists lt ct, nth_error h 2 = Some lt /\ nth_error h 4 = Some ct /\
                   tok_int lt = Some (zq (Z.of_nat (List.length evs))) /\ tok_int ct = Some (zq (Z.of_nat dcl))) ->
    nth 0 h "" = "#" -> mem_str "event" (removelast_s h) = true ->
    LOAD (d_h1 d :: d_h2 d :: d_h3 d :: render_events evs ++ [h])%list SelAll = Err IndexError.
  Proof.
    intros (Hfmt & Hstd & Hs1 & Hs2 & Hs3) Hev Hks Hkl (lt & ct & H2 & H4 & Hl & Hc) H0 Hmem.
    unfold load. rewrite Hfmt. cbn [bind fst snd].
    assert (Hstd' : ((fmt =? "Oscar2013Extended_IC") || (fmt =? "Oscar2013Extended_Photons")) = false).
    { destruct Hstd as [->|[->| ->]]; reflexivity. }
    rewrite Hstd'. cbn [bind].
    assert (Hlast : last (d_h1 d :: d_h2 d :: d_h3 d :: render_events evs ++ [h])%list [] = h).
    { change (d_h1 d :: d_h2 d :: d_h3 d :: render_events evs ++ [h])%list
        with ((d_h1 d :: d_h2 d :: d_h3 d :: render_events evs) ++ [h])%list. apply last_last. }
    rewrite Hlast. unfold num_events_of. rewrite H0, Hmem, String.eqb_refl.
    assert (Hlen : (2 <=? List.length h)%nat = true).
    { apply Nat.leb_le. destruct h as [|a [|b t]]; cbn in *; try discriminate; lia. }
    rewrite Hlen. cbn [andb]. rewrite H2, Hl. cbn [bind]. rewrite to_Z_zq.
    cbn [scan]. rewrite Hs1, Hs2, Hs3.
    pose proof (scan_events_g fmt attrs evs _ 0 [h] (wf_lwf fmt attrs evs 0 Hev)) as Hsc.
    rewrite Hsc. cbn [scan]. rewrite Hks, H2, H4, Hl, Hc. cbn [scan bind fst snd app].
    rewrite counts_decl_from, !to_Z_zq.
    cbn [num_skip num_read bind sel_first sel_counts].
    destruct (counts_from 0 evs ++ [(Z.of_nat (List.length evs), Z.of_nat dcl)])%list eqn:Ec.
    { destruct (counts_from 0 evs); discriminate. }
    rewrite <- Ec. cbn [bind].
    rewrite fold_right_app. cbn [fold_right snd]. rewrite app_length. cbn [List.length].
    assert (Hnr : (fold_right (fun c acc => snd c + acc) (Z.of_nat dcl + 0) (counts_from 0 evs)
                   + 2 * Z.of_nat (List.length (counts_from 0 evs) + 1))%Z
                  = Z.of_nat (List.length (render_events evs) + (dcl + 2))).
    { pose proof (read_all_lines evs 0) as Hr.
      assert (Hf : forall l z, fold_right (fun c acc => snd c + acc)%Z z l
                             = (fold_right (fun (c : Z * Z) acc => snd c + acc) 0 l + z)%Z).
      { intros l'. induction l' as [|x l' IHl]; intros z; cbn [fold_right]; [lia|rewrite IHl; lia]. }
      rewrite Hf. lia. }
    rewrite Hnr, Nat2Z.id. change (Z.to_nat 3) with 3%nat. cbn [skipn].
    assert (Hfirst : (match (render_events evs ++ [h])%list, (List.length (render_events evs) + (dcl + 2))%nat with
                      | l0 :: _, S _ => if negb (has "#" l0) && negb (has "out" l0) then Err ValueError else Ok tt
                      | _, _ => Ok tt end) = Ok tt).
    { replace (List.length (render_events evs) + (dcl + 2))%nat with (S (List.length (render_events evs) + dcl + 1)) by lia.
      assert (Hh : forall l, kind_scan l = SOut -> has "#" l = true).
      { intros l9 Hk. unfold kind_scan in Hk. destruct (has "#" l9); [reflexivity|cbn in Hk; discriminate]. }
      destruct evs as [|e0 t].
      - cbn [render_events flat_map app]. rewrite (Hh h Hks). reflexivity.
      - destruct Hev as ((Hk & _) & _). unfold render_events. cbn [flat_map]. unfold render_event at 1. cbn [app].
        rewrite (Hh _ Hk). reflexivity. }
    rewrite Hfirst. cbn [bind].
    pose proof (rl_events_g 0%Z fmt attrs evs _ 0 (dcl + 2) [h]
                 {| plist := []; data := []; counts := (counts_from 0 evs ++ [(Z.of_nat (List.length evs), Z.of_nat dcl)])%list; cut := 0 |}
                 (wf_lwf fmt attrs evs 0 Hev) eq_refl) as Hrl.
    rewrite Hrl. replace (dcl + 2)%nat with (S (S dcl)) by lia. cbn [read_loop]. rewrite Hkl. reflexivity.
  Qed.

  (* ---------------------------------------------------------------- the last line is not an event comment:
     any cut that ends in (a prefix of) a particle line or of the format line *)
  Theorem last_line_not_comment file first rest fmt attrs :
    file = first :: rest -> oscar_format first = Ok (fmt, attrs) -> std_format fmt ->
    nth 0 (last file []) "" <> "#" ->
    LOAD file SelAll = Err TypeError /\
    (rest <> [] -> load_nonl tok_float tok_int pdg_valid None file SelAll = Err TypeError).
  Proof.
    intros -> Hfmt Hstd Hl.
    assert (Hstd' : ((fmt =? "Oscar2013Extended_IC") || (fmt =? "Oscar2013Extended_Photons")) = false).
    { destruct Hstd as [->|[->| ->]]; reflexivity. }
    assert (E : (nth 0 (last (first :: rest) []) "" =? "#") = false).
    { destruct (String.eqb_spec (nth 0 (last (first :: rest) []) "") "#"); [contradiction|reflexivity]. }
    split.
    - unfold load. rewrite Hfmt. cbn [bind fst snd]. rewrite Hstd'. cbn [bind].
      unfold num_events_of. rewrite E. reflexivity.
    - intros Hr. unfold load_nonl. destruct rest as [|r0 rest']; [congruence|].
      rewrite Hfmt. cbn [bind fst snd]. rewrite Hstd'. cbn [bind].
      unfold num_events_of_nonl. rewrite E. reflexivity.
  Qed.

  (* ---------------------------------------------------------------- cut at an event boundary: exactly the
     complete events before the cut *)
  Definition trunc (m : nat) (d : doc) : doc :=
    {| d_h1 := d_h1 d; d_h2 := d_h2 d; d_h3 := d_h3 d; d_events := firstn m (d_events d) |}.

  (* every footer carries the label of its event (only the last one matters for an intact file) *)
  Fixpoint foot_labels (i : nat) (evs : list event) : Prop :=
    match evs with
    | [] => True
    | e :: t => wf_last tok_int (S i) (e_foot e) /\ foot_labels (S i) t
    end.

  Lemma foot_labels_last : forall evs i, evs <> [] -> foot_labels i evs ->
    wf_last tok_int (i + List.length evs) (e_foot (last evs {| e_head := []; e_rows := []; e_foot := [] |})).
  Proof.
    induction evs as [|e t IH]; intros i Hne H; [congruence|].
    destruct H as (He & Ht). destruct t as [|e' t'].
    - cbn. replace (i + 1)%nat with (S i) by lia. exact He.
    - change (last (e :: e' :: t') _) with (last (e' :: t') {| e_head := []; e_rows := []; e_foot := [] |}).
      replace (i + List.length (e :: e' :: t'))%nat with (S i + List.length (e' :: t'))%nat by (cbn; lia).
      apply IH; [congruence|exact Ht].
  Qed.
  Lemma foot_labels_firstn : forall m evs i, foot_labels i evs -> foot_labels i (firstn m evs).
  Proof.
    induction m as [|m IH]; intros evs i H; [exact I|].
    destruct evs as [|e t]; [exact I|]. destruct H as (He & Ht). split; [exact He|apply IH, Ht].
  Qed.

  Theorem cut_at_event_boundary d fmt attrs m :
    WF d fmt attrs -> foot_labels 0 (d_events d) -> (1 <= m <= List.length (d_events d))%nat ->
    render (trunc m d) = firstn (3 + List.length (render_events (firstn m (d_events d)))) (render d) /\
    LOAD (render (trunc m d)) SelAll = Ok (EXPECTED (trunc m d) fmt attrs) /\
    l_events (EXPECTED (trunc m d) fmt attrs) = firstn m (l_events (EXPECTED d fmt attrs)) /\
    l_counts (EXPECTED (trunc m d) fmt attrs) = firstn m (l_counts (EXPECTED d fmt attrs)) /\
    l_nevents (EXPECTED (trunc m d) fmt attrs) = Z.of_nat m.
  Proof.
    intros Hwf Hfl Hm. pose proof Hwf as (Hfmt & Hstd & Hs1 & Hs2 & Hs3 & Hne & Hev & Hlast).
    assert (Hlen : List.length (firstn m (d_events d)) = m) by (apply firstn_length_le; lia).
    split; [|split; [|split; [|split]]].
    - unfold render, trunc. cbn [d_h1 d_h2 d_h3 d_events Nat.add firstn]. do 3 f_equal.
      set (A := render_events (firstn m (d_events d))).
      transitivity (firstn (List.length A) (A ++ render_events (skipn m (d_events d)))%list).
      + rewrite firstn_app, Nat.sub_diag, firstn_all. cbn [firstn]. rewrite app_nil_r. reflexivity.
      + f_equal. unfold A. rewrite <- render_events_app, firstn_skipn. reflexivity.
    - apply load_render. unfold wf, trunc. cbn [d_h1 d_h2 d_h3 d_events].
      refine (conj Hfmt (conj Hstd (conj Hs1 (conj Hs2 (conj Hs3 (conj _ (conj _ _))))))).
      + intros E. rewrite E in Hlen. cbn in Hlen. lia.
      + apply wf_events_firstn, Hev.
      + rewrite Hlen. pose proof (foot_labels_last (firstn m (d_events d)) 0) as HL.
        rewrite Hlen in HL. apply HL; [|apply foot_labels_firstn, Hfl].
        intros E. rewrite E in Hlen. cbn in Hlen. lia.
    - unfold expected, trunc. cbn [l_events d_events]. rewrite firstn_map. reflexivity.
    - unfold expected, trunc. cbn [l_counts d_events].
      clear. generalize 0%nat as i. revert m. induction (d_events d) as [|e t IH]; intros m i; [destruct m; reflexivity|].
      destruct m; [reflexivity|]. cbn [firstn counts_from]. rewrite IH. reflexivity.
    - unfold expected, trunc. cbn [l_nevents d_events]. rewrite Hlen. reflexivity.
  Qed.
End P.

(* C14: the differential yields: bin i holds (#particles with e_i <= q < e_i+1) / (N_ev * width_i). *)
From Coq Require Import List ZArith QArith Qcanon Bool Arith Lia.
From SX Require Import Model.Histogram Model.Bulk Lib.HistBase Proofs.C09_Count Proofs.C09_Scale Proofs.C09_Density
                       Proofs.C10_Shape Proofs.C10_Avg Proofs.C10_History Proofs.C10_Write.
Import ListNotations.
Local Open Scope nat_scope.

(* ---------------------------------------------------------------- vocabulary *)
Definition count_in (es : list Qc) (i : nat) (qs : list Qc) : nat := length (filter (in_bin es i) qs).
Definition counts_row (es : list Qc) (n : nat) (qs : list Qc) : list cell :=
  map (fun i => Some (qnat (count_in es i qs))) (seq 0 n).
Definition in_range (es : list Qc) (n : nat) (v : Qc) : bool := Qcleb (nth 0 es 0%Qc) v && Qcltb v (nth n es 0%Qc).

Lemma qnat_qn k : qnat k = qn k.
Proof. reflexivity. Qed.
Lemma qnat_S k : qnat (S k) = (qnat k + 1)%Qc.
Proof. rewrite !qnat_qn. apply qn_S. Qed.
Lemma qnat_0 : qnat 0 = 0%Qc.
Proof. apply Qc_is_canon. reflexivity. Qed.
Lemma qnat_add a b : qnat (a + b) = (qnat a + qnat b)%Qc.
Proof. induction a as [|a IH]; simpl plus; [rewrite qnat_0; ring | rewrite !qnat_S, IH; ring]. Qed.
Lemma qnat_nz k : 0 < k -> qnat k <> 0%Qc.
Proof.
  intros H Z. pose proof (qn_pos k H) as P. rewrite <- qnat_qn, Z in P. revert P. apply Qcle_not_lt, Qcle_refl.
Qed.

Lemma count_in_app es i a b : count_in es i (a ++ b) = count_in es i a + count_in es i b.
Proof. unfold count_in. now rewrite filter_app, app_length. Qed.

(* ---------------------------------------------------------------- one event *)
Lemma fill_event_list : forall qs h, fill_event true h (map (@Some Qc) qs) = fill_list h (map (fun q => (Some q, None)) qs).
Proof.
  induction qs as [|q t IH]; intros h; [reflexivity|].
  cbn [map fill_event fill_list negb]. destruct (fill_elem h (Some q) None); cbn [bind]; [apply IH | reflexivity].
Qed.

Lemma qpairs_unit qs : qpairs (map (fun q => (Some q, None)) qs) = Some (map (fun q => (q, 1%Qc)) qs).
Proof. induction qs as [|q t IH]; [reflexivity|]. cbn [map qpairs]. rewrite IH. reflexivity. Qed.

Lemma wsum_unit es i qs : wsum es i (map (fun q => (q, 1%Qc)) qs) = qnat (count_in es i qs).
Proof.
  unfold count_in. induction qs as [|q t IH]; [symmetry; apply qnat_0|].
  cbn [map wsum fold_right fst snd filter]. fold (wsum es i (map (fun q => (q, 1%Qc)) t)). rewrite IH.
  destruct (in_bin es i q); cbn [length]; [rewrite qnat_S; ring | ring].
Qed.

Lemma nth_zeros n i : i < n -> nth i (zeros n) None = Some 0%Qc.
Proof. intros H. unfold zeros. rewrite (nth_indep _ None c0) by (rewrite repeat_length; exact H). apply nth_repeat. Qed.

Lemma counts_row_length es n qs : length (counts_row es n qs) = n.
Proof. unfold counts_row. now rewrite map_length, seq_length. Qed.
Lemma counts_row_nth es n qs i : i < n -> nth i (counts_row es n qs) None = Some (qnat (count_in es i qs)).
Proof. intros H. unfold counts_row. now rewrite nth_map_seq. Qed.

Lemma fill_event_row h pre qs : Shape h -> nondecreasing (edges h) = true -> hH h = A2 (pre ++ [zeros (nbins h)]) ->
  exists h', fill_event true h (map (@Some Qc) qs) = Ok h' /\ Shape h'
    /\ hH h' = A2 (pre ++ [counts_row (edges h) (nbins h) qs])
    /\ edges h' = edges h /\ nbins h' = nbins h /\ nhist h' = nhist h.
Proof.
  intros Sh Nd EH. rewrite fill_event_list.
  destruct (fill_list_spec _ h _ Sh Nd (qpairs_unit qs)) as [h' [E [Sh' [F C]]]].
  exists h'. split; [exact E|]. split; [exact Sh'|].
  split; [|split; [apply (f_edges _ _ F) | split; [apply (f_nbins _ _ F) | apply (f_nhist _ _ F)]]].
  pose proof Sh' as [Hn' [_ [SH' _]]].
  destruct (nhist h') as [|m]; [lia|].
  destruct (Shape2_snoc _ _ _ SH') as [pre' [row' [EH' [_ [Lr' _]]]]].
  pose proof (f_prevH _ _ F) as P. rewrite EH', EH, !prev_snoc in P. subst pre'.
  rewrite EH'. f_equal. f_equal. f_equal.
  rewrite (f_nbins _ _ F) in Lr'.
  apply (nth_ext _ _ None None); [now rewrite counts_row_length|].
  intros i Hi0. assert (Hi : i < nbins h) by (rewrite <- Lr'; exact Hi0). rewrite counts_row_nth by exact Hi.
  destruct (C i Hi) as [Ci _]. unfold content in Ci. rewrite EH', EH, !cur_snoc in Ci.
  refine (eq_trans Ci _). rewrite nth_zeros, wsum_unit by exact Hi. simpl. f_equal. ring.
Qed.

(* ---------------------------------------------------------------- add_histogram *)
Lemma vstack_ok k n a row : Shape2 k n a -> length row = n ->
  exists rows, a = A2 rows /\ vstack a row = Ok (A2 (rows ++ [row])).
Proof.
  intros [rows [-> [L F]]] Lr. exists rows. split; [reflexivity|]. unfold vstack.
  replace (forallb _ rows) with true; [reflexivity|]. symmetry. apply forallb_forall. intros r Hr.
  rewrite Forall_forall in F. rewrite (F r Hr), Lr. apply Nat.eqb_refl.
Qed.

Lemma add_histogram_spec h rows : Shape h -> hH h = A2 rows ->
  exists h', add_histogram h = Ok h' /\ Shape h' /\ hH h' = A2 (rows ++ [zeros (nbins h)])
    /\ edges h' = edges h /\ nbins h' = nbins h /\ nhist h' = S (nhist h).
Proof.
  intros Sh EH. pose proof Sh as [Hn [He [SH [SR [SE [SS SY]]]]]].
  destruct (vstack_ok _ _ _ (zeros (nbins h)) SH (zeros_length _)) as [r1 [E1 V1]].
  destruct (vstack_ok _ _ _ (zeros (nbins h)) SR (zeros_length _)) as [r2 [E2 V2]].
  destruct (vstack_ok _ _ _ (ones (nbins h)) SS (ones_length _)) as [r3 [E3 V3]].
  destruct (vstack_ok _ _ _ (zeros (nbins h)) SE (zeros_length _)) as [r4 [E4 V4]].
  destruct (vstack_ok _ _ _ (zeros (nbins h)) SY (zeros_length _)) as [r5 [E5 V5]].
  assert (R : add_histogram h = Ok (mkH (nbins h) (edges h) (S (nhist h)) (A2 (r1 ++ [zeros (nbins h)]))
                                        (A2 (r2 ++ [zeros (nbins h)])) (A2 (r4 ++ [zeros (nbins h)]))
                                        (A2 (r3 ++ [ones (nbins h)])) (A2 (r5 ++ [zeros (nbins h)])))).
  { unfold add_histogram. rewrite V1, V2, V3, V4, V5. reflexivity. }
  eexists. split; [exact R|]. split; [eapply add_histogram_shape; eauto|].
  cbn. rewrite EH in E1. injection E1 as <-. auto.
Qed.

(* ---------------------------------------------------------------- all events *)
Lemma fill_events_spec : forall qevs h pre, qevs <> [] -> Shape h -> nondecreasing (edges h) = true ->
  hH h = A2 (pre ++ [zeros (nbins h)]) ->
  exists h', fill_events true h (map (map (@Some Qc)) qevs) = Ok h' /\ Shape h'
    /\ hH h' = A2 (pre ++ map (counts_row (edges h) (nbins h)) qevs)
    /\ edges h' = edges h /\ nbins h' = nbins h.
Proof.
  induction qevs as [|qs rest IH]; intros h pre Ne Sh Nd EH; [congruence|].
  cbn [map fill_events].
  destruct (fill_event_row h pre qs Sh Nd EH) as [h1 [E1 [S1 [H1 [Ee1 [Nb1 Nh1]]]]]].
  rewrite E1. cbn [bind].
  destruct rest as [|qs2 rest'].
  - cbn [map]. exists h1. split; [reflexivity|]. split; [exact S1|]. split; [exact H1|]. split; assumption.
  - cbn [map]. change (map (@Some Qc) qs2 :: map (map (@Some Qc)) rest') with (map (map (@Some Qc)) (qs2 :: rest')).
    destruct (add_histogram_spec h1 _ S1 H1) as [h2 [E2 [S2 [H2 [Ee2 [Nb2 Nh2]]]]]].
    replace (match map (map (@Some Qc)) (qs2 :: rest') with [] => Ok h1 | _ :: _ => do h0 <- add_histogram h1; fill_events true h0 (map (map (@Some Qc)) (qs2 :: rest')) end)
      with (do h0 <- add_histogram h1; fill_events true h0 (map (map (@Some Qc)) (qs2 :: rest'))) by reflexivity.
    rewrite E2. cbn [bind].
    assert (Nd2 : nondecreasing (edges h2) = true) by (rewrite Ee2, Ee1; exact Nd).
    rewrite <- Nb2 in H2.
    destruct (IH h2 (pre ++ [counts_row (edges h) (nbins h) qs]) ltac:(congruence) S2 Nd2 H2) as [h' [E' [S' [H' [Ee' Nb']]]]].
    exists h'. split; [exact E'|]. split; [exact S'|].
    rewrite Ee2, Ee1 in Ee', H'. rewrite Nb2, Nb1 in Nb', H'.
    split; [|auto]. rewrite H', <- app_assoc. reflexivity.
Qed.

(* ---------------------------------------------------------------- the average of the per-event counts *)
Lemma csum_ones n : csum (ones n) = Some (qnat n).
Proof.
  induction n as [|n IH]; [now rewrite qnat_0|].
  change (csum (ones (S n))) with (cadd c1 (csum (ones n))). rewrite IH, qnat_S. simpl. f_equal. ring.
Qed.

Lemma map2_ones_some : forall xs, map2 cmul (ones (length xs)) (map (@Some Qc) xs) = map (@Some Qc) xs.
Proof.
  unfold map2. induction xs as [|x t IH]; [reflexivity|]. cbn [length ones repeat map combine fst snd].
  unfold ones in IH. rewrite IH. f_equal. simpl. f_equal. ring.
Qed.

Lemma wmean_ones xs : 0 < length xs ->
  wmean (ones (length xs)) (map (@Some Qc) xs) = Some (qsum xs / qnat (length xs))%Qc.
Proof.
  intros H. unfold wmean. rewrite map2_ones_some, csum_some, csum_ones. unfold cdiv.
  destruct (Qc_eq_bool (qnat (length xs)) 0) eqn:Z; [|reflexivity].
  apply Qc_eq_bool_true in Z. exfalso. revert Z. apply qnat_nz, H.
Qed.

Lemma qsum_counts es i : forall qevs,
  qsum (map (fun qs => qnat (count_in es i qs)) qevs) = qnat (count_in es i (concat qevs)).
Proof.
  induction qevs as [|qs rest IH]; [symmetry; apply qnat_0|].
  cbn [map qsum fold_right concat]. fold (qsum (map (fun qs => qnat (count_in es i qs)) rest)).
  rewrite IH, count_in_app, qnat_add. reflexivity.
Qed.

Lemma col_counts es n i qevs : i < n ->
  col i (map (counts_row es n) qevs) = map (@Some Qc) (map (fun qs => qnat (count_in es i qs)) qevs).
Proof.
  intros Hi. unfold col. rewrite !map_map. apply map_ext. intros qs. now apply counts_row_nth.
Qed.

Lemma rect_of n rows : rows <> [] -> Forall (fun r : list cell => length r = n) rows -> rect rows = true.
Proof.
  intros Ne F. unfold rect. rewrite (ncols_of n) by assumption. now apply forallb_Forall_len.
Qed.

Lemma average0_ok n rows ws : rows <> [] -> Forall (fun r => length r = n) rows -> length ws = length rows ->
  c_is0 (csum ws) = false -> exists v, average0 rows ws = Ok v.
Proof.
  intros Ne F L Z. unfold average0. rewrite (rect_of n) by assumption. cbn [negb].
  rewrite L, Nat.eqb_refl. cbn [negb]. rewrite Z. eauto.
Qed.

Section WithSqrt.
  Variable usqrt : Qc -> Qc.

  Lemma average_ok h : Shape h -> exists h', average usqrt h = Ok h'.
  Proof.
    intros [Hn [He [SH [SR [SE [SS SY]]]]]].
    destruct SH as [rows [EH [LH FH]]]. destruct SR as [raws [ER [LR FR]]].
    destruct SY as [srows [EY [LY FY]]]. destruct SS as [crows [ES [LS FS]]].
    assert (Z : c_is0 (csum (ones (nhist h))) = false).
    { rewrite csum_ones. simpl. destruct (Qc_eq_bool (qnat (nhist h)) 0) eqn:Q; [|reflexivity].
      apply Qc_eq_bool_true in Q. exfalso. revert Q. apply qnat_nz. lia. }
    assert (Nr : rows <> []) by (destruct rows; [simpl in LH; lia | congruence]).
    assert (Ns : srows <> []) by (destruct srows; [simpl in LY; lia | congruence]).
    unfold average, average_weighted. rewrite EH, ER, EY, ES. cbn [rows_of bind].
    destruct (average0_ok (nbins h) rows (ones (nhist h)) Nr FH) as [avg Ea]; [rewrite ones_length; lia | exact Z|].
    rewrite Ea. cbn [bind].
    pose proof (average0_length (nbins h) _ _ _ Nr FH Ea) as La.
    destruct (average0_ok (nbins h) (map (fun r => map2 (fun x a => csq (csub x a)) r avg) rows) (ones (nhist h))) as [var Ev].
    { destruct rows; [congruence | discriminate]. }
    { apply Forall_map. eapply Forall_impl; [|exact FH]. intros r Lr. cbv beta in Lr. rewrite map2_length. lia. }
    { rewrite ones_length, map_length. lia. }
    { exact Z. }
    rewrite Ev. cbn [bind].
    destruct (average0_ok (nbins h) (map (map csq) srows) (ones (nhist h))) as [sv Es].
    { destruct srows; [congruence | discriminate]. }
    { apply Forall_map. eapply Forall_impl; [|exact FY]. intros r Lr. now rewrite map_length. }
    { rewrite ones_length, map_length. lia. }
    { exact Z. }
    rewrite Es. cbn [bind].
    destruct crows as [|c0r crest]; [simpl in LS; lia|]. cbn [first_row_2d bind]. eauto.
  Qed.

  (* ---------------------------------------------------------------- the yield *)
  Lemma yield_spec es n qevs : length es = S n ->
    (forall i, i < n -> (nth i es 0 < nth (S i) es 0)%Qc) -> qevs <> [] ->
    exists h,
      (do h1 <- fill_events true (fresh n es) (map (map (@Some Qc)) qevs);
       do h2 <- average usqrt h1;
       scale_histogram h2 (SList (inv_widths es))) = Ok h
      /\ Shape h /\ nhist h = 1 /\ nbins h = n /\ edges h = es
      /\ forall i, i < n ->
           content h i = Some (qnat (count_in es i (concat qevs))
                               / (qnat (length qevs) * (nth (S i) es 0 - nth i es 0)))%Qc.
  Proof.
    intros Le Inc Ne.
    assert (Nd : nondecreasing es = true).
    { apply nondecreasing_of_nth. intros i Hi. apply Qclt_le_weak, Inc. lia. }
    pose proof (fresh_Shape n es Le) as S0.
    destruct (fill_events_spec qevs (fresh n es) [] Ne S0 Nd eq_refl) as [h1 [E1 [S1 [H1 [Ee1 Nb1]]]]].
    cbn [fresh edges nbins app] in H1, Ee1, Nb1.
    rewrite E1. cbn [bind].
    destruct (average_ok h1 S1) as [h2 E2]. rewrite E2. cbn [bind].
    destruct (average_weighted_spec usqrt h1 _ h2 S1 E2) as [S2 [Nh2 [Nb2 [Ee2 [rows [raws [avg [err [raw [EH1 [_ [EH2 [_ [_ [Lw Av]]]]]]]]]]]]]]].
    rewrite H1 in EH1. injection EH1 as <-.
    rewrite ones_length in Lw.
    assert (LN : nhist h1 = length qevs).
    { destruct S1 as [_ [_ [[rows [Er [Lr _]]] _]]]. rewrite H1 in Er. injection Er as <-. now rewrite map_length in Lr. }
    (* the scaling by 1 / width *)
    destruct (geometry_length es) as [_ [Lwd _]]. rewrite Le in Lwd. simpl in Lwd. rewrite Nat.sub_0_r in Lwd.
    assert (Wi : forall i, i < n -> nth i (inv_widths es) None = Some (1 / (nth (S i) es 0 - nth i es 0))%Qc).
    { intros i Hi. unfold inv_widths. rewrite (nth_map_lt (fun w => cdiv c1 (Some w)) (widths es) (None : cell) 0%Qc) by lia.
      destruct (geometry es i) as [_ [Gw _]]; [lia|]. rewrite Gw. unfold cdiv, c1.
      destruct (Qc_eq_bool _ 0) eqn:Z; [|reflexivity]. apply Qc_eq_bool_true in Z. exfalso.
      specialize (Inc i Hi). apply Qclt_not_eq in Inc. apply Inc. symmetry.
      transitivity (nth (S i) es 0 - nth i es 0 + nth i es 0)%Qc; [ring | rewrite Z; ring]. }
    assert (V : valid_scale (nbins h2) (SList (inv_widths es)) = true).
    { cbn [valid_scale]. apply andb_true_iff. split.
      - apply negb_true_iff. apply not_true_is_false. intros Hex. apply existsb_exists in Hex.
        destruct Hex as [c [Hin Hneg]]. destruct (In_nth _ _ None Hin) as [i [Hi Ei]].
        unfold inv_widths in Hi. rewrite map_length, Lwd in Hi. assert (Ec : c = Some (1 / (nth (S i) es 0 - nth i es 0))%Qc) by (rewrite <- Ei; apply Wi; exact Hi). clear Ei. subst c.
        unfold c_neg in Hneg. apply Qcltb_lt in Hneg. revert Hneg. apply Qcle_not_lt.
        specialize (Inc i Hi). apply Qclt_minus_iff in Inc.
        replace (1 / (nth (S i) es 0 - nth i es 0))%Qc with (/ (nth (S i) es 0 + - nth i es 0))%Qc by (unfold Qcdiv, Qcminus; ring).
        apply Qclt_le_weak, Qcinv_pos, Inc.
      - apply Nat.eqb_eq. unfold inv_widths. rewrite map_length, Lwd. congruence. }
    destruct (scale_spec h2 _ S2 V) as [h3 [E3 [S3 [F3 [CH _]]]]].
    exists h3. split; [exact E3|]. split; [exact S3|].
    split; [rewrite (s_nhist _ _ F3); exact Nh2|].
    split; [rewrite (s_nbins _ _ F3); congruence|].
    split; [rewrite (s_edges _ _ F3); congruence|].
    intros i Hi. unfold content. rewrite CH, EH2. cbn [cur last apply_factor].
    assert (La : length avg = n).
    { destruct S2 as [_ [_ [[r [Er [_ Fr]]] _]]]. rewrite EH2 in Er. injection Er as <-. inversion Fr; subst. congruence. }
    rewrite (nth_map2 cmul (None : cell) (None : cell) (None : cell)) by (unfold inv_widths; rewrite ?map_length; lia).
    destruct (Av i) as [Ai _]; [lia|]. rewrite Ai, (Wi i Hi), (col_counts es n i qevs Hi).
    rewrite LN. rewrite <- (map_length (fun qs => qnat (count_in es i qs)) qevs) at 1 2.
    rewrite wmean_ones by (rewrite map_length; destruct qevs; [congruence | simpl; lia]).
    rewrite qsum_counts, map_length. cbn [cmul]. f_equal.
    assert (Nz : qnat (length qevs) <> 0%Qc) by (apply qnat_nz; destruct qevs; [congruence | simpl; lia]).
    assert (Wz : (nth (S i) es 0 - nth i es 0)%Qc <> 0%Qc).
    { intros Z. specialize (Inc i Hi). apply Qclt_not_eq in Inc. apply Inc. symmetry.
      transitivity (nth (S i) es 0 - nth i es 0 + nth i es 0)%Qc; [ring | rewrite Z; ring]. }
    field. split; assumption.
  Qed.
End WithSqrt.

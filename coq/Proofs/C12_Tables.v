(* C12 - the regenerated finite tables of the flow estimators (selectors, constructor lists and defaults). *)
From Coq Require Import String List Bool.
From SX Require Import Gen.GenFlowTables.
Import ListNotations.
Local Open Scope string_scope.

Definition documented_selectors : list string := ["pT"; "rapidity"; "pseudorapidity"].
Definition estimators : list string :=
  ["ReactionPlaneFlow"; "EventPlaneFlow"; "ScalarProductFlow"; "QCumulantFlow"; "LeeYangZeroFlow"; "PCAFlow"].

Fixpoint lookup {A} (k : string) (l : list (string * A)) : option A :=
  match l with [] => None | (k', v) :: t => if String.eqb k k' then Some v else lookup k t end.

(* every constructor default that is validated against a list lies in that list *)
Definition defaults_ok : bool :=
  forallb (fun cd : string * list (string * string) =>
    forallb (fun ad : string * string =>
      match lookup (fst cd) tab_ctor_accepted with
      | Some accs => match lookup (fst ad) accs with
                     | Some l => existsb (String.eqb (snd ad)) l
                     | None => false
                     end
      | None => false
      end) (snd cd)) tab_ctor_defaults.

(* the weight strings that are dispatched are exactly the accepted ones *)
Definition weights_ok : bool :=
  forallb (fun cw : string * list string =>
    match lookup (fst cw) tab_ctor_accepted with
    | Some accs => match lookup "weight" accs with
                   | Some l => if list_eq_dec string_dec l (snd cw) then true else false
                   | None => false
                   end
    | None => false
    end) tab_weight_dispatched.

Lemma tables_ok :
  map fst tab_selectors_validated = estimators /\
  map fst tab_selectors_dispatched = estimators /\
  map fst tab_ctor_defaults = estimators /\
  Forall (fun e => snd e = documented_selectors) tab_selectors_validated /\
  Forall (fun e => snd e = documented_selectors) tab_selectors_dispatched /\
  defaults_ok = true /\ weights_ok = true /\
  lookup "ScalarProductFlow" tab_ctor_defaults = Some [("weight", "pT2")] /\
  lookup "EventPlaneFlow" tab_ctor_defaults = Some [("weight", "pT2")] /\
  lookup "QCumulantFlow" tab_ctor_defaults = Some [("imaginary", "zero"); ("k", "2")].
Proof.
  repeat split; try reflexivity; repeat constructor.
Qed.

(* non-vacuity example used by Properties/C12.v *)
From Coq Require Import ZArith.
From SX Require Import Lib.KRing Lib.Cpx Model.FlowRP Model.FlowSP Proofs.C12_SP.
Lemma c12_example :
  let ev1 := ([((1, 0), 2); ((0, 1), 3)], [((1, 0), 2); ((0, 1), 3); ((-1, 0), 1); ((0, -1), 5)])%Z in
  let ev2 := ([((0, -1), 1)], [((0, 1), 1); ((1, 0), 2); ((0, -1), 1)])%Z in
  let sp := sp_integrated Z 0%Z 1%Z Z.add Z.mul Z.sub Z.opp (fun x => x) (fun x => x) Z.abs (Z.eqb 0) Z.ltb Z
              (fun d => d) (fun _ => 1%Z) (fun d => Z.leb 2 d) (fun d => Z.ltb d 2) true in
  rotated Z 0%Z 1%Z Z.add Z.mul Z.sub Z.opp Z [ev1; ev2]
          [rote Z Z.add Z.mul Z.sub Z (0, 1)%Z ev1; rote Z Z.add Z.mul Z.sub Z (-1, 0)%Z ev2] /\
  sp [ev1; ev2] = sp [rote Z Z.add Z.mul Z.sub Z (0, 1)%Z ev1; rote Z Z.add Z.mul Z.sub Z (-1, 0)%Z ev2] /\
  sp [ev1; ev2] = sp [ev2; ev1].
Proof.
  cbv zeta. split; [|split; vm_compute; reflexivity].
  constructor; [exists (0, 1)%Z; split; reflexivity|]. constructor; [exists (-1, 0)%Z; split; reflexivity|]. constructor.
Qed.

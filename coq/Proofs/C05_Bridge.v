(* C05 bridge: the per-event application loop of Model/CtorFilters.v ([file_loader], [pobj_loader] - what C05's
   theorems are about) against the loader models Model/Oscar.v [load], Model/Jetscape.v [jload], Model/PObj.v [pload]
   (proved equal to the regenerated method bodies in Proofs/OscarLoader_Source.v, JetscapeLoader_Source.v,
   PObj_Source.v).

   The loader models carry particles (the 25 data slots) and take the constructor filter as a function [f] of one
   event's particle list; Model/CtorFilters.v carries observation records [pobs] and takes the chain
   [apply : list (list pobs) -> result (list (list pobs))].  [view] is ANY function from a loaded particle to its
   observation record.  "f is the chain applied to a single event":
       realises view apply f evs :=  forall data in evs,  apply_one apply (map view data) = Ok (map view (f data)).
   For a chain of documented filter calls [cs] such an f exists and is given explicitly: [lift_ops view (map call_op cs)]
   (a particle-level filter selects by the predicate on the viewed particle, an event-level cut keeps or empties the
   event) - theorems [bridge_*_chain] of Proofs/C05_BridgeChain.v have no hypothesis about f.
   This file depends on Model/CtorFilters.v only through its definitions (not on Proofs/C05_*.v).

   No read loop is proved here: Proofs/Bridge_Loads.v (built on C01/C02) gives the loads, the rest is list reasoning. *)
From Coq Require Import List String ZArith QArith Bool Arith Lia.
From SX Require Import Lib.Strs Gen.GenParticleMap Model.Oscar Model.OscarDoc Model.Jetscape Model.JetscapeDoc
  Proofs.C01_Oscar Proofs.C02_Oscar Proofs.C02_Filter Proofs.C02_Jetscape Proofs.C02_JetscapeSel Proofs.Bridge_Loads.
From SX Require Import Lib.Py Model.PObj Proofs.C02_PObj.
From SX Require Import Model.PyRt Model.FilterSpec Model.CtorFilters.
Import ListNotations.
Local Notation length := List.length.

(* ------------------------------------------------------------------ pure list part *)
Definition norm_events {A} (l : list (list A)) : list (list A) := match l with [] => [[]] | _ => l end.

(* rows labelled consecutively from [first] *)
Definition consecutive (first : Z) (rows : list (Z * Z)) : Prop :=
  map fst rows = map (fun i => (first + Z.of_nat i)%Z) (seq 0 (length rows)).

(* set_nth / remove_nth of CtorFilters.v at the end of a prefix *)
Lemma set_nth_at {A} (l1 l2 : list A) x y : set_nth (length l1) y (l1 ++ x :: l2) = l1 ++ y :: l2.
Proof.
  unfold set_nth. rewrite firstn_app, firstn_all, Nat.sub_diag. cbn [firstn]. rewrite app_nil_r.
  rewrite skipn_app. rewrite skipn_all2 by lia.
  replace (S (length l1) - length l1)%nat with 1%nat by lia. reflexivity.
Qed.
Lemma remove_nth_at {A} (l1 l2 : list A) x : remove_nth (length l1) (l1 ++ x :: l2) = l1 ++ l2.
Proof.
  unfold remove_nth. rewrite firstn_app, firstn_all, Nat.sub_diag. cbn [firstn]. rewrite app_nil_r.
  rewrite skipn_app. rewrite skipn_all2 by lia.
  replace (S (length l1) - length l1)%nat with 1%nat by lia. reflexivity.
Qed.

Section Core.
  Variable view : particle -> pobs.
  Variable apply : list (list pobs) -> PyRt.result (list (list pobs)).
  Variable f : list particle -> list particle.

  Definition realises (evs : list (list particle)) : Prop :=
    forall data, In data evs -> apply_one apply (map view data) = PyRt.Ok (map view (f data)).

  Let lenP := fun e : list particle => Z.of_nat (length e).
  Let lenO := fun e : list pobs => Z.of_nat (length e).

  Lemma lenO_view l : map lenO (map (map view) l) = map lenP l.
  Proof. rewrite map_map. apply map_ext. intros e. unfold lenO, lenP. rewrite map_length. reflexivity. Qed.

  Lemma norm_view (K : list (list particle)) :
    match map (map view) K with [] => [[]] | l => l end = map (map view) (norm_events K).
  Proof. destruct K; reflexivity. Qed.

  (* the loop of CtorFilters.v on the viewed events = filter each event, drop it iff it was non-empty and became empty *)
  Lemma file_loader_kept evs : realises evs ->
    file_loader apply (map (map view) evs)
    = PyRt.Ok (map (map view) (norm_events (kept f evs)), map lenP (kept f evs)).
  Proof.
    intros R. unfold file_loader.
    assert (G : forall rest pl, (forall e, In e rest -> In e evs) ->
              fold_leftM (file_event_end apply) (map (map view) rest) (map (map view) pl, map lenP pl ++ map lenP rest)
              = PyRt.Ok (map (map view) (pl ++ kept f rest), map lenP (pl ++ kept f rest))).
    { induction rest as [|data rest IH]; intros pl Hin.
      - cbn. rewrite !app_nil_r. reflexivity.
      - cbn [map fold_leftM]. unfold file_event_end at 1.
        rewrite (R data (Hin data (or_introl eq_refl))). cbn [PyRt.bind fst snd].
        rewrite !map_length. cbn [kept]. unfold keeps.
        replace (length pl) with (length (map lenP pl)) by apply map_length.
        destruct (negb (length (f data) =? 0)%nat || (length data =? 0)%nat) eqn:K.
        + rewrite set_nth_at.
          specialize (IH (pl ++ [f data])%list (fun e He => Hin e (or_intror He))).
          rewrite !map_app in IH. cbn [map] in IH. rewrite <- !app_assoc in IH. cbn [app] in IH.
          cbn [PyRt.bind]. rewrite !map_app. cbn [map]. exact IH.
        + rewrite remove_nth_at. apply (IH pl (fun e He => Hin e (or_intror He))). }
    specialize (G evs [] (fun e He => He)). cbn [map app] in G.
    fold lenO. rewrite lenO_view, G. cbn [PyRt.bind fst snd]. rewrite norm_view. reflexivity.
  Qed.
End Core.

(* ------------------------------------------------------------------ a chain of operations as a function of one event *)
Definition lift_op (view : particle -> pobs) (o : fop) (data : list particle) : list particle :=
  match o with
  | PLevel p => filter (fun x => p (view x)) data
  | ELevel k => if k (map view data) then data else []
  | Noop => data
  end.
Definition lift_ops (view : particle -> pobs) (ops : list fop) (data : list particle) : list particle :=
  fold_left (fun e o => lift_op view o e) ops data.

Lemma filter_map_view {A B} (g : A -> B) (p : B -> bool) l : filter p (map g l) = map g (filter (fun x => p (g x)) l).
Proof. induction l as [|x t IH]; [reflexivity|]. cbn [map filter]. destruct (p (g x)); cbn [map]; rewrite IH; reflexivity. Qed.

Lemma run_ops_lift view ops : forall data, run_ops ops [map view data] = [map view (lift_ops view ops data)].
Proof.
  induction ops as [|o ops IH]; intros data; [reflexivity|].
  unfold run_ops, lift_ops in *. cbn [fold_left]. rewrite <- IH. f_equal.
  destruct o as [p|k|]; cbn [run_op lift_op].
  - unfold particle_level. cbn [map]. rewrite filter_map_view. reflexivity.
  - unfold event_level. cbn [filter]. destruct (k (map view data)); reflexivity.
  - reflexivity.
Qed.

Lemma abs_event_lift view ops data : abs_event ops (map view data) = map view (lift_ops view ops data).
Proof. unfold abs_event. rewrite run_ops_lift. reflexivity. Qed.


(* ------------------------------------------------------------------ Oscar *)
Section Oscar.
  Variable tok_float : string -> option Q.
  Variable tok_int : string -> option Q.
  Variable pdg_valid : Q -> bool.
  Variable view : particle -> pobs.
  Notation V := (map (map view)).
  Notation WF := (wf tok_float tok_int pdg_valid).
  Notation LOAD := (load tok_float tok_int pdg_valid).

  Theorem bridge_oscar apply f d fmt attrs sel ld0 :
    WF d fmt attrs -> sel_in_range sel (length (d_events d)) ->
    LOAD None (render d) sel = Oscar.Ok ld0 ->
    realises view apply f (l_events ld0) ->
    exists ld, LOAD (Some f) (render d) sel = Oscar.Ok ld /\
      file_loader apply (V (l_events ld0)) = PyRt.Ok (V (l_events ld), map snd (l_counts ld)) /\
      consecutive (sel_first sel) (l_counts ld) /\
      l_nevents ld = Z.of_nat (length (l_counts ld)) /\
      l_format ld = l_format ld0 /\ l_attrs ld = l_attrs ld0 /\ l_footers ld = l_footers ld0.
  Proof.
    intros Hwf Hr H0 R. destruct (sel_in_range_span _ _ Hr) as (a & n & Hs).
    rewrite (load_sel_none tok_float tok_int pdg_valid d fmt attrs sel a n Hwf Hs) in H0.
    inversion H0; subst ld0. clear H0.
    exists (filtered tok_float tok_int pdg_valid f d fmt attrs a n).
    split; [apply load_sel_some; assumption|].
    unfold sliced in R |- *. cbn [l_events] in R |- *.
    rewrite (file_loader_kept view apply f _ R).
    unfold filtered. cbn [l_events l_counts l_nevents l_format l_attrs l_footers].
    destruct (sel_span_bounds _ _ _ _ Hs) as (_ & Hf). rewrite Hf.
    set (K := kept f _).
    repeat split.
    - rewrite relab_snd, map_map. destruct K; reflexivity.
    - unfold consecutive. rewrite relab_fst_seq, relab_length. reflexivity.
    - rewrite relab_length, map_length. reflexivity.
  Qed.

End Oscar.

(* ------------------------------------------------------------------ JETSCAPE *)
Section Jet.
  Variable tok_float : string -> option Q.
  Variable tok_int : string -> option Q.
  Variable pdg_valid : Q -> bool.
  Variable pdg_charge : Q -> Q.
  Variable usqrt : Q -> Q.
  Variable defstr : string.
  Variable view : particle -> pobs.
  Notation V := (map (map view)).
  Notation JWF := (jwf tok_float tok_int pdg_valid pdg_charge usqrt defstr).
  Notation JLOAD := (jload tok_float tok_int pdg_valid pdg_charge usqrt).

  Theorem bridge_jetscape apply f d s1 s2 sel ld0 :
    JWF d s1 s2 -> sel_in_range sel (length (jd_events d)) ->
    JLOAD None (jrender d) defstr sel = Oscar.Ok ld0 ->
    realises view apply f (j_events ld0) ->
    exists ld, JLOAD (Some f) (jrender d) defstr sel = Oscar.Ok ld /\
      file_loader apply (V (j_events ld0)) = PyRt.Ok (V (j_events ld), map snd (j_counts ld)) /\
      consecutive (sel_first sel + 1) (j_counts ld) /\
      j_nevents ld = Z.of_nat (length (j_counts ld)) /\
      j_sigma ld = j_sigma ld0.
  Proof.
    intros Hwf Hr H0 R. destruct (sel_in_range_span _ _ Hr) as (a & n & Hs).
    rewrite (jload_sel_none tok_float tok_int pdg_valid pdg_charge usqrt defstr d s1 s2 sel a n Hwf Hs) in H0.
    inversion H0; subst ld0. clear H0.
    exists (jfiltered tok_float tok_int pdg_valid pdg_charge usqrt f d s1 s2 a n).
    split; [apply jload_sel_some; assumption|].
    unfold jsliced in R |- *. cbn [j_events] in R |- *.
    rewrite (file_loader_kept view apply f _ R).
    unfold jfiltered. cbn [j_events j_counts j_nevents j_sigma].
    destruct (sel_span_bounds _ _ _ _ Hs) as (_ & Hf). rewrite Hf.
    set (K := kept f _).
    repeat split.
    - rewrite relab_snd, map_map. destruct K; reflexivity.
    - unfold consecutive. rewrite relab_fst_seq, relab_length. reflexivity.
    - rewrite relab_length, map_length. reflexivity.
  Qed.

End Jet.

(* ------------------------------------------------------------------ particle objects *)
(* the exception classes of Model/PyRt.v read in Lib/Py.v (the classes Py.v does not name are "other") *)
Definition py_exn (e : PyRt.exn) : Py.errcls :=
  match e with
  | PyRt.TypeError => Py.TypeError | PyRt.ValueError => Py.ValueError | PyRt.IndexError => Py.IndexError
  | PyRt.KeyError => Py.KeyError | PyRt.AttributeError => Py.AttributeError
  | PyRt.ZeroDivisionError => Py.ZeroDivisionError
  | _ => Py.OtherError
  end.
Definition to_py {A} (r : PyRt.result A) : Py.result A :=
  match r with PyRt.Ok a => Py.Ok a | PyRt.Err e => Py.Err (py_exn e) end.

(* the chain applied to one event, as the [flt] parameter of Model/PObj.v (it may raise) *)
Definition pobj_flt (apply : list (list pobs) -> PyRt.result (list (list pobs))) : list pobs -> Py.result (list pobs) :=
  fun e => to_py (apply_one apply e).

Lemma mapr_to_py {A B} (g : A -> PyRt.result B) l : mapr (fun e => to_py (g e)) l = to_py (mapM g l).
Proof.
  induction l as [|x t IH]; [reflexivity|]. cbn [mapr mapM]. destruct (g x) as [y|e]; cbn [to_py rbind PyRt.bind]; [|reflexivity].
  rewrite IH. destruct (mapM g t) as [ys|e]; reflexivity.
Qed.

(* for EVERY selector (valid or not), event list and chain: the observed state of pload with the chain as per-event
   filter is the constructor path of CtorFilters.v on the events that pload selects without a filter - the same
   events in the same order, the count column, labels from the first selected position; the same exception class
   when the selector is rejected or the chain raises on an event *)
Theorem bridge_pobj apply s evs :
  match pload pobs None s evs with
  | Py.Err e => pload pobs (Some (pobj_flt apply)) s evs = Py.Err e
  | Py.Ok st0 =>
    match pobj_loader apply (p_events pobs st0) with
    | PyRt.Err e => pload pobs (Some (pobj_flt apply)) s evs = Py.Err (py_exn e)
    | PyRt.Ok (ctor, cnts) =>
      exists st, pload pobs (Some (pobj_flt apply)) s evs = Py.Ok st /\
        p_events pobs st = ctor /\ map snd (p_counts pobs st) = cnts /\
        consecutive (pfirst s) (p_counts pobs st) /\
        p_nevents pobs st = Z.of_nat (length ctor)
    end
  end.
Proof.
  unfold pload. destruct (pvalidate s) as [u|e]; cbn [rbind]; [|reflexivity].
  destruct (pselect pobs s evs) as [sel|e]; cbn [rbind p_events]; [|reflexivity].
  unfold pobj_flt, pobj_loader. rewrite mapr_to_py.
  destruct (mapM (apply_one apply) sel) as [held|e]; cbn [to_py rbind PyRt.bind]; [|reflexivity].
  eexists. split; [reflexivity|]. cbn [p_events p_counts p_nevents]. repeat split.
  - apply label_from_sizes.
  - unfold consecutive. generalize (pfirst s) as z. induction held as [|h t IH]; intros z; [reflexivity|].
    cbn [label_from map fst length seq]. f_equal; [lia|].
    rewrite IH, <- seq_shift, map_map. apply map_ext. intros i. lia.
Qed.

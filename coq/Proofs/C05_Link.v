(* C05: every documented filter call, made through the filter-method table of a class, is one of the abstract
   operations (by the C03 theorems); hence the constructor path and the method path of the generated code are
   the abstract loader / abstract chain. *)
From Coq Require Import List ZArith QArith Bool String Lia.
From SX Require Import Model.PyRt Model.FilterSpec Model.CtorFilters Lib.PyRtLemmas Lib.FilterTac
  Gen.GenFilters Gen.GenDispatch
  Proofs.C03_Args Proofs.C03_Class Proofs.C03_Window Proofs.C03_Event Proofs.C05_Tables Proofs.C05_Abstract.
Import ListNotations.
Local Notation length := List.length.

(* ---- observations *)
Lemma obs_total_no_raise accs evs : obs_total evs -> no_raise accs evs.
Proof. intros H ev p a He Hp _. destruct (H ev p He Hp) as [T _]. apply T. Qed.
Lemma obs_total_pdg evs : obs_total evs -> int_or_nan A_pdg evs.
Proof.
  intros H ev p He Hp. destruct (H ev p He Hp) as [T [N1 N2]]. destruct (T A_pdg) as [v E].
  exists v. split; [exact E|]. split; intros ->; congruence.
Qed.

Lemma obs_total_run_op o evs : obs_total evs -> obs_total (run_op o evs).
Proof.
  intros H ev p He Hp. destruct o as [f|k|]; cbn [run_op] in He.
  - unfold particle_level in He. apply in_map_iff in He. destruct He as [e [<- He]].
    apply filter_In in Hp. destruct Hp as [Hp _]. exact (H e p He Hp).
  - unfold event_level in He. destruct (filter k evs) eqn:E.
    + destruct He as [<-|[]]. destruct Hp.
    + rewrite <- E in He. apply filter_In in He. destruct He as [He _]. exact (H ev p He Hp).
  - exact (H ev p He Hp).
Qed.
Lemma obs_total_single evs e : obs_total evs -> In e evs -> obs_total [e].
Proof. intros H He ev p [<-|[]] Hp. exact (H e p He Hp). Qed.

(* ---- one documented call through the BaseStorer method table *)
Ltac use_c03 H :=
  first
  [ rewrite charged_particles_ok by (apply obs_total_no_raise; exact H)
  | rewrite uncharged_particles_ok by (apply obs_total_no_raise; exact H)
  | rewrite participants_ok by (apply obs_total_no_raise; exact H)
  | rewrite spectators_ok by (apply obs_total_no_raise; exact H)
  | rewrite keep_hadrons_ok by (apply obs_total_no_raise; exact H)
  | rewrite keep_leptons_ok by (apply obs_total_no_raise; exact H)
  | rewrite keep_quarks_ok by (apply obs_total_no_raise; exact H)
  | rewrite keep_mesons_ok by (apply obs_total_no_raise; exact H)
  | rewrite keep_baryons_ok by (apply obs_total_no_raise; exact H)
  | rewrite keep_up_ok by (apply obs_total_no_raise; exact H)
  | rewrite keep_down_ok by (apply obs_total_no_raise; exact H)
  | rewrite keep_strange_ok by (apply obs_total_no_raise; exact H)
  | rewrite keep_charm_ok by (apply obs_total_no_raise; exact H)
  | rewrite keep_bottom_ok by (apply obs_total_no_raise; exact H)
  | rewrite keep_top_ok by (apply obs_total_no_raise; exact H) ].

Theorem entry_op_Base c evs : admissible c -> obs_total evs ->
  entry gen_arity_Base gen_method_Base (call_key c) (call_val c) evs = Ok (run_op (call_op c) evs).
Proof.
  intros A H. destruct c; cbn [admissible] in A.
  - (* switches *)
    unfold switch_table in A. cbn [In] in A.
    repeat (destruct A as [A|A]; [injection A as <- <- <-; destruct on; cbn; [use_c03 H|]; reflexivity|]).
    contradiction.
  - destruct on; cbn; [rewrite remove_photons_ok by (apply obs_total_pdg; exact H)|]; reflexivity.
  - destruct A as [A1 A2]. cbn. rewrite particle_species_ok by (auto using obs_total_pdg). reflexivity.
  - destruct A as [A1 A2]. cbn. rewrite remove_particle_species_ok by (auto using obs_total_pdg). reflexivity.
  - destruct A as [A1 A2]. cbn. rewrite particle_status_ok by (auto using obs_total_no_raise). reflexivity.
  - destruct A as [A1 [A2 A3]]. cbn -[v_pair]. rewrite pT_cut_ok by (auto using obs_total_no_raise). reflexivity.
  - destruct A as [A1 [A2 A3]]. cbn -[v_pair]. rewrite mT_cut_ok by (auto using obs_total_no_raise). reflexivity.
  - cbn -[v_pair v_dim]. rewrite spacetime_cut_ok by (auto using obs_total_no_raise). reflexivity.
  - unfold rap_table in A. cbn [In] in A.
    repeat (destruct A as [A|A]; [injection A as <- <-; cbn -[v_pair];
      first [ rewrite rapidity_cut_ok by (apply obs_total_no_raise; exact H)
            | rewrite pseudorapidity_cut_ok by (apply obs_total_no_raise; exact H)
            | rewrite spacetime_rapidity_cut_ok by (apply obs_total_no_raise; exact H) ]; reflexivity|]).
    contradiction.
  - unfold rap_table in A. cbn [In] in A.
    repeat (destruct A as [A|A]; [injection A as <- <-; cbn -[v_num];
      first [ rewrite rapidity_cut_sym_ok by (apply obs_total_no_raise; exact H)
            | rewrite pseudorapidity_cut_sym_ok by (apply obs_total_no_raise; exact H)
            | rewrite spacetime_rapidity_cut_sym_ok by (apply obs_total_no_raise; exact H) ]; reflexivity|]).
    contradiction.
  - cbn -[v_num]. rewrite lower_event_energy_cut_ok by (auto using obs_total_no_raise). reflexivity.
  - destruct A as [A1 [A2 A3]]. cbn -[v_pair]. rewrite multiplicity_cut_ok by auto. reflexivity.
Qed.

(* ---- the class tables: a filter method the class has is BaseStorer's *)
Definition table_from_base (arity : string -> option nat)
           (method : string -> list pyv -> list (list pobs) -> result (list (list pobs))) : Prop :=
  forall k, arity k <> None ->
    arity k = gen_arity_Base k /\ forall args pl, method k args pl = gen_method_Base k args pl.

Lemma table_Oscar : table_from_base gen_arity_Oscar gen_method_Oscar.
Proof.
  intros k. unfold gen_arity_Oscar, gen_method_Oscar.
  repeat match goal with |- context [String.eqb k ?l] => destruct (String.eqb k l) end;
    intros H; try (exfalso; apply H; reflexivity); split; reflexivity.
Qed.
Lemma table_Jetscape : table_from_base gen_arity_Jetscape gen_method_Jetscape.
Proof.
  intros k. unfold gen_arity_Jetscape, gen_method_Jetscape.
  repeat match goal with |- context [String.eqb k ?l] => destruct (String.eqb k l) end;
    intros H; try (exfalso; apply H; reflexivity); split; reflexivity.
Qed.
Lemma table_PObj : table_from_base gen_arity_PObj gen_method_PObj.
Proof.
  intros k. unfold gen_arity_PObj, gen_method_PObj.
  repeat match goal with
         | |- context [String.eqb k ?l] =>
             let E := fresh "E" in destruct (String.eqb k l) eqn:E; [apply String.eqb_eq in E; subst k|]
         end;
    intros H; try (exfalso; apply H; reflexivity); split; intros; reflexivity.
Qed.

Section Class.
  Variable arity : string -> option nat.
  Variable method : string -> list pyv -> list (list pobs) -> result (list (list pobs)).
  Hypothesis T : table_from_base arity method.

  Definition available (c : fcall) : Prop := arity (call_key c) <> None.

  Lemma entry_op c evs : admissible c -> available c -> obs_total evs ->
    entry arity method (call_key c) (call_val c) evs = Ok (run_op (call_op c) evs).
  Proof.
    intros A Av H. rewrite <- (entry_op_Base c evs A H).
    destruct (T (call_key c) Av) as [Ea Em]. unfold entry. rewrite Ea.
    destruct (gen_arity_Base (call_key c)) as [[|[|n]]|]; try reflexivity.
    - destruct (py_truthy (call_val c)) as [[|]|]; cbn; try reflexivity. apply Em.
    - apply Em.
    - destruct (call_val c); try reflexivity. destruct l as [|a [|b t]]; try reflexivity. apply Em.
  Qed.

  Lemma method_call_entry k v pl : arity k <> None -> method_call arity method k v pl = entry arity method k v pl.
  Proof. intros H. unfold method_call, entry. destruct (arity k); [reflexivity|congruence]. Qed.

  (* the whole dictionary, both ways *)
  Lemma ctor_spec_ops cs : forall evs, Forall admissible cs -> Forall available cs -> obs_total evs ->
    ctor_spec arity method (dict_of cs) evs = Ok (run_ops (map call_op cs) evs).
  Proof.
    induction cs as [|c t IH]; intros evs A Av H; [reflexivity|].
    inversion A; inversion Av; subst. cbn [dict_of map ctor_spec fold_leftM fst snd].
    rewrite entry_op by assumption. cbn [bind]. apply IH; auto using obs_total_run_op.
  Qed.

  Lemma method_path_ops cs : forall evs, Forall admissible cs -> Forall available cs -> obs_total evs ->
    method_path arity method (dict_of cs) evs = Ok (run_ops (map call_op cs) evs).
  Proof.
    induction cs as [|c t IH]; intros evs A Av H; [reflexivity|].
    inversion A as [|? ? A1 A2]; inversion Av as [|? ? V1 V2]; subst.
    cbn [dict_of map method_path fold_leftM fst snd].
    rewrite method_call_entry by exact V1. rewrite entry_op by assumption. cbn [bind].
    apply IH; auto using obs_total_run_op.
  Qed.

  (* the loaders' loops around a dispatch function that meets the contract *)
  Variable apply : list (list pobs) -> pyv -> result (list (list pobs)).
  Hypothesis apply_spec : forall d ev, NoDup (map fst d) -> spacetime_ok d ->
    apply ev (VDict d) = ctor_spec arity method d ev.

  Lemma dict_spacetime_ok cs : Forall admissible cs -> spacetime_ok (dict_of cs).
  Proof.
    intros A v. induction cs as [|c t IH]; cbn [dict_of map lookup]; [discriminate|].
    inversion A as [|? ? A1 A2]; subst.
    destruct (String.eqb "spacetime_cut" (call_key c)) eqn:E; [|exact (IH A2)].
    intros Hv. injection Hv as <-. apply String.eqb_eq in E.
    destruct c; cbn in E |- *; try discriminate E.
    - exfalso. subst name. cbn in A1. unfold switch_table in A1. cbn [In] in A1.
      repeat (destruct A1 as [A1|A1]; [discriminate A1|]). contradiction.
    - eexists _, _, _. reflexivity.
    - exfalso. subst name. cbn in A1. unfold rap_table in A1. cbn [In] in A1.
      repeat (destruct A1 as [A1|A1]; [discriminate A1|]). contradiction.
    - exfalso. subst name. cbn in A1. unfold rap_table in A1. cbn [In] in A1.
      repeat (destruct A1 as [A1|A1]; [discriminate A1|]). contradiction.
  Qed.

  Definition keys_distinct (cs : list fcall) : Prop := NoDup (map call_key cs).
  Lemma dict_keys cs : map fst (dict_of cs) = map call_key cs.
  Proof. unfold dict_of. rewrite map_map. reflexivity. Qed.

  Lemma apply_ops cs evs : Forall admissible cs -> Forall available cs -> keys_distinct cs -> obs_total evs ->
    apply evs (VDict (dict_of cs)) = Ok (run_ops (map call_op cs) evs).
  Proof.
    intros A Av N H. rewrite apply_spec; [apply ctor_spec_ops; assumption| |apply dict_spacetime_ok; exact A].
    rewrite dict_keys. exact N.
  Qed.

  Lemma apply_one_ops cs evs e : Forall admissible cs -> Forall available cs -> keys_distinct cs ->
    obs_total evs -> In e evs ->
    apply_one (fun ev => apply ev (VDict (dict_of cs))) e = Ok (abs_event (map call_op cs) e).
  Proof.
    intros A Av N H He. unfold apply_one, abs_event.
    rewrite (apply_ops cs [e]) by (eauto using obs_total_single). cbn [bind].
    destruct (run_ops_single (map call_op cs) e) as [e' ->]. apply seq_get_0.
  Qed.

  (* ParticleObjectLoader *)
  Theorem pobj_loader_ops cs evs : Forall admissible cs -> Forall available cs -> keys_distinct cs -> obs_total evs ->
    pobj_loader (fun ev => apply ev (VDict (dict_of cs))) evs
    = Ok (abs_pobj_loader (map call_op cs) evs,
          map (fun e => Z.of_nat (length e)) (abs_pobj_loader (map call_op cs) evs)).
  Proof.
    intros A Av N H. unfold pobj_loader, abs_pobj_loader.
    rewrite (mapM_ok _ (abs_event (map call_op cs))); [reflexivity|].
    intros e He. apply (apply_one_ops cs evs); assumption.
  Qed.

  (* OscarLoader / JetscapeLoader: the kept events and the count column *)
  Definition kept_events (ops : list fop) (evs : list (list pobs)) : list (list pobs) :=
    flat_map (fun data => let d := abs_event ops data in
                          if negb (is_nil d) || is_nil data then [d] else []) evs.

  Lemma set_nth_app {A} (l1 l2 : list A) x y : set_nth (length l1) y (l1 ++ x :: l2) = l1 ++ y :: l2.
  Proof.
    unfold set_nth. rewrite firstn_app, firstn_all, Nat.sub_diag. cbn [firstn]. rewrite app_nil_r.
    rewrite skipn_app. rewrite skipn_all2 by lia.
    replace (S (length l1) - length l1)%nat with 1%nat by lia. reflexivity.
  Qed.
  Lemma remove_nth_app {A} (l1 l2 : list A) x : remove_nth (length l1) (l1 ++ x :: l2) = l1 ++ l2.
  Proof.
    unfold remove_nth. rewrite firstn_app, firstn_all, Nat.sub_diag. cbn [firstn]. rewrite app_nil_r.
    rewrite skipn_app. rewrite skipn_all2 by lia.
    replace (S (length l1) - length l1)%nat with 1%nat by lia. reflexivity.
  Qed.

  Theorem file_loader_ops cs evs : Forall admissible cs -> Forall available cs -> keys_distinct cs -> obs_total evs ->
    let ops := map call_op cs in
    file_loader (fun ev => apply ev (VDict (dict_of cs))) evs
    = Ok (abs_file_loader ops evs, map (fun e => Z.of_nat (length e)) (kept_events ops evs)).
  Proof.
    intros A Av N H ops. unfold file_loader.
    set (len := fun e : list pobs => Z.of_nat (length e)).
    assert (G : forall rest pl, (forall e, In e rest -> In e evs) ->
              fold_leftM (file_event_end (fun ev => apply ev (VDict (dict_of cs)))) rest (pl, map len pl ++ map len rest)
              = Ok (pl ++ kept_events ops rest, map len (pl ++ kept_events ops rest))).
    { induction rest as [|data rest IH]; intros pl Hin.
      - cbn. rewrite !app_nil_r. reflexivity.
      - cbn [fold_leftM map]. unfold file_event_end at 1.
        rewrite (apply_one_ops cs evs) by (auto; apply Hin; left; reflexivity). cbn [bind fst snd].
        fold ops. unfold kept_events. cbn [flat_map]. fold (kept_events ops rest).
        replace (length pl) with (length (map len pl)) by apply map_length.
        assert (Eq : forall l : list pobs, Nat.eqb (length l) 0 = is_nil l) by (intros [|? ?]; reflexivity).
        rewrite !Eq. cbn zeta.
        destruct (negb (is_nil (abs_event ops data)) || is_nil data) eqn:K; cbn [bind].
        + rewrite set_nth_app.
          specialize (IH (pl ++ [abs_event ops data]) (fun e He => Hin e (or_intror He))).
          rewrite map_app in IH. cbn [map] in IH. rewrite <- app_assoc in IH. cbn [app] in IH.
          unfold len in IH |- *. cbn beta in IH. rewrite IH. rewrite <- !app_assoc. reflexivity.
        + rewrite remove_nth_app. rewrite (IH pl (fun e He => Hin e (or_intror He))). reflexivity. }
    specialize (G evs [] (fun e He => He)). cbn [map app] in G. rewrite G. cbn [bind fst snd app].
    reflexivity.
  Qed.
End Class.

(* C01: every column value lands in its documented slot with its documented cast.
   The tables are regenerated from Particle.py / OscarLoader.py on every run; the documented
   layout below is written by hand from the format documentation. *)
From Coq Require Import List String ZArith QArith Bool Arith Lia.
From SX Require Import Lib.Strs Gen.GenParticleMap Model.Oscar.
Import ListNotations.
Local Open Scope string_scope.

(* documented data layout: attribute -> slot of the particle record *)
Definition doc_slots : list (string * nat) :=
  [("t",0); ("x",1); ("y",2); ("z",3); ("mass",4); ("E",5); ("px",6); ("py",7); ("pz",8); ("pdg",9);
   ("ID",11); ("charge",12); ("ncoll",13); ("form_time",14); ("xsecfac",15); ("proc_id_origin",16);
   ("proc_type_origin",17); ("t_last_coll",18); ("pdg_mother1",19); ("pdg_mother2",20); ("status",21);
   ("baryon_number",22); ("strangeness",23); ("weight",24)]%nat.
(* documented real-valued attributes; every other column is an integer *)
Definition doc_reals : list string :=
  ["t"; "x"; "y"; "z"; "mass"; "E"; "px"; "py"; "pz"; "form_time"; "xsecfac"; "t_last_coll"; "weight"].
(* documented column order of the fixed formats (attribute names) *)
Definition doc_cols_2013 : list string :=
  ["t"; "x"; "y"; "z"; "mass"; "E"; "px"; "py"; "pz"; "pdg"; "ID"; "charge"].
Definition doc_cols_ext : list string :=
  (doc_cols_2013 ++ ["ncoll"; "form_time"; "xsecfac"; "proc_id_origin"; "proc_type_origin"; "t_last_coll";
                     "pdg_mother1"; "pdg_mother2"; "baryon_number"; "strangeness"])%list.
(* documented header name -> attribute *)
Definition doc_header_names : list (string * string) :=
  [("t","t"); ("x","x"); ("y","y"); ("z","z"); ("mass","mass"); ("p0","E"); ("px","px"); ("py","py");
   ("pz","pz"); ("pdg","pdg"); ("ID","ID"); ("charge","charge"); ("ncoll","ncoll"); ("form_time","form_time");
   ("xsecfac","xsecfac"); ("proc_id_origin","proc_id_origin"); ("proc_type_origin","proc_type_origin");
   ("time_last_coll","t_last_coll"); ("pdg_mother1","pdg_mother1"); ("pdg_mother2","pdg_mother2");
   ("baryon_number","baryon_number"); ("strangeness","strangeness")].

Fixpoint enum_from {A} (i : nat) (l : list A) : list (A * nat) :=
  match l with [] => [] | x :: t => (x, i) :: enum_from (S i) t end.

Definition slot_of (a : string) : nat := match assoc a doc_slots with Some s => s | None => 0%nat end.
Definition doc_mapping (suffix : string) (cols : list string) : list (string * (nat * nat)) :=
  map (fun ai => (fst ai ++ suffix, (slot_of (fst ai), snd ai))) (enum_from 0 cols).

Lemma colmap_2013 : assoc "Oscar2013" gen_mapping = Some (doc_mapping "_" doc_cols_2013).
Proof. vm_compute. reflexivity. Qed.
Lemma colmap_ext : assoc "Oscar2013Extended" gen_mapping = Some (doc_mapping "_" doc_cols_ext).
Proof. vm_compute. reflexivity. Qed.
(* the ASCII table offers every documented attribute (except weight) at its documented slot *)
Definition allfields := match assoc "Allfields" gen_mapping with Some m => m | None => [] end.
Lemma colmap_ascii :
  forallb (fun a => match assoc a allfields with Some sc => (fst sc =? slot_of a)%nat | None => false end)
          (map snd doc_header_names) = true.
Proof. vm_compute. reflexivity. Qed.
Lemma header_names : gen_attr_map = doc_header_names.
Proof. vm_compute. reflexivity. Qed.
(* casts: the real-valued attributes are exactly the documented ones *)
Lemma casts_real : gen_float_fields = map (fun a => a ++ "_") doc_reals.
Proof. vm_compute. reflexivity. Qed.
Lemma casts_int_listed :
  forallb (fun a => negb (mem_str (a ++ "_") gen_float_fields)) gen_int_fields = true.
Proof. vm_compute. reflexivity. Qed.

Section Fill.
  Variable tok_float : string -> option Q.
  Variable tok_int : string -> option Q.
  Variable pdg_valid : Q -> bool.
  Notation FILL := (fill tok_float tok_int).
  Notation CAST := (cast tok_float tok_int).

  Lemma get_set_same i v : forall p, (i < List.length p)%nat -> get_slot i (set_slot i v p) = v.
  Proof.
    unfold get_slot. induction i as [|i IH]; intros [|x p] H; cbn in *; try lia; [reflexivity|].
    apply IH; lia.
  Qed.
  Lemma get_set_other i j v : forall p, i <> j -> get_slot j (set_slot i v p) = get_slot j p.
  Proof.
    unfold get_slot. revert j. induction i as [|i IH]; intros j [|x p] H; cbn; try reflexivity.
    - destruct j; [congruence|reflexivity].
    - destruct j; [reflexivity|]. apply IH; congruence.
  Qed.
  Lemma set_slot_length i v : forall p, List.length (set_slot i v p) = List.length p.
  Proof. induction i as [|i IH]; intros [|x p]; cbn; try reflexivity. now rewrite IH. Qed.

  (* slots written by a mapping: the value under each listed column; everything else untouched *)
  Lemma fill_spec ascii : forall m toks p p',
    FILL ascii m toks p = Ok p' ->
    NoDup (map (fun e => fst (snd e)) m) ->
    List.length p = 25%nat ->
    Forall (fun e => (fst (snd e) < 25)%nat) m ->
    (forall a s c, In (a, (s, c)) m -> (c < List.length toks)%nat ->
        get_slot s p' = CAST (if ascii then a ++ "_" else a) (nth c toks "")) /\
    (forall s, ~ In s (map (fun e => fst (snd e)) (filter (fun e => snd (snd e) <? List.length toks)%nat m)) ->
        get_slot s p' = get_slot s p) /\
    List.length p' = 25%nat.
  Proof.
    induction m as [|[a [s c]] m IH]; intros toks p p' H Hnd Hlen Hlt.
    - cbn in H. inversion H; subst. repeat split; [intros ? ? ? []|].  exact Hlen.
    - cbn [fill] in H. inversion Hnd as [|? ? Hnotin Hnd']; subst. inversion Hlt as [|? ? Hs Hlt']; subst.
      cbn [fst snd] in *.
      destruct (List.length toks <=? c)%nat eqn:Ec.
      + destruct (IH toks p p' H Hnd' Hlen Hlt') as (A & B & L). repeat split; [| |exact L].
        * intros a' s' c' [E|Hin] Hc; [inversion E; subst; apply Nat.leb_le in Ec; lia|]. eapply A; eauto.
        * intros s' Hs'. apply B. cbn [filter] in Hs'. cbn [fst snd] in Hs'.
          replace (c <? List.length toks)%nat with false in Hs' by (symmetry; apply Nat.ltb_ge, Nat.leb_le, Ec).
          exact Hs'.
      + destruct (CAST (if ascii then a ++ "_" else a) (nth c toks "")) as [v|] eqn:Ev; [|discriminate].
        destruct (IH toks _ p' H Hnd' ltac:(rewrite set_slot_length; exact Hlen) Hlt') as (A & B & L).
        repeat split; [| |exact L].
        * intros a' s' c' [E|Hin] Hc.
          -- inversion E; subst. rewrite B.
             ++ rewrite get_set_same by lia. symmetry; exact Ev.
             ++ intros Hin. apply Hnotin. apply in_map_iff in Hin. destruct Hin as (e & He & Hf).
                apply filter_In in Hf. apply in_map_iff. exists e. split; [exact He|apply Hf].
          -- eapply A; eauto.
        * intros s' Hs'. rewrite B.
          -- apply get_set_other. intros ->. apply Hs'. cbn [filter fst snd].
             replace (c <? List.length toks)%nat with true by (symmetry; apply Nat.ltb_lt; apply Nat.leb_gt in Ec; lia).
             left; reflexivity.
          -- intros Hin. apply Hs'. cbn [filter fst snd].
             destruct (c <? List.length toks)%nat; [right|]; exact Hin.
  Qed.
End Fill.

(* C16 source tie: the hand model Model/Smear.v (and the addressing functions of Model/Lattice.v it relies on) equals
   the smearing methods of Lattice3D.py as regenerated into Gen/GenSmear.v on every run (tools/py2coq/gen_smear.py,
   runtime Model/SmearRt.v).  One theorem per translated method. *)
From Coq Require Import List ZArith QArith Qabs Qround Bool String Lia Lqa Ring Field Ring_theory Field_theory FinFun.
From SX Require Import Lib.KRing Lib.Py Lib.QCheck Gen.GenLattice Model.Lattice Model.Smear Model.SmearRt Gen.GenSmear Proofs.C16_Smear.
Import ListNotations.

(* a loop whose steps all succeed is a fold_left *)
Lemma foldM_pure {S A} (I : S -> Prop) (f : S -> A -> result S) (g : S -> A -> S) l :
  (forall s a, I s -> In a l -> f s a = Ok (g s a) /\ I (g s a)) ->
  forall s, I s -> foldM f l s = Ok (fold_left g l s) /\ I (fold_left g l s).
Proof.
  induction l as [|a t IH]; intros H s Hs; [now split|]. simpl.
  destruct (H s a Hs (or_introl eq_refl)) as [E Hs']. rewrite E. apply IH; [|exact Hs'].
  intros s' b Hs'' Hb. apply H; [exact Hs''|now right].
Qed.

Lemma py_range_zrange n : py_range n = zrange n.
Proof. reflexivity. Qed.
Lemma ndindex_cells s : np_ndindex s = cells s.
Proof. reflexivity. Qed.
Lemma idx_eqb_eq3 p q : idx_eqb p q = eq3 p q.
Proof. reflexivity. Qed.

Lemma in_py_range i n : In i (py_range n) <-> (0 <= i < n)%Z.
Proof.
  unfold py_range. rewrite in_map_iff. split.
  - intros [k [<- Hk]]. apply in_seq in Hk. lia.
  - intros H. exists (Z.to_nat i). split; [lia|]. apply in_seq. lia.
Qed.
Lemma in_ndindex p s : In p (np_ndindex s) <-> inside s p = true.
Proof.
  destruct s as [[a b] c], p as [[i j] k]. unfold np_ndindex, inside, in1.
  rewrite in_flat_map. rewrite !andb_true_iff, !Z.leb_le, !Z.ltb_lt. split.
  - intros [i' [Hi H]]. apply in_flat_map in H. destruct H as [j' [Hj H]]. apply in_map_iff in H.
    destruct H as [k' [E Hk]]. inversion E; subst. apply in_py_range in Hi, Hj, Hk. lia.
  - intros H. exists i. split; [apply in_py_range; lia|]. apply in_flat_map. exists j. split; [apply in_py_range; lia|].
    apply in_map_iff. exists k. split; [reflexivity|apply in_py_range; lia].
Qed.

Lemma NoDup_py_range n : NoDup (py_range n).
Proof.
  unfold py_range. apply FinFun.Injective_map_NoDup; [|apply seq_NoDup]. intros x y H. lia.
Qed.
Lemma NoDup_flat_map {A B} (f : A -> list B) l :
  NoDup l -> (forall a, In a l -> NoDup (f a)) -> (forall a a' b, In a l -> In a' l -> In b (f a) -> In b (f a') -> a = a') ->
  NoDup (flat_map f l).
Proof.
  induction l as [|a t IH]; intros Hl Hf Hd; [constructor|]. simpl. inversion Hl as [|? ? Hn Ht]; subst.
  assert (App : forall (l1 l2 : list B), NoDup l1 -> NoDup l2 -> (forall b, In b l1 -> In b l2 -> False) -> NoDup (l1 ++ l2)).
  { induction l1 as [|x l1 IH1]; intros l2 H1 H2 Hx; [exact H2|]. simpl. inversion H1; subst. constructor.
    - rewrite in_app_iff. intros [H|H]; [contradiction|]. apply (Hx x); [now left|exact H].
    - apply IH1; try assumption. intros b Hb Hb2. apply (Hx b); [now right|exact Hb2]. }
  apply App.
  - apply Hf. now left.
  - apply IH; [exact Ht| |].
    + intros a' Ha'. apply Hf. now right.
    + intros a1 a2 b H1 H2. apply Hd; now right.
  - intros b Hb Hb'. apply in_flat_map in Hb'. destruct Hb' as [a' [Ha' Hb']].
    assert (a = a') by (apply (Hd a a' b); [now left|now right|assumption|assumption]). subst. contradiction.
Qed.
Lemma NoDup_ndindex s : NoDup (np_ndindex s).
Proof.
  destruct s as [[a b] c]. unfold np_ndindex. apply NoDup_flat_map; [apply NoDup_py_range| |].
  - intros i _. apply NoDup_flat_map; [apply NoDup_py_range| |].
    + intros j _. apply FinFun.Injective_map_NoDup; [|apply NoDup_py_range]. intros x y H. now inversion H.
    + intros j j' p _ _ H1 H2. apply in_map_iff in H1, H2. destruct H1 as [k [<- _]], H2 as [k' [E _]]. now inversion E.
  - intros i i' p _ _ H1 H2. apply in_flat_map in H1, H2. destruct H1 as [j [_ H1]], H2 as [j' [_ H2]].
    apply in_map_iff in H1, H2. destruct H1 as [k [<- _]], H2 as [k' [E _]]. now inversion E.
Qed.

Lemma eq3_iff p q : eq3 p q = true <-> p = q.
Proof.
  destruct p as [[a b] c], q as [[d e] f]. simpl. rewrite !andb_true_iff, !Z.eqb_eq. split.
  - intros [[-> ->] ->]. reflexivity.
  - intros E. inversion E. auto.
Qed.
Lemma eq3_same p : eq3 p p = true.
Proof. now apply eq3_iff. Qed.

(* ---- numpy primitives of the runtime against the list functions of Model/Lattice.v ------------------------------- *)
Lemma Qle_bool_comp a a' b b' : a == a' -> b == b' -> Qle_bool a b = Qle_bool a' b'.
Proof. intros H1 H2. apply eq_true_iff_eq. rewrite !Qle_bool_iff, H1, H2. tauto. Qed.

Lemma pyget_0 {A} (a : A) t : pyget (a :: t) 0 = Ok a.
Proof. reflexivity. Qed.
Lemma nth_error_last {A} (l : list A) d : l <> [] -> nth_error l (List.length l - 1) = Some (last l d).
Proof.
  induction l as [|x [|y r] IH]; intros H; [contradiction|reflexivity|].
  specialize (IH ltac:(discriminate)).
  replace (List.length (x :: y :: r) - 1)%nat with (S (List.length r)) by (cbn [List.length]; lia).
  replace (List.length (y :: r) - 1)%nat with (List.length r) in IH by (cbn [List.length]; lia).
  change (nth_error (x :: y :: r) (S (List.length r))) with (nth_error (y :: r) (List.length r)). rewrite IH. reflexivity.
Qed.
Lemma pyget_last {A} (a : A) t : pyget (a :: t) (-1) = Ok (last (a :: t) a).
Proof.
  unfold pyget. cbn [Z.ltb Z.compare]. set (l := a :: t).
  assert (L : (Z.of_nat (List.length l) + -1 <? 0)%Z = false) by (apply Z.ltb_ge; subst l; cbn [List.length]; lia).
  rewrite L. replace (Z.to_nat (Z.of_nat (List.length l) + -1)) with (List.length l - 1)%nat by lia.
  rewrite (nth_error_last l a) by (subst l; discriminate). reflexivity.
Qed.
Lemma pyget_nonneg {A} (l : list A) i : (0 <= i)%Z ->
  pyget l i = match nth_error l (Z.to_nat i) with Some a => Ok a | None => Err IndexError end.
Proof.
  intros H. unfold pyget. assert (E : (i <? 0)%Z = false) by (apply Z.ltb_ge; lia). rewrite E, E. reflexivity.
Qed.

(* argmin over finite distances: the runtime's argmin on [fv] is Lattice.v's argmin on Q when the entries agree as
   rationals *)
Lemma argmin_go_fin : forall (ds : list Q) (fs : list fv) b i bd bq,
  Forall2 (fun d f => exists q, f = Fin q /\ q == d) ds fs -> bq == bd ->
  argmin_go (Z.of_nat b) (Fin bq) (Z.of_nat i) fs = Z.of_nat (argmin_from b bd i ds).
Proof.
  induction ds as [|d t IH]; intros fs b i bd bq H Hb; inversion H as [|? f ? fs' [q [-> Hq]] Ht]; subst; [reflexivity|].
  cbn [argmin_go argmin_from fv_isnan orb fv_ltb]. unfold q_ltb, Qlt_bool.
  rewrite (Qle_bool_comp bq bd q d Hb Hq).
  replace (Z.of_nat i + 1)%Z with (Z.of_nat (S i)) by lia.
  destruct (Qle_bool bd d); cbn [negb]; apply IH; assumption.
Qed.
Lemma np_argmin_fin (ds : list Q) (fs : list fv) :
  Forall2 (fun d f => exists q, f = Fin q /\ q == d) ds fs -> np_argmin fs = rmap Z.of_nat (argmin ds).
Proof.
  intros H. destruct H as [|d f t fs' [q [-> Hq]] Ht]; [reflexivity|]. unfold np_argmin, argmin, rmap. f_equal.
  exact (argmin_go_fin t fs' 0 1 d q Ht Hq).
Qed.
Lemma argmin_as x vs : np_argmin (np_abs (np_sub_as vs (Fin x))) = rmap Z.of_nat (argmin (dists x vs)).
Proof.
  apply np_argmin_fin. unfold np_abs, np_sub_as, dists. rewrite map_map.
  induction vs as [|v t IH]; constructor; [|exact IH]. eexists. split; [reflexivity|]. reflexivity.
Qed.
Lemma argmin_sa x vs : np_argmin (np_abs (np_sub_sa (Fin x) vs)) = rmap Z.of_nat (argmin (dists x vs)).
Proof.
  apply np_argmin_fin. unfold np_abs, np_sub_sa, dists. rewrite map_map.
  induction vs as [|v t IH]; constructor; [|exact IH]. eexists. split; [reflexivity|].
  cbn [fv_neg]. change (x + - v) with (x - v). rewrite Qabs_Qminus. reflexivity.
Qed.
Lemma argmin_go_const c : c = PInf \/ c = NaN -> forall l b i, Forall (fun f => f = c) l -> argmin_go b c i l = b.
Proof.
  intros Hc. induction l as [|f t IH]; intros b i H; [reflexivity|]. inversion H; subst.
  destruct Hc as [-> | ->]; cbn; [apply IH; assumption | reflexivity].
Qed.

Lemma fv_leb_fin_l a v : fv_leb (Fin a) v = q_le_fv a v.
Proof. destruct v; reflexivity. Qed.
Lemma fv_leb_fin_r v a : fv_leb v (Fin a) = fv_le_q v a.
Proof. destruct v; reflexivity. Qed.

Lemma py_round_rhe x : py_round x = round_half_even x.
Proof. reflexivity. Qed.

(* ================================================================================================================ *)
Section Source.
  Variable K : Type.
  Variables (k0 k1 : K) (kadd kmul ksub kdiv : K -> K -> K) (kopp kinv : K -> K).
  Variable kgtb : K -> K -> bool.
  Variable kofq : Q -> K.
  Variable P : Type.
  Variable pfv : string -> P -> fv.
  Variable pfk : string -> P -> option K.
  Variable KERN : Type.
  Variable o_mvn : list fv -> smat -> result KERN.
  Variable o_pdf : KERN -> list fv -> option K.
  Variable o_sqrt : fv -> fv.

  Notation lat := (lat K).
  Notation g_init := (gen___init__ K k0 kofq).
  Notation g_valid := (gen___is_valid_index K).
  Notation g_set_idx := (gen_set_value_by_index K).
  Notation g_get_idx := (gen_get_value_by_index K).
  Notation g_nn1 := (gen___get_index_nearest_neighbor K).
  Notation g_nn3 := (gen___get_indices_nearest_neighbor K).
  Notation g_set_nn := (gen_set_value_nearest_neighbor K).
  Notation g_get_nn := (gen_get_value_nearest_neighbor K).
  Notation g_getv := (gen___get_value K).
  Notation g_coords := (gen_get_coordinates K).
  Notation g_fci := (gen___find_closest_index K).
  Notation g_within := (gen___is_within_range K).
  Notation g_closest := (gen_find_closest_indices K).
  Notation g_reset := (gen_reset K k0).
  Notation g_assg := (gen_add_same_spaced_grid K kadd).
  Notation g_apd := (gen_add_particle_data K k0 k1 kadd kmul kdiv kgtb kofq P pfv pfk KERN o_mvn o_pdf o_sqrt).

  (* the object as the hand models see it *)
  Definition axis_x (s : lat) : axis := {| amin := x_min_ s; amax := x_max_ s; avals := x_values_ s |}.
  Definition axis_y (s : lat) : axis := {| amin := y_min_ s; amax := y_max_ s; avals := y_values_ s |}.
  Definition axis_z (s : lat) : axis := {| amin := z_min_ s; amax := z_max_ s; avals := z_values_ s |}.
  Definition dims (s : lat) : Z * Z * Z := (num_points_x_ s, num_points_y_ s, num_points_z_ s).
  (* the attributes are consistent with each other the way __init__ leaves them: node counts = lengths of the
     coordinate arrays = shape of the grid, spacing = difference of the first two nodes (None below two nodes) *)
  Record wf (s : lat) : Prop := {
    wf_nx : num_points_x_ s = Z.of_nat (npts (axis_x s));
    wf_ny : num_points_y_ s = Z.of_nat (npts (axis_y s));
    wf_nz : num_points_z_ s = Z.of_nat (npts (axis_z s));
    wf_shape : shape (grid_ s) = dims s;
    wf_sx : spacing_x_ s = spacing (axis_x s);
    wf_sy : spacing_y_ s = spacing (axis_y s);
    wf_sz : spacing_z_ s = spacing (axis_z s) }.

  (* ---- __is_valid_index, set_value_by_index, get_value_by_index ---------------------------------------------------- *)
  Theorem source___is_valid_index : forall (s : lat) i j k, g_valid s i j k = Ok (inside (dims s) (i, j, k)).
  Proof. reflexivity. Qed.

  Lemma norm_idx_in i n : in1 i n = true -> norm_idx i n = Ok i.
  Proof. unfold in1, norm_idx. intros ->. reflexivity. Qed.
  Lemma arr_index_inside (a : ndarr K) p : inside (shape a) p = true -> arr_index a p = Ok p.
  Proof.
    unfold arr_index, inside. destruct (shape a) as [[nx ny] nz], p as [[i j] k]. rewrite !andb_true_iff.
    intros [[H1 H2] H3]. rewrite !norm_idx_in by assumption. reflexivity.
  Qed.

  (* indices outside the lattice: a warning, nothing stored; inside: the cell is replaced *)
  Theorem source_set_value_by_index : forall (s : lat) i j k v, shape (grid_ s) = dims s ->
    g_set_idx s i j k v = Ok (if inside (dims s) (i, j, k) then set_grid_ s (arr_upd (grid_ s) (i, j, k) v) else s).
  Proof.
    intros s i j k v Hs. unfold gen_set_value_by_index. rewrite source___is_valid_index. cbn [rbind].
    destruct (inside (dims s) (i, j, k)) eqn:E; cbn [negb]; [|reflexivity].
    unfold arr_set. rewrite arr_index_inside by (rewrite Hs; exact E). reflexivity.
  Qed.
  Theorem source_get_value_by_index : forall (s : lat) i j k, shape (grid_ s) = dims s ->
    g_get_idx s i j k = Ok (if inside (dims s) (i, j, k) then Some (cell (grid_ s) (i, j, k)) else None).
  Proof.
    intros s i j k Hs. unfold gen_get_value_by_index. rewrite source___is_valid_index. cbn [rbind].
    destruct (inside (dims s) (i, j, k)) eqn:E; cbn [negb]; [|reflexivity].
    unfold arr_get. rewrite arr_index_inside by (rewrite Hs; exact E). reflexivity.
  Qed.

  (* ---- __get_index_nearest_neighbor & co: Model/Lattice.v get_index_nn ---------------------------------------------- *)
  Theorem source___get_index_nearest_neighbor : forall (s : lat) (value : Q) (values : list Q),
    g_nn1 s value values = rmap Z.of_nat (get_index_nn (Fin value) values).
  Proof.
    intros s value values. unfold gen___get_index_nearest_neighbor, get_index_nn, in_axis_range.
    destruct values as [|v0 t]; [reflexivity|]. rewrite pyget_0. cbn [rbind q_le_fv fv_le_q].
    destruct (Qle_bool v0 value); cbn [andb negb rbind].
    - rewrite pyget_last. cbn [rbind]. destruct (Qle_bool value (last (v0 :: t) v0)); cbn [negb]; [|reflexivity].
      unfold find_closest_index. rewrite argmin_sa. destruct (argmin (dists value (v0 :: t))); reflexivity.
    - reflexivity.
  Qed.
  Theorem source___get_indices_nearest_neighbor : forall (s : lat) x y z,
    g_nn3 s x y z = rbind (rmap Z.of_nat (get_index_nn (Fin x) (x_values_ s))) (fun i =>
                    rbind (rmap Z.of_nat (get_index_nn (Fin y) (y_values_ s))) (fun j =>
                    rbind (rmap Z.of_nat (get_index_nn (Fin z) (z_values_ s))) (fun k => Ok (i, j, k)))).
  Proof. intros. unfold gen___get_indices_nearest_neighbor. rewrite !source___get_index_nearest_neighbor. reflexivity. Qed.
  Theorem source_set_value_nearest_neighbor : forall (s : lat) x y z v, shape (grid_ s) = dims s ->
    g_set_nn s x y z v = rbind (g_nn3 s x y z) (fun p =>
      Ok (if inside (dims s) p then set_grid_ s (arr_upd (grid_ s) p v) else s)).
  Proof.
    intros s x y z v Hs. unfold gen_set_value_nearest_neighbor. destruct (g_nn3 s x y z) as [[[i j] k]|e]; [|reflexivity].
    cbn [rbind]. apply source_set_value_by_index. exact Hs.
  Qed.
  Theorem source_get_value_nearest_neighbor : forall (s : lat) x y z, shape (grid_ s) = dims s ->
    g_get_nn s x y z = rbind (g_nn3 s x y z) (fun p =>
      Ok (if inside (dims s) p then Some (cell (grid_ s) p) else None)).
  Proof.
    intros s x y z Hs. unfold gen_get_value_nearest_neighbor. destruct (g_nn3 s x y z) as [[[i j] k]|e]; [|reflexivity].
    cbn [rbind]. apply source_get_value_by_index. exact Hs.
  Qed.

  (* ---- __get_value, get_coordinates: Model/Lattice.v coord1 ---------------------------------------------------------- *)
  Theorem source___get_value : forall (s : lat) index (a : axis),
    g_getv s index (avals a) (Z.of_nat (npts a)) = coord1 index a.
  Proof.
    intros s index a. unfold gen___get_value, coord1, gen_coord_bad, gen_coord_err.
    destruct (index <? 0)%Z eqn:E; [reflexivity|]. cbn [orb]. destruct (Z.of_nat (npts a) <=? index)%Z; [reflexivity|].
    apply pyget_nonneg. apply Z.ltb_ge in E. exact E.
  Qed.
  Theorem source_get_coordinates : forall (s : lat) i j k, wf s ->
    g_coords s i j k = rbind (coord1 i (axis_x s)) (fun x => rbind (coord1 j (axis_y s)) (fun y =>
                       rbind (coord1 k (axis_z s)) (fun z => Ok (x, y, z)))).
  Proof.
    intros s i j k W. unfold gen_get_coordinates. rewrite (wf_nx s W), (wf_ny s W), (wf_nz s W).
    rewrite <- !source___get_value with (s := s). reflexivity.
  Qed.

  (* ---- __find_closest_index, __is_within_range, find_closest_indices: Model/Lattice.v / Model/Smear.v closest1 ------- *)
  Theorem source___find_closest_index : forall (s : lat) (value : fv) (values : list Q),
    g_fci s value values = rmap Z.of_nat (find_closest_index value values).
  Proof.
    intros s value values. unfold gen___find_closest_index, find_closest_index.
    assert (R : forall r : result Z, rbind r (fun v => Ok v) = r) by (intros [?|?]; reflexivity).
    destruct value as [x| | |].
    - apply argmin_as.
    - destruct values as [|v t]; [reflexivity|]. unfold np_argmin. cbn [np_sub_as np_abs map fv_minus fv_neg fv_plus fv_abs rmap].
      f_equal. apply (argmin_go_const PInf (or_introl eq_refl)). rewrite map_map. apply Forall_forall. intros f Hf.
      apply in_map_iff in Hf. destruct Hf as [a [<- _]]. reflexivity.
    - destruct values as [|v t]; [reflexivity|]. unfold np_argmin. cbn [np_sub_as np_abs map fv_minus fv_neg fv_plus fv_abs rmap].
      f_equal. apply (argmin_go_const PInf (or_introl eq_refl)). rewrite map_map. apply Forall_forall. intros f Hf.
      apply in_map_iff in Hf. destruct Hf as [a [<- _]]. reflexivity.
    - destruct values as [|v t]; [reflexivity|]. unfold np_argmin. cbn [np_sub_as np_abs map fv_minus fv_neg fv_plus fv_abs rmap].
      f_equal. apply (argmin_go_const NaN (or_intror eq_refl)). rewrite map_map. apply Forall_forall. intros f Hf.
      apply in_map_iff in Hf. destruct Hf as [a [<- _]]. reflexivity.
  Qed.
  Theorem source___is_within_range : forall (s : lat) x y z,
    g_within s x y z = Ok (within1 x (axis_x s) && within1 y (axis_y s) && within1 z (axis_z s)).
  Proof. intros. unfold gen___is_within_range, within1. rewrite !fv_leb_fin_l, !fv_leb_fin_r. reflexivity. Qed.
  (* outside the extent: a warning only; the result is the closest node on each axis (first one on ties) *)
  Theorem source_find_closest_indices : forall (s : lat) x y z,
    g_closest s x y z = rbind (closest1 x (axis_x s)) (fun i => rbind (closest1 y (axis_y s)) (fun j =>
                        rbind (closest1 z (axis_z s)) (fun k => Ok (i, j, k)))).
  Proof.
    intros. unfold gen_find_closest_indices. rewrite source___is_within_range, !source___find_closest_index.
    cbn [rbind]. unfold closest1. cbn [avals axis_x axis_y axis_z].
    destruct (negb _); reflexivity.
  Qed.

  (* ---- __init__ ---------------------------------------------------------------------------------------------------- *)
  (* np.linspace(a, b, n) for n >= 0 *)
  Definition lin (a b : Q) (n : Z) : list Q :=
    if (n =? 1)%Z then [a]
    else map (fun i => if (i =? n - 1)%Z then b else (inject_Z i * ((b - a) / inject_Z (n - 1)) + a)%Q) (py_range n).
  Lemma linspace_ok a b n : (0 <= n)%Z -> np_linspace a b n = Ok (lin a b n).
  Proof. intros H. unfold np_linspace, lin. assert (E : (n <? 0)%Z = false) by (apply Z.ltb_ge; lia). rewrite E. destruct (n =? 1)%Z; reflexivity. Qed.
  Lemma py_range_length n : List.length (py_range n) = Z.to_nat n.
  Proof. unfold py_range. rewrite map_length, seq_length. reflexivity. Qed.
  Lemma lin_length a b n : List.length (lin a b n) = Z.to_nat n.
  Proof.
    unfold lin. destruct (n =? 1)%Z eqn:E; [apply Z.eqb_eq in E; subst; reflexivity|]. rewrite map_length. apply py_range_length.
  Qed.
  Definition nsig_of (o : option Q) : Q := match o with Some v => v | None => 3 # 1 end.
  Definition init_obj (x0 x1 y0 y1 z0 z1 : Q) (nx ny nz : Z) (sx sy sz : option Q) : lat :=
    Lat x0 x1 y0 y1 z0 z1 nx ny nz
        (Some (kofq (Qabs ((((x1 - x0) * (y1 - y0)) * (z1 - z0)) / inject_Z ((nx * ny) * nz)))))
        (lin x0 x1 nx) (lin y0 y1 ny) (lin z0 z1 nz) (NdArr (nx, ny, nz) (fun _ => Some k0))
        (nsig_of sx) (nsig_of sy) (nsig_of sz)
        (spacing {| amin := x0; amax := x1; avals := lin x0 x1 nx |})
        (spacing {| amin := y0; amax := y1; avals := lin y0 y1 ny |})
        (spacing {| amin := z0; amax := z1; avals := lin z0 z1 nz |})
        ((x1 - x0) / inject_Z nx) ((y1 - y0) / inject_Z ny) ((z1 - z0) / inject_Z nz).

  Lemma Qeq_bool_inject_Z n : Qeq_bool (inject_Z n) 0 = (n =? 0)%Z.
  Proof. unfold Qeq_bool, inject_Z. cbn [Qnum Qden]. rewrite Z.mul_1_r, Z.mul_0_l. destruct n; reflexivity. Qed.
  Lemma spacing_src (vs : list Q) (n : Z) : List.length vs = Z.to_nat n ->
    (if (1 <? n)%Z then rbind (rbind (pyget vs 1) (fun a => rbind (pyget vs 0) (fun b => Ok (a - b)%Q))) (fun t => Ok (Some t))
     else Ok None) = Ok (match vs with v0 :: v1 :: _ => Some (v1 - v0)%Q | _ => None end).
  Proof.
    intros H. destruct vs as [|v0 [|v1 t]]; cbn [List.length] in H.
    - assert (E : (1 <? n)%Z = false) by (apply Z.ltb_ge; lia). rewrite E. reflexivity.
    - assert (E : (1 <? n)%Z = false) by (apply Z.ltb_ge; lia). rewrite E. reflexivity.
    - assert (E : (1 <? n)%Z = true) by (apply Z.ltb_lt; lia). rewrite E. reflexivity.
  Qed.

  (* the constructor: Python float division by the node count product first (ZeroDivisionError), then linspace /
     zeros reject a negative count (ValueError), otherwise the object *)
  Theorem source___init__ : forall x0 x1 y0 y1 z0 z1 nx ny nz sx sy sz,
    g_init x0 x1 y0 y1 z0 z1 nx ny nz sx sy sz
    = if (nx * ny * nz =? 0)%Z then Err ZeroDivisionError
      else if ((nx <? 0) || (ny <? 0) || (nz <? 0))%Z then Err ValueError
      else Ok (init_obj x0 x1 y0 y1 z0 z1 nx ny nz sx sy sz).
  Proof.
    intros. unfold gen___init__. cbv zeta. unfold q_div at 1. rewrite Qeq_bool_inject_Z.
    destruct (nx * ny * nz =? 0)%Z eqn:E0; [reflexivity|]. cbn [rbind]. apply Z.eqb_neq in E0.
    destruct (nx <? 0)%Z eqn:Ex; [unfold np_linspace; rewrite Ex; reflexivity|]. apply Z.ltb_ge in Ex.
    rewrite (linspace_ok x0 x1 nx Ex). cbn [rbind orb].
    destruct (ny <? 0)%Z eqn:Ey; [unfold np_linspace; rewrite Ey; reflexivity|]. apply Z.ltb_ge in Ey.
    rewrite (linspace_ok y0 y1 ny Ey). cbn [rbind orb].
    destruct (nz <? 0)%Z eqn:Ez; [unfold np_linspace; rewrite Ez; reflexivity|]. apply Z.ltb_ge in Ez.
    rewrite (linspace_ok z0 z1 nz Ez). cbn [rbind orb].
    unfold np_zeros. apply Z.ltb_ge in Ex, Ey, Ez. rewrite Ex, Ey, Ez. cbn [orb rbind].
    rewrite (spacing_src (lin x0 x1 nx) nx (lin_length _ _ _)), (spacing_src (lin y0 y1 ny) ny (lin_length _ _ _)),
      (spacing_src (lin z0 z1 nz) nz (lin_length _ _ _)). cbn [rbind].
    unfold q_div. rewrite !Qeq_bool_inject_Z.
    assert (Nx : (nx =? 0)%Z = false) by (apply Z.eqb_neq; nia).
    assert (Ny : (ny =? 0)%Z = false) by (apply Z.eqb_neq; nia).
    assert (Nz : (nz =? 0)%Z = false) by (apply Z.eqb_neq; nia).
    rewrite Nx, Ny, Nz. cbn [rbind]. unfold init_obj, py_float, nsig_of, spacing. cbn [avals].
    destruct sx, sy, sz; reflexivity.
  Qed.
  (* what the constructor leaves is consistent in the sense of [wf] *)
  Lemma init_wf x0 x1 y0 y1 z0 z1 nx ny nz sx sy sz : (0 <= nx)%Z -> (0 <= ny)%Z -> (0 <= nz)%Z ->
    wf (init_obj x0 x1 y0 y1 z0 z1 nx ny nz sx sy sz).
  Proof.
    intros Hx Hy Hz. constructor; try reflexivity; unfold init_obj, npts, axis_x, axis_y, axis_z; cbn; rewrite lin_length; lia.
  Qed.

  (* ---- reset ------------------------------------------------------------------------------------------------------- *)
  Lemma set_grid_same (s : lat) : set_grid_ s (grid_ s) = s.
  Proof. destruct s; reflexivity. Qed.
  Lemma set_grid_twice (s : lat) g g' : set_grid_ (set_grid_ s g) g' = set_grid_ s g'.
  Proof. reflexivity. Qed.
  Lemma dims_set_grid (s : lat) g : dims (set_grid_ s g) = dims s.
  Proof. reflexivity. Qed.
  Lemma grid_set_grid (s : lat) g : grid_ (set_grid_ s g) = g.
  Proof. reflexivity. Qed.
  Lemma fold_upd_shape {A} (F : ndarr K -> A -> ndarr K) l : (forall g a, shape (F g a) = shape g) ->
    forall g, shape (fold_left F l g) = shape g.
  Proof. intros H. induction l as [|a t IH]; intros g; [reflexivity|]. simpl. rewrite IH. apply H. Qed.

  (* every cell of the grid (all indices of its shape) is set to zero, nothing else changes *)
  Theorem source_reset : forall s : lat,
    g_reset s = Ok (set_grid_ s (fold_left (fun g p => arr_upd g p (Some k0)) (np_ndindex (shape (grid_ s))) (grid_ s))).
  Proof.
    intros s. unfold gen_reset.
    assert (L : forall l, (forall p, In p l -> inside (shape (grid_ s)) p = true) -> forall g, shape g = shape (grid_ s) ->
              foldM (gen_reset_loop1 K k0) l (set_grid_ s g) = Ok (set_grid_ s (fold_left (fun g p => arr_upd g p (Some k0)) l g))).
    { induction l as [|p t IH]; intros Hl g Hg; [reflexivity|]. cbn [foldM fold_left].
      unfold gen_reset_loop1 at 1. destruct p as [[i j] k]. cbn [grid_ set_grid_]. unfold arr_set.
      rewrite arr_index_inside by (rewrite Hg; apply Hl; now left). cbn [rmap rbind].
      apply IH; [intros q Hq; apply Hl; now right | exact Hg]. }
    rewrite <- (set_grid_same s) at 2. apply L; [|reflexivity]. intros p Hp. now apply in_ndindex.
  Qed.
  (* cell by cell *)
  Lemma fold_upd_cell (F : Z * Z * Z -> option K -> option K) l : NoDup l -> forall g q,
    cell (fold_left (fun g p => arr_upd g p (F p (cell g p))) l g) q = if existsb (eq3 q) l then F q (cell g q) else cell g q.
  Proof.
    induction l as [|p t IH]; intros Hn g q; [reflexivity|]. inversion Hn as [|? ? Hp Ht]; subst. cbn [fold_left existsb].
    rewrite IH by exact Ht. cbn [arr_upd cell]. rewrite !idx_eqb_eq3.
    destruct (eq3 q p) eqn:E.
    - apply eq3_iff in E. subst q. cbn [orb].
      assert (X : existsb (eq3 p) t = false).
      { apply not_true_is_false. intros H. apply existsb_exists in H. destruct H as [x [Hx Ex]]. apply eq3_iff in Ex. subst. contradiction. }
      rewrite X. reflexivity.
    - reflexivity.
  Qed.
  Lemma existsb_eq3_ndindex q s : existsb (eq3 q) (np_ndindex s) = inside s q.
  Proof.
    apply eq_true_iff_eq. rewrite existsb_exists, <- in_ndindex. split.
    - intros [x [Hx E]]. apply eq3_iff in E. now subst.
    - intros H. exists q. split; [exact H|apply eq3_same].
  Qed.
  Corollary reset_cell (s : lat) q :
    cell (fold_left (fun g p => arr_upd g p (Some k0)) (np_ndindex (shape (grid_ s))) (grid_ s)) q
    = if inside (shape (grid_ s)) q then Some k0 else cell (grid_ s) q.
  Proof. rewrite (fold_upd_cell (fun _ _ => Some k0)) by apply NoDup_ndindex. rewrite existsb_eq3_ndindex. reflexivity. Qed.

  (* ---- add_same_spaced_grid ------------------------------------------------------------------------------------------ *)
  Definition tol_c : Q := 4722366482869645 # 4722366482869645213696.      (* the double 1e-6 *)
  Definition same_c : Q := 1152921504606847 # 1152921504606846976.        (* the double 1e-3 *)
  (* other.spacing is None or abs(self.spacing - other.spacing) < 1e-3 *)
  Definition spacing_close (mine : Q) (other : option Q) : bool :=
    match other with None => true | Some y => q_ltb (Qabs (mine - y)) same_c end.
  (* the range test with tolerance, the clamping *)
  Definition out1 (pos lo hi tol : Q) : bool := q_ltb pos (lo - tol) || q_ltb (hi + tol) pos.
  Definition clamp (pos lo hi : Q) : Q := py_min (py_max pos lo) hi.
  (* THE FLOAT PATH of the placement: node (i,j,k) of [other], moved by the centre, either fails the range test of
     [s] on some axis (then [tgt] says None) or, after clamping, has the nearest node [tgt (i,j,k)] of [s] *)
  Definition lands (s other : lat) (dx dy dz cx cy cz : Q) (tgt : Z * Z * Z -> option (Z * Z * Z)) : Prop :=
    forall i j k, inside (shape (grid_ other)) (i, j, k) = true ->
      exists x y z, g_coords other i j k = Ok (x, y, z) /\
        let px := (x + cx)%Q in let py := (y + cy)%Q in let pz := (z + cz)%Q in
        if out1 px (x_min_ s) (x_max_ s) (tol_c * Qabs dx) || out1 py (y_min_ s) (y_max_ s) (tol_c * Qabs dy)
           || out1 pz (z_min_ s) (z_max_ s) (tol_c * Qabs dz)
        then tgt (i, j, k) = None
        else exists p, tgt (i, j, k) = Some p /\ inside (dims s) p = true
             /\ g_nn3 s (clamp px (x_min_ s) (x_max_ s)) (clamp py (y_min_ s) (y_max_ s)) (clamp pz (z_min_ s) (z_max_ s)) = Ok p.
  (* what the loop does to the grid: cell (i,j,k) of [other] is added onto node tgt (i,j,k) *)
  Definition place_step (og : ndarr K) (tgt : Z * Z * Z -> option (Z * Z * Z)) (g : ndarr K) (ijk : Z * Z * Z) : ndarr K :=
    match tgt ijk with Some p => arr_upd g p (olift2 kadd (cell g p) (cell og ijk)) | None => g end.

  Lemma close_src dx o :
    orM (Ok (is_none o))
        (rbind (rbind (rbind (opt_get (Some dx)) (fun t1 => rbind (opt_get o) (fun t2 => Ok (t1 - t2)%Q))) (fun t3 => Ok (Qabs t3)))
               (fun t4 => Ok (q_ltb t4 (1152921504606847 # 1152921504606846976)%Q)))
    = Ok (spacing_close dx o).
  Proof. destruct o; reflexivity. Qed.
  Lemma andM_ok3 a b c : andM (Ok a) (andM (Ok b) (Ok c)) = Ok (a && b && c).
  Proof. destruct a, b, c; reflexivity. Qed.

  Theorem source_add_same_spaced_grid_errors : forall (s other : lat) cx cy cz,
    (spacing_x_ s = None \/ spacing_y_ s = None \/ spacing_z_ s = None -> g_assg s other cx cy cz = Err TypeError)
    /\ (forall dx dy dz, spacing_x_ s = Some dx -> spacing_y_ s = Some dy -> spacing_z_ s = Some dz ->
        spacing_close dx (spacing_x_ other) && spacing_close dy (spacing_y_ other) && spacing_close dz (spacing_z_ other) = false ->
        g_assg s other cx cy cz = Err ValueError).
  Proof.
    intros s other cx cy cz. split.
    - intros H. unfold gen_add_same_spaced_grid. cbn [negb].
      destruct (spacing_x_ s), (spacing_y_ s), (spacing_z_ s); try reflexivity. destruct H as [H|[H|H]]; discriminate.
    - intros dx dy dz Hx Hy Hz Hc. unfold gen_add_same_spaced_grid. rewrite Hx, Hy, Hz. cbn [negb is_none orb].
      rewrite !close_src, andM_ok3, Hc. reflexivity.
  Qed.

  Theorem source_add_same_spaced_grid : forall (s other : lat) cx cy cz dx dy dz tgt,
    shape (grid_ s) = dims s ->
    spacing_x_ s = Some dx -> spacing_y_ s = Some dy -> spacing_z_ s = Some dz ->
    spacing_close dx (spacing_x_ other) && spacing_close dy (spacing_y_ other) && spacing_close dz (spacing_z_ other) = true ->
    lands s other dx dy dz cx cy cz tgt ->
    g_assg s other cx cy cz
    = Ok (set_grid_ s (fold_left (place_step (grid_ other) tgt) (np_ndindex (shape (grid_ other))) (grid_ s))).
  Proof.
    intros s other cx cy cz dx dy dz tgt Hs Hx Hy Hz Hc HL. unfold gen_add_same_spaced_grid. rewrite Hx, Hy, Hz.
    cbn [negb is_none orb]. rewrite !close_src, andM_ok3, Hc. cbn [rbind opt_get].
    change (4722366482869645 # 4722366482869645213696) with tol_c.
    assert (L : forall l, (forall p, In p l -> inside (shape (grid_ other)) p = true) -> forall g, shape g = dims s ->
              foldM (gen_add_same_spaced_grid_loop1 K kadd other cx cy cz (tol_c * Qabs dx) (tol_c * Qabs dy) (tol_c * Qabs dz)) l (set_grid_ s g)
              = Ok (set_grid_ s (fold_left (place_step (grid_ other) tgt) l g))).
    { induction l as [|p t IH]; intros Hl g Hg; [reflexivity|]. cbn [foldM fold_left].
      destruct p as [[i j] k]. unfold gen_add_same_spaced_grid_loop1 at 1.
      destruct (HL i j k (Hl _ (or_introl eq_refl))) as [x [y [z [Ec Hp]]]]. rewrite Ec. cbn [rbind]. cbv zeta in Hp |- *.
      cbn [x_min_ x_max_ y_min_ y_max_ z_min_ z_max_ set_grid_].
      unfold out1 in Hp. rewrite <- !orb_assoc in Hp. rewrite <- !orb_assoc.
      match type of Hp with if ?c then _ else _ => destruct c end.
      - unfold place_step. rewrite Hp. apply IH; [intros q Hq; apply Hl; now right|exact Hg].
      - destruct Hp as [p [Et [Hin Enn]]]. fold (clamp (x + cx) (x_min_ s) (x_max_ s)) (clamp (y + cy) (y_min_ s) (y_max_ s))
          (clamp (z + cz) (z_min_ s) (z_max_ s)).
        assert (Enn' : forall g', g_nn3 (set_grid_ s g') (clamp (x + cx) (x_min_ s) (x_max_ s)) (clamp (y + cy) (y_min_ s) (y_max_ s))
                              (clamp (z + cz) (z_min_ s) (z_max_ s)) = Ok p).
        { intros g'. rewrite source___get_indices_nearest_neighbor in Enn |- *. exact Enn. }
        rewrite source_get_value_nearest_neighbor by exact Hg. rewrite Enn'. cbn [rbind].
        rewrite dims_set_grid, grid_set_grid, Hin. cbn [opt_get rbind].
        unfold arr_get. rewrite arr_index_inside by exact (Hl _ (or_introl eq_refl)). cbn [rmap rbind].
        rewrite source_set_value_nearest_neighbor by exact Hg. rewrite Enn'. cbn [rbind].
        rewrite dims_set_grid, grid_set_grid, Hin, set_grid_twice.
        unfold place_step at 2. rewrite Et. apply IH; [intros q Hq; apply Hl; now right|]. exact Hg. }
    rewrite <- (set_grid_same s) at 1. apply L; [|exact Hs]. intros p Hp. now apply in_ndindex.
  Qed.

  (* ================================================================================================================ *)
  (* ---- add_particle_data ------------------------------------------------------------------------------------------- *)
  Hypothesis Fth : field_theory k0 k1 kadd kmul ksub kopp kdiv kinv (@eq K).
  Add Field Kfield_src : Fth.

  Notation norm_ok := (fun N : K => kgtb N k0).
  Notation loop1 := (gen_add_particle_data_loop1 K k0 k1 kadd kmul kdiv kgtb kofq P pfv pfk KERN o_mvn o_pdf o_sqrt).
  Notation loop2 := (gen_add_particle_data_loop2 K k0 kadd kmul kdiv P pfv KERN o_pdf o_sqrt).
  Notation loop3 := (gen_add_particle_data_loop3 K k0 kadd kmul kdiv P pfv KERN o_pdf o_sqrt).
  Notation loop4 := (gen_add_particle_data_loop4 K k0 kadd kmul kdiv P pfv KERN o_pdf o_sqrt).
  Notation loop5 := (gen_add_particle_data_loop5 K k0 kdiv kgtb).
  Notation loop6 := (gen_add_particle_data_loop6 K k0 kdiv kgtb).
  Notation loop7 := (gen_add_particle_data_loop7 K k0 kdiv kgtb).

  (* what the model's record [part] holds for a particle of the source: the attributes, the NaN test of the covariant
     branch as written (py is tested twice, pz never), and the pdf value at each node of the temporary lattice *)
  Definition kern_of (kernel : string) : Smear.kernel :=
    if String.eqb kernel "gaussian" then Gaussian else if String.eqb kernel "covariant" then Covariant else UnknownKernel.
  Definition kern_create (sigma : Q) (kernel : string) (p : P) : result KERN :=
    if String.eqb kernel "gaussian"
    then o_mvn [pfv "x" p; pfv "y" p; pfv "z" p] (mat_scale (Qpower sigma 2) (np_eye 3))
    else o_mvn [Fin (0 # 1); Fin (0 # 1)] (mat_scale (Qpower sigma 2) (np_eye 2)).
  Definition pdf_args (kernel : string) (p : P) (c : Q * Q * Q) : list fv :=
    let '(xi, yj, zk) := c in
    if String.eqb kernel "gaussian"
    then [fv_plus (Fin xi) (pfv "x" p); fv_plus (Fin yj) (pfv "y" p); fv_plus (Fin zk) (pfv "z" p)]
    else [Fin ((Qpower xi 2 + Qpower yj 2) + Qpower zk 2);
          fv_quot (fv_plus (fv_plus (fv_times (pfv "px" p) (Fin xi)) (fv_times (pfv "py" p) (Fin yj))) (fv_times (pfv "pz" p) (Fin zk)))
                  (o_sqrt (fv_plus (fv_times (pfv "mass" p) (pfv "mass" p)) (fv_times (pfv "p_abs()" p) (pfv "p_abs()" p))))].
  (* num_x = round(n_sigma_x * sigma / spacing_x); the nodes of the temporary lattice along one axis *)
  Definition hw (nsig sigma dx : Q) : Z := py_round ((nsig * sigma) / dx).
  Definition tvals (dx : Q) (m : Z) : list Q := lin (- (inject_Z m * dx)) (inject_Z m * dx) (2 * m + 1).
  Definition tcoord (vals : list Q) (i : Z) : Q := nth (Z.to_nat i) vals 0.
  Definition sp_of (o : option Q) : Q := match o with Some d => d | None => 0 end.
  Definition hws (s : lat) (sigma : Q) : Z * Z * Z :=
    (hw (n_sigma_x_ s) sigma (sp_of (spacing_x_ s)), hw (n_sigma_y_ s) sigma (sp_of (spacing_y_ s)),
     hw (n_sigma_z_ s) sigma (sp_of (spacing_z_ s))).
  Definition obs_kern (s : lat) (sigma : Q) (kernel : string) (p : P) (o : Z * Z * Z) : option K :=
    let '(mx, my, mz) := hws s sigma in let '(a, b, c) := o in
    match kern_create sigma kernel p with
    | Ok kv => o_pdf kv (pdf_args kernel p (tcoord (tvals (sp_of (spacing_x_ s)) mx) (a + mx),
                                            tcoord (tvals (sp_of (spacing_y_ s)) my) (b + my),
                                            tcoord (tvals (sp_of (spacing_z_ s)) mz) (c + mz)))
    | Err _ => None
    end.
  Definition obs (s : lat) (sigma : Q) (kernel : string) (p : P) : part K :=
    {| ppos := (pfv "x" p, pfv "y" p, pfv "z" p);
       pattr := fun a => pfk a p;
       pmom_nan := fv_isnan (pfv "px" p) || fv_isnan (pfv "py" p) || fv_isnan (pfv "pz" p);
       pkern := obs_kern s sigma kernel p |}.
  (* the temporary lattice of one particle *)
  Definition temp_obj (dx dy dz : Q) (m : Z * Z * Z) : lat :=
    let '(mx, my, mz) := m in
    init_obj (- (inject_Z mx * dx)) (inject_Z mx * dx) (- (inject_Z my * dy)) (inject_Z my * dy)
             (- (inject_Z mz * dz)) (inject_Z mz * dz) (2 * mx + 1) (2 * my + 1) (2 * mz + 1) None None None.
  Definition tshape (m : Z * Z * Z) : Z * Z * Z := let '(mx, my, mz) := m in ((2 * mx + 1)%Z, (2 * my + 1)%Z, (2 * mz + 1)%Z).
  Definition sub3 (p q : Z * Z * Z) : Z * Z * Z :=
    let '(a, b, c) := p in let '(d, e, f) := q in ((a - d)%Z, (b - e)%Z, (c - f)%Z).

  (* ---- pure list facts ---- *)
  Lemma fold_left_mapped {S A B} (f : S -> B -> S) (g : A -> B) l s :
    fold_left f (map g l) s = fold_left (fun s x => f s (g x)) l s.
  Proof. revert s. induction l as [|a t IH]; intros s; [reflexivity|]. cbn [map fold_left]. apply IH. Qed.
  Lemma fold_left_ext {S A} (f g : S -> A -> S) l s : (forall s a, f s a = g s a) -> fold_left f l s = fold_left g l s.
  Proof. intros H. revert s. induction l as [|a t IH]; intros s; [reflexivity|]. cbn [fold_left]. rewrite H. apply IH. Qed.
  Lemma fold_left_flat_map {S A B} (f : S -> B -> S) (F : A -> list B) l s :
    fold_left f (flat_map F l) s = fold_left (fun s x => fold_left f (F x) s) l s.
  Proof. revert s. induction l as [|a t IH]; intros s; [reflexivity|]. cbn [flat_map fold_left]. rewrite fold_left_app. apply IH. Qed.
  Lemma fold_ndindex {S} (f : S -> Z * Z * Z -> S) a b c s :
    fold_left f (np_ndindex (a, b, c)) s
    = fold_left (fun s i => fold_left (fun s j => fold_left (fun s k => f s (i, j, k)) (py_range c) s) (py_range b) s) (py_range a) s.
  Proof.
    unfold np_ndindex. rewrite fold_left_flat_map. apply fold_left_ext. intros s1 i.
    rewrite fold_left_flat_map. apply fold_left_ext. intros s2 j. apply fold_left_mapped.
  Qed.
  Lemma fold_left_id {A S} (l : list A) (s : S) : fold_left (fun s _ => s) l s = s.
  Proof. induction l; [reflexivity|assumption]. Qed.

  (* ---- the temporary lattice ---- *)
  Lemma coords_at (t : lat) i j k :
    num_points_x_ t = Z.of_nat (List.length (x_values_ t)) -> num_points_y_ t = Z.of_nat (List.length (y_values_ t)) ->
    num_points_z_ t = Z.of_nat (List.length (z_values_ t)) -> inside (dims t) (i, j, k) = true ->
    g_coords t i j k = Ok (tcoord (x_values_ t) i, tcoord (y_values_ t) j, tcoord (z_values_ t) k).
  Proof.
    intros Hx Hy Hz Hin. unfold inside, dims, in1 in Hin. rewrite !andb_true_iff, !Z.leb_le, !Z.ltb_lt in Hin.
    assert (G : forall vals n idx, n = Z.of_nat (List.length vals) -> (0 <= idx < n)%Z -> g_getv t idx vals n = Ok (tcoord vals idx)).
    { intros vals n idx Hn Hi. unfold gen___get_value.
      assert (E1 : (idx <? 0)%Z = false) by (apply Z.ltb_ge; lia). assert (E2 : (n <=? idx)%Z = false) by (apply Z.leb_gt; lia).
      rewrite E1, E2. cbn [orb]. rewrite pyget_nonneg by lia. unfold tcoord.
      destruct (nth_error vals (Z.to_nat idx)) eqn:E; [rewrite (nth_error_nth _ _ _ E); reflexivity|].
      apply nth_error_None in E. lia. }
    unfold gen_get_coordinates. rewrite !G by (assumption || lia). reflexivity.
  Qed.

  Section OneParticle.
    (* one particle, after its checks: kernel object kv, quantity v, cell volume vol, spacings, half widths m >= 0 *)
    Variables (s : lat) (kernel : string) (p : P) (kv : KERN) (v vol : K) (dx dy dz : Q) (mx my mz : Z).
    Hypothesis Hvol : cell_volume_ s = Some vol.
    Hypothesis Hm : (0 <= mx /\ 0 <= my /\ 0 <= mz)%Z.
    Let m := (mx, my, mz).
    Let T0 := temp_obj dx dy dz m.
    Let sT := tshape m.
    Let x := pfv "x" p. Let y := pfv "y" p. Let z := pfv "z" p.
    (* smearing_factor and value_to_add at node (i,j,k) of the temporary lattice *)
    Definition sf_at (ijk : Z * Z * Z) : option K :=
      let '(i, j, k) := ijk in
      o_pdf kv (pdf_args kernel p (tcoord (x_values_ T0) i, tcoord (y_values_ T0) j, tcoord (z_values_ T0) k)).
    Definition v2a_at (ijk : Z * Z * Z) : option K :=
      match olift2 kdiv (olift2 kmul (Some v) (sf_at ijk)) (Some vol) with None => Some k0 | r => r end.
    Definition step1 (st : option K * lat) (ijk : Z * Z * Z) : option K * lat :=
      (olift2 kadd (fst st) (sf_at ijk),
       set_grid_ (snd st) (arr_upd (grid_ (snd st)) ijk (olift2 kadd (cell (grid_ (snd st)) ijk) (v2a_at ijk)))).
    Definition okT (t : lat) : Prop := exists g, t = set_grid_ T0 g /\ shape g = sT.

    Lemma T0_dims : dims T0 = sT.
    Proof. reflexivity. Qed.
    Lemma okT_dims t : okT t -> dims t = sT /\ shape (grid_ t) = sT
      /\ x_values_ t = x_values_ T0 /\ y_values_ t = y_values_ T0 /\ z_values_ t = z_values_ T0.
    Proof. intros [g [-> Hg]]. rewrite dims_set_grid, grid_set_grid, T0_dims. repeat split; assumption || reflexivity. Qed.
    Lemma okT_lengths t : okT t ->
      num_points_x_ t = Z.of_nat (List.length (x_values_ t)) /\ num_points_y_ t = Z.of_nat (List.length (y_values_ t))
      /\ num_points_z_ t = Z.of_nat (List.length (z_values_ t)).
    Proof.
      intros [g [-> Hg]]. subst T0 m. unfold temp_obj, init_obj.
      cbn [set_grid_ num_points_x_ num_points_y_ num_points_z_ x_values_ y_values_ z_values_]. rewrite !lin_length.
      destruct Hm as [? [? ?]]. lia.
    Qed.

    Lemma loop4_step : forall i j k n t, okT t -> inside sT (i, j, k) = true ->
      loop4 i j kernel kv x y z p (Some v) s (n, t) k = Ok (step1 (n, t) (i, j, k)) /\ okT (snd (step1 (n, t) (i, j, k))).
    Proof.
      intros i j k n t Ht Hin. destruct (okT_dims t Ht) as [Hd [Hsh [Hx [Hy Hz]]]]. destruct (okT_lengths t Ht) as [Lx [Ly Lz]].
      split.
      - unfold gen_add_particle_data_loop4. rewrite coords_at by (try assumption; rewrite Hd; exact Hin). cbn [rbind].
        unfold step1, v2a_at, sf_at, pdf_args. cbn [fst snd]. rewrite Hx, Hy, Hz. subst x y z.
        destruct (String.eqb kernel "gaussian"); cbv zeta; cbn [rbind]; rewrite Hvol;
          unfold arr_get, arr_set; rewrite arr_index_inside by (rewrite Hsh; exact Hin); cbn [rmap rbind];
          match goal with |- context [olift2 kdiv ?a ?b] => destruct (olift2 kdiv a b) end; reflexivity.
      - destruct Ht as [g [-> Hg]]. unfold step1. cbn [snd]. eexists. split; [apply set_grid_twice|]. exact Hg.
    Qed.

    (* the first three loops: one pass over all nodes of the temporary lattice *)
    Lemma first_nest : forall n t, okT t ->
      foldM (loop2 kernel kv x y z p (Some v) s) (py_range (num_points_x_ t)) (n, t)
      = Ok (fold_left step1 (np_ndindex sT) (n, t)) /\ okT (snd (fold_left step1 (np_ndindex sT) (n, t))).
    Proof.
      intros n t Ht. unfold sT, m, tshape.
      rewrite fold_ndindex.
      destruct (okT_dims t Ht) as [Hd _]. unfold sT, m, tshape in Hd. injection Hd as Hnx Hny Hnz. rewrite Hnx.
      apply (foldM_pure (fun st => okT (snd st))); [|exact Ht].
      intros [n1 t1] i Ht1 Hi. cbn [snd] in Ht1. destruct (okT_dims t1 Ht1) as [Hd1 _]. unfold sT, m, tshape in Hd1. injection Hd1 as H1x H1y H1z.
      unfold gen_add_particle_data_loop2. rewrite H1y.
      apply (foldM_pure (fun st => okT (snd st))); [|exact Ht1].
      intros [n2 t2] j Ht2 Hj. cbn [snd] in Ht2. destruct (okT_dims t2 Ht2) as [Hd2 _]. unfold sT, m, tshape in Hd2. injection Hd2 as H2x H2y H2z.
      unfold gen_add_particle_data_loop3. rewrite H2z.
      apply (foldM_pure (fun st => okT (snd st))); [|exact Ht2].
      intros [n3 t3] k Ht3 Hk. cbn [snd] in Ht3. apply loop4_step; [exact Ht3|].
      apply in_py_range in Hi, Hj, Hk. unfold sT, m, tshape, inside, in1. rewrite !andb_true_iff, !Z.leb_le, !Z.ltb_lt. lia.
    Qed.

    (* the normalisation loops *)
    Definition step2 (N : option K) (t : lat) (ijk : Z * Z * Z) : lat :=
      if ocmp kgtb N (Some k0) then set_grid_ t (arr_upd (grid_ t) ijk (olift2 kdiv (cell (grid_ t) ijk) N)) else t.
    Lemma loop7_step : forall N i j k t, okT t -> inside sT (i, j, k) = true ->
      loop7 N i j t k = Ok (step2 N t (i, j, k)) /\ okT (step2 N t (i, j, k)).
    Proof.
      intros N i j k t Ht Hin. destruct (okT_dims t Ht) as [Hd [Hsh _]]. unfold gen_add_particle_data_loop7, step2.
      destruct (ocmp kgtb N (Some k0)); [|split; [reflexivity|exact Ht]].
      unfold arr_get, arr_set. rewrite arr_index_inside by (rewrite Hsh; exact Hin). cbn [rmap rbind]. split; [reflexivity|].
      destruct Ht as [g [-> Hg]]. eexists. split; [apply set_grid_twice|exact Hg].
    Qed.
    Lemma second_nest : forall N t, okT t ->
      foldM (loop5 N) (py_range (num_points_x_ t)) t = Ok (fold_left (step2 N) (np_ndindex sT) t)
      /\ okT (fold_left (step2 N) (np_ndindex sT) t).
    Proof.
      intros N t Ht. unfold sT, m, tshape.
      rewrite (fold_ndindex (step2 N)).
      destruct (okT_dims t Ht) as [Hd _]. unfold sT, m, tshape in Hd. injection Hd as Hnx Hny Hnz. rewrite Hnx.
      apply (foldM_pure okT); [|exact Ht].
      intros t1 i Ht1 Hi. destruct (okT_dims t1 Ht1) as [Hd1 _]. unfold sT, m, tshape in Hd1. injection Hd1 as H1x H1y H1z.
      unfold gen_add_particle_data_loop5. rewrite H1y.
      apply (foldM_pure okT); [|exact Ht1].
      intros t2 j Ht2 Hj. destruct (okT_dims t2 Ht2) as [Hd2 _]. unfold sT, m, tshape in Hd2. injection Hd2 as H2x H2y H2z.
      unfold gen_add_particle_data_loop6. rewrite H2z.
      apply (foldM_pure okT); [|exact Ht2].
      intros t3 k Ht3 Hk. apply loop7_step; [exact Ht3|].
      apply in_py_range in Hi, Hj, Hk. unfold sT, m, tshape, inside, in1. rewrite !andb_true_iff, !Z.leb_le, !Z.ltb_lt. lia.
    Qed.

    (* the two passes as folds over the grid alone *)
    Definition N1 : option K := fold_left (fun n ijk => olift2 kadd n (sf_at ijk)) (np_ndindex sT) (Some k0).
    Definition G1 : ndarr K :=
      fold_left (fun g ijk => arr_upd g ijk (olift2 kadd (cell g ijk) (v2a_at ijk))) (np_ndindex sT) (grid_ T0).
    Definition G2 : ndarr K :=
      fold_left (fun g ijk => if ocmp kgtb N1 (Some k0) then arr_upd g ijk (olift2 kdiv (cell g ijk) N1) else g) (np_ndindex sT) G1.
    Lemma first_result : fold_left step1 (np_ndindex sT) (Some k0, T0) = (N1, set_grid_ T0 G1).
    Proof.
      unfold N1, G1. rewrite <- (set_grid_same T0) at 1. generalize (grid_ T0) (Some k0). induction (np_ndindex sT) as [|a t IH]; intros g n; [reflexivity|].
      cbn [fold_left]. unfold step1 at 2. cbn [fst snd]. rewrite grid_set_grid, set_grid_twice. apply IH.
    Qed.
    Lemma second_result N g :
      fold_left (step2 N) (np_ndindex sT) (set_grid_ T0 g)
      = set_grid_ T0 (fold_left (fun g ijk => if ocmp kgtb N (Some k0) then arr_upd g ijk (olift2 kdiv (cell g ijk) N) else g) (np_ndindex sT) g).
    Proof.
      revert g. induction (np_ndindex sT) as [|a t IH]; intros g; [reflexivity|]. cbn [fold_left]. unfold step2 at 2.
      destruct (ocmp kgtb N (Some k0)) eqn:E; [rewrite grid_set_grid, set_grid_twice|]; rewrite IH; reflexivity.
    Qed.
    Lemma G1_shape : shape G1 = sT.
    Proof. unfold G1. rewrite fold_upd_shape; [reflexivity|]. reflexivity. Qed.
    Lemma G2_shape : shape G2 = sT.
    Proof. unfold G2. rewrite fold_upd_shape; [apply G1_shape|]. intros g a. destruct (ocmp kgtb N1 (Some k0)); reflexivity. Qed.
    Lemma G1_cell ijk : inside sT ijk = true -> cell G1 ijk = olift2 kadd (Some k0) (v2a_at ijk).
    Proof.
      intros H. unfold G1. rewrite (fold_upd_cell (fun p c => olift2 kadd c (v2a_at p))) by apply NoDup_ndindex.
      rewrite existsb_eq3_ndindex, H. reflexivity.
    Qed.
    Lemma G2_cell ijk : inside sT ijk = true ->
      cell G2 ijk = if ocmp kgtb N1 (Some k0) then olift2 kdiv (cell G1 ijk) N1 else cell G1 ijk.
    Proof.
      intros H. unfold G2. destruct (ocmp kgtb N1 (Some k0)).
      - rewrite (fold_upd_cell (fun p c => olift2 kdiv c N1)) by apply NoDup_ndindex. rewrite existsb_eq3_ndindex, H. reflexivity.
      - rewrite fold_left_id. reflexivity.
    Qed.

    (* ... and against the model: d is the model's validated particle *)
    Variable d : dep K.
    Hypothesis Hdv : dv d = v.
    Hypothesis Hdm : dm d = m.
    Hypothesis Hdk : forall ijk, inside sT ijk = true -> dk d (sub3 ijk m) = sf_at ijk.

    Lemma flat_map_mapped {A B C} (f : B -> list C) (g : A -> B) l : flat_map f (map g l) = flat_map (fun x => f (g x)) l.
    Proof. induction l as [|a t IH]; [reflexivity|]. cbn [map flat_map]. rewrite IH. reflexivity. Qed.
    Lemma map_flat_map {A B C} (f : B -> C) (g : A -> list B) l : map f (flat_map g l) = flat_map (fun x => map f (g x)) l.
    Proof. induction l as [|a t IH]; [reflexivity|]. cbn [flat_map]. rewrite map_app, IH. reflexivity. Qed.
    Lemma stencil_cells : stencil m = map (fun ijk => sub3 ijk m) (np_ndindex sT).
    Proof.
      unfold stencil, sT, m, tshape, np_ndindex, offsets. rewrite map_flat_map, flat_map_mapped. apply flat_map_ext. intros i.
      rewrite map_flat_map, flat_map_mapped. apply flat_map_ext. intros j. rewrite !map_map. reflexivity.
    Qed.
    Lemma fold_none l : fold_left (olift2 kadd) l None = None.
    Proof. induction l as [|a t IH]; [reflexivity|]. exact IH. Qed.
    Lemma osum_fold l : forall a, fold_left (olift2 kadd) l (Some a) = olift2 kadd (Some a) (osum K k0 kadd l).
    Proof.
      induction l as [|e t IH]; intros a.
      - cbn. f_equal. ring.
      - cbn [fold_left osum]. destruct e as [xv|]; cbn [olift2].
        + rewrite IH. destruct (osum K k0 kadd t); cbn [olift2]; [f_equal; ring|reflexivity].
        + apply fold_none.
    Qed.
    Lemma N1_knorm : N1 = knorm K k0 kadd d.
    Proof.
      unfold N1, knorm. rewrite Hdm, stencil_cells, map_map.
      rewrite <- (fold_left_mapped (olift2 kadd) sf_at), osum_fold.
      rewrite (map_ext_in (fun ijk => dk d (sub3 ijk m)) sf_at) by (intros a Ha; apply Hdk; now apply in_ndindex).
      destruct (osum K k0 kadd (map sf_at (np_ndindex sT))); cbn [olift2]; [f_equal; ring|reflexivity].
    Qed.
    (* every node of the temporary lattice finally holds the model's normalised value *)
    Lemma temp_cell ijk : inside sT ijk = true ->
      cell G2 ijk = Some (tempn_with K k0 kmul kdiv norm_ok (knorm K k0 kadd d) vol d (sub3 ijk m)).
    Proof.
      intros H. rewrite G2_cell, G1_cell by exact H. rewrite N1_knorm. unfold tempn_with, temp, v2a_at.
      rewrite (Hdk ijk H), Hdv. unfold gen_value_to_add, gen_normalise.
      assert (V : olift2 kadd (Some k0) match olift2 kdiv (olift2 kmul (Some v) (sf_at ijk)) (Some vol) with None => Some k0 | r => r end
                  = Some match sf_at ijk with Some s0 => kdiv (kmul v s0) vol | None => k0 end).
      { destruct (sf_at ijk); cbn [olift2]; f_equal; ring. }
      rewrite V. destruct (knorm K k0 kadd d) as [N|]; cbn [ocmp olift2]; [destruct (kgtb N k0)|]; reflexivity.
    Qed.

  End OneParticle.

  (* where add_same_spaced_grid puts node (i,j,k) of the temporary lattice according to the model: on c + (i,j,k) - m,
     nowhere when that is not a node *)
  Definition tgt_of (mx my mz : Z) (c n : Z * Z * Z) (ijk : Z * Z * Z) : option (Z * Z * Z) :=
    let q := add3 c (sub3 ijk (mx, my, mz)) in if inside n q then Some q else None.

  (* ---- the temporary lattice passes the spacing test of add_same_spaced_grid (exact arithmetic) ------------------- *)
  Lemma py_range_ge2 n : (2 <= n)%Z -> exists t, py_range n = 0%Z :: 1%Z :: t.
  Proof.
    intros H. unfold py_range. destruct (Z.to_nat n) as [|[|k]] eqn:E; try lia. eexists. reflexivity.
  Qed.
  Lemma q_ltb_small e : e == 0 -> q_ltb (Qabs e) same_c = true.
  Proof.
    intros H. unfold q_ltb. apply negb_true_iff. apply not_true_is_false. intros L. apply Qle_bool_iff in L.
    rewrite (Qabs_wd e 0 H) in L. revert L. unfold same_c, Qle. cbn. lia.
  Qed.
  Lemma close_temp dx mm : (0 <= mm)%Z ->
    spacing_close dx (spacing {| amin := - (inject_Z mm * dx); amax := inject_Z mm * dx; avals := tvals dx mm |}) = true.
  Proof.
    intros Hm. unfold spacing, tvals, lin. cbn [avals].
    destruct (Z.eq_dec mm 0) as [->|Hn]; [reflexivity|].
    assert (E1 : (2 * mm + 1 =? 1)%Z = false) by (apply Z.eqb_neq; lia). rewrite E1.
    destruct (py_range_ge2 (2 * mm + 1) ltac:(lia)) as [t ->]. cbn [map].
    assert (E2 : (0 =? 2 * mm + 1 - 1)%Z = false) by (apply Z.eqb_neq; lia).
    assert (E3 : (1 =? 2 * mm + 1 - 1)%Z = false) by (apply Z.eqb_neq; lia). rewrite E2, E3.
    unfold spacing_close. apply q_ltb_small.
    replace (2 * mm + 1 - 1)%Z with (2 * mm)%Z by lia. rewrite inject_Z_mult.
    assert (Hq : ~ inject_Z mm == 0) by (intros H; apply Hn; apply (eq_IZR_Q mm 0) || (unfold Qeq, inject_Z in H; cbn in H; lia)).
    field. exact Hq.
  Qed.

  (* ---- the closest node is a node ------------------------------------------------------------------------------------ *)
  Lemma argmin_from_bound : forall ds b bd i, argmin_from b bd i ds = b \/ (i <= argmin_from b bd i ds < i + List.length ds)%nat.
  Proof.
    induction ds as [|dd t IH]; intros b bd i; [now left|]. cbn [argmin_from List.length].
    destruct (Qlt_bool dd bd).
    - destruct (IH i dd (S i)) as [->|H]; right; lia.
    - destruct (IH b bd (S i)) as [->|H]; [now left|right; lia].
  Qed.
  Lemma closest1_bound v (a : axis) cc : closest1 v a = Ok cc -> (0 <= cc < Z.of_nat (npts a))%Z.
  Proof.
    unfold closest1, find_closest_index, npts. destruct (avals a) as [|v0 t].
    - destruct v; cbn; discriminate.
    - destruct v as [q| | |]; try (cbn; intros E; inversion E; subst; cbn [List.length]; lia).
      unfold argmin, dists. cbn [map rmap]. intros E. apply (f_equal (fun r => match r with Ok c' => c' | Err _ => 0%Z end)) in E. cbv beta iota in E. subst cc. cbn [List.length].
      destruct (argmin_from_bound (map (fun v : Q => Qabs (v - q)) t) 0 (Qabs (v0 - q)) 1) as [->|H]; [lia|].
      rewrite map_length in H. lia.
  Qed.
  Lemma coord1_ok cc (a : axis) : (0 <= cc < Z.of_nat (npts a))%Z -> coord1 cc a = Ok (tcoord (avals a) cc).
  Proof.
    intros H. unfold coord1, gen_coord_bad, tcoord.
    assert (E1 : (cc <? 0)%Z = false) by (apply Z.ltb_ge; lia).
    assert (E2 : (Z.of_nat (npts a) <=? cc)%Z = false) by (apply Z.leb_gt; lia). rewrite E1, E2. cbn [orb].
    destruct (nth_error (avals a) (Z.to_nat cc)) eqn:E; [rewrite (nth_error_nth _ _ _ E); reflexivity|].
    apply nth_error_None in E. unfold npts in H. lia.
  Qed.

  (* ---- one particle --------------------------------------------------------------------------------------------------- *)
  Definition nsig3 (s : lat) : Q * Q * Q := (n_sigma_x_ s, n_sigma_y_ s, n_sigma_z_ s).
  Definition prep_of (s : lat) (sigma : Q) (quantity kernel : string) (p : P) : result (dep K) :=
    prep K k1 (axis_x s) (axis_y s) (axis_z s) (nsig3 s) sigma quantity (kern_of kernel) (obs s sigma kernel p).
  (* DOMAIN.  (1) no axis has spacing 0 (the code divides by it and round() raises);  (2) building the frozen normal
     distribution does not raise (scipy raises LinAlgError for sigma = 0);  (3) when a spacing is None the code raises
     TypeError before any half width is computed, the model checks axis by axis: they agree unless an EARLIER axis has a
     negative half width *)
  Definition spacing_nonzero (s : lat) : Prop :=
    forall dx, spacing_x_ s = Some dx \/ spacing_y_ s = Some dx \/ spacing_z_ s = Some dx -> ~ dx == 0.
  Definition mvn_ok (sigma : Q) : Prop := forall mean dim, exists kv, o_mvn mean (mat_scale (Qpower sigma 2) (np_eye dim)) = Ok kv.
  Definition hw_order_ok (s : lat) (sigma : Q) : Prop :=
    match spacing_x_ s, spacing_y_ s, spacing_z_ s with
    | Some dx, None, _ => (0 <= hw (n_sigma_x_ s) sigma dx)%Z
    | Some dx, Some dy, None => (0 <= hw (n_sigma_x_ s) sigma dx)%Z /\ (0 <= hw (n_sigma_y_ s) sigma dy)%Z
    | _, _, _ => True
    end.
  (* THE FLOAT PATH, per particle: the temporary lattice (half widths dm d) centred on the coordinates of the closest
     node dc d is placed onto the nodes dc d + offset, offsets that leave the lattice are skipped *)
  Definition apd_lands (s : lat) (d : dep K) : Prop :=
    forall dx dy dz xc yc zc, spacing_x_ s = Some dx -> spacing_y_ s = Some dy -> spacing_z_ s = Some dz ->
      (let '(cx, cy, cz) := dc d in g_coords s cx cy cz) = Ok (xc, yc, zc) ->
      lands s (temp_obj dx dy dz (dm d)) dx dy dz xc yc zc
            (let '(mx, my, mz) := dm d in tgt_of mx my mz (dc d) (dims s)).

  Lemma lands_other_grid (s o : lat) g dx dy dz cx cy cz tgt : shape g = shape (grid_ o) ->
    lands s o dx dy dz cx cy cz tgt -> lands s (set_grid_ o g) dx dy dz cx cy cz tgt.
  Proof. intros Hg H i j k Hin. rewrite grid_set_grid, Hg in Hin. exact (H i j k Hin). Qed.

  (* what one pass of the particle loop does, against the model's [prep] + [deposit_one] *)
  Definition step_post (s : lat) (r : result lat) (d : dep K) : Prop :=
    forall vol, cell_volume_ s = Some vol -> apd_lands s d ->
      exists G, r = Ok (set_grid_ s (fold_left (place_step G (let '(mx, my, mz) := dm d in tgt_of mx my mz (dc d) (dims s)))
                                               (np_ndindex (tshape (dm d))) (grid_ s)))
        /\ forall ijk, inside (tshape (dm d)) ijk = true ->
             cell G ijk = Some (tempn_with K k0 kmul kdiv norm_ok (knorm K k0 kadd d) vol d (sub3 ijk (dm d))).
  Definition step_rel (s : lat) (m : result (dep K)) (r : result lat) : Prop :=
    match m with Ok d => step_post s r d | Err e => r = Err e end.

  Lemma loop1_step : forall (s : lat) sigma quantity kernel p,
    wf s -> spacing_nonzero s -> mvn_ok sigma -> hw_order_ok s sigma ->
    step_rel s (prep_of s sigma quantity kernel p) (loop1 quantity kernel sigma s p).
  Proof.
    intros s sigma quantity kernel p W Hnz Hmvn Hord.
    unfold prep_of, prep, nsig3. cbn [ppos obs]. unfold gen_add_particle_data_loop1. cbv zeta. cbv beta iota.
    change is_nan with fv_isnan.
    destruct (fv_isnan (pfv "x" p) || fv_isnan (pfv "y" p) || fv_isnan (pfv "z" p)) eqn:En; [reflexivity|].
    (* quantity *)
    unfold quantity_of, gen_quantity_table, gen_quantity_unknown. cbn [lookup pattr].
    repeat match goal with |- context [String.eqb ?l quantity] => rewrite (String.eqb_sym l quantity) end.
    match goal with |- context [rbind ?q (fun v_value : option K => @?body v_value)] => set (sf := body); set (qs := q) end.
    match goal with |- context [rbind ?q (fun v : K => @?body v)] => set (mf := body); set (qm := q) end.
    assert (Rest : forall v, step_rel s (mf v) (sf (Some v))).
    { intros v. subst mf sf qs qm. cbv beta. cbn [fk_isnan is_none].
      unfold kern_of.
      match goal with |- context [rbind ?q (fun v_kernel_value : KERN => @?body v_kernel_value)] => set (sf2 := body) end.
      match goal with |- context [rbind (half_width (n_sigma_x_ s) ?b ?c) ?f] => set (mf2 := rbind (half_width (n_sigma_x_ s) b c) f) end.
      assert (Rest2 : forall kv, kern_create sigma kernel p = Ok kv -> step_rel s mf2 (sf2 kv)).
      { intros kv Hkv. subst mf2 sf2. cbv beta. unfold half_width.
        rewrite <- (wf_sx s W), <- (wf_sy s W), <- (wf_sz s W).
        change round_half_even with py_round.
        destruct (spacing_x_ s) as [dx|] eqn:Ex; [|reflexivity].
        destruct (spacing_y_ s) as [dy|] eqn:Ey.
        2:{ cbn [is_none]. unfold hw_order_ok in Hord. rewrite Ex, Ey in Hord. unfold hw in Hord.
            assert (E : (py_round (n_sigma_x_ s * sigma / dx) <? 0)%Z = false) by (apply Z.ltb_ge; exact Hord). rewrite E. reflexivity. }
        destruct (spacing_z_ s) as [dz|] eqn:Ez.
        2:{ cbn [is_none]. unfold hw_order_ok in Hord. rewrite Ex, Ey, Ez in Hord. unfold hw in Hord. destruct Hord as [H1 H2].
            assert (E1 : (py_round (n_sigma_x_ s * sigma / dx) <? 0)%Z = false) by (apply Z.ltb_ge; exact H1).
            assert (E2 : (py_round (n_sigma_y_ s * sigma / dy) <? 0)%Z = false) by (apply Z.ltb_ge; exact H2). rewrite E1, E2. reflexivity. }
        cbn [is_none opt_get rbind]. unfold q_div.
        assert (Zx : Qeq_bool dx 0 = false) by (apply not_true_is_false; intros H; apply Qeq_bool_iff in H; exact (Hnz dx (or_introl Ex) H)).
        assert (Zy : Qeq_bool dy 0 = false) by (apply not_true_is_false; intros H; apply Qeq_bool_iff in H; exact (Hnz dy (or_intror (or_introl Ey)) H)).
        assert (Zz : Qeq_bool dz 0 = false) by (apply not_true_is_false; intros H; apply Qeq_bool_iff in H; exact (Hnz dz (or_intror (or_intror Ez)) H)).
        rewrite Zx, Zy, Zz. cbn [rbind].
        set (mx := py_round (n_sigma_x_ s * sigma / dx)). set (my := py_round (n_sigma_y_ s * sigma / dy)).
        set (mz := py_round (n_sigma_z_ s * sigma / dz)).
        rewrite source___init__.
        assert (P0 : ((2 * mx + 1) * (2 * my + 1) * (2 * mz + 1) =? 0)%Z = false).
        { apply Z.eqb_neq. apply Z.neq_mul_0. split; [apply Z.neq_mul_0; split|]; lia. }
        rewrite P0.
        destruct (mx <? 0)%Z eqn:Mx.
        { assert (E : (2 * mx + 1 <? 0)%Z = true) by (apply Z.ltb_lt; apply Z.ltb_lt in Mx; lia). rewrite E. reflexivity. }
        assert (Ex' : (2 * mx + 1 <? 0)%Z = false) by (apply Z.ltb_ge; apply Z.ltb_ge in Mx; lia). rewrite Ex'. cbn [rbind orb].
        destruct (my <? 0)%Z eqn:My.
        { assert (E : (2 * my + 1 <? 0)%Z = true) by (apply Z.ltb_lt; apply Z.ltb_lt in My; lia). rewrite E. reflexivity. }
        assert (Ey' : (2 * my + 1 <? 0)%Z = false) by (apply Z.ltb_ge; apply Z.ltb_ge in My; lia). rewrite Ey'. cbn [rbind orb].
        destruct (mz <? 0)%Z eqn:Mz.
        { assert (E : (2 * mz + 1 <? 0)%Z = true) by (apply Z.ltb_lt; apply Z.ltb_lt in Mz; lia). rewrite E. reflexivity. }
        assert (Ez' : (2 * mz + 1 <? 0)%Z = false) by (apply Z.ltb_ge; apply Z.ltb_ge in Mz; lia). rewrite Ez'. cbn [rbind orb].
        apply Z.ltb_ge in Mx, My, Mz.
        change (init_obj (- (inject_Z mx * dx)) (inject_Z mx * dx) (- (inject_Z my * dy)) (inject_Z my * dy) (- (inject_Z mz * dz))
                  (inject_Z mz * dz) (2 * mx + 1) (2 * my + 1) (2 * mz + 1) gen_default___init___n_sigma_x
                  gen_default___init___n_sigma_y gen_default___init___n_sigma_z) with (temp_obj dx dy dz (mx, my, mz)).
        (* the closest node exists: the axes have at least two nodes *)
        assert (CT : forall vv (a : axis) dd, spacing a = Some dd -> exists cc, closest1 vv a = Ok cc).
        { intros vv a dd Hs. unfold spacing in Hs. unfold closest1, find_closest_index.
          destruct (avals a) as [|v0 [|v1 t]]; try discriminate. destruct vv; cbn; eexists; reflexivity. }
        destruct (CT (pfv "x" p) (axis_x s) dx) as [cx Cx]; [rewrite <- (wf_sx s W); exact Ex|].
        destruct (CT (pfv "y" p) (axis_y s) dy) as [cy Cy]; [rewrite <- (wf_sy s W); exact Ey|].
        destruct (CT (pfv "z" p) (axis_z s) dz) as [cz Cz]; [rewrite <- (wf_sz s W); exact Ez|].
        rewrite Cx, Cy, Cz. cbn [rbind step_rel]. intros vol Hvol Hl. cbn [dm dc].
        set (T0 := temp_obj dx dy dz (mx, my, mz)).
        assert (OK0 : okT dx dy dz mx my mz T0) by (exists (grid_ T0); split; [symmetry; apply set_grid_same|reflexivity]).
        rewrite (proj1 (first_nest s kernel p kv v vol dx dy dz mx my mz Hvol (conj Mx (conj My Mz)) (Some k0) T0 OK0)).
        subst T0. rewrite first_result. cbn [rbind]. cbv beta iota.
        set (T0 := temp_obj dx dy dz (mx, my, mz)).
        exists (G2 kernel p kv v vol dx dy dz mx my mz). split.
        - assert (OK1 : okT dx dy dz mx my mz (set_grid_ T0 (G1 kernel p kv v vol dx dy dz mx my mz))).
          { eexists. split; [reflexivity|apply G1_shape]. }
          rewrite (proj1 (second_nest dx dy dz mx my mz (N1 kernel p kv dx dy dz mx my mz) _ OK1)).
          subst T0. rewrite second_result. fold (G2 kernel p kv v vol dx dy dz mx my mz). cbn [rbind].
          rewrite source_find_closest_indices, Cx, Cy, Cz. cbn [rbind]. cbv beta iota.
          assert (Co : g_coords s cx cy cz = Ok (tcoord (x_values_ s) cx, tcoord (y_values_ s) cy, tcoord (z_values_ s) cz)).
          { rewrite (source_get_coordinates s cx cy cz W).
            rewrite (coord1_ok cx (axis_x s) (closest1_bound _ _ _ Cx)), (coord1_ok cy (axis_y s) (closest1_bound _ _ _ Cy)),
              (coord1_ok cz (axis_z s) (closest1_bound _ _ _ Cz)). reflexivity. }
          rewrite Co. cbn [rbind]. cbv beta iota.
          unfold apd_lands in Hl. cbn [dc dm] in Hl. specialize (Hl dx dy dz _ _ _ Ex Ey Ez Co).
          rewrite (source_add_same_spaced_grid s _ _ _ _ dx dy dz (tgt_of mx my mz (cx, cy, cz) (dims s)) (wf_shape s W) Ex Ey Ez).
          + rewrite grid_set_grid, G2_shape. reflexivity.
          + unfold temp_obj, init_obj. cbn [spacing_x_ spacing_y_ spacing_z_ set_grid_].
            pose proof (close_temp dx mx Mx) as C1. pose proof (close_temp dy my My) as C2. pose proof (close_temp dz mz Mz) as C3.
            unfold tvals in C1, C2, C3. rewrite C1, C2, C3. reflexivity.
          + apply lands_other_grid; [apply G2_shape|exact Hl].
        - apply (temp_cell kernel p kv v vol dx dy dz mx my mz); try reflexivity.
          intros [[i j] k] Hin. cbn [dk dm sub3 obs pkern]. unfold obs_kern, hws. rewrite Ex, Ey, Ez, Hkv. cbn [sp_of]. unfold hw.
          fold mx my mz. unfold sf_at.
          replace (i - mx + mx)%Z with i by lia. replace (j - my + my)%Z with j by lia. replace (k - mz + mz)%Z with k by lia.
          reflexivity. }
      unfold kern_create in Rest2.
      destruct (String.eqb kernel "gaussian") eqn:Eg.
      - destruct (Hmvn [pfv "x" p; pfv "y" p; pfv "z" p] 3%Z) as [kv Ekv]. rewrite Ekv. cbn [rbind]. exact (Rest2 kv Ekv).
      - destruct (String.eqb kernel "covariant") eqn:Ec; [|reflexivity].
        cbn [pmom_nan obs]. destruct (fv_isnan (pfv "px" p) || fv_isnan (pfv "py" p) || fv_isnan (pfv "pz" p)); [reflexivity|].
        destruct (Hmvn [Fin (0 # 1); Fin (0 # 1)] 2%Z) as [kv Ekv]. rewrite Ekv. cbn [rbind]. exact (Rest2 kv Ekv). }
    assert (RestN : sf None = Err ValueError) by reflexivity.
    subst qs qm.
    repeat match goal with |- context [String.eqb quantity ?l] => destruct (String.eqb quantity l) end;
      cbn [pattr obs];
      try match goal with |- context [pfk ?a p] => destruct (pfk a p) as [v|] end;
      cbn [rbind step_rel]; try exact (Rest _); try exact RestN.
  Qed.

  (* ---- the float path, axis by axis, in terms of the hand-model functions of Model/Lattice.v --------------------------- *)
  (* one axis: node i of the temporary lattice (half width m), moved by the coordinate of node c, fails the range test
     exactly when c + i - m is not a node, and otherwise (after clamping) has c + i - m as nearest node *)
  Definition lands1 (a : axis) (dx : Q) (c m : Z) : Prop :=
    forall i, (0 <= i < 2 * m + 1)%Z ->
      let pos := (tcoord (tvals dx m) i + tcoord (avals a) c)%Q in
      if out1 pos (amin a) (amax a) (tol_c * Qabs dx)
      then in1 (c + (i - m)) (Z.of_nat (npts a)) = false
      else in1 (c + (i - m)) (Z.of_nat (npts a)) = true
           /\ get_index_nn (Fin (clamp pos (amin a) (amax a))) (avals a) = Ok (Z.to_nat (c + (i - m))).

  Lemma lands_axes (s : lat) dx dy dz cx cy cz mx my mz : wf s -> (0 <= mx)%Z -> (0 <= my)%Z -> (0 <= mz)%Z ->
    lands1 (axis_x s) dx cx mx -> lands1 (axis_y s) dy cy my -> lands1 (axis_z s) dz cz mz ->
    lands s (temp_obj dx dy dz (mx, my, mz)) dx dy dz (tcoord (x_values_ s) cx) (tcoord (y_values_ s) cy) (tcoord (z_values_ s) cz)
          (tgt_of mx my mz (cx, cy, cz) (dims s)).
  Proof.
    intros W Mx My Mz Lx Ly Lz i j k Hin.
    assert (OK0 : okT dx dy dz mx my mz (temp_obj dx dy dz (mx, my, mz))).
    { eexists. split; [symmetry; apply set_grid_same|reflexivity]. }
    destruct (okT_lengths dx dy dz mx my mz (conj Mx (conj My Mz)) _ OK0) as [L1 [L2 L3]].
    change (shape (grid_ (temp_obj dx dy dz (mx, my, mz)))) with (tshape (mx, my, mz)) in Hin.
    eexists _, _, _. split; [apply coords_at; try assumption; exact Hin|]. cbv zeta.
    change (x_values_ (temp_obj dx dy dz (mx, my, mz))) with (tvals dx mx).
    change (y_values_ (temp_obj dx dy dz (mx, my, mz))) with (tvals dy my).
    change (z_values_ (temp_obj dx dy dz (mx, my, mz))) with (tvals dz mz).
    unfold inside, tshape, in1 in Hin. rewrite !andb_true_iff, !Z.leb_le, !Z.ltb_lt in Hin.
    specialize (Lx i ltac:(lia)). specialize (Ly j ltac:(lia)). specialize (Lz k ltac:(lia)). cbv zeta in Lx, Ly, Lz.
    cbn [amin amax avals axis_x axis_y axis_z] in Lx, Ly, Lz.
    unfold tgt_of, dims. cbn [add3 sub3 inside]. rewrite (wf_nx s W), (wf_ny s W), (wf_nz s W).
    destruct (out1 _ (x_min_ s) _ _); [rewrite Lx; reflexivity|]. destruct Lx as [Ix Nx]. rewrite Ix.
    destruct (out1 _ (y_min_ s) _ _); [rewrite Ly; reflexivity|]. destruct Ly as [Iy Ny]. rewrite Iy.
    destruct (out1 _ (z_min_ s) _ _); [rewrite Lz; reflexivity|]. destruct Lz as [Iz Nz]. rewrite Iz.
    cbn [orb andb]. eexists. split; [reflexivity|]. split; [cbn [inside]; rewrite Ix, Iy, Iz; reflexivity|].
    rewrite source___get_indices_nearest_neighbor. cbn [avals axis_x axis_y axis_z] in Nx, Ny, Nz. rewrite Nx, Ny, Nz. cbn [rmap rbind].
    unfold in1 in Ix, Iy, Iz. rewrite andb_true_iff, Z.leb_le in Ix, Iy, Iz. rewrite !Z2Nat.id by lia. reflexivity.
  Qed.

  (* [apd_lands] from the three axes *)
  Lemma apd_lands_axes (s : lat) (d : dep K) : wf s ->
    (let '(mx, my, mz) := dm d in (0 <= mx /\ 0 <= my /\ 0 <= mz)%Z) ->
    (forall dx dy dz, spacing_x_ s = Some dx -> spacing_y_ s = Some dy -> spacing_z_ s = Some dz ->
       let '(cx, cy, cz) := dc d in let '(mx, my, mz) := dm d in
       lands1 (axis_x s) dx cx mx /\ lands1 (axis_y s) dy cy my /\ lands1 (axis_z s) dz cz mz) ->
    (let '(cx, cy, cz) := dc d in
     (0 <= cx < Z.of_nat (npts (axis_x s)) /\ 0 <= cy < Z.of_nat (npts (axis_y s)) /\ 0 <= cz < Z.of_nat (npts (axis_z s)))%Z) ->
    apd_lands s d.
  Proof.
    intros W Hm H Hc dx dy dz xc yc zc Ex Ey Ez Co. specialize (H dx dy dz Ex Ey Ez).
    destruct (dc d) as [[cx cy] cz], (dm d) as [[mx my] mz]. destruct H as [H1 [H2 H3]], Hm as [M1 [M2 M3]], Hc as [C1 [C2 C3]].
    rewrite (source_get_coordinates s cx cy cz W), (coord1_ok cx _ C1), (coord1_ok cy _ C2), (coord1_ok cz _ C3) in Co.
    cbn [rbind] in Co. injection Co as <- <- <-. now apply lands_axes.
  Qed.

  (* ---- the whole method ------------------------------------------------------------------------------------------------ *)
  Lemma place_sim_gen (d : dep K) vol n G mx my mz :
    (forall ijk, inside (tshape (mx, my, mz)) ijk = true ->
       cell G ijk = Some (tempn_with K k0 kmul kdiv norm_ok (knorm K k0 kadd d) vol d (sub3 ijk (mx, my, mz)))) ->
    forall l, (forall ijk, In ijk l -> inside (tshape (mx, my, mz)) ijk = true) ->
    forall g gm, (forall q, inside n q = true -> cell g q = Some (gm q)) ->
    forall q, inside n q = true ->
      cell (fold_left (place_step G (tgt_of mx my mz (dc d) n)) l g) q
      = Some (fold_left (place_with K k0 kadd kmul kdiv norm_ok (knorm K k0 kadd d) n vol d) (map (fun ijk => sub3 ijk (mx, my, mz)) l) gm q).
  Proof.
    intros HG. induction l as [|ijk t IH]; intros Hl g gm Hg q Hq; [exact (Hg q Hq)|]. cbn [fold_left map].
    apply IH; [intros a Ha; apply Hl; now right| |exact Hq].
    intros q' Hq'. unfold place_step, place_with, tgt_of.
    destruct (inside n (add3 (dc d) (sub3 ijk (mx, my, mz)))) eqn:E; [|exact (Hg q' Hq')].
    cbn [arr_upd cell]. unfold zupd. rewrite idx_eqb_eq3. destruct (eq3 q' (add3 (dc d) (sub3 ijk (mx, my, mz)))); [|exact (Hg q' Hq')].
    rewrite (Hg _ E), (HG ijk (Hl ijk (or_introl eq_refl))). reflexivity.
  Qed.

  (* the object and the model's state describe the same lattice *)
  Record Abs (s : lat) (L : slat K) : Prop := {
    abs_wf : wf s;
    abs_x : sax L = axis_x s;
    abs_y : say L = axis_y s;
    abs_z : saz L = axis_z s;
    abs_vol : cell_volume_ s = Some (svol L);
    abs_grid : forall q, inside (dims s) q = true -> cell (grid_ s) q = Some (sgrid L q) }.
  Definition res_rel (r : result lat) (m : result (slat K)) : Prop :=
    match r, m with Ok s', Ok L' => Abs s' L' | Err e, Err e' => e = e' | _, _ => False end.
  Definition with_sgrid (L : slat K) (g : zgrid K) : slat K :=
    {| sax := sax L; say := say L; saz := saz L; svol := svol L; sgrid := g |}.

  Lemma wf_set_grid (s : lat) g : wf s -> shape g = dims s -> wf (set_grid_ s g).
  Proof. intros W Hg. destruct W. constructor; assumption. Qed.
  Lemma place_step_shape G tgt (g : ndarr K) a : shape (place_step G tgt g a) = shape g.
  Proof. unfold place_step. destruct (tgt a); reflexivity. Qed.

  Lemma apd_fold (s : lat) (L : slat K) sigma quantity kernel : Abs s L ->
    spacing_nonzero s -> mvn_ok sigma -> hw_order_ok s sigma ->
    forall ps, (forall p d, In p ps -> prep_of s sigma quantity kernel p = Ok d -> apd_lands s d) ->
    forall g gm, shape g = dims s -> (forall q, inside (dims s) q = true -> cell g q = Some (gm q)) ->
    res_rel (foldM (loop1 quantity kernel sigma) ps (set_grid_ s g))
            (rbind (mapM (prep K k1 (sax L) (say L) (saz L) (nsig3 s) sigma quantity (kern_of kernel)) (map (obs s sigma kernel) ps))
                   (fun ds => Ok (with_sgrid L (deposit_all K k0 kadd kmul kdiv norm_ok (dims s) (svol L) gm ds)))).
  Proof.
    intros A Hnz Hmvn Hord. destruct A as [W Ax Ay Az Av Ag].
    induction ps as [|p ps IH]; intros Hl g gm Hg Hc.
    - cbn. constructor; try assumption. apply wf_set_grid; assumption.
    - cbn [foldM map mapM]. rewrite Ax, Ay, Az.
      pose proof (loop1_step (set_grid_ s g) sigma quantity kernel p (wf_set_grid s g W Hg) Hnz Hmvn Hord) as St.
      change (prep_of (set_grid_ s g) sigma quantity kernel p) with (prep_of s sigma quantity kernel p) in St.
      fold (prep_of s sigma quantity kernel p).
      destruct (prep_of s sigma quantity kernel p) as [d|e] eqn:Ep; cbn [step_rel] in St.
      + destruct (St (svol L) Av (Hl p d (or_introl eq_refl) Ep)) as [G [E HG]]. rewrite E. clear St E.
        rewrite grid_set_grid, dims_set_grid, set_grid_twice. cbn [rbind].
        destruct (dm d) as [[mx my] mz] eqn:Em.
        specialize (IH (fun p' d' Hp' => Hl p' d' (or_intror Hp'))
                       (fold_left (place_step G (tgt_of mx my mz (dc d) (dims s))) (np_ndindex (tshape (mx, my, mz))) g)
                       (deposit_one K k0 kadd kmul kdiv norm_ok (dims s) (svol L) gm d)).
        rewrite Ax, Ay, Az in IH.
        destruct (mapM _ (map (obs s sigma kernel) ps)) as [ds|e'] eqn:Em'; cbn [rmap rbind] in IH |- *.
        * apply IH.
          -- rewrite fold_upd_shape; [exact Hg|]. intros; apply place_step_shape.
          -- intros q Hq. unfold deposit_one. rewrite Em, (stencil_cells mx my mz).
             apply (place_sim_gen d (svol L) (dims s) G mx my mz HG); try assumption.
             intros ijk Hin. now apply in_ndindex.
        * apply IH.
          -- rewrite fold_upd_shape; [exact Hg|]. intros; apply place_step_shape.
          -- intros q Hq. unfold deposit_one. rewrite Em, (stencil_cells mx my mz).
             apply (place_sim_gen d (svol L) (dims s) G mx my mz HG); try assumption.
             intros ijk Hin. now apply in_ndindex.
      + rewrite St. reflexivity.
  Qed.

  Lemma abs_dims (s : lat) (L : slat K) : Abs s L -> sdims L = dims s.
  Proof.
    intros [W Ax Ay Az _ _]. unfold sdims, dims. rewrite Ax, Ay, Az, (wf_nx s W), (wf_ny s W), (wf_nz s W). reflexivity.
  Qed.

  (* add_particle_data(particle_data, sigma, quantity, kernel, add): the object afterwards and the model's state describe
     the same lattice (same axes, cell volume, and node by node the same content); an exception has the same class *)
  Theorem source_add_particle_data : forall (s : lat) (L : slat K) ps sigma quantity kernel add,
    Abs s L -> spacing_nonzero s -> mvn_ok sigma -> hw_order_ok s sigma ->
    (forall p d, In p ps -> prep_of s sigma quantity kernel p = Ok d -> apd_lands s d) ->
    res_rel (g_apd s ps sigma quantity kernel add)
            (add_particle_data K k0 k1 kadd kmul kdiv norm_ok L (nsig3 s) (map (obs s sigma kernel) ps) sigma quantity
                               (kern_of kernel) add).
  Proof.
    intros s L ps sigma quantity kernel add A Hnz Hmvn Hord Hl.
    unfold gen_add_particle_data, add_particle_data. rewrite (abs_dims s L A).
    pose proof (apd_fold s L sigma quantity kernel A Hnz Hmvn Hord ps Hl) as F. destruct A as [W Ax Ay Az Av Ag].
    destruct add; cbn [negb rbind].
    - rewrite <- (set_grid_same s) at 1. apply F; [exact (wf_shape s W)|exact Ag].
    - rewrite source_reset. cbn [rbind]. apply F.
      + rewrite fold_upd_shape; [exact (wf_shape s W)|reflexivity].
      + intros q Hq. rewrite reset_cell, (wf_shape s W), Hq. reflexivity.
  Qed.

  Theorem source_defaults :
    gen_default_add_particle_data_kernel = "gaussian"%string /\ gen_default_add_particle_data_add = false
    /\ gen_default___init___n_sigma_x = None /\ gen_default___init___n_sigma_y = None /\ gen_default___init___n_sigma_z = None.
  Proof. repeat split. Qed.
End Source.

(* ---- the float-path hypothesis holds in exact arithmetic on a uniformly spaced axis ---------------------------------- *)
(* node k of the axis is amin + k * dx with dx > 0, amax is the last node *)
Definition uniform (a : axis) (dx : Q) : Prop :=
  0 < dx /\ (forall k, (k < npts a)%nat -> nth k (avals a) 0 == amin a + inject_Z (Z.of_nat k) * dx)
  /\ amax a == amin a + inject_Z (Z.of_nat (npts a) - 1) * dx.

Lemma q_ltb_iff x y : q_ltb x y = true <-> x < y.
Proof.
  unfold q_ltb. rewrite negb_true_iff. split.
  - intros H. apply Qnot_le_lt. intros L. apply Qle_bool_iff in L. congruence.
  - intros H. apply not_true_is_false. intros L. apply Qle_bool_iff in L. exact (Qlt_not_le _ _ H L).
Qed.
Lemma q_ltb_false_iff x y : q_ltb x y = false <-> y <= x.
Proof.
  unfold q_ltb. rewrite negb_false_iff. apply Qle_bool_iff.
Qed.
Lemma nth_map_py_range (f : Z -> Q) n i : (0 <= i < n)%Z -> nth (Z.to_nat i) (map f (py_range n)) 0 = f i.
Proof.
  intros H. unfold py_range. rewrite map_map.
  rewrite (nth_indep _ 0 (f (Z.of_nat 0))) by (rewrite map_length, seq_length; lia).
  rewrite (map_nth (fun x => f (Z.of_nat x)) (seq 0 (Z.to_nat n)) 0%nat (Z.to_nat i)), seq_nth by lia. f_equal. lia.
Qed.
Lemma inject_Z_le a b : (a <= b)%Z -> inject_Z a <= inject_Z b.
Proof. intros H. unfold Qle, inject_Z. cbn. lia. Qed.
Lemma inject_Z_sub a b : inject_Z (a - b) == inject_Z a - inject_Z b.
Proof. unfold Z.sub. rewrite inject_Z_plus, inject_Z_opp. reflexivity. Qed.

(* the nodes of the temporary lattice are (i - m) * dx *)
Lemma tvals_exact dx m i : (0 <= m)%Z -> (0 <= i < 2 * m + 1)%Z -> tcoord (tvals dx m) i == inject_Z (i - m) * dx.
Proof.
  intros Hm Hi. unfold tcoord, tvals, lin. destruct (Z.eq_dec m 0) as [->|Hn].
  - assert (i = 0%Z) by lia. subst i. cbn. ring.
  - assert (E1 : (2 * m + 1 =? 1)%Z = false) by (apply Z.eqb_neq; lia). rewrite E1.
    rewrite nth_map_py_range by exact Hi.
    assert (Hq : ~ inject_Z m == 0) by (unfold Qeq, inject_Z; cbn; lia).
    destruct (i =? 2 * m + 1 - 1)%Z eqn:E.
    + apply Z.eqb_eq in E. replace (i - m)%Z with m by lia. reflexivity.
    + replace (2 * m + 1 - 1)%Z with (2 * m)%Z by lia. rewrite inject_Z_mult, inject_Z_sub. field. exact Hq.
Qed.

(* argmin of a list with a strict minimum *)
Lemma argmin_from_none ds : forall b bd i, (forall d, In d ds -> bd <= d) -> argmin_from b bd i ds = b.
Proof.
  induction ds as [|d t IH]; intros b bd i H; [reflexivity|]. cbn [argmin_from]. unfold Qlt_bool.
  assert (E : Qle_bool bd d = true) by (apply Qle_bool_iff; apply H; now left). rewrite E. cbn [negb].
  apply IH. intros d' Hd'. apply H. now right.
Qed.
Lemma argmin_from_strict ds : forall j b bd i, (j < List.length ds)%nat -> nth j ds 0 < bd ->
  (forall k, (k < List.length ds)%nat -> k <> j -> nth j ds 0 < nth k ds 0) -> argmin_from b bd i ds = (i + j)%nat.
Proof.
  induction ds as [|d t IH]; intros j b bd i Hj Hlt Hmin; [cbn in Hj; lia|]. cbn [argmin_from]. unfold Qlt_bool.
  destruct j as [|j'].
  - cbn [nth] in Hlt, Hmin.
    assert (E : Qle_bool bd d = false) by (apply not_true_is_false; intros L; apply Qle_bool_iff in L; exact (Qlt_not_le _ _ Hlt L)).
    rewrite E. cbn [negb]. rewrite argmin_from_none; [lia|]. intros d' Hd'. apply In_nth with (d := 0) in Hd'.
    destruct Hd' as [k [Hk <-]]. apply Qlt_le_weak. apply (Hmin (S k)); cbn [List.length]; lia.
  - cbn [nth List.length] in *. destruct (Qle_bool bd d) eqn:E; cbn [negb].
    + rewrite (IH j' b bd (S i)); [lia|lia|exact Hlt|]. intros k Hk Hkj. apply (Hmin (S k)); lia.
    + rewrite (IH j' i d (S i)); [lia|lia| |]. 
      * apply (Hmin 0%nat); lia.
      * intros k Hk Hkj. apply (Hmin (S k)); lia.
Qed.
Lemma argmin_strict ds j : (j < List.length ds)%nat ->
  (forall k, (k < List.length ds)%nat -> k <> j -> nth j ds 0 < nth k ds 0) -> argmin ds = Ok j.
Proof.
  intros Hj Hmin. destruct ds as [|d t]; [cbn in Hj; lia|]. unfold argmin. f_equal. destruct j as [|j'].
  - apply argmin_from_none. intros d' Hd'. apply In_nth with (d := 0) in Hd'. destruct Hd' as [k [Hk <-]].
    apply Qlt_le_weak. apply (Hmin (S k)); cbn [List.length]; lia.
  - cbn [List.length] in Hj. rewrite (argmin_from_strict t j' 0 d 1); [reflexivity|lia| |].
    + apply (Hmin 0%nat); cbn [List.length]; lia.
    + intros k Hk Hkj. apply (Hmin (S k)); cbn [List.length]; lia.
Qed.

Lemma Qabs_pos_neq x : ~ x == 0 -> 0 < Qabs x.
Proof.
  intros H. destruct (Qlt_le_dec 0 x) as [L|L].
  - rewrite Qabs_pos by (apply Qlt_le_weak; exact L). exact L.
  - rewrite Qabs_neg by exact L. destruct (Qlt_le_dec x 0) as [L'|L']; [lra|]. exfalso. apply H. lra.
Qed.

Theorem lands1_uniform : forall (a : axis) dx c m,
  uniform a dx -> (0 <= c < Z.of_nat (npts a))%Z -> (0 <= m)%Z -> lands1 a dx c m.
Proof.
  intros a dx c m [Hdx [Hn Hmax]] Hc Hm i Hi. cbv zeta.
  set (n := npts a) in *. set (t := (c + (i - m))%Z).
  set (pos := tcoord (tvals dx m) i + tcoord (avals a) c).
  assert (Epos : pos == amin a + inject_Z t * dx).
  { unfold pos, tcoord at 2. rewrite tvals_exact by assumption. rewrite (Hn (Z.to_nat c)) by lia. rewrite Z2Nat.id by lia.
    unfold t. rewrite inject_Z_plus. ring. }
  assert (Etol : tol_c * Qabs dx == tol_c * dx) by (rewrite Qabs_pos by (apply Qlt_le_weak; exact Hdx); reflexivity).
  assert (Tc : 0 < tol_c /\ tol_c < 1) by (unfold tol_c, Qlt; cbn; lia).
  unfold out1.
  destruct (Z_lt_le_dec t 0) as [Lt|Ge].
  { (* left of the lattice *)
    assert (E : q_ltb pos (amin a - tol_c * Qabs dx) = true).
    { apply q_ltb_iff. rewrite Epos, Etol. pose proof (inject_Z_le t (-1) ltac:(lia)) as HT. change (inject_Z (-1)) with (-(1)) in HT. nra. }
    rewrite E. cbn [orb]. unfold in1. apply andb_false_iff. left. apply Z.leb_gt. exact Lt. }
  assert (E1 : q_ltb pos (amin a - tol_c * Qabs dx) = false).
  { apply q_ltb_false_iff. rewrite Epos, Etol. pose proof (inject_Z_le 0 t Ge) as HT. change (inject_Z 0) with 0 in HT. nra. }
  rewrite E1. cbn [orb].
  destruct (Z_lt_le_dec t (Z.of_nat n)) as [Ltn|Gen].
  2:{ (* right of the lattice *)
    assert (E : q_ltb (amax a + tol_c * Qabs dx) pos = true).
    { apply q_ltb_iff. rewrite Epos, Etol, Hmax. pose proof (inject_Z_le (Z.of_nat n) t Gen) as HT.
      rewrite inject_Z_sub. change (inject_Z 1) with 1. nra. }
    rewrite E. unfold in1. apply andb_false_iff. right. apply Z.ltb_ge. exact Gen. }
  assert (E2 : q_ltb (amax a + tol_c * Qabs dx) pos = false).
  { apply q_ltb_false_iff. rewrite Epos, Etol, Hmax. pose proof (inject_Z_le t (Z.of_nat n - 1) ltac:(lia)) as HT. nra. }
  rewrite E2. split; [unfold in1; apply andb_true_iff; split; [apply Z.leb_le|apply Z.ltb_lt]; assumption|].
  (* inside: clamping changes nothing, the nearest node is t *)
  assert (Plo : amin a <= pos) by (rewrite Epos; pose proof (inject_Z_le 0 t Ge) as HT; change (inject_Z 0) with 0 in HT; nra).
  assert (Phi : pos <= amax a) by (rewrite Epos, Hmax; pose proof (inject_Z_le t (Z.of_nat n - 1) ltac:(lia)) as HT; nra).
  assert (Ecl : clamp pos (amin a) (amax a) = pos).
  { unfold clamp, py_max, py_min. rewrite (proj2 (q_ltb_false_iff pos (amin a)) Plo), (proj2 (q_ltb_false_iff (amax a) pos) Phi). reflexivity. }
  rewrite Ecl. unfold get_index_nn, in_axis_range.
  destruct (avals a) as [|v0 rest] eqn:Ea; [unfold n, npts in Hc; rewrite Ea in Hc; cbn in Hc; lia|].
  assert (Ln : List.length (v0 :: rest) = n) by (unfold n, npts; rewrite Ea; reflexivity).
  assert (Hn' : forall k, (k < n)%nat -> nth k (v0 :: rest) 0 == amin a + inject_Z (Z.of_nat k) * dx) by (intros k Hk; exact (Hn k Hk)).
  assert (V0 : Qle_bool v0 pos = true).
  { apply Qle_bool_iff. pose proof (Hn' 0%nat ltac:(lia)) as H0. cbn [nth] in H0. rewrite H0. change (inject_Z (Z.of_nat 0)) with 0. lra. }
  assert (VL : Qle_bool pos (last (v0 :: rest) v0) = true).
  { apply Qle_bool_iff. pose proof (nth_error_last (v0 :: rest) v0 ltac:(discriminate)) as HL.
    apply (nth_error_nth _ _ 0) in HL. rewrite <- HL, Ln. rewrite (Hn' (n - 1)%nat) by lia.
    replace (Z.of_nat (n - 1)) with (Z.of_nat n - 1)%Z by lia. rewrite <- Hmax. exact Phi. }
  cbn [rbind q_le_fv fv_le_q]. rewrite V0, VL. cbn [andb negb]. unfold find_closest_index.
  apply argmin_strict.
  - unfold dists. rewrite map_length, Ln. lia.
  - unfold dists. rewrite map_length, Ln. intros k Hk Hkt.
    assert (Nk : forall k', (k' < n)%nat -> nth k' (map (fun v => Qabs (v - pos)) (v0 :: rest)) 0 = Qabs (nth k' (v0 :: rest) 0 - pos)).
    { intros k' Hk'. rewrite (nth_indep _ 0 ((fun v => Qabs (v - pos)) 0)) by (rewrite map_length, Ln; exact Hk'). exact (map_nth (fun v => Qabs (v - pos)) (v0 :: rest) 0 k'). }
    rewrite !Nk by lia.
    assert (Zt : nth (Z.to_nat t) (v0 :: rest) 0 - pos == 0).
    { rewrite (Hn' (Z.to_nat t)) by lia. rewrite Z2Nat.id by lia. rewrite Epos. ring. }
    rewrite (Qabs_wd _ _ Zt). apply Qabs_pos_neq.
    rewrite (Hn' k Hk), Epos. intros H.
    assert (H' : (inject_Z (Z.of_nat k) - inject_Z t) * dx == 0) by (rewrite <- H; ring).
    apply Qmult_integral in H'. destruct H' as [H'|H']; [|lra].
    rewrite <- inject_Z_sub in H'. unfold Qeq, inject_Z in H'. cbn in H'. lia.
Qed.

Lemma uniform_wd a dx dx' : dx' == dx -> uniform a dx -> uniform a dx'.
Proof.
  intros E [H1 [H2 H3]]. split; [rewrite E; exact H1|]. split; [intros k Hk; rewrite E; exact (H2 k Hk)|rewrite E; exact H3].
Qed.

Section Uniform.
  Variable K : Type.
  Variables (k0 k1 : K) (kadd kmul ksub kdiv : K -> K -> K) (kopp kinv : K -> K).
  Variable kgtb : K -> K -> bool.
  Variable kofq : Q -> K.
  Variable P : Type.
  Variable pfv : string -> P -> fv.
  Variable pfk : string -> P -> option K.
  Variable KERN : Type.
  Variable o_mvn : list fv -> smat -> result KERN.
  Variable o_pdf : KERN -> list fv -> option K.
  Variable o_sqrt : fv -> fv.
  Hypothesis Fth : field_theory k0 k1 kadd kmul ksub kopp kdiv kinv (@eq K).

  (* what a successful [prep] says about the half widths and the closest node *)
  Lemma prep_ok_facts (s : lat K) sigma quantity kernel p d :
    prep_of K k1 P pfv pfk KERN o_mvn o_pdf o_sqrt s sigma quantity kernel p = Ok d ->
    (let '(mx, my, mz) := dm d in (0 <= mx /\ 0 <= my /\ 0 <= mz)%Z)
    /\ (let '(cx, cy, cz) := dc d in
        (0 <= cx < Z.of_nat (npts (axis_x K s)) /\ 0 <= cy < Z.of_nat (npts (axis_y K s)) /\ 0 <= cz < Z.of_nat (npts (axis_z K s)))%Z).
  Proof.
    unfold prep_of, prep, nsig3. cbn [ppos obs]. cbv beta iota.
    destruct (is_nan _ || is_nan _ || is_nan _); [discriminate|].
    destruct (quantity_of K k1 quantity _) as [v|]; [|discriminate]. cbn [rbind].
    assert (R : forall mfin : bool,
      (if mfin then Err ValueError else
       rbind (half_width (n_sigma_x_ s) sigma (axis_x K s)) (fun mx => rbind (half_width (n_sigma_y_ s) sigma (axis_y K s)) (fun my =>
       rbind (half_width (n_sigma_z_ s) sigma (axis_z K s)) (fun mz =>
       rbind (closest1 (pfv "x" p) (axis_x K s)) (fun cx => rbind (closest1 (pfv "y" p) (axis_y K s)) (fun cy =>
       rbind (closest1 (pfv "z" p) (axis_z K s)) (fun cz =>
       Ok {| dc := (cx, cy, cz); dv := v; dm := (mx, my, mz); dk := pkern (obs K P pfv pfk KERN o_mvn o_pdf o_sqrt s sigma kernel p) |})))))))
      = Ok d ->
      (let '(mx, my, mz) := dm d in (0 <= mx /\ 0 <= my /\ 0 <= mz)%Z)
      /\ (let '(cx, cy, cz) := dc d in
          (0 <= cx < Z.of_nat (npts (axis_x K s)) /\ 0 <= cy < Z.of_nat (npts (axis_y K s)) /\ 0 <= cz < Z.of_nat (npts (axis_z K s)))%Z)).
    { intros [|]; [discriminate|]. unfold half_width.
      destruct (spacing (axis_x K s)) as [dx|]; [|cbn [rbind]; discriminate].
      destruct (round_half_even (n_sigma_x_ s * sigma / dx) <? 0)%Z eqn:Mx; [cbn [rbind]; discriminate|]. cbn [rbind].
      destruct (spacing (axis_y K s)) as [dy|]; [|cbn [rbind]; discriminate].
      destruct (round_half_even (n_sigma_y_ s * sigma / dy) <? 0)%Z eqn:My; [cbn [rbind]; discriminate|]. cbn [rbind].
      destruct (spacing (axis_z K s)) as [dz|]; [|cbn [rbind]; discriminate].
      destruct (round_half_even (n_sigma_z_ s * sigma / dz) <? 0)%Z eqn:Mz; [cbn [rbind]; discriminate|]. cbn [rbind].
      destruct (closest1 (pfv "x" p) (axis_x K s)) as [cx|] eqn:Cx; [|discriminate].
      destruct (closest1 (pfv "y" p) (axis_y K s)) as [cy|] eqn:Cy; [|discriminate].
      destruct (closest1 (pfv "z" p) (axis_z K s)) as [cz|] eqn:Cz; [|discriminate]. cbn [rbind].
      intros E. injection E as <-. cbn [dm dc]. apply Z.ltb_ge in Mx, My, Mz.
      pose proof (closest1_bound _ _ _ Cx). pose proof (closest1_bound _ _ _ Cy). pose proof (closest1_bound _ _ _ Cz). repeat split; lia. }
    destruct (kern_of kernel); [exact (R false)|exact (R _)|discriminate].
  Qed.

  (* every axis uniformly spaced (its recorded spacing is, as a rational, the node distance) *)
  Definition uniform_lat (s : lat K) : Prop :=
    (exists dx, spacing_x_ s = Some dx /\ uniform (axis_x K s) dx) /\ (exists dy, spacing_y_ s = Some dy /\ uniform (axis_y K s) dy)
    /\ (exists dz, spacing_z_ s = Some dz /\ uniform (axis_z K s) dz).

  (* on a uniformly spaced lattice, in exact arithmetic, nothing about the float path has to be assumed *)
  Theorem source_add_particle_data_uniform : forall (s : lat K) (L : slat K) ps sigma quantity kernel add,
    Abs K s L -> uniform_lat s -> mvn_ok KERN o_mvn sigma ->
    res_rel K (gen_add_particle_data K k0 k1 kadd kmul kdiv kgtb kofq P pfv pfk KERN o_mvn o_pdf o_sqrt s ps sigma quantity kernel add)
            (add_particle_data K k0 k1 kadd kmul kdiv (fun N => kgtb N k0) L (nsig3 K s)
               (map (obs K P pfv pfk KERN o_mvn o_pdf o_sqrt s sigma kernel) ps) sigma quantity (kern_of kernel) add).
  Proof.
    intros s L ps sigma quantity kernel add A [[dx [Ex Ux]] [[dy [Ey Uy]] [dz [Ez Uz]]]] Hmvn.
    apply (source_add_particle_data K k0 k1 kadd kmul ksub kdiv kopp kinv kgtb kofq P pfv pfk KERN o_mvn o_pdf o_sqrt Fth); try assumption.
    - intros d [H|[H|H]] E.
      + rewrite Ex in H. injection H as <-. destruct Ux as [U _]. rewrite E in U. lra.
      + rewrite Ey in H. injection H as <-. destruct Uy as [U _]. rewrite E in U. lra.
      + rewrite Ez in H. injection H as <-. destruct Uz as [U _]. rewrite E in U. lra.
    - unfold hw_order_ok. rewrite Ex, Ey, Ez. exact I.
    - intros p d _ Ep. destruct (prep_ok_facts s sigma quantity kernel p d Ep) as [Hm Hc].
      apply apd_lands_axes; [exact (abs_wf K s L A)|exact Hm| |exact Hc].
      intros dx' dy' dz' Ex' Ey' Ez'. rewrite Ex in Ex'. rewrite Ey in Ey'. rewrite Ez in Ez'.
      injection Ex' as <-. injection Ey' as <-. injection Ez' as <-.
      destruct (dc d) as [[cx cy] cz], (dm d) as [[mx my] mz]. destruct Hm as [M1 [M2 M3]], Hc as [C1 [C2 C3]].
      repeat split; apply lands1_uniform; assumption.
  Qed.
End Uniform.

(* ---- end to end: the C16 conservation theorem transported to the regenerated method ---------------------------------------- *)
Section EndToEnd.
  Variable K : Type.
  Variables (k0 k1 : K) (kadd kmul ksub kdiv : K -> K -> K) (kopp kinv : K -> K).
  Variable kgtb : K -> K -> bool.
  Variable kofq : Q -> K.
  Variable P : Type.
  Variable pfv : string -> P -> fv.
  Variable pfk : string -> P -> option K.
  Variable KERN : Type.
  Variable o_mvn : list fv -> smat -> result KERN.
  Variable o_pdf : KERN -> list fv -> option K.
  Variable o_sqrt : fv -> fv.
  Hypothesis Fth : field_theory k0 k1 kadd kmul ksub kopp kdiv kinv (@eq K).
  Hypothesis gt_nz : forall N, kgtb N k0 = true -> N <> k0.

  (* the content of a node (0 for NaN) *)
  Definition content (s : lat K) (q : Z * Z * Z) : K := match cell (grid_ s) q with Some v => v | None => k0 end.

  (* an object that is consistent, has a finite cell volume and no NaN in its grid: whenever the regenerated
     add_particle_data returns, cell_volume * (sum of the grid) has grown by the particles' quantities - under the
     hypotheses of C16_conserve on the validated particles ds (finite kernel values, kernel sum passes the guard, stencil
     inside the lattice) and the domain / float-path hypotheses of the source tie *)
  Theorem source_conserves : forall (s s' : lat K) vol ps sigma quantity kernel add ds,
    wf K s -> cell_volume_ s = Some vol -> vol <> k0 ->
    (forall q, inside (dims K s) q = true -> cell (grid_ s) q <> None) ->
    spacing_nonzero K s -> mvn_ok KERN o_mvn sigma -> hw_order_ok K s sigma ->
    (forall p d, In p ps -> prep_of K k1 P pfv pfk KERN o_mvn o_pdf o_sqrt s sigma quantity kernel p = Ok d -> apd_lands K k0 kofq s d) ->
    gen_add_particle_data K k0 k1 kadd kmul kdiv kgtb kofq P pfv pfk KERN o_mvn o_pdf o_sqrt s ps sigma quantity kernel add = Ok s' ->
    mapM (prep K k1 (axis_x K s) (axis_y K s) (axis_z K s) (nsig3 K s) sigma quantity (kern_of kernel))
         (map (obs K P pfv pfk KERN o_mvn o_pdf o_sqrt s sigma kernel) ps) = Ok ds ->
    Forall (good K k0 kadd (fun N => kgtb N k0) (dims K s)) ds ->
    kmul vol (gsum K k0 kadd (dims K s) (content s'))
    = kadd (kmul vol (gsum K k0 kadd (dims K s) (if add then content s else fun _ => k0))) (ksum k0 kadd (map dv ds)).
  Proof.
    intros s s' vol ps sigma quantity kernel add ds W Hvol Hv Hfin Hnz Hmvn Hord Hl Hrun Hds Hgood.
    set (L := {| sax := axis_x K s; say := axis_y K s; saz := axis_z K s; svol := vol; sgrid := content s |}).
    assert (A : Abs K s L).
    { constructor; try reflexivity; try assumption. intros q Hq. unfold L, content. cbn [sgrid].
      destruct (cell (grid_ s) q) eqn:E; [reflexivity|]. exfalso. exact (Hfin q Hq E). }
    pose proof (source_add_particle_data K k0 k1 kadd kmul ksub kdiv kopp kinv kgtb kofq P pfv pfk KERN o_mvn o_pdf o_sqrt Fth
                  s L ps sigma quantity kernel add A Hnz Hmvn Hord Hl) as R.
    rewrite Hrun in R. unfold res_rel in R.
    destruct (add_particle_data K k0 k1 kadd kmul kdiv (fun N => kgtb N k0) L (nsig3 K s)
                (map (obs K P pfv pfk KERN o_mvn o_pdf o_sqrt s sigma kernel) ps) sigma quantity (kern_of kernel) add) as [L'|e] eqn:EM;
      [|contradiction].
    pose proof (abs_dims K s L A) as D. pose proof (abs_dims K s' L' R) as D'.
    destruct (apd_spec K k0 k1 kadd kmul kdiv _ L _ _ _ _ _ _ L' EM) as (ds0 & _ & _ & Sx & Sy & Sz & _).
    assert (DD : dims K s' = dims K s).
    { rewrite <- D', <- D. unfold sdims. rewrite Sx, Sy, Sz. reflexivity. }
    pose proof (apd_conserves K k0 k1 kadd kmul ksub kdiv kopp kinv Fth (fun N => kgtb N k0) gt_nz L (nsig3 K s) _ sigma quantity
                  (kern_of kernel) add L' ds EM Hds Hv) as C. rewrite D in C. specialize (C Hgood). cbn [svol sgrid L] in C.
    rewrite <- C. f_equal. unfold gsum. f_equal. apply map_ext_in. intros q Hq.
    change (cells (dims K s)) with (np_ndindex (dims K s)) in Hq. apply in_ndindex in Hq.
    unfold content. rewrite <- DD in Hq. rewrite (abs_grid K s' L' R q Hq). reflexivity.
  Qed.
End EndToEnd.

(* ---- a computed instance (non-vacuity; K := Q): 5 x 3 x 3 nodes on [0,4] x [0,2] x [0,2], sigma = 1/3 (half widths 1),
   a particle of energy 3 at node (2,1,1) and one of energy 5 next to the corner (0,0,0) whose stencil is clipped; the
   "kernel" is 1 / (1 + |x - mean|^2).  The regenerated method and the hand model give, node by node, the same grid. *)
Definition ex_pfv (a : string) (p : nat) : fv :=
  match p with
  | O => if String.eqb a "x" then Fin 2 else Fin 1
  | _ => if String.eqb a "x" then Fin (1 # 4) else if String.eqb a "y" then Fin (1 # 8) else Fin 0
  end.
Definition ex_pfk (a : string) (p : nat) : option Q := match p with O => Some 3 | _ => Some 5 end.
Definition ex_mvn (mean : list fv) (cov : smat) : result (list fv) := Ok mean.
Fixpoint ex_dist2 (a b : list fv) : Q :=
  match a, b with Fin x :: a', Fin y :: b' => Qred ((x - y) * (x - y) + ex_dist2 a' b') | _, _ => 0 end.
Definition ex_pdf (mean args : list fv) : option Q := Some (Qred (1 / (1 + ex_dist2 args mean))).
Definition ex_gtb (a b : Q) : bool := negb (Qle_bool a b).
Definition ex_add (a b : Q) := Qred (a + b).
Definition ex_mul (a b : Q) := Qred (a * b).
Definition ex_div (a b : Q) := Qred (a / b).
Definition ex_check : bool :=
  match gen___init__ Q 0 (fun q => q) 0 4 0 2 0 2 5 3 3 None None None with
  | Err _ => false
  | Ok s =>
    let L := {| sax := axis_x Q s; say := axis_y Q s; saz := axis_z Q s; svol := 16 # 45; sgrid := fun _ => 7 |} in
    match gen_add_particle_data Q 0 1 ex_add ex_mul ex_div ex_gtb (fun q => q) nat ex_pfv ex_pfk (list fv) ex_mvn ex_pdf (fun v => v)
                                s [0%nat; 1%nat] (1 # 3) "energy_density" "gaussian" false,
          add_particle_data Q 0 1 ex_add ex_mul ex_div (fun N => ex_gtb N 0) L (nsig3 Q s)
                            (map (obs Q nat ex_pfv ex_pfk (list fv) ex_mvn ex_pdf (fun v => v) s (1 # 3) "gaussian") [0%nat; 1%nat])
                            (1 # 3) "energy_density" (kern_of "gaussian") false with
    | Ok s', Ok L' =>
      forallb (fun q => match cell (grid_ s') q with Some a => Qeq_bool a (sgrid L' q) | None => false end) (cells (5, 3, 3)%Z)
      && negb (Qeq_bool (sgrid L' (2, 1, 1)%Z) 0) && negb (Qeq_bool (sgrid L' (0, 0, 0)%Z) 0) && Qeq_bool (sgrid L' (4, 2, 2)%Z) 0
    | _, _ => false
    end
  end.
Theorem source_example : ex_check = true.
Proof. vm_compute. reflexivity. Qed.

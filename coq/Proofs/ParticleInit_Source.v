(* C01 source tie: the hand models of the construction of a Particle from one line of a file
   (Model/Oscar.v [blank], [mk_particle]; Model/Jetscape.v [mk_jet_particle]) equal Particle.__init__ /
   __initialize_from_array and everything they reach, as regenerated from the current source into
   Gen/GenParticleInit.v on every run (tools/py2coq/gen_particle_init.py, runtime Model/ParticleInitRt.v).
   One theorem [source_<method>] per translated function.  The oracles float(token), int(token), PDGID.is_valid,
   PDGID.charge, np.sqrt are the fields of [o], universally quantified. *)
From Coq Require Import List String ZArith QArith Qabs Bool Arith Lia Lqa.
From SX Require Import Lib.Strs Gen.GenParticleMap Model.Oscar Model.Jetscape Model.ParticleInitRt Gen.GenParticleInit.
Import ListNotations.
Local Open Scope string_scope.

(* ---- the literals of the source are the regenerated tables the hand model is written over ------------------- *)
Theorem source_tables :
  gen_lit_initialize_from_array_dict1 = gen_mapping
  /\ gen_lit_initialize_from_array_strlist1 = gen_relaxed_formats
  /\ gen_lit_initialize_from_array_strlist2 = gen_float_fields
  /\ gen_lit_initialize_from_array_strlist3 = gen_int_fields
  /\ gen_lit_mass_from_energy_momentum_intlist1 = massless_pdg.
Proof. repeat split; reflexivity. Qed.

(* constants of the length check that the hand model takes from the regenerated tables and that no other theorem pins:
   the formats whose lines may be up to two columns short (pinned values: the source at the time the tie was built) *)
Theorem source_constants :
  gen_relaxed_formats = ["Oscar2013Extended"; "Oscar2013Extended_IC"] /\ gen_relax_slack = 2%nat.
Proof. split; reflexivity. Qed.

(* ---- facts about the regenerated tables, decided by evaluation ---------------------------------------------- *)
(* an entry writes inside the array, and the PDG slot is filled through int() *)
Definition entry_ok (ascii : bool) (e : string * (nat * nat)) : bool :=
  (fst (snd e) <? 25)%nat
  && (negb (fst (snd e) =? 9)%nat || negb (mem_str (if ascii then fst e ++ "_" else fst e) gen_float_fields)).
Lemma table_entries_ok : forallb (fun fm => forallb (entry_ok false) (snd fm)) gen_mapping = true.
Proof. vm_compute. reflexivity. Qed.
Lemma table_allfields_ok :
  match assoc "Allfields" gen_mapping with Some allf => forallb (entry_ok true) allf | None => true end = true.
Proof. vm_compute. reflexivity. Qed.
Lemma table_no_ascii : assoc "ASCII" gen_mapping = None.
Proof. vm_compute. reflexivity. Qed.
(* the JETSCAPE columns fill the slots E, px, py, pz, pdg (5..9) and the line must have exactly that many columns *)
Definition fills_n (n : nat) (m : list (string * (nat * nat))) (s : nat) : bool :=
  existsb (fun e => (fst (snd e) =? s)%nat && (snd (snd e) <? n)%nat) m.
Lemma table_jetscape :
  match assoc "JETSCAPE" gen_mapping with Some m => forallb (fills_n (List.length m) m) [5; 6; 7; 8; 9]%nat | None => true end = true
  /\ mem_str "JETSCAPE" gen_relaxed_formats = false.
Proof. split; vm_compute; reflexivity. Qed.
Lemma table_allfields_some : exists allf, assoc "Allfields" gen_mapping = Some allf.
Proof. vm_compute. eexists. reflexivity. Qed.
Lemma relax_slack_is : Z.of_nat gen_relax_slack = 2%Z.
Proof. reflexivity. Qed.

(* ---- lists, arrays, dicts of the runtime ------------------------------------------------------------------------ *)
Lemma list_get_nth {A} (l : list A) (i : nat) (d : A) : (i < List.length l)%nat -> list_get l i = Ok (nth i l d).
Proof.
  intros H. unfold list_get. destruct (nth_error l i) as [a|] eqn:E.
  - rewrite (nth_error_nth _ _ d E). reflexivity.
  - apply nth_error_None in E. lia.
Qed.
Lemma arr_set_ok p i v : (i < List.length p)%nat -> arr_set p i v = Ok (set_slot i v p).
Proof. intros H. unfold arr_set. apply Nat.ltb_lt in H. rewrite H. reflexivity. Qed.
Lemma set_slot_length i v (p : particle) : List.length (set_slot i v p) = List.length p.
Proof. revert i. induction p as [|x p IH]; intros [|i]; cbn; auto. Qed.
Lemma get_set_same i v (p : particle) : (i < List.length p)%nat -> get_slot i (set_slot i v p) = v.
Proof. revert i. induction p as [|x p IH]; intros [|i] H; cbn in *; try lia; auto. apply IH. lia. Qed.
Lemma get_set_other i j v (p : particle) : i <> j -> get_slot i (set_slot j v p) = get_slot i p.
Proof.
  revert i j. induction p as [|x p IH]; intros [|i] [|j] H; cbn; auto; try congruence.
  apply (IH i j). congruence.
Qed.
Lemma dict_get_set_same {A} k (v : A) d : dict_get k (dict_set k v d) = Ok v.
Proof.
  unfold dict_get. induction d as [|[k' v'] d IH]; cbn.
  - rewrite String.eqb_refl. reflexivity.
  - destruct (String.eqb k k') eqn:E; cbn; rewrite E; auto.
Qed.
Lemma dict_mem_set_same {A} k (v : A) d : dict_mem k (dict_set k v d) = true.
Proof. unfold dict_mem. pose proof (dict_get_set_same k v d) as H. unfold dict_get in H. destruct (assoc k (dict_set k v d)); congruence. Qed.
Lemma orE_ok a b : orE (Ok a) (Ok b) = Ok (a || b).
Proof. destruct a; reflexivity. Qed.
Lemma andE_ok a b : andE (Ok a) (Ok b) = Ok (a && b).
Proof. destruct a; reflexivity. Qed.
Lemma loopE_ext {A S} (Inv : S -> Prop) (P : A -> Prop) (f g : S -> A -> result S) :
  (forall s a, Inv s -> P a -> f s a = g s a) ->
  (forall s a s', Inv s -> P a -> g s a = Ok s' -> Inv s') ->
  forall l s, Inv s -> Forall P l -> loopE f l s = loopE g l s.
Proof.
  intros FG PR. induction l as [|a l IH]; intros s I FA; [reflexivity|].
  inversion FA as [|? ? Pa Pl]; subst. cbn. rewrite (FG s a I Pa).
  destruct (g s a) as [s'|e] eqn:E; [|reflexivity]. apply IH; [eapply PR; eauto|assumption].
Qed.
Lemma assoc_In {A} k (l : list (string * A)) v : assoc k l = Some v -> In (k, v) l.
Proof.
  induction l as [|[k' v'] l IH]; cbn; [discriminate|].
  destruct (String.eqb k k') eqn:E; intros H.
  - apply String.eqb_eq in E. left. congruence.
  - right. auto.
Qed.
Lemma zlen_eqb {A B} (a : list A) (b : list B) : Z.eqb (zlen a) (zlen b) = (List.length a =? List.length b)%nat.
Proof. unfold zlen. destruct (Nat.eqb_spec (List.length a) (List.length b)); [apply Z.eqb_eq|apply Z.eqb_neq]; lia. Qed.
Lemma zlen_leb {A B} (a : list A) (b : list B) : Z.leb (zlen a) (zlen b) = (List.length a <=? List.length b)%nat.
Proof. unfold zlen. destruct (Nat.leb_spec (List.length a) (List.length b)); [apply Z.leb_le|apply Z.leb_gt]; lia. Qed.
Lemma zlen_leb_nat {A} (a : list A) (c : nat) : Z.leb (zlen a) (Z.of_nat c) = (List.length a <=? c)%nat.
Proof. unfold zlen. destruct (Nat.leb_spec (List.length a) c); [apply Z.leb_le|apply Z.leb_gt]; lia. Qed.
Lemma zlen_geb_slack {A B} (a : list A) (b : list B) :
  Z.geb (zlen a) (zlen b - 2) = (List.length b - gen_relax_slack <=? List.length a)%nat.
Proof.
  unfold zlen. rewrite Z.geb_leb. pose proof relax_slack_is as SL.
  destruct (Nat.leb_spec (List.length b - gen_relax_slack) (List.length a)); [apply Z.leb_le|apply Z.leb_gt]; lia.
Qed.

(* int() of a value that is an integer *)
Lemma q_trunc_int q : Qden q = 1%positive -> q_trunc q = q.
Proof. destruct q as [n d]. cbn. intros ->. unfold q_trunc. cbn. rewrite Z.quot_1_r. reflexivity. Qed.

(* rationals *)
Lemma sq_le_iff a b : 0 <= a -> 0 <= b -> (a <= b <-> a * a <= b * b).
Proof. intros A B. split; intros H. - nra. - destruct (Qlt_le_dec b a) as [L|L]; [|exact L]. exfalso. nra. Qed.
Lemma abs_sq x : Qabs x * Qabs x == x * x.
Proof. apply Qabs_case; intros; ring. Qed.
Lemma cmp_eq (s E p2 : Q) : 0 <= s -> s * s == p2 -> Qle_bool (Qabs s) (Qabs E) = Qle_bool p2 (E * E).
Proof.
  intros S SS. apply eq_true_iff_eq. rewrite !Qle_bool_iff. rewrite (Qabs_pos s S).
  rewrite (sq_le_iff s (Qabs E) S (Qabs_nonneg E)). rewrite abs_sq, SS. tauto.
Qed.

Ltac explode p H :=
  destruct p as [|x0 [|x1 [|x2 [|x3 [|x4 [|x5 [|x6 [|x7 [|x8 [|x9 [|x10 [|x11 [|x12 [|x13 [|x14 [|x15 [|x16 [|x17 [|x18
    [|x19 [|x20 [|x21 [|x22 [|x23 [|x24 [|? ?]]]]]]]]]]]]]]]]]]]]]]]]]];
  simpl in H; try discriminate H; clear H.

Section Source.
Variable o : oracles.
Notation tf := (o_float o).
Notation ti := (o_int o).
Notation pv := (o_valid o).
Notation pc := (o_charge o).
Notation usqrt := (o_sqrt o).

(* ================================================================ getters and setters ========================= *)
Theorem source_get_E p : List.length p = 25%nat -> gen_get_E o p = Ok (get_slot 5 p).
Proof. intros H. explode p H. reflexivity. Qed.
Theorem source_get_px p : List.length p = 25%nat -> gen_get_px o p = Ok (get_slot 6 p).
Proof. intros H. explode p H. reflexivity. Qed.
Theorem source_get_py p : List.length p = 25%nat -> gen_get_py o p = Ok (get_slot 7 p).
Proof. intros H. explode p H. reflexivity. Qed.
Theorem source_get_pz p : List.length p = 25%nat -> gen_get_pz o p = Ok (get_slot 8 p).
Proof. intros H. explode p H. reflexivity. Qed.
(* pdg / charge: nan stays nan, a number is truncated by int() *)
Theorem source_get_pdg p : List.length p = 25%nat -> gen_get_pdg o p = Ok (option_map q_trunc (get_slot 9 p)).
Proof. intros H. explode p H. unfold gen_get_pdg. cbn. destruct x9; reflexivity. Qed.
Theorem source_get_charge p : List.length p = 25%nat -> gen_get_charge o p = Ok (option_map q_trunc (get_slot 12 p)).
Proof. intros H. explode p H. unfold gen_get_charge. cbn. destruct x12; reflexivity. Qed.
Theorem source_get_pdg_valid p : List.length p = 25%nat -> gen_get_pdg_valid o p = Ok (py_bool (get_slot 10 p)).
Proof. intros H. explode p H. reflexivity. Qed.
Theorem source_getters p : List.length p = 25%nat ->
  gen_get_E o p = Ok (get_slot 5 p) /\ gen_get_px o p = Ok (get_slot 6 p) /\ gen_get_py o p = Ok (get_slot 7 p)
  /\ gen_get_pz o p = Ok (get_slot 8 p)
  /\ gen_get_pdg o p = Ok (option_map q_trunc (get_slot 9 p))
  /\ gen_get_charge o p = Ok (option_map q_trunc (get_slot 12 p))
  /\ gen_get_pdg_valid o p = Ok (py_bool (get_slot 10 p)).
Proof.
  intros H. refine (conj _ (conj _ (conj _ (conj _ (conj _ (conj _ _)))))).
  - apply source_get_E; exact H.
  - apply source_get_px; exact H.
  - apply source_get_py; exact H.
  - apply source_get_pz; exact H.
  - apply source_get_pdg; exact H.
  - apply source_get_charge; exact H.
  - apply source_get_pdg_valid; exact H.
Qed.
Theorem source_set_pdg_valid p b :
  List.length p = 25%nat -> gen_set_pdg_valid o p b = Ok (set_slot 10 (Some (if b then 1 else 0)%Q) p).
Proof. intros H. explode p H. destruct b; reflexivity. Qed.
Theorem source_set_mass p v : List.length p = 25%nat -> gen_set_mass o p v = Ok (set_slot 4 v p).
Proof. intros H. explode p H. reflexivity. Qed.
(* the charge setter multiplies a charge below 1 in magnitude by 3 (nan is stored as it is) *)
Definition charge_stored (v : num) : num :=
  match v with Some c => Some (if Qle_bool 1 (Qabs c) then c else (c * 3)%Q) | None => None end.
Theorem source_set_charge p v : List.length p = 25%nat -> gen_set_charge o p v = Ok (set_slot 12 (charge_stored v) p).
Proof.
  intros H. explode p H. unfold gen_set_charge. destruct v as [c|]; cbn; [|reflexivity].
  destruct (Qle_bool 1 (Qabs c)); reflexivity.
Qed.

(* ================================================================ p_abs, mass, charge ========================= *)
Definition p2_of (px py pz : Q) : Q := (sq px + sq py + sq pz)%Q.
(* what np.sqrt is at one argument: the non-negative root *)
Definition sqrt_at (f : Q -> Q) (x : Q) : Prop := 0 <= f x /\ f x * f x == x.
Definition sqrt_ext (f : Q -> Q) : Prop := forall a b, a == b -> f a = f b.

Theorem source_p_abs p : List.length p = 25%nat ->
  gen_p_abs o p = Ok (match get_slot 6 p, get_slot 7 p, get_slot 8 p with
                      | Some px, Some py, Some pz => np_sqrt o (Some (p2_of px py pz))
                      | _, _, _ => None
                      end).
Proof.
  intros H. unfold gen_p_abs. rewrite !source_get_px, !source_get_py, !source_get_pz by assumption.
  explode p H. cbn [get_slot nth bind orE is_nan].
  destruct x6 as [px|]; [|reflexivity]. destruct x7 as [py|]; [|reflexivity]. destruct x8 as [pz|]; reflexivity.
Qed.

(* the derived mass of the hand model (Model/Jetscape.v, mk_jet_particle) *)
Definition hand_mass (E px py pz pdg : Q) : num :=
  if existsb (fun z => Qeq_bool pdg (inject_Z z)) massless_pdg then Some 0%Q
  else let p2 := (sq px + sq py + sq pz)%Q in
       if Qle_bool p2 (sq E) then Some (usqrt (sq E - p2)) else None.
Definition hand_charge (pdg : Q) : num :=
  if pv pdg then let c := pc pdg in Some (if Qle_bool 1 (Qabs c) then c else (c * 3)%Q) else None.

Theorem source_mass_from_energy_momentum p E px py pz pdg : List.length p = 25%nat ->
  get_slot 5 p = Some E -> get_slot 6 p = Some px -> get_slot 7 p = Some py -> get_slot 8 p = Some pz ->
  get_slot 9 p = Some pdg -> Qden pdg = 1%positive ->
  sqrt_ext usqrt -> sqrt_at usqrt (p2_of px py pz) ->
  gen_mass_from_energy_momentum o p = Ok (hand_mass E px py pz pdg).
Proof.
  intros H H5 H6 H7 H8 H9 INT EXT [S0 SS]. unfold gen_mass_from_energy_momentum.
  rewrite !source_get_E, !source_get_px, !source_get_py, !source_get_pz, !source_get_pdg, !source_p_abs by assumption.
  rewrite H5, H6, H7, H8, H9. cbn [bind orE is_nan option_map].
  rewrite (q_trunc_int pdg INT).
  change gen_lit_mass_from_energy_momentum_intlist1 with massless_pdg.
  unfold hand_mass, num_in. destruct (existsb (fun z => Qeq_bool pdg (inject_Z z)) massless_pdg); [reflexivity|].
  cbv zeta. fold (p2_of px py pz).
  assert (P2 : Qle_bool 0 (p2_of px py pz) = true) by (apply Qle_bool_iff; unfold p2_of, sq; nra).
  unfold np_sqrt at 1. rewrite P2. cbn [num_ge num_cmp num_abs option_map].
  rewrite (cmp_eq _ E _ S0 SS). fold (sq E).
  destruct (Qle_bool (p2_of px py pz) (sq E)) eqn:C; [|reflexivity].
  unfold np_sqrt at 2. rewrite P2. cbn [num_pow2 num_sub num_bin]. unfold np_sqrt.
  apply Qle_bool_iff in C.
  assert (NN : Qle_bool 0 (E * E - usqrt (p2_of px py pz) * usqrt (p2_of px py pz)) = true)
    by (apply Qle_bool_iff; unfold sq in C; lra).
  rewrite NN. do 2 f_equal. apply EXT. unfold sq. rewrite SS. reflexivity.
Qed.
(* a missing momentum component gives nan (the hand model has no such particle: its JETSCAPE rows fill all of them) *)
Theorem source_mass_nan p : List.length p = 25%nat ->
  get_slot 5 p = None \/ get_slot 6 p = None \/ get_slot 7 p = None \/ get_slot 8 p = None ->
  gen_mass_from_energy_momentum o p = Ok None.
Proof.
  intros H N. unfold gen_mass_from_energy_momentum.
  rewrite !source_get_E, !source_get_px, !source_get_py, !source_get_pz by assumption.
  cbn [bind orE]. destruct (get_slot 5 p); cbn [is_nan bind]; [|reflexivity].
  destruct (get_slot 6 p); cbn [is_nan bind]; [|reflexivity]. destruct (get_slot 7 p); cbn [is_nan bind]; [|reflexivity].
  destruct (get_slot 8 p); cbn [is_nan bind]; [|reflexivity]. destruct N as [N|[N|[N|N]]]; discriminate N.
Qed.

Theorem source_charge_from_pdg p : List.length p = 25%nat ->
  gen_charge_from_pdg o p
  = if py_bool (get_slot 10 p)
    then match get_slot 9 p with Some pdg => Ok (Some (pc (q_trunc pdg))) | None => Err ValueError end
    else Ok None.
Proof.
  intros H. unfold gen_charge_from_pdg. rewrite source_get_pdg_valid, source_get_pdg by assumption.
  cbn [bind]. destruct (py_bool (get_slot 10 p)); cbn [negb bind]; [|reflexivity].
  destruct (get_slot 9 p); reflexivity.
Qed.

(* ================================================================ the ASCII column map ========================= *)
Definition gval (allf : list (string * (nat * nat))) (all : list string) (a : string) : nat * nat :=
  (match assoc a allf with Some v => fst v | None => 0%nat end, match index_of a all with Some i => i | None => 0%nat end).
Definition mapg allf all (ks : list string) := map (fun k => (k, gval allf all k)) ks.
Lemma dict_set_mapg allf all a ks :
  dict_set a (gval allf all a) (mapg allf all ks) = mapg allf all (if mem_str a ks then ks else (ks ++ [a])%list).
Proof.
  induction ks as [|k ks IH]; [reflexivity|]. cbn [mapg map dict_set mem_str existsb].
  destruct (String.eqb a k) eqn:E; cbn [orb].
  - apply String.eqb_eq in E. subst k. reflexivity.
  - fold (mapg allf all ks). rewrite IH. fold (mem_str a ks). destruct (mem_str a ks); reflexivity.
Qed.
(* one iteration of `for attr in attribute_list` *)
Definition astep (allf : list (string * (nat * nat))) (all : list string)
           (md : list (string * (nat * nat))) (a : string) : result (list (string * (nat * nat))) :=
  match assoc a allf with
  | None => Err KeyError
  | Some v => match index_of a all with Some i => Ok (dict_set a (fst v, i) md) | None => Err ValueError end
  end.
Lemma index_of_In a l : In a l -> index_of a l <> None.
Proof.
  induction l as [|x l IH]; cbn; [tauto|]. intros [->|H].
  - rewrite String.eqb_refl. discriminate.
  - destruct (String.eqb a x); [discriminate|]. destruct (index_of a l); [discriminate|]. tauto.
Qed.
Lemma mem_str_app x a b : mem_str x (a ++ b)%list = mem_str x a || mem_str x b.
Proof. apply existsb_app. Qed.
Lemma ascii_loop allf all : assoc "Allfields" gen_mapping = Some allf ->
  forall attrs ks seen, (forall x, mem_str x seen = mem_str x ks) -> (forall a, In a attrs -> index_of a all <> None) ->
  loopE (astep allf all) attrs (mapg allf all ks)
  = match ascii_mapping attrs all seen with Ok rest => Ok (mapg allf all ks ++ rest)%list | Err e => Err e end.
Proof.
  intros HAF. induction attrs as [|a t IH]; intros ks seen REL IDX.
  - cbn. rewrite app_nil_r. reflexivity.
  - cbn [loopE ascii_mapping]. rewrite HAF. unfold astep at 1.
    destruct (assoc a allf) as [[slot c]|] eqn:EA; [|reflexivity].
    destruct (index_of a all) as [i|] eqn:EI; [|exfalso; apply (IDX a); [left; reflexivity|assumption]].
    cbn [fst]. replace (slot, i) with (gval allf all a) by (unfold gval; rewrite EA, EI; reflexivity).
    rewrite dict_set_mapg.
    rewrite (IH (if mem_str a ks then ks else (ks ++ [a])%list) (a :: seen)).
    + destruct (ascii_mapping t all (a :: seen)) as [rest|e]; cbn [bind]; [|reflexivity].
      rewrite (REL a). destruct (mem_str a ks); [reflexivity|].
      unfold mapg. rewrite map_app, <- app_assoc. cbn [map app fst]. replace (gval allf all a) with (slot, i) by (unfold gval; rewrite EA, EI; reflexivity). reflexivity.
    + intros x. cbn [mem_str existsb]. fold (mem_str x seen). rewrite (REL x).
      destruct (mem_str a ks) eqn:M.
      * destruct (String.eqb x a) eqn:E; [|reflexivity]. apply String.eqb_eq in E. subst x. rewrite M. reflexivity.
      * rewrite mem_str_app. cbn [mem_str existsb]. rewrite orb_false_r. apply orb_comm.
    + intros x Hx. apply IDX. right. exact Hx.
Qed.
(* every entry of an ASCII map comes from Allfields *)
Lemma ascii_entries allf all : assoc "Allfields" gen_mapping = Some allf ->
  forall attrs seen m, ascii_mapping attrs all seen = Ok m ->
  Forall (fun e => exists c, In (fst e, (fst (snd e), c)) allf) m.
Proof.
  intros HAF. induction attrs as [|a t IH]; intros seen m.
  - cbn. intros [= <-]. constructor.
  - cbn [ascii_mapping]. rewrite HAF. destruct (assoc a allf) as [[slot c]|] eqn:EA; [|discriminate].
    destruct (ascii_mapping t all (a :: seen)) as [rest|e] eqn:ER; cbn [bind]; [|discriminate].
    specialize (IH _ _ ER). destruct (mem_str a seen); [intros [= <-]; exact IH|].
    destruct (index_of a all) as [i|]; [|discriminate]. intros [= <-]. constructor; [|exact IH].
    exists c. cbn. apply assoc_In. exact EA.
Qed.

(* ================================================================ the loop over the columns ==================== *)
(* one iteration of `for attribute, index in attribute_mapping[input_format].items()` as the hand model's fill does it *)
Definition step1 (ascii : bool) (toks : list string) (p : particle) (e : string * (nat * nat)) : result particle :=
  let '(attr, (slot, col)) := e in
  if (List.length toks <=? col)%nat then Ok p
  else match cast tf ti (if ascii then attr ++ "_" else attr) (nth col toks "") with
       | Some v => Ok (set_slot slot (Some v) p)
       | None => Err ValueError
       end.
Lemma fill_loop ascii toks : forall m p, fill tf ti ascii m toks p = loopE (step1 ascii toks) m p.
Proof.
  induction m as [|[attr [slot col]] m IH]; intros p; [reflexivity|]. cbn [fill loopE step1].
  destruct (List.length toks <=? col)%nat; [apply IH|].
  destruct (cast tf ti (if ascii then attr ++ "_" else attr) (nth col toks "")); [apply IH|reflexivity].
Qed.

(* the PDG slot holds nan or an integer *)
Definition int9 (p : particle) : Prop := match get_slot 9 p with Some q => Qden q = 1%positive | None => True end.
Definition pinv (p : particle) : Prop := List.length p = 25%nat /\ int9 p.
Definition int_oracle : Prop := forall s q, ti s = Some q -> Qden q = 1%positive.

Lemma step1_inv ascii toks p e p' : int_oracle -> pinv p -> entry_ok ascii e = true -> step1 ascii toks p e = Ok p' -> pinv p'.
Proof.
  intros INT [L I9] EO. destruct e as [a [s c]]. unfold step1.
  destruct (List.length toks <=? c)%nat; [intros [= <-]; split; assumption|].
  destruct (cast tf ti (if ascii then a ++ "_" else a) (nth c toks "")) as [v|] eqn:EC; [|discriminate].
  intros [= <-]. split; [rewrite set_slot_length; exact L|].
  unfold entry_ok in EO. cbn [fst snd] in EO. apply andb_true_iff in EO. destruct EO as [S25 S9].
  apply Nat.ltb_lt in S25. unfold int9. destruct (Nat.eqb_spec s 9) as [->|NE].
  - rewrite get_set_same by lia. cbn [negb orb] in S9. apply negb_true_iff in S9.
    unfold cast in EC. rewrite S9 in EC. exact (INT _ _ EC).
  - rewrite get_set_other by congruence. exact I9.
Qed.
Lemma loopE_inv {A S} (Inv : S -> Prop) (P : A -> Prop) (g : S -> A -> result S) :
  (forall s a s', Inv s -> P a -> g s a = Ok s' -> Inv s') ->
  forall l s s', Inv s -> Forall P l -> loopE g l s = Ok s' -> Inv s'.
Proof.
  intros PR. induction l as [|a l IH]; intros s s' I FA; cbn.
  - intros [= <-]. exact I.
  - inversion FA as [|? ? Pa Pl]; subst. destruct (g s a) as [s1|e] eqn:E; [|discriminate].
    apply IH; [eapply PR; eauto|assumption].
Qed.
Lemma fill_inv ascii toks m p p' : int_oracle -> Forall (fun e => entry_ok ascii e = true) m -> pinv p ->
  fill tf ti ascii m toks p = Ok p' -> pinv p'.
Proof.
  intros INT FA I. rewrite fill_loop. apply (loopE_inv pinv (fun e => entry_ok ascii e = true)); try assumption.
  intros s a s' Is Pa. apply step1_inv; assumption.
Qed.
(* a column that is present fills its slot *)
Lemma loop_sets ascii toks s : forall m p p', Forall (fun e => entry_ok ascii e = true) m -> List.length p = 25%nat ->
  loopE (step1 ascii toks) m p = Ok p' ->
  get_slot s p <> None \/ fills_n (List.length toks) m s = true -> get_slot s p' <> None.
Proof.
  induction m as [|[a [sl c]] m IH]; intros p p' FA L; cbn [loopE].
  - intros [= <-] [H|H]; [exact H|discriminate H].
  - inversion FA as [|? ? Pa Pm]; subst. destruct (step1 ascii toks p (a, (sl, c))) as [p1|e] eqn:E1; [|discriminate].
    intros EL H. unfold entry_ok in Pa. cbn [fst snd] in Pa. apply andb_true_iff in Pa. destruct Pa as [S25 _].
    apply Nat.ltb_lt in S25.
    assert (L1 : List.length p1 = 25%nat).
    { unfold step1 in E1. destruct (List.length toks <=? c)%nat; [injection E1 as <-; exact L|].
      destruct (cast tf ti (if ascii then a ++ "_" else a) (nth c toks "")); [|discriminate].
      injection E1 as <-. rewrite set_slot_length. exact L. }
    apply (IH p1 p' Pm L1 EL). cbn [fills_n existsb fst snd] in H. fold (fills_n (List.length toks) m s) in H.
    destruct H as [H|H].
    + left. unfold step1 in E1. destruct (List.length toks <=? c)%nat; [injection E1 as <-; exact H|].
      destruct (cast tf ti (if ascii then a ++ "_" else a) (nth c toks "")); [|discriminate].
      injection E1 as <-. destruct (Nat.eqb_spec s sl) as [->|NE].
      * rewrite get_set_same by lia. discriminate.
      * rewrite get_set_other by assumption. exact H.
    + apply orb_true_iff in H. destruct H as [H|H]; [|right; exact H]. left.
      apply andb_true_iff in H. destruct H as [HS HC]. apply Nat.eqb_eq in HS. subst sl.
      apply Nat.ltb_lt in HC. unfold step1 in E1.
      destruct (Nat.leb_spec (List.length toks) c) as [LE|GT]; [lia|].
      destruct (cast tf ti (if ascii then a ++ "_" else a) (nth c toks "")); [|discriminate].
      injection E1 as <-. rewrite get_set_same by lia. discriminate.
Qed.

(* ================================================================ __initialize_from_array ====================== *)
(* the hand model after the loop over the columns: PDG validity, and for JETSCAPE the derived mass and charge *)
Definition finish (fmt : string) (p0 : particle) : result particle :=
  let p := set_pdg_valid pv p0 in
  if fmt =? "JETSCAPE" then
    match get_slot 5 p, get_slot 6 p, get_slot 7 p, get_slot 8 p, get_slot 9 p with
    | Some E, Some px, Some py, Some pz, Some pdg =>
      Ok (set_slot 12 (hand_charge pdg) (set_slot 4 (hand_mass E px py pz pdg) p))
    | _, _, _, _, _ => Err OtherError
    end
  else Ok p.
Definition len_ok (fmt : string) (toks : list string) (m : list (string * (nat * nat))) : bool :=
  let n := List.length toks in
  let lm := List.length m in
  (fmt =? "ASCII") || (n =? lm)%nat
  || (mem_str fmt gen_relaxed_formats && (n <=? lm)%nat && (lm - gen_relax_slack <=? n)%nat).
Definition hand_tail (fmt : string) (toks : list string) (m : list (string * (nat * nat))) : result particle :=
  if len_ok fmt toks m then bind (fill tf ti (fmt =? "ASCII") m toks blank) (finish fmt) else Err ValueError.
(* Particle(format, tokens[, attribute_list]) of the hand models: Model/Jetscape.v for JETSCAPE, Model/Oscar.v otherwise *)
Definition mk_any (fmt : string) (attrs toks : list string) : result particle :=
  if fmt =? "JETSCAPE" then mk_jet_particle tf ti pv pc usqrt toks else mk_particle tf ti pv fmt attrs toks.

Local Opaque gen_mapping gen_float_fields gen_int_fields gen_relaxed_formats.

Lemma mk_any_tail fmt attrs toks : mk_any fmt attrs toks = bind (mapping_of fmt attrs) (hand_tail fmt toks).
Proof.
  unfold mk_any. destruct (fmt =? "JETSCAPE") eqn:EJ.
  - apply String.eqb_eq in EJ. subst fmt. unfold mk_jet_particle, mk_particle, mapping_of. cbn [String.eqb Ascii.eqb Bool.eqb].
    destruct (assoc "JETSCAPE" gen_mapping) as [m|]; cbn [bind]; [|reflexivity].
    unfold hand_tail, len_ok. cbv zeta. cbn [String.eqb Ascii.eqb Bool.eqb].
    match goal with |- context [if ?c then _ else Err ValueError] => destruct c end; [|reflexivity].
    destruct (fill tf ti false m toks blank) as [p0|e]; cbn [bind]; reflexivity.
  - unfold mk_particle. destruct (mapping_of fmt attrs) as [m|e]; cbn [bind]; [|reflexivity].
    unfold hand_tail, len_ok. cbv zeta.
    match goal with |- context [if ?c then _ else Err ValueError] => destruct c end; [|reflexivity].
    destruct (fill tf ti (fmt =? "ASCII") m toks blank) as [p0|e]; cbn [bind]; [|reflexivity].
    unfold finish. rewrite EJ. reflexivity.
Qed.

Theorem source_initialize_from_array fmt toks attrs :
  int_oracle ->
  (fmt = "JETSCAPE" -> sqrt_ext usqrt /\
     forall p px py pz, mk_particle tf ti pv "JETSCAPE" [] toks = Ok p ->
       get_slot 6 p = Some px -> get_slot 7 p = Some py -> get_slot 8 p = Some pz -> sqrt_at usqrt (p2_of px py pz)) ->
  gen_initialize_from_array o blank fmt toks (Some attrs) = mk_any fmt attrs toks.
Proof.
  intros INT JET. rewrite mk_any_tail. unfold gen_initialize_from_array. cbv zeta.
  change gen_lit_initialize_from_array_dict1 with gen_mapping.
  change gen_lit_initialize_from_array_strlist1 with gen_relaxed_formats.
  change gen_lit_initialize_from_array_strlist2 with gen_float_fields.
  change gen_lit_initialize_from_array_strlist3 with gen_int_fields.
  match goal with |- bind ?X ?K = _ => set (K0 := K) end.
  assert (TAIL : forall am m, dict_get fmt am = Ok m -> dict_mem fmt am || (fmt =? "ASCII") = true ->
            Forall (fun e => entry_ok (fmt =? "ASCII") e = true) m ->
            (fmt = "JETSCAPE" -> assoc "JETSCAPE" gen_mapping = Some m) ->
            (forall p0 px py pz, fmt = "JETSCAPE" -> len_ok fmt toks m = true ->
               fill tf ti (fmt =? "ASCII") m toks blank = Ok p0 ->
               get_slot 6 p0 = Some px -> get_slot 7 p0 = Some py -> get_slot 8 p0 = Some pz ->
               sqrt_at usqrt (p2_of px py pz)) ->
            K0 am = hand_tail fmt toks m).
  { intros am m G M FA JM SQ. subst K0. cbv beta. rewrite M, !G. cbn [bind].
    rewrite !andE_ok, !orE_ok. cbn [bind].
    rewrite zlen_eqb, zlen_leb, zlen_geb_slack.
    unfold hand_tail.
    replace ((fmt =? "ASCII") || ((List.length toks =? List.length m)%nat
             || mem_str fmt gen_relaxed_formats && ((List.length toks <=? List.length m)%nat
                && (List.length m - gen_relax_slack <=? List.length toks)%nat)))
      with (len_ok fmt toks m)
      by (unfold len_ok; cbv zeta; rewrite <- orb_assoc, <- andb_assoc; reflexivity).
    destruct (len_ok fmt toks m) eqn:OK; [|reflexivity].
    (* the loop over the columns is fill *)
    match goal with |- bind (loopE ?b m blank) ?K = _ => set (body := b); set (POST := K) end.
    assert (LOOP : loopE body m blank = fill tf ti (fmt =? "ASCII") m toks blank).
    { rewrite fill_loop.
      apply (loopE_ext (fun p => List.length p = 25%nat) (fun e => entry_ok (fmt =? "ASCII") e = true)); [| |reflexivity|exact FA].
      - intros p [a [s c]] L EO. subst body. cbv beta iota. cbn [fst snd]. unfold step1.
        unfold entry_ok in EO. cbn [fst snd] in EO. apply andb_true_iff in EO. destruct EO as [S25 _]. apply Nat.ltb_lt in S25.
        rewrite zlen_leb_nat. destruct (Nat.leb_spec (List.length toks) c) as [LE|GT]; [reflexivity|].
        rewrite !(list_get_nth toks c "") by exact GT. unfold cast, py_float, py_intstr.
        destruct (fmt =? "ASCII"); cbn [bind];
          (match goal with |- context [mem_str ?x gen_float_fields] => destruct (mem_str x gen_float_fields) end;
           [destruct (tf (nth c toks "")); cbn [bind]; [rewrite arr_set_ok by lia|]; reflexivity|];
           match goal with |- context [mem_str ?x gen_int_fields] => destruct (mem_str x gen_int_fields) end;
           destruct (ti (nth c toks "")); cbn [bind]; [rewrite arr_set_ok by lia| |rewrite arr_set_ok by lia|]; reflexivity).
      - intros p [a [s c]] p' L _. unfold step1. destruct (List.length toks <=? c)%nat; [intros [= <-]; exact L|].
        destruct (cast tf ti (if fmt =? "ASCII" then a ++ "_" else a) (nth c toks "")); [|discriminate].
        intros [= <-]. rewrite set_slot_length. exact L. }
    rewrite LOOP. destruct (fill tf ti (fmt =? "ASCII") m toks blank) as [p0|e] eqn:EF; cbn [bind]; [|reflexivity].
    assert (PI : pinv p0) by (apply (fill_inv _ _ _ _ _ INT FA) in EF; [exact EF|split; [reflexivity|exact I]]).
    destruct PI as [L0 I0]. subst POST. cbv beta.
    (* PDG validity *)
    match goal with |- bind ?X ?K = _ => assert (PV : X = Ok (set_pdg_valid pv p0)); [|rewrite PV; clear PV; cbn [bind]] end.
    { rewrite !source_get_pdg by exact L0. cbn [bind]. unfold set_pdg_valid, int9 in *.
      destruct (get_slot 9 p0) as [pdg|]; cbn [option_map is_nan bind pdgid_is_valid].
      - rewrite (q_trunc_int pdg I0). cbn [bind]. rewrite source_set_pdg_valid by exact L0. cbn [bind].
        destruct (pv pdg); reflexivity.
      - rewrite source_set_pdg_valid by exact L0. reflexivity. }
    set (p1 := set_pdg_valid pv p0).
    assert (L1 : List.length p1 = 25%nat).
    { subst p1. unfold set_pdg_valid. destruct (get_slot 9 p0); rewrite set_slot_length; exact L0. }
    assert (OTHER : forall k, k <> 10%nat -> get_slot k p1 = get_slot k p0).
    { intros k NE. subst p1. unfold set_pdg_valid. destruct (get_slot 9 p0); apply get_set_other; exact NE. }
    assert (V1 : py_bool (get_slot 10 p1) = match get_slot 9 p0 with Some pdg => pv pdg | None => false end).
    { subst p1. unfold set_pdg_valid. destruct (get_slot 9 p0) as [pdg|]; rewrite get_set_same by lia; [destruct (pv pdg)|]; reflexivity. }
    (* the closing warnings raise nothing *)
    match goal with |- bind _ ?K = _ => set (FINAL := K) end.
    assert (FIN : forall p, List.length p = 25%nat -> FINAL p = Ok p).
    { intros p L. subst FINAL. cbv beta. rewrite source_get_pdg_valid, !source_get_pdg by exact L. cbn [bind].
      destruct (py_bool (get_slot 10 p)); cbn [negb bind]; [reflexivity|].
      destruct (get_slot 9 p); reflexivity. }
    unfold finish. fold p1. destruct (fmt =? "JETSCAPE") eqn:EJ; cbn [bind]; [|apply FIN; exact L1].
    (* JETSCAPE: every momentum slot and the PDG slot are filled, then the derived mass and charge *)
    apply String.eqb_eq in EJ. subst fmt. specialize (JM eq_refl). specialize (SQ p0).
    destruct (JET eq_refl) as [EXT _].
    destruct table_jetscape as [TJ TR]. rewrite JM in TJ.
    assert (LEN : List.length toks = List.length m).
    { unfold len_ok in OK. cbv zeta in OK. rewrite TR in OK. cbn [String.eqb Ascii.eqb Bool.eqb orb andb] in OK.
      rewrite orb_false_r in OK. apply Nat.eqb_eq in OK. exact OK. }
    assert (SET : forall s, In s [5; 6; 7; 8; 9]%nat -> get_slot s p0 <> None).
    { intros s IN. rewrite fill_loop in EF. apply (loop_sets ("JETSCAPE" =? "ASCII") toks s m blank p0 FA eq_refl EF). right.
      rewrite LEN. rewrite forallb_forall in TJ. apply TJ. exact IN. }
    destruct (get_slot 5 p0) as [E|] eqn:E5; [|exfalso; apply (SET 5%nat); cbn; tauto].
    destruct (get_slot 6 p0) as [px|] eqn:E6; [|exfalso; apply (SET 6%nat); cbn; tauto].
    destruct (get_slot 7 p0) as [py|] eqn:E7; [|exfalso; apply (SET 7%nat); cbn; tauto].
    destruct (get_slot 8 p0) as [pz|] eqn:E8; [|exfalso; apply (SET 8%nat); cbn; tauto].
    destruct (get_slot 9 p0) as [pdg|] eqn:E9; [|exfalso; apply (SET 9%nat); cbn; tauto].
    rewrite !OTHER by discriminate. rewrite E5, E6, E7, E8, E9.
    unfold int9 in I0. rewrite E9 in I0.
    rewrite (source_mass_from_energy_momentum p1 E px py pz pdg L1); try (rewrite OTHER by discriminate; assumption); try assumption;
      [|apply SQ; reflexivity].
    cbn [bind]. rewrite source_set_mass by exact L1. cbn [bind].
    set (p2 := set_slot 4 (hand_mass E px py pz pdg) p1).
    assert (L2 : List.length p2 = 25%nat) by (subst p2; rewrite set_slot_length; exact L1).
    rewrite source_charge_from_pdg by exact L2.
    replace (get_slot 10 p2) with (get_slot 10 p1) by (subst p2; symmetry; apply get_set_other; discriminate).
    replace (get_slot 9 p2) with (Some pdg) by (subst p2; rewrite get_set_other by discriminate; rewrite OTHER by discriminate; symmetry; exact E9).
    rewrite V1, (q_trunc_int pdg I0).
    assert (CS : charge_stored (if pv pdg then Some (pc pdg) else None) = hand_charge pdg)
      by (unfold hand_charge; destruct (pv pdg); reflexivity).
    destruct (pv pdg) eqn:EV; cbn [bind]; rewrite source_set_charge by exact L2; cbn [bind]; rewrite CS.
    all: set (p3 := set_slot 12 (hand_charge pdg) p2).
    all: assert (L3 : List.length p3 = 25%nat) by (subst p3; rewrite set_slot_length; exact L2).
    all: rewrite source_get_pdg_valid, source_get_charge, source_get_pdg by exact L3.
    all: replace (get_slot 9 p3) with (Some pdg)
      by (subst p3 p2; rewrite !get_set_other by discriminate; rewrite OTHER by discriminate; symmetry; exact E9).
    all: cbn [bind andE option_map py_int].
    all: destruct (eqb (py_bool (get_slot 10 p3)) false); cbn [bind]; [destruct (is_nan (option_map q_trunc (get_slot 12 p3)))|];
      cbn [bind]; apply FIN; exact L3. }
  destruct (fmt =? "ASCII") eqn:EA.
  - (* ASCII: the column map is built from the attribute list *)
    apply String.eqb_eq in EA. subst fmt. unfold mapping_of. cbn [String.eqb Ascii.eqb Bool.eqb need_list bind].
    destruct table_allfields_some as [allf HAF].
    match goal with |- context [loopE ?b attrs []] => set (abody := b) end.
    assert (AL : loopE abody attrs [] = ascii_mapping attrs attrs []).
    { assert (PW : forall md a, True -> True -> abody md a = astep allf attrs md a).
      { intros md a _ _. subst abody. cbv beta. unfold dict_get, astep. rewrite HAF. cbn [bind need_list].
        destruct (assoc a allf) as [[s c]|]; cbn [bind fst]; [|reflexivity]. unfold list_index.
        destruct (index_of a attrs); reflexivity. }
      assert (FT : Forall (fun _ : string => True) attrs) by (apply Forall_forall; intros; exact I).
      rewrite (loopE_ext (fun _ => True) (fun _ => True) abody (astep allf attrs) PW (fun _ _ _ _ _ _ => I) attrs [] I FT).
      change (@nil (string * (nat * nat))) with (mapg allf attrs []).
      rewrite (ascii_loop allf attrs HAF attrs [] []); [|reflexivity|intros a; apply index_of_In].
      destruct (ascii_mapping attrs attrs []); reflexivity. }
    rewrite AL. destruct (ascii_mapping attrs attrs []) as [m|e] eqn:EM; cbn [bind]; [|reflexivity].
    apply TAIL.
    + apply dict_get_set_same.
    + apply orb_true_r.
    + pose proof table_allfields_ok as TA. rewrite HAF in TA. rewrite forallb_forall in TA.
      pose proof (ascii_entries allf attrs HAF attrs [] m EM) as EN.
      eapply Forall_impl; [|exact EN]. intros [a [s i]] [c IN]. cbn [fst snd] in IN.
      specialize (TA _ IN). unfold entry_ok in *. cbn [fst snd String.eqb Ascii.eqb Bool.eqb] in *. exact TA.
    + discriminate.
    + discriminate.
  - (* the fixed formats *)
    cbn [bind]. unfold mapping_of. rewrite EA.
    destruct (assoc fmt gen_mapping) as [m|] eqn:EF; cbn [bind].
    + apply TAIL.
      * unfold dict_get. rewrite EF. reflexivity.
      * unfold dict_mem. rewrite EF. reflexivity.
      * pose proof table_entries_ok as TE. rewrite forallb_forall in TE. specialize (TE _ (assoc_In _ _ _ EF)).
        cbn [snd] in TE. rewrite forallb_forall in TE. apply Forall_forall. exact TE.
      * intros ->. exact EF.
      * intros p0 px py pz -> OK FILL H6 H7 H8. destruct (JET eq_refl) as [_ SQ].
        apply (SQ (set_pdg_valid pv p0)).
        -- unfold mk_particle, mapping_of. cbn [String.eqb Ascii.eqb Bool.eqb]. rewrite EF. cbn [bind].
           unfold len_ok in OK. cbv zeta in OK. cbn [String.eqb Ascii.eqb Bool.eqb] in OK. rewrite OK.
           cbn [String.eqb Ascii.eqb Bool.eqb] in FILL. rewrite FILL. reflexivity.
        -- unfold set_pdg_valid. destruct (get_slot 9 p0); rewrite get_set_other by discriminate; exact H6.
        -- unfold set_pdg_valid. destruct (get_slot 9 p0); rewrite get_set_other by discriminate; exact H7.
        -- unfold set_pdg_valid. destruct (get_slot 9 p0); rewrite get_set_other by discriminate; exact H8.
    + subst K0. cbv beta. unfold dict_mem. rewrite EF. reflexivity.
Qed.

(* ================================================================ __init__ ===================================== *)
Local Opaque gen_initialize_from_array.
(* Particle(): the blank particle *)
Theorem source_init_blank :
  gen_init o gen_default_init_input_format gen_default_init_particle_array gen_default_init_attribute_list = Ok blank.
Proof. reflexivity. Qed.
(* Particle(format, tokens[, attribute_list]) as the loaders call it: the attribute list is given for ASCII only *)
Theorem source_init fmt toks attrs :
  int_oracle ->
  (fmt = "JETSCAPE" -> sqrt_ext usqrt /\
     forall p px py pz, mk_particle tf ti pv "JETSCAPE" [] toks = Ok p ->
       get_slot 6 p = Some px -> get_slot 7 p = Some py -> get_slot 8 p = Some pz -> sqrt_at usqrt (p2_of px py pz)) ->
  fmt = "ASCII" \/ attrs = [] ->
  gen_init o (Some fmt) (Some toks) (Some attrs) = mk_any fmt attrs toks.
Proof.
  intros INT JET DOM. unfold gen_init. cbv zeta.
  change (gen_set_pdg_valid o (list_mul 25 [None]) false) with (@Ok particle blank).
  cbn [bind is_some is_none negb andb orb olist_is_nil ostr_eqb].
  assert (C : negb (match attrs with [] => true | _ :: _ => false end) && negb (fmt =? "ASCII") = false).
  { destruct DOM as [->| ->]; [apply andb_false_r|reflexivity]. }
  rewrite C. rewrite (source_initialize_from_array fmt toks attrs INT JET).
  destruct (mk_any fmt attrs toks); reflexivity.
Qed.
(* the argument checks of __init__ *)
Theorem source_init_errors :
  (forall fmt attrs, gen_init o (Some fmt) None attrs = Err ValueError)
  /\ (forall toks attrs, gen_init o None (Some toks) attrs = Err ValueError)
  /\ (forall toks, gen_init o (Some "ASCII") toks None = Err ValueError)
  /\ (forall fmt toks a attrs, fmt <> "ASCII" -> gen_init o (Some fmt) toks (Some (a :: attrs)) = Err ValueError)
  /\ (forall fmt toks, fmt <> "ASCII" -> gen_init o (Some fmt) toks None = Err ValueError)
  /\ (forall attrs, attrs <> Some [] -> gen_init o None None attrs = Err ValueError).
Proof.
  refine (conj _ (conj _ (conj _ (conj _ (conj _ _))))).
  - intros fmt attrs. reflexivity.
  - intros toks attrs. reflexivity.
  - intros [toks|]; reflexivity.
  - intros fmt toks a attrs NE. apply String.eqb_neq in NE. unfold gen_init. cbv zeta.
    change (gen_set_pdg_valid o (list_mul 25 [None]) false) with (@Ok particle blank).
    cbn [bind is_some is_none negb andb orb olist_is_nil ostr_eqb]. rewrite NE. destruct toks; reflexivity.
  - intros fmt toks NE. apply String.eqb_neq in NE. unfold gen_init. cbv zeta.
    change (gen_set_pdg_valid o (list_mul 25 [None]) false) with (@Ok particle blank).
    cbn [bind is_some is_none negb andb orb olist_is_nil ostr_eqb]. rewrite NE. destruct toks; reflexivity.
  - intros [[|a attrs]|] NE; try reflexivity. congruence.
Qed.

End Source.

(* ================================================================ non-vacuity ================================== *)
(* a JETSCAPE row whose momentum has an exact root (3,4,0 -> 5; E = 13 -> m = 12), with oracles given by tables:
   the hypotheses of source_init hold and the constructor yields the expected 25 slots *)
Definition ex_sqrt (x : Q) : Q := if Qeq_bool x 25 then 5 else if Qeq_bool x 144 then 12 else 0.
Definition ex_oracles : oracles :=
  Oracles (table [("13", Some 13); ("3", Some 3); ("4", Some 4); ("0", Some 0)])
          (table [("1", Some 1); ("211", Some 211); ("27", Some 27)])
          (pvtable [(211, true)]) (qtable [(211, 1)]) ex_sqrt.
Definition ex_toks : list string := ["1"; "211"; "27"; "13"; "3"; "4"; "0"].
Lemma qeqb_ext a b k : a == b -> Qeq_bool a k = Qeq_bool b k.
Proof.
  intros H. apply eq_true_iff_eq. rewrite !Qeq_bool_iff. split; intros H1; [rewrite <- H|rewrite H]; exact H1.
Qed.
Lemma table_int t : forallb (fun e => match snd e with Some q => Pos.eqb (Qden q) 1 | None => true end) t = true ->
  forall s q, table t s = Some q -> Qden q = 1%positive.
Proof.
  intros F s q. unfold table. destruct (assoc s t) as [v|] eqn:E; [|discriminate]. intros ->.
  rewrite forallb_forall in F. specialize (F _ (assoc_In _ _ _ E)). cbn in F. apply Pos.eqb_eq. exact F.
Qed.
Theorem source_example :
  int_oracle ex_oracles
  /\ sqrt_ext (o_sqrt ex_oracles)
  /\ (forall p px py pz, mk_particle (o_float ex_oracles) (o_int ex_oracles) (o_valid ex_oracles) "JETSCAPE" [] ex_toks = Ok p ->
        get_slot 6 p = Some px -> get_slot 7 p = Some py -> get_slot 8 p = Some pz ->
        sqrt_at (o_sqrt ex_oracles) (p2_of px py pz))
  /\ exists p, gen_init ex_oracles (Some "JETSCAPE") (Some ex_toks) (Some []) = Ok p
               /\ list_eqb oq_eqb p
                    [None; None; None; None; Some 12; Some 13; Some 3; Some 4; Some 0; Some 211; Some 1; Some 1; Some 1;
                     None; None; None; None; None; None; None; None; Some 27; None; None; None] = true.
Proof.
  refine (conj _ (conj _ (conj _ _))).
  - unfold int_oracle. cbn [o_int ex_oracles]. apply table_int. reflexivity.
  - intros a b H. cbn [o_sqrt ex_oracles]. unfold ex_sqrt. rewrite (qeqb_ext a b 25 H), (qeqb_ext a b 144 H). reflexivity.
  - intros p px py pz MK. vm_compute in MK. injection MK as <-. cbn [get_slot nth].
    intros [= <-] [= <-] [= <-]. split; vm_compute; [discriminate|reflexivity].
  - eexists. split; vm_compute; reflexivity.
Qed.

(* C18 over the reals: |eps| <= 1 for non-negative weights (triangle inequality by induction), and the tie between
   the algebraic unit-vector form and the code's arctan2 / cos / sin form (De Moivre). *)
From Coq Require Import List ZArith Bool Lia Reals RealField Lra Psatz Field_theory.
From SX Require Import Lib.KRing Lib.Py Gen.GenEcc Model.Ecc Proofs.C18_Ecc.
Import ListNotations.
Local Open Scope R_scope.

Definition ris0 (a : R) : bool := if Req_EM_T a 0 then true else false.
Lemma ris0_spec a : ris0 a = true <-> a = 0.
Proof. unfold ris0. destruct (Req_EM_T a 0); split; intros; congruence. Qed.

Notation rcis := (cis_pow R 0 1 Rplus Rmult Rminus).
Notation runit := (unitv R 0 1 Rdiv ris0).
Notation rSRe := (SRe R 0 1 Rplus Rmult Rminus Rdiv ris0).
Notation rSIm := (SIm R 0 1 Rplus Rmult Rminus Rdiv ris0).
Notation rSN := (SN R 0 1 Rplus Rmult).
Notation reps := (eps R 0 1 Rplus Rmult Rminus Rdiv Ropp ris0).
Notation rcn := (cn R 0 1 Rplus Rmult Rminus Rdiv ris0).
Notation rsn := (sn R 0 1 Rplus Rmult Rminus Rdiv ris0).

(* De Moivre *)
Lemma de_moivre phi n : rcis (cos phi) (sin phi) n = (cos (INR n * phi), sin (INR n * phi)).
Proof.
  induction n as [|n IH].
  - simpl. rewrite Rmult_0_l, cos_0, sin_0. reflexivity.
  - rewrite (cis_S R 0 1 Rplus Rmult Rminus), IH. unfold cmul. simpl fst. simpl snd.
    rewrite S_INR. replace ((INR n + 1) * phi) with (phi + INR n * phi) by ring.
    rewrite cos_plus, sin_plus. f_equal; ring.
Qed.

(* a point given in polar form: the model's (cos(n phi), sin(n phi)) are the code's np.cos(n*phi), np.sin(n*phi) *)
Lemma polar_point (p : pt R) phi n : 0 < pr p -> px p = pr p * cos phi -> py p = pr p * sin phi ->
  rcn p n = cos (INR n * phi) /\ rsn p n = sin (INR n * phi).
Proof.
  intros Hr Hx Hy. unfold cn, sn.
  assert (U : runit p = (cos phi, sin phi)).
  { unfold unitv. destruct (ris0 (pr p)) eqn:Z; [apply ris0_spec in Z; lra|].
    rewrite Hx, Hy. f_equal; field; lra. }
  rewrite U. simpl fst. simpl snd. rewrite de_moivre. split; reflexivity.
Qed.

(* the unit vector has modulus one when r^2 = x^2 + y^2 *)
Lemma runit_unit (p : pt R) : pr p * pr p = px p * px p + py p * py p ->
  fst (runit p) * fst (runit p) + snd (runit p) * snd (runit p) = 1.
Proof.
  intros H. unfold unitv. destruct (ris0 (pr p)) eqn:Z; simpl; [ring|].
  assert (pr p <> 0) by (intros E; apply ris0_spec in E; congruence).
  unfold Rdiv. replace (px p * / pr p * (px p * / pr p) + py p * / pr p * (py p * / pr p))
    with ((px p * px p + py p * py p) * / (pr p * pr p)) by (field; assumption).
  rewrite <- H. field. assumption.
Qed.

(* triangle inequality, squared form, by induction over the weighted unit vectors *)
Lemma triangle (l : list (R * R * R)) :
  (forall a c s, In (a, c, s) l -> 0 <= a /\ c * c + s * s = 1) ->
  let A := ksum 0 Rplus (map (fun t => fst (fst t) * snd (fst t)) l) in
  let B := ksum 0 Rplus (map (fun t => fst (fst t) * snd t) l) in
  let N := ksum 0 Rplus (map (fun t => fst (fst t)) l) in
  A * A + B * B <= N * N /\ 0 <= N.
Proof.
  induction l as [|[[a c] s] t IH]; intros H; simpl.
  - split; lra.
  - destruct (IH (fun a c s Hin => H a c s (or_intror Hin))) as [I1 I2].
    destruct (H a c s (or_introl eq_refl)) as [Ha Hu].
    set (A := ksum 0 Rplus (map (fun t => fst (fst t) * snd (fst t)) t)) in *.
    set (B := ksum 0 Rplus (map (fun t => fst (fst t) * snd t) t)) in *.
    set (N := ksum 0 Rplus (map (fun t => fst (fst t)) t)) in *.
    assert (X : A * c + B * s <= N).
    { destruct (Rle_dec (A * c + B * s) N) as [L|L]; [assumption|]. exfalso.
      apply Rnot_le_lt in L.
      assert (Q : (A * c + B * s) * (A * c + B * s) <= N * N).
      { replace ((A * c + B * s) * (A * c + B * s))
          with ((A * A + B * B) * (c * c + s * s) - (A * s - B * c) * (A * s - B * c)) by ring.
        rewrite Hu. pose proof (Rle_0_sqr (A * s - B * c)) as Sq. unfold Rsqr in Sq. lra. }
      assert (P : N * N < (A * c + B * s) * (A * c + B * s)) by nra.
      lra. }
    split; [|lra].
    replace ((a * c + A) * (a * c + A) + (a * s + B) * (a * s + B))
      with (A * A + B * B + 2 * a * (A * c + B * s) + a * a * (c * c + s * s)) by ring.
    rewrite Hu. nra.
Qed.

Definition nonneg_point (q : pt R * R) : Prop :=
  0 <= snd q /\ 0 <= pr (fst q) /\ pr (fst q) * pr (fst q) = px (fst q) * px (fst q) + py (fst q) * py (fst q).

Theorem eps_bound E n (l : list (pt R * R)) : Forall nonneg_point l -> rSN E l <> 0 ->
  fst (reps E n l) * fst (reps E n l) + snd (reps E n l) * snd (reps E n l) <= 1.
Proof.
  intros Hl Hn.
  set (tr := map (fun q : pt R * R => (kpow 1 Rmult (pr (fst q)) E * snd q, rcn (fst q) n, rsn (fst q) n)) l).
  assert (Ht : forall a c s, In (a, c, s) tr -> 0 <= a /\ c * c + s * s = 1).
  { intros a c s Hin. unfold tr in Hin. apply in_map_iff in Hin. destruct Hin as (q & Eq & Hq). injection Eq as <- <- <-.
    rewrite Forall_forall in Hl. destruct (Hl q Hq) as (Hw & Hr & Hu). split.
    - apply Rmult_le_pos; [|assumption]. clear -Hr. induction E as [|E IH]; simpl; [lra | now apply Rmult_le_pos].
    - unfold cn, sn. apply (cis_unit R 0 1 Rplus Rmult Rminus Rdiv Ropp Rinv Rfield). now apply runit_unit. }
  destruct (triangle tr Ht) as [T1 T2].
  assert (EA : ksum 0 Rplus (map (fun t => fst (fst t) * snd (fst t)) tr) = rSRe E n l).
  { unfold tr, SRe. rewrite map_map. apply (ksum_map_ext R 0 Rplus). intros [p w]. simpl. ring. }
  assert (EB : ksum 0 Rplus (map (fun t => fst (fst t) * snd t) tr) = rSIm E n l).
  { unfold tr, SIm. rewrite map_map. apply (ksum_map_ext R 0 Rplus). intros [p w]. simpl. ring. }
  assert (EN : ksum 0 Rplus (map (fun t => fst (fst t)) tr) = rSN E l).
  { unfold tr, SN. rewrite map_map. apply (ksum_map_ext R 0 Rplus). intros [p w]. reflexivity. }
  rewrite EA, EB, EN in T1. rewrite EN in T2.
  unfold eps. simpl fst. simpl snd.
  set (A := rSRe E n l) in *. set (B := rSIm E n l) in *. set (N := rSN E l) in *.
  assert (Np : 0 < N * N) by nra.
  replace (- (A / N) * - (A / N) + - (B / N) * - (B / N)) with ((A * A + B * B) / (N * N)) by (field; assumption).
  apply Rmult_le_reg_r with (N * N); [assumption|].
  replace ((A * A + B * B) / (N * N) * (N * N)) with (A * A + B * B) by (field; assumption). lra.
Qed.

(* the code's form: points in polar coordinates, cos(n phi) and sin(n phi) of the polar angle *)
Theorem eps_polar E n (l : list (pt R * R)) (phi : pt R -> R) :
  (forall q, In q l -> 0 < pr (fst q) /\ px (fst q) = pr (fst q) * cos (phi (fst q))
                       /\ py (fst q) = pr (fst q) * sin (phi (fst q))) ->
  rSRe E n l = ksum 0 Rplus (map (fun q => kpow 1 Rmult (pr (fst q)) E * cos (INR n * phi (fst q)) * snd q) l)
  /\ rSIm E n l = ksum 0 Rplus (map (fun q => kpow 1 Rmult (pr (fst q)) E * sin (INR n * phi (fst q)) * snd q) l).
Proof.
  intros H. unfold SRe, SIm.
  induction l as [|q t IH]; [split; reflexivity|].
  destruct (IH (fun q' Hq' => H q' (or_intror Hq'))) as [I1 I2].
  destruct (H q (or_introl eq_refl)) as (Hr & Hx & Hy).
  destruct (polar_point (fst q) (phi (fst q)) n Hr Hx Hy) as [C S].
  simpl. rewrite I1, I2, C, S. split; reflexivity.
Qed.

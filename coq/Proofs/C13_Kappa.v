(* C13: the generated cumulant formulas are the standard cumulants obtained from the
   correlations through the moment-cumulant recursion
      kappa_n = C_n - sum_{j=1}^{n-1} binom(n-1, j-1) kappa_j C_{n-j}.           *)
From Coq Require Import List ZArith Ring Ring_theory Arith Lia.
From SX Require Import Lib.KRing Gen.GenPtCorr.
Import ListNotations.

Fixpoint binom (n k : nat) : nat :=
  match n, k with
  | _, O => 1
  | O, S _ => 0
  | S n', S k' => binom n' k' + binom n' k
  end.

Section Spec.
  Variable K : Type.
  Variables (k0 k1 : K) (kadd kmul ksub : K -> K -> K).
  (* C i stands for C_{i+1}; the list holds kappa_1 .. kappa_n *)
  Fixpoint cumulants (C : nat -> K) (n : nat) : list K :=
    match n with
    | O => []
    | S m =>
      let prev := cumulants C m in
      prev ++ [ksub (C m)
                 (ksum k0 kadd (map (fun i => kmul (kmul (knat k0 k1 kadd (binom m i)) (nth i prev k0)) (C (m - 1 - i)))
                                    (seq 0 m)))]
    end.
  Definition cumulant (C : nat -> K) (n : nat) : K := nth (n - 1) (cumulants C n) k0.
End Spec.

Section Kappa.
  Variable K : Type.
  Variables (k0 k1 : K) (kadd kmul ksub : K -> K -> K) (kopp : K -> K).
  Hypothesis Kth : ring_theory k0 k1 kadd kmul ksub kopp (@eq K).
  Add Ring Kring13k : Kth.
  Notation CU := (cumulant K k0 k1 kadd kmul ksub).

  Ltac kap := intros; cbv [cumulant cumulants binom knat nth app seq map ksum Nat.sub Nat.add
                           gen_kappa_1 gen_kappa_2 gen_kappa_3 gen_kappa_4 gen_kappa_5 gen_kappa_6
                           gen_kappa_7 gen_kappa_8 kpow kz kpos]; ring.

  Lemma kappa1 C : gen_kappa_1 K C = CU C 1. Proof. kap. Qed.
  Lemma kappa2 C : gen_kappa_2 K k1 kmul ksub C = CU C 2. Proof. kap. Qed.
  Lemma kappa3 C : gen_kappa_3 K k0 k1 kadd kmul ksub kopp C = CU C 3. Proof. kap. Qed.
  Lemma kappa4 C : gen_kappa_4 K k0 k1 kadd kmul ksub kopp C = CU C 4. Proof. kap. Qed.
  Lemma kappa5 C : gen_kappa_5 K k0 k1 kadd kmul ksub kopp C = CU C 5. Proof. kap. Qed.
  Lemma kappa6 C : gen_kappa_6 K k0 k1 kadd kmul ksub kopp C = CU C 6. Proof. kap. Qed.
  Lemma kappa7 C : gen_kappa_7 K k0 k1 kadd kmul ksub kopp C = CU C 7. Proof. kap. Qed.
  Lemma kappa8 C : gen_kappa_8 K k0 k1 kadd kmul ksub kopp C = CU C 8. Proof. kap. Qed.

  Theorem gen_kappa_ok k C : (1 <= k <= 8)%nat ->
    gen_kappa K k0 k1 kadd kmul ksub kopp k C = Some (CU C k).
  Proof.
    intros H. destruct k as [|k]; [lia|].
    do 8 (destruct k as [|k]; [cbn [gen_kappa]; f_equal;
      first [apply kappa1|apply kappa2|apply kappa3|apply kappa4|apply kappa5|apply kappa6|apply kappa7|apply kappa8]|]).
    lia.
  Qed.
End Kappa.

(* C12 - the hand models Model/FlowRP.v, FlowSP.v, FlowEP.v (and the leaf functions of their executable instance
   Model/FlowQ.v) against the Gallina functions that tools/py2coq/gen_flowest.py regenerates from the CURRENT Python
   source of ReactionPlaneFlow, ScalarProductFlow and EventPlaneFlow (Gen/GenFlowEst.v).
   Generated functions use exact arithmetic (a / b = a * kinv b, sqrt/abs oracles) and do not represent non-finite
   floats; the hand models return None where the float result is NaN/inf (or ZeroDivisionError).  Each theorem says
   which finite result of the hand model is the value of the regenerated function. *)
From Coq Require Import List ZArith QArith Qpower Ring Ring_theory Arith Lia Bool String.
From SX Require Import Lib.KRing Lib.Cpx Model.QCumulant Model.FlowRP Model.FlowSP Model.FlowEP Model.FlowQ Gen.GenFlowEst.
Import ListNotations.

Section ListLemmas.
  Lemma fold_app_map {A B} (f : A -> B) l : forall acc, fold_left (fun a x => a ++ [f x]) l acc = acc ++ map f l.
  Proof. induction l as [|x l IH]; intros acc; cbn [fold_left map]; [now rewrite app_nil_r | rewrite IH, <- app_assoc; reflexivity]. Qed.
  Lemma fold_app_filter {A} (c : A -> bool) l : forall acc,
    fold_left (fun a x => if c x then a ++ [x] else a) l acc = acc ++ filter c l.
  Proof.
    induction l as [|x l IH]; intros acc; cbn [fold_left filter]; [now rewrite app_nil_r|].
    rewrite IH. destruct (c x); [rewrite <- app_assoc; reflexivity | reflexivity].
  Qed.
  Lemma fold_left_ext {A S} (f g : S -> A -> S) l : (forall s x, f s x = g s x) -> forall s, fold_left f l s = fold_left g l s.
  Proof. intros H; induction l as [|x l IH]; intros s; cbn [fold_left]; [reflexivity | rewrite H; apply IH]. Qed.
  Lemma combine_map_r {A B} (f : A -> B) l : combine l (map f l) = map (fun x => (x, f x)) l.
  Proof. induction l as [|x l IH]; cbn [combine map]; [reflexivity | now rewrite IH]. Qed.
  Lemma combine_map_map {A B C} (f : A -> B) (g : A -> C) l : combine (map f l) (map g l) = map (fun x => (f x, g x)) l.
  Proof. induction l as [|x l IH]; cbn [combine map]; [reflexivity | now rewrite IH]. Qed.
  Lemma fold_left_map {A B S} (g : A -> B) (f : S -> B -> S) l : forall s,
    fold_left f (map g l) s = fold_left (fun s x => f s (g x)) l s.
  Proof. induction l as [|x l IH]; intros s; cbn [fold_left map]; [reflexivity | apply IH]. Qed.
  Lemma map_ext_eq {A B} (f g : A -> B) l : (forall x, f x = g x) -> map f l = map g l.
  Proof. intros H; induction l as [|x l IH]; cbn [map]; [reflexivity | now rewrite H, IH]. Qed.
End ListLemmas.

Section Src.
  Variable K : Type.
  Variables (k0 k1 : K) (kadd kmul ksub : K -> K -> K) (kopp kinv ksqrt kabs : K -> K) (kis0 : K -> bool).
  Variables (kleb kltb : K -> K -> bool).
  Hypothesis Kth : ring_theory k0 k1 kadd kmul ksub kopp (@eq K).
  Add Ring KringSrc : Kth.
  Variable D : Type.
  Variables (pt rap eta : D -> K) (wt : D -> option K).
  Variables (cosAB obs : cpx K -> cpx K -> K) (res_fun : K -> K).
  Variables (n : nat) (weight_ : string) (gap : K).
  Notation C := (cpx K).
  Notation part := (part K D).
  Notation Cadd := (cadd K kadd).
  Notation C0 := (c0 K k0).

  Notation G f := (f K k0 k1 kadd kmul ksub kopp kinv ksqrt kabs kis0 kleb kltb D pt rap eta wt cosAB obs res_fun n weight_ gap).
  Ltac kr := cbv beta iota zeta delta [Cpx.cscale Cpx.csub Cpx.cadd Cpx.cmul Cpx.copp Cpx.conj Cpx.ofK Cpx.c0 Cpx.c1
                                       Cpx.re Cpx.im fst snd]; ring.

  (* particle.weight with NaN -> 1, as the source computes it *)
  Definition src_rp_pwt (d : D) : K :=
    gen_rp_weight K k0 k1 kadd kmul ksub kopp kinv ksqrt kabs kis0 kleb kltb D pt rap eta wt cosAB obs res_fun n weight_ gap (C0, d).
  Notation Eflow := (eflow K k0 kadd kmul D src_rp_pwt).
  Notation Ewt := (ewt K k0 kadd D src_rp_pwt).
  Notation Step := (rp_step K k0 kadd kmul kis0 D src_rp_pwt).

  (* the particle loop of one event, started from any values of the two accumulators *)
  Definition rp_inner (st : C * K) (p : part) : C * K :=
    (Cadd (fst st) (cscale K kmul (src_rp_pwt (snd p)) (fst p)), kadd (snd st) (src_rp_pwt (snd p))).
  Lemma rp_inner_fold ev : forall fe np, fold_left rp_inner ev (fe, np) = (Cadd fe (Eflow ev), kadd np (Ewt ev)).
  Proof.
    induction ev as [|p ev IH]; intros fe np; cbn [fold_left].
    - unfold eflow, ewt, csum. cbn [map ksum]. f_equal; [apply (cpx_ext K); kr | ring].
    - unfold rp_inner at 2. cbn [fst snd]. rewrite IH. unfold eflow, ewt, csum. cbn [map ksum].
      generalize (ksum C0 Cadd (map (fun p0 : part => cscale K kmul (src_rp_pwt (snd p0)) (fst p0)) ev)); intros s.
      f_equal; [apply (cpx_ext K); kr | ring].
  Qed.

  (* the generated particle-loop body against rp_inner: by computation, or up to ring identities (commuted products etc.) *)
  Ltac rp_same := first [reflexivity
                        | unfold rp_inner, src_rp_pwt, gen_rp_weight; cbn [fst snd]; apply (f_equal2 pair); [apply (cpx_ext K); kr | ring]].
  Definition rp_total (evs : list (list part)) : K := snd (fold_left Step evs (C0, k0)).
  (* one event of integrated_flow on the state (number_particles, flow_event_average) *)
  Definition rp_outer (st : K * C) (ev : list part) : K * C :=
    let '(fe, np1) := fold_left rp_inner ev (C0, fst st) in (np1, if negb (kis0 np1) then Cadd (snd st) fe else C0).
  Lemma rp_outer_fold evs : forall fea np,
    fold_left rp_outer evs (np, fea) = (snd (fold_left Step evs (fea, np)), fst (fold_left Step evs (fea, np))).
  Proof.
    induction evs as [|ev evs IH]; intros fea np; cbn [fold_left]; [reflexivity|].
    unfold rp_outer at 2. cbn [fst snd]. rewrite rp_inner_fold. unfold rp_step at 2 4. cbn [fst snd]. rewrite <- IH.
    destruct (kis0 (kadd np (Ewt ev))); cbn [negb]; [reflexivity|].
    replace (Cadd fea (Cadd C0 (Eflow ev))) with (Cadd fea (Eflow ev)) by (apply (cpx_ext K); kr). reflexivity.
  Qed.

  Theorem source_rp_integrated evs :
    rp_integrated K k0 kadd kmul kinv kis0 D src_rp_pwt evs
    = if kis0 (rp_total evs) then None
      else Some (gen_rp_integrated_flow K k0 k1 kadd kmul ksub kopp kinv ksqrt kabs kis0 kleb kltb D pt rap eta wt cosAB obs res_fun
                   n weight_ gap evs).
  Proof using Kth.
    unfold rp_integrated, rp_total, gen_rp_integrated_flow. cbv zeta.
    set (M := fold_left Step evs (C0, k0)).
    rewrite (fold_left_ext _ rp_outer).
    2:{ intros [np fea] ev. cbv beta iota. unfold rp_outer. cbn [fst snd].
        rewrite (fold_left_ext _ rp_inner) by (intros [? ?] ?; rp_same). reflexivity. }
    rewrite rp_outer_fold. fold M. reflexivity.
  Qed.

  (* ---- ReactionPlaneFlow.__differential_flow_calculation and the binning of differential_flow ---- *)
  Definition rp_dstep (st : K * C) (ev : list part) : K * C :=
    let '(fe, np1) := fold_left rp_inner ev (C0, fst st) in (np1, Cadd (snd st) fe).
  Lemma rp_dstep_fold b : forall np fea,
    fold_left rp_dstep b (np, fea) = (kadd np (ksum k0 kadd (map Ewt b)), Cadd fea (csum K k0 kadd (map Eflow b))).
  Proof.
    induction b as [|ev b IH]; intros np fea; cbn [fold_left].
    - unfold csum. cbn [map ksum]. f_equal; [ring | apply (cpx_ext K); kr].
    - unfold rp_dstep at 2. cbn [fst snd]. rewrite rp_inner_fold, IH. unfold csum. cbn [map ksum].
      generalize (ksum C0 Cadd (map Eflow b)); intros s. f_equal; [ring | apply (cpx_ext K); kr].
  Qed.
  (* the value of one bin, from the events already restricted to the bin *)
  Definition rp_bin_value (b : list (list part)) : C :=
    let f := csum K k0 kadd (map Eflow b) in
    let np := ksum k0 kadd (map Ewt b) in
    if kis0 np then C0 else cscale K kmul (kinv np) f.

  Lemma source_rp_diffcalc_binned bd :
    G gen_rp_differential_flow_calculation bd = map rp_bin_value bd.
  Proof using Kth.
    unfold gen_rp_differential_flow_calculation. cbv zeta.
    rewrite combine_map_r, fold_left_map.
    rewrite (fold_left_ext _ (fun acc b => acc ++ [rp_bin_value b])).
    2:{ intros acc b. cbv beta iota.
        rewrite (fold_left_ext _ rp_dstep).
        2:{ intros [np fea] ev. cbv beta iota. unfold rp_dstep. cbn [fst snd].
            rewrite (fold_left_ext _ rp_inner) by (intros [? ?] ?; rp_same). reflexivity. }
        rewrite rp_dstep_fold. cbv beta iota. apply (f_equal (fun z => acc ++ [z])). unfold rp_bin_value. cbv zeta.
        replace (kadd k0 (ksum k0 kadd (map Ewt b))) with (ksum k0 kadd (map Ewt b)) by ring.
        destruct (kis0 _); cbn [negb]; [reflexivity|]. f_equal. apply (cpx_ext K); kr. }
    rewrite fold_app_map. reflexivity.
  Qed.

  Theorem source_rp_differential (tests : list (D -> bool)) evs :
    G gen_rp_differential_flow_calculation (map (fun t => map (binned K D t) evs) tests)
    = map (fun t => rp_differential_bin K k0 kadd kmul kinv kis0 D src_rp_pwt t evs) tests.
  Proof using Kth. rewrite source_rp_diffcalc_binned, map_map. reflexivity. Qed.

  Definition src_rp_inbin (sel : string) (lo hi : K) (d : D) : bool := G gen_rp_in_bin sel lo hi (C0, d).
  Theorem source_rp_binning sel lo hi evs :
    G gen_rp_bin_events sel lo hi evs = map (binned K D (src_rp_inbin sel lo hi)) evs.
  Proof using Kth.
    unfold gen_rp_bin_events. cbv zeta.
    rewrite (fold_left_ext _ (fun acc ev => acc ++ [binned K D (src_rp_inbin sel lo hi) ev])).
    2:{ intros acc ev. apply (f_equal (fun z => acc ++ [z])).
        rewrite (fold_left_ext _ (fun a x => if src_rp_inbin sel lo hi (snd x) then a ++ [x] else a)) by (intros; reflexivity).
        rewrite fold_app_filter. reflexivity. }
    rewrite fold_app_map. reflexivity.
  Qed.

  (* differential_flow as a whole, for any list of bins (lo, hi): binning, then __differential_flow_calculation *)
  Theorem source_rp_differential_flow sel (edges : list (K * K)) evs :
    G gen_rp_differential_flow_calculation (map (fun b => G gen_rp_bin_events sel (fst b) (snd b) evs) edges)
    = map (fun b => rp_differential_bin K k0 kadd kmul kinv kis0 D src_rp_pwt (src_rp_inbin sel (fst b) (snd b)) evs) edges.
  Proof using Kth.
    rewrite source_rp_diffcalc_binned, map_map. apply map_ext_eq. intros b. rewrite source_rp_binning. reflexivity.
  Qed.

  (* ---- generic accumulation lemmas ---- *)
  Lemma cadd_0_l (x : C) : Cadd C0 x = x.
  Proof. apply (cpx_ext K); kr. Qed.
  Lemma fold_cadd {A} (h : A -> C) l : forall a,
    fold_left (fun a x => Cadd a (h x)) l a = Cadd a (csum K k0 kadd (map h l)).
  Proof.
    induction l as [|x l IH]; intros a; cbn [fold_left]; unfold csum; cbn [map ksum].
    - apply (cpx_ext K); kr.
    - rewrite IH. unfold csum. generalize (ksum C0 Cadd (map h l)); intros s. apply (cpx_ext K); kr.
  Qed.
  Lemma fold_cadd_if {A} (c : A -> bool) (h : A -> C) l : forall a,
    fold_left (fun a x => if c x then Cadd a (h x) else a) l a = Cadd a (csum K k0 kadd (map h (filter c l))).
  Proof.
    induction l as [|x l IH]; intros a; cbn [fold_left filter].
    - unfold csum; cbn [map ksum]. apply (cpx_ext K); kr.
    - rewrite IH. destruct (c x); [|reflexivity]. unfold csum; cbn [map ksum].
      generalize (ksum C0 Cadd (map h (filter c l))); intros s. apply (cpx_ext K); kr.
  Qed.


  Lemma combine_map_l {A B} (f : A -> B) l : combine (map f l) l = map (fun x => (f x, x)) l.
  Proof. induction l as [|x l IH]; cbn [combine map]; [reflexivity | now rewrite IH]. Qed.
  Lemma fold_pair_app {A B B'} (F : A -> B) (F' : A -> B') l : forall a b,
    fold_left (fun st x => (fst st ++ [F x], snd st ++ [F' x])) l (a, b) = (a ++ map F l, b ++ map F' l).
  Proof.
    induction l as [|x l IH]; intros a b; cbn [fold_left map fst snd]; [now rewrite !app_nil_r|].
    rewrite IH, <- !app_assoc. reflexivity.
  Qed.
  Lemma fold_cadd_app_if {A} (c : A -> bool) (h : A -> C) (g : A -> K) l : forall q r,
    fold_left (fun st x => if c x then (Cadd (fst st) (h x), snd st ++ [g x]) else st) l (q, r)
    = (Cadd q (csum K k0 kadd (map h (filter c l))), r ++ map g (filter c l)).
  Proof.
    induction l as [|x l IH]; intros q r; cbn [fold_left filter].
    - unfold csum; cbn [map ksum]. rewrite app_nil_r. f_equal. apply (cpx_ext K); kr.
    - destruct (c x); cbn [fst snd]; rewrite IH; [|reflexivity]. unfold csum; cbn [map ksum]. rewrite <- app_assoc.
      generalize (ksum C0 Cadd (map h (filter c l))); intros s. f_equal. apply (cpx_ext K); kr.
  Qed.
  Ltac tri := apply (f_equal2 pair); [apply (f_equal2 pair)|]; ring.
  Lemma retuple3 {A1 A2 A3} (x : A1 * A2 * A3) : (let '(a, b, c) := x in (a, b, c)) = x.
  Proof. destruct x as [[? ?] ?]. reflexivity. Qed.
  Lemma retuple2 {A1 A2} (x : A1 * A2) : (let '(a, b) := x in (a, b)) = x.
  Proof. destruct x as [? ?]. reflexivity. Qed.
  Lemma kpow2 x : kpow k1 kmul x 2 = kmul x x.
  Proof. cbn [kpow]. ring. Qed.
  Lemma kz2 : kz k0 k1 kadd kmul kopp 2 = kadd k1 k1.
  Proof. cbn [kz kpos]. ring. Qed.

  (* ---- the weighted event average (__calculate_flow_event_average), finite arithmetic ---- *)
  Notation Sums := (sums K k0 kadd kmul).
  Notation AverageOf := (average_of K k0 kmul ksub kinv ksqrt kis0 kltb).
  Notation event := (event K D).
  Definition avg_fin (s : K * K * K) : K * K :=
    let '(N, S1, S2) := s in
    if kis0 N then (k0, k0) else
    let vn := kmul S1 (kinv N) in
    let vsq := kmul S2 (kinv (kmul N N)) in
    (vn, kmul (ksqrt (ksub (kmul vn vn) vsq)) (kinv (ksqrt N))).
  (* every finite result of the hand model's average is the result of the finite-arithmetic average *)
  Lemma avg_fin_refines s v oe :
    AverageOf s = (Some v, oe) -> fst (avg_fin s) = v /\ (forall e, oe = Some e -> snd (avg_fin s) = e).
  Proof.
    destruct s as [[N S1] S2]. unfold average_of, avg_fin. destruct (kis0 N).
    - intros H; injection H as <- <-. split; [reflexivity | intros e He; injection He as <-; reflexivity].
    - cbv zeta. destruct (_ || _); intros H; injection H as <- <-; (split; [reflexivity|]); intros e He;
        [discriminate | injection He as <-; reflexivity].
  Qed.
  Definition avg_step (st : K * K * K) (wv : K * K) : K * K * K :=
    let '(N, S1, S2) := st in
    (kadd N (fst wv), kadd S1 (kmul (snd wv) (fst wv)), kadd S2 (kmul (kpow k1 kmul (snd wv) 2) (kpow k1 kmul (fst wv) 2))).
  Lemma avg_inner l : forall N S1 S2,
    fold_left avg_step l (N, S1, S2)
    = (kadd N (ksum k0 kadd (map (fun wv : K * K => fst wv) l)), kadd S1 (ksum k0 kadd (map (fun wv : K * K => kmul (snd wv) (fst wv)) l)),
       kadd S2 (ksum k0 kadd (map (fun wv : K * K => kmul (kmul (snd wv) (snd wv)) (kmul (fst wv) (fst wv))) l))).
  Proof.
    induction l as [|x l IH]; intros N S1 S2; cbn [fold_left map ksum].
    - tri.
    - unfold avg_step at 2. rewrite IH, !kpow2. tri.
  Qed.
  Lemma avg_outer ls : forall N S1 S2,
    fold_left (fun st l => fold_left avg_step l st) ls (N, S1, S2)
    = (kadd N (fst (fst (Sums ls))), kadd S1 (snd (fst (Sums ls))), kadd S2 (snd (Sums ls))).
  Proof.
    induction ls as [|l ls IH]; intros N S1 S2; cbn [fold_left].
    - unfold sums; cbn [map ksum fst snd]. tri.
    - rewrite avg_inner, IH. unfold sums; cbn [map ksum fst snd]. tri.
  Qed.
  Lemma avg_total {A} (g : A -> list (K * K)) l :
    fold_left (fun st x => fold_left avg_step (g x) st) l (k0, k0, k0) = Sums (map g l).
  Proof.
    rewrite <- (fold_left_map g (fun st l => fold_left avg_step l st)). rewrite avg_outer.
    destruct (Sums (map g l)) as [[a b] c]; cbn [fst snd]. tri.
  Qed.
  Lemma sums_N_indep (w : part -> K) (val1 val2 : event -> part -> K) (evs : list event) :
    fst (fst (Sums (map (fun e => map (fun p => (w p, val1 e p)) (fst e)) evs)))
    = fst (fst (Sums (map (fun e => map (fun p => (w p, val2 e p)) (fst e)) evs))).
  Proof.
    unfold sums; cbn [fst]. rewrite !map_map. f_equal. apply map_ext_eq. intros e. rewrite !map_map. reflexivity.
  Qed.

  (* ---- shape of __compute_particle_weights ---- *)
  Section SPsrc.
  (* the tag-specific leaf functions: event-plane weight, particle weight, sub-event tests *)
  Variables (w_of : part -> K) (inA_of inB_of : part -> bool).
  Let pw (d : D) : K := w_of (C0, d).
  Hypothesis w_snd : forall p, w_of p = pw (snd p).

  Lemma weights_shape (F : list (list K) -> list part -> list (list K)) pd :
    (forall acc ev, F acc ev = acc ++ [fold_left (fun a p => a ++ [w_of p]) ev []]) ->
    fold_left F pd [] = map (map (fun p => pw (snd p))) pd.
  Proof.
    intros HF. rewrite (fold_left_ext _ (fun acc (ev : list part) => acc ++ [map (fun p => pw (snd p)) ev])).
    - rewrite fold_app_map. reflexivity.
    - intros acc ev. rewrite HF. apply (f_equal (fun z => acc ++ [z])).
      rewrite fold_app_map. cbn [app]. apply map_ext_eq. intros p. apply w_snd.
  Qed.
  End SPsrc.


  (* ======================= ScalarProductFlow ======================= *)
  Definition src_sp_pw (d : D) : K := G gen_sp_particle_weight (C0, d).
  Definition src_sp_pwt (d : D) : K := G gen_sp_weight (C0, d).
  Definition src_sp_inA (d : D) : bool := G gen_sp_in_A (C0, d).
  Definition src_sp_inB (d : D) : bool := G gen_sp_in_B (C0, d).

  Theorem source_sp_weights pd : G gen_sp_compute_particle_weights pd = map (map (fun p : part => src_sp_pw (snd p))) pd.
  Proof using Kth.
    unfold gen_sp_compute_particle_weights. cbv zeta.
    apply (weights_shape (fun p => src_sp_pw (snd p))); [intros p; reflexivity|].
    intros acc ev. reflexivity.
  Qed.

  Theorem source_sp_flow_vectors pd :
    G gen_sp_compute_flow_vectors pd (map (map (fun p : part => src_sp_pw (snd p))) pd) = map (qfull K k0 kadd kmul D src_sp_pw) pd.
  Proof using Kth.
    unfold gen_sp_compute_flow_vectors. cbv zeta. rewrite combine_map_r, fold_left_map.
    rewrite (fold_left_ext _ (fun acc ev => acc ++ [qfull K k0 kadd kmul D src_sp_pw ev])).
    2:{ intros acc ev. cbv beta iota. apply (f_equal (fun z => acc ++ [z])).
        rewrite combine_map_r, fold_left_map.
        etransitivity; [apply (fold_left_ext _ (fun a p => Cadd a (cscale K kmul (src_sp_pw (snd p)) (fst p)))); intros;
                        first [reflexivity | apply (cpx_ext K); kr]|].
        rewrite fold_cadd. apply cadd_0_l. }
    rewrite fold_app_map. reflexivity.
  Qed.

  Theorem source_sp_u_vectors pd : G gen_sp_compute_u_vectors pd = map (map fst) pd.
  Proof using Kth.
    unfold gen_sp_compute_u_vectors. cbv zeta.
    rewrite (fold_left_ext _ (fun acc ev => acc ++ [map fst ev])).
    2:{ intros acc ev. apply (f_equal (fun z => acc ++ [z])). rewrite fold_app_map. reflexivity. }
    rewrite fold_app_map. reflexivity.
  Qed.

  Definition src_sp_inbin (sel : string) (lo hi : K) (d : D) : bool := G gen_sp_in_bin sel lo hi (C0, d).
  Theorem source_sp_binning sel lo hi evs :
    G gen_sp_bin_events sel lo hi evs = map (binned K D (src_sp_inbin sel lo hi)) evs.
  Proof using Kth.
    unfold gen_sp_bin_events. cbv zeta.
    rewrite (fold_left_ext _ (fun acc ev => acc ++ [binned K D (src_sp_inbin sel lo hi) ev])).
    2:{ intros acc ev. apply (f_equal (fun z => acc ++ [z])).
        etransitivity; [apply (fold_left_ext _ (fun a x => if src_sp_inbin sel lo hi (snd x) then a ++ [x] else a)); intros; reflexivity|].
        rewrite fold_app_filter. reflexivity. }
    rewrite fold_app_map. reflexivity.
  Qed.

  Theorem source_sp_average (val : event -> part -> K) evs :
    G gen_sp_calculate_flow_event_average (map fst evs) (map (fun e => map (val e) (fst e)) evs)
    = avg_fin (Sums (map (fun e => map (fun p => (src_sp_pwt (snd p), val e p)) (fst e)) evs)).
  Proof using Kth.
    unfold gen_sp_calculate_flow_event_average. cbv zeta.
    rewrite combine_map_map, fold_left_map.
    rewrite (fold_left_ext _ (fun st (e : event) => fold_left avg_step (map (fun p => (src_sp_pwt (snd p), val e p)) (fst e)) st)).
    2:{ intros [[N S1] S2] e. cbv beta iota. rewrite retuple3, combine_map_l, !fold_left_map. apply fold_left_ext.
        intros [[? ?] ?] p. first [reflexivity | unfold avg_step, src_sp_pwt, gen_sp_weight; cbn [fst snd]; tri]. }
    rewrite avg_total. destruct (Sums _) as [[N S1] S2]. unfold avg_fin. destruct (kis0 N); cbv beta iota; [reflexivity|].
    rewrite !kpow2. reflexivity.
  Qed.

  Notation SPQfull := (qfull K k0 kadd kmul D src_sp_pw).
  Notation SPQvA := (qvec K k0 kadd kmul D src_sp_pw src_sp_inA).
  Notation SPQvB := (qvec K k0 kadd kmul D src_sp_pw src_sp_inB).
  Notation SPQnsq := (qnsq K k0 kadd kmul ksub kopp D src_sp_pw src_sp_inA src_sp_inB).
  Notation Mean := (mean K k0 k1 kadd kmul kinv).
  Notation SPobs := (sp_obs K kadd kmul ksub kopp kabs D src_sp_pw).

  Theorem source_sp_sub_events pd :
    G gen_sp_compute_event_angles_sub_events pd (map (map (fun p : part => src_sp_pw (snd p))) pd) = (map SPQvA pd, map SPQvB pd).
  Proof using Kth.
    unfold gen_sp_compute_event_angles_sub_events. cbv zeta. rewrite combine_map_r, !fold_left_map.
    rewrite (fold_left_ext _ (fun acc ev => acc ++ [SPQvA ev])).
    2:{ intros acc ev. cbv beta iota. apply (f_equal (fun z => acc ++ [z])).
        rewrite combine_map_r, fold_left_map.
        etransitivity; [apply (fold_left_ext _ (fun a p => if src_sp_inA (snd p) then Cadd a (cscale K kmul (src_sp_pw (snd p)) (fst p)) else a));
                        intros; first [reflexivity | cbv beta iota; destruct (src_sp_inA _); [apply (cpx_ext K); kr | reflexivity]]|].
        rewrite fold_cadd_if. apply cadd_0_l. }
    rewrite fold_app_map.
    rewrite (fold_left_ext _ (fun acc ev => acc ++ [SPQvB ev])).
    2:{ intros acc ev. cbv beta iota. apply (f_equal (fun z => acc ++ [z])).
        rewrite combine_map_r, fold_left_map.
        etransitivity; [apply (fold_left_ext _ (fun a p => if src_sp_inB (snd p) then Cadd a (cscale K kmul (src_sp_pw (snd p)) (fst p)) else a));
                        intros; first [reflexivity | cbv beta iota; destruct (src_sp_inB _); [apply (cpx_ext K); kr | reflexivity]]|].
        rewrite fold_cadd_if. apply cadd_0_l. }
    rewrite fold_app_map. reflexivity.
  Qed.

  (* the resolution as the source computes it from the sub-event vectors: 2 sqrt(mean Re(conj Q_A Q_B)) *)
  Definition sp_res_value (evs : list event) : K := kmul (kadd k1 k1) (ksqrt (Mean (map SPQnsq evs))).
  Lemma source_sp_resolution_value evs :
    G gen_sp_compute_event_plane_resolution (map (fun e : event => SPQvA (snd e)) evs) (map (fun e : event => SPQvB (snd e)) evs)
    = sp_res_value evs.
  Proof using Kth.
    unfold gen_sp_compute_event_plane_resolution, sp_res_value, mean. cbv zeta.
    rewrite combine_map_map, map_map, !map_length, kz2. reflexivity.
  Qed.
  Theorem source_sp_resolution evs r :
    sp_resf K k0 k1 kadd kmul ksqrt kis0 kltb (Mean (map SPQnsq evs)) = Some r ->
    G gen_sp_compute_event_plane_resolution (map (fun e : event => SPQvA (snd e)) evs) (map (fun e : event => SPQvB (snd e)) evs) = r.
  Proof using Kth.
    unfold sp_resf. destruct (_ || _); intros H; [discriminate | injection H as <-]. apply source_sp_resolution_value.
  Qed.

  Definition sp_flow_values (sc : bool) (r : K) (evs : list event) : list (list K) :=
    map (fun e : event => map (fun p => kmul (SPobs sc (SPQfull (snd e)) p) (kinv r)) (fst e)) evs.
  Theorem source_sp_flow_particles sc r (evs : list event) :
    G gen_sp_compute_flow_particles (map fst evs) (map (map (fun p : part => src_sp_pw (snd p))) (map fst evs))
      (map (fun e : event => SPQfull (snd e)) evs) (map (map fst) (map fst evs)) r sc
    = sp_flow_values sc r evs.
  Proof using Kth.
    unfold gen_sp_compute_flow_particles, sp_flow_values. cbv zeta. rewrite !map_map, !combine_map_map, fold_left_map.
    rewrite (fold_left_ext _ (fun acc (e : event) => acc ++ [map (fun p => kmul (SPobs sc (SPQfull (snd e)) p) (kinv r)) (fst e)])).
    2:{ intros acc e. cbv beta iota. apply (f_equal (fun z => acc ++ [z])).
        rewrite combine_map_r, combine_map_map, fold_left_map.
        etransitivity; [apply (fold_left_ext _ (fun a p => a ++ [kmul (SPobs sc (SPQfull (snd e)) p) (kinv r)])); intros a p;
                        first [reflexivity | apply (f_equal (fun z => a ++ [z])); unfold sp_obs; destruct sc; kr]|].
        rewrite fold_app_map. reflexivity. }
    rewrite fold_app_map. reflexivity.
  Qed.

  Lemma source_sp_reference (evs : list event) :
    G gen_sp_calculate_reference (map snd evs) = (sp_res_value evs, map (fun e : event => SPQfull (snd e)) evs).
  Proof using Kth.
    unfold gen_sp_calculate_reference. cbv zeta.
    rewrite source_sp_weights, source_sp_sub_events, source_sp_flow_vectors, !map_map. cbv beta iota.
    rewrite source_sp_resolution_value. reflexivity.
  Qed.
  Lemma source_sp_particle_flow sc r (evs : list event) :
    G gen_sp_calculate_particle_flow (map fst evs) r (map (fun e : event => SPQfull (snd e)) evs) sc = sp_flow_values sc r evs.
  Proof using Kth.
    unfold gen_sp_calculate_particle_flow. cbv zeta. rewrite source_sp_weights, source_sp_u_vectors. apply source_sp_flow_particles.
  Qed.

  (* integrated_flow: every finite value / error the hand model returns is the one the regenerated method bodies compute *)
  Theorem source_sp_integrated sc (evs : list event) v oe :
    sp_integrated K k0 k1 kadd kmul ksub kopp kinv ksqrt kabs kis0 kltb D src_sp_pw src_sp_pwt src_sp_inA src_sp_inB sc evs = (Some v, oe) ->
    fst (G gen_sp_integrated_flow (map fst evs) (map snd evs) sc) = v /\
    (forall e, oe = Some e -> snd (G gen_sp_integrated_flow (map fst evs) (map snd evs) sc) = e).
  Proof using Kth.
    unfold gen_sp_integrated_flow. rewrite source_sp_reference. cbv beta iota. rewrite source_sp_particle_flow. unfold sp_flow_values.
    rewrite (source_sp_average (fun e p => kmul (SPobs sc (SPQfull (snd e)) p) (kinv (sp_res_value evs)))).
    unfold sp_integrated, skel.
    assert (EV : forall r, values K kmul kinv D src_sp_pwt (fun (e : event) (p : part) => SPobs sc (SPQfull (snd e)) p) r evs
                 = map (fun e : event => map (fun p => (src_sp_pwt (snd p), kmul (SPobs sc (SPQfull (snd e)) p) (kinv r))) (fst e)) evs).
    { intros r. unfold values, wv. apply map_ext_eq. intros e. rewrite map_map. reflexivity. }
    destruct (sp_resf K k0 k1 kadd kmul ksqrt kis0 kltb _) as [r|] eqn:R.
    - assert (Er : r = sp_res_value evs).
      { unfold sp_resf in R. destruct (_ || _); [discriminate | injection R as <-]. reflexivity. }
      subst r. intros H. rewrite EV in H. apply avg_fin_refines. exact H.
    - intros H. rewrite EV in H.
      rewrite (sums_N_indep (fun p => src_sp_pwt (snd p)) _
                 (fun (e : event) p => kmul (SPobs sc (SPQfull (snd e)) p) (kinv (sp_res_value evs)))) in H.
      destruct (Sums _) as [[N S1] S2]. cbn [fst] in H. unfold avg_fin.
      destruct (kis0 N); [injection H as <- <- | discriminate]. cbn [fst snd].
      split; [reflexivity | intros e He; injection He as <-; reflexivity].
  Qed.

  (* differential_flow, one bin: the reference comes from the whole reference sample, the flow particles are those in the bin *)
  Theorem source_sp_differential sel lo hi sc (evs : list event) v oe :
    sp_differential_bin K k0 k1 kadd kmul ksub kopp kinv ksqrt kabs kis0 kltb D src_sp_pw src_sp_pwt src_sp_inA src_sp_inB (src_sp_inbin sel lo hi) sc evs = (Some v, oe) ->
    fst (G gen_sp_differential_bin (G gen_sp_bin_events sel lo hi (map fst evs)) (map snd evs) sc) = v /\
    (forall e, oe = Some e -> snd (G gen_sp_differential_bin (G gen_sp_bin_events sel lo hi (map fst evs)) (map snd evs) sc) = e).
  Proof using Kth.
    unfold sp_differential_bin. intros H. apply source_sp_integrated in H. rewrite !map_map in H. cbn [to_bin fst snd] in H.
    rewrite source_sp_binning, map_map. exact H.
  Qed.

  (* ======================= EventPlaneFlow ======================= *)
  Definition src_ep_pw (d : D) : K := G gen_ep_particle_weight (C0, d).
  Definition src_ep_pwt (d : D) : K := G gen_ep_weight (C0, d).
  Definition src_ep_inA (d : D) : bool := G gen_ep_in_A (C0, d).
  Definition src_ep_inB (d : D) : bool := G gen_ep_in_B (C0, d).

  Theorem source_ep_weights pd : G gen_ep_compute_particle_weights pd = map (map (fun p : part => src_ep_pw (snd p))) pd.
  Proof using Kth.
    unfold gen_ep_compute_particle_weights. cbv zeta.
    apply (weights_shape (fun p => src_ep_pw (snd p))); [intros p; reflexivity|].
    intros acc ev. reflexivity.
  Qed.

  Theorem source_ep_flow_vectors pd :
    G gen_ep_compute_flow_vectors pd (map (map (fun p : part => src_ep_pw (snd p))) pd) = map (qfull K k0 kadd kmul D src_ep_pw) pd.
  Proof using Kth.
    unfold gen_ep_compute_flow_vectors. cbv zeta. rewrite combine_map_r, fold_left_map.
    rewrite (fold_left_ext _ (fun acc ev => acc ++ [qfull K k0 kadd kmul D src_ep_pw ev])).
    2:{ intros acc ev. cbv beta iota. apply (f_equal (fun z => acc ++ [z])).
        rewrite combine_map_r, fold_left_map.
        etransitivity; [apply (fold_left_ext _ (fun a p => Cadd a (cscale K kmul (src_ep_pw (snd p)) (fst p)))); intros;
                        first [reflexivity | apply (cpx_ext K); kr]|].
        rewrite fold_cadd. apply cadd_0_l. }
    rewrite fold_app_map. reflexivity.
  Qed.

  Theorem source_ep_u_vectors pd : G gen_ep_compute_u_vectors pd = map (map fst) pd.
  Proof using Kth.
    unfold gen_ep_compute_u_vectors. cbv zeta.
    rewrite (fold_left_ext _ (fun acc ev => acc ++ [map fst ev])).
    2:{ intros acc ev. apply (f_equal (fun z => acc ++ [z])). rewrite fold_app_map. reflexivity. }
    rewrite fold_app_map. reflexivity.
  Qed.

  Definition src_ep_inbin (sel : string) (lo hi : K) (d : D) : bool := G gen_ep_in_bin sel lo hi (C0, d).
  Theorem source_ep_binning sel lo hi evs :
    G gen_ep_bin_events sel lo hi evs = map (binned K D (src_ep_inbin sel lo hi)) evs.
  Proof using Kth.
    unfold gen_ep_bin_events. cbv zeta.
    rewrite (fold_left_ext _ (fun acc ev => acc ++ [binned K D (src_ep_inbin sel lo hi) ev])).
    2:{ intros acc ev. apply (f_equal (fun z => acc ++ [z])).
        etransitivity; [apply (fold_left_ext _ (fun a x => if src_ep_inbin sel lo hi (snd x) then a ++ [x] else a)); intros; reflexivity|].
        rewrite fold_app_filter. reflexivity. }
    rewrite fold_app_map. reflexivity.
  Qed.

  Theorem source_ep_average (val : event -> part -> K) evs :
    G gen_ep_calculate_flow_event_average (map fst evs) (map (fun e => map (val e) (fst e)) evs)
    = avg_fin (Sums (map (fun e => map (fun p => (src_ep_pwt (snd p), val e p)) (fst e)) evs)).
  Proof using Kth.
    unfold gen_ep_calculate_flow_event_average. cbv zeta.
    rewrite combine_map_map, fold_left_map.
    rewrite (fold_left_ext _ (fun st (e : event) => fold_left avg_step (map (fun p => (src_ep_pwt (snd p), val e p)) (fst e)) st)).
    2:{ intros [[N S1] S2] e. cbv beta iota. rewrite retuple3, combine_map_l, !fold_left_map. apply fold_left_ext.
        intros [[? ?] ?] p. first [reflexivity | unfold avg_step, src_ep_pwt, gen_ep_weight; cbn [fst snd]; tri]. }
    rewrite avg_total. destruct (Sums _) as [[N S1] S2]. unfold avg_fin. destruct (kis0 N); cbv beta iota; [reflexivity|].
    rewrite !kpow2. reflexivity.
  Qed.

  Notation EPQfull := (qfull K k0 kadd kmul D src_ep_pw).
  Notation EPQvA := (qvec K k0 kadd kmul D src_ep_pw src_ep_inA).
  Notation EPQvB := (qvec K k0 kadd kmul D src_ep_pw src_ep_inB).
  Notation EPQnA := (qnorm K k0 kadd kmul kinv ksqrt kis0 D src_ep_pw src_ep_inA).
  Notation EPQnB := (qnorm K k0 kadd kmul kinv ksqrt kis0 D src_ep_pw src_ep_inB).
  Notation EPrn2 := (rn2 K k0 kadd kmul kinv ksqrt kis0 D src_ep_pw src_ep_inA src_ep_inB cosAB).
  Notation EPobs := (ep_obs K kmul ksub kabs D src_ep_pw obs).
  Notation EPW := (fun p : part => src_ep_pw (snd p)).

  Theorem source_ep_sum_weights W :
    G gen_ep_sum_weights W = map (fun ws => ksum k0 kadd (map (fun x => kmul x x) ws)) W.
  Proof using Kth.
    unfold gen_ep_sum_weights. cbv zeta.
    etransitivity; [apply (fold_left_ext _ (fun acc ws => acc ++ [ksum k0 kadd (map (fun x => kmul x x) ws)])); intros; reflexivity|].
    rewrite fold_app_map. reflexivity.
  Qed.

  Theorem source_ep_sub_events pd :
    G gen_ep_compute_event_angles_sub_events pd (map (map EPW) pd) = (map EPQnA pd, map EPQnB pd).
  Proof using Kth.
    unfold gen_ep_compute_event_angles_sub_events. cbv zeta. rewrite combine_map_r, !fold_left_map.
    rewrite (fold_left_ext _ (fun st ev => (fst st ++ [EPQvA ev], snd st ++ [map EPW (filter (fun p => src_ep_inA (snd p)) ev)]))).
    2:{ intros [a b] ev. cbv beta iota. rewrite combine_map_r, fold_left_map.
        rewrite (fold_left_ext _ (fun st p => if src_ep_inA (snd p)
                                              then (Cadd (fst st) (cscale K kmul (src_ep_pw (snd p)) (fst p)), snd st ++ [src_ep_pw (snd p)])
                                              else st)).
        2:{ intros [q r] p. cbv beta iota. rewrite retuple2. reflexivity. }
        rewrite fold_cadd_app_if. cbv beta iota. rewrite cadd_0_l. reflexivity. }
    rewrite fold_pair_app. cbv beta iota.
    rewrite (fold_left_ext _ (fun st ev => (fst st ++ [EPQvB ev], snd st ++ [map EPW (filter (fun p => src_ep_inB (snd p)) ev)]))).
    2:{ intros [a b] ev. cbv beta iota. rewrite combine_map_r, fold_left_map.
        rewrite (fold_left_ext _ (fun st p => if src_ep_inB (snd p)
                                              then (Cadd (fst st) (cscale K kmul (src_ep_pw (snd p)) (fst p)), snd st ++ [src_ep_pw (snd p)])
                                              else st)).
        2:{ intros [q r] p. cbv beta iota. rewrite retuple2. reflexivity. }
        rewrite fold_cadd_app_if. cbv beta iota. rewrite cadd_0_l. reflexivity. }
    rewrite fold_pair_app. cbv beta iota. cbn [app].
    rewrite !source_ep_sum_weights, !map_map, combine_map_r, !combine_map_map, fold_left_map.
    rewrite (fold_left_ext _ (fun st ev => (fst st ++ [EPQnA ev], snd st ++ [EPQnB ev]))).
    2:{ intros [a b] ev. cbv beta iota. unfold qnorm, sumw2. rewrite !map_map. reflexivity. }
    rewrite fold_pair_app. cbv beta iota. cbn [app]. rewrite !combine_map_r, !map_map. reflexivity.
  Qed.

  (* the argument of the resolution inversion, and the value the method returns (inversion = oracle res_fun) *)
  Definition ep_res_value (evs : list event) : K := res_fun (ksqrt (Mean (map EPrn2 evs))).
  Lemma source_ep_Rn_value evs :
    G gen_ep_Rn (map (fun e : event => EPQnA (snd e)) evs) (map (fun e : event => EPQnB (snd e)) evs) = ksqrt (Mean (map EPrn2 evs)).
  Proof using Kth.
    unfold gen_ep_Rn, mean. cbv zeta. rewrite combine_map_map, map_map, !map_length. reflexivity.
  Qed.
  Theorem source_ep_resolution evs r :
    ep_resf K k0 ksqrt kis0 kltb res_fun (Mean (map EPrn2 evs)) = Some r ->
    G gen_ep_resolution (map (fun e : event => EPQnA (snd e)) evs) (map (fun e : event => EPQnB (snd e)) evs) = r.
  Proof using Kth.
    unfold ep_resf, gen_ep_resolution. rewrite source_ep_Rn_value. destruct (kltb _ _); [discriminate|]. cbv zeta.
    destruct (kis0 _); intros H; [discriminate | injection H as <-]. reflexivity.
  Qed.

  Definition ep_flow_values (sc : bool) (r : K) (evs : list event) : list (list K) :=
    map (fun e : event => map (fun p => kmul (EPobs sc (EPQfull (snd e)) p) (kinv r)) (fst e)) evs.
  Theorem source_ep_flow_particles sc r (evs : list event) :
    G gen_ep_compute_flow_particles (map fst evs) (map (map EPW) (map fst evs))
      (map (fun e : event => EPQfull (snd e)) evs) (map (map fst) (map fst evs)) r sc
    = ep_flow_values sc r evs.
  Proof using Kth.
    unfold gen_ep_compute_flow_particles, ep_flow_values. cbv zeta. rewrite !map_map, !combine_map_map, fold_left_map.
    rewrite (fold_left_ext _ (fun acc (e : event) => acc ++ [map (fun p => kmul (EPobs sc (EPQfull (snd e)) p) (kinv r)) (fst e)])).
    2:{ intros acc e. cbv beta iota. apply (f_equal (fun z => acc ++ [z])).
        rewrite combine_map_r, combine_map_map, fold_left_map.
        etransitivity; [apply (fold_left_ext _ (fun a p => a ++ [kmul (EPobs sc (EPQfull (snd e)) p) (kinv r)])); intros a p; reflexivity|].
        rewrite fold_app_map. reflexivity. }
    rewrite fold_app_map. reflexivity.
  Qed.

  Lemma source_ep_reference (evs : list event) :
    G gen_ep_calculate_reference (map snd evs) = (ep_res_value evs, map (fun e : event => EPQfull (snd e)) evs).
  Proof using Kth.
    unfold gen_ep_calculate_reference. cbv zeta.
    rewrite source_ep_weights, source_ep_sub_events, source_ep_flow_vectors, !map_map. cbv beta iota.
    unfold gen_ep_resolution. rewrite source_ep_Rn_value. reflexivity.
  Qed.
  Lemma source_ep_particle_flow sc r (evs : list event) :
    G gen_ep_calculate_particle_flow (map fst evs) r (map (fun e : event => EPQfull (snd e)) evs) sc = ep_flow_values sc r evs.
  Proof using Kth.
    unfold gen_ep_calculate_particle_flow. cbv zeta. rewrite source_ep_weights, source_ep_u_vectors. apply source_ep_flow_particles.
  Qed.

  Theorem source_ep_integrated sc (evs : list event) v oe :
    ep_integrated K k0 k1 kadd kmul ksub kinv ksqrt kabs kis0 kltb D src_ep_pw src_ep_pwt src_ep_inA src_ep_inB cosAB obs res_fun sc evs
      = (Some v, oe) ->
    fst (G gen_ep_integrated_flow (map fst evs) (map snd evs) sc) = v /\
    (forall e, oe = Some e -> snd (G gen_ep_integrated_flow (map fst evs) (map snd evs) sc) = e).
  Proof using Kth.
    unfold gen_ep_integrated_flow. rewrite source_ep_reference. cbv beta iota zeta. rewrite source_ep_particle_flow. unfold ep_flow_values.
    rewrite (source_ep_average (fun e p => kmul (EPobs sc (EPQfull (snd e)) p) (kinv (ep_res_value evs)))).
    unfold ep_integrated, skel.
    assert (EV : forall r, values K kmul kinv D src_ep_pwt (fun (e : event) (p : part) => EPobs sc (EPQfull (snd e)) p) r evs
                 = map (fun e : event => map (fun p => (src_ep_pwt (snd p), kmul (EPobs sc (EPQfull (snd e)) p) (kinv r))) (fst e)) evs).
    { intros r. unfold values, wv. apply map_ext_eq. intros e. rewrite map_map. reflexivity. }
    destruct (ep_resf K k0 ksqrt kis0 kltb res_fun _) as [r|] eqn:R.
    - assert (Er : r = ep_res_value evs).
      { unfold ep_resf in R. destruct (kltb _ _); [discriminate|]. cbv zeta in R. destruct (kis0 _); [discriminate | injection R as <-].
        reflexivity. }
      subst r. intros H. rewrite EV in H. apply avg_fin_refines. exact H.
    - intros H. rewrite EV in H.
      rewrite (sums_N_indep (fun p => src_ep_pwt (snd p)) _
                 (fun (e : event) p => kmul (EPobs sc (EPQfull (snd e)) p) (kinv (ep_res_value evs)))) in H.
      destruct (Sums _) as [[N S1] S2]. cbn [fst] in H. unfold avg_fin.
      destruct (kis0 N); [injection H as <- <- | discriminate]. cbn [fst snd].
      split; [reflexivity | intros e He; injection He as <-; reflexivity].
  Qed.

  (* differential_flow, one bin: the reference comes from the whole reference sample, the flow particles are those in the bin *)
  Theorem source_ep_differential sel lo hi sc (evs : list event) v oe :
    ep_differential_bin K k0 k1 kadd kmul ksub kinv ksqrt kabs kis0 kltb D src_ep_pw src_ep_pwt src_ep_inA src_ep_inB (src_ep_inbin sel lo hi) cosAB obs res_fun sc evs = (Some v, oe) ->
    fst (G gen_ep_differential_bin (G gen_ep_bin_events sel lo hi (map fst evs)) (map snd evs) sc) = v /\
    (forall e, oe = Some e -> snd (G gen_ep_differential_bin (G gen_ep_bin_events sel lo hi (map fst evs)) (map snd evs) sc) = e).
  Proof using Kth.
    unfold ep_differential_bin. intros H. apply source_ep_integrated in H. rewrite !map_map in H. cbn [to_bin fst snd] in H.
    rewrite source_ep_binning, map_map. exact H.
  Qed.
End Src.

(* ---- the leaf functions of the executable instance Model/FlowQ.v (what the correspondence evaluates) ---- *)
Section QLeaves.
  Variables (cosAB obs : cpx Q -> cpx Q -> Q) (res_fun : Q -> Q).
  Notation GQ f weight n gap :=
    (f Q 0%Q 1%Q rplus rmult rminus Qopp qinv qsqrt qabs qis0 Qle_bool qltb fdata dpt dy deta dw cosAB obs res_fun n weight gap).

  Lemma kpow2_q x : Qred (x * x) = kpow 1%Q rmult x 2.
  Proof. cbn [kpow]. unfold rmult. apply Qred_complete. rewrite Qred_correct. ring. Qed.
  Lemma qpower_succ x m : Qpower x (Z.of_nat (S m)) == x * Qpower x (Z.of_nat m).
  Proof.
    destruct m as [|m]; [cbn; ring|].
    rewrite (Nat2Z.inj_succ (S m)). cbn [Z.of_nat Z.succ Z.add Qpower]. rewrite Qpower_plus_positive. cbn [Qpower_positive pow_pos Pos.iter_op].
    ring.
  Qed.
  Lemma kpown_q x m : Qred (Qpower x (Z.of_nat m)) = kpow 1%Q rmult x m.
  Proof.
    induction m as [|m IH]; [reflexivity|]. change (kpow 1%Q rmult x (S m)) with (rmult x (kpow 1%Q rmult x m)).
    rewrite <- IH. unfold rmult. apply Qred_complete.
    rewrite Qred_correct. apply qpower_succ.
  Qed.

  Theorem source_q_rp_weight weight n gap u d : fpwt d = GQ gen_rp_weight weight n gap (u, d).
  Proof. reflexivity. Qed.
  Theorem source_q_sp_weight weight n gap u d : fpwt d = GQ gen_sp_weight weight n gap (u, d).
  Proof. reflexivity. Qed.
  Theorem source_q_ep_weight weight n gap u d : fpwt d = GQ gen_ep_weight weight n gap (u, d).
  Proof. reflexivity. Qed.

  Theorem source_q_sp_particle_weight weight n gap u d : fpw weight n d = GQ gen_sp_particle_weight weight n gap (u, d).
  Proof.
    unfold fpw, gen_sp_particle_weight. cbv zeta. cbn [snd].
    destruct (String.eqb weight "pT"); [reflexivity|]. destruct (String.eqb weight "pT2"); [apply kpow2_q|].
    destruct (String.eqb weight "pTn"); [apply kpown_q|]. reflexivity.
  Qed.
  Theorem source_q_ep_particle_weight weight n gap u d : fpw weight n d = GQ gen_ep_particle_weight weight n gap (u, d).
  Proof.
    unfold fpw, gen_ep_particle_weight. cbv zeta. cbn [snd].
    destruct (String.eqb weight "pT"); [reflexivity|]. destruct (String.eqb weight "pT2"); [apply kpow2_q|].
    destruct (String.eqb weight "pTn"); [apply kpown_q|]. reflexivity.
  Qed.

  Theorem source_q_sp_subevents weight n gap u d :
    finA gap d = GQ gen_sp_in_A weight n gap (u, d) /\ finB gap d = GQ gen_sp_in_B weight n gap (u, d).
  Proof. split; reflexivity. Qed.
  Theorem source_q_ep_subevents weight n gap u d :
    finA gap d = GQ gen_ep_in_A weight n gap (u, d) /\ finB gap d = GQ gen_ep_in_B weight n gap (u, d).
  Proof. split; reflexivity. Qed.

  Theorem source_q_inbin weight n gap sel lo hi u d :
    finbin sel lo hi d = GQ gen_rp_in_bin weight n gap sel lo hi (u, d) /\
    finbin sel lo hi d = GQ gen_sp_in_bin weight n gap sel lo hi (u, d) /\
    finbin sel lo hi d = GQ gen_ep_in_bin weight n gap sel lo hi (u, d).
  Proof. repeat split; reflexivity. Qed.
End QLeaves.

(* constructor defaults, constructor guards and the default of self_corr, as the harness and the theorems assume them *)
Theorem source_defaults :
  gen_rp_default_n = 2%Z /\ gen_sp_default_n = 2%Z /\ gen_ep_default_n = 2%Z /\
  gen_sp_default_gap == 0 /\ gen_ep_default_gap == 0 /\
  gen_sp_default_self_corr_integrated = true /\ gen_sp_default_self_corr_differential = true /\
  gen_ep_default_self_corr_integrated = true /\ gen_ep_default_self_corr_differential = true /\
  gen_rp_ctor_rejects = [("n", "LtE", 0%Z)]%string /\
  gen_sp_ctor_rejects = [("n", "LtE", 0%Z); ("pseudorapidity_gap", "Lt", 0%Z)]%string /\
  gen_ep_ctor_rejects = [("n", "LtE", 0%Z); ("pseudorapidity_gap", "Lt", 0%Z)]%string.
Proof. repeat split; reflexivity. Qed.

(* non-vacuity: a concrete sample over Z (oracles: 1/x := x, sqrt := x) on which the hand model returns a finite value and a
   finite error, so that the hypotheses of C12_source_sp_integrated / _differential are met *)
Definition ex_evs : list (event Z Z) :=
  [([((1, 0), 1)], [((1, 0), 1); ((-1, 0), -1); ((1, 0), 2)])]%Z.
Theorem source_example :
  exists v e,
    sp_integrated Z 0%Z 1%Z Z.add Z.mul Z.sub Z.opp (fun x => x) (fun x => x) Z.abs (Z.eqb 0) Z.ltb Z
      (src_sp_pw Z 0%Z 1%Z Z.add Z.mul Z.sub Z.opp (fun x => x) (fun x => x) Z.abs (Z.eqb 0) Z.leb Z.ltb Z (fun d => d) (fun d => d) (fun d => d)
         (fun _ => None) (fun _ _ => 0%Z) (fun _ _ => 0%Z) (fun x => x) 2 "pT" 0%Z)
      (src_sp_pwt Z 0%Z 1%Z Z.add Z.mul Z.sub Z.opp (fun x => x) (fun x => x) Z.abs (Z.eqb 0) Z.leb Z.ltb Z (fun d => d) (fun d => d) (fun d => d)
         (fun _ => None) (fun _ _ => 0%Z) (fun _ _ => 0%Z) (fun x => x) 2 "pT" 0%Z)
      (src_sp_inA Z 0%Z 1%Z Z.add Z.mul Z.sub Z.opp (fun x => x) (fun x => x) Z.abs (Z.eqb 0) Z.leb Z.ltb Z (fun d => d) (fun d => d) (fun d => d)
         (fun _ => None) (fun _ _ => 0%Z) (fun _ _ => 0%Z) (fun x => x) 2 "pT" 0%Z)
      (src_sp_inB Z 0%Z 1%Z Z.add Z.mul Z.sub Z.opp (fun x => x) (fun x => x) Z.abs (Z.eqb 0) Z.leb Z.ltb Z (fun d => d) (fun d => d) (fun d => d)
         (fun _ => None) (fun _ _ => 0%Z) (fun _ _ => 0%Z) (fun x => x) 2 "pT" 0%Z)
      true ex_evs = (Some v, Some e)
    /\ gen_sp_integrated_flow Z 0%Z 1%Z Z.add Z.mul Z.sub Z.opp (fun x => x) (fun x => x) Z.abs (Z.eqb 0) Z.leb Z.ltb Z (fun d => d) (fun d => d)
         (fun d => d) (fun _ => None) (fun _ _ => 0%Z) (fun _ _ => 0%Z) (fun x => x) 2 "pT" 0%Z (map fst ex_evs) (map snd ex_evs) true = (v, e).
Proof. eexists. eexists. split; vm_compute; reflexivity. Qed.

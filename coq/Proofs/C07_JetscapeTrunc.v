(* C07 (JETSCAPE): EVERY truncation point.  A rendered well-formed file cut after n complete lines and, possibly,
   inside line n either fails to load or loads ALL events of the file with matching counts, and then the cut lies
   inside the trailer line at or after its word "sigmaGen" (or nothing was cut). *)
From Coq Require Import List String Ascii ZArith QArith Bool Arith Lia.
From SX Require Import Lib.Strs Lib.StrLemmas Lib.DecStr Gen.GenParticleMap Model.Oscar Model.OscarDoc Model.Jetscape
  Model.JetscapeDoc Model.C07Aux Proofs.C01_Oscar Proofs.C01_Jetscape Proofs.C07_Jetscape Proofs.C07_OscarTrunc.
Import ListNotations.
Local Open Scope string_scope.

Lemma last_firstn_in {A} (dflt : A) : forall n L, (0 < n)%nat -> L <> [] -> In (last (firstn n L) dflt) L.
Proof.
  induction n as [|n IH]; intros L Hn HL; [lia|].
  destruct L as [|x L]; [congruence|]. cbn [firstn].
  destruct n as [|n'].
  - cbn. left. reflexivity.
  - destruct L as [|y L]; [cbn; left; reflexivity|].
    right. change (last (x :: firstn (S n') (y :: L)) dflt) with (last (firstn (S n') (y :: L)) dflt).
    apply IH; [lia|discriminate].
Qed.

Section P.
  Variable tok_float : string -> option Q.
  Variable tok_int : string -> option Q.
  Variable pdg_valid : Q -> bool.
  Variable pdg_charge : Q -> Q.
  Variable usqrt : Q -> Q.
  Variable defstr : string.

  Notation JWF := (jwf tok_float tok_int pdg_valid pdg_charge usqrt defstr).
  Notation JLOAD := (jload tok_float tok_int pdg_valid pdg_charge usqrt None).
  Notation JEXP := (jexpected tok_float tok_int pdg_valid pdg_charge usqrt).

  (* the loader's last step: two numbers must be found in the last line *)
  Lemma jload_sigma_err file sel :
    (forall a b, first_floats tok_float 2 (filter (fun s => negb (s =? "")) (last file [])) <> [a; b]) ->
    exists e, JLOAD file defstr sel = Err e.
  Proof.
    intros H. unfold jload. cbv zeta.
    destruct (has "sigmaGen" _); cbn [negb]; [|eexists; reflexivity].
    destruct (jscan tok_int defstr file) as [cnts|]; cbn [bind]; [|eexists; reflexivity].
    destruct (jnum_skip sel cnts) as [ns|]; cbn [bind]; [|eexists; reflexivity].
    destruct (jnum_read sel cnts) as [nr|]; cbn [bind]; [|eexists; reflexivity].
    destruct (jread _ _ _ _ _ _ _ _ _ _ _) as [st|]; cbn [bind]; [|eexists; reflexivity].
    match goal with |- exists e, bind ?X _ = _ => destruct X as [fin|] end; cbn [bind]; [|eexists; reflexivity].
    destruct (first_floats tok_float 2 _) as [|a [|b [|c l]]] eqn:E; try (eexists; reflexivity).
    exfalso. exact (H a b eq_refl).
  Qed.

  Lemma jlines_no_sigma (d : jdoc) :
    jshape d -> forall l, In l (jd_h0 d :: jrender_events (jd_events d)) -> has "sigmaGen" l = false.
  Proof.
    intros (_ & H0 & Hev) l [<-|Hin]; [exact H0|].
    unfold jrender_events in Hin. apply in_flat_map in Hin. destruct Hin as (e & He & Hl).
    rewrite Forall_forall in Hev. destruct (Hev e He) as (Hh & Hr).
    destruct Hl as [<-|Hl]; [exact Hh|]. rewrite Forall_forall in Hr. exact (Hr l Hl).
  Qed.

  Theorem jet_trunc d s1 s2 n c :
    JWF d s1 s2 -> jshape d -> (n <= List.length (jrender d))%nat ->
    valid_partial (nth n (jrender d) []) c ->
    jet_trunc_ok tok_float tok_int pdg_valid pdg_charge usqrt defstr d s1 s2 n c.
  Proof.
    intros Hwf Hshape Hn Hvalid.
    pose proof (jlines_no_sigma d Hshape) as Hns.
    pose proof Hwf as (Hh0 & Hne & Hev & Htr & Htc & Hsig).
    destruct Hshape as ((trest & Htrs) & _).
    unfold jet_trunc_ok.
    set (L := jd_h0 d :: jrender_events (jd_events d)) in *.
    assert (HF : jrender d = (L ++ [jd_trailer d])%list) by reflexivity.
    assert (HlenF : List.length (jrender d) = S (List.length L)) by (rewrite HF, app_length; cbn; lia).
    destruct c as [[j p]|]; cbn [cut_lines].
    - destruct Hvalid as (Hj & Hp & Hp0).
      assert (Hlt : (n < List.length (jrender d))%nat).
      { destruct (lt_dec n (List.length (jrender d))); [assumption|]. rewrite nth_overflow in Hj by lia. cbn in Hj. lia. }
      destruct (lt_dec n (List.length L)) as [Hin|Hlast].
      + (* the cut line is not the trailer *)
        rewrite (jet_last_line_without_sigmaGen); [exact I|]. rewrite last_last.
        apply has_cut_line; [discriminate| |exact Hp].
        apply Hns. rewrite HF, app_nth1 by exact Hin. apply nth_In, Hin.
      + assert (n = List.length L) by lia. subst n.
        rewrite HF in *. rewrite app_nth2 in * by lia. rewrite Nat.sub_diag in *. cbn [nth] in *.
        rewrite firstn_app, firstn_all, Nat.sub_diag. cbn [firstn]. rewrite app_nil_r.
        set (tr' := cut_line (jd_trailer d) j p).
        destruct (has "sigmaGen" tr') eqn:Esg.
        2:{ rewrite (jet_last_line_without_sigmaGen); [exact I|]. rewrite last_last. exact Esg. }
        (* the cut trailer is still recognised as a trailer and still is no event header *)
        assert (Hj1 : (1 <= j)%nat).
        { destruct j; [|lia]. exfalso. unfold tr', cut_line in Esg. rewrite Htrs in *. cbn [firstn app nth] in *.
          apply prefix_in_prefixes in Hp. cbn [prefixes map] in Hp. destruct Hp as [<-|[<-|[]]]; discriminate. }
        assert (Hhash : has "#" tr' = true).
        { unfold tr', cut_line. rewrite Htrs. destruct j; [lia|]. reflexivity. }
        unfold is_trailer in Htr. apply andb_true_iff in Htr. destruct Htr as [Htr1 Htr2].
        assert (Hdef : has defstr (jd_trailer d) = false).
        { unfold is_count_line in Htc. rewrite Htr1 in Htc. exact Htc. }
        assert (Hdne : defstr <> "").
        { intros ->. rewrite Htrs in Hdef. cbn in Hdef. discriminate. }
        assert (Hdef' : has defstr tr' = false) by (apply has_cut_line; assumption).
        destruct (first_floats tok_float 2 (filter (fun s => negb (s =? "")) tr')) as [|a [|b [|c0 l0]]] eqn:Eff.
        1,2,4: destruct (jload_sigma_err (L ++ [tr'])%list SelAll) as (e & ->); [|exact I];
               intros a' b'; rewrite last_last, Eff; discriminate.
        pose (d' := {| jd_h0 := jd_h0 d; jd_events := jd_events d; jd_trailer := tr' |}).
        assert (Hwf' : JWF d' a b).
        { unfold jwf, d'. cbn [jd_h0 jd_events jd_trailer]. repeat split; try assumption.
          - unfold is_trailer. rewrite Hhash, Esg. reflexivity.
          - unfold is_count_line. rewrite Hdef'. apply andb_false_r. }
        pose proof (jload_render tok_float tok_int pdg_valid pdg_charge usqrt defstr d' a b Hwf') as HL.
        unfold jrender, d' in HL. cbn [jd_h0 jd_events jd_trailer] in HL. fold L in HL.
        change (jd_h0 d :: jrender_events (jd_events d) ++ [tr'])%list with (L ++ [tr'])%list in HL.
        rewrite HL. split; [repeat split|]. split; [rewrite app_length; cbn; lia|reflexivity].
    - destruct (Nat.eq_dec n (List.length (jrender d))) as [->|Hneq].
      + rewrite firstn_all. rewrite (jload_render tok_float tok_int pdg_valid pdg_charge usqrt defstr d s1 s2 Hwf).
        split; [repeat split|]. split; reflexivity.
      + rewrite (jet_last_line_without_sigmaGen); [exact I|].
        destruct n as [|n']; [reflexivity|].
        rewrite HF, firstn_app. replace (S n' - List.length L)%nat with 0%nat by lia.
        rewrite firstn_O, app_nil_r. apply Hns.
        apply last_firstn_in; [lia|unfold L; discriminate].
  Qed.
End P.

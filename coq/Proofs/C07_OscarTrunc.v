(* C07 (Oscar family): EVERY truncation point.  A rendered well-formed file cut after n complete lines and,
   possibly, inside line n (first j tokens + a prefix of token j, no final newline) either fails to load or
   loads exactly the first m complete events with matching counts, and then the cut is the line boundary
   after event m or lies inside the footer line of event m at or after its word "end". *)
From Coq Require Import List String Ascii ZArith QArith Bool Arith Lia.
From SX Require Import Lib.Strs Lib.StrLemmas Lib.DecStr Gen.GenParticleMap Model.Oscar Model.OscarDoc Model.C07Aux
  Proofs.C01_Oscar Proofs.C02_Oscar Proofs.C07_Oscar.
Import ListNotations.
Local Open Scope string_scope.

Definition postc {A} (P : A -> Prop) (r : result A) : Prop := match r with Err _ => True | Ok a => P a end.


(* ------------------------------------------------------------------ small list / token facts *)
Lemma removelast_s_cons x l : l <> [] -> removelast_s (x :: l) = x :: removelast_s l.
Proof. destruct l; [congruence|reflexivity]. Qed.

Lemma removelast_s_snoc l x : removelast_s (l ++ [x]) = l.
Proof.
  induction l as [|a l IH]; [reflexivity|].
  cbn [app]. rewrite removelast_s_cons by (destruct l; discriminate). rewrite IH. reflexivity.
Qed.

Lemma mem_str_has q l : has q l = false -> mem_str q l = false.
Proof.
  unfold has, mem_str. induction l as [|t l IH]; [reflexivity|]. cbn. intros H.
  apply orb_false_iff in H. destruct H as [Ht Hl]. rewrite (IH Hl), orb_false_r.
  destruct (String.eqb_spec q t) as [<-|]; [|reflexivity].
  rewrite (prefix_contains q q (prefix_refl q)) in Ht. discriminate.
Qed.

Lemma has_firstn q l j : has q l = false -> has q (firstn j l) = false.
Proof.
  unfold has. revert j. induction l as [|t l IH]; intros j H; [destruct j; reflexivity|].
  destruct j; [reflexivity|]. cbn in *. apply orb_false_iff in H. destruct H as [Ht Hl].
  rewrite Ht, (IH j Hl). reflexivity.
Qed.

Lemma has_nth_false q l j : has q l = false -> contains q (nth j l "") = false \/ nth j l "" = "".
Proof.
  unfold has. revert j. induction l as [|t l IH]; intros j H; [right; destruct j; reflexivity|].
  cbn in H. apply orb_false_iff in H. destruct H as [Ht Hl].
  destruct j; [left; exact Ht|]. cbn. apply IH, Hl.
Qed.

(* a cut line of a line that never mentions q does not mention q (q non-empty) *)
Lemma has_cut_line q l j p :
  q <> "" -> has q l = false -> prefix p (nth j l "") = true -> has q (cut_line l j p) = false.
Proof.
  intros Hq H Hp. unfold cut_line, has. rewrite existsb_app. fold (has q (firstn j l)).
  rewrite (has_firstn q l j H). cbn. rewrite orb_false_r.
  destruct (has_nth_false q l j H) as [Hc|He].
  - apply (contains_prefix_false q p _ Hc Hp).
  - rewrite He in Hp. destruct p; [|destruct (nth j l ""); discriminate].
    destruct q; [congruence|reflexivity].
Qed.

Lemma last_cons_app {A} (a b c : A) (l t : list A) d : t <> [] -> last (a :: b :: c :: l ++ t) d = last t d.
Proof.
  intros H. change (a :: b :: c :: l ++ t)%list with ((a :: b :: c :: l) ++ t)%list.
  apply last_app_ne, H.
Qed.

Section P.
  Variable tok_float : string -> option Q.
  Variable tok_int : string -> option Q.
  Variable pdg_valid : Q -> bool.
  Hypothesis Hint : int_oracle_ok tok_int.

  Notation wf_row := (wf_row tok_float tok_int pdg_valid).
  Notation wf_event := (wf_event tok_float tok_int pdg_valid).
  Notation wf_events := (wf_events tok_float tok_int pdg_valid).
  Notation WF := (wf tok_float tok_int pdg_valid).
  Notation parse_rows := (parse_rows tok_float tok_int pdg_valid).
  Notation SCAN := (scan tok_int).
  Notation RL := (read_loop tok_float tok_int pdg_valid None).
  Notation LOAD := (load tok_float tok_int pdg_valid None).
  Notation LOADN := (load_nonl tok_float tok_int pdg_valid None).
  Notation EXPECTED := (expected tok_float tok_int pdg_valid).
  Notation PARSE fmt attrs := (fun e : event => parse_rows fmt attrs (e_rows e)).

  Lemma tok_int_digits s : digits s = true -> s <> "" -> tok_int s = Some (zq (Z.of_nat (dval s))).
  Proof. destruct Hint as (_ & H). exact (H s). Qed.
  Lemma tok_int_empty : tok_int "" = None.
  Proof. exact (proj1 Hint). Qed.
  Lemma tok_int_canon s : canon s = true -> tok_int s = Some (zq (Z.of_nat (dval s))).
  Proof. intros H. apply tok_int_digits; [apply canon_digits, H|apply canon_ne, H]. Qed.

  (* ---------------------------------------------------------------- the loader after the last-line test *)
  Definition cont (fmt : string) (attrs : list string) (file : list line) (nev : Z) : result loaded :=
    sc <- SCAN file ;;
    let cnts := fst sc in
    ns <- num_skip SelAll cnts ;;
    nr <- num_read SelAll cnts ;;
    let body := skipn (Z.to_nat ns) file in
    first_ok <- match body, Z.to_nat nr with
                | l0 :: _, S _ => if negb (has "#" l0) && negb (has "out" l0) then Err ValueError else Ok tt
                | _, _ => Ok tt
                end ;;
    st <- RL (sel_first SelAll) fmt attrs (Z.to_nat nr) body
            {| plist := []; data := []; counts := sel_counts SelAll cnts; cut := 0 |} ;;
    let nev' := (nev - cut st)%Z in
    fin <- (if (Z.of_nat (List.length (plist st)) =? nev')%Z then Ok (nev', counts st) else Err IndexError) ;;
    Ok {| l_events := match plist st with [] => [[]] | pl => pl end;
          l_nevents := fst fin; l_counts := snd fin; l_format := fmt; l_attrs := attrs;
          l_footers := snd sc |}.

  Definition nevg (nl : bool) (l : line) : result Z :=
    if nl then num_events_of tok_int l else num_events_of_nonl tok_int l.
  Definition loadg (nl : bool) (file : list line) : result loaded :=
    if nl then LOAD file SelAll else LOADN file SelAll.

  Lemma std_not_ic fmt : std_format fmt ->
    ((fmt =? "Oscar2013Extended_IC") || (fmt =? "Oscar2013Extended_Photons")) = false.
  Proof. intros [->|[->| ->]]; reflexivity. Qed.

  Lemma loadg_eq nl first second rest fmt attrs :
    oscar_format first = Ok (fmt, attrs) -> std_format fmt ->
    loadg nl (first :: second :: rest)
    = (nev <- nevg nl (last (first :: second :: rest) []) ;; cont fmt attrs (first :: second :: rest) nev).
  Proof.
    intros Hfmt Hstd. destruct nl; unfold loadg, nevg, load, load_nonl, cont;
      rewrite Hfmt; cbn [bind fst snd]; rewrite (std_not_ic fmt Hstd); cbn [bind]; reflexivity.
  Qed.

  Definition extra (cs : list (Z * Z)) : Z := fold_right (fun c acc => snd c + 2 + acc)%Z 0%Z cs.

  Lemma fold_counts_app (a b : list (Z * Z)) :
    (fold_right (fun c acc => snd c + acc) 0 (a ++ b) + 2 * Z.of_nat (List.length (a ++ b)))%Z
    = ((fold_right (fun c acc => snd c + acc) 0 a + 2 * Z.of_nat (List.length a)) + extra b)%Z.
  Proof.
    induction a as [|x a IH].
    - cbn [app fold_right List.length]. induction b as [|y b IHb]; [reflexivity|].
      unfold extra in *. cbn [fold_right List.length]. rewrite Nat2Z.inj_succ. lia.
    - cbn [app fold_right List.length]. rewrite !Nat2Z.inj_succ. lia.
  Qed.

  Lemma extra_nonneg cs : Forall (fun c => 0 <= snd c)%Z cs -> (0 <= extra cs)%Z.
  Proof. induction 1 as [|c cs Hc _ IH]; unfold extra in *; cbn [fold_right]; lia. Qed.

  Lemma kind_scan_hash l : kind_scan l <> SOther -> has "#" l = true.
  Proof. unfold kind_scan. destruct (has "#" l); [reflexivity|]. cbn. congruence. Qed.

  (* the scan of the three header lines, m complete events, then a tail T *)
  Lemma scan_split (d : doc) fmt attrs pre T :
    kind_scan (d_h1 d) = SOther -> kind_scan (d_h2 d) = SOther -> kind_scan (d_h3 d) = SOther ->
    wf_events fmt attrs 0 pre ->
    SCAN (d_h1 d :: d_h2 d :: d_h3 d :: render_events pre ++ T)%list
    = (r <- SCAN T ;; Ok ((counts_from 0 pre ++ fst r)%list, (map e_foot pre ++ snd r)%list)).
  Proof.
    intros Hs1 Hs2 Hs3 Hev. cbn [scan]. rewrite Hs1, Hs2, Hs3.
    rewrite (scan_events_g tok_float tok_int pdg_valid fmt attrs pre _ 0 T (wf_lwf tok_float tok_int pdg_valid fmt attrs pre 0 Hev)).
    rewrite counts_decl_from. reflexivity.
  Qed.

  Lemma cont_scan_err (d : doc) fmt attrs pre T nev e :
    kind_scan (d_h1 d) = SOther -> kind_scan (d_h2 d) = SOther -> kind_scan (d_h3 d) = SOther ->
    wf_events fmt attrs 0 pre -> SCAN T = Err e ->
    cont fmt attrs (d_h1 d :: d_h2 d :: d_h3 d :: render_events pre ++ T)%list nev = Err e.
  Proof.
    intros Hs1 Hs2 Hs3 Hev HT. unfold cont. rewrite (scan_split d fmt attrs pre T Hs1 Hs2 Hs3 Hev), HT. reflexivity.
  Qed.

  Lemma cont_no_counts (d : doc) fmt attrs T fs nev :
    kind_scan (d_h1 d) = SOther -> kind_scan (d_h2 d) = SOther -> kind_scan (d_h3 d) = SOther ->
    SCAN T = Ok ([], fs) ->
    cont fmt attrs (d_h1 d :: d_h2 d :: d_h3 d :: T)%list nev = Err IndexError.
  Proof.
    intros Hs1 Hs2 Hs3 HT. unfold cont.
    pose proof (scan_split d fmt attrs [] T Hs1 Hs2 Hs3 I) as Hsc. cbn [render_events flat_map app] in Hsc.
    rewrite Hsc, HT. reflexivity.
  Qed.

  Lemma cont_split (d : doc) fmt attrs pre T cs fs nev :
    kind_scan (d_h1 d) = SOther -> kind_scan (d_h2 d) = SOther -> kind_scan (d_h3 d) = SOther ->
    wf_events fmt attrs 0 pre ->
    SCAN T = Ok (cs, fs) -> Forall (fun c => 0 <= snd c)%Z cs ->
    (counts_from 0 pre ++ cs)%list <> [] ->
    has "#" (hd [] (render_events pre ++ T)%list) = true ->
    cont fmt attrs (d_h1 d :: d_h2 d :: d_h3 d :: render_events pre ++ T)%list nev
    = (st <- RL 0%Z fmt attrs (Z.to_nat (extra cs)) T
               {| plist := map (PARSE fmt attrs) pre; data := [];
                  counts := (counts_from 0 pre ++ cs)%list; cut := 0 |} ;;
       fin <- (if (Z.of_nat (List.length (plist st)) =? nev - cut st)%Z
               then Ok ((nev - cut st)%Z, counts st) else Err IndexError) ;;
       Ok {| l_events := match plist st with [] => [[]] | pl => pl end;
             l_nevents := fst fin; l_counts := snd fin; l_format := fmt; l_attrs := attrs;
             l_footers := (map e_foot pre ++ fs)%list |}).
  Proof.
    intros Hs1 Hs2 Hs3 Hev HT Hpos Hne Hhash. unfold cont.
    rewrite (scan_split d fmt attrs pre T Hs1 Hs2 Hs3 Hev), HT.
    cbn [bind fst snd num_skip num_read sel_first sel_counts].
    destruct (counts_from 0 pre ++ cs)%list eqn:Ec; [congruence|]. rewrite <- Ec. cbn [bind].
    rewrite fold_counts_app, read_all_lines.
    pose proof (extra_nonneg cs Hpos) as Hx.
    replace (Z.to_nat (Z.of_nat (List.length (render_events pre)) + extra cs))
      with (List.length (render_events pre) + Z.to_nat (extra cs))%nat by lia.
    change (Z.to_nat 3) with 3%nat. cbn [skipn].
    assert (Hfirst : (match (render_events pre ++ T)%list, (List.length (render_events pre) + Z.to_nat (extra cs))%nat with
                      | l0 :: _, S _ => if negb (has "#" l0) && negb (has "out" l0) then Err ValueError else Ok tt
                      | _, _ => Ok tt end) = Ok tt).
    { destruct (render_events pre ++ T)%list as [|l0 ?]; [reflexivity|]. cbn [hd] in Hhash. rewrite Hhash.
      destruct (List.length (render_events pre) + Z.to_nat (extra cs))%nat; reflexivity. }
    rewrite Hfirst. cbn [bind].
    rewrite (rl_events_g tok_float tok_int pdg_valid 0%Z fmt attrs pre _ 0 (Z.to_nat (extra cs)) T
               {| plist := []; data := []; counts := (counts_from 0 pre ++ cs)%list; cut := 0 |}
               (wf_lwf tok_float tok_int pdg_valid fmt attrs pre 0 Hev) eq_refl).
    unfold add_events. cbn [plist data counts cut app]. reflexivity.
  Qed.

  (* ---------------------------------------------------------------- token-level evaluation of the line tests *)
  Ltac tok_simpl :=
    cbn [has existsb has_mid has_suffix_sp has_sp_prefix removelast_s tl mem_str nth nth_error app firstn
         List.length cut_line].
  Ltac numfacts t Hn :=
    rewrite ?(numeric_contains_hash t Hn), ?(numeric_contains_event t Hn), ?(numeric_contains_out t Hn),
            ?(numeric_contains_end t Hn), ?(numeric_suffix_in t Hn), ?(numeric_prefix_start t Hn),
            ?(numeric_neq t "end" "n"%char (or_intror (or_introl eq_refl)) eq_refl Hn),
            ?(numeric_neq t "out" "o"%char (or_introl eq_refl) eq_refl Hn),
            ?(numeric_neq t "event" "v"%char (or_intror (or_introl eq_refl)) eq_refl Hn).

  Lemma canon_numeric s : canon s = true -> numeric s = true.
  Proof. intros H. apply digits_numeric, canon_digits, H. Qed.

  Lemma zq_inj a b : Some (zq a) = Some (zq b) -> a = b.
  Proof. unfold zq, inject_Z. intros H. injection H. auto. Qed.

  Lemma hash_first fmt attrs pre T :
    wf_events fmt attrs 0 pre -> pre <> [] -> has "#" (hd [] (render_events pre ++ T)%list) = true.
  Proof.
    destruct pre as [|e0 t]; [congruence|]. intros ((Hk & _) & _) _.
    unfold render_events. cbn [flat_map]. unfold render_event at 1. cbn [app hd].
    apply kind_scan_hash. rewrite Hk. discriminate.
  Qed.

  (* m complete events, then a tail whose scan finds no further event header: unless the last line announces
     exactly m events the load fails *)
  Lemma cont_tail_uncounted (d : doc) fmt attrs pre T fs nev :
    kind_scan (d_h1 d) = SOther -> kind_scan (d_h2 d) = SOther -> kind_scan (d_h3 d) = SOther ->
    wf_events fmt attrs 0 pre -> SCAN T = Ok ([], fs) -> nev <> Z.of_nat (List.length pre) ->
    cont fmt attrs (d_h1 d :: d_h2 d :: d_h3 d :: render_events pre ++ T)%list nev = Err IndexError.
  Proof.
    intros Hs1 Hs2 Hs3 Hev HT Hnev. destruct pre as [|e0 t] eqn:Ep.
    - cbn [render_events flat_map app]. apply (cont_no_counts d fmt attrs T fs nev Hs1 Hs2 Hs3 HT).
    - rewrite <- Ep in *.
      rewrite (cont_split d fmt attrs pre T [] fs nev Hs1 Hs2 Hs3 Hev HT (Forall_nil _)).
      + cbn [extra fold_right Z.to_nat read_loop bind plist cut]. rewrite map_length, Z.sub_0_r.
        replace (Z.of_nat (List.length pre) =? nev)%Z with false by (symmetry; apply Z.eqb_neq; lia).
        reflexivity.
      + rewrite app_nil_r, Ep. discriminate.
      + apply (hash_first fmt attrs pre T Hev). rewrite Ep. discriminate.
  Qed.

  (* ---------------------------------------------------------------- a cut inside the header line of event m *)
  Lemma head_partial (d : doc) fmt attrs pre lt ct j p :
    hdr_ok d fmt attrs -> wf_events fmt attrs 0 pre ->
    canon lt = true -> dval lt = List.length pre -> canon ct = true ->
    valid_partial ["#"; "event"; lt; "out"; ct] (Some (j, p)) ->
    exists e, LOADN (d_h1 d :: d_h2 d :: d_h3 d :: render_events pre ++ [cut_line ["#"; "event"; lt; "out"; ct] j p])%list SelAll
              = Err e.
  Proof.
    intros (Hfmt & Hstd & Hs1 & Hs2 & Hs3) Hev Hlt Hval Hct (Hj & Hp & Hp0).
    pose proof (loadg_eq false (d_h1 d) (d_h2 d) (d_h3 d :: render_events pre ++ [cut_line ["#"; "event"; lt; "out"; ct] j p])%list
                  fmt attrs Hfmt Hstd) as HL.
    unfold loadg in HL. rewrite HL. clear HL.
    rewrite last_cons_app by discriminate. cbn [last].
    pose proof (canon_numeric lt Hlt) as Hnl.
    cbn [List.length] in Hj.
    destruct j as [|[|[|[|[|j]]]]]; [| | | | |lia]; cbn [nth] in Hp; unfold nevg.
    - (* inside '#' *)
      apply prefix_in_prefixes in Hp. cbn [prefixes map] in Hp.
      destruct Hp as [<-|[<-|[]]]; [specialize (Hp0 eq_refl); congruence|].
      eexists. reflexivity.
    - (* inside 'event' *)
      unfold num_events_of_nonl. tok_simpl.
      change ("#" =? "#") with true. change ("event" =? "#") with false. cbn [andb orb].
      destruct ("event" =? p); eexists; reflexivity.
    - (* inside the event label *)
      unfold num_events_of_nonl. tok_simpl.
      change ("#" =? "#") with true. change ("event" =? "#") with false. change ("event" =? "event") with true.
      cbn [andb orb].
      destruct (canon_prefix lt p Hlt Hp) as [->|[->|(Hd & Hne & H1 & H10)]].
      + rewrite (tok_int_canon lt Hlt). cbn [bind]. rewrite to_Z_zq.
        eexists. apply (cont_tail_uncounted d fmt attrs pre _ [] _ Hs1 Hs2 Hs3 Hev); [|lia].
        cbn [scan]. unfold kind_scan. tok_simpl. numfacts lt Hnl. reflexivity.
      + rewrite tok_int_empty. eexists. reflexivity.
      + rewrite (tok_int_digits p Hd Hne). cbn [bind]. rewrite to_Z_zq.
        eexists. apply (cont_tail_uncounted d fmt attrs pre _ [] _ Hs1 Hs2 Hs3 Hev); [|lia].
        cbn [scan]. unfold kind_scan. tok_simpl. reflexivity.
    - (* inside 'out' *)
      unfold num_events_of_nonl. tok_simpl.
      change ("#" =? "#") with true. change ("event" =? "#") with false. change ("event" =? "event") with true.
      cbn [andb orb]. rewrite (tok_int_canon lt Hlt). cbn [bind]. rewrite to_Z_zq.
      eexists. apply (cont_tail_uncounted d fmt attrs pre _ [] _ Hs1 Hs2 Hs3 Hev); [|lia].
      cbn [scan]. unfold kind_scan. tok_simpl. numfacts lt Hnl. reflexivity.
    - (* inside the particle count *)
      unfold num_events_of_nonl. tok_simpl.
      change ("#" =? "#") with true. change ("event" =? "#") with false. change ("event" =? "event") with true.
      cbn [andb orb]. rewrite (tok_int_canon lt Hlt). cbn [bind]. rewrite to_Z_zq.
      assert (Hks : kind_scan ["#"; "event"; lt; "out"; p] = SOut).
      { unfold kind_scan. tok_simpl. numfacts lt Hnl. reflexivity. }
      destruct p as [|c0 p0] eqn:Ep.
      + eexists. apply (cont_scan_err d fmt attrs pre _ _ ValueError Hs1 Hs2 Hs3 Hev).
        cbn [scan]. rewrite Hks. cbn [nth_error]. rewrite (tok_int_canon lt Hlt), tok_int_empty. reflexivity.
      + rewrite <- Ep in *. assert (Hpne : p <> "") by (rewrite Ep; discriminate).
        pose proof (digits_prefix p ct (canon_digits ct Hct) Hp) as Hdp.
        assert (HT : SCAN [["#"; "event"; lt; "out"; p]] = Ok ([(Z.of_nat (List.length pre), Z.of_nat (dval p))], [])).
        { cbn [scan]. rewrite Hks. cbn [nth_error]. rewrite (tok_int_canon lt Hlt), (tok_int_digits p Hdp Hpne).
          cbn [bind fst snd]. rewrite !to_Z_zq, Hval. reflexivity. }
        eexists.
        rewrite (cont_split d fmt attrs pre _ _ _ _ Hs1 Hs2 Hs3 Hev HT).
        * cbn [extra fold_right snd].
          replace (Z.to_nat (Z.of_nat (dval p) + 2 + 0)) with (S (S (dval p))) by lia.
          cbn [read_loop].
          assert (Hkl : kind_loop ["#"; "event"; lt; "out"; p] = KSkip).
          { unfold kind_loop. tok_simpl. numfacts lt Hnl. reflexivity. }
          rewrite Hkl. reflexivity.
        * constructor; [cbn [snd]; lia|constructor].
        * destruct (counts_from 0 pre); discriminate.
        * destruct pre as [|e0 t]; [reflexivity|]. apply (hash_first fmt attrs (e0 :: t) _ Hev). discriminate.
  Qed.

  (* ---------------------------------------------------------------- header and particle lines of event m, then X *)
  Lemma scan_event_tail fmt attrs m e X :
    wf_event fmt attrs m e ->
    SCAN (e_head e :: e_rows e ++ X)%list
    = (r <- SCAN X ;; Ok ((Z.of_nat m, Z.of_nat (List.length (e_rows e))) :: fst r, snd r)).
  Proof.
    intros (Hhs & _ & (lt & ct & H2 & H4 & Hl & Hc) & Hrows & _).
    cbn [scan]. rewrite Hhs, H2, H4, Hl, Hc.
    rewrite (scan_rows tok_float tok_int pdg_valid fmt attrs) by exact Hrows.
    destruct (SCAN X) as [[a b]|]; cbn [bind fst snd]; [|reflexivity]. rewrite !to_Z_zq. reflexivity.
  Qed.

  Lemma rl_event_tail first fmt attrs m e k X st :
    wf_event fmt attrs m e ->
    RL first fmt attrs (S (List.length (e_rows e) + k)) (e_head e :: e_rows e ++ X)%list st
    = RL first fmt attrs k X (add_data st (parse_rows fmt attrs (e_rows e))).
  Proof.
    intros (_ & Hhk & _ & Hrows & _). cbn [read_loop]. rewrite Hhk.
    apply (rl_rows tok_float tok_int pdg_valid). exact Hrows.
  Qed.

  Definition loaded_upto fmt attrs pre e (foots : list line) : loaded :=
    {| l_events := (map (PARSE fmt attrs) pre ++ [parse_rows fmt attrs (e_rows e)])%list;
       l_nevents := Z.of_nat (S (List.length pre));
       l_counts := (counts_from 0 pre ++ [(Z.of_nat (List.length pre), Z.of_nat (List.length (e_rows e)))])%list;
       l_format := fmt; l_attrs := attrs; l_footers := foots |}.

  Lemma foot_cont_common (d : doc) fmt attrs pre e fp fs nev :
    kind_scan (d_h1 d) = SOther -> kind_scan (d_h2 d) = SOther -> kind_scan (d_h3 d) = SOther ->
    wf_events fmt attrs 0 pre -> wf_event fmt attrs (List.length pre) e ->
    SCAN [fp] = Ok ([], fs) ->
    cont fmt attrs (d_h1 d :: d_h2 d :: d_h3 d :: render_events pre ++ e_head e :: e_rows e ++ [fp])%list nev
    = (st <- RL 0%Z fmt attrs 1 [fp]
               {| plist := map (PARSE fmt attrs) pre; data := parse_rows fmt attrs (e_rows e);
                  counts := (counts_from 0 pre ++ [(Z.of_nat (List.length pre), Z.of_nat (List.length (e_rows e)))])%list;
                  cut := 0 |} ;;
       fin <- (if (Z.of_nat (List.length (plist st)) =? nev - cut st)%Z
               then Ok ((nev - cut st)%Z, counts st) else Err IndexError) ;;
       Ok {| l_events := match plist st with [] => [[]] | pl => pl end;
             l_nevents := fst fin; l_counts := snd fin; l_format := fmt; l_attrs := attrs;
             l_footers := (map e_foot pre ++ fs)%list |}).
  Proof.
    intros Hs1 Hs2 Hs3 Hev He HT.
    assert (HS : SCAN (e_head e :: e_rows e ++ [fp])%list
                 = Ok ([(Z.of_nat (List.length pre), Z.of_nat (List.length (e_rows e)))], fs)).
    { rewrite (scan_event_tail fmt attrs _ e [fp] He), HT. reflexivity. }
    rewrite (cont_split d fmt attrs pre _ _ _ nev Hs1 Hs2 Hs3 Hev HS).
    - cbn [extra fold_right snd].
      replace (Z.to_nat (Z.of_nat (List.length (e_rows e)) + 2 + 0)) with (S (List.length (e_rows e) + 1)) by lia.
      rewrite (rl_event_tail 0%Z fmt attrs _ e 1 [fp] _ He). unfold add_data. cbn [plist data counts cut app]. reflexivity.
    - constructor; [cbn [snd]; lia|constructor].
    - destruct (counts_from 0 pre); discriminate.
    - destruct pre as [|e0 t].
      + cbn [render_events flat_map app hd]. apply kind_scan_hash. destruct He as (Hk & _). rewrite Hk. discriminate.
      + apply (hash_first fmt attrs (e0 :: t) _ Hev). discriminate.
  Qed.

  Lemma foot_cont_bad (d : doc) fmt attrs pre e fp fs nev :
    kind_scan (d_h1 d) = SOther -> kind_scan (d_h2 d) = SOther -> kind_scan (d_h3 d) = SOther ->
    wf_events fmt attrs 0 pre -> wf_event fmt attrs (List.length pre) e ->
    SCAN [fp] = Ok ([], fs) -> kind_loop fp = KBad ->
    cont fmt attrs (d_h1 d :: d_h2 d :: d_h3 d :: render_events pre ++ e_head e :: e_rows e ++ [fp])%list nev
    = Err ValueError.
  Proof.
    intros Hs1 Hs2 Hs3 Hev He HT Hk. rewrite (foot_cont_common d fmt attrs pre e fp fs nev Hs1 Hs2 Hs3 Hev He HT).
    cbn [read_loop]. rewrite Hk. reflexivity.
  Qed.

  Lemma foot_cont_skip (d : doc) fmt attrs pre e fp fs nev :
    kind_scan (d_h1 d) = SOther -> kind_scan (d_h2 d) = SOther -> kind_scan (d_h3 d) = SOther ->
    wf_events fmt attrs 0 pre -> wf_event fmt attrs (List.length pre) e ->
    SCAN [fp] = Ok ([], fs) -> kind_loop fp = KSkip -> nev <> Z.of_nat (List.length pre) ->
    cont fmt attrs (d_h1 d :: d_h2 d :: d_h3 d :: render_events pre ++ e_head e :: e_rows e ++ [fp])%list nev
    = Err IndexError.
  Proof.
    intros Hs1 Hs2 Hs3 Hev He HT Hk Hn. rewrite (foot_cont_common d fmt attrs pre e fp fs nev Hs1 Hs2 Hs3 Hev He HT).
    cbn [read_loop]. rewrite Hk. cbn [bind plist cut]. rewrite map_length, Z.sub_0_r.
    replace (Z.of_nat (List.length pre) =? nev)%Z with false by (symmetry; apply Z.eqb_neq; lia).
    reflexivity.
  Qed.

  Lemma foot_cont_end (d : doc) fmt attrs pre e fp fs :
    kind_scan (d_h1 d) = SOther -> kind_scan (d_h2 d) = SOther -> kind_scan (d_h3 d) = SOther ->
    wf_events fmt attrs 0 pre -> wf_event fmt attrs (List.length pre) e ->
    SCAN [fp] = Ok ([], fs) -> kind_loop fp = KEnd ->
    cont fmt attrs (d_h1 d :: d_h2 d :: d_h3 d :: render_events pre ++ e_head e :: e_rows e ++ [fp])%list
         (Z.of_nat (List.length pre) + 1)
    = Ok (loaded_upto fmt attrs pre e (map e_foot pre ++ fs)%list).
  Proof.
    intros Hs1 Hs2 Hs3 Hev He HT Hk. rewrite (foot_cont_common d fmt attrs pre e fp fs _ Hs1 Hs2 Hs3 Hev He HT).
    cbn [read_loop]. rewrite Hk, close_none. cbn [bind read_loop add_events plist cut counts data].
    rewrite app_length, map_length. cbn [List.length]. rewrite Z.sub_0_r.
    replace (Z.of_nat (List.length pre + 1) =? Z.of_nat (List.length pre) + 1)%Z with true by (symmetry; apply Z.eqb_eq; lia).
    cbn [bind fst snd]. unfold loaded_upto. f_equal. f_equal; [|lia].
    destruct (map (PARSE fmt attrs) pre); reflexivity.
  Qed.

  (* ---------------------------------------------------------------- a cut inside the footer line of event m+1 *)
  Lemma has_mid_end_foot lt X : X <> [] -> has_mid "end" ("#" :: "event" :: lt :: "end" :: X) = true.
  Proof.
    intros HX. unfold has_mid. cbn [tl].
    rewrite (removelast_s_cons "event") by discriminate. rewrite (removelast_s_cons lt) by discriminate.
    rewrite (removelast_s_cons "end") by exact HX. cbn [existsb].
    change ("end" =? "end") with true. rewrite !orb_true_r. reflexivity.
  Qed.

  Definition foot_result fmt attrs pre e (j : nat) (p : string) : loaded :=
    loaded_upto fmt attrs pre e
      (map e_foot pre ++ (if (4 <=? j)%nat then [cut_line (e_foot e) j p] else []))%list.

  Lemma foot_partial (d : doc) fmt attrs pre e lt tail j p :
    hdr_ok d fmt attrs -> wf_events fmt attrs 0 pre -> wf_event fmt attrs (List.length pre) e ->
    e_foot e = "#" :: "event" :: lt :: "end" :: tail -> canon lt = true -> dval lt = List.length pre ->
    valid_partial (e_foot e) (Some (j, p)) ->
    postc (fun r => ((j = 3%nat /\ p = "end") \/ (4 <= j)%nat) /\ r = foot_result fmt attrs pre e j p)
         (LOADN (d_h1 d :: d_h2 d :: d_h3 d :: render_events pre ++ e_head e :: e_rows e ++ [cut_line (e_foot e) j p])%list SelAll).
  Proof.
    intros (Hfmt & Hstd & Hs1 & Hs2 & Hs3) Hev He Hfoot Hlt Hval (Hj & Hp & Hp0).
    pose proof (loadg_eq false (d_h1 d) (d_h2 d)
                  (d_h3 d :: render_events pre ++ e_head e :: e_rows e ++ [cut_line (e_foot e) j p])%list
                  fmt attrs Hfmt Hstd) as HL.
    unfold loadg in HL. rewrite HL. clear HL.
    replace (last (d_h1 d :: d_h2 d :: d_h3 d :: render_events pre ++ e_head e :: e_rows e ++ [cut_line (e_foot e) j p])%list [])
      with (cut_line (e_foot e) j p).
    2:{ symmetry. rewrite last_cons_app by discriminate.
        change (e_head e :: e_rows e ++ [cut_line (e_foot e) j p])%list
          with ((e_head e :: e_rows e) ++ [cut_line (e_foot e) j p])%list. apply last_last. }
    unfold foot_result. rewrite Hfoot in *.
    pose proof (canon_numeric lt Hlt) as Hnl.
    unfold nevg.
    destruct j as [|[|[|[|j']]]]; cbn [nth] in Hp.
    - apply prefix_in_prefixes in Hp. cbn [prefixes map] in Hp.
      destruct Hp as [<-|[<-|[]]]; [specialize (Hp0 eq_refl); congruence|]. exact I.
    - unfold num_events_of_nonl. tok_simpl.
      change ("#" =? "#") with true. change ("event" =? "#") with false. cbn [andb orb].
      destruct ("event" =? p); exact I.
    - (* inside the label *)
      unfold num_events_of_nonl. tok_simpl.
      change ("#" =? "#") with true. change ("event" =? "#") with false. change ("event" =? "event") with true.
      cbn [andb orb].
      destruct p as [|c0 p0] eqn:Ep; [rewrite tok_int_empty; exact I|]. rewrite <- Ep in *.
      assert (Hpne : p <> "") by (rewrite Ep; discriminate).
      pose proof (digits_prefix p lt (canon_digits lt Hlt) Hp) as Hdp.
      pose proof (digits_numeric p Hdp) as Hnp.
      rewrite (tok_int_digits p Hdp Hpne). cbn [bind].
      rewrite (foot_cont_bad d fmt attrs pre e _ [] _ Hs1 Hs2 Hs3 Hev He); [exact I| |].
      + cbn [scan]. unfold kind_scan. tok_simpl. reflexivity.
      + unfold kind_loop. tok_simpl. numfacts p Hnp. reflexivity.
    - (* inside 'end' *)
      unfold num_events_of_nonl. tok_simpl.
      change ("#" =? "#") with true. change ("event" =? "#") with false. change ("event" =? "event") with true.
      cbn [andb orb]. rewrite (tok_int_canon lt Hlt). cbn [bind]. rewrite to_Z_zq, Hval.
      assert (HT : forall q, SCAN [["#"; "event"; lt; q]] = Ok ([], [])).
      { intros q. cbn [scan]. unfold kind_scan. tok_simpl. numfacts lt Hnl. reflexivity. }
      apply prefix_in_prefixes in Hp. cbn [prefixes map] in Hp.
      destruct Hp as [<-|[<-|[<-|[<-|[]]]]].
      1-3: rewrite (foot_cont_bad d fmt attrs pre e _ [] _ Hs1 Hs2 Hs3 Hev He (HT _)); [exact I|];
           unfold kind_loop; tok_simpl; numfacts lt Hnl; reflexivity.
      rewrite (foot_cont_end d fmt attrs pre e _ [] Hs1 Hs2 Hs3 Hev He (HT _)).
      + cbn [postc]. split; [left; split; reflexivity|]. reflexivity.
      + unfold kind_loop. tok_simpl. numfacts lt Hnl. reflexivity.
    - (* at or after the blank that follows 'end' *)
      unfold cut_line. cbn [firstn app].
      set (X := (firstn j' tail ++ [p])%list).
      assert (HX : X <> []) by (unfold X; destruct (firstn j' tail); discriminate).
      unfold num_events_of_nonl. tok_simpl.
      change ("#" =? "#") with true. change ("event" =? "#") with false. change ("event" =? "event") with true.
      cbn [andb orb]. rewrite (tok_int_canon lt Hlt). cbn [bind]. rewrite to_Z_zq, Hval.
      set (fp := "#" :: "event" :: lt :: "end" :: X).
      assert (Hh : has "#" fp = true) by reflexivity.
      assert (Hend : has "end" fp = true).
      { unfold fp, has. cbn [existsb]. change (contains "end" "end") with true. rewrite !orb_true_r. reflexivity. }
      assert (HT : SCAN [fp] = Ok ([], [fp])).
      { cbn [scan]. unfold kind_scan. rewrite Hh. unfold fp. rewrite (has_mid_end_foot lt X HX). reflexivity. }
      assert (Hk : kind_loop fp = KSkip \/ kind_loop fp = KEnd).
      { unfold kind_loop. rewrite Hh, Hend. destruct (has "event" fp && _); [left|right]; reflexivity. }
      destruct Hk as [Hk|Hk].
      + rewrite (foot_cont_skip d fmt attrs pre e fp [fp] _ Hs1 Hs2 Hs3 Hev He HT Hk); [exact I|lia].
      + rewrite (foot_cont_end d fmt attrs pre e fp [fp] Hs1 Hs2 Hs3 Hev He HT Hk).
        cbn [postc]. split; [right; lia|]. reflexivity.
  Qed.

  (* ---------------------------------------------------------------- last line without the word "event" *)
  Lemma has_removelast q l : has q l = false -> has q (removelast_s l) = false.
  Proof.
    unfold has. induction l as [|t l IH]; [reflexivity|]. intros H. cbn in H.
    apply orb_false_iff in H. destruct H as [Ht Hl]. destruct l as [|u l]; [reflexivity|].
    change (removelast_s (t :: u :: l)) with (t :: removelast_s (u :: l)). cbn [existsb].
    rewrite Ht, (IH Hl). reflexivity.
  Qed.

  Lemma load_last_no_event first rest fmt attrs :
    oscar_format first = Ok (fmt, attrs) -> std_format fmt ->
    has "event" (last (first :: rest) []) = false ->
    LOAD (first :: rest) SelAll = Err TypeError /\ exists e, LOADN (first :: rest) SelAll = Err e.
  Proof.
    intros Hfmt Hstd Hl. pose proof (std_not_ic fmt Hstd) as Hstd'.
    assert (A : LOAD (first :: rest) SelAll = Err TypeError).
    { unfold load. rewrite Hfmt. cbn [bind fst snd]. rewrite Hstd'. cbn [bind].
      unfold num_events_of. rewrite (mem_str_has "event" _ (has_removelast "event" _ Hl)).
      rewrite !andb_false_r. reflexivity. }
    assert (B : exists e, LOADN (first :: rest) SelAll = Err e).
    { unfold load_nonl. destruct rest as [|r0 rest']; [eexists; reflexivity|].
      rewrite Hfmt. cbn [bind fst snd]. rewrite Hstd'. cbn [bind].
      unfold num_events_of_nonl. rewrite (mem_str_has "event" _ Hl). rewrite !andb_false_r. eexists. reflexivity. }
    split; [exact A|exact B].
  Qed.

  Lemma no_hash_first l : has "#" l = false -> nth 0 l "" <> "#".
  Proof. destruct l as [|t l]; [discriminate|]. cbn. intros H ->. cbn in H. discriminate. Qed.

  Lemma row_no_hash fmt attrs r : wf_row fmt attrs r -> has "#" r = false.
  Proof.
    intros (_ & Hk & _). unfold kind_loop in Hk.
    destruct (has "#" r); [|reflexivity].
    destruct (has "event" r && _); [discriminate|]. cbn in Hk. destruct (has "end" r); discriminate.
  Qed.

  (* ---------------------------------------------------------------- locating line k of the event block *)
  Lemma locate : forall evs k, (k < List.length (render_events evs))%nat ->
    exists pre e post k', evs = (pre ++ e :: post)%list /\ k = (List.length (render_events pre) + k')%nat
                          /\ (k' < List.length (render_event e))%nat.
  Proof.
    induction evs as [|a evs IH]; intros k Hk; [cbn in Hk; lia|].
    change (render_events (a :: evs)) with (render_event a ++ render_events evs)%list in Hk.
    rewrite app_length in Hk.
    destruct (lt_dec k (List.length (render_event a))) as [Hlt|Hge].
    - exists [], a, evs, k. split; [reflexivity|]. split; [reflexivity|exact Hlt].
    - destruct (IH (k - List.length (render_event a))%nat ltac:(lia)) as (pre & e & post & k' & -> & Hk' & Hlt).
      exists (a :: pre), e, post, k'. split; [reflexivity|]. split; [|exact Hlt].
      change (render_events (a :: pre)) with (render_event a ++ render_events pre)%list. rewrite app_length. lia.
  Qed.

  Lemma firstn_locate pre e post k' :
    (k' <= List.length (render_event e))%nat ->
    firstn (List.length (render_events pre) + k') (render_events (pre ++ e :: post))
    = (render_events pre ++ firstn k' (render_event e))%list.
  Proof.
    intros Hk. rewrite render_events_app. rewrite firstn_app_2.
    change (render_events (e :: post)) with (render_event e ++ render_events post)%list.
    rewrite firstn_app. replace (k' - List.length (render_event e))%nat with 0%nat by lia.
    cbn [firstn]. rewrite app_nil_r. reflexivity.
  Qed.

  Lemma nth_locate pre e post k' :
    (k' < List.length (render_event e))%nat ->
    nth (List.length (render_events pre) + k') (render_events (pre ++ e :: post)) [] = nth k' (render_event e) [].
  Proof.
    intros Hk. rewrite render_events_app. rewrite app_nth2_plus.
    change (render_events (e :: post)) with (render_event e ++ render_events post)%list.
    apply app_nth1, Hk.
  Qed.

  Lemma wf_events_app_inv fmt attrs : forall pre e post i,
    wf_events fmt attrs i (pre ++ e :: post)%list ->
    wf_events fmt attrs i pre /\ wf_event fmt attrs (i + List.length pre) e.
  Proof.
    induction pre as [|a pre IH]; intros e post i H.
    - destruct H as (He & _). cbn. rewrite Nat.add_0_r. split; [exact I|exact He].
    - destruct H as (Ha & Ht). destruct (IH e post (S i) Ht) as (Hp & He).
      split; [split; assumption|]. cbn [List.length]. replace (i + S (List.length pre))%nat with (S i + List.length pre)%nat by lia.
      exact He.
  Qed.

  Lemma shape_events_app_inv : forall pre e post i,
    shape_events i (pre ++ e :: post)%list -> shape_event (i + List.length pre) e.
  Proof.
    induction pre as [|a pre IH]; intros e post i H.
    - destruct H as (He & _). cbn. rewrite Nat.add_0_r. exact He.
    - destruct H as (_ & Ht). cbn [List.length].
      replace (i + S (List.length pre))%nat with (S i + List.length pre)%nat by lia. exact (IH e post (S i) Ht).
  Qed.

  Lemma shape_foot_labels : forall evs i, shape_events i evs -> foot_labels tok_int i evs.
  Proof.
    induction evs as [|e t IH]; intros i H; [exact I|]. destruct H as ((_ & (lt & tail & Hf & Hc & Hv)) & Ht).
    split; [|apply IH, Ht]. unfold wf_last. rewrite Hf. cbn [nth List.length].
    split; [reflexivity|]. split; [lia|]. split.
    - destruct tail; reflexivity.
    - exists lt. split; [reflexivity|]. rewrite (tok_int_canon lt Hc), Hv. f_equal. f_equal. lia.
  Qed.

  Lemma counts_from_app : forall a b i, counts_from i (a ++ b) = (counts_from i a ++ counts_from (i + List.length a) b)%list.
  Proof.
    induction a as [|x a IH]; intros b i; [cbn; rewrite Nat.add_0_r; reflexivity|].
    cbn [app counts_from List.length]. rewrite IH. replace (S i + List.length a)%nat with (i + S (List.length a))%nat by lia.
    reflexivity.
  Qed.

  Lemma firstn_pre {A} (pre : list A) e post : firstn (List.length pre) (pre ++ e :: post) = pre.
  Proof. rewrite <- (Nat.add_0_r (List.length pre)), firstn_app_2. cbn. apply app_nil_r. Qed.
  Lemma firstn_pre1 {A} (pre : list A) e post : firstn (S (List.length pre)) (pre ++ e :: post) = (pre ++ [e])%list.
  Proof. replace (S (List.length pre)) with (List.length pre + 1)%nat by lia. rewrite firstn_app_2. reflexivity. Qed.

  (* ---------------------------------------------------------------- the theorem *)
  Theorem oscar_trunc d fmt attrs n c :
    WF d fmt attrs -> shape d -> (n <= List.length (render d))%nat ->
    valid_partial (nth n (render d) []) c ->
    oscar_trunc_ok tok_float tok_int pdg_valid d fmt attrs n c.
  Proof.
    intros Hwf (Hn1 & Hn2 & Hn3 & Hshape) Hn Hvalid.
    pose proof Hwf as (Hfmt & Hstd & Hs1 & Hs2 & Hs3 & Hne & Hev & Hlast).
    assert (Hhdr : hdr_ok d fmt attrs) by (repeat split; assumption).
    pose proof (shape_foot_labels _ 0 Hshape) as Hfl.
    unfold oscar_trunc_ok, load_cut, render in *.
    (* the cut at an event boundary, for any m *)
    assert (Hboundary : forall m n0, (1 <= m <= List.length (d_events d))%nat ->
              n0 = S (S (S (List.length (render_events (firstn m (d_events d)))))) ->
              match LOAD (d_h1 d :: d_h2 d :: d_h3 d :: render_events (firstn m (d_events d))) SelAll with
              | Err _ => True
              | Ok r => exists m, (1 <= m <= List.length (d_events d))%nat /\
                               same_data r (EXPECTED (truncd m d) fmt attrs) /\
                               oscar_cut_position d n0 None m /\ l_footers r = oscar_cut_footers d n0 None m
              end).
    { intros m n0 Hm ->. destruct (cut_at_event_boundary tok_float tok_int pdg_valid d fmt attrs m Hwf Hfl Hm) as (_ & HL & _).
      unfold render, C07_Oscar.trunc in HL. cbn [d_h1 d_h2 d_h3 d_events] in HL. rewrite HL.
      exists m. split; [exact Hm|]. split; [repeat split|]. split; reflexivity. }
    destruct c as [[j p]|]; cbn [ends_with_newline cut_lines].
    - (* something of line n is left, no final newline *)
      destruct Hvalid as (Hj & Hp & Hp0).
      destruct n as [|[|[|k]]].
      + reflexivity.
      + cbn [firstn nth app] in *.
        destruct (load_last_no_event (d_h1 d) [cut_line (d_h2 d) j p] fmt attrs Hfmt Hstd) as (_ & (e & ->)); [|exact I].
        cbn [last]. apply has_cut_line; [discriminate|exact Hn2|exact Hp].
      + cbn [firstn nth app] in *.
        destruct (load_last_no_event (d_h1 d) [d_h2 d; cut_line (d_h3 d) j p] fmt attrs Hfmt Hstd) as (_ & (e & ->)); [|exact I].
        cbn [last]. apply has_cut_line; [discriminate|exact Hn3|exact Hp].
      + cbn [firstn nth] in *. cbn [app].
        assert (Hk : (k < List.length (render_events (d_events d)))%nat).
        { destruct (lt_dec k (List.length (render_events (d_events d)))) as [|Hge]; [assumption|].
          rewrite nth_overflow in Hj by lia. cbn in Hj. lia. }
        destruct (locate _ k Hk) as (pre & e & post & k' & Hsplit & -> & Hk').
        rewrite Hsplit in *.
        rewrite nth_locate in * by exact Hk'. rewrite firstn_locate by lia.
        destruct (wf_events_app_inv fmt attrs pre e post 0 Hev) as (Hpre & He). cbn [Nat.add] in He.
        pose proof (shape_events_app_inv pre e post 0 Hshape) as Hse. cbn [Nat.add] in Hse.
        destruct Hse as ((lt & ct & Hhead & Hclt & Hvlt & Hcct) & (lt' & tail & Hfoot & Hclt' & Hvlt')).
        unfold render_event in *. cbn [List.length] in Hk'. rewrite app_length in Hk'. cbn [List.length] in Hk'.
        destruct k' as [|k''].
        * (* the event header line *)
          cbn [nth firstn] in *. rewrite Hhead in *.
          destruct (head_partial d fmt attrs pre lt ct j p Hhdr Hpre Hclt Hvlt Hcct (conj Hj (conj Hp Hp0))) as (er & Her).
          rewrite app_nil_r. rewrite Her. exact I.
        * cbn [nth firstn] in *.
          destruct (lt_dec k'' (List.length (e_rows e))) as [Hrow|Hnrow].
          -- (* a particle line *)
             rewrite app_nth1 in * by exact Hrow. rewrite firstn_app.
             replace (k'' - List.length (e_rows e))%nat with 0%nat by lia. cbn [firstn]. rewrite app_nil_r.
             set (file := (d_h1 d :: d_h2 d :: d_h3 d :: (render_events pre ++ e_head e :: firstn k'' (e_rows e))
                                 ++ [cut_line (nth k'' (e_rows e) []) j p])%list).
             destruct (last_line_not_comment tok_float tok_int pdg_valid file (d_h1 d) _ fmt attrs eq_refl Hfmt Hstd) as (_ & HN).
             { unfold file. rewrite last_cons_app by discriminate. cbn [last].
               apply no_hash_first, has_cut_line; [discriminate| |exact Hp].
               destruct He as (_ & _ & _ & Hrows & _). rewrite Forall_forall in Hrows.
               apply (row_no_hash fmt attrs), Hrows, nth_In, Hrow. }
             rewrite HN by (unfold file; discriminate). exact I.
          -- (* the footer line *)
             assert (k'' = List.length (e_rows e)) by lia. subst k''.
             rewrite app_nth2 in * by lia. rewrite Nat.sub_diag in *. cbn [nth] in *.
             rewrite firstn_app, firstn_all, Nat.sub_diag. cbn [firstn]. rewrite app_nil_r.
             pose proof (foot_partial d fmt attrs pre e lt' tail j p Hhdr Hpre He Hfoot Hclt' Hvlt' (conj Hj (conj Hp Hp0))) as HF.
             rewrite <- app_assoc. cbn [app].
             destruct (LOADN _ SelAll) as [r|]; [|exact I]. cbn [postc] in HF. destruct HF as (Hpos & ->).
             exists (S (List.length pre)). split; [rewrite app_length; cbn [List.length]; lia|].
             split; [|split].
             ++ unfold same_data, foot_result, loaded_upto, expected, truncd. cbn [l_events l_nevents l_counts l_format l_attrs d_events].
                rewrite Hsplit, firstn_pre1. rewrite map_app, app_length, counts_from_app. cbn [map List.length counts_from Nat.add].
                repeat split. f_equal. lia.
             ++ unfold oscar_cut_position, lines_before_end_of_event. rewrite Hsplit, firstn_pre1, render_events_app.
                split; [|exact Hpos]. rewrite app_length.
                change (render_events [e]) with (render_event e ++ [])%list. rewrite app_nil_r.
                unfold render_event. cbn [List.length]. rewrite app_length. cbn [List.length]. lia.
             ++ unfold oscar_cut_footers, foot_result, loaded_upto. cbn [l_footers]. unfold render.
                replace (S (List.length pre) - 1)%nat with (List.length pre) by lia. rewrite Hsplit, firstn_pre.
                replace (nth (S (S (S (List.length (render_events pre) + S (List.length (e_rows e))))))
                             (d_h1 d :: d_h2 d :: d_h3 d :: render_events (pre ++ e :: post)) [])
                  with (e_foot e); [reflexivity|].
                cbn [nth]. rewrite nth_locate.
                ** unfold render_event. cbn [nth]. rewrite app_nth2 by lia. rewrite Nat.sub_diag. reflexivity.
                ** unfold render_event. cbn [List.length]. rewrite app_length. cbn [List.length]. lia.
    - (* the cut falls on a line boundary *)
      cbn [List.length] in Hn.
      destruct n as [|[|[|k]]].
      + exact I.
      + cbn [firstn]. destruct (load_last_no_event (d_h1 d) [] fmt attrs Hfmt Hstd Hn1) as (-> & _). exact I.
      + cbn [firstn]. destruct (load_last_no_event (d_h1 d) [d_h2 d] fmt attrs Hfmt Hstd Hn2) as (-> & _). exact I.
      + cbn [firstn].
        destruct (Nat.eq_dec k (List.length (render_events (d_events d)))) as [->|Hneq].
        * (* the whole file *)
          rewrite firstn_all.
          assert (Hm : (1 <= List.length (d_events d) <= List.length (d_events d))%nat).
          { destruct (d_events d); [congruence|cbn; lia]. }
          pose proof (Hboundary _ _ Hm eq_refl) as HB. rewrite firstn_all in HB. exact HB.
        * assert (Hk : (k < List.length (render_events (d_events d)))%nat) by lia.
          destruct (locate _ k Hk) as (pre & e & post & k' & Hsplit & -> & Hk').
          rewrite Hsplit in *. rewrite firstn_locate by lia.
          destruct (wf_events_app_inv fmt attrs pre e post 0 Hev) as (Hpre & He). cbn [Nat.add] in He.
          pose proof (shape_events_app_inv pre e post 0 Hshape) as Hse. cbn [Nat.add] in Hse.
          destruct Hse as ((lt & ct & Hhead & Hclt & Hvlt & Hcct) & _).
          destruct k' as [|k''].
          -- cbn [firstn]. rewrite app_nil_r, Nat.add_0_r.
             destruct pre as [|e0 pre'] eqn:Epre.
             ++ cbn [render_events flat_map]. destruct (load_last_no_event (d_h1 d) [d_h2 d; d_h3 d] fmt attrs Hfmt Hstd Hn3) as (-> & _). exact I.
             ++ rewrite <- Epre in *.
                assert (Hm : (1 <= List.length pre <= List.length (pre ++ e :: post))%nat).
                { rewrite app_length, Epre. cbn [List.length]. lia. }
                pose proof (Hboundary _ _ Hm eq_refl) as HB. rewrite firstn_pre in HB. exact HB.
          -- unfold render_event. rewrite firstn_cons.
             destruct k'' as [|k3].
             ++ (* right after the event header line *)
                cbn [firstn].
                rewrite (cut_after_header tok_float tok_int pdg_valid d fmt attrs pre (e_head e) (List.length (e_rows e)) Hhdr Hpre); [exact I| | | | |].
                ** destruct He as (A & _). exact A.
                ** destruct He as (_ & A & _). exact A.
                ** destruct He as (_ & _ & A & _). exact A.
                ** rewrite Hhead. reflexivity.
                ** rewrite Hhead. reflexivity.
             ++ (* after a particle line *)
                unfold render_event in Hk'. cbn [List.length] in Hk'. rewrite app_length in Hk'. cbn [List.length] in Hk'.
                rewrite firstn_app. replace (S k3 - List.length (e_rows e))%nat with 0%nat by lia.
                rewrite firstn_O, app_nil_r.
                assert (Hfr : firstn (S k3) (e_rows e) = (firstn k3 (e_rows e) ++ [nth k3 (e_rows e) []])%list).
                { clear -Hk'. assert (Hlt : (k3 < List.length (e_rows e))%nat) by lia. revert Hlt. generalize (e_rows e). clear.
                  induction k3 as [|k IH]; intros [|x l] H; cbn in H; try lia; [reflexivity|].
                  cbn [firstn nth app]. rewrite <- IH by lia. reflexivity. }
                rewrite Hfr.
                set (file := (d_h1 d :: d_h2 d :: d_h3 d :: render_events pre ++ e_head e :: firstn k3 (e_rows e) ++ [nth k3 (e_rows e) []])%list).
                destruct (last_line_not_comment tok_float tok_int pdg_valid file (d_h1 d) _ fmt attrs eq_refl Hfmt Hstd) as (HL & _).
                { unfold file.
                  change (d_h1 d :: d_h2 d :: d_h3 d :: render_events pre ++ e_head e :: firstn k3 (e_rows e) ++ [nth k3 (e_rows e) []])%list
                    with ((d_h1 d :: d_h2 d :: d_h3 d :: render_events pre) ++ (e_head e :: firstn k3 (e_rows e)) ++ [nth k3 (e_rows e) []])%list.
                  rewrite app_assoc, last_last.
                  apply no_hash_first.
                  destruct He as (_ & _ & _ & Hrows & _). rewrite Forall_forall in Hrows.
                  apply (row_no_hash fmt attrs), Hrows, nth_In. lia. }
                rewrite HL. exact I.
  Qed.
End P.

(* C13 source tie: the hand model Model/PtCorr.v EQUALS the methods regenerated from
   src/sparkx/MultiParticlePtCorrelations.py (Gen/GenPtCorrMethods.v, translator tools/py2coq/gen_ptcorr_methods.py,
   runtime Model/PtCorrRt.v) on the domain the hand model is claimed for:

     max_order in 1..8 (what __init__ accepts), particles with a finite pT_abs() and a finite or NaN weight (the hand
     model's particle type), at least one event, any commutative ring K with a division and a zero test.

   The regenerated functions are the method bodies statement by statement (array allocation, the two nested loops of
   _P_W_k with the in-place change of a NaN weight, the order chain, the appends, np.array, the column / slice /
   interleaving surgery, the event sums, the divisions, the attribute updates, the returned tuple).  Their particles
   argument comes back as a result because `particle.weight = 1.0` changes the caller's objects: the theorems say it
   is [map norm].  The Jackknife class is a pair of universally quantified functions. *)
From Coq Require Import String List ZArith QArith Bool Arith Lia Ring Ring_theory.
From SX Require Import Lib.Py Lib.KRing Gen.GenPtCorr Model.PtCorr Model.PtCorrRt Gen.GenPtCorrMethods.
Import ListNotations.
Local Open Scope nat_scope.

(* ---------------------------------------------------------------- generic: the monad and the loops *)
Lemma for_mut_abs {S T A} (f : S -> A -> result (S * A)) (rep : T -> S) (g : T -> A -> T) (h : A -> A) :
  (forall t a, f (rep t) a = Ok (rep (g t a), h a)) ->
  forall l t, for_mut f l (rep t) = Ok (rep (fold_left g l t), map h l).
Proof.
  intros H. induction l as [|a l IH]; intros t; cbn [for_mut fold_left map]; [reflexivity|].
  rewrite H. cbn [bind rbind fst snd]. rewrite IH. reflexivity.
Qed.

Lemma fold_leftM_app {S A} (f : S -> A -> result S) l1 l2 s :
  fold_leftM f (l1 ++ l2) s = bind (fold_leftM f l1 s) (fun s' => fold_leftM f l2 s').
Proof.
  revert s. induction l1 as [|a l1 IH]; intros s; cbn [fold_leftM app]; [reflexivity|].
  destruct (f s a) as [s'|e]; cbn [bind rbind]; [apply IH | reflexivity].
Qed.

Lemma py_range_nat n : py_range (Z.of_nat n) = map Z.of_nat (seq 0 n).
Proof. unfold py_range. now rewrite Nat2Z.id. Qed.

(* a loop over range(n) with an invariant indexed by the number of iterations done *)
Lemma range_inv {S} (f : S -> Z -> result S) (I : nat -> S -> Prop) n s0 :
  I 0 s0 ->
  (forall c s, c < n -> I c s -> exists s', f s (Z.of_nat c) = Ok s' /\ I (Datatypes.S c) s') ->
  exists s', fold_leftM f (py_range (Z.of_nat n)) s0 = Ok s' /\ I n s'.
Proof.
  intros H0 Hs. rewrite py_range_nat.
  assert (G : forall m, m <= n -> exists s', fold_leftM f (map Z.of_nat (seq 0 m)) s0 = Ok s' /\ I m s').
  { induction m as [|m IH]; intros Hm.
    - exists s0. split; [reflexivity | exact H0].
    - destruct IH as (s1 & E1 & I1); [lia|].
      destruct (Hs m s1) as (s2 & E2 & I2); [lia | exact I1 |].
      exists s2. split; [|exact I2].
      rewrite seq_S, map_app, fold_leftM_app, E1. cbn [bind rbind map fold_leftM plus]. rewrite E2. reflexivity. }
  apply G. lia.
Qed.

Lemma pyget_nat {A} (l : list A) i :
  pyget l (Z.of_nat i) = match nth_error l i with Some a => Ok a | None => Err IndexError end.
Proof.
  unfold pyget. destruct (Z.of_nat i <? 0)%Z eqn:E; [apply Z.ltb_lt in E; lia|].
  rewrite E, Nat2Z.id. reflexivity.
Qed.

(* `for i in range(len(l))` whose body reads l[i] only: a structural recursion *)
Lemma range_loop_gen {St A} (body : St -> A -> result St) (f : St -> Z -> result St) (l : list A) :
  (forall s i a, nth_error l i = Some a -> f s (Z.of_nat i) = body s a) ->
  forall rest pre s, l = pre ++ rest ->
  fold_leftM f (map Z.of_nat (seq (length pre) (length rest))) s = fold_leftM body rest s.
Proof.
  intros H. induction rest as [|a t IH]; intros pre s E; cbn [length seq map fold_leftM]; [reflexivity|].
  rewrite (H s (length pre) a).
  2:{ rewrite E, nth_error_app2, Nat.sub_diag by lia. reflexivity. }
  destruct (body s a) as [s'|c]; cbn [bind rbind]; [|reflexivity].
  specialize (IH (pre ++ [a]) s'). rewrite app_length in IH. cbn [length] in IH. rewrite Nat.add_1_r in IH.
  apply IH. rewrite <- app_assoc. exact E.
Qed.

Lemma range_loop {St A} (body : St -> A -> result St) (f : St -> Z -> result St) (l : list A) s :
  (forall s i a, nth_error l i = Some a -> f s (Z.of_nat i) = body s a) ->
  fold_leftM f (py_range (py_len l)) s = fold_leftM body l s.
Proof.
  intros H. unfold py_len. rewrite py_range_nat. exact (range_loop_gen body f l H l [] s eq_refl).
Qed.

Lemma map_constant {A B} (x : B) (l : list A) : map (fun _ => x) l = repeat x (length l).
Proof. induction l as [|a l IH]; cbn; [reflexivity | now rewrite IH]. Qed.

Lemma cases_1_8 n : 1 <= n <= 8 -> n = 1 \/ n = 2 \/ n = 3 \/ n = 4 \/ n = 5 \/ n = 6 \/ n = 7 \/ n = 8.
Proof. lia. Qed.

Section Source.
  Variable K : Type.
  Variables (k0 k1 : K) (kadd kmul ksub : K -> K -> K) (kopp : K -> K).
  Hypothesis Kth : ring_theory k0 k1 kadd kmul ksub kopp (@eq K).
  Add Ring KringSrc : Kth.
  Variable kdiv : K -> K -> K.
  Variable kis0 : K -> bool.
  Variable junk : F K.
  Variable JK : Type.
  Variable jk_new : pyval -> pyval -> pyval -> result JK.
  Variable jk_estimate : JK -> nd K -> (nd K -> result (scalar K)) -> result (scalar K).

  (* the hand model *)
  Notation particle := (particle K).
  Notation wgt := (wgt K k1).
  Notation wpt := (wpt K k1 kmul).
  Notation mPk := (Pk K k0 k1 kadd kmul).
  Notation mWk := (Wk K k0 k1 kadd kmul).
  Notation mN := (N_event K k0 k1 kadd kmul ksub kopp).
  Notation mD := (D_event K k0 k1 kadd kmul ksub kopp).
  Notation mosum := (osum K k0 kadd).
  Notation mcorr := (corr K k0 k1 kadd kmul ksub kopp kdiv kis0).
  Notation mkappa := (kappa K k0 k1 kadd kmul ksub kopp kdiv kis0).
  (* the regenerated methods *)
  Notation g_init := (gen___init__ K).
  Notation g_PWk := (gen__P_W_k K k0 k1 kadd kmul kopp kdiv kis0).
  Notation g_event := (gen__transverse_momentum_correlations_event_num_denom K k0 k1 kadd kmul ksub kopp kdiv kis0).
  Notation g_all := (gen__compute_numerator_denominator_all_events K k0 k1 kadd kmul ksub kopp kdiv kis0).
  Notation g_ratio := (gen__compute_mean_pT_correlations K k0 k1 kadd kmul kopp kdiv kis0).
  Notation g_corr := (gen_mean_pT_correlations K k0 k1 kadd kmul ksub kopp kdiv kis0 JK jk_new jk_estimate).
  Notation g_kappa_poly := (gen__kappa_cumulant K k0 k1 kadd kmul ksub kopp).
  Notation g_cum := (gen__compute_mean_pT_cumulants K k0 k1 kadd kmul ksub kopp kdiv kis0).
  Notation g_kappa := (gen_mean_pT_cumulants K k0 k1 kadd kmul ksub kopp kdiv kis0 junk JK jk_new jk_estimate).

  Notation F := (F K).
  Notation pw := (kpow k1 kmul).

  (* what `if np.isnan(particle.weight): particle.weight = 1.0` leaves behind in the caller's particle *)
  Definition norm (p : particle) : particle := (fst p, Some (wgt p)).
  (* a 1-D float array with finite entries *)
  Definition vec (f : nat -> K) (n : nat) : list F := map (fun i => Some (f i)) (seq 0 n).
  (* one row of N_events / D_events *)
  Definition rowN (n : nat) (ev : list particle) : list F := map (fun c => mN c ev) (seq 0 n).
  Definition rowD (n : nat) (ev : list particle) : list F := map (fun c => mD c ev) (seq 0 n).

  Lemma vec_ext f g n : (forall i, f i = g i) -> vec f n = vec g n.
  Proof. intros H. unfold vec. apply map_ext. intros i. now rewrite H. Qed.

  Lemma np_zeros_nat n : np_zeros k0 (Z.of_nat n) = Ok (repeat (f0 k0) n).
  Proof.
    unfold np_zeros. destruct (Z.of_nat n <? 0)%Z eqn:E; [apply Z.ltb_lt in E; lia|]. now rewrite Nat2Z.id.
  Qed.

  (* ---------------------------------------------------------------- __init__ *)
  Theorem source___init__ (mo : Z) :
    g_init mo = if ((mo <? 1) || (8 <? mo))%Z then Err ValueError
                else Ok (MkObj mo ANone ANone ANone ANone SNone SNone AUnset AUnset).
  Proof. reflexivity. Qed.

  (* ---------------------------------------------------------------- _P_W_k *)
  Definition step_pw (t : (nat -> K) * (nat -> K)) (p : particle) : (nat -> K) * (nat -> K) :=
    (fun i => kadd (fst t i) (pw (wpt p) (Datatypes.S i)), fun i => kadd (snd t i) (pw (wgt p) (Datatypes.S i))).
  Definition rep_pw (n : nat) (t : (nat -> K) * (nat -> K)) : list F * list F := (vec (fst t) n, vec (snd t) n).

  Lemma step_pw_sum ev : forall t i,
    fst (fold_left step_pw ev t) i = kadd (fst t i) (mPk ev i) /\
    snd (fold_left step_pw ev t) i = kadd (snd t i) (mWk ev i).
  Proof.
    unfold Pk, Wk, psum.
    induction ev as [|p ev IH]; intros t i; cbn [fold_left map ksum].
    - split; ring.
    - destruct (IH (step_pw t p) i) as [E1 E2]. rewrite E1, E2. cbn [step_pw fst snd]. split; ring.
  Qed.

  Theorem source__P_W_k (self : obj K) (ev : list particle) (n : nat) :
    o_max_order self = Z.of_nat n -> 1 <= n <= 8 ->
    g_PWk self ev = Ok ((vec (mPk ev) n, vec (mWk ev) n), map norm ev).
  Proof.
    intros Hmo Hn. unfold gen__P_W_k. rewrite Hmo.
    assert (Hb : forall f, (forall t p, f (rep_pw n t) p = Ok (rep_pw n (step_pw t p), norm p)) ->
                 for_mut f ev (repeat (f0 k0) n, repeat (f0 k0) n)
                 = Ok (rep_pw n (fold_left step_pw ev (fun _ => k0, fun _ => k0)), map norm ev)).
    { intros f Hf. rewrite <- (for_mut_abs f (rep_pw n) step_pw norm Hf ev).
      f_equal. unfold rep_pw, vec. cbn [fst snd]. rewrite !map_constant, seq_length. reflexivity. }
    rewrite np_zeros_nat. cbn [bind rbind]. rewrite Hb.
    - cbn [bind rbind fst snd rep_pw]. do 2 f_equal. f_equal; apply vec_ext; intros i.
      + rewrite (proj1 (step_pw_sum ev _ i)). cbn [fst]. ring.
      + rewrite (proj2 (step_pw_sum ev _ i)). cbn [snd]. ring.
    - clear Hb. intros [pa wa] [pt w].
      destruct (cases_1_8 n Hn) as [->|[->|[->|[->|[->|[->|[->| ->]]]]]]]; destruct w; reflexivity.
  Qed.

  (* the particles are left alone only when the loops do not run; a negative max_order cannot allocate *)
  Theorem source__P_W_k_degenerate (self : obj K) (ev : list particle) :
    (o_max_order self = 0%Z -> g_PWk self ev = Ok (([], []), ev)) /\
    ((o_max_order self < 0)%Z -> g_PWk self ev = Err ValueError).
  Proof.
    split; intros H; unfold gen__P_W_k.
    - rewrite H. cbn [np_zeros Z.ltb Z.compare Z.to_nat repeat bind rbind py_range seq map fold_leftM].
      match goal with |- context [for_mut ?f ev ?s] =>
        rewrite (for_mut_abs f (fun _ : unit => s) (fun t _ => t) (fun p => p) (fun _ _ => eq_refl) ev tt) end.
      cbn [bind rbind fst snd]. now rewrite map_id.
    - unfold np_zeros. apply Z.ltb_lt in H. rewrite H. reflexivity.
  Qed.

  (* ---------------------------------------------------------------- _transverse_momentum_correlations_event_num_denom *)
  (* the object after rows were appended *)
  Definition push (self : obj K) (rn rd : list (list F)) : obj K :=
    set_D_events (set_N_events self (SList rn)) (SList rd).

  Lemma push_push self a b c d : push (push self a b) c d = push self c d.
  Proof. reflexivity. Qed.
  Lemma push_same self rn rd : o_N_events self = SList rn -> o_D_events self = SList rd -> push self rn rd = self.
  Proof. destruct self. cbn. intros -> ->. reflexivity. Qed.

  Theorem source__event (self : obj K) (ev : list particle) (n : nat) (rn rd : list (list F)) :
    o_max_order self = Z.of_nat n -> 1 <= n <= 8 ->
    o_N_events self = SList rn -> o_D_events self = SList rd ->
    g_event self ev = Ok (push self (rn ++ [rowN n ev]) (rd ++ [rowD n ev]), map norm ev).
  Proof.
    intros Hmo Hn HN HD. unfold gen__transverse_momentum_correlations_event_num_denom.
    rewrite (source__P_W_k self ev n Hmo Hn). cbn [bind rbind].
    rewrite Hmo, np_zeros_nat. cbn [bind rbind].
    unfold rowN, rowD, N_event, D_event. generalize (mPk ev) (mWk ev). intros P W.
    destruct self. cbn in Hmo, HN, HD. subst.
    destruct (cases_1_8 n Hn) as [->|[->|[->|[->|[->|[->|[->| ->]]]]]]]; vm_compute; reflexivity.
  Qed.

  (* called on an object whose N_events is not a list (fresh from __init__: None; after a public method: an array) *)
  Theorem source__event_no_list (self : obj K) (ev : list particle) (n : nat) :
    o_max_order self = Z.of_nat n -> 1 <= n <= 8 ->
    (forall r, o_N_events self <> SList r) -> g_event self ev = Err AttributeError.
  Proof.
    intros Hmo Hn HN. unfold gen__transverse_momentum_correlations_event_num_denom.
    rewrite (source__P_W_k self ev n Hmo Hn). cbn [bind rbind].
    rewrite Hmo, np_zeros_nat. cbn [bind rbind].
    generalize (mPk ev) (mWk ev). intros P W.
    destruct self as [mo a1 a2 a3 a4 sn sd a5 a6]. cbn in Hmo, HN. subst.
    destruct sn as [| |r|a|]; try (exfalso; exact (HN r eq_refl));
      destruct (cases_1_8 n Hn) as [->|[->|[->|[->|[->|[->|[->| ->]]]]]]]; vm_compute; reflexivity.
  Qed.

  (* ---------------------------------------------------------------- _compute_numerator_denominator_all_events *)
  Lemma fold_rows n evs : forall rn rd,
    fold_left (fun (t : list (list F) * list (list F)) ev => (fst t ++ [rowN n ev], snd t ++ [rowD n ev])) evs (rn, rd)
    = (rn ++ map (rowN n) evs, rd ++ map (rowD n) evs).
  Proof.
    induction evs as [|ev evs IH]; intros rn rd; cbn [fold_left map fst snd].
    - now rewrite !app_nil_r.
    - rewrite IH, <- !app_assoc. reflexivity.
  Qed.

  Theorem source__all_events (self : obj K) (evs : list (list particle)) (n : nat) (rn rd : list (list F)) :
    o_max_order self = Z.of_nat n -> 1 <= n <= 8 ->
    o_N_events self = SList rn -> o_D_events self = SList rd ->
    g_all self evs = Ok (push self (rn ++ map (rowN n) evs) (rd ++ map (rowD n) evs), map (map norm) evs).
  Proof.
    intros Hmo Hn HN HD. unfold gen__compute_numerator_denominator_all_events.
    rewrite <- (push_same self rn rd HN HD) at 1.
    match goal with |- context [for_mut ?f evs _] =>
      rewrite (for_mut_abs f (fun t => push self (fst t) (snd t))
                 (fun t ev => (fst t ++ [rowN n ev], snd t ++ [rowD n ev])) (map norm)) with (t := (rn, rd)) end.
    - cbn [bind rbind fst snd]. rewrite fold_rows. reflexivity.
    - intros [a b] ev. cbn [fst snd].
      rewrite (source__event (push self a b) ev n a b); [reflexivity | | exact Hn | reflexivity | reflexivity].
      destruct self; exact Hmo.
  Qed.

  (* ---------------------------------------------------------------- _compute_mean_pT_correlations *)
  (* the ratio of the two event sums: non-finite when a sum is, or when the denominator vanishes *)
  Definition ratio (on od : option K) : F :=
    match on, od with Some a, Some d => if kis0 d then None else Some (kdiv a d) | _, _ => None end.

  Lemma corr_ratio c evs : mcorr c evs = ratio (mosum (map (mN c) evs)) (mosum (map (mD c) evs)).
  Proof. unfold corr, corr_pair, ratio. destruct (mosum (map (mN c) evs)), (mosum (map (mD c) evs)); reflexivity. Qed.

  Lemma fold_fadd_none l : fold_left (fadd kadd) l None = None.
  Proof. induction l as [|x l IH]; cbn; [reflexivity | exact IH]. Qed.

  Lemma fold_fadd l : forall a,
    fold_left (fadd kadd) l (Some a) = match mosum l with Some s => Some (kadd a s) | None => None end.
  Proof.
    induction l as [|x l IH]; intros a; cbn [fold_left osum].
    - f_equal. ring.
    - destruct x as [x|]; cbn [fadd flift2].
      + rewrite IH. destruct (mosum l); [f_equal; ring | reflexivity].
      + apply fold_fadd_none.
  Qed.

  Lemma fdiv_sums (l1 l2 : list F) :
    fdiv kdiv kis0 (fold_left (fadd kadd) l1 (Some k0)) (fold_left (fadd kadd) l2 (Some k0)) = ratio (mosum l1) (mosum l2).
  Proof.
    rewrite !fold_fadd. unfold ratio, fdiv. destruct (mosum l1) as [a|], (mosum l2) as [d|]; try reflexivity.
    replace (kadd k0 a) with a by ring. replace (kadd k0 d) with d by ring. reflexivity.
  Qed.

  (* a sum started at the Python float 0.0 becomes a numpy scalar with the first array element added *)
  Definition tag {A} (l : list A) (x : F) : scalar K := match l with [] => PyF x | _ => NpF x end.

  Definition sum2_body (a b : nat) (s : scalar K * scalar K) (r : list F) : result (scalar K * scalar K) :=
    Ok (sadd kadd (fst s) (NpF (nth a r None)), sadd kadd (snd s) (NpF (nth b r None))).

  Lemma sadd_np s x : sadd kadd s (NpF x) = NpF (fadd kadd (sval s) x).
  Proof. destruct s; reflexivity. Qed.

  Lemma sum2_struct a b data : forall s1 s2,
    fold_leftM (sum2_body a b) data (s1, s2)
    = Ok (match data with [] => s1 | _ => NpF (fold_left (fadd kadd) (map (fun r => nth a r None) data) (sval s1)) end,
          match data with [] => s2 | _ => NpF (fold_left (fadd kadd) (map (fun r => nth b r None) data) (sval s2)) end).
  Proof.
    induction data as [|r data IH]; intros s1 s2; [reflexivity|].
    cbn [fold_leftM sum2_body fst snd bind rbind]. rewrite IH, !sadd_np.
    destruct data; reflexivity.
  Qed.

  Lemma sum2_loop (f : scalar K * scalar K -> Z -> result (scalar K * scalar K)) (data : nd K) (za zb : Z) (a b : nat) :
    za = Z.of_nat a -> zb = Z.of_nat b ->
    (forall s1 s2 i, f (s1, s2) i
       = bind (bind (nd_get data i za) (fun t => Ok (sadd kadd s1 t))) (fun s1' =>
         bind (bind (nd_get data i zb) (fun t => Ok (sadd kadd s2 t))) (fun s2' => Ok (s1', s2')))) ->
    (forall r, In r data -> a < length r /\ b < length r) ->
    fold_leftM f (py_range (nd_shape0 data)) (PyF (Some k0), PyF (Some k0))
    = Ok (tag data (fold_left (fadd kadd) (map (fun r => nth a r None) data) (Some k0)),
          tag data (fold_left (fadd kadd) (map (fun r => nth b r None) data) (Some k0))).
  Proof.
    intros -> -> Hf Hlen. unfold nd_shape0.
    rewrite (range_loop (sum2_body a b) f data).
    - rewrite sum2_struct. destruct data; reflexivity.
    - intros [s1 s2] i r Hr. rewrite Hf. unfold nd_get. rewrite pyget_nat, Hr. cbn [bind rbind].
      destruct (Hlen r (nth_error_In _ _ Hr)) as [Ha Hb].
      rewrite !pyget_nat, (nth_error_nth' r None Ha), (nth_error_nth' r None Hb). reflexivity.
  Qed.

  Theorem source__compute_mean_pT_correlations {A} (self : obj K) (fn fd : A -> F) (l : list A) :
    l <> [] ->
    g_ratio self (map (fun a => [fn a; fd a]) l) = Ok (NpF (ratio (mosum (map fn l)) (mosum (map fd l)))).
  Proof.
    intros Hl. unfold gen__compute_mean_pT_correlations.
    change (flit k0 k1 kadd kmul kopp 0) with (Some k0).
    erewrite (sum2_loop _ _ 0%Z 1%Z 0 1 eq_refl eq_refl).
    - cbn [bind rbind]. destruct l as [|x l]; [contradiction|]. cbn [map tag sdiv sval].
      rewrite fdiv_sums. cbn [bind rbind]. rewrite !map_map. cbn [nth]. reflexivity.
    - intros; reflexivity.
    - intros r Hr. apply in_map_iff in Hr. destruct Hr as (x & <- & _). cbn. lia.
  Qed.

  (* no rows: both sums are still the Python float 0.0 (the hand model says "non-finite" here) *)
  Theorem source__compute_mean_pT_correlations_no_rows (self : obj K) :
    kis0 k0 = true -> g_ratio self [] = Err ZeroDivisionError.
  Proof. intros H0. unfold gen__compute_mean_pT_correlations. cbn. rewrite H0. reflexivity. Qed.

  (* ---------------------------------------------------------------- arrays *)
  Lemma nth_error_seq0 n c : c < n -> nth_error (seq 0 n) c = Some c.
  Proof.
    intros H. rewrite (nth_error_nth' _ 0) by (rewrite seq_length; lia). now rewrite seq_nth by lia.
  Qed.

  Lemma nth_error_map_seq {B} (f : nat -> B) n c : c < n -> nth_error (map f (seq 0 n)) c = Some (f c).
  Proof. intros H. now rewrite nth_error_map, nth_error_seq0. Qed.

  Lemma col_of_rows {A} (row : A -> list F) (x : A -> F) c l :
    (forall a, nth_error (row a) c = Some (x a)) -> col_of (map row l) (Z.of_nat c) = Ok (map x l).
  Proof.
    intros H. induction l as [|a l IH]; cbn [map col_of]; [reflexivity|].
    rewrite pyget_nat, H, IH. reflexivity.
  Qed.

  Lemma store_col_rows {A} (row : A -> list F) (x : A -> F) c l :
    l <> [] -> (forall a, nth_error (row a) c = Some (x a)) -> store_col (SArr (map row l)) (Z.of_nat c) = Ok (map x l).
  Proof.
    intros Hl H. destruct l as [|a l]; [contradiction|]. exact (col_of_rows row x c (a :: l) H).
  Qed.

  Lemma rect_rows {A} (row : A -> list F) n l : (forall a, length (row a) = n) -> rect (map row l) = true.
  Proof.
    intros H. destruct l as [|a l]; [reflexivity|]. cbn [map rect]. apply forallb_forall.
    intros r Hr. apply in_map_iff in Hr. destruct Hr as (b & <- & _). rewrite !H. apply Nat.eqb_refl.
  Qed.

  Lemma nd_T_two {A} (f g : A -> F) (l : list A) : nd_T [map f l; map g l] = map (fun a => [f a; g a]) l.
  Proof.
    unfold nd_T. rewrite map_length.
    induction l as [|a l IH]; [reflexivity|].
    cbn [length seq map nth]. f_equal. rewrite <- seq_shift, map_map. exact IH.
  Qed.

  Lemma set_nth_app (l1 : list F) y l2 v : set_nth (l1 ++ y :: l2) (length l1) v = l1 ++ v :: l2.
  Proof. induction l1 as [|a l1 IH]; cbn; [reflexivity | now rewrite IH]. Qed.

  Lemma set_nth_at (l1 : list F) y l2 v i : i = length l1 -> set_nth (l1 ++ y :: l2) i v = l1 ++ v :: l2.
  Proof. intros ->. apply set_nth_app. Qed.

  (* an array that the loop over range(n) has filled up to index c *)
  Definition fillarr (x : nat -> F) (z : F) (n c : nat) : list F := map x (seq 0 c) ++ repeat z (n - c).

  Lemma fillarr_0 x z n : fillarr x z n 0 = repeat z n.
  Proof. unfold fillarr. cbn [seq map app]. now rewrite Nat.sub_0_r. Qed.
  Lemma fillarr_n x z n : fillarr x z n n = map x (seq 0 n).
  Proof. unfold fillarr. rewrite Nat.sub_diag. cbn [repeat]. apply app_nil_r. Qed.

  Lemma arr_set_fill (x : nat -> F) (z : F) n c (s : scalar K) : c < n -> sval s = x c ->
    arr_set (fillarr x z n c) (Z.of_nat c) s = Ok (fillarr x z n (Datatypes.S c)).
  Proof.
    intros Hc Hs. unfold arr_set, py_len, fillarr.
    rewrite app_length, map_length, seq_length, repeat_length.
    destruct (Z.of_nat c <? 0)%Z eqn:E1; [apply Z.ltb_lt in E1; lia|]. rewrite E1.
    destruct (Z.of_nat (c + (n - c)) <=? Z.of_nat c)%Z eqn:E2; [apply Z.leb_le in E2; lia|].
    cbn [orb]. rewrite Nat2Z.id, Hs. replace (n - c) with (Datatypes.S (n - Datatypes.S c)) by lia. cbn [repeat].
    rewrite (set_nth_at (map x (seq 0 c))) by now rewrite map_length, seq_length.
    rewrite seq_S, map_app, <- app_assoc. reflexivity.
  Qed.

  (* ---------------------------------------------------------------- the arguments of the public methods *)
  (* accepted: compute_error a bool, delete_fraction a float in (0, 1), number_samples an int > 0, seed an int
     (True / False count as ints, as isinstance does) *)
  Definition valid_args (ce df ns seed : pyval) (b : bool) : Prop :=
    ce = PBool b /\ (exists q, df = PFloat (FQ q) /\ (0 < q)%Q /\ (q < 1)%Q) /\
    (exists z, py_as_int ns = Some z /\ (0 < z)%Z) /\ (exists z, py_as_int seed = Some z).
  (* rejected, in the order of the checks *)
  Definition rejected (ce df ns seed : pyval) : option errcls :=
    match py_as_float df with
    | None => Some TypeError
    | Some x =>
      if negb (fq_ltb (FQ 0) x && fq_ltb x (FQ 1)) then Some ValueError else
      match py_as_int ns with
      | None => Some TypeError
      | Some z =>
        if negb (0 <? z)%Z then Some ValueError else
        match py_as_int seed with
        | None => Some TypeError
        | Some _ => match py_as_bool ce with None => Some TypeError | Some _ => None end
        end
      end
    end.

  Lemma valid_not_rejected ce df ns seed b : valid_args ce df ns seed b -> rejected ce df ns seed = None.
  Proof.
    intros (-> & (q & -> & Hq0 & Hq1) & (z & Hz & Hz0) & (z' & Hz')). unfold rejected.
    cbn [py_as_float py_as_bool fq_ltb]. rewrite Hz, Hz'.
    destruct (Qle_bool q 0) eqn:E1; [apply Qle_bool_iff in E1; exfalso; exact (Qlt_not_le _ _ Hq0 E1)|].
    destruct (Qle_bool 1 q) eqn:E2; [apply Qle_bool_iff in E2; exfalso; exact (Qlt_not_le _ _ Hq1 E2)|].
    cbn [negb andb]. apply Z.ltb_lt in Hz0. rewrite Hz0. reflexivity.
  Qed.

  (* ---------------------------------------------------------------- mean_pT_correlations *)
  (* self after `self.N_events = np.array(self.N_events)` / D_events *)
  Definition with_arrays (self : obj K) (n : nat) (evs : list (list particle)) : obj K :=
    set_D_events (set_N_events self (SArr (map (rowN n) evs))) (SArr (map (rowD n) evs)).
  (* the (numerator, denominator) array of order index c *)
  Definition nd_pairs (c : nat) (evs : list (list particle)) : nd K := map (fun ev => [mN c ev; mD c ev]) evs.
  Definition corrs (n : nat) (evs : list (list particle)) : list F := map (fun c => mcorr c evs) (seq 0 n).
  Definition errvals (errs : nat -> scalar K) (n : nat) : list F := map (fun c => sval (errs c)) (seq 0 n).

  Lemma rejected_corr self evs ce df ns seed e :
    rejected ce df ns seed = Some e -> g_corr self evs ce df ns seed = Err e.
  Proof.
    unfold rejected, gen_mean_pT_correlations.
    destruct (py_as_float df) as [x|]; [|now intros [= <-]].
    change (FQ (0 # 1)) with (FQ 0). change (FQ (1 # 1)) with (FQ 1).
    destruct (negb (fq_ltb (FQ 0) x && fq_ltb x (FQ 1))); [now intros [= <-]|].
    destruct (py_as_int ns) as [z|]; [|now intros [= <-]].
    destruct (negb (0 <? z)%Z); [now intros [= <-]|].
    destruct (py_as_int seed) as [z'|]; [|now intros [= <-]].
    destruct (py_as_bool ce) as [b|]; [discriminate | now intros [= <-]].
  Qed.

  Lemma rowN_length n ev : length (rowN n ev) = n.
  Proof. unfold rowN. now rewrite map_length, seq_length. Qed.
  Lemma rowD_length n ev : length (rowD n ev) = n.
  Proof. unfold rowD. now rewrite map_length, seq_length. Qed.

  Theorem source_mean_pT_correlations (self : obj K) (evs : list (list particle)) (n : nat)
      (ce df ns seed : pyval) (b : bool) (errs : nat -> scalar K) :
    o_max_order self = Z.of_nat n -> 1 <= n <= 8 -> evs <> [] -> valid_args ce df ns seed b ->
    (b = true -> forall c, c < n ->
       bind (jk_new df ns seed)
            (fun jk => jk_estimate jk (nd_pairs c evs) (fun a => g_ratio (with_arrays self n evs) a)) = Ok (errs c)) ->
    g_corr self evs ce df ns seed
    = Ok (if b then RetPair (corrs n evs) (errvals errs n) else RetArr (corrs n evs),
          (let s := set_mean_pT_correlation (with_arrays self n evs) (AArr (corrs n evs)) in
           if b then set_mean_pT_correlation_error s (AArr (errvals errs n)) else s),
          map (map norm) evs).
  Proof.
    intros Hmo Hn Hev Hargs Hjk.
    pose proof (valid_not_rejected _ _ _ _ _ Hargs) as Hrej.
    destruct Hargs as (-> & (q & -> & Hq0 & Hq1) & (z & Hz & Hz0) & (z' & Hz')).
    unfold rejected in Hrej. cbn [py_as_float py_as_bool] in Hrej. rewrite Hz, Hz' in Hrej.
    unfold gen_mean_pT_correlations. cbn [py_as_float py_as_bool]. rewrite Hz, Hz'.
    change (FQ (0 # 1)) with (FQ 0). change (FQ (1 # 1)) with (FQ 1).
    destruct (negb (fq_ltb (FQ 0) (FQ q) && fq_ltb (FQ q) (FQ 1))); [discriminate|].
    destruct (negb (0 <? z)%Z); [discriminate|]. clear Hrej.
    destruct self as [mo a1 a2 a3 a4 sn sd a5 a6]. cbn [o_max_order] in Hmo. subst mo. cbv zeta.
    pose proof (source__all_events (push (MkObj (Z.of_nat n) a1 a2 a3 a4 sn sd a5 a6) [] []) evs n [] []
                  eq_refl Hn eq_refl eq_refl) as Hall.
    unfold push, set_N_events, set_D_events in Hall |- *.
    cbn [o_N_events o_D_events o_max_order app
         o_mean_pt_correlation o_mean_pt_correlation_error o_kappa o_kappa_error o_mean_pT_correlation
         o_mean_pT_correlation_error] in Hall |- *.
    rewrite Hall. clear Hall.
    cbn [bind rbind push set_N_events set_D_events o_N_events o_D_events o_max_order app np_array_store
         o_mean_pt_correlation o_mean_pt_correlation_error o_kappa o_kappa_error o_mean_pT_correlation
         o_mean_pT_correlation_error].
    rewrite (rect_rows (rowN n) n evs (rowN_length n)), (rect_rows (rowD n) n evs (rowD_length n)).
    cbn [bind rbind set_N_events set_D_events o_N_events o_D_events o_max_order
         o_mean_pt_correlation o_mean_pt_correlation_error o_kappa o_kappa_error o_mean_pT_correlation
         o_mean_pt_correlation_error].
    rewrite np_zeros_nat. cbn [bind rbind].
    match goal with |- context [fold_leftM ?f (py_range (Z.of_nat n)) ?s0] =>
      destruct (range_inv f (fun c s =>
                   fst s = fillarr (fun c => mcorr c evs) (f0 k0) n c /\
                   snd s = if b then fillarr (fun c => sval (errs c)) (f0 k0) n c else repeat (f0 k0) n) n s0)
        as (s' & E & HI1 & HI2) end.
    - cbn [fst snd]. rewrite !fillarr_0. destruct b; split; reflexivity.
    - intros c [A B] Hc [HA HB]. cbn [fst snd] in HA, HB. subst A.
      rewrite (store_col_rows (rowN n) (mN c) c evs Hev)
        by (intros ev; exact (nth_error_map_seq (fun j => mN j ev) n c Hc)).
      rewrite (store_col_rows (rowD n) (mD c) c evs Hev)
        by (intros ev; exact (nth_error_map_seq (fun j => mD j ev) n c Hc)).
      cbn [bind rbind]. unfold np_array_rows. cbn [rect forallb]. rewrite !map_length, Nat.eqb_refl.
      cbn [andb bind rbind]. rewrite nd_T_two.
      rewrite (source__compute_mean_pT_correlations _ (mN c) (mD c) evs Hev), <- corr_ratio.
      cbn [bind rbind]. rewrite (arr_set_fill (fun c => mcorr c evs) (f0 k0) n c (NpF (mcorr c evs)) Hc eq_refl).
      cbn [bind rbind]. destruct b.
      + specialize (Hjk eq_refl c Hc). unfold with_arrays, nd_pairs, set_N_events, set_D_events in Hjk.
        cbn [o_N_events o_D_events o_max_order
             o_mean_pt_correlation o_mean_pt_correlation_error o_kappa o_kappa_error o_mean_pT_correlation
             o_mean_pT_correlation_error] in Hjk.
        destruct (jk_new (PFloat (FQ q)) ns seed) as [jk|e]; [|discriminate Hjk].
        cbn [bind rbind] in Hjk |- *.
        match goal with |- context [jk_estimate jk ?a ?f] =>
          replace (jk_estimate jk a f) with (@Ok (scalar K) (errs c)) by (symmetry; exact Hjk) end.
        cbn [bind rbind]. subst B.
        rewrite (arr_set_fill (fun c => sval (errs c)) (f0 k0) n c (errs c) Hc eq_refl).
        cbn [bind rbind]. eexists. split; [reflexivity|]. split; reflexivity.
      + eexists. split; [reflexivity|]. split; [reflexivity | exact HB].
    - rewrite E. cbn [bind rbind]. destruct s' as [A B]. cbn [fst snd] in HI1, HI2.
      rewrite fillarr_n in HI1. subst A.
      destruct b.
      + rewrite fillarr_n in HI2. subst B. reflexivity.
      + subst B. reflexivity.
  Qed.

  Theorem source_mean_pT_correlations_rejects (self : obj K) evs ce df ns seed e :
    rejected ce df ns seed = Some e -> g_corr self evs ce df ns seed = Err e.
  Proof. apply rejected_corr. Qed.

  (* no event at all: np.array([]) is 1-D, the first column access raises *)
  Theorem source_mean_pT_correlations_no_events (self : obj K) (n : nat) (ce df ns seed : pyval) (b : bool) :
    o_max_order self = Z.of_nat n -> 1 <= n <= 8 -> valid_args ce df ns seed b ->
    g_corr self [] ce df ns seed = Err IndexError.
  Proof.
    intros Hmo Hn Hargs.
    pose proof (valid_not_rejected _ _ _ _ _ Hargs) as Hrej.
    destruct Hargs as (-> & (q & -> & Hq0 & Hq1) & (z & Hz & Hz0) & (z' & Hz')).
    unfold rejected in Hrej. cbn [py_as_float py_as_bool] in Hrej. rewrite Hz, Hz' in Hrej.
    unfold gen_mean_pT_correlations. cbn [py_as_float py_as_bool]. rewrite Hz, Hz'.
    change (FQ (0 # 1)) with (FQ 0). change (FQ (1 # 1)) with (FQ 1).
    destruct (negb (fq_ltb (FQ 0) (FQ q) && fq_ltb (FQ q) (FQ 1))); [discriminate|].
    destruct (negb (0 <? z)%Z); [discriminate|]. clear Hrej.
    destruct self as [mo a1 a2 a3 a4 sn sd a5 a6]. cbn [o_max_order] in Hmo. subst mo.
    destruct n as [|n]; [lia|]. cbn -[Z.of_nat]. rewrite !np_zeros_nat. cbn [bind rbind].
    rewrite py_range_nat. reflexivity.
  Qed.

  (* ---------------------------------------------------------------- _kappa_cumulant *)
  Notation fkappa := (gen_kappa F (f0 k0) (f1 k1) (fadd kadd) (fmul kmul) (fsub ksub) (fopp kopp)).

  Theorem source__kappa_cumulant (self : obj K) (C : list F) (k : Z) :
    g_kappa_poly self C k =
      if ((1 <=? k) && (k <=? 8))%Z then
        if length C <? Z.to_nat k then Err IndexError else poly_val (fkappa (Z.to_nat k) (arr_fn C))
      else Err ValueError.
  Proof.
    unfold gen__kappa_cumulant.
    assert (Hcase : forall (m : nat) (X : result (scalar K)),
              bind (arr_need C m) (fun _ => X) = if length C <? Datatypes.S m then Err IndexError else X).
    { intros m X. unfold arr_need, Nat.ltb. cbn [Nat.leb]. destruct (length C <=? m); reflexivity. }
    destruct (Z.eqb_spec k 1) as [->|?]; [apply Hcase|].
    destruct (Z.eqb_spec k 2) as [->|?]; [apply Hcase|].
    destruct (Z.eqb_spec k 3) as [->|?]; [apply Hcase|].
    destruct (Z.eqb_spec k 4) as [->|?]; [apply Hcase|].
    destruct (Z.eqb_spec k 5) as [->|?]; [apply Hcase|].
    destruct (Z.eqb_spec k 6) as [->|?]; [apply Hcase|].
    destruct (Z.eqb_spec k 7) as [->|?]; [apply Hcase|].
    destruct (Z.eqb_spec k 8) as [->|?]; [apply Hcase|].
    destruct ((1 <=? k) && (k <=? 8))%Z eqn:E; [|reflexivity].
    apply andb_prop in E. destruct E as [E1 E2]. apply Z.leb_le in E1, E2. lia.
  Qed.

  (* the cumulant of order c+1 of a list of correlations: non-finite as soon as one of them is *)
  Definition kappa_l (l : list F) (c : nat) : F :=
    if forallb (fun x : F => match x with Some _ => true | None => false end) l
    then gen_kappa K k0 k1 kadd kmul ksub kopp (Datatypes.S c) (fun i => match nth i l None with Some v => v | None => k0 end)
    else None.

  Lemma kappa_l_model c evs : c < 8 -> kappa_l (map (fun i => mcorr i evs) (seq 0 (Datatypes.S c))) c = mkappa c evs.
  Proof.
    intros Hc. do 8 (destruct c as [|c]; [reflexivity|]). lia.
  Qed.

  Lemma kappa_lift c (l : list F) : c < 8 -> length l = Datatypes.S c -> fkappa (Datatypes.S c) (arr_fn l) = Some (kappa_l l c).
  Proof.
    intros Hc Hl.
    do 8 (destruct c as [|c];
      [ repeat match goal with
               | H : length ?l = Datatypes.S _ |- _ =>
                   destruct l as [|[?|] l]; cbn [length] in H; [discriminate H | apply Nat.succ_inj in H | apply Nat.succ_inj in H]
               | H : length ?l = 0 |- _ => destruct l; [clear H | discriminate H]
               end; reflexivity | ]).
    lia.
  Qed.

  (* ---------------------------------------------------------------- _compute_mean_pT_cumulants *)
  (* the correlation of order index j read off the interleaved (numerator, denominator) columns *)
  Definition colsum (data : nd K) (j : nat) : option K := mosum (map (fun r => nth j r None) data).
  Definition cf (data : nd K) (j : nat) : F := ratio (colsum data (2 * j)) (colsum data (2 * j + 1)).

  Theorem source__compute_mean_pT_cumulants (self : obj K) (data : nd K) (c : nat) :
    c < 8 -> data <> [] -> (forall r, In r data -> 2 * Datatypes.S c <= length r) ->
    g_cum self data (Z.of_nat c) = Ok (NpF (kappa_l (map (cf data) (seq 0 (Datatypes.S c))) c)).
  Proof.
    intros Hc Hd Hlen. unfold gen__compute_mean_pT_cumulants. cbv zeta.
    replace (Z.of_nat c + 1)%Z with (Z.of_nat (Datatypes.S c)) by lia.
    rewrite np_zeros_nat. cbn [bind rbind].
    match goal with |- context [fold_leftM ?f (py_range (Z.of_nat (Datatypes.S c))) ?s0] =>
      destruct (range_inv f (fun j C => C = fillarr (cf data) (f0 k0) (Datatypes.S c) j) (Datatypes.S c) s0)
        as (C & E & HC) end.
    - now rewrite fillarr_0.
    - intros j C0 Hj ->.
      change (flit k0 k1 kadd kmul kopp 0) with (Some k0).
      assert (Hza : (2 * Z.of_nat j)%Z = Z.of_nat (2 * j)) by lia.
      assert (Hzb : (2 * Z.of_nat j + 1)%Z = Z.of_nat (2 * j + 1)) by lia.
      assert (Hl2 : forall r, In r data -> 2 * j < length r /\ 2 * j + 1 < length r)
        by (intros r Hr; specialize (Hlen r Hr); lia).
      match goal with |- context [fold_leftM ?g (py_range (nd_shape0 data)) ?s] =>
        rewrite (sum2_loop g data _ _ (2 * j) (2 * j + 1) Hza Hzb (fun _ _ _ => eq_refl) Hl2) end.
      cbn [bind rbind]. destruct data as [|r0 data']; [contradiction|]. cbn [tag sdiv sval bind rbind].
      rewrite fdiv_sums. fold (colsum (r0 :: data') (2 * j)). fold (colsum (r0 :: data') (2 * j + 1)).
      fold (cf (r0 :: data') j).
      rewrite (arr_set_fill (cf (r0 :: data')) (f0 k0) (Datatypes.S c) j (NpF (cf (r0 :: data') j)) Hj eq_refl).
      cbn [bind rbind]. eexists. split; reflexivity.
    - rewrite E. cbn [bind rbind]. subst C. rewrite fillarr_n, source__kappa_cumulant.
      destruct ((1 <=? Z.of_nat (Datatypes.S c)) && (Z.of_nat (Datatypes.S c) <=? 8))%Z eqn:E1.
      2:{ apply andb_false_iff in E1. destruct E1 as [E1|E1]; apply Z.leb_gt in E1; lia. }
      rewrite Nat2Z.id, map_length, seq_length, Nat.ltb_irrefl.
      rewrite kappa_lift by (rewrite ?map_length, ?seq_length; lia). reflexivity.
  Qed.

  (* ---------------------------------------------------------------- mean_pT_cumulants: the column surgery *)
  Lemma firstn_map_seq {B} (f : nat -> B) : forall k s n, firstn k (map f (seq s n)) = map f (seq s (Nat.min k n)).
  Proof.
    induction k as [|k IH]; intros s n; [reflexivity|].
    destruct n as [|n]; [reflexivity|]. cbn [Nat.min seq map firstn]. now rewrite IH.
  Qed.

  Lemma store_cols_to_rows {A} (row : A -> list F) (z : Z) (l : list A) :
    l <> [] -> store_cols_to (SArr (map row l)) z = Ok (map (fun a => py_slice_to (row a) z) l).
  Proof. intros Hl. destruct l as [|a l]; [contradiction|]. cbn [map store_cols_to]. now rewrite map_map. Qed.

  (* the number of columns that `[:, : 2 * (order + 1)]` keeps *)
  Definition kept (n c : nat) : nat := Nat.min (2 * (c + 1)) n.

  Lemma slice_rowN n c ev : py_slice_to (rowN n ev) (2 * (Z.of_nat c + 1)) = rowN (kept n c) ev.
  Proof.
    unfold py_slice_to, rowN, kept. destruct (2 * (Z.of_nat c + 1) <? 0)%Z eqn:E; [apply Z.ltb_lt in E; lia|].
    replace (Z.to_nat (2 * (Z.of_nat c + 1))) with (2 * (c + 1)) by lia. apply firstn_map_seq.
  Qed.
  Lemma slice_rowD n c ev : py_slice_to (rowD n ev) (2 * (Z.of_nat c + 1)) = rowD (kept n c) ev.
  Proof.
    unfold py_slice_to, rowD, kept. destruct (2 * (Z.of_nat c + 1) <? 0)%Z eqn:E; [apply Z.ltb_lt in E; lia|].
    replace (Z.to_nat (2 * (Z.of_nat c + 1))) with (2 * (c + 1)) by lia. apply firstn_map_seq.
  Qed.

  Fixpoint interleave (a b : list F) : list F :=
    match a, b with x :: a', y :: b' => x :: y :: interleave a' b' | _, _ => [] end.

  Lemma set_step_even (src : list F) : forall m, length src = m ->
    set_step (repeat junk (m + m)) 0 2 src = Some (interleave src (repeat junk m)).
  Proof.
    induction src as [|y src IH]; intros m Hm; cbn [length] in Hm; subst m; [reflexivity|].
    rewrite Nat.add_succ_r. cbn [plus repeat set_step Nat.sub interleave]. rewrite (IH _ eq_refl). reflexivity.
  Qed.

  Lemma set_step_odd (a : list F) : forall b src, length b = length a -> length src = length a ->
    set_step (interleave a b) 1 2 src = Some (interleave a src).
  Proof.
    induction a as [|x a IH]; intros b src Hb Hs; destruct b as [|y b], src as [|z src]; try discriminate; [reflexivity|].
    cbn [length] in Hb, Hs. cbn [interleave set_step Nat.sub]. rewrite (IH b src) by lia. reflexivity.
  Qed.

  Lemma set_rows_even {A} (row : A -> list F) m (l : list A) : (forall a, length (row a) = m) ->
    set_step_rows (repeat (repeat junk (m + m)) (length l)) (map row l) 0 2
    = Some (map (fun a => interleave (row a) (repeat junk m)) l).
  Proof.
    intros H. induction l as [|a l IH]; [reflexivity|].
    cbn [length repeat map set_step_rows]. rewrite (set_step_even (row a) m (H a)), IH. reflexivity.
  Qed.

  Lemma set_rows_odd {A} (row1 row2 : A -> list F) m (l : list A) :
    (forall a, length (row1 a) = m) -> (forall a, length (row2 a) = m) ->
    set_step_rows (map (fun a => interleave (row1 a) (repeat junk m)) l) (map row2 l) 1 2
    = Some (map (fun a => interleave (row1 a) (row2 a)) l).
  Proof.
    intros H1 H2. induction l as [|a l IH]; [reflexivity|].
    cbn [map set_step_rows]. rewrite set_step_odd, IH; [reflexivity | | ]; rewrite ?repeat_length, ?H1, ?H2; reflexivity.
  Qed.

  Lemma nth_interleave (a : list F) : forall b j, length b = length a -> j < length a ->
    nth (2 * j) (interleave a b) None = nth j a None /\ nth (2 * j + 1) (interleave a b) None = nth j b None.
  Proof.
    induction a as [|x a IH]; intros b j Hb Hj; [cbn in Hj; lia|].
    destruct b as [|y b]; [discriminate|]. cbn [length] in Hb, Hj.
    destruct j as [|j]; [split; reflexivity|].
    replace (2 * Datatypes.S j) with (Datatypes.S (Datatypes.S (2 * j))) by lia.
    replace (Datatypes.S (Datatypes.S (2 * j)) + 1) with (Datatypes.S (Datatypes.S (2 * j + 1))) by lia.
    cbn [interleave nth]. apply IH; lia.
  Qed.

  Lemma interleave_length (a b : list F) : length b = length a -> length (interleave a b) = 2 * length a.
  Proof.
    revert b. induction a as [|x a IH]; intros b Hb; [reflexivity|].
    destruct b as [|y b]; [discriminate|]. cbn [length interleave] in *. rewrite IH by lia. lia.
  Qed.

  (* the array handed to _compute_mean_pT_cumulants for order index c: numerator and denominator columns alternate *)
  Definition nd_inter (n c : nat) (evs : list (list particle)) : nd K :=
    map (fun ev => interleave (rowN (kept n c) ev) (rowD (kept n c) ev)) evs.
  Definition kappas (n : nat) (evs : list (list particle)) : list F := map (fun c => mkappa c evs) (seq 0 n).

  Lemma nth_rowN m j ev : j < m -> nth j (rowN m ev) None = mN j ev.
  Proof.
    intros H. unfold rowN. apply nth_error_nth. exact (nth_error_map_seq (fun c => mN c ev) m j H).
  Qed.
  Lemma nth_rowD m j ev : j < m -> nth j (rowD m ev) None = mD j ev.
  Proof.
    intros H. unfold rowD. apply nth_error_nth. exact (nth_error_map_seq (fun c => mD c ev) m j H).
  Qed.

  Lemma cf_inter n c evs j : c < n -> j <= c -> cf (nd_inter n c evs) j = mcorr j evs.
  Proof.
    intros Hc Hj. unfold cf, colsum, nd_inter. rewrite !map_map, corr_ratio.
    assert (Hk : j < kept n c) by (unfold kept; lia).
    assert (H1 : forall ev, nth (2 * j) (interleave (rowN (kept n c) ev) (rowD (kept n c) ev)) None = mN j ev).
    { intros ev. rewrite (proj1 (nth_interleave (rowN (kept n c) ev) (rowD (kept n c) ev) j
                        ltac:(now rewrite rowN_length, rowD_length) ltac:(now rewrite rowN_length))).
      now apply nth_rowN. }
    assert (H2 : forall ev, nth (2 * j + 1) (interleave (rowN (kept n c) ev) (rowD (kept n c) ev)) None = mD j ev).
    { intros ev. rewrite (proj2 (nth_interleave (rowN (kept n c) ev) (rowD (kept n c) ev) j
                        ltac:(now rewrite rowN_length, rowD_length) ltac:(now rewrite rowN_length))).
      now apply nth_rowD. }
    rewrite (map_ext _ _ H1), (map_ext _ _ H2). reflexivity.
  Qed.

  Lemma kappa_inter n c evs : c < n -> c < 8 ->
    kappa_l (map (cf (nd_inter n c evs)) (seq 0 (Datatypes.S c))) c = mkappa c evs.
  Proof.
    intros Hn Hc. rewrite <- (kappa_l_model c evs Hc). f_equal. apply map_ext_in.
    intros j Hj. apply in_seq in Hj. apply cf_inter; lia.
  Qed.

  Lemma nd_shape1_rows {A} (row : A -> list F) m (l : list A) :
    l <> [] -> (forall a, length (row a) = m) -> nd_shape1 (map row l) = Ok (Z.of_nat m).
  Proof. intros Hl H. destruct l as [|a l]; [contradiction|]. cbn [map nd_shape1]. unfold py_len. now rewrite H. Qed.

  Lemma np_empty_nat r a b : np_empty junk (Z.of_nat r) (Z.of_nat a + Z.of_nat b) = Ok (repeat (repeat junk (a + b)) r).
  Proof.
    unfold np_empty. destruct (Z.of_nat r <? 0)%Z eqn:E1; [apply Z.ltb_lt in E1; lia|].
    destruct (Z.of_nat a + Z.of_nat b <? 0)%Z eqn:E2; [apply Z.ltb_lt in E2; lia|].
    cbn [orb]. rewrite Nat2Z.id. replace (Z.to_nat (Z.of_nat a + Z.of_nat b)) with (a + b) by lia. reflexivity.
  Qed.

  Lemma nd_set_even {A} (row : A -> list F) m (l : list A) : l <> [] -> (forall a, length (row a) = m) ->
    nd_set_cols_step (repeat (repeat junk (m + m)) (length l)) 0 2 (map row l)
    = Ok (map (fun a => interleave (row a) (repeat junk m)) l).
  Proof.
    intros Hl H. unfold nd_set_cols_step. rewrite (set_rows_even row m l H).
    destruct l; [contradiction | reflexivity].
  Qed.

  Lemma nd_set_odd {A} (row1 row2 : A -> list F) m (l : list A) : l <> [] ->
    (forall a, length (row1 a) = m) -> (forall a, length (row2 a) = m) ->
    nd_set_cols_step (map (fun a => interleave (row1 a) (repeat junk m)) l) 1 2 (map row2 l)
    = Ok (map (fun a => interleave (row1 a) (row2 a)) l).
  Proof.
    intros Hl H1 H2. unfold nd_set_cols_step. rewrite (set_rows_odd row1 row2 m l H1 H2).
    destruct l; [contradiction | reflexivity].
  Qed.

  (* ---------------------------------------------------------------- mean_pT_cumulants *)
  Lemma rejected_kappa self evs ce df ns seed e :
    rejected ce df ns seed = Some e -> g_kappa self evs ce df ns seed = Err e.
  Proof.
    unfold rejected, gen_mean_pT_cumulants.
    destruct (py_as_float df) as [x|]; [|now intros [= <-]].
    change (FQ (0 # 1)) with (FQ 0). change (FQ (1 # 1)) with (FQ 1).
    destruct (negb (fq_ltb (FQ 0) x && fq_ltb x (FQ 1))); [now intros [= <-]|].
    destruct (py_as_int ns) as [z|]; [|now intros [= <-]].
    destruct (negb (0 <? z)%Z); [now intros [= <-]|].
    destruct (py_as_int seed) as [z'|]; [|now intros [= <-]].
    destruct (py_as_bool ce) as [b|]; [discriminate | now intros [= <-]].
  Qed.

  Theorem source_mean_pT_cumulants (self : obj K) (evs : list (list particle)) (n : nat)
      (ce df ns seed : pyval) (b : bool) (errs : nat -> scalar K) :
    o_max_order self = Z.of_nat n -> 1 <= n <= 8 -> evs <> [] -> valid_args ce df ns seed b ->
    (b = true -> forall c, c < n ->
       bind (jk_new df ns seed)
            (fun jk => jk_estimate jk (nd_inter n c evs) (fun a => g_cum (with_arrays self n evs) a (Z.of_nat c))) = Ok (errs c)) ->
    g_kappa self evs ce df ns seed
    = Ok (if b then RetPair (kappas n evs) (errvals errs n) else RetArr (kappas n evs),
          (let s := set_kappa (with_arrays self n evs) (AArr (kappas n evs)) in
           if b then set_kappa_error s (AArr (errvals errs n)) else s),
          map (map norm) evs).
  Proof.
    intros Hmo Hn Hev Hargs Hjk.
    pose proof (valid_not_rejected _ _ _ _ _ Hargs) as Hrej.
    destruct Hargs as (-> & (q & -> & Hq0 & Hq1) & (z & Hz & Hz0) & (z' & Hz')).
    unfold rejected in Hrej. cbn [py_as_float py_as_bool] in Hrej. rewrite Hz, Hz' in Hrej.
    unfold gen_mean_pT_cumulants. cbn [py_as_float py_as_bool]. rewrite Hz, Hz'.
    change (FQ (0 # 1)) with (FQ 0). change (FQ (1 # 1)) with (FQ 1).
    destruct (negb (fq_ltb (FQ 0) (FQ q) && fq_ltb (FQ q) (FQ 1))); [discriminate|].
    destruct (negb (0 <? z)%Z); [discriminate|]. clear Hrej.
    destruct self as [mo a1 a2 a3 a4 sn sd a5 a6]. cbn [o_max_order] in Hmo. subst mo. cbv zeta.
    pose proof (source__all_events (push (MkObj (Z.of_nat n) a1 a2 a3 a4 sn sd a5 a6) [] []) evs n [] []
                  eq_refl Hn eq_refl eq_refl) as Hall.
    unfold push, set_N_events, set_D_events in Hall |- *.
    cbn [o_N_events o_D_events o_max_order app
         o_mean_pt_correlation o_mean_pt_correlation_error o_kappa o_kappa_error o_mean_pT_correlation
         o_mean_pT_correlation_error] in Hall |- *.
    rewrite Hall. clear Hall.
    cbn [bind rbind push set_N_events set_D_events o_N_events o_D_events o_max_order app np_array_store
         o_mean_pt_correlation o_mean_pt_correlation_error o_kappa o_kappa_error o_mean_pT_correlation
         o_mean_pT_correlation_error].
    rewrite (rect_rows (rowN n) n evs (rowN_length n)), (rect_rows (rowD n) n evs (rowD_length n)).
    cbn [bind rbind set_N_events set_D_events o_N_events o_D_events o_max_order
         o_mean_pt_correlation o_mean_pt_correlation_error o_kappa o_kappa_error o_mean_pT_correlation
         o_mean_pt_correlation_error].
    rewrite np_zeros_nat. cbn [bind rbind].
    match goal with |- context [fold_leftM ?f (py_range (Z.of_nat n)) ?s0] =>
      destruct (range_inv f (fun c s =>
                   fst s = fillarr (fun c => mkappa c evs) (f0 k0) n c /\
                   snd s = if b then fillarr (fun c => sval (errs c)) (f0 k0) n c else repeat (f0 k0) n) n s0)
        as (s' & E & HI1 & HI2) end.
    - cbn [fst snd]. rewrite !fillarr_0. destruct b; split; reflexivity.
    - intros c [A B] Hc [HA HB]. cbn [fst snd] in HA, HB. subst A.
      rewrite (store_cols_to_rows (rowN n) _ evs Hev), (store_cols_to_rows (rowD n) _ evs Hev).
      cbn [bind rbind].
      rewrite (map_ext _ _ (slice_rowN n c)), (map_ext _ _ (slice_rowD n c)).
      rewrite (nd_shape1_rows (rowN (kept n c)) (kept n c) evs Hev (rowN_length _)).
      rewrite (nd_shape1_rows (rowD (kept n c)) (kept n c) evs Hev (rowD_length _)).
      cbn [bind rbind]. unfold nd_shape0, py_len. rewrite map_length, np_empty_nat.
      cbn [bind rbind].
      rewrite (nd_set_even (rowN (kept n c)) (kept n c) evs Hev (rowN_length _)). cbn [bind rbind].
      rewrite (nd_set_odd (rowN (kept n c)) (rowD (kept n c)) (kept n c) evs Hev (rowN_length _) (rowD_length _)).
      cbn [bind rbind]. fold (nd_inter n c evs).
      rewrite (source__compute_mean_pT_cumulants _ (nd_inter n c evs) c).
      + rewrite (kappa_inter n c evs Hc) by lia. cbn [bind rbind].
        rewrite (arr_set_fill (fun c => mkappa c evs) (f0 k0) n c (NpF (mkappa c evs)) Hc eq_refl).
        cbn [bind rbind]. destruct b.
        * specialize (Hjk eq_refl c Hc). unfold with_arrays, set_N_events, set_D_events in Hjk.
          cbn [o_N_events o_D_events o_max_order
               o_mean_pt_correlation o_mean_pt_correlation_error o_kappa o_kappa_error o_mean_pT_correlation
               o_mean_pT_correlation_error] in Hjk.
          destruct (jk_new (PFloat (FQ q)) ns seed) as [jk|e]; [|discriminate Hjk].
          cbn [bind rbind] in Hjk |- *.
          match goal with |- context [jk_estimate jk ?a ?f] =>
            replace (jk_estimate jk a f) with (@Ok (scalar K) (errs c)) by (symmetry; exact Hjk) end.
          cbn [bind rbind]. subst B.
          rewrite (arr_set_fill (fun c => sval (errs c)) (f0 k0) n c (errs c) Hc eq_refl).
          cbn [bind rbind]. eexists. split; [reflexivity|]. split; reflexivity.
        * eexists. split; [reflexivity|]. split; [reflexivity | exact HB].
      + lia.
      + unfold nd_inter. destruct evs; [contradiction | discriminate].
      + intros r Hr. unfold nd_inter in Hr. apply in_map_iff in Hr. destruct Hr as (ev & <- & _).
        rewrite interleave_length by now rewrite rowN_length, rowD_length.
        rewrite rowN_length. unfold kept. lia.
    - rewrite E. cbn [bind rbind]. destruct s' as [A B]. cbn [fst snd] in HI1, HI2.
      rewrite fillarr_n in HI1. subst A.
      destruct b.
      + rewrite fillarr_n in HI2. subst B. reflexivity.
      + subst B. reflexivity.
  Qed.

  Theorem source_mean_pT_cumulants_rejects (self : obj K) evs ce df ns seed e :
    rejected ce df ns seed = Some e -> g_kappa self evs ce df ns seed = Err e.
  Proof. apply rejected_kappa. Qed.
  Theorem source_mean_pT_cumulants_no_events (self : obj K) (n : nat) (ce df ns seed : pyval) (b : bool) :
    o_max_order self = Z.of_nat n -> 1 <= n <= 8 -> valid_args ce df ns seed b ->
    g_kappa self [] ce df ns seed = Err IndexError.
  Proof.
    intros Hmo Hn Hargs.
    pose proof (valid_not_rejected _ _ _ _ _ Hargs) as Hrej.
    destruct Hargs as (-> & (q & -> & Hq0 & Hq1) & (z & Hz & Hz0) & (z' & Hz')).
    unfold rejected in Hrej. cbn [py_as_float py_as_bool] in Hrej. rewrite Hz, Hz' in Hrej.
    unfold gen_mean_pT_cumulants. cbn [py_as_float py_as_bool]. rewrite Hz, Hz'.
    change (FQ (0 # 1)) with (FQ 0). change (FQ (1 # 1)) with (FQ 1).
    destruct (negb (fq_ltb (FQ 0) (FQ q) && fq_ltb (FQ q) (FQ 1))); [discriminate|].
    destruct (negb (0 <? z)%Z); [discriminate|]. clear Hrej.
    destruct self as [mo a1 a2 a3 a4 sn sd a5 a6]. cbn [o_max_order] in Hmo. subst mo.
    destruct n as [|n]; [lia|]. cbn -[Z.of_nat]. rewrite !np_zeros_nat. cbn [bind rbind].
    rewrite py_range_nat. reflexivity.
  Qed.
End Source.

(* ---------------------------------------------------------------- names and defaults of the arguments *)
Theorem source_public_arguments :
  gen_mean_pT_correlations_args
  = ["particle_list_all_events"; "compute_error"; "delete_fraction"; "number_samples"; "seed"]%string /\
  gen_mean_pT_cumulants_args = gen_mean_pT_correlations_args /\
  gen_mean_pT_correlations_default_compute_error = PBool true /\
  gen_mean_pT_correlations_default_number_samples = PInt 100 /\
  gen_mean_pT_correlations_default_seed = PInt 42 /\
  gen_mean_pT_cumulants_default_compute_error = PBool true /\
  gen_mean_pT_cumulants_default_number_samples = PInt 100 /\
  gen_mean_pT_cumulants_default_seed = PInt 42 /\
  gen_mean_pT_cumulants_default_delete_fraction = gen_mean_pT_correlations_default_delete_fraction.
Proof. repeat split; reflexivity. Qed.

(* the defaults are accepted arguments (delete_fraction = the double nearest to 0.4): the theorems are not vacuous *)
Theorem source_defaults_valid :
  valid_args gen_mean_pT_correlations_default_compute_error gen_mean_pT_correlations_default_delete_fraction
             gen_mean_pT_correlations_default_number_samples gen_mean_pT_correlations_default_seed true.
Proof.
  split; [reflexivity|]. split.
  - eexists. split; [reflexivity|]. split; reflexivity.
  - split; eexists; split; reflexivity.
Qed.

(* C13 source tie: the hand model Model/PtCorr.v EQUALS the methods regenerated from
   src/sparkx/MultiParticlePtCorrelations.py (Gen/GenPtCorrMethods.v, translator tools/py2coq/gen_ptcorr_methods.py,
   runtime Model/PtCorrRt.v) on the domain the hand model is claimed for:

     max_order in 1..8 (what __init__ admits), particles with a finite pT_abs() and a finite or NaN weight (the hand
     model's particle type), at least one event, any commutative ring K with a division and a zero test.

   The regenerated functions are the method bodies statement by statement (array allocation, the two nested loops of
   _P_W_k with the in-place change of a NaN weight, the order chain, the appends, np.array, the column / slice /
   interleaving surgery, the event sums, the divisions, the attribute updates, the returned tuple).  Their particles
   argument comes back as a result because `particle.weight = 1.0` changes the caller's objects: the theorems say it
   is [map norm].  The Jackknife class is a pair of universally quantified functions. *)
From Coq Require Import String List ZArith QArith Bool Arith Lia Ring Ring_theory.
From SX Require Import Lib.Py Lib.KRing Gen.GenPtCorr Model.PtCorr Model.PtCorrRt Gen.GenPtCorrMethods.
Import ListNotations.
Local Open Scope nat_scope.

(* ---------------------------------------------------------------- generic: the monad and the loops *)
Lemma for_mut_abs {S T A} (f : S -> A -> result (S * A)) (rep : T -> S) (g : T -> A -> T) (h : A -> A) :
  (forall t a, f (rep t) a = Ok (rep (g t a), h a)) ->
  forall l t, for_mut f l (rep t) = Ok (rep (fold_left g l t), map h l).
Proof.
  intros H. induction l as [|a l IH]; intros t; cbn [for_mut fold_left map]; [reflexivity|].
  rewrite H. cbn [bind rbind fst snd]. rewrite IH. reflexivity.
Qed.

Lemma fold_leftM_app {S A} (f : S -> A -> result S) l1 l2 s :
  fold_leftM f (l1 ++ l2) s = bind (fold_leftM f l1 s) (fun s' => fold_leftM f l2 s').
Proof.
  revert s. induction l1 as [|a l1 IH]; intros s; cbn [fold_leftM app]; [reflexivity|].
  destruct (f s a) as [s'|e]; cbn [bind rbind]; [apply IH | reflexivity].
Qed.

Lemma py_range_nat n : py_range (Z.of_nat n) = map Z.of_nat (seq 0 n).
Proof. unfold py_range. now rewrite Nat2Z.id. Qed.

(* a loop over range(n) with an invariant indexed by the number of iterations done *)
Lemma range_inv {S} (f : S -> Z -> result S) (I : nat -> S -> Prop) n s0 :
  I 0 s0 ->
  (forall c s, c < n -> I c s -> exists s', f s (Z.of_nat c) = Ok s' /\ I (Datatypes.S c) s') ->
  exists s', fold_leftM f (py_range (Z.of_nat n)) s0 = Ok s' /\ I n s'.
Proof.
  intros H0 Hs. rewrite py_range_nat.
  assert (G : forall m, m <= n -> exists s', fold_leftM f (map Z.of_nat (seq 0 m)) s0 = Ok s' /\ I m s').
  { induction m as [|m IH]; intros Hm.
    - exists s0. split; [reflexivity | exact H0].
    - destruct IH as (s1 & E1 & I1); [lia|].
      destruct (Hs m s1) as (s2 & E2 & I2); [lia | exact I1 |].
      exists s2. split; [|exact I2].
      rewrite seq_S, map_app, fold_leftM_app, E1. cbn [bind rbind map fold_leftM plus]. rewrite E2. reflexivity. }
  apply G. lia.
Qed.

Lemma pyget_nat {A} (l : list A) i :
  pyget l (Z.of_nat i) = match nth_error l i with Some a => Ok a | None => Err IndexError end.
Proof.
  unfold pyget. destruct (Z.of_nat i <? 0)%Z eqn:E; [apply Z.ltb_lt in E; lia|].
  rewrite E, Nat2Z.id. reflexivity.
Qed.

(* `for i in range(len(l))` whose body reads l[i] only: a structural recursion *)
Lemma range_loop_gen {St A} (body : St -> A -> result St) (f : St -> Z -> result St) (l : list A) :
  (forall s i a, nth_error l i = Some a -> f s (Z.of_nat i) = body s a) ->
  forall rest pre s, l = pre ++ rest ->
  fold_leftM f (map Z.of_nat (seq (length pre) (length rest))) s = fold_leftM body rest s.
Proof.
  intros H. induction rest as [|a t IH]; intros pre s E; cbn [length seq map fold_leftM]; [reflexivity|].
  rewrite (H s (length pre) a).
  2:{ rewrite E, nth_error_app2, Nat.sub_diag by lia. reflexivity. }
  destruct (body s a) as [s'|c]; cbn [bind rbind]; [|reflexivity].
  specialize (IH (pre ++ [a]) s'). rewrite app_length in IH. cbn [length] in IH. rewrite Nat.add_1_r in IH.
  apply IH. rewrite <- app_assoc. exact E.
Qed.

Lemma range_loop {St A} (body : St -> A -> result St) (f : St -> Z -> result St) (l : list A) s :
  (forall s i a, nth_error l i = Some a -> f s (Z.of_nat i) = body s a) ->
  fold_leftM f (py_range (py_len l)) s = fold_leftM body l s.
Proof.
  intros H. unfold py_len. rewrite py_range_nat. exact (range_loop_gen body f l H l [] s eq_refl).
Qed.

Lemma map_constant {A B} (x : B) (l : list A) : map (fun _ => x) l = repeat x (length l).
Proof. induction l as [|a l IH]; cbn; [reflexivity | now rewrite IH]. Qed.

Lemma cases_1_8 n : 1 <= n <= 8 -> n = 1 \/ n = 2 \/ n = 3 \/ n = 4 \/ n = 5 \/ n = 6 \/ n = 7 \/ n = 8.
Proof. lia. Qed.

Section Source.
  Variable K : Type.
  Variables (k0 k1 : K) (kadd kmul ksub : K -> K -> K) (kopp : K -> K).
  Hypothesis Kth : ring_theory k0 k1 kadd kmul ksub kopp (@eq K).
  Add Ring KringSrc : Kth.
  Variable kdiv : K -> K -> K.
  Variable kis0 : K -> bool.
  Variable junk : F K.
  Variable JK : Type.
  Variable jk_new : pyval -> pyval -> pyval -> result JK.
  Variable jk_estimate : JK -> nd K -> (nd K -> result (scalar K)) -> result (scalar K).

  (* the hand model *)
  Notation particle := (particle K).
  Notation wgt := (wgt K k1).
  Notation wpt := (wpt K k1 kmul).
  Notation mPk := (Pk K k0 k1 kadd kmul).
  Notation mWk := (Wk K k0 k1 kadd kmul).
  Notation mN := (N_event K k0 k1 kadd kmul ksub kopp).
  Notation mD := (D_event K k0 k1 kadd kmul ksub kopp).
  Notation mosum := (osum K k0 kadd).
  Notation mcorr := (corr K k0 k1 kadd kmul ksub kopp kdiv kis0).
  Notation mkappa := (kappa K k0 k1 kadd kmul ksub kopp kdiv kis0).
  (* the regenerated methods *)
  Notation g_init := (gen___init__ K).
  Notation g_PWk := (gen__P_W_k K k0 k1 kadd kmul kopp kdiv kis0).
  Notation g_event := (gen__transverse_momentum_correlations_event_num_denom K k0 k1 kadd kmul ksub kopp kdiv kis0).
  Notation g_all := (gen__compute_numerator_denominator_all_events K k0 k1 kadd kmul ksub kopp kdiv kis0).
  Notation g_ratio := (gen__compute_mean_pT_correlations K k0 k1 kadd kmul kopp kdiv kis0).
  Notation g_corr := (gen_mean_pT_correlations K k0 k1 kadd kmul ksub kopp kdiv kis0 JK jk_new jk_estimate).
  Notation g_kappa_poly := (gen__kappa_cumulant K k0 k1 kadd kmul ksub kopp).
  Notation g_cum := (gen__compute_mean_pT_cumulants K k0 k1 kadd kmul ksub kopp kdiv kis0).
  Notation g_kappa := (gen_mean_pT_cumulants K k0 k1 kadd kmul ksub kopp kdiv kis0 junk JK jk_new jk_estimate).

  Notation F := (F K).
  Notation pw := (kpow k1 kmul).

  (* what `if np.isnan(particle.weight): particle.weight = 1.0` leaves behind in the caller's particle *)
  Definition norm (p : particle) : particle := (fst p, Some (wgt p)).
  (* a 1-D float array with finite entries *)
  Definition vec (f : nat -> K) (n : nat) : list F := map (fun i => Some (f i)) (seq 0 n).
  (* one row of N_events / D_events *)
  Definition rowN (n : nat) (ev : list particle) : list F := map (fun c => mN c ev) (seq 0 n).
  Definition rowD (n : nat) (ev : list particle) : list F := map (fun c => mD c ev) (seq 0 n).

  Lemma vec_ext f g n : (forall i, f i = g i) -> vec f n = vec g n.
  Proof. intros H. unfold vec. apply map_ext. intros i. now rewrite H. Qed.

  Lemma np_zeros_nat n : np_zeros k0 (Z.of_nat n) = Ok (repeat (f0 k0) n).
  Proof.
    unfold np_zeros. destruct (Z.of_nat n <? 0)%Z eqn:E; [apply Z.ltb_lt in E; lia|]. now rewrite Nat2Z.id.
  Qed.

  (* ---------------------------------------------------------------- __init__ *)
  Theorem source___init__ (mo : Z) :
    g_init mo = if ((mo <? Z.of_nat gen_max_order_lo) || (Z.of_nat gen_max_order_hi <? mo))%Z then Err ValueError
                else Ok (MkObj mo ANone ANone ANone ANone SNone SNone AUnset AUnset).
  Proof. reflexivity. Qed.

  (* ---------------------------------------------------------------- _P_W_k *)
  Definition step_pw (t : (nat -> K) * (nat -> K)) (p : particle) : (nat -> K) * (nat -> K) :=
    (fun i => kadd (fst t i) (pw (wpt p) (Datatypes.S i)), fun i => kadd (snd t i) (pw (wgt p) (Datatypes.S i))).
  Definition rep_pw (n : nat) (t : (nat -> K) * (nat -> K)) : list F * list F := (vec (fst t) n, vec (snd t) n).

  Lemma step_pw_sum ev : forall t i,
    fst (fold_left step_pw ev t) i = kadd (fst t i) (mPk ev i) /\
    snd (fold_left step_pw ev t) i = kadd (snd t i) (mWk ev i).
  Proof.
    unfold Pk, Wk, psum.
    induction ev as [|p ev IH]; intros t i; cbn [fold_left map ksum].
    - split; ring.
    - destruct (IH (step_pw t p) i) as [E1 E2]. rewrite E1, E2. cbn [step_pw fst snd]. split; ring.
  Qed.

  Theorem source__P_W_k (self : obj K) (ev : list particle) (n : nat) :
    o_max_order self = Z.of_nat n -> 1 <= n <= 8 ->
    g_PWk self ev = Ok ((vec (mPk ev) n, vec (mWk ev) n), map norm ev).
  Proof.
    intros Hmo Hn. unfold gen__P_W_k. rewrite Hmo.
    assert (Hb : forall f, (forall t p, f (rep_pw n t) p = Ok (rep_pw n (step_pw t p), norm p)) ->
                 for_mut f ev (repeat (f0 k0) n, repeat (f0 k0) n)
                 = Ok (rep_pw n (fold_left step_pw ev (fun _ => k0, fun _ => k0)), map norm ev)).
    { intros f Hf. rewrite <- (for_mut_abs f (rep_pw n) step_pw norm Hf ev).
      f_equal. unfold rep_pw, vec. cbn [fst snd]. rewrite !map_constant, seq_length. reflexivity. }
    rewrite np_zeros_nat. cbn [bind rbind]. rewrite Hb.
    - cbn [bind rbind fst snd rep_pw]. do 2 f_equal. f_equal; apply vec_ext; intros i.
      + rewrite (proj1 (step_pw_sum ev _ i)). cbn [fst]. ring.
      + rewrite (proj2 (step_pw_sum ev _ i)). cbn [snd]. ring.
    - clear Hb. intros [pa wa] [pt w].
      destruct (cases_1_8 n Hn) as [->|[->|[->|[->|[->|[->|[->| ->]]]]]]]; destruct w; reflexivity.
  Qed.

  (* the particles are left alone only when the loops do not run; a negative max_order cannot allocate *)
  Theorem source__P_W_k_degenerate (self : obj K) (ev : list particle) :
    (o_max_order self = 0%Z -> g_PWk self ev = Ok (([], []), ev)) /\
    ((o_max_order self < 0)%Z -> g_PWk self ev = Err ValueError).
  Proof.
    split; intros H; unfold gen__P_W_k.
    - rewrite H. cbn. induction ev as [|p ev IH]; [reflexivity|].
      cbn in *. destruct (for_mut _ ev _) as [[s l]|e]; cbn in *; [|discriminate]. now inversion IH.
    - unfold np_zeros. apply Z.ltb_lt in H. rewrite H. reflexivity.
  Qed.
End Source.

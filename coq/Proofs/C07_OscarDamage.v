(* C07 (Oscar family): one particle line lost or duplicated ANYWHERE in a well-formed file - the direct statement,
   from the declared-count theorems of C07_Oscar. *)
From Coq Require Import List String ZArith QArith Bool Arith Lia.
From SX Require Import Lib.Strs Gen.GenParticleMap Model.Oscar Model.OscarDoc Proofs.C01_Oscar Proofs.C02_Oscar Proofs.C07_Oscar.
Import ListNotations.
Local Open Scope string_scope.

Definition set_rows (e : event) (rows : list line) : event :=
  {| e_head := e_head e; e_rows := rows; e_foot := e_foot e |}.
Definition with_events (d : doc) (evs : list event) : doc :=
  {| d_h1 := d_h1 d; d_h2 := d_h2 d; d_h3 := d_h3 d; d_events := evs |}.
(* row k once more, right after itself *)
Definition dup_row {A} (k : nat) (l : list A) : list A := (firstn (S k) l ++ skipn k l)%list.

Lemma delete_row_firstn_skipn {A} : forall k (l : list A), delete_row k l = (firstn k l ++ skipn (S k) l)%list.
Proof. induction k as [|k IH]; intros [|x l]; cbn; try reflexivity. rewrite IH. reflexivity. Qed.

Lemma delete_row_length {A} : forall k (l : list A), (k < List.length l)%nat -> S (List.length (delete_row k l)) = List.length l.
Proof. induction k as [|k IH]; intros [|x l] H; cbn in *; try lia. rewrite IH by lia. reflexivity. Qed.

Lemma dup_row_length {A} k (l : list A) : (k < List.length l)%nat -> List.length (dup_row k l) = S (List.length l).
Proof. intros H. unfold dup_row. rewrite app_length, firstn_length, skipn_length. lia. Qed.

Section P.
  Variable tok_float : string -> option Q.
  Variable tok_int : string -> option Q.
  Variable pdg_valid : Q -> bool.

  Notation wf_row := (wf_row tok_float tok_int pdg_valid).
  Notation wf_events := (wf_events tok_float tok_int pdg_valid).
  Notation lwf_events := (lwf_events tok_float tok_int pdg_valid).
  Notation WF := (wf tok_float tok_int pdg_valid).
  Notation LOAD := (load tok_float tok_int pdg_valid None).
  Notation LEN := (fun e : event => List.length (e_rows e)).

  Lemma total_decl_len : forall evs, total_decl (map LEN evs) = List.length (render_events evs).
  Proof.
    induction evs as [|e t IH]; [reflexivity|].
    change (render_events (e :: t)) with (render_event e ++ render_events t)%list. rewrite app_length, <- IH.
    unfold total_decl, render_event. cbn [map fold_right List.length]. rewrite app_length. cbn [List.length]. lia.
  Qed.

  Lemma lwf_set fmt attrs rows' : forall pre e post i,
    wf_events fmt attrs i (pre ++ e :: post)%list -> Forall (wf_row fmt attrs) rows' ->
    lwf_events fmt attrs i (map LEN (pre ++ e :: post)%list) (pre ++ set_rows e rows' :: post)%list.
  Proof.
    induction pre as [|a pre IH]; intros e post i H Hr.
    - destruct H as (He & Ht). cbn [app map]. split.
      + destruct He as (A & B & Cc & _ & E & F & _). unfold lwf_event, set_rows. cbn [e_head e_rows e_foot].
        repeat split; assumption.
      + apply wf_lwf, Ht.
    - destruct H as (Ha & Ht). cbn [app map]. split; [|apply IH; assumption].
      pose proof (wf_lwf tok_float tok_int pdg_valid fmt attrs [a] i (conj Ha I)) as (X & _). exact X.
  Qed.

  Lemma len_render_set pre e post rows' :
    (List.length (render_events (pre ++ set_rows e rows' :: post)) + List.length (e_rows e)
     = List.length (render_events (pre ++ e :: post)) + List.length rows')%nat.
  Proof.
    rewrite !render_events_app.
    change (render_events (set_rows e rows' :: post)) with (render_event (set_rows e rows') ++ render_events post)%list.
    change (render_events (e :: post)) with (render_event e ++ render_events post)%list.
    rewrite !app_length. unfold render_event, set_rows. cbn [List.length e_head e_rows e_foot]. rewrite !app_length. cbn [List.length]. lia.
  Qed.

  Lemma foot_last_set pre e post rows' dflt :
    e_foot (last (pre ++ set_rows e rows' :: post) dflt) = e_foot (last (pre ++ e :: post) dflt).
  Proof.
    induction pre as [|a pre IH].
    - cbn [app]. destruct post; reflexivity.
    - cbn [app]. destruct (pre ++ set_rows e rows' :: post)%list eqn:E1; [destruct pre; discriminate|].
      destruct (pre ++ e :: post)%list eqn:E2; [destruct pre; discriminate|]. exact IH.
  Qed.

  Lemma Forall_delete_row {A} (P : A -> Prop) : forall k l, Forall P l -> Forall P (delete_row k l).
  Proof. induction k as [|k IH]; intros l H; destruct H; cbn; try constructor; auto. Qed.
  Lemma Forall_firstn_ {A} (P : A -> Prop) : forall n l, Forall P l -> Forall P (firstn n l).
  Proof. induction n as [|n IH]; intros l H; [constructor|]. destruct H; cbn; constructor; auto. Qed.
  Lemma Forall_skipn_ {A} (P : A -> Prop) : forall n l, Forall P l -> Forall P (skipn n l).
  Proof. induction n as [|n IH]; intros l H; [exact H|]. destruct H; cbn; [constructor|auto]. Qed.
  Lemma Forall_dup_row {A} (P : A -> Prop) k l : Forall P l -> Forall P (dup_row k l).
  Proof. intros H. unfold dup_row. apply Forall_app. split; [apply Forall_firstn_|apply Forall_skipn_]; exact H. Qed.

  Lemma wf_rows_of fmt attrs : forall pre e post i,
    wf_events fmt attrs i (pre ++ e :: post)%list -> Forall (wf_row fmt attrs) (e_rows e).
  Proof.
    induction pre as [|a pre IH]; intros e post i H.
    - destruct H as ((_ & _ & _ & Hr & _) & _). exact Hr.
    - destruct H as (_ & Ht). exact (IH e post (S i) Ht).
  Qed.

  Definition dflt_event : event := {| e_head := []; e_rows := []; e_foot := [] |}.

  (* a particle line lost anywhere *)
  Theorem delete_any_row d fmt attrs pre e post k :
    WF d fmt attrs -> d_events d = (pre ++ e :: post)%list -> (k < List.length (e_rows e))%nat ->
    LOAD (render (with_events d (pre ++ set_rows e (delete_row k (e_rows e)) :: post)%list)) SelAll = Err IndexError.
  Proof.
    intros (Hfmt & Hstd & Hs1 & Hs2 & Hs3 & Hne & Hev & Hlast) Hsplit Hk. rewrite Hsplit in *.
    unfold render, with_events. cbn [d_h1 d_h2 d_h3 d_events].
    apply (lost_line tok_float tok_int pdg_valid d fmt attrs _ (map LEN (pre ++ e :: post)%list) (List.length (pre ++ e :: post)%list)).
    - repeat split; assumption.
    - destruct pre; discriminate.
    - apply lwf_set; [exact Hev|]. apply Forall_delete_row, (wf_rows_of fmt attrs pre e post 0 Hev).
    - rewrite foot_last_set. exact Hlast.
    - rewrite total_decl_len.
      pose proof (len_render_set pre e post (delete_row k (e_rows e))) as HL.
      pose proof (delete_row_length k (e_rows e) Hk). lia.
  Qed.

  (* a particle line duplicated anywhere *)
  Theorem duplicate_any_row d fmt attrs pre e post k :
    WF d fmt attrs -> d_events d = (pre ++ e :: post)%list -> (k < List.length (e_rows e))%nat ->
    LOAD (render (with_events d (pre ++ set_rows e (dup_row k (e_rows e)) :: post)%list)) SelAll = Err IndexError.
  Proof.
    intros (Hfmt & Hstd & Hs1 & Hs2 & Hs3 & Hne & Hev & Hlast) Hsplit Hk. rewrite Hsplit in *.
    unfold render, with_events. cbn [d_h1 d_h2 d_h3 d_events].
    set (evs' := (pre ++ set_rows e (dup_row k (e_rows e)) :: post)%list).
    assert (Hne' : evs' <> []) by (unfold evs'; destruct pre; discriminate).
    destruct (exists_last Hne') as (init & elast & Einit).
    assert (Hlen : List.length evs' = List.length (pre ++ e :: post)%list).
    { unfold evs'. rewrite !app_length. reflexivity. }
    pose proof (lwf_set fmt attrs (dup_row k (e_rows e)) pre e post 0 Hev
                  (Forall_dup_row _ k _ (wf_rows_of fmt attrs pre e post 0 Hev))) as Hl.
    pose proof (foot_last_set pre e post (dup_row k (e_rows e)) dflt_event) as Hf. fold evs' in Hl, Hf.
    pose proof (len_render_set pre e post (dup_row k (e_rows e))) as HL. fold evs' in HL.
    rewrite Einit in *.
    apply (extra_line tok_float tok_int pdg_valid d fmt attrs init elast (map LEN (pre ++ e :: post)%list) (List.length (pre ++ e :: post)%list)).
    - repeat split; assumption.
    - exact Hl.
    - rewrite last_last in Hf. rewrite Hf. exact Hlast.
    - rewrite <- Hlen, app_length. cbn [List.length]. lia.
    - rewrite total_decl_len. pose proof (dup_row_length k (e_rows e) Hk). lia.
  Qed.
End P.

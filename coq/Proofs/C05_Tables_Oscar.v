From Coq Require Import List ZArith QArith Bool String Lia.
From SX Require Import Model.PyRt Model.FilterSpec Model.CtorFilters Lib.PyRtLemmas Lib.FilterTac
  Gen.GenFilters Gen.GenDispatch Proofs.C05_Tables.
Import ListNotations.
Local Notation length := List.length.

Theorem apply_kwargs_Oscar_spec : forall d ev, NoDup (map fst d) -> spacetime_ok d ->
  gen_apply_kwargs_Oscar ev (VDict d) = ctor_spec gen_arity_Oscar gen_method_Oscar d ev.
Proof. tables_proof gen_apply_kwargs_Oscar gen_arity_Oscar gen_method_Oscar gen_dispatch_keys_Oscar. Qed.

(* The concrete document of the non-vacuity examples of Properties/C05Bridge.v and C04Bridge.v: three Oscar2013 events -
   event 0 = a charged and a neutral particle (IDs 7 and 1), event 1 empty, event 2 = one neutral particle (ID 1) -
   and the proof that it is well-formed. *)
From Coq Require Import List String ZArith QArith Bool Arith.
From SX Require Import Lib.Strs Gen.GenParticleMap Model.Oscar Model.OscarDoc Proofs.C01_Shapes.
Import ListNotations.
Local Open Scope string_scope.

Definition bx_tf := table [("200", Some (200#1)); ("0.5", Some (1#2)); ("-1.5", Some (-3#2)); ("0.938", Some (469#500));
                           ("2212", Some (2212#1)); ("7", Some (7#1)); ("1", Some (1#1)); ("0", Some 0); ("3.250", Some (13#4));
                           ("0.000", Some 0)]%Q.
Definition bx_ti := table [("200", Some (200#1)); ("2212", Some (2212#1)); ("7", Some (7#1)); ("2", Some (2#1));
                           ("1", Some (1#1)); ("0", Some 0)]%Q.
Definition bx_pv := pvtable [((2212#1)%Q, true)].
Definition bx_charged : line := ["200"; "0.5"; "-1.5"; "0.5"; "0.938"; "1"; "0.5"; "-1.5"; "0.5"; "2212"; "7"; "1"].
Definition bx_neutral : line := ["200"; "0.5"; "-1.5"; "0.5"; "0.938"; "1"; "0.5"; "-1.5"; "0.5"; "2212"; "1"; "0"].
Definition bx_doc : doc :=
  {| d_h1 := ["#!OSCAR2013"; "particle_lists"; "t"; "x"; "y"; "z"; "mass"; "p0"; "px"; "py"; "pz"; "pdg"; "ID"; "charge"];
     d_h2 := ["#"; "Units:"; "fm"]; d_h3 := ["#"; "SMASH-3.1"];
     d_events := [ {| e_head := ["#"; "event"; "0"; "out"; "2"]; e_rows := [bx_charged; bx_neutral];
                      e_foot := smash_footer "0" "3.250" "yes" |};
                   {| e_head := ["#"; "event"; "1"; "out"; "0"]; e_rows := [];
                      e_foot := smash_footer "1" "0.000" "no" |};
                   {| e_head := ["#"; "event"; "2"; "out"; "1"]; e_rows := [bx_neutral];
                      e_foot := smash_footer "2" "0.000" "no" |} ] |}.

(* the ID of a loaded particle (slot 11) *)
Definition bx_id (p : particle) : Z := match get_slot 11 p with Some q => Qnum q | None => 0%Z end.

Lemma bx_wf : wf bx_tf bx_ti bx_pv bx_doc "Oscar2013" [].
Proof.
  unfold wf. refine (conj eq_refl (conj (or_introl eq_refl) (conj eq_refl (conj eq_refl (conj eq_refl (conj _ (conj _ _))))))).
  - discriminate.
  - cbn [wf_events bx_doc d_events]. repeat split; try (match goal with |- _ = _ => vm_compute; reflexivity end).
    + exists "0", "2". repeat split; vm_compute; reflexivity.
    + constructor; [|constructor; [|constructor]]; (repeat split; try (vm_compute; reflexivity)); eexists; vm_compute; reflexivity.
    + eexists. vm_compute. reflexivity.
    + exists "1", "0". repeat split; vm_compute; reflexivity.
    + constructor.
    + eexists. vm_compute. reflexivity.
    + exists "2", "1". repeat split; vm_compute; reflexivity.
    + constructor; [|constructor]. (repeat split; try (vm_compute; reflexivity)); eexists; vm_compute; reflexivity.
    + eexists. vm_compute. reflexivity.
  - unfold wf_last. cbn. repeat split; try (vm_compute; reflexivity).
    + apply le_S, le_S, le_S, le_S, le_S, le_S, le_S, le_S, le_S, le_n.
    + exists "2". split; vm_compute; reflexivity.
Qed.

(* C19: edge cleaning - the (conditionally) sorted, de-duplicated edge list is strictly increasing, has the same
   elements, and cleaning is idempotent. *)
From Coq Require Import List ZArith QArith Bool Sorted Permutation Lia Lqa.
From SX Require Import Lib.Py Gen.GenCentrality Model.Centrality.
Import ListNotations.
Local Open Scope Q_scope.

Definition InQ (q : Q) (l : list Q) : Prop := exists a, In a l /\ a == q.

Lemma Qle_bool_false x y : Qle_bool x y = false -> y < x.
Proof.
  intros H. destruct (Qlt_le_dec y x) as [L|L]; [exact L|].
  apply Qle_bool_iff in L. congruence.
Qed.

Lemma existsb_Qeq_InQ x seen : existsb (Qeq_bool x) seen = true <-> InQ x seen.
Proof.
  rewrite existsb_exists. split.
  - intros (s & Hs & E). exists s. split; [exact Hs|]. apply Qeq_bool_iff in E. symmetry. exact E.
  - intros (s & Hs & E). exists s. split; [exact Hs|]. apply Qeq_bool_iff. symmetry. exact E.
Qed.

(* ---- sortedness test and sort ---------------------------------------------------------------------- *)
Lemma sorted_q_sorted l : sorted_q l = true -> StronglySorted Qle l.
Proof.
  intros H. apply Sorted_StronglySorted; [exact Qle_trans|].
  induction l as [|a t IH]; [constructor|].
  destruct t as [|b t']; [repeat constructor|].
  change (sorted_q (a :: b :: t')) with (Qle_bool a b && sorted_q (b :: t'))%bool in H.
  apply andb_true_iff in H. destruct H as [H1 H2].
  constructor; [apply IH, H2 | constructor; apply Qle_bool_iff, H1].
Qed.

Lemma sorted_sorted_q l : StronglySorted Qle l -> sorted_q l = true.
Proof.
  induction 1 as [|a t Ht IH Hall]; [reflexivity|].
  destruct t as [|b t']; [reflexivity|].
  change (sorted_q (a :: b :: t')) with (Qle_bool a b && sorted_q (b :: t'))%bool.
  rewrite IH, andb_true_r. apply Qle_bool_iff. inversion Hall; assumption.
Qed.

Lemma ins_asc_perm x l : Permutation (ins_asc x l) (x :: l).
Proof.
  induction l as [|y t IH]; cbn; [apply Permutation_refl|].
  destruct (Qle_bool x y); [apply Permutation_refl|].
  eapply perm_trans; [apply perm_skip, IH | apply perm_swap].
Qed.

Lemma ins_asc_sorted x l : StronglySorted Qle l -> StronglySorted Qle (ins_asc x l).
Proof.
  induction l as [|y t IH]; intros Hs; cbn; [repeat constructor|].
  inversion Hs as [|? ? Ht Hall]; subst.
  destruct (Qle_bool x y) eqn:E.
  - apply Qle_bool_iff in E. constructor; [exact Hs|]. constructor; [exact E|].
    rewrite Forall_forall in *. intros b Hb. eapply Qle_trans; [exact E | apply Hall, Hb].
  - apply Qle_bool_false in E. constructor; [apply IH, Ht|].
    rewrite Forall_forall in *. intros b Hb.
    apply (Permutation_in _ (ins_asc_perm x t)) in Hb. destruct Hb as [<-|Hb]; [apply Qlt_le_weak, E | apply Hall, Hb].
Qed.

Lemma sort_asc_perm l : Permutation (sort_asc l) l.
Proof.
  induction l as [|x t IH]; cbn; [constructor|].
  eapply perm_trans; [apply ins_asc_perm | apply perm_skip, IH].
Qed.

Lemma sort_asc_sorted l : StronglySorted Qle (sort_asc l).
Proof. induction l as [|x t IH]; cbn; [constructor | apply ins_asc_sorted, IH]. Qed.

Lemma sorted_edges_perm l : Permutation (sorted_edges l) l.
Proof. unfold sorted_edges. destruct (sorted_q l); [apply Permutation_refl | apply sort_asc_perm]. Qed.

Lemma sorted_edges_sorted l : StronglySorted Qle (sorted_edges l).
Proof.
  unfold sorted_edges. destruct (sorted_q l) eqn:E; [apply sorted_q_sorted, E | apply sort_asc_sorted].
Qed.

(* ---- de-duplication --------------------------------------------------------------------------------- *)
Lemma dedup_In a : forall l seen, In a (dedup seen l) -> In a l /\ ~ InQ a seen.
Proof.
  induction l as [|x t IH]; intros seen H; [destruct H|]. cbn in H.
  destruct (existsb (Qeq_bool x) seen) eqn:E.
  - destruct (IH _ H) as [H1 H2]. split; [right; exact H1 | exact H2].
  - destruct H as [<-|H].
    + split; [left; reflexivity|]. intros C. apply existsb_Qeq_InQ in C. congruence.
    + destruct (IH _ H) as [H1 H2]. split; [right; exact H1|].
      intros (s & Hs & Es). apply H2. exists s. split; [right; exact Hs | exact Es].
Qed.

Lemma dedup_InQ q : forall l seen, InQ q (dedup seen l) <-> InQ q l /\ ~ InQ q seen.
Proof.
  induction l as [|x t IH]; intros seen.
  - cbn. split; [intros (a & [] & _) | intros [(a & [] & _) _]].
  - cbn [dedup]. destruct (existsb (Qeq_bool x) seen) eqn:E.
    + rewrite IH. split.
      * intros [(a & Ha & Ea) N]. split; [exists a; split; [right; exact Ha | exact Ea] | exact N].
      * intros [(a & [<-|Ha] & Ea) N].
        -- exfalso. apply N. apply existsb_Qeq_InQ in E. destruct E as (s & Hs & Es).
           exists s. split; [exact Hs|]. rewrite Es. exact Ea.
        -- split; [exists a; split; assumption | exact N].
    + assert (Nx : ~ InQ x seen) by (intros C; apply existsb_Qeq_InQ in C; congruence).
      split.
      * intros (a & [<-|Ha] & Ea).
        -- split; [exists x; split; [left; reflexivity | exact Ea]|].
           intros (s & Hs & Es). apply Nx. exists s. split; [exact Hs|]. rewrite Es. symmetry. exact Ea.
        -- assert (Hq : InQ q (dedup (x :: seen) t)) by (exists a; split; assumption).
           apply IH in Hq. destruct Hq as [(b & Hb & Eb) N]. split; [exists b; split; [right; exact Hb | exact Eb]|].
           intros (s & Hs & Es). apply N. exists s. split; [right; exact Hs | exact Es].
      * intros [(a & Ha & Ea) N].
        destruct (Qeq_dec x q) as [Exq|Nxq].
        -- exists x. split; [left; reflexivity | exact Exq].
        -- destruct Ha as [<-|Ha]; [contradiction|].
           assert (Hq : InQ q (dedup (x :: seen) t)).
           { apply IH. split; [exists a; split; assumption|].
             intros (s & [<-|Hs] & Es); [contradiction | apply N; exists s; split; assumption]. }
           destruct Hq as (b & Hb & Eb). exists b. split; [right; exact Hb | exact Eb].
Qed.

Lemma dedup_strict : forall l seen, StronglySorted Qle l -> StronglySorted Qlt (dedup seen l).
Proof.
  induction l as [|x t IH]; intros seen Hs; [constructor|].
  inversion Hs as [|? ? Ht Hall]; subst. cbn.
  destruct (existsb (Qeq_bool x) seen); [apply IH, Ht|].
  constructor; [apply IH, Ht|]. rewrite Forall_forall in *. intros a Ha.
  destruct (dedup_In _ _ _ Ha) as [H1 H2]. specialize (Hall a H1).
  apply Qle_lteq in Hall. destruct Hall as [L|E]; [exact L|].
  exfalso. apply H2. exists x. split; [left; reflexivity | exact E].
Qed.

Lemma dedup_id : forall l seen, StronglySorted Qlt l -> (forall a, In a l -> ~ InQ a seen) -> dedup seen l = l.
Proof.
  induction l as [|x t IH]; intros seen Hs N; [reflexivity|].
  inversion Hs as [|? ? Ht Hall]; subst. cbn.
  destruct (existsb (Qeq_bool x) seen) eqn:E.
  - exfalso. apply (N x (or_introl eq_refl)). apply existsb_Qeq_InQ, E.
  - f_equal. apply IH; [exact Ht|]. intros a Ha (s & [<-|Hs'] & Es).
    + rewrite Forall_forall in Hall. specialize (Hall a Ha). rewrite Es in Hall. exact (Qlt_irrefl _ Hall).
    + apply (N a (or_intror Ha)). exists s. split; assumption.
Qed.

Lemma strict_sorted l : StronglySorted Qlt l -> StronglySorted Qle l.
Proof.
  induction 1 as [|a t Ht IH Hall]; constructor; [exact IH|].
  rewrite Forall_forall in *. intros b Hb. apply Qlt_le_weak, Hall, Hb.
Qed.

(* ---- the cleaned list ------------------------------------------------------------------------------- *)
Theorem clean_strict edges : StronglySorted Qlt (clean edges).
Proof. apply dedup_strict, sorted_edges_sorted. Qed.

Theorem clean_same_elements edges q : InQ q (clean edges) <-> InQ q edges.
Proof.
  unfold clean. rewrite dedup_InQ. split.
  - intros [(a & Ha & Ea) _]. exists a. split; [|exact Ea]. eapply Permutation_in; [apply sorted_edges_perm | exact Ha].
  - intros (a & Ha & Ea). split; [|intros (s & [] & _)].
    exists a. split; [|exact Ea]. eapply Permutation_in; [apply Permutation_sym, sorted_edges_perm | exact Ha].
Qed.

Lemma sorted_edges_clean edges : sorted_edges (clean edges) = clean edges.
Proof. unfold sorted_edges at 1. rewrite sorted_sorted_q; [reflexivity | apply strict_sorted, clean_strict]. Qed.

Theorem clean_idem edges : clean (clean edges) = clean edges.
Proof.
  unfold clean at 1. rewrite sorted_edges_clean. apply dedup_id; [apply clean_strict|].
  intros a _ (s & [] & _).
Qed.

Lemma out_of_range_comp a b : a == b -> out_of_range a = out_of_range b.
Proof.
  intros E. unfold out_of_range.
  assert (H1 : Qle_bool 0 a = Qle_bool 0 b).
  { apply eq_true_iff_eq. rewrite !Qle_bool_iff, E. reflexivity. }
  assert (H2 : Qle_bool a 100 = Qle_bool b 100).
  { apply eq_true_iff_eq. rewrite !Qle_bool_iff, E. reflexivity. }
  rewrite H1, H2. reflexivity.
Qed.

Lemma range_check_clean edges :
  existsb out_of_range (sorted_edges (clean edges)) = existsb out_of_range (sorted_edges edges).
Proof.
  rewrite sorted_edges_clean. apply eq_true_iff_eq. rewrite !existsb_exists. split.
  - intros (a & Ha & Oa). destruct (dedup_In _ _ _ Ha) as [H1 _]. exists a. split; assumption.
  - intros (a & Ha & Oa).
    assert (Hq : InQ a (clean edges)).
    { unfold clean. apply dedup_InQ. split; [exists a; split; [exact Ha | reflexivity] | intros (s & [] & _)]. }
    destruct Hq as (b & Hb & Eb). exists b. split; [exact Hb|]. rewrite (out_of_range_comp _ _ Eb). exact Oa.
Qed.

Lemma in_range_of_check l : existsb out_of_range l = false -> Forall (fun e => 0 <= e <= 100) l.
Proof.
  intros H. rewrite Forall_forall. intros e He.
  destruct (out_of_range e) eqn:E.
  - assert (existsb out_of_range l = true) by (apply existsb_exists; exists e; split; assumption). congruence.
  - unfold out_of_range in E. apply orb_false_iff in E. destruct E as [E1 E2].
    apply negb_false_iff in E1, E2. apply Qle_bool_iff in E1, E2. split; assumption.
Qed.

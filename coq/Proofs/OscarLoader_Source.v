(* The hand model Model/Oscar.v equals what tools/py2coq/gen_oscarloader.py regenerates from the source of
   sparkx/loader/OscarLoader.py and BaseLoader.py on every run (Gen/GenOscarLoader.v, Gallina over the Python/numpy
   fragment Model/OscarLoaderRt.v).  A file is given by its text; the theorems are about texts that are rendered
   lines: every line the join by single blanks of blank-free, newline-free tokens, followed by a newline
   (render_lines / line_ok of Model/OscarLoaderRt.v, where the vocabulary of the statements lives).
   Loops are handled through the behaviour of their bodies on one line / index (proved by computation from the
   generated text), so the proofs do not depend on how the translator names or nests its intermediate bindings.

   source_set_oscar_format / _set_custom_attr_list, source_set_num_events (byte-level backward search; _one_line),
   source_scan (header scan of the standard formats; scan_loop, source_scan_err), source_get_num_skip_lines /
   _get_num_read_lines / _skip_lines, source_set_particle_list (the read loop against read_loop / close_event),
   source_load / _ok / _err / _rejects, source_impact_parameter, source_check_tuple, source_accessors, source_init,
   source_example.  The header scans of the Oscar2013Extended_IC / _Photons formats are translated but have no
   counterpart in Model/Oscar.v and no theorem here. *)
From Coq Require Import List String Ascii ZArith QArith Bool Arith Lia.
From SX Require Import Lib.Strs Lib.StrLemmas Lib.Split Lib.DecStr Lib.CutSplit Gen.GenParticleMap Model.Oscar Model.OscarLoaderRt
  Gen.GenOscarLoader Proofs.OscarLoader_Lemmas.
Import ListNotations.
Local Open Scope string_scope.

Lemma assoc_map_OStr k (m : list (string * string)) :
  assoc k (map (fun kv => (fst kv, OStr (snd kv))) m) = option_map OStr (assoc k m).
Proof. induction m as [|[a b] m IH]; cbn; [reflexivity|]. destruct (String.eqb k a); [reflexivity|exact IH]. Qed.

(* for i in range(0, len(xs)): ... xs[i] ...  is a loop over the elements *)
Lemma fold_index {S A} (body : S -> ov -> result S) (g : S -> A -> result S) (xs : list A) :
  (forall s k x, nth_error xs k = Some x -> body s (OInt (Z.of_nat k)) = g s x) ->
  forall s, fold_leftM body (map OInt (zrange 0 (zlen xs))) s = fold_leftM g xs s.
Proof.
  intros Hb. unfold zrange, zlen. rewrite Z.sub_0_r, Nat2Z.id.
  assert (G : forall suf pre s, xs = (pre ++ suf)%list ->
            fold_leftM body (map OInt (zrange_n (Z.of_nat (List.length pre)) (List.length suf))) s = fold_leftM g suf s).
  { induction suf as [|x suf IH]; intros pre s E; [reflexivity|].
    cbn [List.length zrange_n map fold_leftM].
    rewrite (Hb s (List.length pre) x).
    - destruct (g s x) as [s'|e]; cbn [bind]; [|reflexivity].
      specialize (IH (pre ++ [x])%list s'). rewrite app_length in IH. cbn [List.length] in IH.
      replace (Z.of_nat (List.length pre + 1)) with (Z.of_nat (List.length pre) + 1)%Z in IH by lia.
      apply IH. rewrite <- app_assoc. exact E.
    - subst xs. rewrite nth_error_app2 by lia. rewrite Nat.sub_diag. reflexivity. }
  intros s. apply (G xs [] s). reflexivity.
Qed.

Lemma setattr_twice s a v w : py_setattr (py_setattr s a v) a w = py_setattr s a w.
Proof. destruct s, a; reflexivity. Qed.
Lemma getattr_set s a v : v <> OUnbound -> py_getattr (py_setattr s a v) a = Ok v.
Proof. intros H. destruct s, a; unfold py_getattr; cbn; destruct v; congruence. Qed.

Lemma getitem_list_nat l k :
  py_getitem (OList l) (OInt (Z.of_nat k)) = match nth_error l k with Some x => Ok x | None => Err IndexError end.
Proof. cbn [py_getitem as_int]. apply pyget_nat. Qed.

Lemma source_set_custom_attr_list self header :
  gen_set_custom_attr_list self (enc_strs header)
  = Ok (py_setattr self A_attrs (enc_strs (custom_attrs header)), enc_strs (custom_attrs header)).
Proof.
  unfold gen_set_custom_attr_list.
  cbv zeta.
  match goal with |- context [ODict ?d] => change d with (map (fun kv : string * string => (fst kv, OStr (snd kv))) gen_attr_map) end.
  unfold enc_strs at 1. cbn [py_len bind py_range as_int]. unfold zlen at 1. rewrite map_length. fold (zlen header).
  rewrite (fold_index _ (fun s h => match assoc h gen_attr_map with
                                    | Some a => v <- py_getattr s A_attrs ;; v' <- py_append v (OStr a) ;; Ok (py_setattr s A_attrs v')
                                    | None => Ok s end) header).
  - assert (G : forall hs acc, fold_leftM (fun s h => match assoc h gen_attr_map with
                                    | Some a => v <- py_getattr s A_attrs ;; v' <- py_append v (OStr a) ;; Ok (py_setattr s A_attrs v')
                                    | None => Ok s end) hs (py_setattr self A_attrs (enc_strs acc))
                 = Ok (py_setattr self A_attrs (enc_strs (acc ++ custom_attrs hs)))).
    { induction hs as [|h hs IH]; intros acc; cbn [fold_leftM custom_attrs flat_map]; [rewrite app_nil_r; reflexivity|].
      destruct (assoc h gen_attr_map) as [a|]; cbn [bind app].
      - rewrite getattr_set by discriminate. cbn [bind py_append enc_strs]. rewrite setattr_twice.
        change (OList (map OStr acc ++ [OStr a])) with (OList (map OStr acc ++ map OStr [a])).
        rewrite <- map_app. fold (enc_strs (acc ++ [a])). rewrite IH, <- app_assoc. reflexivity.
      - apply IH. }
    change (OList []) with (enc_strs []). rewrite (G header []). cbn [bind app].
    rewrite getattr_set by discriminate. reflexivity.
  - intros s k x Hk. unfold enc_strs. rewrite getitem_list_nat, nth_error_map_some, Hk. cbn [option_map bind py_dict_get].
    rewrite assoc_map_OStr. destruct (assoc x gen_attr_map) as [a|]; cbn [option_map py_is_none negb]; [|reflexivity].
    destruct (py_getattr s A_attrs) as [v|e]; cbn [bind]; [|reflexivity].
    destruct (py_append v (OStr a)); reflexivity.
Qed.

Lemma zlen_map {A B} (f : A -> B) l : zlen (map f l) = zlen l.
Proof. unfold zlen. rewrite map_length. reflexivity. Qed.
Lemma zlen_eqb_nat {A} (l : list A) n : (zlen l =? Z.of_nat n)%Z = (List.length l =? n)%nat.
Proof. unfold zlen. destruct (Nat.eqb_spec (List.length l) n); [apply Z.eqb_eq; lia|apply Z.eqb_neq; lia]. Qed.

Lemma pyslice_from_nat {A} (l : list A) k : pyslice_from l (Z.of_nat k) = skipn k l.
Proof.
  unfold pyslice_from, clamp. replace (Z.of_nat k <? 0)%Z with false by (symmetry; apply Z.ltb_ge; lia).
  unfold zlen. destruct (Nat.le_gt_cases k (List.length l)).
  - rewrite Z.min_l by lia. rewrite Nat2Z.id. reflexivity.
  - rewrite Z.min_r by lia. rewrite Nat2Z.id, skipn_all. symmetry. apply skipn_all2. lia.
Qed.

Lemma source_set_oscar_format self first rest : line_ok first -> o_text self = render_lines (first :: rest) ->
  gen_set_oscar_format self = match oscar_format first with Ok fa => Ok (fmt_state self fa, ONone) | Err e => Err e end.
Proof.
  intros Hl Ht. unfold gen_set_oscar_format. cbv zeta. unfold py_open. rewrite Ht.
  cbn [py_readline]. rewrite (read_line_lines first rest Hl). cbn [bind py_str_replace py_str_split].
  change (split_on " "%char) with (split_on sp). rewrite (tokens_of_line first Hl).
  change (OInt 0) with (OInt (Z.of_nat 0)); change (OInt 1) with (OInt (Z.of_nat 1)).
  rewrite !getitem_list_nat, !nth_error_map_some. cbn [py_len]. rewrite zlen_map.
  change (OInt 15) with (OInt (Z.of_nat 15)). change (OInt 23) with (OInt (Z.of_nat 23)).
  unfold oscar_format.
  destruct first as [|t0 tl]; [destruct Hl; congruence|].
  cbn [nth_error option_map bind py_eq as_int orM andM nth].
  rewrite !zlen_eqb_nat.
  destruct (List.length (t0 :: tl) =? 15)%nat eqn:E15; cbn [orb bind]; [reflexivity|].
  destruct (t0 =? "#!OSCAR2013") eqn:E1; cbn [bind]; [reflexivity|].
  destruct (t0 =? "#!OSCAR2013Extended") eqn:E2; cbn [andb bind].
  - destruct tl as [|t1 tl']; cbn [List.length Nat.ltb Nat.leb option_map bind nth py_eq]; [reflexivity|].
    destruct (t1 =? "SMASH_IC") eqn:E3; cbn [bind]; [reflexivity|].
    destruct (t1 =? "Photons") eqn:E4; cbn [bind]; [reflexivity|].
    rewrite orb_true_r. destruct (S (S (List.length tl')) =? 23)%nat; reflexivity.
  - rewrite orb_false_r. destruct (List.length (t0 :: tl) =? 23)%nat eqn:E23; cbn [bind]; [reflexivity|].
    destruct (t0 =? "#!ASCII") eqn:E5; [|reflexivity].
    change (OInt 2) with (OInt (Z.of_nat 2)). cbn [py_slice_from as_int]. rewrite pyslice_from_nat, skipn_map.
    cbn [bind]. fold (enc_strs (skipn 2 (t0 :: tl))). rewrite source_set_custom_attr_list. cbn [bind].
    unfold fmt_state. cbn [fst snd]. rewrite setattr_twice. reflexivity.
Qed.

Lemma source_set_oscar_format_empty self : o_text self = "" -> gen_set_oscar_format self = Err TypeError.
Proof. intros Ht. unfold gen_set_oscar_format. cbv zeta. unfold py_open. rewrite Ht. reflexivity. Qed.

Lemma in_keys k d :
  py_in (OStr k) (OList (map (fun kv : string * ov => OStr (fst kv)) d))
  = Ok (match assoc k d with Some _ => true | None => false end).
Proof.
  cbn [py_in]. induction d as [|[k' v] d IH]; [reflexivity|].
  cbn [map existsM fst py_eq bind assoc]. rewrite String.eqb_sym.
  destruct (String.eqb k k'); [reflexivity|exact IH].
Qed.

Lemma no_events_cond d :
  orM (notM (py_truthy (ODict d))) (v <- py_keys (ODict d) ;; py_not_in (OStr "events") v)
  = Ok (match assoc "events" d with Some _ => false | None => true end).
Proof.
  cbn [py_truthy notM bind py_keys]. unfold py_not_in. rewrite in_keys. cbn [notM bind orM].
  destruct d as [|kv d]; [reflexivity|]. cbn [is_nil negb]. destruct (assoc "events" (kv :: d)); reflexivity.
Qed.


Lemma getitem_dict d k : py_getitem (ODict d) (OStr k) = match assoc k d with Some v => Ok v | None => Err KeyError end.
Proof. reflexivity. Qed.

Lemma cnt_get rows i :
  py_getitem (OArr (cnt_of rows)) (OTuple [OInt (Z.of_nat i); OInt 1]) = (c <- zcount rows i ;; Ok (ONpInt c)).
Proof.
  unfold zcount. destruct rows as [|r0 rows].
  - destruct i; reflexivity.
  - cbn [cnt_of py_getitem as_int]. rewrite pyget_nat.
    destruct (nth_error (r0 :: rows) i); reflexivity.
Qed.

Lemma as_int_int_like a b z : as_int (int_like a b z) = Some z.
Proof. destruct a, b; reflexivity. Qed.
Lemma py_add_int x y a b : as_int x = Some a -> as_int y = Some b ->
  exists w, py_add x y = Ok w /\ as_int w = Some (a + b)%Z.
Proof. intros Hx Hy. unfold py_add. rewrite Hx, Hy. eexists. split; [reflexivity|apply as_int_int_like]. Qed.

Lemma fold_sum_counts (body : ov -> ov -> result ov) rows :
  (forall acc a i, as_int acc = Some a ->
     int_of id (body acc (OInt (Z.of_nat i))) (c <- zcount rows i ;; Ok (a + (c + 2))%Z)) ->
  forall n from acc a, as_int acc = Some a ->
  int_of id (fold_leftM body (map OInt (zrange_n (Z.of_nat from) n)) acc) (r <- sum_counts rows from n ;; Ok (a + r)%Z).
Proof.
  intros Hb. induction n as [|n IH]; intros from acc a Ha.
  - cbn. exists acc. split; [reflexivity|]. rewrite Z.add_0_r. exact Ha.
  - cbn [zrange_n map fold_leftM sum_counts]. specialize (Hb acc a from Ha).
    destruct (zcount rows from) as [c|e]; cbn [bind int_of] in *.
    + destruct Hb as (v & Hv & Hav). unfold id in Hv. rewrite Hv. cbn [bind].
      replace (Z.of_nat from + 1)%Z with (Z.of_nat (S from)) by lia.
      specialize (IH (S from) v _ Hav).
      destruct (sum_counts rows (S from) n) as [r|e]; cbn [bind int_of] in *.
      * destruct IH as (w & Hw & Haw). exists w. split; [exact Hw|]. rewrite Haw. f_equal. lia.
      * exact IH.
    + rewrite Hb. reflexivity.
Qed.

(* take the body of the loop in the goal, state lemma L about it, leave its premise as the first goal *)
Ltac with_loop L G :=
  match goal with |- context [fold_leftM ?b _ _] => pose proof (L b) as G; cbv beta in G end;
  match type of G with (?P -> _) => let Hb := fresh "Hb" in assert (Hb : P); [clear G|specialize (G Hb); clear Hb] end.

(* the loop `for i in range(0, n): cumulate_lines += counts[i, 1] + 2` followed by `skip_lines = 3 + cumulate_lines` *)
Ltac skip_loop rows n :=
  let G := fresh "G" in
  with_loop (fun b => fold_sum_counts b rows) G;
  [ let acc := fresh "acc" in let a := fresh "a" in let i := fresh "i" in let Ha := fresh "Ha" in
    intros acc a i Ha; cbn [bind]; rewrite cnt_get;
    let c := fresh "c" in
    destruct (zcount rows i) as [c|?]; cbn [bind int_of]; [|reflexivity];
    change (py_add (ONpInt c) (OInt 2)) with (Ok (ONpInt (c + 2))); cbn [bind];
    let w := fresh "w" in let Hw := fresh "Hw" in let Haw := fresh "Haw" in
    destruct (py_add_int acc (ONpInt (c + 2)) a (c + 2) Ha eq_refl) as (w & Hw & Haw);
    rewrite Hw; exists w; split; [reflexivity|exact Haw]
  | specialize (G n 0%nat (OInt 0) 0%Z eq_refl); cbn [Z.of_nat] in G;
    let r := fresh "r" in
    destruct (sum_counts rows 0 n) as [r|?]; cbn [bind int_of] in *;
    [ let v := fresh "v" in let Hv := fresh "Hv" in let Hav := fresh "Hav" in
      destruct G as (v & Hv & Hav); unfold id in Hv; rewrite Hv; cbn [bind];
      let w := fresh "w" in let Hw := fresh "Hw" in let Haw := fresh "Haw" in
      destruct (py_add_int (OInt 3) v 3 _ eq_refl Hav) as (w & Hw & Haw); rewrite Hw; cbn [bind];
      exists w; split; [reflexivity|exact Haw]
    | rewrite G; reflexivity ] ].

Lemma source_get_num_skip_lines self d sel rows :
  o_opts self = ODict d -> assoc "events" d = sel_val sel -> o_cnt self = OArr (cnt_of rows) ->
  int_of (pair self) (gen_get_num_skip_lines self) (num_skip sel rows).
Proof.
  intros Ho Hs Hc. destruct self as [text path fmt opts ends nev cnt attrs]. cbn in Ho, Hc. subst opts cnt.
  unfold gen_get_num_skip_lines. cbn [py_getattr attr_get o_opts o_cnt bind].
  rewrite no_events_cond, !getitem_dict, Hs.
  destruct sel as [|k|a b]; cbn [sel_val bind py_isinstance py_eq as_int num_skip int_of].
  - eexists. split; reflexivity.
  - destruct (k =? 0)%Z eqn:Ek; cbn [bind].
    + apply Z.eqb_eq in Ek. subst k. cbn. eexists. split; reflexivity.
    + cbn [py_range as_int bind]. unfold zrange. rewrite Z.sub_0_r. skip_loop rows (Z.to_nat k).
  - change (py_getitem (OTuple [OInt a; OInt b]) (OInt 0)) with (Ok (OInt a)). cbn [bind py_eq as_int].
    destruct (a =? 0)%Z eqn:Ea; cbn [bind].
    + apply Z.eqb_eq in Ea. subst a. cbn. eexists. split; reflexivity.
    + cbn [py_range as_int bind]. unfold zrange. rewrite Z.sub_0_r. skip_loop rows (Z.to_nat a).
Qed.

Lemma zsum_snd (rows : list (Z * Z)) : zsum (map snd rows) = fold_right (fun c acc => (snd c + acc)%Z) 0%Z rows.
Proof. induction rows as [|r rows IH]; [reflexivity|]. cbn. unfold zsum in IH. rewrite IH. reflexivity. Qed.

Lemma source_get_num_read_lines ti self d sel rows :
  o_opts self = ODict d -> assoc "events" d = sel_val sel -> sel_nonneg sel -> o_cnt self = OArr (cnt_of rows) ->
  int_of (pair self) (gen_get_num_read_lines ti self) (num_read sel rows).
Proof.
  intros Ho Hs Hn Hc. destruct self as [text path fmt opts ends nev cnt attrs]. cbn in Ho, Hc. subst opts cnt.
  unfold gen_get_num_read_lines. cbn [py_getattr attr_get o_opts o_cnt bind].
  rewrite no_events_cond, !getitem_dict, Hs.
  destruct sel as [|k|a b]; cbn [sel_val bind py_isinstance py_eq as_int num_read int_of sel_nonneg] in *.
  - destruct rows as [|r0 rows]; [reflexivity|].
    cbn [cnt_of py_np_sum_axis0 bind py_getitem as_int py_len py_mul int_like py_int py_add].
    change (pyget [zsum (map fst (r0 :: rows)); zsum (map snd (r0 :: rows))] 1) with (Ok (zsum (map snd (r0 :: rows)))).
    cbn [bind]. eexists. split; [reflexivity|]. cbn [as_int]. rewrite zsum_snd. reflexivity.
  - rewrite <- (Z2Nat.id k Hn) at 1. rewrite cnt_get.
    destruct (zcount rows (Z.to_nat k)) as [c|e]; cbn [bind]; [|reflexivity].
    eexists. split; reflexivity.
  - change (py_getitem (OTuple [OInt a; OInt b]) (OInt 0)) with (Ok (OInt a)).
    change (py_getitem (OTuple [OInt a; OInt b]) (OInt 1)) with (Ok (OInt b)).
    cbn [bind py_add as_int int_like py_range]. unfold zrange.
    replace (b + 1 - a)%Z with (b - a + 1)%Z by lia. rewrite <- (Z2Nat.id a Hn) at 1.
    with_loop (fun bd => fold_sum_counts bd rows) G.
    { intros acc x i Hx. rewrite cnt_get. destruct (zcount rows i) as [c|e]; cbn [bind int_of]; [|reflexivity].
      change (py_add (ONpInt c) (OInt 2)) with (Ok (ONpInt (c + 2))). cbn [bind py_int].
      destruct (py_add_int acc (OInt (c + 2)) x (c + 2) Hx eq_refl) as (w & Hw & Haw).
      rewrite Hw. exists w. split; [reflexivity|exact Haw]. }
    specialize (G (Z.to_nat (b - a + 1)) (Z.to_nat a) (OInt 0) 0%Z eq_refl).
    destruct (sum_counts rows (Z.to_nat a) (Z.to_nat (b - a + 1))) as [r|e]; cbn [bind int_of] in *.
    + destruct G as (v & Hv & Hav). unfold id in Hv. rewrite Hv. cbn [bind]. exists v. split; [reflexivity|exact Hav].
    + rewrite G. reflexivity.
Qed.


Lemma readline_lines l t : line_ok l ->
  py_readline (OFile (render_lines (l :: t))) = Ok (OFile (render_lines t), OStr (render_line l)).
Proof. intros H. cbn [py_readline]. rewrite (read_line_lines l t H). reflexivity. Qed.
Lemma readline_eof : py_readline (OFile "") = Ok (OFile "", OStr "").
Proof. reflexivity. Qed.

(* a `while True:` loop that reads a file line by line until readline() returns "" *)
Lemma while_lines {T X} (body : T -> result (lres T)) (mk : X -> string -> T) (step : X -> line -> result X) :
  (forall x l rest, line_ok l ->
     body (mk x (render_lines (l :: rest)))
     = match step x l with Ok x' => Ok (LNext (mk x' (render_lines rest))) | Err e => Err e end) ->
  (forall x, body (mk x "") = Ok (LBreak (mk x ""))) ->
  forall ls x fuel, Forall line_ok ls -> (List.length ls < fuel)%nat ->
  py_while fuel body (mk x (render_lines ls))
  = match fold_leftM step ls x with Ok x' => Ok (mk x' "") | Err e => Err e end.
Proof.
  intros H1 H2. induction ls as [|l ls IH]; intros x fuel Hok Hf.
  - destruct fuel as [|fuel]; [cbn in Hf; lia|]. cbn [py_while render_lines fold_leftM]. rewrite H2. reflexivity.
  - destruct fuel as [|fuel]; [cbn in Hf; lia|]. inversion Hok as [|? ? Hl Hls]; subst.
    cbn [py_while fold_leftM]. rewrite (H1 x l ls Hl).
    destruct (step x l) as [x'|e]; cbn [bind]; [|reflexivity].
    apply IH; [exact Hls|cbn in Hf; lia].
Qed.

Lemma lines_le_length ls : (List.length ls <= String.length (render_lines ls))%nat.
Proof.
  induction ls as [|l ls IH]; [cbn; lia|]. cbn [render_lines List.length]. rewrite length_append. cbn [String.length]. lia.
Qed.

Lemma render_line_nonempty l : (render_line l =? "") = false.
Proof. unfold render_line. destruct (join sp l); reflexivity. Qed.

Section Scan.
  Variable ti : string -> option Q.

  Lemma kind_scan_raw l : line_ok l ->
    kind_scan l = if contains "#" (render_line l) && contains " end " (render_line l) then SEnd
                  else if contains "#" (render_line l) && contains " out " (render_line l) then SOut else SOther.
  Proof.
    intros H. pose proof (raw_kind_scan l H) as E. injection E as -> -> ->. reflexivity.
  Qed.

  Definition scan_mk text path fmt opts nev cnt attrs (x : list ov * list ov) (txt : string) : ov * oself * ov :=
    (OFile txt, mkO text path fmt opts (OList (snd x)) nev cnt attrs, OList (fst x)).
  Definition scan_step (x : list ov * list ov) (l : line) : result (list ov * list ov) :=
    let '(evo, E) := x in
    match kind_scan l with
    | SEnd => Ok (evo, E ++ [OStr (render_line l)])%list
    | SOut => match nth_error l 2 with
              | None => Err IndexError
              | Some e => match nth_error l 4 with
                          | None => Err IndexError
                          | Some c => match ti c with
                                      | None => Err ValueError
                                      | Some q => Ok (evo ++ [OList [OStr e; OInt (to_Z q)]], E)%list
                                      end
                          end
              end
    | SOther => Ok x
    end.

  Lemma scan_fold ls : labels_ok ti ls -> forall evo E,
    match scan ti ls with
    | Ok (cs, fs) => exists ent, fold_leftM scan_step ls (evo, E) = Ok (evo ++ ent, E ++ map (fun l => OStr (render_line l)) fs)%list
                                 /\ mapM (row_int ti) ent = Ok cs
    | Err e => fold_leftM scan_step ls (evo, E) = Err e
    end.
  Proof.
    induction 1 as [|l ls Hl _ IH]; intros evo E.
    - cbn. exists []. rewrite !app_nil_r. split; reflexivity.
    - cbn [scan fold_leftM scan_step]. destruct (kind_scan l) eqn:K.
      + specialize (IH evo (E ++ [OStr (render_line l)])%list). cbn [bind].
        destruct (scan ti ls) as [[cs fs]|e]; cbn [bind fst snd].
        * destruct IH as (ent & Hf & Hm). exists ent. rewrite Hf. cbn [map]. rewrite <- app_assoc. split; [reflexivity|exact Hm].
        * exact IH.
      + destruct (nth_error l 2) as [e|] eqn:E2; [|reflexivity].
        destruct (nth_error l 4) as [c|] eqn:E4; [|reflexivity].
        specialize (Hl eq_refl e eq_refl).
        destruct (ti e) as [ev|] eqn:Te; [|congruence].
        destruct (ti c) as [cn|] eqn:Tc; [|reflexivity]. cbn [bind].
        specialize (IH (evo ++ [OList [OStr e; OInt (to_Z cn)]])%list E).
        destruct (scan ti ls) as [[cs fs]|e']; cbn [bind fst snd].
        * destruct IH as (ent & Hf & Hm). exists (OList [OStr e; OInt (to_Z cn)] :: ent). rewrite Hf.
          rewrite <- app_assoc. split; [reflexivity|]. cbn [mapM row_int cell_int bind]. rewrite Te, Hm. reflexivity.
        * exact IH.
      + cbn [bind]. apply IH.
  Qed.

  Lemma mapM_length {A B} (f : A -> result B) l r : mapM f l = Ok r -> List.length r = List.length l.
  Proof.
    revert r; induction l as [|x l IH]; intros r H; cbn in H; [injection H as <-; reflexivity|].
    destruct (f x); cbn in H; [|discriminate]. destruct (mapM f l) as [r'|]; cbn in H; [|discriminate].
    injection H as <-. cbn. rewrite (IH r' eq_refl). reflexivity.
  Qed.

  (* the scan loop of the source, as a fold of scan_step over the lines; then the conversion of the table *)
  Lemma scan_loop path fmt opts E nev cnt attrs ls :
    Forall line_ok ls -> fmt <> "Oscar2013Extended_IC" -> fmt <> "Oscar2013Extended_Photons" ->
    gen_set_num_output_per_event_and_event_footers ti (mkO (render_lines ls) path (OStr fmt) opts (OList E) nev cnt attrs)
    = match fold_leftM scan_step ls ([], E) with
      | Ok (ent, E') => c <- py_np_array_int32_2d ti (OList ent) ;;
                        Ok (mkO (render_lines ls) path (OStr fmt) opts (OList E') nev c attrs, ONone)
      | Err e => Err e
      end.
  Proof.
    intros Hok H1 H2. unfold gen_set_num_output_per_event_and_event_footers. cbv zeta.
    cbn [py_getattr attr_get o_fmt bind py_ne py_eq notM andM py_open o_text].
    apply String.eqb_neq in H1, H2. rewrite H1, H2. cbn [negb bind].
    match goal with |- context [py_while ?f ?b ?s] =>
      pose proof (while_lines b (scan_mk (render_lines ls) path (OStr fmt) opts nev cnt attrs) scan_step) as W end.
    cbv beta in W.
    match type of W with (?P -> ?Q -> _) => assert (W1 : P); [|assert (W2 : Q); [|specialize (W W1 W2); clear W1 W2]] end.
    - intros [evo E'] l rest Hl. unfold scan_mk. cbn [fst snd]. cbv iota beta.
      rewrite (readline_lines l rest Hl). cbv iota beta. cbn [py_truthy notM bind negb].
      rewrite render_line_nonempty. cbn [negb py_in andM bind].
      unfold scan_step. rewrite (kind_scan_raw l Hl).
      destruct (contains "#" (render_line l)); cbn [andb bind]; [|reflexivity].
      destruct (contains " end " (render_line l)); cbn [bind].
      { cbn [py_getattr attr_get o_ends py_append bind py_setattr]. reflexivity. }
      destruct (contains " out " (render_line l)); cbn [bind]; [|reflexivity].
      cbn [py_str_replace py_str_split bind]. change (split_on " "%char) with (split_on sp).
      rewrite (tokens_of_line l Hl).
      change (OInt 2) with (OInt (Z.of_nat 2)). change (OInt 4) with (OInt (Z.of_nat 4)).
      rewrite !getitem_list_nat, !nth_error_map_some.
      destruct (nth_error l 2) as [e|]; cbn [option_map bind]; [|reflexivity].
      destruct (nth_error l 4) as [c|]; cbn [option_map bind py_int]; [|reflexivity].
      destruct (ti c) as [q|]; cbn [bind py_append]; reflexivity.
    - intros [evo E']. reflexivity.
    - specialize (W ls ([], E) (py_fuel [OFile (render_lines ls); OList []]) Hok).
      unfold scan_mk at 1 in W. cbn [fst snd] in W. rewrite W.
      2:{ unfold py_fuel. cbn [fold_right fuel_of]. pose proof (lines_le_length ls). lia. }
      destruct (fold_leftM scan_step ls ([], E)) as [[ent E']|e]; [|reflexivity].
      cbn [bind scan_mk fst snd]. cbv iota beta.
      destruct (py_np_array_int32_2d ti (OList ent)); reflexivity.
  Qed.

  Theorem source_scan path fmt opts E nev cnt attrs ls :
    Forall line_ok ls -> fmt <> "Oscar2013Extended_IC" -> fmt <> "Oscar2013Extended_Photons" -> labels_ok ti ls ->
    gen_set_num_output_per_event_and_event_footers ti (mkO (render_lines ls) path (OStr fmt) opts (OList E) nev cnt attrs)
    = match scan ti ls with
      | Ok (cs, fs) => Ok (mkO (render_lines ls) path (OStr fmt) opts (OList (E ++ map (fun l => OStr (render_line l)) fs)) nev
                               (OArr (cnt_of cs)) attrs, ONone)
      | Err e => Err e
      end.
  Proof.
    intros Hok H1 H2 Hlab. rewrite (scan_loop path fmt opts E nev cnt attrs ls Hok H1 H2).
    pose proof (scan_fold ls Hlab [] E) as G.
    destruct (scan ti ls) as [[cs fs]|e].
    - destruct G as (ent & Hf & Hm). rewrite Hf. cbn [app].
      assert (Hc : py_np_array_int32_2d ti (OList ent) = Ok (OArr (cnt_of cs))).
      { destruct ent as [|x ent].
        - cbn in Hm. injection Hm as <-. reflexivity.
        - cbn [py_np_array_int32_2d]. rewrite Hm. cbn [bind].
          pose proof (mapM_length _ _ _ Hm) as Hlen. destruct cs; [discriminate|reflexivity]. }
      rewrite Hc. reflexivity.
    - rewrite G. reflexivity.
  Qed.
End Scan.


Lemma set_row_spec {A} k (v : A) l :
  set_row k v l = if (k <? List.length l)%nat then Ok (firstn k l ++ v :: skipn (S k) l)%list else Err IndexError.
Proof.
  revert k; induction l as [|x l IH]; intros [|k]; try reflexivity.
  cbn [set_row List.length]. rewrite IH. change (S k <? S (List.length l))%nat with (k <? List.length l)%nat.
  destruct (k <? List.length l)%nat; reflexivity.
Qed.
Lemma pyset_set_row {A} (l : list A) k v : pyset l (Z.of_nat k) v = set_row k v l.
Proof.
  rewrite set_row_spec. unfold pyset, zlen. cbv zeta.
  assert (Hk : (Z.of_nat k <? 0)%Z = false) by (apply Z.ltb_ge; lia). rewrite !Hk. cbn [orb]. rewrite Nat2Z.id.
  destruct (Nat.ltb_spec k (List.length l)).
  - replace (Z.of_nat (List.length l) <=? Z.of_nat k)%Z with false by (symmetry; apply Z.leb_gt; lia). reflexivity.
  - replace (Z.of_nat (List.length l) <=? Z.of_nat k)%Z with true by (symmetry; apply Z.leb_le; lia). reflexivity.
Qed.

Lemma set_row_nonempty {A} k (v : A) l l' : set_row k v l = Ok l' -> l' <> [].
Proof.
  destruct l as [|x l]; [destruct k; discriminate|]. destruct k as [|k]; cbn.
  - intros H. injection H as <-. discriminate.
  - destruct (set_row k v l); cbn; intros H; [injection H as <-; discriminate|discriminate].
Qed.

Lemma setitem_inj c k a b :
  py_setitem (OArr (inj_cnt c)) (OInt (Z.of_nat k)) (OTuple [OInt a; OInt b])
  = (c' <- set_row k (a, b) c ;; Ok (OArr (inj_cnt c'))).
Proof.
  destruct c as [|r c].
  - cbn [inj_cnt py_setitem as_int]. rewrite pyget_nat. destruct k; reflexivity.
  - cbn [inj_cnt py_setitem as_int]. rewrite pyset_set_row.
    destruct (set_row k (a, b) (r :: c)) as [c'|e] eqn:E; cbn [bind]; [|reflexivity].
    apply set_row_nonempty in E. destruct c'; [congruence|reflexivity].
Qed.

Lemma delete_nth_row {A} k (l : list A) : delete_nth k l = delete_row k l.
Proof. revert k; induction l as [|x l IH]; intros [|k]; cbn; try reflexivity; f_equal; apply IH. Qed.

Lemma delete_inj c k :
  (v <- py_np_delete_axis0 (OArr (inj_cnt c)) (OInt (Z.of_nat k)) ;; py_np_atleast_2d v)
  = if (k <? List.length c)%nat then Ok (OArr (A2 (delete_row k c))) else Err IndexError.
Proof.
  destruct c as [|r c].
  - cbn [inj_cnt py_np_delete_axis0 as_int]. unfold zlen. cbn [List.length]. cbv zeta.
    assert (Hk : (Z.of_nat k <? 0)%Z = false) by (apply Z.ltb_ge; lia). rewrite !Hk.
    replace (Z.of_nat 0 <=? Z.of_nat k)%Z with true by (symmetry; apply Z.leb_le; lia). destruct k; reflexivity.
  - cbn [inj_cnt py_np_delete_axis0 as_int]. unfold zlen. cbv zeta.
    assert (Hk : (Z.of_nat k <? 0)%Z = false) by (apply Z.ltb_ge; lia). rewrite !Hk. cbn [orb].
    destruct (Nat.ltb_spec k (List.length (r :: c))).
    + replace (Z.of_nat (List.length (r :: c)) <=? Z.of_nat k)%Z with false by (symmetry; apply Z.leb_gt; lia).
      cbn [bind py_np_atleast_2d]. rewrite Nat2Z.id, delete_nth_row. reflexivity.
    + replace (Z.of_nat (List.length (r :: c)) <=? Z.of_nat k)%Z with true by (symmetry; apply Z.leb_le; lia). reflexivity.
Qed.

Lemma clamp_nat k n : (k <= n)%nat -> clamp (Z.of_nat k) (Z.of_nat n) = k.
Proof. intros H. unfold clamp. replace (Z.of_nat k <? 0)%Z with false by (symmetry; apply Z.ltb_ge; lia). rewrite Z.min_l by lia. apply Nat2Z.id. Qed.

Lemma isub_dec r k : (k < List.length r)%nat ->
  py_isub_colslice (OArr (A2 r)) (OInt (Z.of_nat k)) (OInt 0) (OInt 1) = Ok (OArr (A2 (dec_labels_from k r))).
Proof.
  intros H. cbn [py_isub_colslice as_int col_of Z.eqb orb]. unfold zlen. rewrite clamp_nat by lia. reflexivity.
Qed.
Lemma dec_labels_all r k : (List.length r <= k)%nat -> dec_labels_from k r = r.
Proof. intros H. unfold dec_labels_from. rewrite firstn_all2, skipn_all2 by lia. apply app_nil_r. Qed.
Lemma dec_labels_length r k : List.length (dec_labels_from k r) = List.length r.
Proof.
  unfold dec_labels_from. rewrite app_length, map_length, firstn_length, skipn_length. lia.
Qed.


Lemma fold_readlines (body : ov -> ov -> result ov) :
  (forall f i, body f i = (r <- py_readline f ;; Ok (fst r))) ->
  forall n a ls, Forall line_ok ls ->
  fold_leftM body (map OInt (zrange_n a n)) (OFile (render_lines ls)) = Ok (OFile (render_lines (skipn n ls))).
Proof.
  intros Hb. induction n as [|n IH]; intros a ls Hok; [reflexivity|].
  cbn [zrange_n map fold_leftM]. rewrite Hb. destruct ls as [|l ls].
  - change (render_lines []) with "". rewrite readline_eof. cbn [bind fst]. change "" with (render_lines []).
    rewrite (IH _ [] Hok). destruct n; reflexivity.
  - inversion Hok as [|? ? Hl Hls]; subst. rewrite (readline_lines l ls Hl). cbn [bind fst skipn]. apply IH, Hls.
Qed.

Lemma range_int v z : as_int v = Some z -> py_range (OInt 0) v = Ok (map OInt (zrange_n 0 (Z.to_nat z))).
Proof. intros H. unfold py_range. cbn [as_int]. rewrite H. unfold zrange. rewrite Z.sub_0_r. reflexivity. Qed.

Lemma source_skip_lines self d sel rows ls :
  o_opts self = ODict d -> assoc "events" d = sel_val sel -> o_cnt self = OArr (cnt_of rows) -> Forall line_ok ls ->
  gen_skip_lines self (OFile (render_lines ls))
  = match num_skip sel rows with
    | Ok z => Ok (self, OFile (render_lines (skipn (Z.to_nat z) ls)), ONone)
    | Err e => Err e
    end.
Proof.
  intros Ho Hs Hc Hok. unfold gen_skip_lines.
  pose proof (source_get_num_skip_lines self d sel rows Ho Hs Hc) as G.
  destruct (num_skip sel rows) as [z|e]; cbn [int_of] in G.
  - destruct G as (v & Hv & Hav). rewrite Hv. cbn [bind]. cbv zeta. rewrite (range_int v z Hav). cbn [bind].
    rewrite fold_readlines; [reflexivity| |exact Hok].
    intros f i. destruct (py_readline f) as [[f' x]|e]; reflexivity.
  - rewrite G. reflexivity.
Qed.

Lemma sel_ok_nonneg sel : sel_ok sel -> sel_nonneg sel.
Proof. destruct sel; cbn; lia. Qed.

Lemma pyslice_slice {A} (l : list A) a b : (0 <= a <= b)%Z ->
  pyslice l a (b + 1) = slice (Z.to_nat a) (Z.to_nat (b - a + 1)) l.
Proof.
  intros H. unfold pyslice, slice, clamp, zlen.
  replace (a <? 0)%Z with false by (symmetry; apply Z.ltb_ge; lia).
  replace (b + 1 <? 0)%Z with false by (symmetry; apply Z.ltb_ge; lia).
  destruct (Z.le_gt_cases a (Z.of_nat (List.length l))) as [Ha|Ha].
  - rewrite (Z.min_l a) by lia. destruct (Z.le_gt_cases (b + 1) (Z.of_nat (List.length l))) as [Hb|Hb].
    + rewrite Z.min_l by lia. f_equal. lia.
    + rewrite Z.min_r by lia. rewrite Nat2Z.id.
      rewrite !firstn_all2; [reflexivity| |]; rewrite skipn_length; lia.
  - rewrite (Z.min_r a) by lia. rewrite Nat2Z.id. rewrite skipn_all. rewrite (skipn_all2 l) by lia.
    rewrite !firstn_nil. reflexivity.
Qed.

Lemma sum_counts_first rows from n r : sum_counts rows from (S n) = Ok r -> nth_error rows from <> None.
Proof. cbn. unfold zcount. destruct (nth_error rows from); [discriminate|]. cbn. discriminate. Qed.

Lemma slice_nonempty {A} (l : list A) from n : nth_error l from <> None -> slice from (S n) l <> [].
Proof.
  intros H. unfold slice. destruct (skipn from l) as [|x r] eqn:E; [|discriminate].
  exfalso. apply H. apply nth_error_None. assert (Hl := skipn_length from l). rewrite E in Hl. cbn in Hl. lia.
Qed.

Lemma num_read_nonempty sel rows nr : sel_ok sel -> num_read sel rows = Ok nr ->
  rows <> [] /\ sel_counts sel rows <> [].
Proof.
  intros Hs H. destruct sel as [|k|a b]; cbn [num_read sel_counts sel_ok] in *.
  - destruct rows; [discriminate|]. split; discriminate.
  - unfold zcount in H. destruct (nth_error rows (Z.to_nat k)) eqn:E; [|discriminate].
    split; [destruct rows; [destruct (Z.to_nat k); discriminate|discriminate]|].
    apply slice_nonempty. congruence.
  - replace (Z.to_nat (b - a + 1)) with (S (Z.to_nat (b - a))) in * by lia.
    apply sum_counts_first in H. split; [destruct rows; [destruct (Z.to_nat a); cbn in H; congruence|discriminate]|].
    apply slice_nonempty, H.
Qed.

Section ReadLoop.
  Variables tf ti : string -> option Q.
  Variable pv : Q -> bool.
  Variable F : ov -> list particle -> list particle.
  Variables (text : string) (path : ov) (fmt : string) (d : list (string * ov)) (ends nev : ov) (attrs : list string).
  Variable first : Z.

  Definition base (c : list (Z * Z)) : oself :=
    mkO text path (OStr fmt) (ODict d) ends nev (OArr (inj_cnt c)) (enc_strs attrs).
  Definition rl_mk (st : lstate) (rest : list line) : ov * ov * oself * ov * ov :=
    (OFile (render_lines rest), enc_parts (data st), base (counts st), enc_events (plist st), OInt (cut st)).
  Definition add_row (st : lstate) (p : particle) : lstate :=
    {| plist := plist st; data := (data st ++ [p])%list; counts := counts st; cut := cut st |}.
  Definition first_bad (l : line) : bool := negb (has "#" l) && negb (has "out" l).
  Definition rl_step (i : Z) (st : lstate) (l : line) (rest : list line) : result (ov * ov * oself * ov * ov) :=
    if (i =? 0)%Z && first_bad l then Err ValueError
    else match kind_loop l with
         | KSkip => Ok (rl_mk st rest)
         | KEnd => st' <- close_event (flt_of F d) first st ;; Ok (rl_mk st' rest)
         | KBad => Err ValueError
         | KRow => p <- mk_particle tf ti pv fmt attrs l ;; Ok (rl_mk (add_row st p) rest)
         end.

  Lemma fold_read_loop (body : ov * ov * oself * ov * ov -> ov -> result (ov * ov * oself * ov * ov)) :
    (forall st l rest i, line_ok l -> body (rl_mk st (l :: rest)) (OInt i) = rl_step i st l rest) ->
    (forall st i, body (rl_mk st []) (OInt i) = Err IndexError) ->
    forall n ls st, Forall line_ok ls ->
    fold_leftM body (map OInt (zrange_n 0 n)) (rl_mk st ls)
    = (_ <- match ls, n with
            | l0 :: _, S _ => if first_bad l0 then Err ValueError else Ok tt
            | _, _ => Ok tt
            end ;;
       match read_loop tf ti pv (flt_of F d) first fmt attrs n ls st with
       | Ok st' => Ok (rl_mk st' (skipn n ls))
       | Err e => Err e
       end).
  Proof.
    intros P1 P2.
    assert (G : forall n j ls st, (1 <= j)%Z -> Forall line_ok ls ->
              fold_leftM body (map OInt (zrange_n j n)) (rl_mk st ls)
              = match read_loop tf ti pv (flt_of F d) first fmt attrs n ls st with
                | Ok st' => Ok (rl_mk st' (skipn n ls))
                | Err e => Err e
                end).
    { induction n as [|n IH]; intros j ls st Hj Hok; [reflexivity|].
      cbn [zrange_n map fold_leftM read_loop]. destruct ls as [|l ls].
      - rewrite P2. reflexivity.
      - inversion Hok as [|? ? Hl Hls]; subst. rewrite (P1 st l ls j Hl). unfold rl_step.
        replace (j =? 0)%Z with false by (symmetry; apply Z.eqb_neq; lia). cbn [andb skipn].
        destruct (kind_loop l).
        + cbn [bind]. apply IH; [lia|exact Hls].
        + destruct (close_event (flt_of F d) first st) as [st'|e]; cbn [bind]; [|reflexivity]. apply IH; [lia|exact Hls].
        + reflexivity.
        + destruct (mk_particle tf ti pv fmt attrs l) as [p|e]; cbn [bind]; [|reflexivity].
          apply (IH (j + 1)%Z ls (add_row st p)); [lia|exact Hls]. }
    intros n ls st Hok. destruct n as [|n]; [destruct ls; reflexivity|].
    cbn [zrange_n map fold_leftM read_loop]. destruct ls as [|l ls].
    - rewrite P2. reflexivity.
    - inversion Hok as [|? ? Hl Hls]; subst. rewrite (P1 st l ls 0%Z Hl). unfold rl_step.
      cbn [Z.eqb andb skipn]. destruct (first_bad l); cbn [bind]; [reflexivity|].
      destruct (kind_loop l).
      + cbn [bind]. apply G; [lia|exact Hls].
      + destruct (close_event (flt_of F d) first st) as [st'|e]; cbn [bind]; [|reflexivity]. apply G; [lia|exact Hls].
      + reflexivity.
      + destruct (mk_particle tf ti pv fmt attrs l) as [p|e]; cbn [bind]; [|reflexivity].
        apply (G n 1%Z ls (add_row st p)); [lia|exact Hls].
  Qed.
End ReadLoop.

Lemma kind_loop_raw l : line_ok l ->
  kind_loop l = if contains "event" (render_line l) && (contains "out" (render_line l) || (contains "in " (render_line l) || contains " start" (render_line l))) then KSkip
                else if contains "#" (render_line l) && contains "end" (render_line l) then KEnd
                else if contains "#" (render_line l) then KBad else KRow.
Proof.
  intros H. unfold kind_loop.
  rewrite <- (in_plain "event" l), <- (in_plain "out" l), <- (in_plain "#" l), <- (in_plain "end" l)
    by (reflexivity || discriminate || exact H).
  rewrite <- (in_suffix_sp "in" l), <- (in_sp_prefix "start" l) by (reflexivity || discriminate || exact H).
  rewrite orb_assoc. reflexivity.
Qed.
Lemma first_bad_raw l : line_ok l ->
  first_bad l = negb (contains "#" (render_line l)) && negb (contains "out" (render_line l)).
Proof.
  intros H. unfold first_bad. rewrite <- (in_plain "out" l), <- (in_plain "#" l) by (reflexivity || discriminate || exact H).
  reflexivity.
Qed.

Lemma akf_hand_enc F dt fv : akf_hand F (OList [enc_parts dt]) fv = Ok (OList [enc_parts (F fv dt)]).
Proof. unfold akf_hand, enc_parts at 1. rewrite parts_of_enc. reflexivity. Qed.
Lemma len_parts l : py_len (enc_parts l) = Ok (OInt (zlen l)).
Proof. unfold enc_parts. cbn [py_len]. rewrite zlen_map. reflexivity. Qed.
Lemma len_events l : py_len (enc_events l) = Ok (OInt (zlen l)).
Proof. unfold enc_events. cbn [py_len]. rewrite zlen_map. reflexivity. Qed.
Lemma append_events pl dt : py_append (enc_events pl) (enc_parts dt) = Ok (enc_events (pl ++ [dt])).
Proof. unfold enc_events. cbn [py_append]. rewrite map_app. reflexivity. Qed.
Lemma append_parts dt p : py_append (enc_parts dt) (OPart p) = Ok (enc_parts (dt ++ [p])).
Proof. unfold enc_parts. cbn [py_append]. rewrite map_app. reflexivity. Qed.
Lemma dec_labels_nil k : dec_labels_from k [] = [].
Proof. unfold dec_labels_from. destruct k; reflexivity. Qed.

Lemma mk_particle_nonascii tf ti pv fmt a1 a2 toks : (fmt =? "ASCII") = false ->
  mk_particle tf ti pv fmt a1 toks = mk_particle tf ti pv fmt a2 toks.
Proof. intros H. unfold mk_particle, mapping_of. rewrite H. reflexivity. Qed.

Lemma zlen_eqb0 {A} (l : list A) : (zlen l =? 0)%Z = (List.length l =? 0)%nat.
Proof. apply (zlen_eqb_nat l 0). Qed.

Lemma sum_counts_err rows : forall n from e, sum_counts rows from n = Err e -> e = IndexError.
Proof.
  induction n as [|n IH]; intros from e H; [discriminate|]. cbn in H. unfold zcount in H.
  destruct (nth_error rows from); cbn in H; [|congruence].
  destruct (sum_counts rows (S from) n) eqn:E; cbn in H; [discriminate|]. injection H as <-. eapply IH, E.
Qed.
Lemma num_skip_err sel rows e : num_skip sel rows = Err e -> e = IndexError.
Proof.
  destruct sel; cbn; [discriminate| |]; intros H;
    (destruct (sum_counts rows 0 _) eqn:E; cbn in H; [discriminate|]; injection H as <-; eapply sum_counts_err, E).
Qed.
Lemma num_read_err sel rows e : num_read sel rows = Err e -> e = IndexError.
Proof.
  destruct sel; cbn; intros H.
  - destruct rows; [congruence|discriminate].
  - unfold zcount in H. destruct (nth_error rows _); cbn in H; congruence.
  - eapply sum_counts_err, H.
Qed.

(* two premises *)
Ltac with_loop2 L G :=
  match goal with |- context [fold_leftM ?b _ _] => pose proof (L b) as G; cbv beta in G end;
  match type of G with (?P -> ?Q -> _) =>
    let H1 := fresh "Hb" in let H2 := fresh "Hb" in
    assert (H1 : P); [clear G|assert (H2 : Q); [clear G|specialize (G H1 H2); clear H1 H2]] end.

Theorem source_set_particle_list tf ti pv F ls path fmt d ends nev rows foots attrs sel :
  Forall line_ok ls -> assoc "events" d = sel_val sel -> sel_ok sel ->
  gen_set_particle_list ti (Particle_hand (mk_particle tf ti pv)) (akf_hand F)
     (mkO (render_lines ls) path (OStr fmt) (ODict d) ends (OInt nev) (OArr (cnt_of rows)) (enc_strs attrs)) (ODict d)
  = match load_tail tf ti pv (flt_of F d) ls sel fmt attrs nev (rows, foots) with
    | Ok ld => Ok (mkO (render_lines ls) path (OStr fmt) (ODict d) ends (OInt (l_nevents ld)) (OArr (inj_cnt (l_counts ld)))
                       (enc_strs attrs), enc_events (l_events ld))
    | Err e => Err e
    end.
Proof.
  intros Hok Hs Hsel. unfold gen_set_particle_list. cbv zeta.
  set (self0 := mkO (render_lines ls) path (OStr fmt) (ODict d) ends (OInt nev) (OArr (cnt_of rows)) (enc_strs attrs)).
  pose proof (source_get_num_read_lines ti self0 d sel rows eq_refl Hs (sel_ok_nonneg _ Hsel) eq_refl) as G.
  destruct (num_read sel rows) as [nr|e] eqn:Enr; cbn [int_of] in G.
  2:{ rewrite G. cbn [bind]. unfold load_tail. cbn [fst]. rewrite Enr.
      destruct (num_skip sel rows) as [ns|e'] eqn:Ens; cbn [bind]; [reflexivity|].
      rewrite (num_skip_err _ _ _ Ens), (num_read_err _ _ _ Enr). reflexivity. }
  destruct G as (vr & Hvr & Havr). rewrite Hvr. cbn [bind]. cbv iota beta.
  unfold py_open. cbn [o_text self0].
  rewrite (source_skip_lines self0 d sel rows ls eq_refl Hs eq_refl Hok).
  destruct (num_skip sel rows) as [ns|e] eqn:Ens; cbn [bind].
  2:{ unfold load_tail. cbn [fst]. rewrite Ens. reflexivity. }
  cbv iota beta. subst self0.
  destruct (num_read_nonempty sel rows nr Hsel Enr) as (Hrows & Hsc).
  assert (Hcnt : cnt_of rows = A2 rows) by (destruct rows; [congruence|reflexivity]). rewrite Hcnt.
  match goal with |- bind ?pre _ = _ =>
    assert (Hpre : pre = Ok (base (render_lines ls) path fmt d ends (OInt nev) attrs (sel_counts sel rows), OInt (sel_first sel))) end.
  { cbn [py_getattr attr_get o_opts bind py_keys]. rewrite in_keys, Hs. rewrite !getitem_dict, Hs. unfold base.
    destruct sel as [|k|a b]; cbn [sel_val bind py_isinstance sel_first sel_counts sel_ok] in *.
    - destruct rows; [congruence|reflexivity].
    - cbn [py_getattr attr_get o_cnt bind py_add as_int int_like py_slice].
      rewrite (pyslice_slice rows k k) by lia. replace (k - k + 1)%Z with 1%Z by lia.
      cbn [py_setattr o_text o_path o_fmt o_opts o_ends o_nev o_attrs].
      change (Z.to_nat 1) with 1%nat. destruct (slice (Z.to_nat k) 1 rows); [congruence|reflexivity].
    - cbn [py_unpack2 bind py_getattr attr_get o_cnt py_add as_int int_like py_slice].
      rewrite (pyslice_slice rows a b) by lia.
      cbn [py_setattr o_text o_path o_fmt o_opts o_ends o_nev o_attrs].
      destruct (slice (Z.to_nat a) (Z.to_nat (b - a + 1)) rows); [congruence|reflexivity]. }
  rewrite Hpre. cbn [bind]. cbv iota beta. rewrite (range_int vr nr Havr). cbn [bind].
  change (OFile (render_lines (skipn (Z.to_nat ns) ls)), OList [],
          base (render_lines ls) path fmt d ends (OInt nev) attrs (sel_counts sel rows), OList [], OInt 0)
    with (rl_mk (render_lines ls) path fmt d ends (OInt nev) attrs
            {| plist := []; data := []; counts := sel_counts sel rows; cut := 0 |} (skipn (Z.to_nat ns) ls)).
  with_loop2 (fold_read_loop tf ti pv F (render_lines ls) path fmt d ends (OInt nev) attrs (sel_first sel)) G.
  { intros st l rest i Hl. unfold rl_mk. cbv beta iota. rewrite (readline_lines l rest Hl). cbv beta iota.
    cbn [py_truthy notM bind negb]. rewrite render_line_nonempty. cbn [negb py_in py_not_in notM andM orM bind py_eq as_int].
    unfold rl_step. rewrite (kind_loop_raw l Hl), (first_bad_raw l Hl).
    match goal with |- context [bind (py_len (enc_parts (data st))) ?K] =>
      set (KEND := bind (py_len (enc_parts (data st))) K) end.
    assert (HK : KEND = (st' <- close_event (flt_of F d) (sel_first sel) st ;;
                         Ok (rl_mk (render_lines ls) path fmt d ends (OInt nev) attrs st' rest))).
    { subst KEND. destruct st as [pl dt cn ct]. unfold close_event, rl_mk, flt_of. cbn [data plist counts cut].
      unfold base at 1. cbn [py_getattr attr_get o_opts bind py_keys]. rewrite !len_parts, !len_events. cbn [bind].
      rewrite in_keys, getitem_dict.
      destruct (assoc "filters" d) as [fv|]; cbn [bind].
      - rewrite akf_hand_enc. cbn [bind].
        change (py_getitem (OList [enc_parts (F fv dt)]) (OInt 0)) with (Ok (enc_parts (F fv dt))). cbn [bind].
        rewrite !len_parts. cbn [py_ne py_eq as_int notM bind orM]. rewrite !zlen_eqb0.
        set (keep := negb (List.length (F fv dt) =? 0)%nat || (List.length dt =? 0)%nat).
        assert (Hkeep : (if negb (List.length (F fv dt) =? 0)%nat then Ok true else Ok (List.length dt =? 0)%nat) = Ok keep).
        { subst keep. destruct (List.length (F fv dt) =? 0)%nat; reflexivity. }
        rewrite !Hkeep. cbn [bind]. destruct keep.
        + cbn [py_add as_int int_like bind]. unfold base at 1 2. cbn [py_getattr attr_get o_cnt bind]. unfold zlen.
          rewrite setitem_inj.
          destruct (set_row _ _ cn) as [c'|e]; cbn [bind]; [|reflexivity]. cbv iota beta.
          rewrite len_parts. cbn [py_ne py_eq as_int notM bind orM]. rewrite zlen_eqb0, Hkeep. cbn [bind].
          rewrite append_events. cbn [bind plist data counts cut]. reflexivity.
        + unfold base at 1 2. cbn [py_getattr attr_get o_cnt bind]. unfold zlen.
          rewrite delete_inj. destruct (List.length pl <? List.length cn)%nat; cbn [bind]; [|reflexivity].
          set (r := delete_row (List.length pl) cn). set (k := List.length pl).
          cbn [py_setattr py_getattr attr_get o_cnt o_text o_path o_fmt o_opts o_ends o_nev o_attrs bind py_shape].
          change (py_getitem (OTuple [OInt (zlen r); OInt 2]) (OInt 0)) with (Ok (OInt (zlen r))).
          cbn [bind py_eq as_int py_lt py_cmp]. rewrite zlen_eqb0.
          assert (Hinj : forall r', r' <> [] -> inj_cnt r' = A2 r') by (intros [|? ?] ?; [congruence|reflexivity]).
          assert (Hdt : py_len (enc_parts (F fv dt)) = Ok (OInt (zlen (F fv dt)))) by apply len_parts.
          destruct (List.length r =? 0)%nat eqn:Er; cbn [bind].
          * apply Nat.eqb_eq in Er. destruct r as [|? ?]; [|discriminate]. rewrite dec_labels_nil.
            cbv iota beta. rewrite Hdt. cbn [py_ne py_eq as_int notM bind orM]. rewrite zlen_eqb0, Hkeep. reflexivity.
          * apply Nat.eqb_neq in Er. unfold zlen. destruct (Z.ltb_spec (Z.of_nat k) (Z.of_nat (List.length r))); cbn [bind].
            -- rewrite isub_dec by lia. cbn [bind]. cbv iota beta. rewrite Hdt.
               cbn [py_ne py_eq as_int notM bind orM]. rewrite zlen_eqb0, Hkeep. cbn [bind]. unfold base. cbn [counts plist data cut].
               rewrite Hinj; [reflexivity|]. intros E. apply (f_equal (@List.length _)) in E. rewrite dec_labels_length in E. cbn in E. lia.
            -- cbv iota beta. rewrite Hdt. cbn [py_ne py_eq as_int notM bind orM]. rewrite zlen_eqb0, Hkeep. cbn [bind].
               rewrite dec_labels_all by lia. unfold base. cbn [counts plist data cut].
               rewrite Hinj; [reflexivity|]. intros E. subst r. rewrite E in Er. cbn in Er. lia.
      - rewrite len_parts. cbn [py_ne py_eq as_int notM bind orM]. rewrite zlen_eqb0.
        destruct (List.length dt =? 0)%nat; cbn [negb orb bind].
        + rewrite append_events. reflexivity.
        + rewrite append_events. reflexivity. }
    rewrite HK. clearbody KEND. clear HK.
    match goal with |- context [if contains "#" (render_line l) then Err ValueError else ?R] => set (ROW := R) end.
    assert (HR : ROW = (p <- mk_particle tf ti pv fmt attrs l ;;
                        Ok (rl_mk (render_lines ls) path fmt d ends (OInt nev) attrs (add_row st p) rest))).
    { subst ROW. cbn [py_str_replace py_str_split bind]. change (split_on " "%char) with (split_on sp).
      rewrite (tokens_of_line l Hl). cbn [py_np_asarray bind]. unfold base.
      unfold enc_strs. cbn [py_getattr attr_get o_fmt o_attrs py_eq bind]. unfold Particle_hand. rewrite !strs_of_enc.
      destruct (fmt =? "ASCII") eqn:Ef; cbn [bind].
      - destruct (mk_particle tf ti pv fmt attrs l) as [p|e]; cbn [bind]; [|reflexivity].
        rewrite append_parts. reflexivity.
      - rewrite (mk_particle_nonascii tf ti pv fmt [] attrs l Ef).
        destruct (mk_particle tf ti pv fmt attrs l) as [p|e]; cbn [bind]; [|reflexivity].
        rewrite append_parts. reflexivity. }
    rewrite HR. clearbody ROW. clear HR.
    destruct (i =? 0)%Z, (contains "#" (render_line l)), (contains "out" (render_line l)), (contains "event" (render_line l)),
      (contains "in " (render_line l)), (contains " start" (render_line l)), (contains "end" (render_line l)); reflexivity. }
  { intros st i. unfold rl_mk. cbv beta iota. change (render_lines []) with "". rewrite readline_eof. reflexivity. }
  assert (Hok' : Forall line_ok (skipn (Z.to_nat ns) ls)).
  { rewrite Forall_forall in *. intros x Hx. apply Hok. rewrite <- (firstn_skipn (Z.to_nat ns) ls). apply in_or_app. right. exact Hx. }
  rewrite (G (Z.to_nat nr) _ _ Hok'). clear G.
  unfold load_tail. cbn [fst snd]. rewrite Ens, Enr. cbn [bind]. unfold first_bad.
  match goal with |- context [bind ?c _] =>
    match c with (match skipn _ _ with _ => _ end) => destruct c as [[]|e]; cbn [bind]; [|reflexivity] end end.
  destruct (read_loop _ _ _ _ _ _ _ _ _ _) as [st|e]; cbn [bind]; [|reflexivity].
  unfold rl_mk. cbv iota beta. unfold base. cbn [py_getattr attr_get o_nev o_opts py_sub as_int int_like bind py_setattr
    o_text o_path o_fmt o_ends o_cnt o_attrs].
  rewrite no_events_cond, Hs, len_events.
  assert (Hpl : (c147_ <- py_eq (enc_events (plist st)) (OList []) ;;
                 (if c147_ then Ok (OList [OList []]) else Ok (enc_events (plist st))))
                = Ok (enc_events (match plist st with [] => [[]] | pl => pl end))).
  { destruct (plist st); reflexivity. }
  rewrite Hpl. clear Hpl. unfold zlen.
  destruct sel as [|k|a b]; cbn [sel_val bind py_ne py_eq as_int notM].
  - destruct (Z.of_nat (List.length (plist st)) =? nev - cut st)%Z; reflexivity.
  - reflexivity.
  - reflexivity.
Qed.


Lemma drop_app a b : drop (String.length a) (a ++ b) = b.
Proof. induction a as [|c a IH]; [reflexivity|]. cbn. exact IH. Qed.
Lemma drop_add n m s : drop (n + m) s = drop m (drop n s).
Proof.
  revert s; induction n as [|n IH]; intros s; [reflexivity|].
  destruct s as [|c s]; cbn [Nat.add drop]; [destruct m; reflexivity|apply IH].
Qed.
Lemma drop_head_no_nl L j rest : no_char nlc L = true -> (j < String.length L)%nat ->
  exists c r, drop j (L ++ rest) = String c r /\ Ascii.eqb c nlc = false.
Proof.
  revert j; induction L as [|a L IH]; intros j Hn Hj; [cbn in Hj; lia|].
  cbn in Hn. apply andb_true_iff in Hn. destruct Hn as [Ha HL]. apply negb_true_iff in Ha.
  destruct j as [|j].
  - exists a, (L ++ rest). split; [reflexivity|exact Ha].
  - cbn [append drop]. apply IH; [exact HL|cbn in Hj; lia].
Qed.

Lemma seek_cur s p off : (0 <= p + off)%Z -> py_seek (OBin s p) (OInt off) (OInt 1) = Ok (OBin s (p + off)).
Proof.
  intros H. unfold py_seek. change (1 =? 2)%Z with false. change (1 =? 1)%Z with true. cbv iota.
  replace (p + off <? 0)%Z with false by (symmetry; apply Z.ltb_ge; lia). reflexivity.
Qed.
Lemma seek_cur_neg s p off : (p + off < 0)%Z -> py_seek (OBin s p) (OInt off) (OInt 1) = Err OtherError.
Proof.
  intros H. unfold py_seek. change (1 =? 2)%Z with false. change (1 =? 1)%Z with true. cbv iota.
  replace (p + off <? 0)%Z with true by (symmetry; apply Z.ltb_lt; lia). reflexivity.
Qed.
Lemma seek_end s p off : py_seek (OBin s p) (OInt off) (OInt 2)
  = if (Z.of_nat (String.length s) + off <? 0)%Z then Err OtherError else Ok (OBin s (Z.of_nat (String.length s) + off)).
Proof. unfold py_seek. change (2 =? 2)%Z with true. cbv iota. reflexivity. Qed.

(* the backward search for the last line: the text is  Q "\n" L "\n"  with L free of newlines *)
Section LastLine.
  Variables (Q L : string).
  Hypothesis HL : no_char nlc L = true.
  Let text := Q ++ String nlc (L ++ String nlc "").
  Let n0 := Z.of_nat (String.length Q).

  Lemma text_length : Z.of_nat (String.length text) = (n0 + 1 + Z.of_nat (String.length L) + 1)%Z.
  Proof. unfold text, n0. rewrite length_append. cbn [String.length]. rewrite length_append. cbn [String.length]. lia. Qed.

  Lemma drop_at_nl : drop (String.length Q) text = String nlc (L ++ String nlc "").
  Proof. apply drop_app. Qed.
  Lemma drop_in_L j : drop (String.length Q + 1 + j) text = drop j (L ++ String nlc "").
  Proof. rewrite <- Nat.add_assoc, drop_add, drop_at_nl. reflexivity. Qed.

  Lemma back_search (body : ov -> result (lres ov)) :
    (forall p c r, drop (Z.to_nat p) text = String c r -> (0 <= p)%Z ->
       body (OBin text p) = if Ascii.eqb c nlc then Ok (LBreak (OBin text (p + 1)))
                            else (f <- py_seek (OBin text (p + 1)) (OInt (-2)) (OInt 1) ;; Ok (LNext f))) ->
    forall j fuel, (j <= String.length L)%nat -> (j < fuel)%nat ->
    py_while fuel body (OBin text (n0 + Z.of_nat j)) = Ok (OBin text (n0 + 1)).
  Proof.
    intros Hb. induction j as [|j IH]; intros fuel Hj Hf; (destruct fuel as [|fuel]; [lia|]); cbn [py_while].
    - rewrite (Hb _ nlc (L ++ String nlc "")).
      + rewrite Ascii.eqb_refl. cbn [bind]. f_equal. f_equal. lia.
      + replace (Z.to_nat (n0 + Z.of_nat 0)) with (String.length Q) by (unfold n0; lia). apply drop_at_nl.
      + unfold n0. lia.
    - destruct (drop_head_no_nl L j (String nlc "") HL ltac:(lia)) as (c & r & Hd & Hc).
      rewrite (Hb _ c r).
      + rewrite Hc. rewrite seek_cur by (unfold n0; lia).
        cbn [bind]. replace (n0 + Z.of_nat (S j) + 1 + -2)%Z with (n0 + Z.of_nat j)%Z by lia.
        apply IH; lia.
      + replace (Z.to_nat (n0 + Z.of_nat (S j))) with (String.length Q + 1 + j)%nat by (unfold n0; lia).
        rewrite drop_in_L. exact Hd.
      + unfold n0. lia.
  Qed.
End LastLine.

Lemma join_snoc_app c a x y : join c (a ++ [x ++ y]) = join c (a ++ [x]) ++ y.
Proof.
  induction a as [|t a IH]; [reflexivity|]. cbn [app].
  destruct a as [|t' a'].
  - cbn [app join]. rewrite append_assoc. reflexivity.
  - change (join c (t :: (t' :: a') ++ [x ++ y])) with (t ++ String c (join c ((t' :: a') ++ [x ++ y]))).
    change (join c (t :: (t' :: a') ++ [x])) with (t ++ String c (join c ((t' :: a') ++ [x]))).
    rewrite IH, append_assoc. reflexivity.
Qed.

Lemma removelast_s_eq l : removelast_s l = removelast l.
Proof. induction l as [|x [|y l] IH]; try reflexivity; cbn [removelast_s removelast] in *; f_equal; exact IH. Qed.

Lemma split_raw l : line_ok l ->
  split_on sp (render_line l) = (removelast l ++ [(last l "" ++ String nlc "")%string])%list.
Proof.
  intros [Hne Hall]. unfold render_line.
  rewrite (app_removelast_last "" Hne) at 1. rewrite <- join_snoc_app.
  apply split_join; [destruct (removelast l); discriminate|].
  rewrite forallb_app. cbn [forallb]. rewrite andb_true_r.
  assert (Hl : forallb (no_char sp) l = true).
  { rewrite forallb_forall in *. intros t Ht. specialize (Hall t Ht). unfold tok_ok in Hall. apply andb_true_iff in Hall. tauto. }
  rewrite (app_removelast_last "" Hne), forallb_app in Hl. cbn [forallb] in Hl. rewrite andb_true_r in Hl.
  apply andb_true_iff in Hl. destruct Hl as [H1 H2]. rewrite H1, no_char_app, H2. reflexivity.
Qed.

Lemma eqb_app_nl p x : no_char nlc p = true -> (p =? x ++ String nlc "") = false.
Proof.
  intros Hp. destruct (String.eqb_spec p (x ++ String nlc "")) as [E|]; [|reflexivity].
  subst p. rewrite no_char_app in Hp. apply andb_true_iff in Hp. destruct Hp as [_ Hp]. cbn in Hp. discriminate.
Qed.
Lemma mem_raw p l : no_char nlc p = true ->
  mem_str p (removelast l ++ [(last l "" ++ String nlc "")%string])%list = mem_str p (removelast_s l).
Proof.
  intros Hp. unfold mem_str. rewrite existsb_app. cbn [existsb]. rewrite (eqb_app_nl p _ Hp). cbn [orb].
  rewrite orb_false_r. reflexivity.
Qed.

Lemma render_lines_snoc pre l : render_lines (pre ++ [l]) = render_lines pre ++ join sp l ++ String nlc "".
Proof. rewrite render_lines_app. reflexivity. Qed.
Lemma render_lines_ends_nl pre : pre <> [] -> exists Q, render_lines pre = Q ++ String nlc "".
Proof.
  intros H. destruct (exists_last H) as (pre' & x & ->). exists (render_lines pre' ++ join sp x).
  rewrite render_lines_snoc, append_assoc. reflexivity.
Qed.

Theorem source_set_num_events ti path fmt opts ends nev cnt attrs pre lst :
  (forall t, ti (t ++ String nlc "") = ti t) -> pre <> [] -> line_ok lst ->
  gen_set_num_events ti (mkO (render_lines (pre ++ [lst])) path fmt opts ends nev cnt attrs)
  = match num_events_of ti lst with
    | Ok z => Ok (mkO (render_lines (pre ++ [lst])) path fmt opts ends (OInt z) cnt attrs, ONone)
    | Err e => Err e
    end.
Proof.
  intros Hnl Hpre Hl. destruct (render_lines_ends_nl pre Hpre) as (Q & HQ).
  assert (Htext : render_lines (pre ++ [lst]) = Q ++ String nlc (join sp lst ++ String nlc "")).
  { rewrite render_lines_snoc, HQ, append_assoc. reflexivity. }
  set (L := join sp lst) in *. assert (HL : no_char nlc L = true) by (apply line_ok_nl, Hl).
  set (text := render_lines (pre ++ [lst])) in *.
  unfold gen_set_num_events. cbv zeta. unfold py_open. cbn [o_text].
  rewrite seek_end. pose proof (text_length Q L) as Hlen. cbv zeta in Hlen. rewrite <- Htext in Hlen.
  replace (Z.of_nat (String.length text) + -2 <? 0)%Z with false by (symmetry; apply Z.ltb_ge; lia).
  cbn [bind]. clearbody text. subst text.
  replace (Z.of_nat (String.length Q) + 1 + Z.of_nat (String.length L) + 1 + -2)%Z
    with (Z.of_nat (String.length Q) + Z.of_nat (String.length L))%Z in * by lia.
  rewrite Hlen.
  replace (Z.of_nat (String.length Q) + 1 + Z.of_nat (String.length L) + 1 + -2)%Z
    with (Z.of_nat (String.length Q) + Z.of_nat (String.length L))%Z by lia.
  match goal with |- context [py_while ?f ?b ?s] => pose proof (back_search Q L HL b) as W; cbv beta in W end.
  match type of W with (?P -> _) => assert (W1 : P); [clear W|specialize (W W1); clear W1] end.
  { intros p c r Hd Hp. cbn [py_read]. rewrite Hd. cbn [bind]. cbv iota beta.
    cbn [py_ne py_eq notM bind String.eqb]. destruct (Ascii.eqb c nlc); reflexivity. }
  rewrite (W (String.length L)); [|lia|].
  2:{ unfold py_fuel. cbn [fold_right fuel_of]. rewrite length_append. cbn [String.length]. rewrite length_append. lia. }
  cbn [bind py_readline].
  replace (Z.to_nat (Z.of_nat (String.length Q) + 1)) with (String.length Q + 1 + 0)%nat by lia.
  rewrite (drop_in_L Q L). cbn [drop]. rewrite (read_line_app L "" HL). cbv iota beta.
  cbn [py_decode bind py_str_split]. change (split_on " "%char) with (split_on sp).
  change (L ++ String nlc "") with (render_line lst). rewrite (split_raw lst Hl). clear W Hlen.
  rewrite py_in_strs, (mem_raw "event" lst eq_refl).
  change (OInt 0) with (OInt (Z.of_nat 0)). change (OInt 2) with (OInt (Z.of_nat 2)).
  rewrite !getitem_list_nat, !nth_error_map_some. unfold num_events_of.
  assert (Hhash : forall x, (x ++ String nlc "" =? "#") = false).
  { intros x. rewrite String.eqb_sym. apply eqb_app_nl. reflexivity. }
  destruct lst as [|t0 [|t1 [|t2 [|t3 tl]]]].
  - destruct Hl; congruence.
  - cbn [removelast last app nth_error option_map bind py_eq andM nth List.length Nat.leb andb]. rewrite Hhash.
    rewrite andb_false_r. reflexivity.
  - cbn [removelast last app nth_error option_map bind py_eq andM nth List.length Nat.leb andb removelast_s].
    rewrite andb_true_r. destruct (t0 =? "#"); cbn [bind andb]; [|reflexivity].
    destruct (mem_str "event" [t0]); reflexivity.
  - cbn [removelast last app nth_error option_map bind py_eq andM nth List.length Nat.leb andb removelast_s].
    rewrite andb_true_r. destruct (t0 =? "#"); cbn [bind andb]; [|reflexivity].
    destruct (mem_str "event" [t0; t1]); cbn [bind py_int]; [|reflexivity]. rewrite Hnl.
    destruct (ti t2); reflexivity.
  - cbn [removelast last app nth_error option_map bind py_eq andM nth List.length Nat.leb andb removelast_s].
    rewrite andb_true_r. destruct (t0 =? "#"); cbn [bind andb]; [|reflexivity].
    destruct (mem_str "event" _); cbn [bind py_int]; [|reflexivity].
    destruct (ti t2); reflexivity.
Qed.


Lemma pyget_neg {A} (l : list A) k :
  pyget l (- Z.of_nat (S k)) = match nth_error (rev l) k with Some x => Ok x | None => Err IndexError end.
Proof.
  revert k. induction l as [|x l IH] using rev_ind; intros k.
  - unfold pyget, zlen. cbn [List.length rev nth_error].
    replace (- Z.of_nat (S k) <? 0)%Z with true by (symmetry; apply Z.ltb_lt; lia).
    replace (Z.of_nat 0 + - Z.of_nat (S k) <? 0)%Z with true by (symmetry; apply Z.ltb_lt; lia). destruct k; reflexivity.
  - rewrite rev_app_distr. cbn [rev app]. unfold pyget, zlen. rewrite app_length. cbn [List.length].
    replace (- Z.of_nat (S k) <? 0)%Z with true by (symmetry; apply Z.ltb_lt; lia).
    destruct k as [|k].
    + replace (Z.of_nat (List.length l + 1) + - Z.of_nat 1 <? 0)%Z with false by (symmetry; apply Z.ltb_ge; lia).
      replace (Z.to_nat (Z.of_nat (List.length l + 1) + - Z.of_nat 1)) with (List.length l) by lia.
      rewrite nth_error_app2 by lia. rewrite Nat.sub_diag. reflexivity.
    + cbn [nth_error]. specialize (IH k). unfold pyget, zlen in IH.
      replace (- Z.of_nat (S k) <? 0)%Z with true in IH by (symmetry; apply Z.ltb_lt; lia).
      replace (Z.of_nat (List.length l + 1) + - Z.of_nat (S (S k)))%Z with (Z.of_nat (List.length l) + - Z.of_nat (S k))%Z by lia.
      destruct (Z.of_nat (List.length l) + - Z.of_nat (S k) <? 0)%Z eqn:E; [exact IH|].
      apply Z.ltb_ge in E. rewrite nth_error_app1 by lia. exact IH.
Qed.

Lemma fold_append_map (body : ov -> ov -> result ov) (f : ov -> result ov) :
  (forall acc x, body (OList acc) x = (v <- f x ;; Ok (OList (acc ++ [v])))) ->
  forall xs acc, fold_leftM body xs (OList acc) = (r <- mapM f xs ;; Ok (OList (acc ++ r))).
Proof.
  intros Hb. induction xs as [|x xs IH]; intros acc; cbn [fold_leftM mapM bind]; [rewrite app_nil_r; reflexivity|].
  rewrite Hb. destruct (f x) as [v|e]; cbn [bind]; [|reflexivity]. rewrite IH.
  destruct (mapM f xs) as [r|e]; cbn [bind]; [|reflexivity]. rewrite <- app_assoc. reflexivity.
Qed.

Lemma filter_truthy_strs (l : list string) :
  filterM py_truthy (map OStr l) = Ok (map OStr (filter (fun s => negb (s =? "")) l)).
Proof.
  induction l as [|x l IH]; [reflexivity|]. cbn [map filterM py_truthy bind filter]. rewrite IH. cbn [bind].
  destruct (x =? ""); reflexivity.
Qed.

(* float(list(filter(None, line.split(" ")))[-3]) on a raw end line whose last token is not empty *)
Lemma impact_raw tf (l : line) : line_ok l -> last l "" <> "" ->
  (ls <- py_str_split (OStr (render_line l)) (OStr " ") ;; ls2 <- (v <- py_filter_none ls ;; py_list v) ;;
   v3 <- py_getitem ls2 (OInt (-3)) ;; py_float tf v3)
  = match impact_of tf l with Ok q => Ok (OFloat q) | Err e => Err e end.
Proof.
  intros Hl Hlast. cbn [py_str_split bind]. change (split_on " "%char) with (split_on sp). rewrite (split_raw l Hl).
  cbn [py_filter_none py_iter bind]. rewrite filter_truthy_strs. cbn [bind py_list py_iter py_getitem as_int].
  change (-3)%Z with (- Z.of_nat 3)%Z. rewrite pyget_neg. unfold impact_of.
  rewrite filter_app, map_app, rev_app_distr. cbn [filter].
  replace ((last l "" ++ String nlc "")%string =? "") with false by (destruct (last l ""); reflexivity).
  cbn [negb map rev app nth_error].
  rewrite (app_removelast_last "" (proj1 Hl)) at 2. rewrite filter_app. cbn [filter].
  replace (last l "" =? "") with false by (symmetry; apply String.eqb_neq; exact Hlast).
  cbn [negb]. rewrite rev_app_distr. cbn [rev app nth_error]. rewrite <- map_rev.
  destruct (rev (filter (fun s => negb (s =? "")) (removelast l))) as [|a [|b r]]; cbn [map bind py_float]; try reflexivity.
  destruct (tf b); reflexivity.
Qed.

Lemma mapM_impacts tf (f : ov -> result ov) foots :
  Forall line_ok foots -> Forall (fun l => last l "" <> "") foots ->
  (forall l, line_ok l -> last l "" <> "" -> f (OStr (render_line l)) = match impact_of tf l with Ok q => Ok (OFloat q) | Err e => Err e end) ->
  mapM f (map (fun l => OStr (render_line l)) foots)
  = match mapr (impact_of tf) foots with Ok qs => Ok (map OFloat qs) | Err e => Err e end.
Proof.
  intros H1 H2 Hf. induction foots as [|l foots IH]; [reflexivity|].
  inversion H1; inversion H2; subst. cbn [map mapM mapr]. rewrite Hf by assumption.
  destruct (impact_of tf l) as [q|e]; cbn [bind]; [|reflexivity]. rewrite IH by assumption.
  destruct (mapr (impact_of tf) foots); reflexivity.
Qed.

Lemma mapM_lookup (imps : list Q) (f : ov -> result ov) counts :
  Forall (fun c : Z * Z => (0 <= fst c)%Z) counts ->
  (forall z, (0 <= z)%Z -> f (ONpInt z) = match nth_error imps (Z.to_nat z) with Some v => Ok (OFloat v) | None => Err IndexError end) ->
  mapM f (map ONpInt (map fst counts))
  = match mapr (fun c : Z * Z => match nth_error imps (Z.to_nat (fst c)) with Some v => Ok v | None => Err IndexError end) counts with
    | Ok qs => Ok (map OFloat qs) | Err e => Err e end.
Proof.
  intros H Hf. induction counts as [|c counts IH]; [reflexivity|]. inversion H; subst.
  cbn [map mapM mapr]. rewrite Hf by assumption.
  destruct (nth_error imps (Z.to_nat (fst c))); cbn [bind]; [|reflexivity]. rewrite IH by assumption.
  destruct (mapr _ counts); reflexivity.
Qed.

Theorem source_impact_parameter tf text path fmt opts nev attrs foots counts ld :
  Forall line_ok foots -> Forall (fun l => last l "" <> "") foots -> Forall (fun c : Z * Z => (0 <= fst c)%Z) counts ->
  l_footers ld = foots -> l_counts ld = counts ->
  gen_impact_parameter tf (mkO text path fmt opts (enc_foots foots) nev (OArr (inj_cnt counts)) attrs)
  = match impact_parameters tf ld with
    | Ok qs => Ok (mkO text path fmt opts (enc_foots foots) nev (OArr (inj_cnt counts)) attrs, OList (map OFloat qs))
    | Err e => Err e
    end.
Proof.
  intros H1 H2 H3 Hf Hc. unfold gen_impact_parameter, impact_parameters. rewrite Hf, Hc. cbv zeta.
  cbn [py_getattr attr_get o_ends o_cnt enc_foots bind py_iter].
  match goal with |- context [fold_leftM ?b _ _] =>
    pose proof (fold_append_map b (fun line => ls <- py_str_split line (OStr " ") ;; ls2 <- (v <- py_filter_none ls ;; py_list v) ;;
                                               v3 <- py_getitem ls2 (OInt (-3)) ;; py_float tf v3)) as G; cbv beta in G end.
  match type of G with (?P -> _) => assert (Hb : P); [clear G|specialize (G Hb); clear Hb] end.
  { intros acc x. destruct (py_str_split x (OStr " ")) as [ls|e]; cbn [bind]; [|reflexivity].
    destruct (py_filter_none ls) as [v|e]; cbn [bind]; [|reflexivity].
    destruct (py_list v) as [ls2|e]; cbn [bind]; [|reflexivity].
    destruct (py_getitem ls2 (OInt (-3))) as [v3|e]; cbn [bind]; [|reflexivity].
    destruct (py_float tf v3) as [q|e]; reflexivity. }
  rewrite G. clear G. rewrite (mapM_impacts tf _ foots H1 H2 (fun l Hl Hlast => impact_raw tf l Hl Hlast)).
  destruct (mapr (impact_of tf) foots) as [imps|e]; cbn [bind app]; [|reflexivity].
  destruct counts as [|c0 counts].
  - reflexivity.
  - cbn [inj_cnt py_shape bind]. set (cs := c0 :: counts) in *.
    change (py_getitem (OTuple [OInt (zlen cs); OInt 2]) (OInt 0)) with (Ok (OInt (zlen cs))).
    cbn [bind py_eq as_int]. replace (zlen cs =? 0)%Z with false by (symmetry; apply Z.eqb_neq; unfold zlen, cs; cbn [List.length]; lia).
    cbn [bind py_getcol as_int col_of Z.eqb orb py_iter rget].
    change (map (fun r : Z * Z => fst r) cs) with (map fst cs).
    rewrite (mapM_lookup imps _ cs H3).
    + destruct (mapr _ cs); reflexivity.
    + intros z Hz. cbn [py_getitem as_int]. rewrite (pyget_pos _ z Hz), nth_error_map_some.
      destruct (nth_error imps (Z.to_nat z)); reflexivity.
Qed.


(* for keys in kwargs.keys(): if keys not in ["events", "filters"]: raise ValueError *)
Lemma fold_keys (body : unit -> ov -> result unit) d :
  (forall k, body tt (OStr k) = if String.eqb "events" k || String.eqb "filters" k then Ok tt else Err ValueError) ->
  fold_leftM body (map (fun kv : string * ov => OStr (fst kv)) d) tt = if keys_ok d then Ok tt else Err ValueError.
Proof.
  intros Hb. induction d as [|[k v] d IH]; [reflexivity|]. cbn [map fold_leftM fst keys_ok forallb]. rewrite Hb.
  destruct (String.eqb "events" k || String.eqb "filters" k); cbn [bind andb]; [exact IH|reflexivity].
Qed.

Lemma load_eq tf ti pv flt first rest sel :
  load tf ti pv flt (first :: rest) sel
  = (fa <- oscar_format first ;;
     _ <- (if (fst fa =? "Oscar2013Extended_IC") || (fst fa =? "Oscar2013Extended_Photons") then Err OtherError else Ok tt) ;;
     nev <- num_events_of ti (last (first :: rest) []) ;;
     sc <- scan ti (first :: rest) ;;
     load_tail tf ti pv flt (first :: rest) sel (fst fa) (snd fa) nev sc).
Proof. reflexivity. Qed.

Lemma oscar_format_attrs first fmt attrs : oscar_format first = Ok (fmt, attrs) -> (fmt =? "ASCII") = false -> attrs = [].
Proof.
  unfold oscar_format. intros H Hf.
  repeat match type of H with (if ?c then _ else _) = _ => destruct c end; try discriminate;
    injection H as <- <-; try reflexivity; discriminate.
Qed.

Lemma load_tail_fields tf ti pv flt file sel fmt attrs nev sc ld :
  load_tail tf ti pv flt file sel fmt attrs nev sc = Ok ld ->
  l_format ld = fmt /\ l_attrs ld = attrs /\ l_footers ld = snd sc.
Proof.
  unfold load_tail. intros H.
  repeat match type of H with
         | bind ?x _ = _ => destruct x; cbn [bind] in H; [|discriminate]
         end.
  injection H as <-. cbn. auto.
Qed.

Theorem source_load tf ti pv F path fmt0 opts0 ends0 nev0 cnt0 d sel first rest :
  (forall t, ti (t ++ String nlc "") = ti t) ->
  Forall line_ok (first :: rest) -> rest <> [] -> labels_ok ti (first :: rest) ->
  (forall fa, oscar_format first = Ok fa -> (fst fa =? "Oscar2013Extended_IC") || (fst fa =? "Oscar2013Extended_Photons") = false) ->
  keys_ok d = true -> assoc "events" d = sel_val sel -> sel_ok sel ->
  gen_load ti (Particle_hand (mk_particle tf ti pv)) (akf_hand F)
    (mkO (render_lines (first :: rest)) path fmt0 opts0 ends0 nev0 cnt0 (OList [])) (ODict d)
  = match load tf ti pv (flt_of F d) (first :: rest) sel with
    | Ok ld => Ok (mkO (render_lines (first :: rest)) path (OStr (l_format ld)) (ODict d) (enc_foots (l_footers ld))
                       (OInt (l_nevents ld)) (OArr (inj_cnt (l_counts ld))) (enc_strs (l_attrs ld)),
                   OTuple [enc_events (l_events ld); OInt (l_nevents ld); OArr (inj_cnt (l_counts ld)); enc_strs (l_attrs ld)])
    | Err e => Err e
    end.
Proof.
  intros Hnl Hok Hrest Hlab Hstd Hk Hs Hsel. set (ls := first :: rest) in *. set (text := render_lines ls).
  unfold gen_load. cbv zeta.
  cbn [py_setattr py_getattr attr_get o_text o_path o_fmt o_opts o_ends o_nev o_cnt o_attrs bind py_keys py_iter].
  with_loop (fun b => fold_keys b d) G.
  { intros k. unfold py_not_in. cbn [py_in existsM py_eq notM bind].
    destruct (String.eqb "events" k); cbn [bind negb orb]; [reflexivity|]. destruct (String.eqb "filters" k); reflexivity. }
  rewrite G, Hk. clear G. cbn [bind].
  rewrite !in_keys, !getitem_dict, Hs.
  set (self1 := mkO text path fmt0 (ODict d) (OList []) nev0 cnt0 (OList [])).
  match goal with |- bind ?v _ = _ => assert (Hv : v = Ok self1) end.
  { destruct sel as [|k|a b]; cbn [sel_val sel_ok bind andM py_isinstance py_lt py_cmp as_int] in *.
    - reflexivity.
    - replace (k <? 0)%Z with false by (symmetry; apply Z.ltb_ge; lia). reflexivity.
    - unfold gen_check_that_tuple_contains_integers_only. cbn [py_iter bind forallM py_isinstance notM negb].
      cbv iota beta. unfold self1. cbn [py_getattr attr_get o_opts bind]. rewrite !getitem_dict, Hs. cbn [bind].
      change (py_getitem (OTuple [OInt a; OInt b]) (OInt 0)) with (Ok (OInt a)).
      change (py_getitem (OTuple [OInt a; OInt b]) (OInt 1)) with (Ok (OInt b)).
      cbn [bind py_gt py_lt py_cmp as_int orM].
      replace (b <? a)%Z with false by (symmetry; apply Z.ltb_ge; lia).
      replace (a <? 0)%Z with false by (symmetry; apply Z.ltb_ge; lia).
      replace (b <? 0)%Z with false by (symmetry; apply Z.ltb_ge; lia). reflexivity. }
  rewrite Hv. clear Hv. cbn [bind]. subst ls. rewrite load_eq. set (ls := first :: rest) in *.
  assert (Hl1 : line_ok first) by (inversion Hok; assumption).
  rewrite (source_set_oscar_format self1 first rest Hl1 eq_refl).
  destruct (oscar_format first) as [[fmt attrs]|e] eqn:Ef; cbn [bind fst snd]; [|reflexivity].
  pose proof (Hstd _ eq_refl) as Hstd'. cbn [fst] in Hstd'. rewrite Hstd'. cbn [bind]. cbv iota beta.
  assert (Hfs : fmt_state self1 (fmt, attrs) = mkO text path (OStr fmt) (ODict d) (OList []) nev0 cnt0 (enc_strs attrs)).
  { unfold fmt_state, self1. cbn [fst snd]. destruct (fmt =? "ASCII") eqn:Ea; [reflexivity|].
    rewrite (oscar_format_attrs first fmt attrs Ef Ea). reflexivity. }
  rewrite Hfs. clear Hfs.
  assert (Hne : ls <> []) by discriminate.
  assert (Hpre : removelast ls <> []) by (unfold ls; destruct rest; [congruence|discriminate]).
  assert (Hlast : line_ok (last ls [])).
  { rewrite Forall_forall in Hok. apply Hok. rewrite (app_removelast_last [] Hne) at 2. apply in_or_app. right. left. reflexivity. }
  assert (Htext : text = render_lines (removelast ls ++ [last ls []])) by (unfold text; rewrite <- app_removelast_last by exact Hne; reflexivity).
  rewrite Htext at 1.
  rewrite (source_set_num_events ti path (OStr fmt) (ODict d) (OList []) nev0 cnt0 (enc_strs attrs) _ _ Hnl Hpre Hlast).
  rewrite <- Htext.
  destruct (num_events_of ti (last ls [])) as [nev|e]; cbn [bind]; [|reflexivity]. cbv iota beta.
  apply orb_false_iff in Hstd'. destruct Hstd' as [H1 H2]. apply String.eqb_neq in H1, H2.
  unfold text. rewrite (source_scan ti path fmt (ODict d) [] (OInt nev) cnt0 (enc_strs attrs) ls Hok H1 H2 Hlab).
  destruct (scan ti ls) as [[rows foots]|e]; cbn [bind]; [|reflexivity]. cbv iota beta. cbn [app].
  rewrite (source_set_particle_list tf ti pv F ls path fmt d _ nev rows foots attrs sel Hok Hs Hsel).
  destruct (load_tail tf ti pv (flt_of F d) ls sel fmt attrs nev (rows, foots)) as [ld|e] eqn:El; cbn [bind]; [|reflexivity].
  destruct (load_tail_fields _ _ _ _ _ _ _ _ _ _ _ El) as (Hf1 & Hf2 & Hf3). cbn [snd] in Hf3. rewrite Hf1, Hf2, Hf3.
  cbv iota beta. unfold enc_strs. cbn [py_getattr attr_get o_nev o_cnt o_attrs bind]. reflexivity.
Qed.

(* ------------------------------------------------------------------ options that load() rejects *)
Lemma forallM_isint l : forallM (fun event : ov => Ok (py_isinstance event T_int)) l = Ok (forallb is_pyint l).
Proof. induction l as [|x l IH]; [reflexivity|]. cbn [forallM bind forallb]. unfold is_pyint at 1. destruct (py_isinstance x T_int); [exact IH|reflexivity]. Qed.

Theorem source_load_rejects ti PART AKF self d e :
  opts_verdict d = Some e -> gen_load ti PART AKF self (ODict d) = Err e.
Proof.
  intros Hv. unfold gen_load. cbv zeta. destruct self as [text path fmt0 opts0 ends0 nev0 cnt0 attrs0].
  cbn [py_setattr py_getattr attr_get o_text o_path o_fmt o_opts o_ends o_nev o_cnt o_attrs bind py_keys py_iter].
  with_loop (fun b => fold_keys b d) G.
  { intros k. unfold py_not_in. cbn [py_in existsM py_eq notM bind].
    destruct (String.eqb "events" k); cbn [bind negb orb]; [reflexivity|]. destruct (String.eqb "filters" k); reflexivity. }
  rewrite G. clear G. unfold opts_verdict in Hv.
  destruct (keys_ok d); cbn [negb bind] in *; [|congruence].
  rewrite !in_keys, !getitem_dict.
  destruct (assoc "events" d) as [[| |b0|k|z0|q0|s0|s1|l0|l|d0|a0|p0|f0|c0 p1|n0]|] eqn:Ea; try discriminate; cbn [bind andM py_isinstance].
  - destruct (k <? 0)%Z eqn:Ek; [|discriminate]. injection Hv as <-. cbn [py_lt py_cmp as_int bind]. rewrite Ek. reflexivity.
  - unfold gen_check_that_tuple_contains_integers_only. cbn [py_iter bind]. rewrite forallM_isint. cbn [notM bind].
    destruct (forallb is_pyint l); cbn [negb bind] in *; [|injection Hv as <-; reflexivity].
    destruct l as [|[| |b1|a|z1|q1|s2|s3|l1|l2|d1|a1|p2|f1|c1 p3|n1] [|[| |b2|b|z2|q2|s4|s5|l3|l4|d2|a2|p4|f2|c2 p5|n2] [|? ?]]]; try discriminate.
    cbv iota beta. cbn [py_getattr attr_get o_opts bind]. rewrite !getitem_dict, Ea. cbn [bind].
    change (py_getitem (OTuple [OInt a; OInt b]) (OInt 0)) with (Ok (OInt a)).
    change (py_getitem (OTuple [OInt a; OInt b]) (OInt 1)) with (Ok (OInt b)).
    cbn [bind py_gt py_lt py_cmp as_int orM].
    destruct (b <? a)%Z; cbn [bind]; [injection Hv as <-; reflexivity|].
    destruct (a <? 0)%Z; cbn [bind orb] in *; [injection Hv as <-; reflexivity|].
    destruct (b <? 0)%Z; cbn [bind] in *; [injection Hv as <-; reflexivity|discriminate].
Qed.

(* ------------------------------------------------------------------ small methods *)
Theorem source_check_tuple self l :
  gen_check_that_tuple_contains_integers_only self (OTuple l)
  = if forallb is_pyint l then Ok (self, ONone) else Err TypeError.
Proof.
  unfold gen_check_that_tuple_contains_integers_only. cbn [py_iter bind]. rewrite forallM_isint. cbn [notM bind].
  destruct (forallb is_pyint l); reflexivity.
Qed.

Theorem source_accessors self :
  gen_oscar_format self = (v <- py_getattr self A_fmt ;; Ok (self, v)) /\
  gen_event_end_lines self = (v <- py_getattr self A_ends ;; Ok (self, v)).
Proof. split; reflexivity. Qed.

(* OscarLoader(path): the path must mention ".oscar" or ".dat"; format unset, no custom attributes *)
Theorem source_init text p :
  gen_init__ (new_object text) (OStr p)
  = if contains ".oscar" p || contains ".dat" p
    then Ok (mkO text (OStr p) ONone OUnbound OUnbound OUnbound OUnbound (OList []), ONone)
    else Err OtherError.
Proof.
  unfold gen_init__. cbn [py_in notM andM bind].
  destruct (contains ".oscar" p); cbn [negb bind orb]; [reflexivity|].
  destruct (contains ".dat" p); reflexivity.
Qed.

(* a file of one line: the backward search for the last line runs off the start of the file (OSError) *)
Lemma scan_ok_labels ti ls r : scan ti ls = Ok r -> labels_ok ti ls.
Proof.
  revert r. induction ls as [|l ls IH]; intros r H; [constructor|]. cbn [scan] in H.
  destruct (kind_scan l) eqn:K.
  - destruct (scan ti ls) as [r'|]; cbn in H; [|discriminate]. constructor; [congruence|eapply IH; reflexivity].
  - destruct (nth_error l 2) as [e|] eqn:E2; [|discriminate]. destruct (nth_error l 4) as [c|]; [|discriminate].
    destruct (ti e) eqn:Te; [|discriminate]. destruct (ti c); [|discriminate].
    destruct (scan ti ls) as [r'|]; cbn in H; [|discriminate].
    constructor; [|eapply IH; reflexivity]. intros _ e' He'. congruence.
  - constructor; [congruence|eapply IH, H].
Qed.

(* whenever the hand model loads the file, so does the source, with the same result (no assumption on the labels) *)
Theorem source_load_ok tf ti pv F path fmt0 opts0 ends0 nev0 cnt0 d sel first rest ld :
  (forall t, ti (t ++ String nlc "") = ti t) ->
  Forall line_ok (first :: rest) -> rest <> [] ->
  keys_ok d = true -> assoc "events" d = sel_val sel -> sel_ok sel ->
  load tf ti pv (flt_of F d) (first :: rest) sel = Ok ld ->
  gen_load ti (Particle_hand (mk_particle tf ti pv)) (akf_hand F)
    (mkO (render_lines (first :: rest)) path fmt0 opts0 ends0 nev0 cnt0 (OList [])) (ODict d)
  = Ok (mkO (render_lines (first :: rest)) path (OStr (l_format ld)) (ODict d) (enc_foots (l_footers ld))
            (OInt (l_nevents ld)) (OArr (inj_cnt (l_counts ld))) (enc_strs (l_attrs ld)),
        OTuple [enc_events (l_events ld); OInt (l_nevents ld); OArr (inj_cnt (l_counts ld)); enc_strs (l_attrs ld)]).
Proof.
  intros Hnl Hok Hrest Hk Hs Hsel Hld.
  assert (Hx : labels_ok ti (first :: rest) /\
               (forall fa, oscar_format first = Ok fa ->
                  (fst fa =? "Oscar2013Extended_IC") || (fst fa =? "Oscar2013Extended_Photons") = false)).
  { pose proof Hld as H. rewrite load_eq in H.
    destruct (oscar_format first) as [fa|]; cbn [bind] in H; [|discriminate].
    destruct ((fst fa =? "Oscar2013Extended_IC") || (fst fa =? "Oscar2013Extended_Photons")) eqn:Estd; cbn [bind] in H; [discriminate|].
    destruct (num_events_of ti _); cbn [bind] in H; [|discriminate].
    destruct (scan ti (first :: rest)) as [sc|] eqn:Esc; cbn [bind] in H; [|discriminate].
    split; [eapply scan_ok_labels, Esc|]. intros fa' E. injection E as <-. exact Estd. }
  destruct Hx as [Hlab Hstd].
  rewrite (source_load tf ti pv F path fmt0 opts0 ends0 nev0 cnt0 d sel first rest Hnl Hok Hrest Hlab Hstd Hk Hs Hsel), Hld.
  reflexivity.
Qed.


(* a file of one line: the backward search runs off the start of the file (OSError) *)
Lemma back_search_fails (L : string) (body : ov -> result (lres ov)) :
  no_char nlc L = true ->
  (forall p c r, drop (Z.to_nat p) (L ++ String nlc "") = String c r -> (0 <= p)%Z ->
     body (OBin (L ++ String nlc "") p) = if Ascii.eqb c nlc then Ok (LBreak (OBin (L ++ String nlc "") (p + 1)))
                          else (f <- py_seek (OBin (L ++ String nlc "") (p + 1)) (OInt (-2)) (OInt 1) ;; Ok (LNext f))) ->
  forall j fuel, (j < String.length L)%nat -> (j < fuel)%nat ->
  py_while fuel body (OBin (L ++ String nlc "") (Z.of_nat j)) = Err OtherError.
Proof.
  intros HL Hb. induction j as [|j IH]; intros fuel Hj Hf; (destruct fuel as [|fuel]; [lia|]); cbn [py_while].
  - destruct (drop_head_no_nl L 0 (String nlc "") HL Hj) as (c & r & Hd & Hc).
    rewrite (Hb _ c r); [|exact Hd|lia]. rewrite Hc. rewrite seek_cur_neg by lia. reflexivity.
  - destruct (drop_head_no_nl L (S j) (String nlc "") HL Hj) as (c & r & Hd & Hc).
    rewrite (Hb _ c r); [|rewrite Nat2Z.id; exact Hd|lia]. rewrite Hc. rewrite seek_cur by lia. cbn [bind].
    replace (Z.of_nat (S j) + 1 + -2)%Z with (Z.of_nat j) by lia. apply IH; lia.
Qed.

Theorem source_set_num_events_one_line ti path fmt opts ends nev cnt attrs l :
  line_ok l ->
  gen_set_num_events ti (mkO (render_lines [l]) path fmt opts ends nev cnt attrs) = Err OtherError.
Proof.
  intros Hl. pose proof (line_ok_nl l Hl) as HL. cbn [render_lines]. set (L := join sp l) in *.
  unfold gen_set_num_events. cbv zeta. unfold py_open. cbn [o_text]. rewrite seek_end.
  rewrite length_append. cbn [String.length].
  destruct (String.length L) as [|n] eqn:En.
  - reflexivity.
  - replace (Z.of_nat (S n + 1) + -2 <? 0)%Z with false by (symmetry; apply Z.ltb_ge; lia). cbn [bind].
    replace (Z.of_nat (S n + 1) + -2)%Z with (Z.of_nat n) by lia.
    match goal with |- context [py_while ?f ?b ?s] => pose proof (back_search_fails L b HL) as W; cbv beta in W end.
    match type of W with (?P -> _) => assert (W1 : P); [clear W|specialize (W W1); clear W1] end.
    { intros p c r Hd Hp. cbn [py_read]. rewrite Hd. cbn [bind]. cbv iota beta.
      cbn [py_ne py_eq notM bind String.eqb]. destruct (Ascii.eqb c nlc); reflexivity. }
    rewrite (W n); [reflexivity|lia|].
    unfold py_fuel. cbn [fold_right fuel_of]. rewrite length_append. lia.
Qed.

(* ------------------------------------------------------------------ without the assumption on the labels *)
Section ScanErr.
  Variable ti : string -> option Q.

  Lemma scan_fold_shape ls : forall evo E,
    (exists e, fold_leftM (scan_step ti) ls (evo, E) = Err e) \/
    (exists ent E', fold_leftM (scan_step ti) ls (evo, E) = Ok (evo ++ ent, E')%list).
  Proof.
    induction ls as [|l ls IH]; intros evo E.
    - right. exists [], E. cbn. rewrite app_nil_r. reflexivity.
    - cbn [fold_leftM]. destruct (scan_step ti (evo, E) l) as [[evo' E']|e] eqn:Es; cbn [bind]; [|left; eexists; reflexivity].
      assert (Hevo : exists a, evo' = (evo ++ a)%list).
      { unfold scan_step in Es. destruct (kind_scan l).
        - injection Es as <- <-. exists []. rewrite app_nil_r. reflexivity.
        - destruct (nth_error l 2); [|discriminate]. destruct (nth_error l 4); [|discriminate]. destruct (ti s0); [|discriminate].
          injection Es as <- <-. eexists. reflexivity.
        - injection Es as <- <-. exists []. rewrite app_nil_r. reflexivity. }
      destruct Hevo as (a & ->). destruct (IH (evo ++ a)%list E') as [(e & He)|(ent & E'' & He)].
      + left. exists e. exact He.
      + right. exists (a ++ ent)%list, E''. rewrite He, app_assoc. reflexivity.
  Qed.

  Lemma mapM_app_err {A B} (f : A -> result B) a b e : mapM f b = Err e -> exists e', mapM f (a ++ b) = Err e'.
  Proof.
    intros H. induction a as [|x a IH]; [exists e; exact H|]. cbn [app mapM]. destruct (f x); cbn [bind]; [|eexists; reflexivity].
    destruct IH as (e' & ->). eexists. reflexivity.
  Qed.

  Lemma scan_fold_err ls : forall evo E e, scan ti ls = Err e ->
    (exists e', fold_leftM (scan_step ti) ls (evo, E) = Err e') \/
    (exists ent E', fold_leftM (scan_step ti) ls (evo, E) = Ok (evo ++ ent, E')%list /\ exists e', mapM (row_int ti) ent = Err e').
  Proof.
    induction ls as [|l ls IH]; intros evo E e H; [discriminate|]. cbn [scan] in H. cbn [fold_leftM scan_step].
    destruct (kind_scan l) eqn:K.
    - cbn [bind]. destruct (scan ti ls) as [r|e0] eqn:Es; cbn [bind] in H; [discriminate|]. eapply IH. reflexivity.
    - destruct (nth_error l 2) as [lab|]; [|left; eexists; reflexivity].
      destruct (nth_error l 4) as [c|]; [|left; eexists; reflexivity].
      destruct (ti c) as [cn|] eqn:Tc; [|left; eexists; reflexivity]. cbn [bind].
      destruct (ti lab) as [ev|] eqn:Tl.
      + destruct (scan ti ls) as [r|e0] eqn:Es; cbn [bind] in H; [discriminate|].
        destruct (IH (evo ++ [OList [OStr lab; OInt (to_Z cn)]])%list E e0 eq_refl) as [Hl|(ent & E' & Hf & e' & Hm)]; [left; exact Hl|].
        right. exists (OList [OStr lab; OInt (to_Z cn)] :: ent), E'. rewrite Hf, <- app_assoc. split; [reflexivity|].
        cbn [mapM row_int cell_int bind]. rewrite Tl, Hm. eexists. reflexivity.
      + destruct (scan_fold_shape ls (evo ++ [OList [OStr lab; OInt (to_Z cn)]])%list E) as [Hl|(ent & E' & Hf)]; [left; exact Hl|].
        right. exists (OList [OStr lab; OInt (to_Z cn)] :: ent), E'. rewrite Hf, <- app_assoc. split; [reflexivity|].
        cbn [mapM row_int cell_int bind]. rewrite Tl. eexists. reflexivity.
    - cbn [bind]. eapply IH, H.
  Qed.
End ScanErr.

Theorem source_scan_err ti path fmt opts E nev cnt attrs ls e :
  Forall line_ok ls -> fmt <> "Oscar2013Extended_IC" -> fmt <> "Oscar2013Extended_Photons" -> scan ti ls = Err e ->
  exists e', gen_set_num_output_per_event_and_event_footers ti (mkO (render_lines ls) path (OStr fmt) opts (OList E) nev cnt attrs)
             = Err e'.
Proof.
  intros Hok H1 H2 H. rewrite (scan_loop ti path fmt opts E nev cnt attrs ls Hok H1 H2).
  destruct (scan_fold_err ti ls [] E e H) as [(e' & ->)|(ent & E' & -> & e' & Hm)]; [eexists; reflexivity|].
  cbn [app]. destruct ent as [|x ent]; [discriminate|]. cbn [py_np_array_int32_2d]. rewrite Hm. eexists. reflexivity.
Qed.

Definition is_err {A} (r : result A) : Prop := match r with Err _ => True | Ok _ => False end.
Lemma is_err_exists {A} (r : result A) : is_err r -> exists e, r = Err e.
Proof. destruct r; [contradiction|]. intros _. eexists. reflexivity. Qed.

(* a file the hand model refuses is refused by the source (possibly with another class when a label is not a numeral) *)
Theorem source_load_err tf ti pv F path fmt0 opts0 ends0 nev0 cnt0 d sel first rest e :
  (forall t, ti (t ++ String nlc "") = ti t) ->
  Forall line_ok (first :: rest) -> rest <> [] ->
  (forall fa, oscar_format first = Ok fa -> (fst fa =? "Oscar2013Extended_IC") || (fst fa =? "Oscar2013Extended_Photons") = false) ->
  keys_ok d = true -> assoc "events" d = sel_val sel -> sel_ok sel ->
  load tf ti pv (flt_of F d) (first :: rest) sel = Err e ->
  exists e', gen_load ti (Particle_hand (mk_particle tf ti pv)) (akf_hand F)
               (mkO (render_lines (first :: rest)) path fmt0 opts0 ends0 nev0 cnt0 (OList [])) (ODict d) = Err e'.
Proof.
  intros Hnl Hok Hrest Hstd Hk Hs Hsel Hld. apply is_err_exists.
  destruct (scan ti (first :: rest)) as [sc|es] eqn:Esc.
  { rewrite (source_load tf ti pv F path fmt0 opts0 ends0 nev0 cnt0 d sel first rest Hnl Hok Hrest
               (scan_ok_labels ti _ _ Esc) Hstd Hk Hs Hsel), Hld. exact I. }
  set (ls := first :: rest) in *. set (text := render_lines ls).
  unfold gen_load. cbv zeta.
  cbn [py_setattr py_getattr attr_get o_text o_path o_fmt o_opts o_ends o_nev o_cnt o_attrs bind py_keys py_iter].
  with_loop (fun b => fold_keys b d) G.
  { intros k. unfold py_not_in. cbn [py_in existsM py_eq notM bind].
    destruct (String.eqb "events" k); cbn [bind negb orb]; [reflexivity|]. destruct (String.eqb "filters" k); reflexivity. }
  rewrite G, Hk. clear G. cbn [bind].
  rewrite !in_keys, !getitem_dict, Hs.
  set (self1 := mkO text path fmt0 (ODict d) (OList []) nev0 cnt0 (OList [])).
  match goal with |- is_err (bind ?v _) => assert (Hv : v = Ok self1) end.
  { destruct sel as [|k|a b]; cbn [sel_val sel_ok bind andM py_isinstance py_lt py_cmp as_int] in *.
    - reflexivity.
    - replace (k <? 0)%Z with false by (symmetry; apply Z.ltb_ge; lia). reflexivity.
    - unfold gen_check_that_tuple_contains_integers_only. cbn [py_iter bind forallM py_isinstance notM negb].
      cbv iota beta. unfold self1. cbn [py_getattr attr_get o_opts bind]. rewrite !getitem_dict, Hs. cbn [bind].
      change (py_getitem (OTuple [OInt a; OInt b]) (OInt 0)) with (Ok (OInt a)).
      change (py_getitem (OTuple [OInt a; OInt b]) (OInt 1)) with (Ok (OInt b)).
      cbn [bind py_gt py_lt py_cmp as_int orM].
      replace (b <? a)%Z with false by (symmetry; apply Z.ltb_ge; lia).
      replace (a <? 0)%Z with false by (symmetry; apply Z.ltb_ge; lia).
      replace (b <? 0)%Z with false by (symmetry; apply Z.ltb_ge; lia). reflexivity. }
  rewrite Hv. clear Hv. cbn [bind].
  assert (Hl1 : line_ok first) by (inversion Hok; assumption).
  rewrite (source_set_oscar_format self1 first rest Hl1 eq_refl).
  destruct (oscar_format first) as [[fmt attrs]|e0] eqn:Ef; cbn [bind fst snd]; [|exact I].
  pose proof (Hstd _ eq_refl) as Hstd'. cbn [fst] in Hstd'. cbv iota beta.
  assert (Hfs : fmt_state self1 (fmt, attrs) = mkO text path (OStr fmt) (ODict d) (OList []) nev0 cnt0 (enc_strs attrs)).
  { unfold fmt_state, self1. cbn [fst snd]. destruct (fmt =? "ASCII") eqn:Ea; [reflexivity|].
    rewrite (oscar_format_attrs first fmt attrs Ef Ea). reflexivity. }
  rewrite Hfs. clear Hfs.
  assert (Hne : ls <> []) by discriminate.
  assert (Hpre : removelast ls <> []) by (unfold ls; destruct rest; [congruence|discriminate]).
  assert (Hlast : line_ok (last ls [])).
  { rewrite Forall_forall in Hok. apply Hok. rewrite (app_removelast_last [] Hne) at 2. apply in_or_app. right. left. reflexivity. }
  assert (Htext : text = render_lines (removelast ls ++ [last ls []])) by (unfold text; rewrite <- app_removelast_last by exact Hne; reflexivity).
  rewrite Htext at 1.
  rewrite (source_set_num_events ti path (OStr fmt) (ODict d) (OList []) nev0 cnt0 (enc_strs attrs) _ _ Hnl Hpre Hlast).
  rewrite <- Htext.
  destruct (num_events_of ti (last ls [])) as [nev|e0]; cbn [bind]; [|exact I]. cbv iota beta.
  apply orb_false_iff in Hstd'. destruct Hstd' as [H1 H2]. apply String.eqb_neq in H1, H2.
  unfold text. destruct (source_scan_err ti path fmt (ODict d) [] (OInt nev) cnt0 (enc_strs attrs) ls es Hok H1 H2 Esc) as (e' & ->).
  exact I.
Qed.

(* a run of the translated methods on a small file: decimal numerals, trailing newline ignored by int()/float() *)
Definition ex_num (s : string) : option Q :=
  let t := replace_char nlc "" s in
  if digits t && negb (t =? "") then Some (inject_Z (Z.of_nat (dval t))) else None.
Definition ex_lines : list line :=
  [["#!OSCAR2013"; "particle_lists"; "t"; "x"; "y"; "z"; "mass"; "p0"; "px"; "py"; "pz"; "pdg"; "ID"; "charge"];
   ["#"; "Units:"; "fm"]; ["#"; "SMASH"];
   ["#"; "event"; "0"; "out"; "2"];
   ["0"; "0"; "0"; "0"; "1"; "2"; "0"; "0"; "1"; "211"; "0"; "1"];
   ["0"; "1"; "0"; "0"; "1"; "2"; "0"; "0"; "1"; "22"; "1"; "0"];
   ["#"; "event"; "0"; "end"; "0"; "impact"; ""; ""; "3"; "scattering_projectile_target"; "yes"];
   ["#"; "event"; "1"; "out"; "1"];
   ["0"; "0"; "0"; "0"; "1"; "2"; "0"; "0"; "1"; "2212"; "0"; "1"];
   ["#"; "event"; "1"; "end"; "0"; "impact"; ""; ""; "4"; "scattering_projectile_target"; "no"]].
Definition ex_self := mkO (render_lines ex_lines) (OStr "f.oscar") ONone OUnbound OUnbound OUnbound OUnbound (OList []).
Definition ex_F (fv : ov) (ps : list particle) : list particle :=
  filter (fun p => match get_slot 12 p with Some q => negb (Qeq_bool q 0) | None => false end) ps.
Definition ex_load d := gen_load ex_num (Particle_hand (mk_particle ex_num ex_num (fun _ => true))) (akf_hand ex_F) ex_self (ODict d).
Definition ex_hand flt sel := load ex_num ex_num (fun _ => true) flt ex_lines sel.

Theorem source_example :
  (exists ld, ex_hand None SelAll = Ok ld) /\
  ex_load [] = match ex_hand None SelAll with
               | Ok ld => Ok (mkO (render_lines ex_lines) (OStr "f.oscar") (OStr (l_format ld)) (ODict []) (enc_foots (l_footers ld))
                                  (OInt (l_nevents ld)) (OArr (inj_cnt (l_counts ld))) (enc_strs (l_attrs ld)),
                              OTuple [enc_events (l_events ld); OInt (l_nevents ld); OArr (inj_cnt (l_counts ld)); enc_strs (l_attrs ld)])
               | Err e => Err e end /\
  (match ex_load [("events", OInt 1); ("filters", OOpaque 0)] with
   | Ok (s, OTuple [OList [OList [OPart p]]; n; c; a]) => (n, c, get_slot 9 p) = (OInt 1, OArr (A2 [(1, 1)%Z]), Some (2212 # 1)%Q)
   | _ => False end) /\
  (match ex_load [("filters", OOpaque 0)] with Ok (s, _) => o_cnt s = OArr (A2 [(0, 1); (1, 1)]%Z) | _ => False end) /\
  (match ex_load [] with Ok (s, _) => exists s', gen_impact_parameter ex_num s = Ok (s', OList [OFloat 3; OFloat 4]) | _ => False end) /\
  ex_load [("event", OInt 0)] = Err ValueError /\
  ex_load [("events", OTuple [OInt 1; OInt 0])] = Err ValueError /\
  ex_load [("events", OInt 2)] = Err IndexError.
Proof.
  split; [eexists; vm_compute; reflexivity|].
  split; [vm_compute; reflexivity|].
  split; [vm_compute; reflexivity|].
  split; [vm_compute; reflexivity|].
  split; [vm_compute; eexists; reflexivity|].
  split; [vm_compute; reflexivity|].
  split; vm_compute; reflexivity.
Qed.

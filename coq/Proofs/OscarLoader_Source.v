(* The hand model Model/Oscar.v equals what tools/py2coq/gen_oscarloader.py regenerates from the source of
   sparkx/loader/OscarLoader.py and BaseLoader.py on every run (Gen/GenOscarLoader.v, Gallina over the Python/numpy
   fragment Model/OscarLoaderRt.v).  A file is given by its text; the theorems are about texts that are rendered
   lines: every line the join by single blanks of blank-free, newline-free tokens, followed by a newline.
   Loops are handled through the behaviour of their bodies on one line / index (proved by computation from the
   generated text), so the proofs do not depend on how the translator names or nests its intermediate bindings. *)
From Coq Require Import List String Ascii ZArith QArith Bool Arith Lia.
From SX Require Import Lib.Strs Lib.StrLemmas Lib.Split Lib.DecStr Lib.CutSplit Gen.GenParticleMap Model.Oscar Model.OscarLoaderRt
  Gen.GenOscarLoader Proofs.OscarLoader_Lemmas.
Import ListNotations.
Local Open Scope string_scope.

Lemma assoc_map_OStr k (m : list (string * string)) :
  assoc k (map (fun kv => (fst kv, OStr (snd kv))) m) = option_map OStr (assoc k m).
Proof. induction m as [|[a b] m IH]; cbn; [reflexivity|]. destruct (String.eqb k a); [reflexivity|exact IH]. Qed.

(* for i in range(0, len(xs)): ... xs[i] ...  is a loop over the elements *)
Lemma fold_index {S A} (body : S -> ov -> result S) (g : S -> A -> result S) (xs : list A) :
  (forall s k x, nth_error xs k = Some x -> body s (OInt (Z.of_nat k)) = g s x) ->
  forall s, fold_leftM body (map OInt (zrange 0 (zlen xs))) s = fold_leftM g xs s.
Proof.
  intros Hb. unfold zrange, zlen. rewrite Z.sub_0_r, Nat2Z.id.
  assert (G : forall suf pre s, xs = (pre ++ suf)%list ->
            fold_leftM body (map OInt (zrange_n (Z.of_nat (List.length pre)) (List.length suf))) s = fold_leftM g suf s).
  { induction suf as [|x suf IH]; intros pre s E; [reflexivity|].
    cbn [List.length zrange_n map fold_leftM].
    rewrite (Hb s (List.length pre) x).
    - destruct (g s x) as [s'|e]; cbn [bind]; [|reflexivity].
      specialize (IH (pre ++ [x])%list s'). rewrite app_length in IH. cbn [List.length] in IH.
      replace (Z.of_nat (List.length pre + 1)) with (Z.of_nat (List.length pre) + 1)%Z in IH by lia.
      apply IH. rewrite <- app_assoc. exact E.
    - subst xs. rewrite nth_error_app2 by lia. rewrite Nat.sub_diag. reflexivity. }
  intros s. apply (G xs [] s). reflexivity.
Qed.

Lemma setattr_twice s a v w : py_setattr (py_setattr s a v) a w = py_setattr s a w.
Proof. destruct s, a; reflexivity. Qed.
Lemma getattr_set s a v : v <> OUnbound -> py_getattr (py_setattr s a v) a = Ok v.
Proof. intros H. destruct s, a; unfold py_getattr; cbn; destruct v; congruence. Qed.

Lemma getitem_list_nat l k :
  py_getitem (OList l) (OInt (Z.of_nat k)) = match nth_error l k with Some x => Ok x | None => Err IndexError end.
Proof. cbn [py_getitem as_int]. apply pyget_nat. Qed.

Lemma source_set_custom_attr_list self header :
  gen_set_custom_attr_list self (enc_strs header)
  = Ok (py_setattr self A_attrs (enc_strs (custom_attrs header)), enc_strs (custom_attrs header)).
Proof.
  unfold gen_set_custom_attr_list.
  cbv zeta.
  match goal with |- context [ODict ?d] => change d with (map (fun kv : string * string => (fst kv, OStr (snd kv))) gen_attr_map) end.
  unfold enc_strs at 1. cbn [py_len bind py_range as_int]. unfold zlen at 1. rewrite map_length. fold (zlen header).
  rewrite (fold_index _ (fun s h => match assoc h gen_attr_map with
                                    | Some a => v <- py_getattr s A_attrs ;; v' <- py_append v (OStr a) ;; Ok (py_setattr s A_attrs v')
                                    | None => Ok s end) header).
  - assert (G : forall hs acc, fold_leftM (fun s h => match assoc h gen_attr_map with
                                    | Some a => v <- py_getattr s A_attrs ;; v' <- py_append v (OStr a) ;; Ok (py_setattr s A_attrs v')
                                    | None => Ok s end) hs (py_setattr self A_attrs (enc_strs acc))
                 = Ok (py_setattr self A_attrs (enc_strs (acc ++ custom_attrs hs)))).
    { induction hs as [|h hs IH]; intros acc; cbn [fold_leftM custom_attrs flat_map]; [rewrite app_nil_r; reflexivity|].
      destruct (assoc h gen_attr_map) as [a|]; cbn [bind app].
      - rewrite getattr_set by discriminate. cbn [bind py_append enc_strs]. rewrite setattr_twice.
        change (OList (map OStr acc ++ [OStr a])) with (OList (map OStr acc ++ map OStr [a])).
        rewrite <- map_app. fold (enc_strs (acc ++ [a])). rewrite IH, <- app_assoc. reflexivity.
      - apply IH. }
    change (OList []) with (enc_strs []). rewrite (G header []). cbn [bind app].
    rewrite getattr_set by discriminate. reflexivity.
  - intros s k x Hk. unfold enc_strs. rewrite getitem_list_nat, nth_error_map_some, Hk. cbn [option_map bind py_dict_get].
    rewrite assoc_map_OStr. destruct (assoc x gen_attr_map) as [a|]; cbn [option_map py_is_none negb]; [|reflexivity].
    destruct (py_getattr s A_attrs) as [v|e]; cbn [bind]; [|reflexivity].
    destruct (py_append v (OStr a)); reflexivity.
Qed.

Definition fmt_state (self : oself) (fa : string * list string) : oself :=
  let s := py_setattr self A_fmt (OStr (fst fa)) in
  if (fst fa =? "ASCII")%string then py_setattr s A_attrs (enc_strs (snd fa)) else s.

Lemma zlen_map {A B} (f : A -> B) l : zlen (map f l) = zlen l.
Proof. unfold zlen. rewrite map_length. reflexivity. Qed.
Lemma zlen_eqb_nat {A} (l : list A) n : (zlen l =? Z.of_nat n)%Z = (List.length l =? n)%nat.
Proof. unfold zlen. destruct (Nat.eqb_spec (List.length l) n); [apply Z.eqb_eq; lia|apply Z.eqb_neq; lia]. Qed.

Lemma pyslice_from_nat {A} (l : list A) k : pyslice_from l (Z.of_nat k) = skipn k l.
Proof.
  unfold pyslice_from, clamp. replace (Z.of_nat k <? 0)%Z with false by (symmetry; apply Z.ltb_ge; lia).
  unfold zlen. destruct (Nat.le_gt_cases k (List.length l)).
  - rewrite Z.min_l by lia. rewrite Nat2Z.id. reflexivity.
  - rewrite Z.min_r by lia. rewrite Nat2Z.id, skipn_all. symmetry. apply skipn_all2. lia.
Qed.

Lemma source_set_oscar_format self first rest : line_ok first -> o_text self = render_lines (first :: rest) ->
  gen_set_oscar_format self = match oscar_format first with Ok fa => Ok (fmt_state self fa, ONone) | Err e => Err e end.
Proof.
  intros Hl Ht. unfold gen_set_oscar_format. cbv zeta. unfold py_open. rewrite Ht.
  cbn [py_readline]. rewrite (read_line_lines first rest Hl). cbn [bind py_str_replace py_str_split].
  change (split_on " "%char) with (split_on sp). rewrite (tokens_of_line first Hl).
  change (OInt 0) with (OInt (Z.of_nat 0)); change (OInt 1) with (OInt (Z.of_nat 1)).
  rewrite !getitem_list_nat, !nth_error_map_some. cbn [py_len]. rewrite zlen_map.
  change (OInt 15) with (OInt (Z.of_nat 15)). change (OInt 23) with (OInt (Z.of_nat 23)).
  unfold oscar_format.
  destruct first as [|t0 tl]; [destruct Hl; congruence|].
  cbn [nth_error option_map bind py_eq as_int orM andM nth].
  rewrite !zlen_eqb_nat.
  destruct (List.length (t0 :: tl) =? 15)%nat eqn:E15; cbn [orb bind]; [reflexivity|].
  destruct (t0 =? "#!OSCAR2013") eqn:E1; cbn [bind]; [reflexivity|].
  destruct (t0 =? "#!OSCAR2013Extended") eqn:E2; cbn [andb bind].
  - destruct tl as [|t1 tl']; cbn [List.length Nat.ltb Nat.leb option_map bind nth py_eq]; [reflexivity|].
    destruct (t1 =? "SMASH_IC") eqn:E3; cbn [bind]; [reflexivity|].
    destruct (t1 =? "Photons") eqn:E4; cbn [bind]; [reflexivity|].
    rewrite orb_true_r. destruct (S (S (List.length tl')) =? 23)%nat; reflexivity.
  - rewrite orb_false_r. destruct (List.length (t0 :: tl) =? 23)%nat eqn:E23; cbn [bind]; [reflexivity|].
    destruct (t0 =? "#!ASCII") eqn:E5; [|reflexivity].
    change (OInt 2) with (OInt (Z.of_nat 2)). cbn [py_slice_from as_int]. rewrite pyslice_from_nat, skipn_map.
    cbn [bind]. fold (enc_strs (skipn 2 (t0 :: tl))). rewrite source_set_custom_attr_list. cbn [bind].
    unfold fmt_state. cbn [fst snd]. rewrite setattr_twice. reflexivity.
Qed.

Lemma source_set_oscar_format_empty self : o_text self = "" -> gen_set_oscar_format self = Err TypeError.
Proof. intros Ht. unfold gen_set_oscar_format. cbv zeta. unfold py_open. rewrite Ht. reflexivity. Qed.

Definition sel_val (sel : selector) : option ov :=
  match sel with SelAll => None | SelOne k => Some (OInt k) | SelRange a b => Some (OTuple [OInt a; OInt b]) end.
Definition cnt_of (rows : list (Z * Z)) : arr := match rows with [] => A10 | _ => A2 rows end.

Lemma in_keys k d :
  py_in (OStr k) (OList (map (fun kv : string * ov => OStr (fst kv)) d))
  = Ok (match assoc k d with Some _ => true | None => false end).
Proof.
  cbn [py_in]. induction d as [|[k' v] d IH]; [reflexivity|].
  cbn [map existsM fst py_eq bind assoc]. rewrite String.eqb_sym.
  destruct (String.eqb k k'); [reflexivity|exact IH].
Qed.

Lemma no_events_cond d :
  orM (notM (py_truthy (ODict d))) (v <- py_keys (ODict d) ;; py_not_in (OStr "events") v)
  = Ok (match assoc "events" d with Some _ => false | None => true end).
Proof.
  cbn [py_truthy notM bind py_keys]. unfold py_not_in. rewrite in_keys. cbn [notM bind orM].
  destruct d as [|kv d]; [reflexivity|]. cbn [is_nil negb]. destruct (assoc "events" (kv :: d)); reflexivity.
Qed.


Definition int_of {A} (wrap : ov -> A) (r : result A) (h : result Z) : Prop :=
  match h with Ok z => exists v, r = Ok (wrap v) /\ as_int v = Some z | Err e => r = Err e end.

Lemma getitem_dict d k : py_getitem (ODict d) (OStr k) = match assoc k d with Some v => Ok v | None => Err KeyError end.
Proof. reflexivity. Qed.

Lemma cnt_get rows i :
  py_getitem (OArr (cnt_of rows)) (OTuple [OInt (Z.of_nat i); OInt 1]) = (c <- zcount rows i ;; Ok (ONpInt c)).
Proof.
  unfold zcount. destruct rows as [|r0 rows].
  - destruct i; reflexivity.
  - cbn [cnt_of py_getitem as_int]. rewrite pyget_nat.
    destruct (nth_error (r0 :: rows) i); reflexivity.
Qed.

Lemma as_int_int_like a b z : as_int (int_like a b z) = Some z.
Proof. destruct a, b; reflexivity. Qed.
Lemma py_add_int x y a b : as_int x = Some a -> as_int y = Some b ->
  exists w, py_add x y = Ok w /\ as_int w = Some (a + b)%Z.
Proof. intros Hx Hy. unfold py_add. rewrite Hx, Hy. eexists. split; [reflexivity|apply as_int_int_like]. Qed.

Lemma fold_sum_counts (body : ov -> ov -> result ov) rows :
  (forall acc a i, as_int acc = Some a ->
     int_of id (body acc (OInt (Z.of_nat i))) (c <- zcount rows i ;; Ok (a + (c + 2))%Z)) ->
  forall n from acc a, as_int acc = Some a ->
  int_of id (fold_leftM body (map OInt (zrange_n (Z.of_nat from) n)) acc) (r <- sum_counts rows from n ;; Ok (a + r)%Z).
Proof.
  intros Hb. induction n as [|n IH]; intros from acc a Ha.
  - cbn. exists acc. split; [reflexivity|]. rewrite Z.add_0_r. exact Ha.
  - cbn [zrange_n map fold_leftM sum_counts]. specialize (Hb acc a from Ha).
    destruct (zcount rows from) as [c|e]; cbn [bind int_of] in *.
    + destruct Hb as (v & Hv & Hav). unfold id in Hv. rewrite Hv. cbn [bind].
      replace (Z.of_nat from + 1)%Z with (Z.of_nat (S from)) by lia.
      specialize (IH (S from) v _ Hav).
      destruct (sum_counts rows (S from) n) as [r|e]; cbn [bind int_of] in *.
      * destruct IH as (w & Hw & Haw). exists w. split; [exact Hw|]. rewrite Haw. f_equal. lia.
      * exact IH.
    + rewrite Hb. reflexivity.
Qed.

(* take the body of the loop in the goal, state lemma L about it, leave its premise as the first goal *)
Ltac with_loop L G :=
  match goal with |- context [fold_leftM ?b _ _] => pose proof (L b) as G; cbv beta in G end;
  match type of G with (?P -> _) => let Hb := fresh "Hb" in assert (Hb : P); [clear G|specialize (G Hb); clear Hb] end.

Lemma source_get_num_skip_lines self d sel rows :
  o_opts self = ODict d -> assoc "events" d = sel_val sel -> o_cnt self = OArr (cnt_of rows) ->
  int_of (pair self) (gen_get_num_skip_lines self) (num_skip sel rows).
Proof.
  intros Ho Hs Hc. destruct self as [text path fmt opts ends nev cnt attrs]. cbn in Ho, Hc. subst opts cnt.
  unfold gen_get_num_skip_lines. cbn [py_getattr attr_get o_opts o_cnt bind].
  rewrite no_events_cond, !getitem_dict, Hs.
  assert (Hbody : forall acc a i, as_int acc = Some a ->
     int_of id (cumulate_lines0 <- (v63_ <- (v62_ <- py_getitem (OArr (cnt_of rows)) (OTuple [OInt (Z.of_nat i); OInt 1]) ;; py_add v62_ (OInt 2)) ;; py_add acc v63_) ;; Ok cumulate_lines0)
                (c <- zcount rows i ;; Ok (a + (c + 2))%Z)).
  { intros acc a i Ha. rewrite cnt_get. destruct (zcount rows i) as [c|e]; cbn [bind int_of]; [|reflexivity].
    change (py_add (ONpInt c) (OInt 2)) with (Ok (ONpInt (c + 2))). cbn [bind].
    destruct (py_add_int acc (ONpInt (c + 2)) a (c + 2) Ha eq_refl) as (w & Hw & Haw).
    rewrite Hw. exists w. split; [reflexivity|exact Haw]. }
  assert (Hloop : forall n, int_of (pair (mkO text path fmt (ODict d) ends nev (OArr (cnt_of rows)) attrs))
     (x <- (c <- fold_leftM (fun cumulate_lines i : ov => cumulate_lines0 <- (v63_ <- (v62_ <- (v61_ <- Ok (OArr (cnt_of rows)) ;; py_getitem v61_ (OTuple [i; OInt 1])) ;; py_add v62_ (OInt 2)) ;; py_add cumulate_lines v63_) ;; Ok cumulate_lines0)
                   (map OInt (zrange_n 0 n)) (OInt 0) ;; skip_lines <- py_add (OInt 3) c ;; Ok skip_lines) ;;
      Ok (mkO text path fmt (ODict d) ends nev (OArr (cnt_of rows)) attrs, x))
     (r <- sum_counts rows 0 n ;; Ok (3 + r)%Z)).
  { intros n. with_loop (fun b => fold_sum_counts b rows) G; [exact Hbody|].
    specialize (G n 0%nat (OInt 0) 0%Z eq_refl). cbn [Z.of_nat] in G.
    destruct (sum_counts rows 0 n) as [r|e]; cbn [bind int_of] in *.
    - destruct G as (v & Hv & Hav). unfold id in Hv. rewrite Hv. cbn [bind].
      destruct (py_add_int (OInt 3) v 3 _ eq_refl Hav) as (w & Hw & Haw). rewrite Hw. cbn [bind].
      exists w. split; [reflexivity|exact Haw].
    - rewrite G. reflexivity. }
  destruct sel as [|k|a b]; cbn [sel_val bind py_isinstance py_eq as_int num_skip int_of].
  - eexists. split; reflexivity.
  - destruct (k =? 0)%Z eqn:Ek; cbn [bind].
    + apply Z.eqb_eq in Ek. subst k. cbn. eexists. split; reflexivity.
    + cbn [py_range as_int bind]. unfold zrange. rewrite Z.sub_0_r. apply Hloop.
  - change (py_getitem (OTuple [OInt a; OInt b]) (OInt 0)) with (Ok (OInt a)). cbn [bind py_eq as_int].
    destruct (a =? 0)%Z eqn:Ea; cbn [bind].
    + apply Z.eqb_eq in Ea. subst a. cbn. eexists. split; reflexivity.
    + cbn [py_range as_int bind]. unfold zrange. rewrite Z.sub_0_r. apply Hloop.
Qed.

Definition sel_nonneg (sel : selector) : Prop :=
  match sel with SelAll => True | SelOne k => (0 <= k)%Z | SelRange a b => (0 <= a)%Z end.

Lemma zsum_snd (rows : list (Z * Z)) : zsum (map snd rows) = fold_right (fun c acc => (snd c + acc)%Z) 0%Z rows.
Proof. induction rows as [|r rows IH]; [reflexivity|]. cbn. unfold zsum in IH. rewrite IH. reflexivity. Qed.

Lemma source_get_num_read_lines ti self d sel rows :
  o_opts self = ODict d -> assoc "events" d = sel_val sel -> sel_nonneg sel -> o_cnt self = OArr (cnt_of rows) ->
  int_of (pair self) (gen_get_num_read_lines ti self) (num_read sel rows).
Proof.
  intros Ho Hs Hn Hc. destruct self as [text path fmt opts ends nev cnt attrs]. cbn in Ho, Hc. subst opts cnt.
  unfold gen_get_num_read_lines. cbn [py_getattr attr_get o_opts o_cnt bind].
  rewrite no_events_cond, !getitem_dict, Hs.
  destruct sel as [|k|a b]; cbn [sel_val bind py_isinstance py_eq as_int num_read int_of sel_nonneg] in *.
  - destruct rows as [|r0 rows]; [reflexivity|].
    cbn [cnt_of py_np_sum_axis0 bind py_getitem as_int py_len py_mul int_like py_int py_add].
    change (pyget [zsum (map fst (r0 :: rows)); zsum (map snd (r0 :: rows))] 1) with (Ok (zsum (map snd (r0 :: rows)))).
    cbn [bind]. eexists. split; [reflexivity|]. cbn [as_int]. rewrite zsum_snd. reflexivity.
  - rewrite <- (Z2Nat.id k Hn) at 1. rewrite cnt_get.
    destruct (zcount rows (Z.to_nat k)) as [c|e]; cbn [bind]; [|reflexivity].
    eexists. split; reflexivity.
  - change (py_getitem (OTuple [OInt a; OInt b]) (OInt 0)) with (Ok (OInt a)).
    change (py_getitem (OTuple [OInt a; OInt b]) (OInt 1)) with (Ok (OInt b)).
    cbn [bind py_add as_int int_like py_range]. unfold zrange.
    replace (b + 1 - a)%Z with (b - a + 1)%Z by lia. rewrite <- (Z2Nat.id a Hn) at 1.
    with_loop (fun bd => fold_sum_counts bd rows) G.
    { intros acc x i Hx. rewrite cnt_get. destruct (zcount rows i) as [c|e]; cbn [bind int_of]; [|reflexivity].
      change (py_add (ONpInt c) (OInt 2)) with (Ok (ONpInt (c + 2))). cbn [bind py_int].
      destruct (py_add_int acc (OInt (c + 2)) x (c + 2) Hx eq_refl) as (w & Hw & Haw).
      rewrite Hw. exists w. split; [reflexivity|exact Haw]. }
    specialize (G (Z.to_nat (b - a + 1)) (Z.to_nat a) (OInt 0) 0%Z eq_refl).
    destruct (sum_counts rows (Z.to_nat a) (Z.to_nat (b - a + 1))) as [r|e]; cbn [bind int_of] in *.
    + destruct G as (v & Hv & Hav). unfold id in Hv. rewrite Hv. cbn [bind]. exists v. split; [reflexivity|exact Hav].
    + rewrite G. reflexivity.
Qed.


Lemma readline_lines l t : line_ok l ->
  py_readline (OFile (render_lines (l :: t))) = Ok (OFile (render_lines t), OStr (render_line l)).
Proof. intros H. cbn [py_readline]. rewrite (read_line_lines l t H). reflexivity. Qed.
Lemma readline_eof : py_readline (OFile "") = Ok (OFile "", OStr "").
Proof. reflexivity. Qed.

(* a `while True:` loop that reads a file line by line until readline() returns "" *)
Lemma while_lines {T X} (body : T -> result (lres T)) (mk : X -> string -> T) (step : X -> line -> result X) :
  (forall x l rest, line_ok l ->
     body (mk x (render_lines (l :: rest)))
     = match step x l with Ok x' => Ok (LNext (mk x' (render_lines rest))) | Err e => Err e end) ->
  (forall x, body (mk x "") = Ok (LBreak (mk x ""))) ->
  forall ls x fuel, Forall line_ok ls -> (List.length ls < fuel)%nat ->
  py_while fuel body (mk x (render_lines ls))
  = match fold_leftM step ls x with Ok x' => Ok (mk x' "") | Err e => Err e end.
Proof.
  intros H1 H2. induction ls as [|l ls IH]; intros x fuel Hok Hf.
  - destruct fuel as [|fuel]; [cbn in Hf; lia|]. cbn [py_while render_lines fold_leftM]. rewrite H2. reflexivity.
  - destruct fuel as [|fuel]; [cbn in Hf; lia|]. inversion Hok as [|? ? Hl Hls]; subst.
    cbn [py_while fold_leftM]. rewrite (H1 x l ls Hl).
    destruct (step x l) as [x'|e]; cbn [bind]; [|reflexivity].
    apply IH; [exact Hls|cbn in Hf; lia].
Qed.

Lemma lines_le_length ls : (List.length ls <= String.length (render_lines ls))%nat.
Proof.
  induction ls as [|l ls IH]; [cbn; lia|]. cbn [render_lines List.length]. rewrite length_append. cbn [String.length]. lia.
Qed.

Lemma render_line_nonempty l : (render_line l =? "") = false.
Proof. unfold render_line. destruct (join sp l); reflexivity. Qed.

Section Scan.
  Variable ti : string -> option Q.

  Definition set_ends (s : oself) (E : list ov) : oself := py_setattr s A_ends (OList E).
  Definition scan_step (x : list ov * (oself * list ov)) (l : line) : result (list ov * (oself * list ov)) :=
    let '(evo, (s, E)) := x in
    match kind_scan l with
    | SEnd => Ok (evo, (s, E ++ [OStr (render_line l)]))%list
    | SOut => match nth_error l 2 with
              | None => Err IndexError
              | Some e => match nth_error l 4 with
                          | None => Err IndexError
                          | Some c => match ti c with
                                      | None => Err ValueError
                                      | Some q => Ok (evo ++ [OList [OStr e; OInt (to_Z q)]], (s, E))%list
                                      end
                          end
              end
    | SOther => Ok x
    end.

  Lemma kind_scan_raw l : line_ok l ->
    kind_scan l = if contains "#" (render_line l) && contains " end " (render_line l) then SEnd
                  else if contains "#" (render_line l) && contains " out " (render_line l) then SOut else SOther.
  Proof.
    intros H. pose proof (raw_kind_scan l H) as E. injection E as -> -> ->. reflexivity.
  Qed.

  Definition scan_mk text path fmt opts nev cnt attrs (x : list ov * list ov) (txt : string) : ov * ov * oself :=
    (OList (fst x), OFile txt, mkO text path fmt opts (OList (snd x)) nev cnt attrs).
  Definition scan_step' (x : list ov * list ov) (l : line) : result (list ov * list ov) :=
    let '(evo, E) := x in
    match kind_scan l with
    | SEnd => Ok (evo, E ++ [OStr (render_line l)])%list
    | SOut => match nth_error l 2 with
              | None => Err IndexError
              | Some e => match nth_error l 4 with
                          | None => Err IndexError
                          | Some c => match ti c with
                                      | None => Err ValueError
                                      | Some q => Ok (evo ++ [OList [OStr e; OInt (to_Z q)]], E)%list
                                      end
                          end
              end
    | SOther => Ok x
    end.

  (* every event label of an "out" line is a numeral *)
  Definition labels_ok (ls : list line) : Prop :=
    Forall (fun l => kind_scan l = SOut -> forall e, nth_error l 2 = Some e -> ti e <> None) ls.

  Lemma scan_fold ls : labels_ok ls -> forall evo E,
    match scan ti ls with
    | Ok (cs, fs) => exists ent, fold_leftM scan_step' ls (evo, E) = Ok (evo ++ ent, E ++ map (fun l => OStr (render_line l)) fs)%list
                                 /\ mapM (row_int ti) ent = Ok cs
    | Err e => fold_leftM scan_step' ls (evo, E) = Err e
    end.
  Proof.
    induction 1 as [|l ls Hl _ IH]; intros evo E.
    - cbn. exists []. rewrite !app_nil_r. split; reflexivity.
    - cbn [scan fold_leftM scan_step']. destruct (kind_scan l) eqn:K.
      + specialize (IH evo (E ++ [OStr (render_line l)])%list). cbn [bind].
        destruct (scan ti ls) as [[cs fs]|e]; cbn [bind fst snd].
        * destruct IH as (ent & Hf & Hm). exists ent. rewrite Hf. cbn [map]. rewrite <- app_assoc. split; [reflexivity|exact Hm].
        * exact IH.
      + destruct (nth_error l 2) as [e|] eqn:E2; [|reflexivity].
        destruct (nth_error l 4) as [c|] eqn:E4; [|reflexivity].
        specialize (Hl eq_refl e eq_refl).
        destruct (ti e) as [ev|] eqn:Te; [|congruence].
        destruct (ti c) as [cn|] eqn:Tc; [|reflexivity]. cbn [bind].
        specialize (IH (evo ++ [OList [OStr e; OInt (to_Z cn)]])%list E).
        destruct (scan ti ls) as [[cs fs]|e']; cbn [bind fst snd].
        * destruct IH as (ent & Hf & Hm). exists (OList [OStr e; OInt (to_Z cn)] :: ent). rewrite Hf.
          rewrite <- app_assoc. split; [reflexivity|]. cbn [mapM row_int cell_int bind]. rewrite Te, Hm. reflexivity.
        * exact IH.
      + cbn [bind]. apply IH.
  Qed.

  Lemma mapM_length {A B} (f : A -> result B) l r : mapM f l = Ok r -> List.length r = List.length l.
  Proof.
    revert r; induction l as [|x l IH]; intros r H; cbn in H; [injection H as <-; reflexivity|].
    destruct (f x); cbn in H; [|discriminate]. destruct (mapM f l) as [r'|]; cbn in H; [|discriminate].
    injection H as <-. cbn. rewrite (IH r' eq_refl). reflexivity.
  Qed.

  Theorem source_scan path fmt opts E nev cnt attrs ls :
    Forall line_ok ls -> fmt <> "Oscar2013Extended_IC" -> fmt <> "Oscar2013Extended_Photons" -> labels_ok ls ->
    gen_set_num_output_per_event_and_event_footers ti (mkO (render_lines ls) path (OStr fmt) opts (OList E) nev cnt attrs)
    = match scan ti ls with
      | Ok (cs, fs) => Ok (mkO (render_lines ls) path (OStr fmt) opts (OList (E ++ map (fun l => OStr (render_line l)) fs)) nev
                               (OArr (cnt_of cs)) attrs, ONone)
      | Err e => Err e
      end.
  Proof.
    intros Hok H1 H2 Hlab. unfold gen_set_num_output_per_event_and_event_footers. cbv zeta.
    cbn [py_getattr attr_get o_fmt bind py_ne py_eq notM andM py_open o_text].
    apply String.eqb_neq in H1, H2. rewrite H1, H2. cbn [negb bind].
    match goal with |- context [py_while ?f ?b ?s] =>
      pose proof (while_lines b (scan_mk (render_lines ls) path (OStr fmt) opts nev cnt attrs) scan_step') as W end.
    cbv beta in W.
    match type of W with (?P -> ?Q -> _) => assert (W1 : P); [|assert (W2 : Q); [|specialize (W W1 W2); clear W1 W2]] end.
    - intros [evo E'] l rest Hl. unfold scan_mk. cbn [fst snd]. cbv iota beta.
      rewrite (readline_lines l rest Hl). cbv iota beta. cbn [py_truthy notM bind negb].
      rewrite render_line_nonempty. cbn [negb py_in andM bind].
      unfold scan_step'. rewrite (kind_scan_raw l Hl).
      destruct (contains "#" (render_line l)); cbn [andb bind]; [|reflexivity].
      destruct (contains " end " (render_line l)); cbn [bind].
      { cbn [py_getattr attr_get o_ends py_append bind py_setattr]. reflexivity. }
      destruct (contains " out " (render_line l)); cbn [bind]; [|reflexivity].
      cbn [py_str_replace py_str_split bind]. change (split_on " "%char) with (split_on sp).
      rewrite (tokens_of_line l Hl).
      change (OInt 2) with (OInt (Z.of_nat 2)). change (OInt 4) with (OInt (Z.of_nat 4)).
      rewrite !getitem_list_nat, !nth_error_map_some.
      destruct (nth_error l 2) as [e|]; cbn [option_map bind]; [|reflexivity].
      destruct (nth_error l 4) as [c|]; cbn [option_map bind py_int]; [|reflexivity].
      destruct (ti c) as [q|]; cbn [bind py_append]; reflexivity.
    - intros [evo E']. reflexivity.
    - specialize (W ls ([], E) (py_fuel [OList []; OFile (render_lines ls)]) Hok).
      unfold scan_mk at 1 in W. cbn [fst snd] in W. rewrite W.
      2:{ unfold py_fuel. cbn [fold_right fuel_of]. pose proof (lines_le_length ls). lia. }
      pose proof (scan_fold ls Hlab [] E) as G.
      destruct (scan ti ls) as [[cs fs]|e].
      + destruct G as (ent & Hf & Hm). rewrite Hf. cbn [app bind scan_mk fst snd]. cbv iota beta. cbn [bind].
        assert (Hc : py_np_array_int32_2d ti (OList ent) = Ok (OArr (cnt_of cs))).
        { destruct ent as [|x ent].
          - cbn in Hm. injection Hm as <-. reflexivity.
          - cbn [py_np_array_int32_2d]. rewrite Hm. cbn [bind].
            pose proof (mapM_length _ _ _ Hm) as Hlen. destruct cs; [discriminate|reflexivity]. }
        rewrite Hc. reflexivity.
      + rewrite G. reflexivity.
  Qed.
End Scan.


Definition inj_cnt (c : list (Z * Z)) : arr := match c with [] => A1 [] | _ => A2 c end.

Lemma set_row_spec {A} k (v : A) l :
  set_row k v l = if (k <? List.length l)%nat then Ok (firstn k l ++ v :: skipn (S k) l)%list else Err IndexError.
Proof.
  revert k; induction l as [|x l IH]; intros [|k]; try reflexivity.
  cbn [set_row List.length]. rewrite IH. change (S k <? S (List.length l))%nat with (k <? List.length l)%nat.
  destruct (k <? List.length l)%nat; reflexivity.
Qed.
Lemma pyset_set_row {A} (l : list A) k v : pyset l (Z.of_nat k) v = set_row k v l.
Proof.
  rewrite set_row_spec. unfold pyset, zlen. cbv zeta.
  assert (Hk : (Z.of_nat k <? 0)%Z = false) by (apply Z.ltb_ge; lia). rewrite !Hk. cbn [orb]. rewrite Nat2Z.id.
  destruct (Nat.ltb_spec k (List.length l)).
  - replace (Z.of_nat (List.length l) <=? Z.of_nat k)%Z with false by (symmetry; apply Z.leb_gt; lia). reflexivity.
  - replace (Z.of_nat (List.length l) <=? Z.of_nat k)%Z with true by (symmetry; apply Z.leb_le; lia). reflexivity.
Qed.

Lemma set_row_nonempty {A} k (v : A) l l' : set_row k v l = Ok l' -> l' <> [].
Proof.
  destruct l as [|x l]; [destruct k; discriminate|]. destruct k as [|k]; cbn.
  - intros H. injection H as <-. discriminate.
  - destruct (set_row k v l); cbn; intros H; [injection H as <-; discriminate|discriminate].
Qed.

Lemma setitem_inj c k a b :
  py_setitem (OArr (inj_cnt c)) (OInt (Z.of_nat k)) (OTuple [OInt a; OInt b])
  = (c' <- set_row k (a, b) c ;; Ok (OArr (inj_cnt c'))).
Proof.
  destruct c as [|r c].
  - cbn [inj_cnt py_setitem as_int]. rewrite pyget_nat. destruct k; reflexivity.
  - cbn [inj_cnt py_setitem as_int]. rewrite pyset_set_row.
    destruct (set_row k (a, b) (r :: c)) as [c'|e] eqn:E; cbn [bind]; [|reflexivity].
    apply set_row_nonempty in E. destruct c'; [congruence|reflexivity].
Qed.

Lemma delete_nth_row {A} k (l : list A) : delete_nth k l = delete_row k l.
Proof. revert k; induction l as [|x l IH]; intros [|k]; cbn; try reflexivity; f_equal; apply IH. Qed.

Lemma delete_inj c k :
  (v <- py_np_delete_axis0 (OArr (inj_cnt c)) (OInt (Z.of_nat k)) ;; py_np_atleast_2d v)
  = if (k <? List.length c)%nat then Ok (OArr (A2 (delete_row k c))) else Err IndexError.
Proof.
  destruct c as [|r c].
  - cbn [inj_cnt py_np_delete_axis0 as_int]. unfold zlen. cbn [List.length]. cbv zeta.
    assert (Hk : (Z.of_nat k <? 0)%Z = false) by (apply Z.ltb_ge; lia). rewrite !Hk.
    replace (Z.of_nat 0 <=? Z.of_nat k)%Z with true by (symmetry; apply Z.leb_le; lia). destruct k; reflexivity.
  - cbn [inj_cnt py_np_delete_axis0 as_int]. unfold zlen. cbv zeta.
    assert (Hk : (Z.of_nat k <? 0)%Z = false) by (apply Z.ltb_ge; lia). rewrite !Hk. cbn [orb].
    destruct (Nat.ltb_spec k (List.length (r :: c))).
    + replace (Z.of_nat (List.length (r :: c)) <=? Z.of_nat k)%Z with false by (symmetry; apply Z.leb_gt; lia).
      cbn [bind py_np_atleast_2d]. rewrite Nat2Z.id, delete_nth_row. reflexivity.
    + replace (Z.of_nat (List.length (r :: c)) <=? Z.of_nat k)%Z with true by (symmetry; apply Z.leb_le; lia). reflexivity.
Qed.

Lemma clamp_nat k n : (k <= n)%nat -> clamp (Z.of_nat k) (Z.of_nat n) = k.
Proof. intros H. unfold clamp. replace (Z.of_nat k <? 0)%Z with false by (symmetry; apply Z.ltb_ge; lia). rewrite Z.min_l by lia. apply Nat2Z.id. Qed.

(* what is done with the count rows once row k has been removed *)
Lemma after_delete r k :
  (c <- (v <- (s <- py_shape (OArr (A2 r)) ;; py_getitem s (OInt 0)) ;; py_eq v (OInt 0)) ;;
   if c then Ok (OArr (A1 []))
   else c2 <- (v <- (s <- py_shape (OArr (A2 r)) ;; py_getitem s (OInt 0)) ;; py_lt (OInt (Z.of_nat k)) v) ;;
        if c2 then py_isub_colslice (OArr (A2 r)) (OInt (Z.of_nat k)) (OInt 0) (OInt 1) else Ok (OArr (A2 r)))
  = Ok (OArr (inj_cnt (dec_labels_from k r))).
Proof.
  cbn [py_shape bind]. change (py_getitem (OTuple [OInt (zlen r); OInt 2]) (OInt 0)) with (Ok (OInt (zlen r))).
  cbn [bind py_eq as_int py_lt py_cmp].
  destruct r as [|r0 r]; [destruct k; reflexivity|].
  replace (zlen (r0 :: r) =? 0)%Z with false by (symmetry; apply Z.eqb_neq; unfold zlen; cbn [List.length]; lia).
  cbn [bind]. unfold zlen. destruct (Z.ltb_spec (Z.of_nat k) (Z.of_nat (List.length (r0 :: r)))); cbn [bind].
  - cbn [py_isub_colslice as_int col_of Z.eqb orb]. unfold zlen. rewrite clamp_nat by lia.
    unfold dec_labels_from.
    assert (Hm : map (fun r1 : Z * Z => rset r1 false (rget r1 false - 1)%Z) (skipn k (r0 :: r))
                 = map (fun c : Z * Z => ((fst c - 1)%Z, snd c)) (skipn k (r0 :: r))) by reflexivity.
    rewrite Hm. destruct (firstn k (r0 :: r) ++ _)%list eqn:E; [|reflexivity].
    apply (f_equal (@List.length _)) in E. rewrite app_length, map_length, firstn_length, skipn_length in E. cbn [List.length] in *. lia.
  - unfold dec_labels_from. rewrite firstn_all2, skipn_all2 by lia. cbn [map]. rewrite app_nil_r. reflexivity.
Qed.

Lemma isub_dec r k : (k < List.length r)%nat ->
  py_isub_colslice (OArr (A2 r)) (OInt (Z.of_nat k)) (OInt 0) (OInt 1) = Ok (OArr (A2 (dec_labels_from k r))).
Proof.
  intros H. cbn [py_isub_colslice as_int col_of Z.eqb orb]. unfold zlen. rewrite clamp_nat by lia. reflexivity.
Qed.
Lemma dec_labels_all r k : (List.length r <= k)%nat -> dec_labels_from k r = r.
Proof. intros H. unfold dec_labels_from. rewrite firstn_all2, skipn_all2 by lia. apply app_nil_r. Qed.
Lemma dec_labels_length r k : List.length (dec_labels_from k r) = List.length r.
Proof.
  unfold dec_labels_from. rewrite app_length, map_length, firstn_length, skipn_length. lia.
Qed.

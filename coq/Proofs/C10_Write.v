(* C10: on a well-shaped state write_to_file is total and writes, for every histogram and bin, exactly the
   requested columns with their values, under the labels of those columns. *)
From Coq Require Import List ZArith QArith Qcanon Bool Arith Lia.
From SX Require Import Model.Histogram Lib.HistBase Proofs.C09_Count Proofs.C09_Scale.
Import ListNotations.
Local Open Scope nat_scope.

(* ---------------------------------------------------------------- specification vocabulary *)
Definition cellat (a : arr) (k i : nat) : cell :=
  match a with A2 rows => nth i (nth k rows []) None | A1 _ => None end.

(* the value that belongs to column c (0..7) of histogram k, bin i *)
Definition value_of (h : hist) (k i c : nat) : cell :=
  match c with
  | 0 => Some ((nth i (edges h) 0 + nth (S i) (edges h) 0) / q2)%Qc
  | 1 => Some (nth i (edges h) 0%Qc)
  | 2 => Some (nth (S i) (edges h) 0%Qc)
  | 3 => cellat (hH h) k i
  | 4 | 5 => cellat (hERR h) k i
  | 6 | 7 => cellat (hSYS h) k i
  | _ => None
  end.

(* the label dictionary used for histogram k: the single one, or the k-th *)
Definition dict_of (labels : list ldict) (k : nat) : ldict :=
  if Nat.eqb (length labels) 1 then nth 0 labels [] else nth k labels [].
Definition label_of (d : ldict) (c : nat) : nat := match lookup d c with Ok v => v | Err _ => 0 end.

Definition cols_of (columns : option (list nat)) : list nat :=
  match columns with None => default_columns | Some cs => cs end.

(* what the file must contain *)
Definition write_spec (h : hist) (labels : list ldict) (columns : option (list nat)) : table :=
  map (fun k => (map (label_of (dict_of labels k)) (cols_of columns),
                 map (fun i => map (value_of h k i) (cols_of columns)) (seq 0 (nbins h))))
      (seq 0 (nhist h)).

(* valid arguments: one dictionary or at least one per histogram, every requested column among the eight
   and present in every dictionary that is used *)
Definition args_ok (h : hist) (labels : list ldict) (columns : option (list nat)) : Prop :=
  (length labels = 1 \/ nhist h <= length labels)
  /\ (forall c, In c (cols_of columns) -> c < 8)
  /\ (forall k c, k < nhist h -> In c (cols_of columns) -> has_key (dict_of labels k) c = true).

(* ---------------------------------------------------------------- helpers *)
Lemma mapM_map {A B} (f : A -> result B) (g : A -> B) l :
  (forall x, In x l -> f x = Ok (g x)) -> mapM f l = Ok (map g l).
Proof.
  induction l as [|x t IH]; intros H; [reflexivity|].
  simpl. rewrite (H x) by (left; reflexivity). simpl. rewrite IH by (intros; apply H; right; assumption). reflexivity.
Qed.

Lemma lookup_has_key d c : has_key d c = true -> lookup d c = Ok (label_of d c).
Proof.
  unfold label_of. induction d as [|[k v] t IH]; simpl; [discriminate|].
  destruct (Nat.eqb c k); simpl; [reflexivity|]. exact IH.
Qed.

Lemma nth_res_lt {A} (l : list A) i d : i < length l -> nth_res l i = Ok (nth i l d).
Proof.
  intros H. unfold nth_res. destruct (nth_error l i) eqn:E.
  - now rewrite (nth_error_nth _ _ d E).
  - apply nth_error_None in E. lia.
Qed.

Lemma cell2_shape k n a idx i : Shape2 k n a -> idx < k -> i < n -> cell2 a idx i = Ok (cellat a idx i).
Proof.
  intros [rows [-> [L F]]] Hk Hi. unfold cell2, cellat.
  rewrite (nth_res_lt rows idx []) by lia. cbn [bind].
  apply nth_res_lt. rewrite Forall_forall in F. rewrite (F (nth idx rows [])); [exact Hi | apply nth_In; lia].
Qed.

Lemma data_row_spec h k i : Shape h -> k < nhist h -> i < nbins h ->
  data_row h k i = Ok (map (value_of h k i) (seq 0 8)).
Proof.
  intros [Hn [He [SH [SR [SE [SS SY]]]]]] Hk Hi. unfold data_row, qcell.
  destruct (geometry_length (edges h)) as [Lc [_ [Ll Lr]]].
  destruct (geometry (edges h) i) as [Gc [_ [Gl Gr]]]; [lia|].
  rewrite (nth_res_lt (centers (edges h)) i 0%Qc) by lia. cbn [bind].
  rewrite (nth_res_lt (bounds_left (edges h)) i 0%Qc) by lia. cbn [bind].
  rewrite (nth_res_lt (bounds_right (edges h)) i 0%Qc) by lia. cbn [bind].
  rewrite (cell2_shape _ _ _ _ _ SH Hk Hi), (cell2_shape _ _ _ _ _ SE Hk Hi), (cell2_shape _ _ _ _ _ SY Hk Hi).
  cbn [bind seq map value_of]. rewrite Gc, Gl, Gr. reflexivity.
Qed.

Lemma nth_map_seq_gen {B} (f : nat -> B) d : forall n s c, c < n -> nth c (map f (seq s n)) d = f (s + c).
Proof.
  induction n as [|n IH]; intros s c H; [lia|].
  destruct c; simpl; [f_equal; lia|]. rewrite IH by lia. f_equal. lia.
Qed.
Lemma nth_map_seq {B} (f : nat -> B) d n c : c < n -> nth c (map f (seq 0 n)) d = f c.
Proof. intros H. now rewrite nth_map_seq_gen. Qed.

Lemma select_spec (data : list cell) (f : nat -> cell) cols :
  data = map f (seq 0 8) -> (forall c, In c cols -> c < 8) ->
  mapM (fun c => nth_res data c) cols = Ok (map f cols).
Proof.
  intros -> H. apply mapM_map. intros c Hc. specialize (H c Hc). cbv beta.
  rewrite (nth_res_lt _ c (None : cell)) by (rewrite map_length, seq_length; exact H).
  f_equal. apply nth_map_seq. exact H.
Qed.

(* ---------------------------------------------------------------- the theorem *)
Lemma write_total_exact h labels columns : Shape h -> args_ok h labels columns ->
  write_to_file h labels columns = Ok (write_spec h labels columns).
Proof.
  intros Sh [Hl [Hc Hk]]. pose proof Sh as [Hn _]. unfold write_to_file.
  (* the first test: requested columns are keys of the first dictionary *)
  assert (T1 : match columns with
               | Some cols => match labels with
                              | [] => Err IndexError
                              | d0 :: _ => if forallb (has_key d0) cols then Ok tt else Err TypeError
                              end
               | None => Ok tt
               end = Ok tt).
  { destruct columns as [cols|]; [|reflexivity].
    destruct labels as [|d0 rest]; [simpl in Hl; lia|].
    replace (forallb (has_key d0) cols) with true; [reflexivity|]. symmetry. apply forallb_forall.
    intros c Hin. specialize (Hk 0 c). unfold dict_of in Hk. simpl in Hk.
    destruct (length rest =? 0) in Hk; apply Hk; auto; lia. }
  rewrite T1. cbn [bind].
  (* the dictionaries used: replicated single one, or the given list *)
  assert (T2 : exists labels', (if (1 <? nhist h) && Nat.eqb (length labels) 1 then Ok (concat (repeat labels (nhist h)))
                                else if (1 <? nhist h) && (1 <? length labels) && (length labels <? nhist h) then Err ValueError
                                else Ok labels) = Ok labels'
                               /\ forall k, k < nhist h -> nth_res labels' k = Ok (dict_of labels k)).
  { destruct (Nat.eqb (length labels) 1) eqn:L1.
    - apply Nat.eqb_eq in L1. destruct labels as [|d [|? ?]]; try discriminate.
      destruct (1 <? nhist h) eqn:N1; cbn [andb].
      + eexists. split; [reflexivity|]. intros k Hkk. unfold dict_of. simpl.
        replace (concat (repeat [d] (nhist h))) with (repeat d (nhist h)).
        2:{ clear. induction (nhist h); simpl; congruence. }
        rewrite (nth_res_lt _ k d) by (rewrite repeat_length; exact Hkk). f_equal. apply nth_repeat.
      + eexists. split; [reflexivity|]. intros k Hkk. apply Nat.ltb_ge in N1.
        assert (k = 0) by lia. subst. reflexivity.
    - apply Nat.eqb_neq in L1. destruct Hl as [Hl|Hl]; [congruence|].
      rewrite andb_false_r.
      replace (length labels <? nhist h) with false by (symmetry; apply Nat.ltb_ge; exact Hl). rewrite andb_false_r.
      eexists. split; [reflexivity|]. intros k Hkk. unfold dict_of.
      replace (Nat.eqb (length labels) 1) with false by (symmetry; now apply Nat.eqb_neq).
      apply nth_res_lt. lia. }
  destruct T2 as [labels' [-> Hd]]. cbn [bind].
  assert (T3 : match columns with
               | None => Ok default_columns
               | Some cols => if forallb (fun c => existsb (Nat.eqb c) default_columns) cols then Ok cols else Err ValueError
               end = Ok (cols_of columns)).
  { destruct columns as [cols|]; [|reflexivity]. cbn [cols_of] in *.
    replace (forallb _ cols) with true; [reflexivity|]. symmetry. apply forallb_forall. intros c Hin.
    apply existsb_exists. exists c. split; [|apply Nat.eqb_refl]. unfold default_columns. apply in_seq. specialize (Hc c Hin). lia. }
  rewrite T3. cbn [bind]. unfold write_spec.
  apply mapM_map. intros k Hkin. apply in_seq in Hkin. assert (Hkk : k < nhist h) by lia.
  rewrite (Hd k Hkk). cbn [bind].
  rewrite (mapM_map _ (label_of (dict_of labels k))) by (intros c Hin; apply lookup_has_key, Hk; assumption).
  cbn [bind].
  rewrite (mapM_map _ (fun i => map (value_of h k i) (cols_of columns))).
  - reflexivity.
  - intros i Hin. apply in_seq in Hin. rewrite (data_row_spec h k i Sh Hkk) by lia. cbn [bind].
    apply select_spec; [reflexivity | exact Hc].
Qed.

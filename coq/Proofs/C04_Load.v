(* C04: the states the three loaders hand to the storer satisfy the invariant. *)
From Coq Require Import List ZArith Bool Lia QArith.
From SX Require Import Lib.Py Model.Storer Model.StorerSpec Proofs.C04_Core.
Import ListNotations.
Local Open Scope Z_scope.

Lemma load_file_Inv c base evs s filt xe fmt pt sg st :
  load_file c base evs s filt xe fmt pt sg = Ok st ->
  Inv st /\ scls st = c /\
  (0 < nevents st -> exists first, counts st = A2 (recount (base + first) (events st))).
Proof.
  unfold load_file. destruct evs as [|e0 t0]; [discriminate|].
  destruct (select_file (e0 :: t0) s) as [[first selected]|]; simpl; [|discriminate].
  destruct (match filt with None => Ok selected | Some ch => ctor_loop ch selected end) as [kept|];
    simpl; [|discriminate].
  intros H. injection H as <-. destruct kept as [|k kt].
  - split; [right; unfold Emp; simpl; auto|]. split; [reflexivity|]. simpl. lia.
  - split; [|split; [reflexivity|intros _; exists first; reflexivity]].
    left. apply Reg_iff. exists (base + first). unfold RegR. simpl. repeat split; congruence.
Qed.

Theorem load_oscar_Inv evs s filt fmt st : load_oscar evs s filt fmt = Ok st -> Inv st.
Proof. unfold load_oscar. intros H. now apply load_file_Inv in H. Qed.

Theorem load_jetscape_Inv evs s filt pt sg st : load_jetscape evs s filt pt sg = Ok st -> Inv st.
Proof. unfold load_jetscape. intros H. now apply load_file_Inv in H. Qed.

Theorem load_pobj_Inv evs s filt st : load_pobj evs s filt = Ok st -> Inv st.
Proof.
  unfold load_pobj. destruct (pobj_loader evs s filt) as [[[[first l] n] c]|]; simpl; [|discriminate].
  intros H. injection H as <-. destruct l as [|e t].
  - right. unfold Emp. simpl. auto.
  - left. apply Reg_iff. exists first. unfold RegR. simpl. repeat split; congruence.
Qed.

(* what the tuple of ParticleObjectLoader.load() would be worth without the recount of the storer's
   constructor, and a 1-D count array (the shapes the unrepaired code handed over) *)
Theorem raw_pobj_tuple_unusable l n cnt o :
  let s := mkS CPobj l (PyL cnt) n [] 0 0 0%Q in
  n <> 0 -> cnt <> [] ->
  (exists e, particle_list s = Err e) /\ apply_filter s o = Err AttributeError.
Proof.
  intros s Hn Hc. split; [|reflexivity].
  unfold particle_list. simpl. destruct (n =? 0) eqn:E0; [apply Z.eqb_eq in E0; congruence|].
  destruct (n =? 1); destruct cnt; try congruence; simpl; eauto.
Qed.

Theorem one_dim_counts_unusable c l lab cnt xe f p sg :
  particle_list (mkS c l (A1 [lab; cnt]) 1 xe f p sg) = Err IndexError.
Proof. reflexivity. Qed.

(* construction followed by any admissible history *)
From SX Require Import Proofs.C04_Add Proofs.C04_Run.

Theorem loaded_file_history c base evs s filt xe fmt pt sg s0 ops :
  load_file c base evs s filt xe fmt pt sg = Ok s0 -> Forall (adm_op s0) ops ->
  exists st, run s0 ops = Ok st /\ Inv st /\ held st = run_spec (held s0) ops /\
             nevents st = zlen (held st) /\ particle_list st = Ok (plist_spec st).
Proof. intros H. apply history_all. now apply load_file_Inv in H. Qed.

Theorem loaded_pobj_history evs s filt s0 ops :
  load_pobj evs s filt = Ok s0 -> Forall (adm_op s0) ops ->
  exists st, run s0 ops = Ok st /\ Inv st /\ held st = run_spec (held s0) ops /\
             nevents st = zlen (held st) /\ particle_list st = Ok (plist_spec st).
Proof. intros H. apply history_all. now apply load_pobj_Inv in H. Qed.

(* C20: argument normalisation - None is unbounded, interchanged limits are put in order. *)
From Coq Require Import List ZArith QArith Bool Lia.
From SX Require Import Model.Jets Model.JetsSpec.
Import ListNotations.

Lemma qlt_asym x y : qlt x y = true -> qlt y x = false.
Proof.
  unfold qlt. intros H. apply negb_true_iff in H. apply negb_false_iff.
  apply Qle_bool_iff. destruct (Qlt_le_dec x y) as [L|L]; [apply Qlt_le_weak; exact L|].
  apply Qle_bool_iff in L. congruence.
Qed.

Lemma ext_lt_asym a b : ext_lt a b = true -> ext_lt b a = false.
Proof. destruct a, b; simpl; try reflexivity; try discriminate. apply qlt_asym. Qed.

Lemma reorder_spec l u :
  ext_le (fst (reorder l u)) (snd (reorder l u)) = true /\ (reorder l u = (l, u) \/ reorder l u = (u, l)).
Proof.
  unfold reorder. destruct (ext_lt l u) eqn:E; simpl; split; auto.
  - unfold ext_le. rewrite (ext_lt_asym _ _ E). reflexivity.
  - unfold ext_le. rewrite E. reflexivity.
Qed.

Definition lower_eta (r : option Q * option Q) : ext := match fst r with None => NInf | Some x => Fin x end.
Definition upper_of (r : option Q * option Q) : ext := match snd r with None => PInf | Some x => Fin x end.
Definition lower_pt (r : option Q * option Q) : ext := match fst r with None => Fin 0 | Some x => Fin x end.

Theorem limits_reordered r :
  (ext_le (fst (norm_eta r)) (snd (norm_eta r)) = true
   /\ (norm_eta r = (lower_eta r, upper_of r) \/ norm_eta r = (upper_of r, lower_eta r)))
  /\ (ext_le (fst (norm_pt r)) (snd (norm_pt r)) = true
   /\ (norm_pt r = (lower_pt r, upper_of r) \/ norm_pt r = (upper_of r, lower_pt r))).
Proof. split; apply reorder_spec. Qed.

(* limits given in order are kept; None on either side leaves that side open *)
Theorem limits_in_order r :
  ext_lt (lower_eta r) (upper_of r) = true -> norm_eta r = (lower_eta r, upper_of r).
Proof. intros H. unfold norm_eta, reorder. fold (lower_eta r) (upper_of r). rewrite H. reflexivity. Qed.

Theorem unbounded_window e : in_window e (norm_eta (None, None)) = true.
Proof. reflexivity. Qed.

(* C04 bridge: the loader hand-over of Model/Storer.v in closed form ([load_oscar], [load_jetscape] = [load_file],
   [load_pobj] - what a storer holds right after construction) against the loader models Model/Oscar.v [load],
   Model/Jetscape.v [jload], Model/PObj.v [pload], which are proved equal to the regenerated method bodies
   (Properties/SrcOscarLoader.v, SrcJetscapeLoader.v, SrcPObj.v).

   Model/Storer.v identifies a particle with a number ([pid]); the loader models carry the 25 data slots.
   [ident] is ANY function from a loaded particle to its identity.  A constructor filter chain of Model/Storer.v is a
   list of [fop] on lists of identities, the loader models take a function [f] of one event's particle list;
       realises4 ident filt flt evs :=  both absent, or  forall data in evs,
                                        map ident (f data) = chain_event ch (map ident data)
   ([chain_event ch data] = the one event of  gchain ch [data],  which is what [ctor_apply] returns).
   No read loop is proved here (Proofs/Bridge_Loads.v over C01/C02). *)
From Coq Require Import List String ZArith QArith Bool Arith Lia.
From SX Require Import Lib.Strs Gen.GenParticleMap Model.Oscar Model.OscarDoc Model.Jetscape Model.JetscapeDoc
  Proofs.C01_Oscar Proofs.C01_Jetscape Proofs.C02_Oscar Proofs.C02_Filter Proofs.C02_Jetscape Proofs.C02_JetscapeSel
  Proofs.Bridge_Loads.
From SX Require Import Model.PObj Proofs.C02_PObj.
From SX Require Import Lib.Py Model.Storer Model.StorerSpec Proofs.C04_Core.
Import ListNotations.
Local Notation length := List.length.

(* the count table with its shape: no rows = the empty 1-D array np.array([]) the file loaders leave when no event
   is left, else the 2-D table of (label, count) rows *)
Definition table_of (rows : list (Z * Z)) : carr := match rows with [] => A1 [] | _ => A2 rows end.

Definition sel_storer (s : selector) : sel :=
  match s with SelAll => SAll | SelOne k => SOne k | SelRange a b => SRange a b end.

(* ------------------------------------------------------------------ the chain of Model/Storer.v on one event *)
Definition chain_event (ch : list fop) (data : event) : event := hd [] (gchain ch [data]).

Lemma gchain_single ch : forall data, gchain ch [data] = [chain_event ch data].
Proof.
  unfold chain_event, gchain. induction ch as [|o ch IH]; intros data; [reflexivity|].
  cbn [fold_left]. destruct o as [g|keep]; cbn [gfun map filter].
  - apply IH.
  - destruct (keep data); cbn [norm]; apply IH.
Qed.

Lemma ctor_apply_chain ch data : ctor_apply ch data = Ok (chain_event ch data).
Proof. unfold ctor_apply. rewrite gchain_single. reflexivity. Qed.

(* filters that select a sub-list by a predicate on the identity, and event-level cuts: these are realised on
   particle lists whatever [ident] is *)
Inductive sfop := SP (p : pid -> bool) | SE (keep : event -> bool).
Definition to_fop (o : sfop) : fop := match o with SP p => PL (filter p) | SE keep => EV keep end.
Definition lift_sfop (ident : particle -> pid) (o : sfop) (data : list particle) : list particle :=
  match o with
  | SP p => filter (fun x => p (ident x)) data
  | SE keep => if keep (map ident data) then data else []
  end.
Definition lift_chain (ident : particle -> pid) (ch : list sfop) (data : list particle) : list particle :=
  fold_left (fun e o => lift_sfop ident o e) ch data.

Lemma filter_map_ident {A B} (g : A -> B) (p : B -> bool) l : filter p (map g l) = map g (filter (fun x => p (g x)) l).
Proof. induction l as [|x t IH]; [reflexivity|]. cbn [map filter]. destruct (p (g x)); cbn [map]; rewrite IH; reflexivity. Qed.

Lemma lift_chain_realises ident ch : forall data,
  map ident (lift_chain ident ch data) = chain_event (map to_fop ch) (map ident data).
Proof.
  unfold chain_event, lift_chain, gchain. induction ch as [|o ch IH]; intros data; [reflexivity|].
  cbn [map fold_left]. destruct o as [p|keep]; cbn [to_fop gfun lift_sfop map filter].
  - rewrite filter_map_ident. apply IH.
  - destruct (keep (map ident data)); cbn [norm]; apply IH.
Qed.

Section Ident.
  Variable ident : particle -> pid.
  Notation I := (map (map ident)).

  Definition realises4 (filt : option (list fop)) (flt : option (list particle -> list particle))
             (evs : list (list particle)) : Prop :=
    match filt, flt with
    | None, None => True
    | Some ch, Some f => forall data, In data evs -> map ident (f data) = chain_event ch (map ident data)
    | _, _ => False
    end.

  Lemma is_nil_view (x : list particle) : is_nil (map ident x) = (length x =? 0)%nat.
  Proof. destruct x; reflexivity. Qed.

  Lemma ctor_loop_kept ch f : forall evs,
    (forall data, In data evs -> map ident (f data) = chain_event ch (map ident data)) ->
    ctor_loop ch (I evs) = Ok (I (kept f evs)).
  Proof.
    induction evs as [|d t IH]; intros R; [reflexivity|].
    cbn [map ctor_loop]. rewrite ctor_apply_chain. cbn [rbind].
    rewrite IH by (intros x Hx; apply R; right; exact Hx). cbn [rbind].
    rewrite <- (R d (or_introl eq_refl)). rewrite !is_nil_view. cbn [kept]. unfold keeps.
    destruct (negb (length (f d) =? 0)%nat || (length d =? 0)%nat); reflexivity.
  Qed.

  Lemma recount_relab : forall K l0, recount l0 (I K) = relab l0 (map (@length particle) K).
  Proof.
    induction K as [|k K IH]; intros l0; [reflexivity|]. cbn [map recount relab]. rewrite IH.
    unfold zlen. rewrite map_length. reflexivity.
  Qed.

  Lemma select_file_span (all : list event) sel a n :
    sel_span sel (length all) = Some (a, n) ->
    select_file all (sel_storer sel) = Ok (Z.of_nat a, firstn n (skipn a all)).
  Proof.
    destruct sel as [|k|x y]; cbn [sel_span sel_storer select_file].
    - intros H; inversion H; subst. cbn [skipn]. rewrite firstn_all. reflexivity.
    - destruct ((0 <=? k) && (k <? Z.of_nat (length all)))%Z eqn:E; [|discriminate]. intros H; inversion H; subst.
      apply andb_true_iff in E. destruct E as [E1 E2]. apply Z.leb_le in E1. pose proof E2 as E2'. apply Z.ltb_lt in E2'.
      replace (k <? 0)%Z with false by (symmetry; apply Z.ltb_ge; exact E1).
      unfold zlen. rewrite E2. unfold slice. rewrite Z2Nat.id by exact E1.
      replace (Z.to_nat (k + 1 - k)) with 1%nat by lia. reflexivity.
    - destruct ((0 <=? x) && (x <=? y) && (y <? Z.of_nat (length all)))%Z eqn:E; [|discriminate]. intros H; inversion H; subst.
      apply andb_true_iff in E. destruct E as [E E3]. apply andb_true_iff in E. destruct E as [E1 E2].
      apply Z.leb_le in E1. apply Z.leb_le in E2. pose proof E3 as E3'. apply Z.ltb_lt in E3'.
      replace (y <? x)%Z with false by (symmetry; apply Z.ltb_ge; exact E2).
      replace ((x <? 0) || (y <? 0))%Z with false
        by (symmetry; apply orb_false_iff; split; apply Z.ltb_ge; lia).
      unfold zlen. rewrite E3. unfold slice. rewrite Z2Nat.id by exact E1.
      replace (Z.to_nat (y + 1 - x)) with (Z.to_nat (y - x + 1)) by lia. reflexivity.
  Qed.

  Lemma load_file_past_end c base (all : list event) sel filt xe fmt pt sg :
    all <> [] -> sel_past_end sel (length all) ->
    load_file c base all (sel_storer sel) filt xe fmt pt sg = Err IndexError.
  Proof.
    intros Hne Hp. unfold load_file. destruct all as [|e0 t0] eqn:E; [congruence|]. rewrite <- E in *.
    destruct sel as [|k|x y]; cbn [sel_past_end sel_storer select_file] in *; [contradiction| |].
    - replace (k <? 0)%Z with false by (symmetry; apply Z.ltb_ge; lia).
      replace (k <? zlen all)%Z with false by (symmetry; apply Z.ltb_ge; unfold zlen; lia). reflexivity.
    - destruct Hp as (Hxy & Hy).
      replace (y <? x)%Z with false by (symmetry; apply Z.ltb_ge; lia).
      replace ((x <? 0) || (y <? 0))%Z with false by (symmetry; apply orb_false_iff; split; apply Z.ltb_ge; lia).
      replace (y <? zlen all)%Z with false by (symmetry; apply Z.ltb_ge; unfold zlen; lia). reflexivity.
  Qed.

  Lemma sel_span_pos sel N a n : sel_span sel N = Some (a, n) -> (0 < N)%nat -> (0 < n)%nat.
  Proof.
    destruct sel as [|k|x y]; cbn [sel_span].
    - intros H; inversion H; subst. auto.
    - destruct ((0 <=? k) && (k <? Z.of_nat N))%Z; [|discriminate]. intros H; inversion H; subst. lia.
    - destruct ((0 <=? x) && (x <=? y) && (y <? Z.of_nat N))%Z eqn:E; [|discriminate]. intros H; inversion H; subst.
      apply andb_true_iff in E. destruct E as [E _]. apply andb_true_iff in E. destruct E as [_ E2]. apply Z.leb_le in E2. lia.
  Qed.

  (* the state the closed form of Model/Storer.v yields for a file whose events are [all] *)
  Definition file_state (c : cls) (base : Z) (all : list (list particle)) (a n : nat)
             (flt : option (list particle -> list particle)) (xe : list Z) (fmt pt : Z) (sg : Q) : storer :=
    let B := firstn n (skipn a all) in
    match flt with
    | None => mkS c (I B) (A2 (relab (base + Z.of_nat a) (map (@length particle) B))) (Z.of_nat n) xe fmt pt sg
    | Some f =>
      match kept f B with
      | [] => mkS c [[]] (A1 []) 0 xe fmt pt sg
      | K => mkS c (I K) (A2 (relab (base + Z.of_nat a) (map (@length particle) K))) (Z.of_nat (length K)) xe fmt pt sg
      end
    end.

  Lemma load_file_bridge c base (all : list (list particle)) sel a n filt flt xe fmt pt sg :
    all <> [] -> sel_span sel (length all) = Some (a, n) ->
    realises4 filt flt (firstn n (skipn a all)) ->
    load_file c base (I all) (sel_storer sel) filt xe fmt pt sg = Ok (file_state c base all a n flt xe fmt pt sg).
  Proof.
    intros Hne Hs R. unfold load_file.
    destruct (I all) as [|e0 t0] eqn:E; [destruct all; [congruence|discriminate]|]. rewrite <- E.
    assert (Hs' : sel_span sel (length (I all)) = Some (a, n)) by (rewrite map_length; exact Hs).
    rewrite (select_file_span (I all) sel a n Hs'). cbn [rbind fst snd].
    rewrite skipn_map, firstn_map.
    destruct (sel_span_bounds _ _ _ _ Hs) as (Hb & _).
    assert (Hn : (0 < n)%nat) by (apply (sel_span_pos sel (length all) a n Hs); destruct all; [congruence|cbn; lia]).
    set (B := firstn n (skipn a all)) in *.
    assert (HlenB : length B = n) by (unfold B; rewrite firstn_length, skipn_length; lia).
    unfold file_state. fold B. destruct filt as [ch|], flt as [f|]; cbn [realises4] in R; try contradiction.
    - rewrite (ctor_loop_kept ch f B R). cbn [rbind].
      destruct (kept f B) as [|k K] eqn:EK; [reflexivity|].
      rewrite recount_relab. unfold zlen. rewrite map_length. reflexivity.
    - cbn [rbind]. clearbody B. destruct B as [|b B']; [cbn in HlenB; lia|].
      rewrite recount_relab. unfold zlen. rewrite map_length, HlenB. reflexivity.
  Qed.

  (* the invariant of C04 on such a state, directly (no hypothesis on the filter) *)
  Lemma relab_labels o l : map fst (relab o l) = labels_from o (length l).
  Proof. unfold labels_from. apply relab_fst_seq. Qed.

  Lemma file_state_Inv c base all a n flt xe fmt pt sg :
    (0 < n)%nat -> (a + n <= length all)%nat -> Inv (file_state c base all a n flt xe fmt pt sg).
  Proof.
    intros Hn Hb. unfold file_state.
    set (B := firstn n (skipn a all)).
    assert (HlenB : length B = n) by (unfold B; rewrite firstn_length, skipn_length; lia).
    destruct flt as [f|].
    - destruct (kept f B) as [|k K] eqn:EK.
      + right. unfold Emp. cbn. auto.
      + left. exists (relab (base + Z.of_nat a) (map (@length particle) (k :: K))), (base + Z.of_nat a)%Z.
        cbn [counts events nevents]. split; [reflexivity|]. split; [discriminate|].
        split; [unfold zlen; rewrite map_length; reflexivity|]. split.
        * rewrite relab_snd, !map_map. apply map_ext. intros e. unfold zlen. rewrite map_length. reflexivity.
        * rewrite relab_labels, !map_length. reflexivity.
    - left. exists (relab (base + Z.of_nat a) (map (@length particle) B)), (base + Z.of_nat a)%Z.
      cbn [counts events nevents]. split; [reflexivity|].
      split; [destruct B; [cbn in HlenB; lia|discriminate]|].
      split; [unfold zlen; rewrite map_length, HlenB; reflexivity|]. split.
      + rewrite relab_snd, !map_map. apply map_ext. intros e. unfold zlen. rewrite map_length. reflexivity.
      + rewrite relab_labels, !map_length. reflexivity.
  Qed.
End Ident.

(* ------------------------------------------------------------------ Oscar *)
Section Oscar.
  Variable tok_float : string -> option Q.
  Variable tok_int : string -> option Q.
  Variable pdg_valid : Q -> bool.
  Variable ident : particle -> pid.
  Notation I := (map (map ident)).
  Notation WF := (wf tok_float tok_int pdg_valid).
  Notation LOAD := (load tok_float tok_int pdg_valid).
  Notation parse_rows := (parse_rows tok_float tok_int pdg_valid).

  (* the storer state read off the observables of the loader model: particle_list_, num_output_per_event_ with its
     shape, num_events_, one end line per event of the file, the format as the number Model/Storer.v names it by *)
  Definition oscar_state (code : Z) (ld : loaded) : storer :=
    mkS COscar (I (l_events ld)) (table_of (l_counts ld)) (l_nevents ld)
        (map Z.of_nat (seq 0 (length (l_footers ld)))) code 0 0%Q.

  Lemma parse_rows_length fmt attrs rows :
    Forall (wf_row tok_float tok_int pdg_valid fmt attrs) rows -> length (parse_rows fmt attrs rows) = length rows.
  Proof.
    induction 1 as [|r rows (_ & _ & p & Hp) _ IH]; [reflexivity|].
    cbn [OscarDoc.parse_rows length]. rewrite Hp. cbn [length]. f_equal. exact IH.
  Qed.

  Lemma sizes_parsed fmt attrs : forall evs i, wf_events tok_float tok_int pdg_valid fmt attrs i evs ->
    map (fun e => length (parse_rows fmt attrs (e_rows e))) evs = map (fun e => length (e_rows e)) evs.
  Proof.
    induction evs as [|e t IH]; intros i H; [reflexivity|]. destruct H as ((_ & _ & _ & Hrows & _) & Ht).
    cbn [map]. rewrite (parse_rows_length fmt attrs _ Hrows). f_equal. apply (IH (S i) Ht).
  Qed.

  Lemma slice_counts : forall n a (evs : list OscarDoc.event),
    firstn n (skipn a (counts_from 0 evs))
    = relab (Z.of_nat a) (map (fun e => length (e_rows e)) (firstn n (skipn a evs))).
  Proof.
    intros n a evs. rewrite (counts_from_skipn a evs 0). cbn [Nat.add].
    generalize (skipn a evs) as l. generalize a as o. clear.
    induction n as [|n IH]; intros o [|e l]; cbn [firstn counts_from map relab]; try reflexivity.
    rewrite IH. do 2 f_equal. lia.
  Qed.

  Theorem bridge4_oscar d fmt attrs sel filt flt code full ld0 :
    WF d fmt attrs -> sel_in_range sel (length (d_events d)) ->
    LOAD None (render d) SelAll = Oscar.Ok full ->
    LOAD None (render d) sel = Oscar.Ok ld0 ->
    realises4 ident filt flt (l_events ld0) ->
    exists ld, LOAD flt (render d) sel = Oscar.Ok ld /\
      load_oscar (I (l_events full)) (sel_storer sel) filt code = Ok (oscar_state code ld) /\
      Inv (oscar_state code ld).
  Proof.
    intros Hwf Hr Hfull H0 R. destruct (sel_in_range_span _ _ Hr) as (a & n & Hs).
    destruct (sel_span_bounds _ _ _ _ Hs) as (Hb & _).
    pose proof Hwf as (_ & _ & _ & _ & _ & Hne & Hev & _).
    rewrite (load_render tok_float tok_int pdg_valid d fmt attrs Hwf) in Hfull. inversion Hfull; subst full. clear Hfull.
    rewrite (load_sel_none tok_float tok_int pdg_valid d fmt attrs sel a n Hwf Hs) in H0. inversion H0; subst ld0. clear H0.
    unfold expected, sliced in *. cbn [l_events] in *.
    set (all := map (fun e => parse_rows fmt attrs (e_rows e)) (d_events d)) in *.
    assert (Hall : all <> []) by (unfold all; destruct (d_events d); [congruence|discriminate]).
    assert (Hlen : length all = length (d_events d)) by (unfold all; apply map_length).
    assert (HB : map (fun e => parse_rows fmt attrs (e_rows e)) (firstn n (skipn a (d_events d))) = firstn n (skipn a all))
      by (unfold all; rewrite skipn_map, firstn_map; reflexivity).
    rewrite HB in R.
    assert (Hn : (0 < n)%nat) by (apply (sel_span_pos sel _ a n Hs); destruct (d_events d); [congruence|cbn; lia]).
    assert (Hs' : sel_span sel (length all) = Some (a, n)) by (rewrite Hlen; exact Hs).
    pose proof (load_file_bridge ident COscar 0 all sel a n filt flt
                  (map Z.of_nat (seq 0 (length (I all)))) code 0 0%Q Hall Hs' R) as HL.
    pose proof (file_state_Inv ident COscar 0 all a n flt (map Z.of_nat (seq 0 (length (I all)))) code 0 0%Q Hn
                  ltac:(rewrite Hlen; exact Hb)) as HI.
    assert (Hxe : length (I all) = length (map e_foot (d_events d))) by (rewrite !map_length; exact Hlen).
    destruct flt as [f|].
    - exists (filtered tok_float tok_int pdg_valid f d fmt attrs a n).
      split; [apply load_sel_some; assumption|].
      assert (E : file_state ident COscar 0 all a n (Some f) (map Z.of_nat (seq 0 (length (I all)))) code 0 0%Q
                  = oscar_state code (filtered tok_float tok_int pdg_valid f d fmt attrs a n)).
      { unfold file_state, oscar_state, filtered. cbn [l_events l_counts l_nevents l_footers]. rewrite HB, Hxe. cbn [Z.add].
        destruct (kept f (firstn n (skipn a all))) as [|k K]; reflexivity. }
      rewrite <- E. split; [exact HL|exact HI].
    - exists (sliced tok_float tok_int pdg_valid d fmt attrs a n).
      split; [apply load_sel_none; assumption|].
      assert (E : file_state ident COscar 0 all a n None (map Z.of_nat (seq 0 (length (I all)))) code 0 0%Q
                  = oscar_state code (sliced tok_float tok_int pdg_valid d fmt attrs a n)).
      { unfold file_state, oscar_state, sliced. cbn [l_events l_counts l_nevents l_footers]. rewrite HB, Hxe. cbn [Z.add].
        rewrite slice_counts. rewrite <- HB, !map_map.
        assert (HwB : wf_events tok_float tok_int pdg_valid fmt attrs a (firstn n (skipn a (d_events d)))).
        { apply wf_events_firstn. apply (wf_events_skipn tok_float tok_int pdg_valid fmt attrs a (d_events d) 0 Hev). }
        rewrite (sizes_parsed fmt attrs _ a HwB).
        destruct (firstn n (skipn a (d_events d))) as [|e0 B'] eqn:EB.
        { apply (f_equal (@length _)) in EB. rewrite firstn_length, skipn_length in EB. cbn in EB. lia. }
        reflexivity. }
      rewrite <- E. split; [exact HL|exact HI].
  Qed.

  (* C04_loaded_inv through the loader model alone: whatever the filter function, the state read off a load of a
     well-formed document satisfies the invariant *)
  Theorem loaded_inv_oscar d fmt attrs sel flt code ld :
    WF d fmt attrs -> sel_in_range sel (length (d_events d)) ->
    LOAD flt (render d) sel = Oscar.Ok ld -> Inv (oscar_state code ld).
  Proof.
    intros Hwf Hr HL. destruct (sel_in_range_span _ _ Hr) as (a & n & Hs).
    destruct (sel_span_bounds _ _ _ _ Hs) as (Hb & _).
    pose proof Hwf as (_ & _ & _ & _ & _ & Hne & Hev & _).
    assert (Hn : (0 < n)%nat) by (apply (sel_span_pos sel _ a n Hs); destruct (d_events d); [congruence|cbn; lia]).
    set (all := map (fun e => parse_rows fmt attrs (e_rows e)) (d_events d)).
    assert (Hlen : length all = length (d_events d)) by (unfold all; apply map_length).
    assert (HB : map (fun e => parse_rows fmt attrs (e_rows e)) (firstn n (skipn a (d_events d))) = firstn n (skipn a all))
      by (unfold all; rewrite skipn_map, firstn_map; reflexivity).
    pose proof (file_state_Inv ident COscar 0 all a n flt (map Z.of_nat (seq 0 (length (l_footers ld)))) code 0 0%Q Hn
                  ltac:(rewrite Hlen; exact Hb)) as HI.
    destruct flt as [f|].
    - rewrite (load_sel_some tok_float tok_int pdg_valid f d fmt attrs sel a n Hwf Hs) in HL. inversion HL; subst ld.
      replace (oscar_state code _) with
        (file_state ident COscar 0 all a n (Some f)
           (map Z.of_nat (seq 0 (length (l_footers (filtered tok_float tok_int pdg_valid f d fmt attrs a n))))) code 0 0%Q);
        [exact HI|].
      unfold file_state, oscar_state, filtered. cbn [l_events l_counts l_nevents l_footers]. rewrite HB. cbn [Z.add].
      destruct (kept f (firstn n (skipn a all))) as [|k K]; reflexivity.
    - rewrite (load_sel_none tok_float tok_int pdg_valid d fmt attrs sel a n Hwf Hs) in HL. inversion HL; subst ld.
      replace (oscar_state code _) with
        (file_state ident COscar 0 all a n None
           (map Z.of_nat (seq 0 (length (l_footers (sliced tok_float tok_int pdg_valid d fmt attrs a n))))) code 0 0%Q);
        [exact HI|].
      unfold file_state, oscar_state, sliced. cbn [l_events l_counts l_nevents l_footers]. rewrite HB. cbn [Z.add].
      rewrite slice_counts. rewrite <- HB, !map_map.
      assert (HwB : wf_events tok_float tok_int pdg_valid fmt attrs a (firstn n (skipn a (d_events d)))).
      { apply wf_events_firstn. apply (wf_events_skipn tok_float tok_int pdg_valid fmt attrs a (d_events d) 0 Hev). }
      rewrite (sizes_parsed fmt attrs _ a HwB).
      destruct (firstn n (skipn a (d_events d))) as [|e0 B'] eqn:EB.
      { apply (f_equal (@length _)) in EB. rewrite firstn_length, skipn_length in EB. cbn in EB. lia. }
      reflexivity.
  Qed.

  (* a valid selector that reaches past the last event: both sides IndexError, whatever the filters *)
  Theorem bridge4_oscar_past_end d fmt attrs sel filt flt code full :
    WF d fmt attrs -> sel_past_end sel (length (d_events d)) ->
    LOAD None (render d) SelAll = Oscar.Ok full ->
    LOAD flt (render d) sel = Oscar.Err Oscar.IndexError /\
    load_oscar (I (l_events full)) (sel_storer sel) filt code = Err IndexError.
  Proof.
    intros Hwf Hp Hfull. split; [apply (load_past_end tok_float tok_int pdg_valid flt d fmt attrs sel Hwf Hp)|].
    pose proof Hwf as (_ & _ & _ & _ & _ & Hne & _).
    rewrite (load_render tok_float tok_int pdg_valid d fmt attrs Hwf) in Hfull. inversion Hfull; subst full.
    unfold expected. cbn [l_events]. apply load_file_past_end.
    - destruct (d_events d); [congruence|discriminate].
    - rewrite !map_length. exact Hp.
  Qed.

  (* chains of sub-list filters and event-level cuts: the per-event function is given explicitly, no hypothesis on f *)
  Theorem bridge4_oscar_sub d fmt attrs sel ch code full :
    WF d fmt attrs -> sel_in_range sel (length (d_events d)) ->
    LOAD None (render d) SelAll = Oscar.Ok full ->
    exists ld, LOAD (Some (lift_chain ident ch)) (render d) sel = Oscar.Ok ld /\
      load_oscar (I (l_events full)) (sel_storer sel) (Some (map to_fop ch)) code = Ok (oscar_state code ld) /\
      Inv (oscar_state code ld).
  Proof.
    intros Hwf Hr Hfull. destruct (load_selected tok_float tok_int pdg_valid d fmt attrs sel Hwf Hr) as (a & n & _ & H0).
    apply (bridge4_oscar d fmt attrs sel (Some (map to_fop ch)) (Some (lift_chain ident ch)) code full _ Hwf Hr Hfull H0).
    intros data _. apply lift_chain_realises.
  Qed.
End Oscar.

(* ------------------------------------------------------------------ JETSCAPE *)
Section Jet.
  Variable tok_float : string -> option Q.
  Variable tok_int : string -> option Q.
  Variable pdg_valid : Q -> bool.
  Variable pdg_charge : Q -> Q.
  Variable usqrt : Q -> Q.
  Variable defstr : string.
  Variable ident : particle -> pid.
  Notation I := (map (map ident)).
  Notation JWF := (jwf tok_float tok_int pdg_valid pdg_charge usqrt defstr).
  Notation JLOAD := (jload tok_float tok_int pdg_valid pdg_charge usqrt).
  Notation PARSE := (jparse_rows tok_float tok_int pdg_valid pdg_charge usqrt).
  Notation JSLICED := (jsliced tok_float tok_int pdg_valid pdg_charge usqrt).
  Notation JFILTERED := (jfiltered tok_float tok_int pdg_valid pdg_charge usqrt).

  (* particle_list_, num_output_per_event_ with its shape, num_events_, the particle type as the number Model/Storer.v
     names it by, sigmaGen_[0] *)
  Definition jetscape_state (pt : Z) (ld : jloaded) : storer :=
    mkS CJetscape (I (j_events ld)) (table_of (j_counts ld)) (j_nevents ld) [] 0 pt (fst (j_sigma ld)).

  Lemma jsizes_parsed : forall evs i, jwf_events tok_float tok_int pdg_valid pdg_charge usqrt defstr i evs ->
    map (fun e => length (PARSE (je_rows e))) evs = map (fun e => length (je_rows e)) evs.
  Proof.
    induction evs as [|e t IH]; intros i H; [reflexivity|]. destruct H as ((_ & _ & _ & _ & Hrows) & Ht).
    cbn [map]. rewrite <- (jparse_len tok_float tok_int pdg_valid pdg_charge usqrt defstr _ Hrows). f_equal. apply (IH (S i) Ht).
  Qed.

  Lemma jstate_eq d s1 s2 a n flt pt :
    JWF d s1 s2 -> (0 < n)%nat -> (a + n <= length (jd_events d))%nat ->
    file_state ident CJetscape 1 (map (fun e => PARSE (je_rows e)) (jd_events d)) a n flt [] 0 pt s1
    = jetscape_state pt (match flt with Some f => JFILTERED f d s1 s2 a n | None => JSLICED d s1 s2 a n end).
  Proof.
    intros (_ & _ & Hev & _) Hn Hb.
    set (all := map (fun e => PARSE (je_rows e)) (jd_events d)).
    assert (HB : map (fun e => PARSE (je_rows e)) (firstn n (skipn a (jd_events d))) = firstn n (skipn a all))
      by (unfold all; rewrite skipn_map, firstn_map; reflexivity).
    replace (1 + Z.of_nat a)%Z with (Z.of_nat a + 1)%Z in * by lia.
    unfold file_state. replace (1 + Z.of_nat a)%Z with (Z.of_nat a + 1)%Z by lia.
    destruct flt as [f|].
    - unfold jetscape_state, jfiltered. cbn [j_events j_counts j_nevents j_sigma fst]. rewrite HB.
      destruct (kept f (firstn n (skipn a all))) as [|k K]; reflexivity.
    - unfold jetscape_state. rewrite (jsliced_counts tok_float tok_int pdg_valid pdg_charge usqrt d s1 s2 a n Hb).
      unfold jsliced. cbn [j_events j_nevents j_sigma fst]. rewrite <- HB, !map_map.
      assert (HwB : jwf_events tok_float tok_int pdg_valid pdg_charge usqrt defstr a (firstn n (skipn a (jd_events d)))).
      { apply jwf_events_firstn. apply (jwf_events_skipn tok_float tok_int pdg_valid pdg_charge usqrt defstr a (jd_events d) 0 Hev). }
      rewrite (jsizes_parsed _ a HwB).
      destruct (firstn n (skipn a (jd_events d))) as [|e0 B'] eqn:EB.
      { apply (f_equal (@length _)) in EB. rewrite firstn_length, skipn_length in EB. cbn in EB. lia. }
      reflexivity.
  Qed.

  Theorem bridge4_jetscape d s1 s2 sel filt flt pt full ld0 :
    JWF d s1 s2 -> sel_in_range sel (length (jd_events d)) ->
    JLOAD None (jrender d) defstr SelAll = Oscar.Ok full ->
    JLOAD None (jrender d) defstr sel = Oscar.Ok ld0 ->
    realises4 ident filt flt (j_events ld0) ->
    exists ld, JLOAD flt (jrender d) defstr sel = Oscar.Ok ld /\
      load_jetscape (I (j_events full)) (sel_storer sel) filt pt (fst (j_sigma full)) = Ok (jetscape_state pt ld) /\
      Inv (jetscape_state pt ld).
  Proof.
    intros Hwf Hr Hfull H0 R. destruct (sel_in_range_span _ _ Hr) as (a & n & Hs).
    destruct (sel_span_bounds _ _ _ _ Hs) as (Hb & _).
    pose proof Hwf as (_ & Hne & _).
    rewrite (jload_render tok_float tok_int pdg_valid pdg_charge usqrt defstr d s1 s2 Hwf) in Hfull.
    inversion Hfull; subst full. clear Hfull.
    rewrite (jload_sel_none tok_float tok_int pdg_valid pdg_charge usqrt defstr d s1 s2 sel a n Hwf Hs) in H0.
    inversion H0; subst ld0. clear H0.
    unfold jexpected, jsliced in *. cbn [j_events j_sigma fst] in *.
    set (all := map (fun e => PARSE (je_rows e)) (jd_events d)) in *.
    assert (Hall : all <> []) by (unfold all; destruct (jd_events d); [congruence|discriminate]).
    assert (Hlen : length all = length (jd_events d)) by (unfold all; apply map_length).
    assert (HB : map (fun e => PARSE (je_rows e)) (firstn n (skipn a (jd_events d))) = firstn n (skipn a all))
      by (unfold all; rewrite skipn_map, firstn_map; reflexivity).
    rewrite HB in R.
    assert (Hn : (0 < n)%nat) by (apply (sel_span_pos sel _ a n Hs); destruct (jd_events d); [congruence|cbn; lia]).
    assert (Hs' : sel_span sel (length all) = Some (a, n)) by (rewrite Hlen; exact Hs).
    pose proof (load_file_bridge ident CJetscape 1 all sel a n filt flt [] 0 pt s1 Hall Hs' R) as HL.
    pose proof (file_state_Inv ident CJetscape 1 all a n flt [] 0 pt s1 Hn ltac:(rewrite Hlen; exact Hb)) as HI.
    unfold all in HL, HI. rewrite (jstate_eq d s1 s2 a n flt pt Hwf Hn Hb) in HL, HI.
    destruct flt as [f|].
    - exists (JFILTERED f d s1 s2 a n). split; [apply jload_sel_some; assumption|]. split; [exact HL|exact HI].
    - exists (JSLICED d s1 s2 a n). split; [apply jload_sel_none; assumption|]. split; [exact HL|exact HI].
  Qed.

  Theorem loaded_inv_jetscape d s1 s2 sel flt pt ld :
    JWF d s1 s2 -> sel_in_range sel (length (jd_events d)) ->
    JLOAD flt (jrender d) defstr sel = Oscar.Ok ld -> Inv (jetscape_state pt ld).
  Proof.
    intros Hwf Hr HL. destruct (sel_in_range_span _ _ Hr) as (a & n & Hs).
    destruct (sel_span_bounds _ _ _ _ Hs) as (Hb & _).
    pose proof Hwf as (_ & Hne & _).
    assert (Hn : (0 < n)%nat) by (apply (sel_span_pos sel _ a n Hs); destruct (jd_events d); [congruence|cbn; lia]).
    pose proof (file_state_Inv ident CJetscape 1 (map (fun e => PARSE (je_rows e)) (jd_events d)) a n flt [] 0 pt s1 Hn
                  ltac:(rewrite map_length; exact Hb)) as HI.
    rewrite (jstate_eq d s1 s2 a n flt pt Hwf Hn Hb) in HI.
    destruct flt as [f|].
    - rewrite (jload_sel_some tok_float tok_int pdg_valid pdg_charge usqrt defstr f d s1 s2 sel a n Hwf Hs) in HL.
      inversion HL; subst ld. exact HI.
    - rewrite (jload_sel_none tok_float tok_int pdg_valid pdg_charge usqrt defstr d s1 s2 sel a n Hwf Hs) in HL.
      inversion HL; subst ld. exact HI.
  Qed.

  Theorem bridge4_jetscape_past_end d s1 s2 sel filt flt pt full :
    JWF d s1 s2 -> sel_past_end sel (length (jd_events d)) ->
    JLOAD None (jrender d) defstr SelAll = Oscar.Ok full ->
    JLOAD flt (jrender d) defstr sel = Oscar.Err Oscar.IndexError /\
    load_jetscape (I (j_events full)) (sel_storer sel) filt pt (fst (j_sigma full)) = Err IndexError.
  Proof.
    intros Hwf Hp Hfull.
    split; [apply (jload_past_end tok_float tok_int pdg_valid pdg_charge usqrt defstr flt d s1 s2 sel Hwf Hp)|].
    pose proof Hwf as (_ & Hne & _).
    rewrite (jload_render tok_float tok_int pdg_valid pdg_charge usqrt defstr d s1 s2 Hwf) in Hfull.
    inversion Hfull; subst full. unfold jexpected. cbn [j_events j_sigma fst]. apply load_file_past_end.
    - destruct (jd_events d); [congruence|discriminate].
    - rewrite !map_length. exact Hp.
  Qed.

  Theorem bridge4_jetscape_sub d s1 s2 sel ch pt full :
    JWF d s1 s2 -> sel_in_range sel (length (jd_events d)) ->
    JLOAD None (jrender d) defstr SelAll = Oscar.Ok full ->
    exists ld, JLOAD (Some (lift_chain ident ch)) (jrender d) defstr sel = Oscar.Ok ld /\
      load_jetscape (I (j_events full)) (sel_storer sel) (Some (map to_fop ch)) pt (fst (j_sigma full))
      = Ok (jetscape_state pt ld) /\
      Inv (jetscape_state pt ld).
  Proof.
    intros Hwf Hr Hfull.
    destruct (jload_selected tok_float tok_int pdg_valid pdg_charge usqrt defstr d s1 s2 sel Hwf Hr) as (a & n & _ & H0).
    apply (bridge4_jetscape d s1 s2 sel (Some (map to_fop ch)) (Some (lift_chain ident ch)) pt full _ Hwf Hr Hfull H0).
    intros data _. apply lift_chain_realises.
  Qed.
End Jet.

(* ------------------------------------------------------------------ particle objects *)
Definition psel_of (s : sel) : psel :=
  match s with SAll => PAll | SOne k => POne k | SRange a b => PRange a b end.

(* ParticleObjectStorer after __init__: the events held, the recounted 2-D table, the number of events held *)
Definition pobj_state (ps : pstorer pid) : storer :=
  mkS CPobj (p_events pid ps) (A2 (p_counts pid ps)) (p_nevents pid ps) [] 0 0 0%Q.

Lemma rmapM_mapr {A B} (g : A -> result B) l : rmapM g l = mapr g l.
Proof. induction l as [|x t IH]; [reflexivity|]. cbn [rmapM mapr]. rewrite IH. reflexivity. Qed.

Lemma recount_label_from : forall (l : list event) z, recount z l = label_from pid z l.
Proof. induction l as [|e t IH]; intros z; [reflexivity|]. cbn [recount label_from]. rewrite IH. reflexivity. Qed.

(* for EVERY event list, selector (valid or not) and chain - exception classes included *)
Theorem bridge4_pobj evs s filt :
  load_pobj evs s filt = rmap pobj_state (pload pid (option_map ctor_apply filt) (psel_of s) evs).
Proof.
  unfold load_pobj, pobj_loader, pload.
  assert (Hsel : select_pobj evs s
                 = rbind (pvalidate (psel_of s)) (fun _ => rbind (pselect pid (psel_of s) evs) (fun l => Ok (pfirst (psel_of s), l)))).
  { destruct s as [|k|a b]; cbn [select_pobj psel_of pvalidate pselect pfirst rbind]; unfold event in *.
    - reflexivity.
    - destruct (k <? 0)%Z eqn:E0; [reflexivity|]. cbn [rbind pselect]. apply Z.ltb_ge in E0.
      match goal with |- context [nth_error ?l ?n] => destruct (nth_error l n) as [e|] eqn:E end.
      + assert (Z.to_nat k < length evs)%nat by (apply nth_error_Some; congruence).
        replace (k <? zlen evs)%Z with true by (symmetry; apply Z.ltb_lt; unfold zlen; lia).
        cbn [rbind]. change (slice k k evs) with (pslice k k evs). rewrite (pslice_single k evs e E0 E). reflexivity.
      + apply nth_error_None in E.
        replace (k <? zlen evs)%Z with false by (symmetry; apply Z.ltb_ge; unfold zlen; lia). reflexivity.
    - destruct (b <? a)%Z; [reflexivity|]. destruct ((a <? 0) || (b <? 0))%Z; reflexivity. }
  rewrite Hsel. destruct (pvalidate (psel_of s)) as [u|e]; cbn [rbind rmap]; [|reflexivity].
  destruct (pselect pid (psel_of s) evs) as [l|e]; cbn [rbind rmap fst snd]; [|reflexivity].
  destruct filt as [ch|]; cbn [option_map].
  - rewrite rmapM_mapr. unfold event in *.
    match goal with |- context [@mapr ?A ?B ?g ?x] => destruct (@mapr A B g x) as [held|e] end; cbn [rbind rmap]; [|reflexivity].
    unfold pobj_state. cbn [p_events p_counts p_nevents]. rewrite recount_label_from. reflexivity.
  - cbn [rbind rmap]. unfold pobj_state. cbn [p_events p_counts p_nevents]. rewrite recount_label_from. reflexivity.
Qed.

(* C04_loaded_inv through the loader model alone: whatever (possibly raising) per-event filter *)
Theorem loaded_inv_pobj flt s evs ps : pload pid flt s evs = Ok ps -> Inv (pobj_state ps).
Proof.
  unfold pload. destruct (pvalidate s) as [u|]; cbn [rbind]; [|discriminate].
  destruct (pselect pid s evs) as [l|]; cbn [rbind]; [|discriminate].
  destruct (match flt with None => Ok l | Some f => mapr f l end) as [held|]; cbn [rbind]; [|discriminate].
  intros H; inversion H; subst ps. unfold pobj_state. cbn [p_events p_counts p_nevents].
  destruct held as [|h t].
  - right. unfold Emp. cbn. auto.
  - left. exists (label_from pid (pfirst s) (h :: t)), (pfirst s). cbn [counts events nevents].
    split; [reflexivity|]. split; [discriminate|]. split; [reflexivity|]. split.
    + rewrite label_from_sizes. reflexivity.
    + rewrite <- recount_label_from. apply recount_fst.
Qed.

(* ------------------------------------------------------------------ non-vacuity *)
(* the three-event document of Proofs/Bridge_Example.v (IDs [7;1], [], [1]); chain = keep the particle with ID 7, then
   keep the events with at least one particle.  Per event: [7;1] -> [7] kept; [] stays; [1] -> [] dropped. *)
From SX Require Import Proofs.Bridge_Example.

Definition bx4_chain : list sfop := [SP (fun i => Z.eqb i 7); SE (fun e => Z.leb 1 (zlen e))].
Definition bx4_f := lift_chain bx_id bx4_chain.
Definition bx4_all : list event :=
  match load bx_tf bx_ti bx_pv None (render bx_doc) SelAll with
  | Oscar.Ok full => map (map bx_id) (l_events full)
  | Oscar.Err _ => []
  end.
Definition bx4_state (s : selector) : option storer :=
  match load bx_tf bx_ti bx_pv (Some bx4_f) (render bx_doc) s with
  | Oscar.Ok ld => Some (oscar_state bx_id 0 ld)
  | Oscar.Err _ => None
  end.

Lemma bridge4_example :
  bx4_all = [[7; 1]; []; [1]]%Z /\
  bx4_state SelAll = Some (mkS COscar [[7]; []] (A2 [(0, 1); (1, 0)]) 2 [0; 1; 2] 0 0 0%Q)%Z /\
  load_oscar bx4_all SAll (Some (map to_fop bx4_chain)) 0
  = Ok (mkS COscar [[7]; []] (A2 [(0, 1); (1, 0)]) 2 [0; 1; 2] 0 0 0%Q)%Z /\
  bx4_state (SelRange 1 2) = Some (mkS COscar [[]] (A2 [(1, 0)]) 1 [0; 1; 2] 0 0 0%Q)%Z /\
  load_oscar bx4_all (SRange 1 2) (Some (map to_fop bx4_chain)) 0
  = Ok (mkS COscar [[]] (A2 [(1, 0)]) 1 [0; 1; 2] 0 0 0%Q)%Z /\
  bx4_state (SelOne 2) = Some (mkS COscar [[]] (A1 []) 0 [0; 1; 2] 0 0 0%Q)%Z /\
  load_oscar bx4_all (SOne 2) (Some (map to_fop bx4_chain)) 0
  = Ok (mkS COscar [[]] (A1 []) 0 [0; 1; 2] 0 0 0%Q)%Z.
Proof. vm_compute. repeat split. Qed.

(* the same through the theorem: for every selector in range of this document *)
Lemma bridge4_example_by_theorem sel :
  sel_in_range sel 3 ->
  exists full ld,
    load bx_tf bx_ti bx_pv None (render bx_doc) SelAll = Oscar.Ok full /\
    load bx_tf bx_ti bx_pv (Some bx4_f) (render bx_doc) sel = Oscar.Ok ld /\
    load_oscar (map (map bx_id) (l_events full)) (sel_storer sel) (Some (map to_fop bx4_chain)) 0
    = Ok (oscar_state bx_id 0 ld) /\
    Inv (oscar_state bx_id 0 ld).
Proof.
  intros Hr.
  pose proof (load_render bx_tf bx_ti bx_pv bx_doc "Oscar2013"%string [] bx_wf) as Hfull.
  destruct (bridge4_oscar_sub bx_tf bx_ti bx_pv bx_id bx_doc "Oscar2013"%string [] sel bx4_chain 0 _ bx_wf Hr Hfull)
    as (ld & H1 & H2 & H3).
  eexists _, ld. split; [exact Hfull|]. split; [exact H1|]. split; [exact H2|exact H3].
Qed.

(* a file without events (outside [wf], which asks for at least one event): both models reject it with the same class -
   TypeError for Oscar (the last line does not name an event), IndexError for JETSCAPE (an empty count table) *)
From SX Require Import Proofs.C02_JetscapeExample.
Lemma bridge4_no_events_example :
  load bx_tf bx_ti bx_pv None (render {| d_h1 := d_h1 bx_doc; d_h2 := d_h2 bx_doc; d_h3 := d_h3 bx_doc; d_events := [] |}) SelAll
  = Oscar.Err Oscar.TypeError /\
  load_oscar [] SAll None 0 = Err TypeError /\
  jload exj_tf exj_ti exj_pv exj_pc exj_sqrt None
        (jrender {| jd_h0 := jd_h0 exj_doc; jd_events := []; jd_trailer := jd_trailer exj_doc |}) "N_hadrons"%string SelAll
  = Oscar.Err Oscar.IndexError /\
  load_jetscape [] SAll None 0 0%Q = Err IndexError.
Proof. vm_compute. repeat split. Qed.

(* C18 source tie: the hand model Model/Ecc.v equals the eccentricity methods of EventCharacteristics.py as regenerated
   into Gen/GenEccMethods.v on every run (tools/py2coq/gen_ecc_methods.py, runtime Model/EccRt.v). *)
From Coq Require Import List ZArith Bool String Lia.
From SX Require Import Lib.KRing Lib.Py Gen.GenEcc Model.Ecc Model.EccRt Gen.GenEccMethods Proofs.C18_Ecc Proofs.C18_Model.
Import ListNotations.
Local Open Scope string_scope.

Local Arguments kpow : simpl never.
Local Arguments k_lit : simpl never.
Local Arguments Z.to_nat : simpl never.
Local Arguments cis_pow : simpl never.
Local Arguments np_ndindex : simpl never.
Local Arguments lat_get_coordinates : simpl never.
Local Arguments lat_get_value_by_index : simpl never.

Section Source.
  Variable K : Type.
  Variables (k0 k1 : K) (kadd kmul ksub kdiv : K -> K -> K) (kopp : K -> K).
  Variable kis0 : K -> bool.
  Variables (upow uatan2 : K -> K -> K) (ucos usin : K -> K).

  Notation gen_particles := (gen_eccentricity_from_particles K k0 k1 kadd kmul kdiv kopp kis0 upow uatan2 ucos usin).
  Notation gen_lattice := (gen_eccentricity_from_lattice K k0 k1 kadd kmul kdiv kopp kis0 upow uatan2 ucos usin).
  Notation gen_ecc := (gen_eccentricity K k0 k1 kadd kmul kdiv kopp kis0 upow uatan2 ucos usin).
  Notation ecc_from_particles := (Ecc.ecc_from_particles K k0 k1 kadd kmul ksub kdiv kopp kis0).
  Notation ecc_from_lattice := (Ecc.ecc_from_lattice K k0 k1 kadd kmul ksub kdiv kopp kis0).
  Notation ecc_core := (Ecc.ecc_core K k0 k1 kadd kmul ksub kdiv kis0).
  Notation step := (Ecc.step K k0 k1 kadd kmul ksub kdiv kis0).
  Notation klit := (k_lit K k0 k1 kadd kmul kopp).
  Notation kp := (kpow k1 kmul).
  Notation cis := (Ecc.cis_pow K k0 k1 kadd kmul ksub).
  Notation fl := (EccRt.fl K).
  Notation pt := (Ecc.pt K).

  (* ---- what is assumed of the oracles ------------------------------------------------------------------------ *)
  (* the unit vector of Model/Ecc.v for a point (x, y) with radius r *)
  Definition uvec (x y r : K) : K * K := if kis0 r then (k1, k0) else (kdiv x r, kdiv y r).
  (* (x**2 + y**2) ** (E / 2.0) is the E-th power of the radius the model carries *)
  Definition pow_law (E : Z) (x y r : K) : Prop :=
    upow (kadd (kp x 2) (kp y 2)) (kdiv (klit E) (klit 2)) = kp r (Z.to_nat E).
  (* np.cos(n * np.arctan2(y, x)), np.sin(n * np.arctan2(y, x)) are the parts of the n-th power of the unit vector *)
  Definition trig_law (n : Z) (x y r : K) : Prop :=
    cis (fst (uvec x y r)) (snd (uvec x y r)) (Z.to_nat n)
    = (ucos (kmul (klit n) (uatan2 y x)), usin (kmul (klit n) (uatan2 y x))).
  Definition point_law (n E : Z) (x y r : K) : Prop := pow_law E x y r /\ trig_law n x y r.

  (* ---- the loop: generated state (real_eps, norm, imag_eps) of tagged floats against the model's (re, im, nrm) -- *)
  Definition acc := option (K * K * K).
  Definition rep (t : acc) : fl * fl * fl :=
    match t with
    | Some (re, im, nrm) => (Np (Some re), Np (Some nrm), Np (Some im))
    | None => (Np None, Np None, Np None)
    end.
  Definition rel (s : fl * fl * fl) (t : acc) : Prop :=
    match t with
    | Some (re, im, nrm) => fval (fst (fst s)) = Some re /\ fval (snd (fst s)) = Some nrm /\ fval (snd s) = Some im
    | None => s = rep None
    end.
  Definition absstep (B : body K) (E n : nat) (t : acc) (p : pt) : acc :=
    match t, pw p with Some a, Some w => Some (step B E n a (p, w)) | _, _ => None end.
  Definition finish (t : acc) : result (option (K * K)) :=
    match t with
    | None => Ok None
    | Some (re, im, nrm) => if kis0 nrm then Ok None else Ok (Some (kopp (kdiv re nrm), kopp (kdiv im nrm)))
    end.

  Lemma rel_rep t : rel (rep t) t.
  Proof. destruct t as [[[re im] nrm]|]; simpl; auto. Qed.

  Lemma absstep_none B E n l : fold_left (absstep B E n) l None = None.
  Proof. induction l as [|p l IH]; [reflexivity | exact IH]. Qed.

  Lemma absfold_weights B E n l : forall a,
    fold_left (absstep B E n) l (Some a)
    = match weights K l with Some wl => Some (fold_left (step B E n) wl a) | None => None end.
  Proof.
    induction l as [|p l IH]; intros a; [reflexivity|].
    cbn [fold_left weights]. unfold absstep at 2. destruct (pw p) as [w|].
    - rewrite IH. destruct (weights K l); reflexivity.
    - apply absstep_none.
  Qed.

  Lemma core_finish B E n (pts : list pt) : std_body K kmul kdiv kopp B -> pts <> [] ->
    ecc_core B E n pts = finish (fold_left (absstep B E n) pts (Some (k0, k0, k0))).
  Proof.
    intros (_ & _ & _ & B4 & B5) Hne. unfold Ecc.ecc_core. destruct pts as [|p l]; [congruence|].
    rewrite absfold_weights. destruct (weights K (p :: l)) as [wl|]; [|reflexivity].
    destruct (fold_left (step B E n) wl (k0, k0, k0)) as [[re im] nrm]. simpl. rewrite B4, B5. reflexivity.
  Qed.

  Lemma foldM_rep {A B} (f : fl * fl * fl -> A -> result (fl * fl * fl)) (g : acc -> B -> acc) (l : list (A * B)) :
    (forall s t a b, In (a, b) l -> rel s t -> f s a = Ok (rep (g t b))) ->
    forall s t, rel s t -> l <> [] ->
    fold_leftM f (map fst l) s = Ok (rep (fold_left g (map snd l) t)).
  Proof.
    intros H s t Hr Hne. destruct l as [|[a b] l]; [congruence|]. clear Hne.
    cbn [map fst snd fold_leftM fold_left]. rewrite (H s t a b (or_introl eq_refl) Hr). cbn [bind rbind].
    assert (H' : forall a b, In (a, b) l -> forall s t, rel s t -> f s a = Ok (rep (g t b))).
    { intros a' b' Hin s' t' Hr'. apply H; [now right | assumption]. }
    clear H Hr. generalize (g t b). clear s t a b.
    induction l as [|[a b] l IH]; intros t; [reflexivity|].
    cbn [map fst snd fold_leftM fold_left]. rewrite (H' a b (or_introl eq_refl) (rep t) t (rel_rep t)). cbn [bind rbind].
    apply IH. intros a' b' Hin. apply H'. now right.
  Qed.

  (* the end of both methods: the two divisions, the complex number, the sign *)
  Lemma finish_gen t :
    (let '(re, nrm, im) := rep t in
     bind (bind (fl_div K kdiv kis0 re nrm) (fun a => bind (fl_div K kdiv kis0 im nrm) (fun b => Ok (cx_make a b))))
          (fun c => Ok (cx_neg K kopp c))) = finish t.
  Proof.
    destruct t as [[[re im] nrm]|]; [|reflexivity]. simpl. destruct (kis0 nrm); reflexivity.
  Qed.

  Hypothesis kis0_0 : kis0 k0 = true.

  Lemma fl_add_np a v : fl_add K kadd a (Np v) = Np (lift2 K kadd (fval a) v).
  Proof. destruct a; reflexivity. Qed.

  Lemma step_std B E n re im nrm (p : pt) w : std_body K kmul kdiv kopp B ->
    step B E n (re, im, nrm) (p, w)
    = (kadd re (kmul (kmul (kp (pr p) E) (fst (cis (fst (uvec (px p) (py p) (pr p))) (snd (uvec (px p) (py p) (pr p))) n))) w),
       kadd im (kmul (kmul (kp (pr p) E) (snd (cis (fst (uvec (px p) (py p) (pr p))) (snd (uvec (px p) (py p) (pr p))) n))) w),
       kadd nrm (kmul (kp (pr p) E) w)).
  Proof.
    intros (B1 & B2 & B3 & _ & _). unfold Ecc.step, Ecc.unitv, uvec.
    destruct (if kis0 (pr p) then (k1, k0) else (kdiv (px p) (pr p), kdiv (py p) (pr p))) as [c s].
    cbn [fst snd]. destruct (cis c s n) as [cn sn]. rewrite B1, B2, B3. reflexivity.
  Qed.

  Lemma weight_cases wq sel : Ecc.lookup wq gen_weight_table = Some sel ->
    (wq = "energy" /\ sel = WAttr "E") \/ (wq = "number" /\ sel = WOne) \/ (wq = "charge" /\ sel = WAttr "charge")
    \/ (wq = "baryon" /\ sel = WAttr "baryon_number") \/ (wq = "strangeness" /\ sel = WAttr "strangeness").
  Proof.
    unfold gen_weight_table, Ecc.lookup.
    repeat match goal with |- context [String.eqb ?a wq] => destruct (String.eqb_spec a wq) as [<-|_] end;
      intros [= <-]; tauto.
  Qed.

  Lemma particles_ok self n m wq sel b (ps : list (pobs K)) :
    event_data_ self = ASeq b (map OParticle ps) ->
    (1 <= n)%Z -> match m with Some v => (1 <= v)%Z | None => True end ->
    Ecc.lookup wq gen_weight_table = Some sel ->
    (forall p, In p ps -> point_law n (radial_power n m) (ox p) (oy p) (orad p)) ->
    ps <> [] ->
    gen_particles self n m wq
    = finish (fold_left (absstep (body_particles K kmul kdiv kopp) (Z.to_nat (radial_power n m)) (Z.to_nat n))
                        (map (to_pt K k1 sel) ps) (Some (k0, k0, k0))).
  Proof.
    intros Hs Hn Hm Hl Hlaw Hne.
    unfold gen_eccentricity_from_particles. rewrite Hs.
    assert (E1 : (n <? 1)%Z = false) by (apply Z.ltb_ge; lia). rewrite E1.
    set (l := map (fun p => (@OParticle K p, to_pt K k1 sel p)) ps).
    assert (L1 : map OParticle ps = map fst l) by (unfold l; rewrite map_map; reflexivity).
    assert (L2 : map (to_pt K k1 sel) ps = map snd l) by (unfold l; rewrite map_map; reflexivity).
    assert (Ll : l <> []) by (unfold l; destruct ps; [congruence | discriminate]).
    assert (Hin : forall a q, In (a, q) l -> exists p, a = OParticle p /\ q = to_pt K k1 sel p /\ In p ps).
    { intros a q H. unfold l in H. apply in_map_iff in H. destruct H as (p & [= <- <-] & H). eauto. }
    rewrite L1, L2. clearbody l. clear L1 L2 Hne.
    destruct (weight_cases wq sel Hl) as [[-> ->]|[[-> ->]|[[-> ->]|[[-> ->]|[-> ->]]]]]; clear Hl;
    (destruct m as [v|]; [assert (E2 : (v <? 1)%Z = false) by (apply Z.ltb_ge; lia)|]);
    destruct (n =? 1)%Z eqn:En; destruct b.
    all: unfold radial_power in *; try rewrite En in *.
    all: cbn; try rewrite E2.
    all: match goal with |- context [absstep ?B ?E ?N] =>
           rewrite (foldM_rep _ (absstep B E N) l) with (t := Some (k0, k0, k0));
           [ exact (finish_gen _) | | unfold rel; cbn; auto | exact Ll ] end.
    all: intros [[a1 a2] a3] t a q Hq Hr; destruct (Hin a q Hq) as (p & -> & -> & Hp); destruct (Hlaw p Hp) as [Hpow Htrig];
      unfold pow_law, trig_law in *; cbn.
    all: rewrite Hpow, !fl_add_np;
      pose proof (f_equal fst Htrig) as Hc; pose proof (f_equal snd Htrig) as Hsn; cbn [fst snd] in Hc, Hsn;
      rewrite <- Hc, <- Hsn; unfold absstep; cbn [pw to_pt];
      destruct t as [[[re im] nrm]|];
      [ destruct Hr as (R1 & R2 & R3); cbn [fst snd] in R1, R2, R3; rewrite R1, R2, R3;
        try destruct (oattr p _) as [w|]; try reflexivity;
        rewrite (step_std _ _ _ _ _ _ _ _ (std_particles K kmul kdiv kopp)); reflexivity
      | unfold rel in Hr; injection Hr as -> -> ->; try destruct (oattr p _) as [w|]; reflexivity ].
  Qed.

  Lemma weight_none wq : Ecc.lookup wq gen_weight_table = None ->
    (wq =? "energy") = false /\ (wq =? "number") = false /\ (wq =? "charge") = false
    /\ (wq =? "baryon") = false /\ (wq =? "strangeness") = false.
  Proof.
    unfold gen_weight_table, Ecc.lookup. rewrite !(String.eqb_sym wq).
    repeat match goal with |- context [String.eqb ?a wq] => destruct (String.eqb a wq) end;
      intros H; try discriminate H; repeat split.
  Qed.

  Definition m_ok (m : option Z) : Prop := match m with Some v => (1 <= v)%Z | None => True end.

  (* ---- eccentricity_from_particles = the hand model, for every argument, on an object holding particles ---------- *)
  Theorem source_eccentricity_from_particles : forall self n m wq b (ps : list (pobs K)),
    event_data_ self = ASeq b (map OParticle ps) ->
    (forall p, In p ps -> point_law n (radial_power n m) (ox p) (oy p) (orad p)) ->
    gen_particles self n m wq = ecc_from_particles n m wq ps.
  Proof.
    intros self n m wq b ps Hs Hlaw.
    destruct (particles_errors K k0 k1 kadd kmul ksub kdiv kopp kis0 n m wq ps) as (X1 & X2 & X3 & _).
    destruct (Z.ltb_spec n 1) as [Hn|Hn].
    { rewrite (X1 Hn). unfold gen_eccentricity_from_particles.
      assert (E : (n <? 1)%Z = true) by (apply Z.ltb_lt; lia). now rewrite E. }
    assert (E1 : (n <? 1)%Z = false) by (apply Z.ltb_ge; lia).
    assert (Hm : m_ok m \/ exists v, m = Some v /\ (v < 1)%Z).
    { destruct m as [v|]; [|now left]. destruct (Z.ltb_spec v 1); [right; eauto | now left]. }
    destruct Hm as [Hm|(v & -> & Hv)].
    2:{ rewrite X2 by eauto. unfold gen_eccentricity_from_particles. rewrite E1.
        assert (E : (v <? 1)%Z = true) by (apply Z.ltb_lt; lia). cbn. now rewrite E. }
    destruct ps as [|p0 ps0].
    { destruct (particles_errors K k0 k1 kadd kmul ksub kdiv kopp kis0 n m wq []) as (_ & _ & _ & X4).
      rewrite (X4 Hn Hm). unfold gen_eccentricity_from_particles. rewrite Hs, E1.
      destruct m as [v|]; [assert (E2 : (v <? 1)%Z = false) by (apply Z.ltb_ge; simpl in Hm; lia)|];
        destruct b; cbn; try rewrite E2; cbn; unfold k_lit; cbn; rewrite kis0_0; reflexivity. }
    set (ps := p0 :: ps0) in *. assert (Hne : ps <> []) by discriminate.
    destruct (Ecc.lookup wq gen_weight_table) as [sel|] eqn:Hl.
    - rewrite (particles_ok self n m wq sel b ps Hs Hn Hm Hl Hlaw Hne).
      rewrite (particles_core K k0 k1 kadd kmul ksub kdiv kopp kis0 n m wq sel ps Hn Hm Hne Hl).
      symmetry. apply core_finish; [apply std_particles | unfold ps; discriminate].
    - rewrite (X3 Hn Hm Hne eq_refl). destruct (weight_none wq Hl) as (W1 & W2 & W3 & W4 & W5).
      unfold gen_eccentricity_from_particles. rewrite Hs, E1. unfold ps.
      destruct m as [v|]; [assert (E2 : (v <? 1)%Z = false) by (apply Z.ltb_ge; simpl in Hm; lia)|];
        destruct b; cbn; try rewrite E2; cbn; rewrite W1, W2, W3, W4, W5; reflexivity.
  Qed.

  (* an object that does not hold a list / array: TypeError, after the two argument checks *)
  Theorem source_eccentricity_from_particles_type : forall self n m wq,
    (1 <= n)%Z -> m_ok m -> (forall b items, event_data_ self <> ASeq b items) ->
    gen_particles self n m wq = Err TypeError.
  Proof.
    intros self n m wq Hn Hm Hs. unfold gen_eccentricity_from_particles.
    assert (E1 : (n <? 1)%Z = false) by (apply Z.ltb_ge; lia). rewrite E1.
    destruct m as [v|]; [assert (E2 : (v <? 1)%Z = false) by (apply Z.ltb_ge; simpl in Hm; lia)|];
      cbn; try rewrite E2; destruct (event_data_ self) as [L|b items|]; try reflexivity; exfalso; eapply Hs; reflexivity.
  Qed.

  (* ---- eccentricity_from_lattice ------------------------------------------------------------------------------- *)
  Notation lattice := (EccRt.lattice K).
  (* what Lattice3D.__init__ establishes and its methods keep: the three coordinate arrays have num_points_* entries
     and the grid has that shape *)
  Definition lattice_wf (L : lattice) : Prop :=
    l_num_points_x L = Z.of_nat (List.length (l_x_values L)) /\ l_num_points_y L = Z.of_nat (List.length (l_y_values L))
    /\ l_num_points_z L = Z.of_nat (List.length (l_z_values L))
    /\ l_grid_shape L = (l_num_points_x L, l_num_points_y L, l_num_points_z L).

  Definition triples (a b c : nat) : list (nat * nat * nat) :=
    flat_map (fun i => flat_map (fun j => map (fun k => (i, j, k)) (seq 0 c)) (seq 0 b)) (seq 0 a).
  Definition zt (t : nat * nat * nat) : Z * Z * Z :=
    let '(i, j, k) := t in (Z.of_nat i, Z.of_nat j, Z.of_nat k).
  Definition mkpt (xs ys : list K) (rad : K -> K -> K) (dens : nat -> nat -> nat -> K) (t : nat * nat * nat) : pt :=
    let '(i, j, k) := t in
    {| px := nth i xs k0; py := nth j ys k0; pr := rad (nth i xs k0) (nth j ys k0); pw := Some (dens i j k) |}.

  Lemma map_flat_map {A B C} (f : A -> list B) (g : B -> C) l : map g (flat_map f l) = flat_map (fun x => map g (f x)) l.
  Proof. induction l as [|x l IH]; [reflexivity|]. cbn [flat_map]. rewrite map_app, IH. reflexivity. Qed.
  Lemma flat_map_map {A B C} (h : A -> B) (f : B -> list C) l : flat_map f (map h l) = flat_map (fun x => f (h x)) l.
  Proof. induction l as [|x l IH]; [reflexivity|]. cbn [flat_map map]. rewrite IH. reflexivity. Qed.

  Lemma ndindex_triples a b c : np_ndindex (Z.of_nat a, Z.of_nat b, Z.of_nat c) = map zt (triples a b c).
  Proof.
    unfold np_ndindex, zrange, triples. rewrite !Nat2Z.id, flat_map_map, map_flat_map.
    apply flat_map_ext. intros i. rewrite flat_map_map, map_flat_map. apply flat_map_ext. intros j.
    rewrite !map_map. reflexivity.
  Qed.

  Lemma nodes_triples xs ys nz rad dens :
    nodes K k0 xs ys nz rad dens = map (mkpt xs ys rad dens) (triples (List.length xs) (List.length ys) nz).
  Proof.
    unfold nodes, triples. rewrite map_flat_map. apply flat_map_ext. intros i. rewrite map_flat_map.
    apply flat_map_ext. intros j. rewrite map_map. reflexivity.
  Qed.

  Lemma in_triples a b c i j k : In (i, j, k) (triples a b c) -> (i < a /\ j < b /\ k < c)%nat.
  Proof.
    unfold triples. intros H. apply in_flat_map in H. destruct H as (i' & Hi & H).
    apply in_flat_map in H. destruct H as (j' & Hj & H). apply in_map_iff in H. destruct H as (k' & [= -> -> ->] & Hk).
    apply in_seq in Hi, Hj, Hk. lia.
  Qed.

  Lemma lat_get_value_ok (vs : list K) i : (i < List.length vs)%nat ->
    lat_get_value K (Z.of_nat i) vs (Z.of_nat (List.length vs)) = Ok (Np (Some (nth i vs k0))).
  Proof.
    intros H. unfold lat_get_value.
    assert (E : ((Z.of_nat i <? 0) || (Z.of_nat (List.length vs) <=? Z.of_nat i))%Z = false).
    { apply orb_false_iff. split; [apply Z.ltb_ge | apply Z.leb_gt]; lia. }
    rewrite E, Nat2Z.id, (nth_error_nth' vs k0 H). reflexivity.
  Qed.

  Lemma coords_ok (L : lattice) i j k : lattice_wf L ->
    (i < List.length (l_x_values L))%nat -> (j < List.length (l_y_values L))%nat -> (k < List.length (l_z_values L))%nat ->
    lat_get_coordinates K L (Z.of_nat i) (Z.of_nat j) (Z.of_nat k)
    = Ok (Np (Some (nth i (l_x_values L) k0)), Np (Some (nth j (l_y_values L) k0)), Np (Some (nth k (l_z_values L) k0))).
  Proof.
    intros (W1 & W2 & W3 & _) Hi Hj Hk. unfold lat_get_coordinates. rewrite W1, W2, W3.
    rewrite !lat_get_value_ok by assumption. reflexivity.
  Qed.

  Lemma value_ok (L : lattice) i j k : lattice_wf L ->
    (i < List.length (l_x_values L))%nat -> (j < List.length (l_y_values L))%nat -> (k < List.length (l_z_values L))%nat ->
    lat_get_value_by_index K L (Z.of_nat i) (Z.of_nat j) (Z.of_nat k) = Ok (Some (Np (Some (l_grid L i j k)))).
  Proof.
    intros (W1 & W2 & W3 & W4) Hi Hj Hk. unfold lat_get_value_by_index, lat_is_valid_index. rewrite W4, W1, W2, W3.
    assert (B : forall u v, (u < v)%nat -> ((0 <=? Z.of_nat u) && (Z.of_nat u <? Z.of_nat v))%Z = true).
    { intros u v H. apply andb_true_iff. split; [apply Z.leb_le | apply Z.ltb_lt]; lia. }
    assert (B' : forall u v, (u < v)%nat -> (Z.of_nat u <? Z.of_nat v)%Z = true) by (intros; apply Z.ltb_lt; lia).
    rewrite !B, !B' by assumption. cbn [andb negb]. rewrite !Nat2Z.id. reflexivity.
  Qed.

  Lemma lattice_ok self n m (L : lattice) rad :
    event_data_ self = ALattice L -> lattice_wf L ->
    (1 <= n)%Z -> m_ok m ->
    (forall x y, In x (l_x_values L) -> In y (l_y_values L) -> point_law n (radial_power n m) x y (rad x y)) ->
    triples (List.length (l_x_values L)) (List.length (l_y_values L)) (List.length (l_z_values L)) <> [] ->
    gen_lattice self n m
    = finish (fold_left (absstep (body_lattice K kmul kdiv kopp) (Z.to_nat (radial_power n m)) (Z.to_nat n))
                        (nodes K k0 (l_x_values L) (l_y_values L) (List.length (l_z_values L)) rad (l_grid L)) (Some (k0, k0, k0))).
  Proof.
    intros Hs Hwf Hn Hm Hlaw Hne.
    unfold gen_eccentricity_from_lattice. rewrite Hs, nodes_triples.
    assert (E1 : (n <? 1)%Z = false) by (apply Z.ltb_ge; lia). rewrite E1.
    set (T := triples (List.length (l_x_values L)) (List.length (l_y_values L)) (List.length (l_z_values L))) in *.
    set (l := map (fun t => (zt t, mkpt (l_x_values L) (l_y_values L) rad (l_grid L) t)) T).
    assert (L1 : np_ndindex (l_grid_shape L) = map fst l).
    { destruct Hwf as (W1 & W2 & W3 & W4). rewrite W4, W1, W2, W3, ndindex_triples. unfold l. rewrite map_map. reflexivity. }
    assert (L2 : map (mkpt (l_x_values L) (l_y_values L) rad (l_grid L)) T = map snd l)
      by (unfold l; rewrite map_map; reflexivity).
    assert (Ll : l <> []) by (unfold l; destruct T; [congruence | discriminate]).
    assert (Hin : forall a q, In (a, q) l -> exists i j k,
              a = (Z.of_nat i, Z.of_nat j, Z.of_nat k) /\ q = mkpt (l_x_values L) (l_y_values L) rad (l_grid L) (i, j, k)
              /\ (i < List.length (l_x_values L) /\ j < List.length (l_y_values L) /\ k < List.length (l_z_values L))%nat).
    { intros a q H. unfold l in H. apply in_map_iff in H. destruct H as ([[i j] k] & [= <- <-] & H).
      exists i, j, k. repeat split; apply in_triples in H; lia. }
    rewrite L2. clearbody l. clear L2 Hne.
    (destruct m as [v|]; [assert (E2 : (v <? 1)%Z = false) by (apply Z.ltb_ge; simpl in Hm; lia)|]);
    destruct (n =? 1)%Z eqn:En.
    all: unfold radial_power in *; try rewrite En in *.
    all: cbn; try rewrite E2; cbn; rewrite L1.
    all: match goal with |- context [absstep ?B ?E ?N] =>
           rewrite (foldM_rep _ (absstep B E N) l) with (t := Some (k0, k0, k0));
           [ exact (finish_gen _) | | unfold rel; cbn; auto | exact Ll ] end.
    all: intros [[a1 a2] a3] t a q Hq Hr; destruct (Hin a q Hq) as (i & j & k & -> & -> & Hi & Hj & Hk);
      destruct (Hlaw (nth i (l_x_values L) k0) (nth j (l_y_values L) k0) (nth_In _ _ Hi) (nth_In _ _ Hj)) as [Hpow Htrig];
      unfold pow_law, trig_law in *; cbn;
      rewrite (coords_ok L i j k Hwf Hi Hj Hk); cbn; rewrite (value_ok L i j k Hwf Hi Hj Hk); cbn.
    all: rewrite Hpow, !fl_add_np;
      pose proof (f_equal fst Htrig) as Hc; pose proof (f_equal snd Htrig) as Hsn; cbn [fst snd] in Hc, Hsn;
      rewrite <- Hc, <- Hsn; unfold absstep; cbn [pw mkpt];
      destruct t as [[[re im] nrm]|];
      [ destruct Hr as (R1 & R2 & R3); cbn [fst snd] in R1, R2, R3; rewrite R1, R2, R3;
        rewrite (step_std _ _ _ _ _ _ _ _ (std_lattice K kmul kdiv kopp)); reflexivity
      | unfold rel in Hr; injection Hr as -> -> ->; reflexivity ].
  Qed.

  Theorem source_eccentricity_from_lattice : forall self n m (L : lattice) rad,
    event_data_ self = ALattice L -> lattice_wf L ->
    (forall x y, In x (l_x_values L) -> In y (l_y_values L) -> point_law n (radial_power n m) x y (rad x y)) ->
    gen_lattice self n m
    = ecc_from_lattice n m (l_x_values L) (l_y_values L) (List.length (l_z_values L)) rad (l_grid L).
  Proof.
    intros self n m L rad Hs Hwf Hlaw.
    destruct (Z.ltb_spec n 1) as [Hn|Hn].
    { assert (E : (n <? 1)%Z = true) by (apply Z.ltb_lt; lia).
      unfold gen_eccentricity_from_lattice, Ecc.ecc_from_lattice, arg_check, gen_n_min_lattice. now rewrite E. }
    assert (E1 : (n <? 1)%Z = false) by (apply Z.ltb_ge; lia).
    assert (Hm : m_ok m \/ exists v, m = Some v /\ (v < 1)%Z).
    { destruct m as [v|]; [|now left]. destruct (Z.ltb_spec v 1); [right; eauto | now left]. }
    destruct Hm as [Hm|(v & -> & Hv)].
    2:{ assert (E : (v <? 1)%Z = true) by (apply Z.ltb_lt; lia).
        unfold gen_eccentricity_from_lattice, Ecc.ecc_from_lattice, arg_check, gen_n_min_lattice, gen_m_min_lattice.
        rewrite E1. cbn. now rewrite E. }
    destruct (triples (List.length (l_x_values L)) (List.length (l_y_values L)) (List.length (l_z_values L))) as [|t0 T0] eqn:HT.
    { unfold Ecc.ecc_from_lattice, arg_check, gen_n_min_lattice, gen_m_min_lattice. rewrite nodes_triples, HT, E1.
      assert (E2 : match m with Some v => (v <? 1)%Z | None => false end = false).
      { destruct m; [apply Z.ltb_ge; simpl in Hm; lia | reflexivity]. }
      rewrite E2. cbn [orb map].
      unfold gen_eccentricity_from_lattice. rewrite Hs, E1.
      assert (L1 : np_ndindex (l_grid_shape L) = []).
      { destruct Hwf as (W1 & W2 & W3 & W4). now rewrite W4, W1, W2, W3, ndindex_triples, HT. }
      destruct m as [v|]; cbn; try rewrite E2; cbn; rewrite L1; cbn; unfold k_lit; cbn; rewrite kis0_0; reflexivity. }
    assert (Hne : triples (List.length (l_x_values L)) (List.length (l_y_values L)) (List.length (l_z_values L)) <> [])
      by (rewrite HT; discriminate).
    rewrite (lattice_ok self n m L rad Hs Hwf Hn Hm Hlaw Hne).
    assert (Hnn : nodes K k0 (l_x_values L) (l_y_values L) (List.length (l_z_values L)) rad (l_grid L) <> [])
      by (rewrite nodes_triples, HT; discriminate).
    rewrite (lattice_core K k0 k1 kadd kmul ksub kdiv kopp kis0 n m _ _ _ _ _ Hn Hm Hnn).
    symmetry. apply core_finish; [apply std_lattice | exact Hnn].
  Qed.

  (* an object that holds a list / array: TypeError after the two argument checks; any other object has no grid_ *)
  Theorem source_eccentricity_from_lattice_type : forall self n m,
    (1 <= n)%Z -> m_ok m ->
    (forall b items, event_data_ self = ASeq b items -> gen_lattice self n m = Err TypeError)
    /\ (event_data_ self = AOther -> gen_lattice self n m = Err AttributeError).
  Proof.
    intros self n m Hn Hm. unfold gen_eccentricity_from_lattice.
    assert (E1 : (n <? 1)%Z = false) by (apply Z.ltb_ge; lia). rewrite E1.
    split; [intros b items Hs | intros Hs]; rewrite Hs;
      (destruct m as [v|]; [assert (E2 : (v <? 1)%Z = false) by (apply Z.ltb_ge; simpl in Hm; lia)|]);
      cbn; try rewrite E2; try destruct b; reflexivity.
  Qed.

  (* ---- set_event_data, __init__ ------------------------------------------------------------------------------- *)
  Definition is_particle (o : pyobj K) : bool := match o with OParticle _ => true | OOther => false end.
  (* a Lattice3D is stored as it is (has_lattice_ = True); a list / array is stored when every element is a Particle
     (has_lattice_ = False); everything else raises TypeError *)
  Definition set_event_data_spec (arg : evarg K) : result (ecself K) :=
    match arg with
    | ALattice _ => Ok (ECSelf arg true)
    | ASeq _ items => if forallb is_particle items then Ok (ECSelf arg false) else Err TypeError
    | AOther => Err TypeError
    end.

  Lemma check_loop (items : list (pyobj K)) :
    fold_leftM (fun (_ : unit) o => if negb (obj_isinstance o [T_Particle]) then Err TypeError else Ok tt) items tt
    = if forallb is_particle items then Ok tt else Err TypeError.
  Proof. induction items as [|[p|] items IH]; [reflexivity | exact IH | reflexivity]. Qed.

  Theorem source_set_event_data : forall self arg, gen_set_event_data K self arg = set_event_data_spec arg.
  Proof.
    intros self arg. unfold gen_set_event_data, set_event_data_spec.
    destruct arg as [L|b items|]; [reflexivity| |reflexivity].
    destruct b; cbn; rewrite check_loop; destruct (forallb is_particle items); reflexivity.
  Qed.

  Theorem source_init : forall self arg, gen_init K self arg = set_event_data_spec arg.
  Proof.
    intros self arg. unfold gen_init. rewrite source_set_event_data. destruct (set_event_data_spec arg); reflexivity.
  Qed.

  Lemma forallb_particles (ps : list (pobs K)) : forallb is_particle (map OParticle ps) = true.
  Proof. induction ps as [|p ps IH]; [reflexivity | exact IH]. Qed.

  (* ---- eccentricity: dispatch on has_lattice_, arguments passed through ------------------------------------------ *)
  Theorem source_eccentricity : forall self n m wq,
    gen_ecc self n m wq = if has_lattice_ self then gen_lattice self n m else gen_particles self n m wq.
  Proof. reflexivity. Qed.

  (* the public call on an object constructed from particles / from a lattice is the hand model *)
  Theorem source_eccentricity_particles : forall self0 self n m wq b (ps : list (pobs K)),
    gen_init K self0 (ASeq b (map OParticle ps)) = Ok self ->
    (forall p, In p ps -> point_law n (radial_power n m) (ox p) (oy p) (orad p)) ->
    gen_ecc self n m wq = ecc_from_particles n m wq ps.
  Proof.
    intros self0 self n m wq b ps Hi Hlaw. rewrite source_init in Hi. cbn [set_event_data_spec] in Hi.
    rewrite forallb_particles in Hi. injection Hi as <-. rewrite source_eccentricity. cbn [has_lattice_].
    now apply (source_eccentricity_from_particles _ n m wq b ps).
  Qed.

  Theorem source_eccentricity_lattice : forall self0 self n m wq (L : lattice) rad,
    gen_init K self0 (ALattice L) = Ok self -> lattice_wf L ->
    (forall x y, In x (l_x_values L) -> In y (l_y_values L) -> point_law n (radial_power n m) x y (rad x y)) ->
    gen_ecc self n m wq
    = ecc_from_lattice n m (l_x_values L) (l_y_values L) (List.length (l_z_values L)) rad (l_grid L).
  Proof.
    intros self0 self n m wq L rad Hi Hwf Hlaw. rewrite source_init in Hi. cbn [set_event_data_spec] in Hi.
    injection Hi as <-. rewrite source_eccentricity. cbn [has_lattice_].
    now apply (source_eccentricity_from_lattice _ n m L rad).
  Qed.
End Source.

Theorem source_defaults :
  gen_default_eccentricity_from_particles_harmonic_m = None
  /\ gen_default_eccentricity_from_particles_weight_quantity = "energy"
  /\ gen_default_eccentricity_from_lattice_harmonic_m = None
  /\ gen_default_eccentricity_harmonic_m = None
  /\ gen_default_eccentricity_weight_quantity = "energy".
Proof. repeat split. Qed.

(* [point_law] written out *)
Theorem source_point_law : forall (K : Type) (k0 k1 : K) (kadd kmul ksub kdiv : K -> K -> K) (kopp : K -> K) (kis0 : K -> bool)
    (upow uatan2 : K -> K -> K) (ucos usin : K -> K) (n E : Z) (x y r : K),
  point_law K k0 k1 kadd kmul ksub kdiv kopp kis0 upow uatan2 ucos usin n E x y r
  = (upow (kadd (kpow k1 kmul x 2) (kpow k1 kmul y 2)) (kdiv (k_lit K k0 k1 kadd kmul kopp E) (k_lit K k0 k1 kadd kmul kopp 2))
     = kpow k1 kmul r (Z.to_nat E)
     /\ (let u := unitv K k0 k1 kdiv kis0 {| px := x; py := y; pr := r; pw := None |} in
         cis_pow K k0 k1 kadd kmul ksub (fst u) (snd u) (Z.to_nat n))
        = (ucos (kmul (k_lit K k0 k1 kadd kmul kopp n) (uatan2 y x)), usin (kmul (k_lit K k0 k1 kadd kmul kopp n) (uatan2 y x)))).
Proof. reflexivity. Qed.

(* ---- the laws assumed of the oracles are those of the real functions ------------------------------------------------
   Over R, with np.cos / np.sin / np.arctan2 read as cos / sin / atan2 (Lib/RealAux.v: the polar angle, atan2 0 0 = 0)
   and `b ** e` for b >= 0 as [rpow] (exp (e ln b) for b > 0, 0 ** e = 0 for e <> 0), every point (x, y) with the
   radius sqrt (x^2 + y^2) satisfies [point_law] for all n >= 1 and all radial powers E >= 1. *)
From Coq Require Import Reals Lra.
From SX Require Import Lib.RealAux Proofs.C18_Real.
Local Open Scope R_scope.

Definition rpow (b e : R) : R :=
  if Req_EM_T b 0 then (if Req_EM_T e 0 then 1 else 0) else Rpower b e.

Lemma kpos_IZR p : kpos 1 Rplus Rmult p = IZR (Zpos p).
Proof.
  induction p as [p IH|p IH|]; cbn [kpos].
  - rewrite IH, Pos2Z.inj_xI, plus_IZR, mult_IZR. ring.
  - rewrite IH, Pos2Z.inj_xO, mult_IZR. ring.
  - reflexivity.
Qed.
Lemma klit_IZR z : k_lit R 0 1 Rplus Rmult Ropp z = IZR z.
Proof.
  unfold k_lit, kz. destruct z as [|p|p]; [reflexivity | apply kpos_IZR |].
  rewrite kpos_IZR. change (Z.neg p) with (- Z.pos p)%Z. now rewrite opp_IZR.
Qed.
Lemma kpow_pow r n : kpow 1 Rmult r n = r ^ n.
Proof. induction n as [|n IH]; [reflexivity|]. change (r * kpow 1 Rmult r n = r * r ^ n). now rewrite IH. Qed.
Lemma rcis_one n : rcis 1 0 n = (1, 0).
Proof.
  induction n as [|n IH]; [reflexivity|].
  change (rcis 1 0 (S n)) with (let '(cn, sn) := rcis 1 0 n in (1 * cn - 0 * sn, 1 * sn + 0 * cn)).
  rewrite IH. f_equal; ring.
Qed.
Lemma IZR_to_nat z : (0 <= z)%Z -> INR (Z.to_nat z) = IZR z.
Proof. intros H. rewrite INR_IZR_INZ, Z2Nat.id by assumption. reflexivity. Qed.

Theorem source_laws_R : forall x y n E, (1 <= n)%Z -> (1 <= E)%Z ->
  point_law R 0 1 Rplus Rmult Rminus Rdiv Ropp ris0 rpow atan2 cos sin n E x y (sqrt (x * x + y * y)).
Proof.
  intros x y n E Hn HE. unfold point_law, pow_law, trig_law, uvec. rewrite !klit_IZR.
  rewrite (kpow_pow x 2), (kpow_pow y 2), (kpow_pow (sqrt (x * x + y * y))).
  replace (x ^ 2 + y ^ 2) with (x * x + y * y) by ring.
  set (b := x * x + y * y).
  assert (Hb : 0 <= b) by (unfold b; nra).
  destruct (Req_EM_T b 0) as [Z|NZ].
  - assert (x = 0 /\ y = 0) as [-> ->] by (unfold b in Z; split; nra).
    rewrite Z, sqrt_0. split.
    + unfold rpow. destruct (Req_EM_T 0 0) as [_|C]; [|congruence].
      destruct (Req_EM_T (IZR E / 2) 0) as [C|_].
      * exfalso. assert (1 <= IZR E) by (apply IZR_le in HE; exact HE). lra.
      * symmetry. apply pow_i. lia.
    + assert (R0 : ris0 0 = true) by (apply ris0_spec; reflexivity). rewrite R0. cbn [fst snd]. rewrite rcis_one.
      assert (A : atan2 0 0 = 0) by (unfold atan2; rewrite !Rltb_false by lra; reflexivity).
      rewrite A, Rmult_0_r, cos_0, sin_0. reflexivity.
  - assert (Hp : 0 < b) by lra. assert (Hr : 0 < sqrt b) by (apply sqrt_lt_R0; exact Hp). split.
    + unfold rpow. destruct (Req_EM_T b 0) as [C|_]; [contradiction|].
      rewrite <- (IZR_to_nat E) by lia. set (N := Z.to_nat E).
      replace (INR N / 2) with (/ 2 * INR N) by field.
      rewrite <- Rpower_mult, Rpower_sqrt by exact Hp. apply Rpower_pow. exact Hr.
    + assert (R0 : ris0 (sqrt b) = false).
      { destruct (ris0 (sqrt b)) eqn:C; [apply ris0_spec in C; lra | reflexivity]. }
      rewrite R0. cbn [fst snd].
      destruct (atan2_cos_sin y x NZ) as [C S]. fold b in C, S. rewrite <- C, <- S, de_moivre.
      rewrite (IZR_to_nat n) by lia. reflexivity.
Qed.

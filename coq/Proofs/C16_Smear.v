(* C16: the deposit of add_particle_data, point-wise and summed; any field. *)
From Coq Require Import List ZArith QArith Bool Lia Ring Ring_theory Field Field_theory Permutation String.
From SX Require Import Lib.KRing Lib.Py Lib.QCheck Gen.GenLattice Model.Lattice Model.Smear.
Import ListNotations.

(* ---- index bookkeeping (no algebra) ------------------------------------------------------------------------ *)
Lemma eq3_true p q : eq3 p q = true -> p = q.
Proof.
  destruct p as [[a b] c], q as [[d e] f]. simpl. rewrite !andb_true_iff, !Z.eqb_eq. intros [[-> ->] ->]. reflexivity.
Qed.
Lemma eq3_refl p : eq3 p p = true.
Proof. destruct p as [[a b] c]. simpl. now rewrite !Z.eqb_refl. Qed.

Section Algebra.
  Variable K : Type.
  Variables (k0 k1 : K) (kadd kmul ksub kdiv : K -> K -> K) (kopp kinv : K -> K).
  Hypothesis Fth : field_theory k0 k1 kadd kmul ksub kopp kdiv kinv (@eq K).
  Add Field Kfield : Fth.
  Variable norm_ok : K -> bool.
  Hypothesis norm_ok_nz : forall N, norm_ok N = true -> N <> k0.

  Notation "0" := k0. Notation "1" := k1.
  Infix "+" := kadd. Infix "*" := kmul. Infix "-" := ksub. Infix "/" := kdiv.
  Notation sum := (ksum k0 kadd).
  Notation dep := (dep K).
  Notation zgrid := (zgrid K).
  Notation tempn := (tempn K k0 kadd kmul kdiv norm_ok).
  Notation temp := (temp K k0 kmul kdiv).
  Notation knorm := (knorm K k0 kadd).
  Notation gsum := (gsum K k0 kadd).
  Notation deposit_one := (deposit_one K k0 kadd kmul kdiv norm_ok).
  Notation deposit_all := (deposit_all K k0 kadd kmul kdiv norm_ok).
  Notation place := (place K k0 kadd kmul kdiv norm_ok).

  Let Rth : ring_theory k0 k1 kadd kmul ksub kopp (@eq K) := F_R Fth.

  Lemma sum_app l1 l2 : sum (l1 ++ l2) = sum l1 + sum l2.
  Proof. exact (ksum_app K k0 k1 kadd kmul ksub kopp Rth l1 l2). Qed.
  Lemma sum_ext {A} (f g : A -> K) l : (forall x, In x l -> f x = g x) -> sum (map f l) = sum (map g l).
  Proof.
    induction l as [|x t IH]; intros H; [reflexivity|]. simpl. rewrite (H x) by now left.
    rewrite IH; [reflexivity|]. intros y Hy. apply H. now right.
  Qed.
  Lemma sum_add {A} (f g : A -> K) l : sum (map (fun x => f x + g x) l) = sum (map f l) + sum (map g l).
  Proof. exact (ksum_map_add K k0 k1 kadd kmul ksub kopp Rth f g l). Qed.
  Lemma sum_scal {A} c (f : A -> K) l : sum (map (fun x => c * f x) l) = c * sum (map f l).
  Proof. exact (ksum_map_mul K k0 k1 kadd kmul ksub kopp Rth c f l). Qed.
  Lemma sum_zero {A} (l : list A) : sum (map (fun _ => 0) l) = 0.
  Proof. induction l as [|x t IH]; simpl; [reflexivity | rewrite IH; ring]. Qed.
  Lemma sum_flat_map {A B} (f : B -> K) (g : A -> list B) l :
    sum (map f (flat_map g l)) = sum (map (fun x => sum (map f (g x))) l).
  Proof. induction l as [|x t IH]; [reflexivity|]. simpl. rewrite map_app, sum_app, IH. reflexivity. Qed.
  Lemma sum_swap {A B} (F : A -> B -> K) xs ys :
    sum (map (fun x => sum (map (fun y => F x y) ys)) xs) = sum (map (fun y => sum (map (fun x => F x y) xs)) ys).
  Proof.
    induction xs as [|x t IH]; simpl.
    - now rewrite sum_zero.
    - rewrite IH, <- sum_add. reflexivity.
  Qed.
  Lemma sum_perm l l' : Permutation l l' -> sum l = sum l'.
  Proof. induction 1; simpl; try congruence; ring. Qed.

  (* sum of an indicator over a range *)
  Lemma ind_seq a u : forall len s,
    sum (map (fun i => if (Z.of_nat i =? a)%Z then u else 0) (seq s len))
    = if ((Z.of_nat s <=? a) && (a <? Z.of_nat (s + len)))%Z then u else 0.
  Proof.
    induction len as [|len IH]; intros s.
    - simpl. destruct ((Z.of_nat s <=? a)%Z && (a <? Z.of_nat (s + 0))%Z) eqn:E; [|reflexivity].
      apply andb_true_iff in E. rewrite Z.leb_le, Z.ltb_lt in E. lia.
    - simpl. rewrite IH.
      destruct (Z.of_nat s =? a)%Z eqn:E1.
      + apply Z.eqb_eq in E1.
        assert (E2 : ((Z.of_nat (S s) <=? a)%Z && (a <? Z.of_nat (S s + len))%Z) = false).
        { apply andb_false_iff. left. apply Z.leb_gt. lia. }
        assert (E3 : ((Z.of_nat s <=? a)%Z && (a <? Z.of_nat (s + S len))%Z) = true).
        { apply andb_true_iff. rewrite Z.leb_le, Z.ltb_lt. lia. }
        rewrite E2, E3. ring.
      + apply Z.eqb_neq in E1.
        assert (E : ((Z.of_nat (S s) <=? a)%Z && (a <? Z.of_nat (S s + len))%Z)
                    = ((Z.of_nat s <=? a)%Z && (a <? Z.of_nat (s + S len))%Z)).
        { apply eq_true_iff_eq. rewrite !andb_true_iff, !Z.leb_le, !Z.ltb_lt. lia. }
        rewrite E. ring.
  Qed.

  Lemma ind_range (P : bool) a n u :
    sum (map (fun i => if P && (i =? a)%Z then u else 0) (zrange n)) = if P && in1 a n then u else 0.
  Proof.
    destruct P; simpl.
    - unfold zrange. rewrite map_map. rewrite ind_seq. unfold in1. simpl.
      destruct (Z_le_dec 0 n) as [Hn|Hn].
      + rewrite Z2Nat.id by assumption. reflexivity.
      + replace (Z.to_nat n) with 0%nat by lia. simpl.
        destruct (0 <=? a)%Z eqn:E1; simpl; [|reflexivity].
        apply Z.leb_le in E1.
        assert (E2 : (a <? 0)%Z = false) by (apply Z.ltb_ge; lia).
        assert (E3 : (a <? n)%Z = false) by (apply Z.ltb_ge; lia).
        now rewrite E2, E3.
    - apply sum_zero.
  Qed.

  Lemma ind_cells n p u : sum (map (fun q => if eq3 q p then u else 0) (cells n)) = if inside n p then u else 0.
  Proof.
    destruct n as [[nx ny] nz], p as [[a b] c]. unfold cells.
    rewrite sum_flat_map.
    rewrite (sum_ext _ (fun a' => if (in1 b ny && in1 c nz) && (a' =? a)%Z then u else 0)).
    - rewrite ind_range. unfold inside.
      destruct (in1 a nx), (in1 b ny), (in1 c nz); reflexivity.
    - intros a' _. rewrite sum_flat_map.
      rewrite (sum_ext _ (fun b' => if ((a' =? a)%Z && in1 c nz) && (b' =? b)%Z then u else 0)).
      + rewrite ind_range. destruct (a' =? a)%Z, (in1 b ny), (in1 c nz); reflexivity.
      + intros b' _. rewrite map_map. simpl.
        rewrite (ind_range ((a' =? a)%Z && (b' =? b)%Z) c nz u). destruct (a' =? a)%Z, (b' =? b)%Z, (in1 c nz); reflexivity.
  Qed.

  (* ---- the deposit, point-wise ----------------------------------------------------------------------------- *)
  (* what offset o of particle d contributes to node q *)
  Definition ind (n : Z * Z * Z) (vol : K) (d : dep) (q o : Z * Z * Z) : K :=
    if inside n (add3 (dc d) o) && eq3 q (add3 (dc d) o) then tempn vol d o else 0.
  Definition contrib (n : Z * Z * Z) (vol : K) (d : dep) (q : Z * Z * Z) : K :=
    sum (map (ind n vol d q) (stencil (dm d))).

  Lemma place_point n vol d (g : zgrid) o q : place n vol d g o q = g q + ind n vol d q o.
  Proof.
    unfold Smear.place, Smear.place_with, ind, Smear.tempn. destruct (inside n (add3 (dc d) o)); simpl.
    - unfold zupd. destruct (eq3 q (add3 (dc d) o)) eqn:E.
      + apply eq3_true in E. now subst.
      + ring.
    - ring.
  Qed.

  Lemma fold_place_point n vol d os : forall (g : zgrid) q,
    fold_left (place n vol d) os g q = g q + sum (map (ind n vol d q) os).
  Proof.
    induction os as [|o t IH]; intros g q; simpl; [ring|].
    rewrite IH, place_point. ring.
  Qed.

  Lemma deposit_one_point n vol (g : zgrid) d q : deposit_one n vol g d q = g q + contrib n vol d q.
  Proof. apply fold_place_point. Qed.

  Lemma deposit_all_point n vol ds : forall (g : zgrid) q,
    deposit_all n vol g ds q = g q + sum (map (fun d => contrib n vol d q) ds).
  Proof.
    induction ds as [|d t IH]; intros g q; simpl; [ring|].
    unfold deposit_all in *. simpl. rewrite IH, deposit_one_point. ring.
  Qed.

  (* the result does not depend on the order of the particles *)
  Lemma deposit_perm n vol (g : zgrid) ds ds' q : Permutation ds ds' ->
    deposit_all n vol g ds q = deposit_all n vol g ds' q.
  Proof.
    intros P. rewrite !deposit_all_point. f_equal. apply sum_perm. now apply Permutation_map.
  Qed.

  (* accumulation: depositing onto g is g plus the deposit onto the empty grid *)
  Lemma deposit_accumulates n vol (g : zgrid) ds q :
    deposit_all n vol g ds q = g q + deposit_all n vol (fun _ => 0) ds q.
  Proof. rewrite !deposit_all_point. ring. Qed.

  (* ---- the deposit, summed over the lattice -------------------------------------------------------------- *)
  Definition landed (n : Z * Z * Z) (vol : K) (d : dep) : K :=
    sum (map (fun o => if inside n (add3 (dc d) o) then tempn vol d o else 0) (stencil (dm d))).

  Lemma gsum_ext n (f g : zgrid) : (forall q, f q = g q) -> gsum n f = gsum n g.
  Proof. intros H. unfold Smear.gsum. apply sum_ext. intros; apply H. Qed.

  Lemma gsum_contrib n vol d : gsum n (contrib n vol d) = landed n vol d.
  Proof.
    unfold Smear.gsum, contrib, landed.
    rewrite (sum_swap (fun q o => ind n vol d q o)).
    apply sum_ext. intros o _. unfold ind.
    destruct (inside n (add3 (dc d) o)) eqn:E; simpl.
    - rewrite ind_cells, E. reflexivity.
    - apply sum_zero.
  Qed.

  Lemma gsum_deposit_all n vol (g : zgrid) ds :
    gsum n (deposit_all n vol g ds) = gsum n g + sum (map (landed n vol) ds).
  Proof.
    rewrite (gsum_ext n _ (fun q => g q + sum (map (fun d => contrib n vol d q) ds)))
      by (intros; apply deposit_all_point).
    unfold Smear.gsum. rewrite sum_add. f_equal.
    rewrite (sum_swap (fun q d => contrib n vol d q)).
    apply sum_ext. intros d _. apply gsum_contrib.
  Qed.

  (* ---- one particle: kernel values, normalisation ---------------------------------------------------------- *)
  Definition kv (d : dep) (o : Z * Z * Z) : K := match dk d o with Some s => s | None => 0 end.
  Definition finite_kernel (d : dep) : Prop := forall o, In o (stencil (dm d)) -> dk d o <> None.
  Definition ksum_all (d : dep) : K := sum (map (kv d) (stencil (dm d))).
  Definition support_inside (n : Z * Z * Z) (d : dep) : Prop :=
    forall o, In o (stencil (dm d)) -> inside n (add3 (dc d) o) = true.

  Lemma osum_finite (f : Z * Z * Z -> option K) l : (forall o, In o l -> f o <> None) ->
    osum K k0 kadd (map f l) = Some (sum (map (fun o => match f o with Some s => s | None => 0 end) l)).
  Proof.
    induction l as [|o t IH]; intros H; [reflexivity|]. simpl.
    destruct (f o) eqn:E; [|exfalso; apply (H o); [now left | assumption]].
    rewrite IH; [reflexivity|]. intros o' Ho'. apply H. now right.
  Qed.

  Lemma knorm_finite d : finite_kernel d -> knorm d = Some (ksum_all d).
  Proof. intros H. unfold Smear.knorm, ksum_all. now apply osum_finite. Qed.

  Lemma tempn_formula vol d o : finite_kernel d -> norm_ok (ksum_all d) = true -> vol <> 0 ->
    In o (stencil (dm d)) -> tempn vol d o = (dv d / (vol * ksum_all d)) * kv d o.
  Proof.
    intros Hf Hn Hv Ho. unfold Smear.tempn, Smear.tempn_with. rewrite (knorm_finite d Hf), Hn.
    unfold Smear.temp, kv, gen_normalise, gen_value_to_add.
    pose proof (norm_ok_nz _ Hn) as Nz.
    destruct (dk d o) eqn:E; [|exfalso; now apply (Hf o Ho)].
    field. split; assumption.
  Qed.

  (* conservation: the whole support inside, finite kernel, the guard lets the normalisation happen *)
  Lemma landed_inside n vol d : finite_kernel d -> norm_ok (ksum_all d) = true -> vol <> 0 ->
    support_inside n d -> vol * landed n vol d = dv d.
  Proof.
    intros Hf Hn Hv Hs. unfold landed.
    rewrite (sum_ext _ (fun o => (dv d / (vol * ksum_all d)) * kv d o)).
    - rewrite sum_scal. fold (ksum_all d). pose proof (norm_ok_nz _ Hn) as Nz. field. split; assumption.
    - intros o Ho. rewrite (Hs o Ho). now apply tempn_formula.
  Qed.

  Definition good (n : Z * Z * Z) (d : dep) : Prop :=
    finite_kernel d /\ norm_ok (ksum_all d) = true /\ support_inside n d.

  Theorem conserve_list n vol (g : zgrid) ds : vol <> 0 -> Forall (good n) ds ->
    vol * gsum n (deposit_all n vol g ds) = vol * gsum n g + sum (map (dv (K:=K)) ds).
  Proof.
    intros Hv Hg. rewrite gsum_deposit_all.
    assert (E : vol * sum (map (landed n vol) ds) = sum (map (dv (K:=K)) ds)).
    { rewrite <- sum_scal. induction Hg as [|d t (Hf & Hn & Hs) Ht IH]; [reflexivity|].
      simpl. rewrite IH. now rewrite landed_inside. }
    rewrite <- E. ring.
  Qed.

  Theorem conserve_one n vol (g : zgrid) d : vol <> 0 -> good n d ->
    vol * gsum n (deposit_one n vol g d) = vol * gsum n g + dv d.
  Proof.
    intros Hv Hg. pose proof (conserve_list n vol g [d] Hv (Forall_cons _ Hg (Forall_nil _))) as H.
    simpl in H. rewrite H. ring.
  Qed.

  (* what lands when the support is clipped: v * (kernel sum over the nodes inside) / (kernel sum over all) *)
  Definition ksum_in (n : Z * Z * Z) (d : dep) : K :=
    sum (map (fun o => if inside n (add3 (dc d) o) then kv d o else 0) (stencil (dm d))).
  Definition ksum_out (n : Z * Z * Z) (d : dep) : K :=
    sum (map (fun o => if inside n (add3 (dc d) o) then 0 else kv d o) (stencil (dm d))).

  Lemma ksum_split n d : ksum_all d = ksum_in n d + ksum_out n d.
  Proof.
    unfold ksum_all, ksum_in, ksum_out. rewrite <- sum_add. apply sum_ext. intros o _.
    destruct (inside n (add3 (dc d) o)); ring.
  Qed.

  Lemma landed_clipped n vol d : finite_kernel d -> norm_ok (ksum_all d) = true -> vol <> 0 ->
    vol * landed n vol d = dv d * ksum_in n d / ksum_all d.
  Proof.
    intros Hf Hn Hv. unfold landed.
    rewrite (sum_ext _ (fun o => (dv d / (vol * ksum_all d)) * (if inside n (add3 (dc d) o) then kv d o else 0))).
    - rewrite sum_scal. fold (ksum_in n d). pose proof (norm_ok_nz _ Hn) as Nz. field. split; assumption.
    - intros o Ho. destruct (inside n (add3 (dc d) o)); [now apply tempn_formula | ring].
  Qed.

  Lemma clipped_deficit n vol d : finite_kernel d -> norm_ok (ksum_all d) = true -> vol <> 0 ->
    dv d - vol * landed n vol d = dv d * ksum_out n d * kinv (ksum_all d).
  Proof.
    intros Hf Hn Hv. rewrite landed_clipped by assumption. pose proof (norm_ok_nz _ Hn) as Nz.
    rewrite (ksum_split n d) in *. field. assumption.
  Qed.

  (* ---- order: the clipped deposit never exceeds the quantity ------------------------------------------------ *)
  Section Order.
    Variable kle : K -> K -> Prop.
    Infix "<=" := kle.
    Hypothesis kle_refl : forall a, a <= a.
    Hypothesis kle_trans : forall a b c, a <= b -> b <= c -> a <= c.
    Hypothesis kle_add : forall a b c, a <= b -> a + c <= b + c.
    Hypothesis kle_mul : forall a b, 0 <= a -> 0 <= b -> 0 <= a * b.
    Hypothesis kle_inv : forall a, 0 <= a -> a <> 0 -> 0 <= kinv a.

    Lemma sum_nonneg {A} (f : A -> K) l : (forall x, In x l -> 0 <= f x) -> 0 <= sum (map f l).
    Proof.
      induction l as [|x t IH]; intros H; simpl; [apply kle_refl|].
      apply kle_trans with (0 + sum (map f t)).
      - replace (0 + sum (map f t)) with (sum (map f t)) by ring. apply IH. intros y Hy. apply H. now right.
      - apply kle_add. apply H. now left.
    Qed.

    Definition nonneg_kernel (d : dep) : Prop := forall o, In o (stencil (dm d)) -> 0 <= kv d o.

    Lemma landed_le n vol d : finite_kernel d -> norm_ok (ksum_all d) = true -> vol <> 0 ->
      nonneg_kernel d -> 0 <= dv d -> vol * landed n vol d <= dv d.
    Proof.
      intros Hf Hn Hv Hk Hq.
      assert (D : 0 <= dv d - vol * landed n vol d).
      { rewrite clipped_deficit by assumption. apply kle_mul; [apply kle_mul|].
        - assumption.
        - apply sum_nonneg. intros o Ho. destruct (inside n (add3 (dc d) o)); [apply kle_refl | now apply Hk].
        - apply kle_inv; [|now apply norm_ok_nz]. unfold ksum_all. apply sum_nonneg. exact Hk. }
      apply (kle_add _ _ (vol * landed n vol d)) in D.
      replace (0 + vol * landed n vol d) with (vol * landed n vol d) in D by ring.
      replace (dv d - vol * landed n vol d + vol * landed n vol d) with (dv d) in D by ring.
      exact D.
    Qed.

    Definition clip_ok (d : dep) : Prop :=
      finite_kernel d /\ norm_ok (ksum_all d) = true /\ nonneg_kernel d /\ 0 <= dv d.

    Theorem clip_list n vol (g : zgrid) ds : vol <> 0 -> Forall clip_ok ds ->
      vol * (gsum n (deposit_all n vol g ds) - gsum n g) <= sum (map (dv (K:=K)) ds).
    Proof.
      intros Hv Hc. rewrite gsum_deposit_all.
      replace (vol * (gsum n g + sum (map (landed n vol) ds) - gsum n g)) with (sum (map (fun d => vol * landed n vol d) ds))
        by (rewrite sum_scal; ring).
      induction Hc as [|d t (Hf & Hn & Hk & Hq) Ht IH]; simpl; [apply kle_refl|].
      apply kle_trans with (dv d + sum (map (fun d => vol * landed n vol d) t)).
      - apply kle_add. now apply landed_le.
      - replace (dv d + sum (map (fun d0 => vol * landed n vol d0) t)) with (sum (map (fun d0 => vol * landed n vol d0) t) + dv d) by ring.
        replace (dv d + sum (map (dv (K:=K)) t)) with (sum (map (dv (K:=K)) t) + dv d) by ring.
        now apply kle_add.
    Qed.

    Theorem clip_one n vol (g : zgrid) d : vol <> 0 -> clip_ok d ->
      vol * (gsum n (deposit_one n vol g d) - gsum n g) <= dv d.
    Proof.
      intros Hv Hc. pose proof (clip_list n vol g [d] Hv (Forall_cons _ Hc (Forall_nil _))) as H.
      simpl in H. replace (dv d + 0) with (dv d) in H by ring. exact H.
    Qed.
  End Order.

  (* ---- the public method ------------------------------------------------------------------------------------ *)
  Notation add_particle_data := (add_particle_data K k0 k1 kadd kmul kdiv norm_ok).
  Notation prep := (prep K k1).
  Notation slat := (slat K).

  Lemma mapM_perm {A B} (f : A -> result B) l l' : Permutation l l' ->
    forall r, mapM f l = Ok r -> exists r', mapM f l' = Ok r' /\ Permutation r r'.
  Proof.
    induction 1 as [|x l l' P IH|x y l|l l' l'' P1 IH1 P2 IH2]; intros r Hr.
    - exists r. split; [assumption | apply Permutation_refl].
    - simpl in *. destruct (f x) as [b|e]; [|discriminate]. simpl in *.
      destruct (mapM f l) as [bs|e] eqn:E; [|discriminate]. simpl in Hr. injection Hr as <-.
      destruct (IH bs eq_refl) as (bs' & E' & P'). rewrite E'. simpl. exists (b :: bs'). split; [reflexivity | now constructor].
    - simpl in *. destruct (f y) as [b|e]; [|discriminate]. simpl in *.
      destruct (f x) as [c|e]; [|discriminate]. simpl in *.
      destruct (mapM f l) as [bs|e]; [|discriminate]. simpl in *. injection Hr as <-.
      exists (c :: b :: bs). split; [reflexivity | apply perm_swap].
    - destruct (IH1 r Hr) as (r1 & E1 & Q1). destruct (IH2 r1 E1) as (r2 & E2 & Q2).
      exists r2. split; [assumption | eapply Permutation_trans; eassumption].
  Qed.

  Theorem apd_spec (L : slat) nsig ps sigma quantity kern add L' :
    add_particle_data L nsig ps sigma quantity kern add = Ok L' ->
    exists ds, mapM (prep (sax L) (say L) (saz L) nsig sigma quantity kern) ps = Ok ds
      /\ sgrid L' = deposit_all (sdims L) (svol L) (if add then sgrid L else fun _ => 0) ds
      /\ sax L' = sax L /\ say L' = say L /\ saz L' = saz L /\ svol L' = svol L.
  Proof.
    unfold Smear.add_particle_data. destruct (mapM _ ps) as [ds|e]; [|discriminate].
    simpl. intros [= <-]. exists ds. repeat split.
  Qed.

  (* add=False is the same as add=True on an emptied lattice; add=True adds to what is there, point-wise *)
  Theorem apd_add_flag (L : slat) nsig ps sigma quantity kern :
    add_particle_data L nsig ps sigma quantity kern false
    = add_particle_data {| sax := sax L; say := say L; saz := saz L; svol := svol L; sgrid := fun _ => 0 |}
                        nsig ps sigma quantity kern true.
  Proof. reflexivity. Qed.

  Theorem apd_accumulates (L : slat) nsig ps sigma quantity kern La Lf :
    add_particle_data L nsig ps sigma quantity kern true = Ok La ->
    add_particle_data L nsig ps sigma quantity kern false = Ok Lf ->
    forall q, sgrid La q = sgrid L q + sgrid Lf q.
  Proof.
    intros Ha Hf q. apply apd_spec in Ha, Hf.
    destruct Ha as (ds & Ea & Ga & _). destruct Hf as (ds' & Ef & Gf & _).
    rewrite Ea in Ef. injection Ef as <-. rewrite Ga, Gf. apply deposit_accumulates.
  Qed.

  Theorem apd_order (L : slat) nsig ps ps' sigma quantity kern add L1 : Permutation ps ps' ->
    add_particle_data L nsig ps sigma quantity kern add = Ok L1 ->
    exists L2, add_particle_data L nsig ps' sigma quantity kern add = Ok L2 /\ forall q, sgrid L1 q = sgrid L2 q.
  Proof.
    intros P H1. apply apd_spec in H1. destruct H1 as (ds & E & G & _).
    destruct (mapM_perm _ _ _ P ds E) as (ds' & E' & Pd).
    unfold Smear.add_particle_data. rewrite E'. simpl. eexists. split; [reflexivity|].
    intros q. simpl. rewrite G. now apply deposit_perm.
  Qed.

  Theorem apd_conserves (L : slat) nsig ps sigma quantity kern add L' ds :
    add_particle_data L nsig ps sigma quantity kern add = Ok L' ->
    mapM (prep (sax L) (say L) (saz L) nsig sigma quantity kern) ps = Ok ds ->
    svol L <> 0 -> Forall (good (sdims L)) ds ->
    svol L * gsum (sdims L) (sgrid L')
    = svol L * gsum (sdims L) (if add then sgrid L else fun _ => 0) + sum (map (dv (K:=K)) ds).
  Proof.
    intros H E Hv Hg. apply apd_spec in H. destruct H as (ds0 & E0 & G & _).
    rewrite E in E0. injection E0 as <-. rewrite G. now apply conserve_list.
  Qed.
End Algebra.

(* the guard read from the source implies that the divisor is not zero *)
Lemma gen_norm_ok_nz (q : Q) : gen_norm_ok q = true -> ~ (q == 0)%Q.
Proof.
  unfold gen_norm_ok. intros H E. rewrite E in H. vm_compute in H. discriminate.
Qed.

(* the quantity each keyword smears: energy, unit (number), charge, baryon number, strangeness *)
Lemma quantity_table_spec :
  gen_quantity_table = [("energy_density", QAttr "E"); ("number_density", QOne); ("charge_density", QAttr "charge");
                        ("baryon_density", QAttr "baryon_number"); ("strangeness_density", QAttr "strangeness")]%string
  /\ gen_quantity_unknown = ValueError.
Proof. split; reflexivity. Qed.

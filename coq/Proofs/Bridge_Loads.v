(* Shared by Proofs/C05_Bridge.v and Proofs/C04_Bridge.v: what the loader models Model/Oscar.v [load] and
   Model/Jetscape.v [jload] return on the rendering of a well-formed document for EVERY selector in range
   (no selector, events=k, events=(a,b)), without and with a constructor filter (any function of one event).
   Built on the read-loop lemmas of Proofs/C01_*.v and C02_*.v (rl_events_f, jload_range_filtered ...); the read loop
   itself is not proved again.  New here: the unrestricted load with a filter, Oscar events=k with a filter. *)
From Coq Require Import List String ZArith QArith Bool Arith Lia.
From SX Require Import Lib.Strs Gen.GenParticleMap Model.Oscar Model.OscarDoc Model.Jetscape Model.JetscapeDoc
  Proofs.C01_Oscar Proofs.C01_Jetscape Proofs.C02_Oscar Proofs.C02_Filter Proofs.C02_Jetscape Proofs.C02_JetscapeSel.
Import ListNotations.
Local Open Scope string_scope.

(* a selector in range of a file of N events: position of the first selected event and number of selected events *)
Definition sel_span (sel : selector) (N : nat) : option (nat * nat) :=
  match sel with
  | SelAll => Some (0, N)%nat
  | SelOne k => if ((0 <=? k) && (k <? Z.of_nat N))%Z then Some (Z.to_nat k, 1%nat) else None
  | SelRange a b => if ((0 <=? a) && (a <=? b) && (b <? Z.of_nat N))%Z
                    then Some (Z.to_nat a, Z.to_nat (b - a + 1)) else None
  end.

Lemma sel_span_bounds sel N a n : sel_span sel N = Some (a, n) -> (a + n <= N)%nat /\ sel_first sel = Z.of_nat a.
Proof.
  destruct sel as [|k|x y]; cbn [sel_span sel_first].
  - intros H; inversion H; subst. split; [lia|reflexivity].
  - destruct ((0 <=? k) && (k <? Z.of_nat N))%Z eqn:E; [|discriminate]. intros H; inversion H; subst.
    apply andb_true_iff in E. destruct E as [E1 E2]. apply Z.leb_le in E1. apply Z.ltb_lt in E2. split; lia.
  - destruct ((0 <=? x) && (x <=? y) && (y <? Z.of_nat N))%Z eqn:E; [|discriminate]. intros H; inversion H; subst.
    apply andb_true_iff in E. destruct E as [E E3]. apply andb_true_iff in E. destruct E as [E1 E2].
    apply Z.leb_le in E1. apply Z.leb_le in E2. apply Z.ltb_lt in E3. split; lia.
Qed.

(* the same as a proposition: no selector, events=k with 0 <= k < N, events=(a,b) with 0 <= a <= b < N *)
Definition sel_in_range (sel : selector) (N : nat) : Prop :=
  match sel with
  | SelAll => True
  | SelOne k => (0 <= k < Z.of_nat N)%Z
  | SelRange a b => (0 <= a <= b)%Z /\ (b < Z.of_nat N)%Z
  end.

Lemma sel_in_range_span sel N : sel_in_range sel N -> exists a n, sel_span sel N = Some (a, n).
Proof.
  destruct sel as [|k|x y]; cbn [sel_in_range sel_span]; intros H.
  - eexists _, _; reflexivity.
  - replace ((0 <=? k) && (k <? Z.of_nat N))%Z with true; [eexists _, _; reflexivity|].
    symmetry. apply andb_true_iff. split; [apply Z.leb_le|apply Z.ltb_lt]; lia.
  - replace ((0 <=? x) && (x <=? y) && (y <? Z.of_nat N))%Z with true; [eexists _, _; reflexivity|].
    symmetry. apply andb_true_iff. split; [apply andb_true_iff; split; apply Z.leb_le|apply Z.ltb_lt]; lia.
Qed.

(* a valid selector that reaches past the last of N events *)
Definition sel_past_end (sel : selector) (N : nat) : Prop :=
  match sel with
  | SelAll => False
  | SelOne k => (Z.of_nat N <= k)%Z
  | SelRange a b => (0 <= a <= b)%Z /\ (Z.of_nat N <= b)%Z
  end.

(* count rows labelled consecutively from o: the two columns *)
Lemma relab_snd : forall l o, map snd (relab o l) = map Z.of_nat l.
Proof. induction l as [|x t IH]; intros o; cbn [relab map snd]; [reflexivity|]. f_equal. apply IH. Qed.
Lemma relab_fst_seq : forall l o, map fst (relab o l) = map (fun i => (o + Z.of_nat i)%Z) (seq 0 (List.length l)).
Proof.
  induction l as [|x t IH]; intros o; cbn [relab map fst List.length seq]; [reflexivity|].
  f_equal; [lia|]. rewrite IH, <- seq_shift, map_map. apply map_ext. intros i. lia.
Qed.

(* what survives of a list of events under a constructor filter *)
Lemma kept_ncut f : forall evs, (Z.of_nat (List.length (kept f evs)) = Z.of_nat (List.length evs) - ncut f evs)%Z.
Proof.
  induction evs as [|ev t IH]; [reflexivity|]. cbn [kept ncut]. destruct (keeps f ev); cbn [List.length]; lia.
Qed.

Lemma kept_length_le f : forall evs, (List.length (kept f evs) <= List.length evs)%nat.
Proof.
  induction evs as [|ev t IH]; cbn [kept List.length]; [lia|]. destruct (keeps f ev); cbn [List.length]; lia.
Qed.

Section O.
  Variable tok_float : string -> option Q.
  Variable tok_int : string -> option Q.
  Variable pdg_valid : Q -> bool.
  Notation WF := (wf tok_float tok_int pdg_valid).
  Notation LOAD := (load tok_float tok_int pdg_valid).
  Notation parse_rows := (parse_rows tok_float tok_int pdg_valid).
  Notation SLICED := (sliced tok_float tok_int pdg_valid).
  Notation FILTERED := (filtered tok_float tok_int pdg_valid).

  (* events=k is events=(k,k) for any file and any constructor filter *)
  Lemma load_single_is_range_flt flt file k : (0 <= k)%Z ->
    LOAD flt file (SelOne k) = LOAD flt file (SelRange k k).
  Proof.
    intros Hk. unfold load. destruct file as [|first rest]; [reflexivity|].
    destruct (oscar_format first) as [fa|]; [|reflexivity]. cbn [bind].
    destruct (if _ : bool then Err OtherError else Ok tt) as [u|]; [|reflexivity]. cbn [bind].
    destruct (num_events_of tok_int (last (first :: rest) [])) as [nev|]; [|reflexivity]. cbn [bind].
    destruct (scan tok_int (first :: rest)) as [sc|]; [|reflexivity]. cbn [bind].
    change (num_skip (SelOne k) (fst sc)) with (num_skip (SelRange k k) (fst sc)).
    rewrite (num_read_one k (fst sc) Hk).
    cbn [sel_first sel_counts]. replace (Z.to_nat (k - k + 1)) with 1%nat by lia. reflexivity.
  Qed.

  (* the unrestricted load with a constructor filter *)
  Theorem load_all_filtered f d fmt attrs :
    WF d fmt attrs ->
    LOAD (Some f) (render d) SelAll = Ok (FILTERED f d fmt attrs 0 (List.length (d_events d))).
  Proof.
    intros (Hfmt & Hstd & Hs1 & Hs2 & Hs3 & Hne & Hev & Hlast).
    unfold load, render. rewrite Hfmt. cbn [bind fst snd].
    assert (Hstd' : ((fmt =? "Oscar2013Extended_IC") || (fmt =? "Oscar2013Extended_Photons")) = false).
    { destruct Hstd as [->|[->| ->]]; reflexivity. }
    rewrite Hstd'. cbn [bind].
    change (d_h1 d :: d_h2 d :: d_h3 d :: render_events (d_events d))
      with ([d_h1 d; d_h2 d] ++ (d_h3 d :: render_events (d_events d)))%list.
    assert (Hl : last ([d_h1 d; d_h2 d] ++ d_h3 d :: render_events (d_events d))%list []
                 = e_foot (last (d_events d) {| e_head := []; e_rows := []; e_foot := [] |})).
    { cbn [app]. rewrite <- (last_render_events (d_events d) _ (d_h3 d) Hne).
      destruct (render_events (d_events d)); reflexivity. }
    rewrite Hl. destruct Hlast as (H0 & Hlen & Hmem & lt & Hlt & Hti).
    unfold num_events_of. rewrite H0, Hmem.
    replace (2 <=? List.length (e_foot (last (d_events d) {| e_head := []; e_rows := []; e_foot := [] |})))%nat
      with true by (symmetry; apply Nat.leb_le; exact Hlen).
    rewrite String.eqb_refl. cbn [andb]. rewrite Hlt, Hti. cbn [bind]. rewrite to_Z_zq.
    cbn [app scan]. rewrite Hs1, Hs2, Hs3.
    rewrite (scan_events tok_float tok_int pdg_valid fmt attrs (d_events d) 0 Hev).
    cbn [bind fst snd num_skip num_read sel_first sel_counts].
    destruct (counts_from 0 (d_events d)) eqn:Ec.
    { destruct (d_events d); [congruence|discriminate]. }
    rewrite <- Ec. cbn [bind]. rewrite read_all_lines. rewrite Nat2Z.id.
    change (Z.to_nat 3) with 3%nat. cbn [skipn].
    assert (Hfirst : (match render_events (d_events d), List.length (render_events (d_events d)) with
                      | l0 :: _, S _ => if negb (has "#" l0) && negb (has "out" l0) then Err ValueError else Ok tt
                      | _, _ => Ok tt end) = Ok tt).
    { destruct (d_events d) as [|e0 evs]; [congruence|].
      destruct Hev as ((Hk & _) & _). unfold kind_scan in Hk.
      unfold render_events. cbn [flat_map]. unfold render_event at 1 2. cbn [app List.length].
      destruct (has "#" (e_head e0)); [reflexivity|]. cbn in Hk. discriminate. }
    rewrite Hfirst. cbn [bind].
    rewrite (relab_counts_from (d_events d) 0). cbn [Z.of_nat].
    pose proof (rl_events_f tok_float tok_int pdg_valid f 0%Z fmt attrs (d_events d) 0 0 [] [] 0%Z [] Hev) as Hrl.
    cbn [map app] in Hrl. rewrite Nat.add_0_r, ?app_nil_r in Hrl. rewrite Hrl.
    cbn [read_loop bind plist cut counts app fst snd].
    set (K := kept f (map (fun e => parse_rows fmt attrs (e_rows e)) (d_events d))).
    pose proof (kept_ncut f (map (fun e => parse_rows fmt attrs (e_rows e)) (d_events d))) as Hk.
    fold K in Hk. rewrite map_length in Hk.
    replace (Z.of_nat (List.length (d_events d)) - 1 + 1 - (0 + ncut f (map (fun e => parse_rows fmt attrs (e_rows e)) (d_events d))))%Z
      with (Z.of_nat (List.length K)) by lia.
    rewrite Z.eqb_refl. cbn [bind fst snd].
    unfold filtered. cbn [skipn]. rewrite firstn_all. fold K. cbn [Z.of_nat].
    destruct K; reflexivity.
  Qed.

  (* every selector in range, without a filter: the slice a .. a+n-1 of the file *)
  Theorem load_sel_none d fmt attrs sel a n :
    WF d fmt attrs -> sel_span sel (List.length (d_events d)) = Some (a, n) ->
    LOAD None (render d) sel = Ok (SLICED d fmt attrs a n).
  Proof.
    intros Hwf Hs. destruct sel as [|k|x y]; cbn [sel_span] in Hs.
    - inversion Hs; subst. rewrite (load_render tok_float tok_int pdg_valid d fmt attrs Hwf).
      unfold expected, sliced. cbv zeta. cbn [skipn]. rewrite firstn_all.
      replace (firstn (List.length (d_events d)) (counts_from 0 (d_events d))) with (counts_from 0 (d_events d));
        [reflexivity|]. rewrite <- (counts_len 0 (d_events d)). symmetry. apply firstn_all.
    - destruct ((0 <=? k) && (k <? Z.of_nat (List.length (d_events d))))%Z eqn:E; [|discriminate].
      inversion Hs; subst. apply andb_true_iff in E. destruct E as [E1 E2]. apply Z.leb_le in E1. apply Z.ltb_lt in E2.
      rewrite <- (Z2Nat.id k) at 1 by exact E1.
      apply (load_single tok_float tok_int pdg_valid d fmt attrs (Z.to_nat k) Hwf). lia.
    - destruct ((0 <=? x) && (x <=? y) && (y <? Z.of_nat (List.length (d_events d))))%Z eqn:E; [|discriminate].
      inversion Hs; subst. apply andb_true_iff in E. destruct E as [E E3]. apply andb_true_iff in E. destruct E as [E1 E2].
      apply Z.leb_le in E1. apply Z.leb_le in E2. apply Z.ltb_lt in E3.
      rewrite <- (Z2Nat.id x) at 1 by exact E1. rewrite <- (Z2Nat.id y) at 1 by lia.
      rewrite (load_range tok_float tok_int pdg_valid d fmt attrs (Z.to_nat x) (Z.to_nat y) Hwf) by lia.
      do 3 f_equal. lia.
  Qed.

  (* every selector in range, with a constructor filter *)
  Theorem load_sel_some f d fmt attrs sel a n :
    WF d fmt attrs -> sel_span sel (List.length (d_events d)) = Some (a, n) ->
    LOAD (Some f) (render d) sel = Ok (FILTERED f d fmt attrs a n).
  Proof.
    intros Hwf Hs. destruct sel as [|k|x y]; cbn [sel_span] in Hs.
    - inversion Hs; subst. apply load_all_filtered, Hwf.
    - destruct ((0 <=? k) && (k <? Z.of_nat (List.length (d_events d))))%Z eqn:E; [|discriminate].
      inversion Hs; subst. apply andb_true_iff in E. destruct E as [E1 E2]. apply Z.leb_le in E1. apply Z.ltb_lt in E2.
      rewrite load_single_is_range_flt by exact E1.
      rewrite <- (Z2Nat.id k) at 1 2 by exact E1.
      rewrite (load_range_filtered tok_float tok_int pdg_valid f d fmt attrs (Z.to_nat k) (Z.to_nat k) Hwf) by lia.
      do 3 f_equal. lia.
    - destruct ((0 <=? x) && (x <=? y) && (y <? Z.of_nat (List.length (d_events d))))%Z eqn:E; [|discriminate].
      inversion Hs; subst. apply andb_true_iff in E. destruct E as [E E3]. apply andb_true_iff in E. destruct E as [E1 E2].
      apply Z.leb_le in E1. apply Z.leb_le in E2. apply Z.ltb_lt in E3.
      rewrite <- (Z2Nat.id x) at 1 by exact E1. rewrite <- (Z2Nat.id y) at 1 by lia.
      rewrite (load_range_filtered tok_float tok_int pdg_valid f d fmt attrs (Z.to_nat x) (Z.to_nat y) Hwf) by lia.
      do 3 f_equal. lia.
  Qed.

  (* a selection reaching past the last event is rejected with IndexError, with or without a constructor filter
     (the read loop is never entered) *)
  Theorem load_range_oob_flt flt d fmt attrs (a b : nat) :
    WF d fmt attrs -> (a <= b)%nat -> (List.length (d_events d) <= b)%nat ->
    LOAD flt (render d) (SelRange (Z.of_nat a) (Z.of_nat b)) = Err IndexError.
  Proof.
    intros Hwf Hab Hb. pose proof Hwf as (Hfmt & Hstd & Hs1 & Hs2 & Hs3 & Hne & Hev & Hlast).
    set (evs := d_events d) in *.
    unfold load, render. fold evs. rewrite Hfmt. cbn [bind fst snd].
    assert (Hstd' : ((fmt =? "Oscar2013Extended_IC") || (fmt =? "Oscar2013Extended_Photons")) = false).
    { destruct Hstd as [->|[->| ->]]; reflexivity. }
    rewrite Hstd'. cbn [bind].
    change (d_h1 d :: d_h2 d :: d_h3 d :: render_events evs)
      with ([d_h1 d; d_h2 d] ++ (d_h3 d :: render_events evs))%list.
    assert (Hl : last ([d_h1 d; d_h2 d] ++ d_h3 d :: render_events evs)%list []
                 = e_foot (last evs {| e_head := []; e_rows := []; e_foot := [] |})).
    { cbn [app]. rewrite <- (last_render_events evs _ (d_h3 d) Hne). destruct (render_events evs); reflexivity. }
    rewrite Hl. destruct Hlast as (H0 & Hlen & Hmem & lt & Hlt & Hti).
    unfold num_events_of. fold evs. rewrite H0, Hmem.
    replace (2 <=? List.length (e_foot (last evs {| e_head := []; e_rows := []; e_foot := [] |})))%nat
      with true by (symmetry; apply Nat.leb_le; exact Hlen).
    rewrite String.eqb_refl. cbn [andb]. rewrite Hlt, Hti. cbn [bind].
    cbn [app scan]. rewrite Hs1, Hs2, Hs3.
    rewrite (scan_events tok_float tok_int pdg_valid fmt attrs evs 0 Hev). cbn [bind fst snd num_skip num_read].
    rewrite !Nat2Z.id.
    destruct (Nat.le_gt_cases a (List.length evs)) as [Ha|Ha].
    - rewrite (sum_counts_ok a evs 0 0) by lia. cbn [bind].
      replace (Z.to_nat (Z.of_nat b - Z.of_nat a + 1)) with (b - a + 1)%nat by lia.
      rewrite (sum_counts_oob (b - a + 1) evs 0 a) by lia. reflexivity.
    - rewrite (sum_counts_oob a evs 0 0) by lia. reflexivity.
  Qed.

  Corollary load_past_end flt d fmt attrs sel :
    WF d fmt attrs -> sel_past_end sel (List.length (d_events d)) -> LOAD flt (render d) sel = Err IndexError.
  Proof.
    intros Hwf Hp. destruct sel as [|k|x y]; cbn [sel_past_end] in Hp; [contradiction| |].
    - rewrite load_single_is_range_flt by lia. rewrite <- (Z2Nat.id k) by lia.
      apply (load_range_oob_flt flt d fmt attrs (Z.to_nat k) (Z.to_nat k) Hwf); lia.
    - destruct Hp as (Hxy & Hy). rewrite <- (Z2Nat.id x) by lia. rewrite <- (Z2Nat.id y) by lia.
      apply (load_range_oob_flt flt d fmt attrs (Z.to_nat x) (Z.to_nat y) Hwf); lia.
  Qed.

  (* the load without a filter exists for every selector in range *)
  Corollary load_selected d fmt attrs sel :
    WF d fmt attrs -> sel_in_range sel (List.length (d_events d)) ->
    exists a n, sel_span sel (List.length (d_events d)) = Some (a, n) /\
      LOAD None (render d) sel = Ok (SLICED d fmt attrs a n).
  Proof.
    intros Hwf Hr. destruct (sel_in_range_span _ _ Hr) as (a & n & Hs). exists a, n. split; [exact Hs|].
    apply load_sel_none; assumption.
  Qed.
End O.

(* ---------------------------------------------------------------------------------------------- JETSCAPE *)
Lemma set_row_length {A} : forall (l : list A) i v r, set_row i v l = Ok r -> List.length r = List.length l.
Proof.
  induction l as [|x t IH]; intros i v r H; destruct i as [|i]; cbn [set_row] in H; try discriminate.
  - inversion H; reflexivity.
  - destruct (set_row i v t) as [r'|] eqn:E; cbn [bind] in H; [|discriminate]. inversion H; subst.
    cbn [List.length]. f_equal. apply (IH i v r' E).
Qed.
Lemma delete_row_length {A} : forall (l : list A) i, (i < List.length l)%nat ->
  S (List.length (delete_row i l)) = List.length l.
Proof.
  induction l as [|x t IH]; intros i H; [cbn in H; lia|]. destruct i as [|i]; cbn [delete_row List.length]; [reflexivity|].
  f_equal. apply IH. cbn [List.length] in H. lia.
Qed.
Lemma dec_labels_length i l : List.length (dec_labels_from i l) = List.length l.
Proof. unfold dec_labels_from. rewrite app_length, map_length, <- app_length, firstn_skipn. reflexivity. Qed.

Section J.
  Variable tok_float : string -> option Q.
  Variable tok_int : string -> option Q.
  Variable pdg_valid : Q -> bool.
  Variable pdg_charge : Q -> Q.
  Variable usqrt : Q -> Q.
  Variable defstr : string.
  Notation JWF := (jwf tok_float tok_int pdg_valid pdg_charge usqrt defstr).
  Notation PARSE := (jparse_rows tok_float tok_int pdg_valid pdg_charge usqrt).
  Notation JREAD := (jread tok_float tok_int pdg_valid pdg_charge usqrt).
  Notation JLOAD := (jload tok_float tok_int pdg_valid pdg_charge usqrt).
  Notation JSLICED := (jsliced tok_float tok_int pdg_valid pdg_charge usqrt).
  Notation JFILTERED := (jfiltered tok_float tok_int pdg_valid pdg_charge usqrt).

  (* number of count rows + number of events dropped is constant along the read loop, for any file and filter *)
  Lemma jclose_len_cut flt first st st' : jclose flt first st = Ok st' ->
    (Z.of_nat (List.length (counts st')) + cut st' = Z.of_nat (List.length (counts st)) + cut st)%Z.
  Proof.
    unfold jclose. destruct flt as [f|].
    - destruct (negb (List.length (f (data st)) =? 0)%nat || (List.length (data st) =? 0)%nat).
      + destruct (set_row _ _ (counts st)) as [c'|] eqn:E; cbn [bind]; [|discriminate].
        intros H; inversion H; subst. cbn [counts cut]. rewrite (set_row_length _ _ _ _ E). reflexivity.
      + destruct (List.length (plist st) <? List.length (counts st))%nat eqn:E; cbn [bind]; [|discriminate].
        intros H; inversion H; subst. cbn [counts cut]. rewrite dec_labels_length.
        apply Nat.ltb_lt in E. pose proof (delete_row_length (counts st) _ E). lia.
    - cbn [bind]. destruct (data st) as [|p t]; cbn; intros H; inversion H; subst; reflexivity.
  Qed.

  Lemma jread_len_cut flt sel : forall n first ls st st',
    JREAD flt sel first n ls st = Ok st' ->
    (Z.of_nat (List.length (counts st')) + cut st' = Z.of_nat (List.length (counts st)) + cut st)%Z.
  Proof.
    induction n as [|n IH]; intros first ls st st' H; [inversion H; reflexivity|].
    cbn [jread] in H. destruct ls as [|l t]; [discriminate|].
    destruct (has "#" l && has "sigmaGen" l).
    - destruct (jclose flt (sel_first sel) st) as [s1|] eqn:E; cbn [bind] in H; [|discriminate].
      rewrite (IH _ _ _ _ H). apply (jclose_len_cut _ _ _ _ E).
    - destruct (first && negb (has "#" l) && negb (has "weight" l)); [discriminate|].
      destruct (has "Event" l && has "weight" l).
      + destruct (nth_error l 2) as [e|]; [|discriminate]. destruct (tok_int e) as [ev|]; [|discriminate].
        destruct (to_Z ev =? first_header sel)%Z; [apply (IH _ _ _ _ H)|].
        destruct (jclose flt (sel_first sel) st) as [s1|] eqn:E; cbn [bind] in H; [|discriminate].
        rewrite (IH _ _ _ _ H). cbn [counts cut]. apply (jclose_len_cut _ _ _ _ E).
      + destruct (mk_jet_particle tok_float tok_int pdg_valid pdg_charge usqrt l) as [p|]; cbn [bind] in H; [|discriminate].
        rewrite (IH _ _ _ _ H). reflexivity.
  Qed.

  (* the read loop does not distinguish "no selector" from events=(0,b) *)
  Lemma jread_all_range flt b : forall n first ls st,
    JREAD flt SelAll first n ls st = JREAD flt (SelRange 0 b) first n ls st.
  Proof.
    induction n as [|n IH]; intros first ls st; [reflexivity|].
    cbn [jread]. destruct ls as [|l t]; [reflexivity|].
    cbn [sel_first first_header]. change (1 + 0)%Z with 1%Z.
    destruct (has "#" l && has "sigmaGen" l).
    - destruct (jclose flt 0 st) as [st'|]; cbn [bind]; [apply IH|reflexivity].
    - destruct (first && negb (has "#" l) && negb (has "weight" l)); [reflexivity|].
      destruct (has "Event" l && has "weight" l).
      + destruct (nth_error l 2) as [e|]; [|reflexivity]. destruct (tok_int e) as [ev|]; [|reflexivity].
        destruct (to_Z ev =? 1)%Z; [apply IH|].
        destruct (jclose flt 0 st) as [st'|]; cbn [bind]; [apply IH|reflexivity].
      + destruct (mk_jet_particle tok_float tok_int pdg_valid pdg_charge usqrt l) as [p|]; cbn [bind]; [apply IH|reflexivity].
  Qed.

  (* the unrestricted load with a constructor filter: from the range theorem for events=(0,N-1) and the invariant *)
  Theorem jload_all_filtered f d s1 s2 :
    JWF d s1 s2 ->
    JLOAD (Some f) (jrender d) defstr SelAll = Ok (JFILTERED f d s1 s2 0 (List.length (jd_events d))).
  Proof.
    intros Hwf. pose proof Hwf as (_ & Hne & _).
    set (N := List.length (jd_events d)).
    assert (HN : (0 < N)%nat) by (unfold N; destruct (jd_events d); [congruence|cbn; lia]).
    pose proof (jload_range_filtered tok_float tok_int pdg_valid pdg_charge usqrt defstr f d s1 s2 0 (N - 1) Hwf
                  ltac:(lia) ltac:(fold N; lia)) as HR.
    replace (N - 1 - 0 + 1)%nat with N in HR by lia.
    rewrite (jload_prefix tok_float tok_int pdg_valid pdg_charge usqrt defstr (Some f) d s1 s2 _ Hwf) in HR.
    rewrite (jload_prefix tok_float tok_int pdg_valid pdg_charge usqrt defstr (Some f) d s1 s2 _ Hwf).
    cbv zeta in *. cbn [jnum_skip jnum_read sel_counts] in *.
    change (Z.of_nat 0) with 0%Z in HR. change (Z.to_nat 0) with 0%nat in HR. cbn [jsum bind] in HR.
    replace (Z.to_nat (Z.of_nat (N - 1) - 0 + 1)) with N in HR by lia.
    rewrite (jsum_ok N (jd_events d) 0 0) in HR by (fold N; lia).
    cbn [skipn bind] in HR.
    replace (firstn N (jd_events d)) with (jd_events d) in HR by (unfold N; symmetry; apply firstn_all).
    destruct (jcounts_from 0 (jd_events d)) eqn:Ec.
    { destruct (jd_events d); [congruence|discriminate]. }
    rewrite <- Ec in *. cbn [bind]. rewrite jread_all_lines.
    rewrite (jread_all_range (Some f) (Z.of_nat (N - 1))).
    assert (Hsl : slice 0 N (jcounts_from 0 (jd_events d)) = jcounts_from 0 (jd_events d)).
    { unfold slice. cbn [skipn]. unfold N. rewrite <- (jcounts_len 0 (jd_events d)). apply firstn_all. }
    rewrite Hsl in HR. change (1 + 0)%Z with 1%Z in HR.
    destruct (JREAD (Some f) (SelRange 0 (Z.of_nat (N - 1))) true _ _ _) as [st|] eqn:ER; cbn [bind] in *; [|discriminate HR].
    pose proof (jread_len_cut _ _ _ _ _ _ _ ER) as Hinv. cbn [counts cut] in Hinv.
    assert (Hn := f_equal (fun r => match r with Ok x => j_nevents x | Err _ => 0%Z end) HR).
    assert (Hc := f_equal (fun r => match r with Ok x => List.length (j_counts x) | Err _ => 0%nat end) HR).
    cbn [j_nevents j_counts fst snd] in Hn, Hc. unfold jfiltered in Hn, Hc. cbn [j_nevents j_counts] in Hn, Hc.
    rewrite relab_length, map_length in Hc. rewrite jcounts_len in *. fold N in Hinv |- *.
    replace (Z.of_nat N - cut st)%Z with (Z.of_nat (List.length (plist st))) by lia.
    rewrite Z.eqb_refl. exact HR.
  Qed.

  Theorem jload_sel_none d s1 s2 sel a n :
    JWF d s1 s2 -> sel_span sel (List.length (jd_events d)) = Some (a, n) ->
    JLOAD None (jrender d) defstr sel = Ok (JSLICED d s1 s2 a n).
  Proof.
    intros Hwf Hs. destruct sel as [|k|x y]; cbn [sel_span] in Hs.
    - inversion Hs; subst. rewrite (jload_render tok_float tok_int pdg_valid pdg_charge usqrt defstr d s1 s2 Hwf).
      unfold jexpected, jsliced. cbn [skipn]. rewrite firstn_all.
      replace (firstn (List.length (jd_events d)) (jcounts_from 0 (jd_events d))) with (jcounts_from 0 (jd_events d));
        [reflexivity|]. rewrite <- (jcounts_len 0 (jd_events d)). symmetry. apply firstn_all.
    - destruct ((0 <=? k) && (k <? Z.of_nat (List.length (jd_events d))))%Z eqn:E; [|discriminate].
      inversion Hs; subst. apply andb_true_iff in E. destruct E as [E1 E2]. apply Z.leb_le in E1. apply Z.ltb_lt in E2.
      rewrite <- (Z2Nat.id k) at 1 by exact E1.
      apply (jload_single tok_float tok_int pdg_valid pdg_charge usqrt defstr d s1 s2 (Z.to_nat k) Hwf). lia.
    - destruct ((0 <=? x) && (x <=? y) && (y <? Z.of_nat (List.length (jd_events d))))%Z eqn:E; [|discriminate].
      inversion Hs; subst. apply andb_true_iff in E. destruct E as [E E3]. apply andb_true_iff in E. destruct E as [E1 E2].
      apply Z.leb_le in E1. apply Z.leb_le in E2. apply Z.ltb_lt in E3.
      rewrite <- (Z2Nat.id x) at 1 by exact E1. rewrite <- (Z2Nat.id y) at 1 by lia.
      rewrite (jload_range tok_float tok_int pdg_valid pdg_charge usqrt defstr d s1 s2 (Z.to_nat x) (Z.to_nat y) Hwf) by lia.
      do 3 f_equal. lia.
  Qed.

  Theorem jload_sel_some f d s1 s2 sel a n :
    JWF d s1 s2 -> sel_span sel (List.length (jd_events d)) = Some (a, n) ->
    JLOAD (Some f) (jrender d) defstr sel = Ok (JFILTERED f d s1 s2 a n).
  Proof.
    intros Hwf Hs. destruct sel as [|k|x y]; cbn [sel_span] in Hs.
    - inversion Hs; subst. apply jload_all_filtered, Hwf.
    - destruct ((0 <=? k) && (k <? Z.of_nat (List.length (jd_events d))))%Z eqn:E; [|discriminate].
      inversion Hs; subst. apply andb_true_iff in E. destruct E as [E1 E2]. apply Z.leb_le in E1. apply Z.ltb_lt in E2.
      rewrite <- (Z2Nat.id k) at 1 by exact E1.
      apply (jload_single_filtered tok_float tok_int pdg_valid pdg_charge usqrt defstr f d s1 s2 (Z.to_nat k) Hwf). lia.
    - destruct ((0 <=? x) && (x <=? y) && (y <? Z.of_nat (List.length (jd_events d))))%Z eqn:E; [|discriminate].
      inversion Hs; subst. apply andb_true_iff in E. destruct E as [E E3]. apply andb_true_iff in E. destruct E as [E1 E2].
      apply Z.leb_le in E1. apply Z.leb_le in E2. apply Z.ltb_lt in E3.
      rewrite <- (Z2Nat.id x) at 1 by exact E1. rewrite <- (Z2Nat.id y) at 1 by lia.
      rewrite (jload_range_filtered tok_float tok_int pdg_valid pdg_charge usqrt defstr f d s1 s2 (Z.to_nat x) (Z.to_nat y) Hwf) by lia.
      do 3 f_equal. lia.
  Qed.

  Corollary jload_past_end flt d s1 s2 sel :
    JWF d s1 s2 -> sel_past_end sel (List.length (jd_events d)) -> JLOAD flt (jrender d) defstr sel = Err IndexError.
  Proof.
    intros Hwf Hp. destruct sel as [|k|x y]; cbn [sel_past_end] in Hp; [contradiction| |].
    - rewrite <- (Z2Nat.id k) by lia.
      apply (jload_single_oob tok_float tok_int pdg_valid pdg_charge usqrt defstr flt d s1 s2 (Z.to_nat k) Hwf). lia.
    - destruct Hp as (Hxy & Hy). rewrite <- (Z2Nat.id x) by lia. rewrite <- (Z2Nat.id y) by lia.
      apply (jload_range_oob tok_float tok_int pdg_valid pdg_charge usqrt defstr flt d s1 s2 (Z.to_nat x) (Z.to_nat y) Hwf); lia.
  Qed.

  Corollary jload_selected d s1 s2 sel :
    JWF d s1 s2 -> sel_in_range sel (List.length (jd_events d)) ->
    exists a n, sel_span sel (List.length (jd_events d)) = Some (a, n) /\
      JLOAD None (jrender d) defstr sel = Ok (JSLICED d s1 s2 a n).
  Proof.
    intros Hwf Hr. destruct (sel_in_range_span _ _ Hr) as (a & n & Hs). exists a, n. split; [exact Hs|].
    apply jload_sel_none; assumption.
  Qed.
End J.

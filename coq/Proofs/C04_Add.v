(* C04: __add__ - contents, counts, labels continuing after the left operand, associativity. *)
From Coq Require Import List ZArith Bool Lia QArith.
From SX Require Import Lib.Py Model.Storer Model.StorerSpec Proofs.C04_Core.
Import ListNotations.
Local Open Scope Z_scope.

Lemma pyget_app_mid {A} (l1 l2 : list A) a : pyget (l1 ++ a :: l2) (zlen l1) = Ok a.
Proof.
  unfold pyget, zlen.
  destruct (Z.of_nat (length l1) <? 0) eqn:E; [apply Z.ltb_lt in E; lia|].
  rewrite E. rewrite Nat2Z.id. rewrite nth_error_app2 by lia. now rewrite Nat.sub_diag.
Qed.

Lemma firstn_len_app {A} (l1 l2 : list A) : firstn (length l1) (l1 ++ l2) = l1.
Proof. induction l1; simpl; [now destruct l2|now f_equal]. Qed.
Lemma skipn_len_app {A} (l1 l2 : list A) : skipn (length l1) (l1 ++ l2) = l2.
Proof. induction l1; simpl; auto. Qed.

Lemma split_last {A} (l : list A) : l <> [] -> exists l' x, l = l' ++ [x].
Proof.
  intros H. destruct (exists_last H) as (l' & x & E). eauto.
Qed.

(* combined[n:, 0] += combined[n - 1, 0] + 1 - combined[n, 0] *)
Lemma continue_labels_gen (r1 : list (Z * Z)) a b r2 nb : 0 < nb ->
  continue_labels (zlen (r1 ++ [a])) nb ((r1 ++ [a]) ++ b :: r2)
  = Ok ((r1 ++ [a]) ++ map (shift_lab (fst a + 1 - fst b)) (b :: r2)).
Proof.
  intros Hnb. unfold continue_labels.
  assert (Hp : 0 < zlen (r1 ++ [a])) by (unfold zlen; rewrite app_length; simpl; lia).
  destruct (0 <? zlen (r1 ++ [a])) eqn:E1; [|apply Z.ltb_ge in E1; lia].
  destruct (0 <? nb) eqn:E2; [|apply Z.ltb_ge in E2; lia].
  simpl andb. cbv iota.
  replace (pyget ((r1 ++ [a]) ++ b :: r2) (zlen (r1 ++ [a]) - 1)) with (Ok a : result (Z * Z)).
  2:{ replace (zlen (r1 ++ [a]) - 1) with (zlen r1) by (unfold zlen; rewrite app_length; simpl; lia).
      rewrite <- app_assoc. simpl. now rewrite pyget_app_mid. }
  simpl rbind. rewrite pyget_app_mid. simpl rbind.
  unfold zlen. rewrite Nat2Z.id. now rewrite firstn_len_app, skipn_len_app.
Qed.

(* the label arithmetic of the addition of two non-empty objects *)
Lemma continue_labels_recount la lb ea eb :
  ea <> [] -> eb <> [] ->
  continue_labels (zlen ea) (zlen eb) (recount la ea ++ recount lb eb)
  = Ok (recount la (ea ++ eb)).
Proof.
  intros Ha Hb. pose proof (zlen_pos eb Hb) as Pb.
  destruct (split_last ea Ha) as (ea' & x & ->).
  destruct eb as [|y eb']; [congruence|].
  rewrite (recount_app ea' la [x]). simpl recount.
  replace (zlen (ea' ++ [x])) with (zlen (recount la ea' ++ [(la + zlen ea', zlen x)]))
    by (unfold zlen; rewrite !app_length, recount_length; reflexivity).
  rewrite continue_labels_gen by assumption.
  change ((lb, zlen y) :: recount (lb + 1) eb') with (recount lb (y :: eb')).
  rewrite recount_shift. simpl fst.
  rewrite (recount_app (ea' ++ [x]) la (y :: eb')).
  rewrite (recount_app ea' la [x]). simpl recount at 2.
  replace (la + zlen (ea' ++ [x])) with (lb + (la + zlen ea' + 1 - lb))
    by (unfold zlen; rewrite app_length; simpl length; lia).
  reflexivity.
Qed.

Lemma merge_ok a b : compatible a b -> exists x, update_after_merge a b = Ok x.
Proof.
  intros (Hc & Hp). unfold update_after_merge. destruct (scls a) eqn:E; eauto.
  rewrite (Hp eq_refl), Z.eqb_refl. eauto.
Qed.

Lemma cls_eqb_refl c : cls_eqb c c = true.
Proof. now destruct c. Qed.

Lemma held_pos s : 0 < nevents s -> held s = events s.
Proof. intros H. unfold held. destruct (0 <? nevents s) eqn:E; [reflexivity|apply Z.ltb_ge in E; lia]. Qed.

Lemma add_unfold a b ra rb rows x :
  scls a = scls b -> reshape2 (counts a) = Ok ra -> reshape2 (counts b) = Ok rb ->
  continue_labels (nevents a) (nevents b) (ra ++ rb) = Ok rows -> update_after_merge a b = Ok x ->
  add a b = Ok (mkS (scls a) (held a ++ held b) (A2 rows) (nevents a + nevents b)
                    (fst x) (xfmt a) (xptype a) (snd x)).
Proof.
  intros Hc Ha Hb Hr Hx. unfold add. rewrite <- Hc, cls_eqb_refl. simpl negb. cbv iota.
  rewrite Ha. simpl. rewrite Hb. simpl. rewrite Hr. simpl. rewrite Hx. reflexivity.
Qed.

Lemma reshape2_Emp s : Emp s -> reshape2 (counts s) = Ok [].
Proof. intros (_ & [Hc|Hc] & _); rewrite Hc; reflexivity. Qed.
Lemma reshape2_RegR s l0 : RegR s l0 -> reshape2 (counts s) = Ok (recount l0 (events s)).
Proof. intros (Hc & _). now rewrite Hc. Qed.

Lemma continue_labels_0l nb comb : continue_labels 0 nb comb = Ok comb.
Proof. reflexivity. Qed.
Lemma continue_labels_0r na comb : continue_labels na 0 comb = Ok comb.
Proof. unfold continue_labels. now rewrite andb_false_r. Qed.

(* the four cases of a + b *)
Lemma add_Reg_Reg a b la lb : RegR a la -> RegR b lb -> compatible a b ->
  exists c, add a b = Ok c /\ RegR c la /\ events c = events a ++ events b /\
            nevents c = nevents a + nevents b /\ scls c = scls a /\ xptype c = xptype a.
Proof.
  intros Ra Rb Hcomp.
  destruct (merge_ok a b Hcomp) as (x & Hx). destruct Hcomp as (Hcl & _).
  pose proof Ra as (Hca & Hna & Hza). pose proof Rb as (Hcb & Hnb & Hzb).
  eexists. split.
  - eapply add_unfold; eauto using reshape2_RegR.
    rewrite Hza, Hzb. now apply continue_labels_recount.
  - unfold RegR. simpl.
    rewrite !held_pos by (rewrite ?Hza, ?Hzb; now apply zlen_pos).
    repeat split; try reflexivity.
    + intros H. apply app_eq_nil in H. destruct H. congruence.
    + rewrite Hza, Hzb. unfold zlen. rewrite app_length. lia.
Qed.

Lemma add_Emp_Reg a b lb : Emp a -> RegR b lb -> compatible a b ->
  exists c, add a b = Ok c /\ RegR c lb /\ events c = events b /\
            nevents c = nevents b /\ scls c = scls a /\ xptype c = xptype a.
Proof.
  intros Ha Rb Hcomp.
  destruct (merge_ok a b Hcomp) as (x & Hx). destruct Hcomp as (Hcl & _).
  pose proof Rb as (Hcb & Hnb & Hzb). pose proof Ha as (Hn & _).
  eexists. split.
  - eapply add_unfold; eauto using reshape2_RegR, reshape2_Emp.
    rewrite Hn. apply continue_labels_0l.
  - unfold RegR. simpl. rewrite (held_Emp a Ha). rewrite Hn.
    rewrite held_pos by (rewrite Hzb; now apply zlen_pos).
    repeat split; try reflexivity; assumption.
Qed.

Lemma add_Reg_Emp a b la : RegR a la -> Emp b -> compatible a b ->
  exists c, add a b = Ok c /\ RegR c la /\ events c = events a /\
            nevents c = nevents a /\ scls c = scls a /\ xptype c = xptype a.
Proof.
  intros Ra Hb Hcomp.
  destruct (merge_ok a b Hcomp) as (x & Hx). destruct Hcomp as (Hcl & _).
  pose proof Ra as (Hca & Hna & Hza). pose proof Hb as (Hn & _).
  eexists. split.
  - eapply add_unfold; eauto using reshape2_RegR, reshape2_Emp.
    rewrite Hn. apply continue_labels_0r.
  - unfold RegR. simpl. rewrite (held_Emp b Hb). rewrite Hn.
    rewrite held_pos by (rewrite Hza; now apply zlen_pos).
    rewrite !app_nil_r, Z.add_0_r.
    repeat split; try reflexivity; assumption.
Qed.

Lemma add_Emp_Emp a b : Emp a -> Emp b -> compatible a b ->
  exists c, add a b = Ok c /\ Emp c /\ events c = [] /\ scls c = scls a /\ xptype c = xptype a.
Proof.
  intros Ha Hb Hcomp.
  destruct (merge_ok a b Hcomp) as (x & Hx). destruct Hcomp as (Hcl & _).
  pose proof Ha as (Hna & _). pose proof Hb as (Hnb & _).
  eexists. split.
  - eapply add_unfold; eauto using reshape2_Emp.
    rewrite Hna. apply continue_labels_0l.
  - unfold Emp. simpl. rewrite (held_Emp a Ha), (held_Emp b Hb), Hna, Hnb.
    repeat split; auto.
Qed.

Lemma RegR_unique s l1 l2 : RegR s l1 -> RegR s l2 -> l1 = l2.
Proof.
  intros (H1 & Hne & _) (H2 & _ & _). rewrite H1 in H2. injection H2 as H.
  destruct (events s) as [|e t]; [congruence|]. simpl in H. now injection H.
Qed.

(* one statement for all cases *)
Lemma add_Inv a b : Inv a -> Inv b -> compatible a b ->
  exists c, add a b = Ok c /\ Inv c /\ held c = held a ++ held b /\
            nevents c = nevents a + nevents b /\ scls c = scls a /\ xptype c = xptype a /\
            (forall la, RegR a la -> RegR c la) /\
            (Emp a -> forall lb, RegR b lb -> RegR c lb).
Proof.
  intros [Ha|Ha] [Hb|Hb] Hcomp.
  - pose proof Ha as Ha'. pose proof Hb as Hb'. apply Reg_iff in Ha', Hb'.
    destruct Ha' as (la & Ra). destruct Hb' as (lb & Rb).
    destruct (add_Reg_Reg a b la lb Ra Rb Hcomp) as (c & Hc & Rc & He & Hn & Hs & Hp).
    assert (HRc : Reg c) by (apply Reg_iff; eauto).
    exists c. split; [assumption|]. split; [now left|].
    rewrite (held_Reg c HRc), (held_Reg a Ha), (held_Reg b Hb).
    split; [assumption|]. split; [assumption|]. split; [assumption|]. split; [assumption|]. split.
    + intros la' Ra'. now rewrite (RegR_unique a la' la Ra' Ra).
    + intros HE. exfalso. destruct HE as (Hz & _). apply Reg_pos in Ha. lia.
  - pose proof Ha as Ha'. apply Reg_iff in Ha'. destruct Ha' as (la & Ra).
    destruct (add_Reg_Emp a b la Ra Hb Hcomp) as (c & Hc & Rc & He & Hn & Hs & Hp).
    assert (HRc : Reg c) by (apply Reg_iff; eauto).
    exists c. split; [assumption|]. split; [now left|].
    rewrite (held_Reg c HRc), (held_Reg a Ha), (held_Emp b Hb), app_nil_r.
    destruct Hb as (Hnb & _). rewrite Hnb, Z.add_0_r.
    split; [assumption|]. split; [assumption|]. split; [assumption|]. split; [assumption|]. split.
    + intros la' Ra'. now rewrite (RegR_unique a la' la Ra' Ra).
    + intros HE. exfalso. destruct HE as (Hz & _). apply Reg_pos in Ha. lia.
  - pose proof Hb as Hb'. apply Reg_iff in Hb'. destruct Hb' as (lb & Rb).
    destruct (add_Emp_Reg a b lb Ha Rb Hcomp) as (c & Hc & Rc & He & Hn & Hs & Hp).
    assert (HRc : Reg c) by (apply Reg_iff; eauto).
    exists c. split; [assumption|]. split; [now left|].
    rewrite (held_Reg c HRc), (held_Emp a Ha), (held_Reg b Hb). simpl app.
    pose proof Ha as (Hna & _). rewrite Hna, Z.add_0_l.
    split; [assumption|]. split; [assumption|]. split; [assumption|]. split; [assumption|]. split.
    + intros la' Ra'. exfalso. assert (H : Reg a) by (apply Reg_iff; eauto). apply Reg_pos in H. lia.
    + intros _ lb' Rb'. now rewrite (RegR_unique b lb' lb Rb' Rb).
  - destruct (add_Emp_Emp a b Ha Hb Hcomp) as (c & Hc & Ec & He & Hs & Hp).
    exists c. split; [assumption|]. split; [now right|].
    rewrite (held_Emp c Ec), (held_Emp a Ha), (held_Emp b Hb).
    destruct Ec as (Hnc & _). pose proof Ha as (Hna & _). pose proof Hb as (Hnb & _).
    rewrite Hnc, Hna, Hnb. split; [reflexivity|]. split; [reflexivity|]. split; [assumption|]. split; [assumption|]. split.
    + intros la' Ra'. exfalso. assert (H : Reg a) by (apply Reg_iff; eauto). apply Reg_pos in H. lia.
    + intros _ lb' Rb'. exfalso. assert (H : Reg b) by (apply Reg_iff; eauto). apply Reg_pos in H. lia.
Qed.

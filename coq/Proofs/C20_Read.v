(* C20: the reader.  read_jet_data on the rows of a list of written jets returns them jet by jet:
   a group ends exactly where the next row with index 0 starts, and associated rows carry indices >= 1. *)
From Coq Require Import List ZArith QArith Bool Lia.
From SX Require Import Model.Jets Model.JetsSpec.
Import ListNotations.

Section R.
  Variables acc_perp acc_eta acc_phi : vec4 -> Q.
  Notation jet_group := (jet_group acc_perp acc_eta acc_phi).
  Notation rows_of := (rows_of acc_perp acc_eta acc_phi).
  Notation lines_of := (lines_of acc_perp acc_eta acc_phi).

  (* rows that do not start a jet are appended to the current group *)
  Lemma read_tail rest : Forall (fun r => r_idx r <> 0%Z) rest ->
    forall more data cur,
    read_loop (map JetLine rest ++ more) data cur = read_loop more data (cur ++ rest).
  Proof.
    induction 1 as [|r rest Hr Hrest IH]; intros more data cur; simpl.
    - rewrite app_nil_r. reflexivity.
    - destruct (Z.eqb_spec (r_idx r) 0) as [E|_]; [contradiction|]. simpl.
      rewrite IH, <- app_assoc. reflexivity.
  Qed.

  Lemma group_shape jo : exists r0 rest,
    jet_group jo = r0 :: rest /\ r_idx r0 = 0%Z /\ Forall (fun r => r_idx r <> 0%Z) rest.
  Proof.
    unfold JetsSpec.jet_group. eexists. eexists. split; [reflexivity|]. split; [reflexivity|].
    apply Forall_forall. intros r Hin. apply in_map_iff in Hin. destruct Hin as ((k & p) & Hr & Hkp).
    subst r. simpl. apply in_combine_l in Hkp. apply in_seq in Hkp. lia.
  Qed.

  (* one group: closes the current group (if any) and becomes the current group *)
  Lemma read_group jo more data cur :
    read_loop (map JetLine (jet_group jo) ++ more) data cur
    = read_loop more (if nonempty cur then data ++ [cur] else data) (jet_group jo).
  Proof.
    destruct (group_shape jo) as (r0 & rest & Hg & H0 & Hrest). rewrite Hg.
    cbn [map app read_loop]. rewrite H0. cbn [Z.eqb andb].
    destruct cur as [|c cur]; cbn [nonempty].
    - rewrite (read_tail rest Hrest). reflexivity.
    - rewrite (read_tail rest Hrest). reflexivity.
  Qed.

  Lemma group_nonempty jo : nonempty (jet_group jo) = true.
  Proof. reflexivity. Qed.

  Lemma read_groups js : forall data cur,
    read_loop (lines_of js) data cur
    = Ok ((if nonempty cur then data ++ [cur] else data) ++ map jet_group js).
  Proof.
    induction js as [|jo js IH]; intros data cur.
    - unfold JetsSpec.lines_of. simpl. rewrite app_nil_r. reflexivity.
    - unfold JetsSpec.lines_of, JetsSpec.rows_of in *. cbn [flat_map]. rewrite map_app.
      rewrite read_group. rewrite IH. rewrite group_nonempty. cbn [map].
      rewrite <- app_assoc. reflexivity.
  Qed.

  (* C20_read *)
  Theorem read_written js : read_jet_data (Some (lines_of js)) = Ok (map jet_group js).
  Proof. unfold read_jet_data. rewrite read_groups. reflexivity. Qed.

  (* get_jets / get_associated_particles split every group into its jet row and its associated rows *)
  Theorem get_jets_written js :
    get_jets (map jet_group js) = Ok (map (fun jo => hd (Row 0 0 0 0 0 0 0 0) (jet_group jo)) js)
    /\ get_associated_particles (map jet_group js) = map (fun jo => tl (jet_group jo)) js.
  Proof.
    split.
    - induction js as [|jo js IH]; [reflexivity|].
      cbn [map]. unfold JetsSpec.jet_group at 1. cbn [get_jets]. rewrite IH. reflexivity.
    - unfold get_associated_particles. rewrite map_map. reflexivity.
  Qed.

  (* a foreign line anywhere in the file makes the reader raise; a missing file likewise *)
  Theorem read_foreign pre tag post : exists e, read_jet_data (Some (pre ++ Foreign tag :: post)) = Err e.
  Proof.
    unfold read_jet_data. generalize (@nil (list row)) as data. generalize (@nil row) as cur.
    induction pre as [|l pre IH]; intros cur data; simpl.
    - eexists; reflexivity.
    - destruct l as [r|t]; [|eexists; reflexivity].
      destruct ((r_idx r =? 0)%Z && nonempty cur); apply IH.
  Qed.
End R.

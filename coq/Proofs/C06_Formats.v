(* C06: the per-format link between the writer's columns/formats and the loader's column tables
   (both regenerated from the source), giving the row round trip [row_rt] for every held particle. *)
From Coq Require Import List String ZArith QArith Bool Arith Lia.
From SX Require Import Lib.Strs Lib.StrLemmas Gen.GenParticleMap Gen.GenFormats Model.Oscar Model.OscarDoc Model.Writer
  Proofs.C01_Columns Proofs.C06_Row Proofs.C06_Oscar.
Import ListNotations.
Local Open Scope string_scope.

Section F.
  Variable tok_float : string -> option Q.
  Variable tok_int : string -> option Q.
  Variable pdg_valid : Q -> bool.
  Variable fmt : colfmt -> Q -> string.
  Variable dec : Z -> string.
  Variable rnd : colfmt -> Q -> Q.
  Hypothesis parse_float : forall f v, is_int_fmt f = false -> tok_float (fmt f v) = Some (rnd f v).
  Hypothesis parse_int : forall v, tok_int (fmt FD v) = Some (rnd FD v).
  Hypothesis fmt_idem : forall f v, fmt f (rnd f v) = fmt f v.
  Hypothesis fmt_numeric : forall f v, numeric (fmt f v) = true.

  Notation FP := (format_particle fmt).
  Notation TOKS := (toks_of fmt).

  (* all columns of the scheme are set in p, with these values *)
  Definition has_vals (cs : scheme) (p : particle) (vs : list Q) : Prop :=
    map (fun c => get_slot (s_slot c) p) cs = map Some vs.

  Lemma has_vals_length cs p vs : has_vals cs p vs -> List.length vs = List.length cs.
  Proof. intros H. apply (f_equal (@List.length _)) in H. rewrite !map_length in H. congruence. Qed.

  Lemma toks_numeric : forall cs vs, forallb numeric (TOKS cs vs) = true.
  Proof.
    intros cs vs. unfold toks_of. apply forallb_forall. intros t Hin. apply in_map_iff in Hin.
    destruct Hin as (x & <- & _). apply fmt_numeric.
  Qed.

  (* the generic step: a format whose loader mapping is [mapping_from 0 cs] and whose writer prints [TOKS cs]
     for every particle that has the scheme's columns set and satisfies the side condition [extra]
     (e.g. "the optional trailing columns are unset") *)
  Theorem row_rt_scheme (format : string) (attrs : list string) (ncols : nat) (cs : scheme)
          (extra : particle -> Prop) (p : particle) (vs : list Q) :
    mapping_of format attrs = Ok (mapping_from 0 cs) ->
    forallb (cast_ok (format =? "ASCII")) cs = true ->
    NoDup (map s_slot cs) -> Forall (fun c => (s_slot c < 25)%nat) cs -> ~ In 10%nat (map s_slot cs) ->
    has_vals cs p vs -> extra p ->
    (forall p1, (forall s, ~ In s (map s_slot cs) -> s <> 10%nat -> get_slot s p1 = get_slot s blank) -> extra p1) ->
    (forall p1 vs1, has_vals cs p1 vs1 -> extra p1 -> FP format attrs ncols p1 = Ok (TOKS cs vs1)) ->
    row_rt tok_float tok_int pdg_valid fmt format attrs ncols p.
  Proof.
    intros Hmap Hcast Hnd Hlt H10 Hv Hex Hex' Hw.
    pose proof (has_vals_length cs p vs Hv) as Hl.
    destruct (row_roundtrip tok_float tok_int fmt rnd parse_float parse_int (format =? "ASCII") cs vs blank
                Hl Hcast Hnd Hlt eq_refl) as (p1 & Hfill & Hslots & Hother & Hlen).
    exists (TOKS cs vs), (set_pdg_valid pdg_valid p1).
    split; [apply (Hw p vs Hv Hex)|]. split; [apply toks_numeric|]. split.
    - unfold mk_particle. rewrite Hmap. cbn [bind].
      assert (Hlm : List.length (mapping_from 0 cs) = List.length cs).
      { unfold mapping_from. rewrite map_length. clear. generalize 0%nat.
        induction cs as [|c t IH]; intros i; cbn; [reflexivity|now rewrite IH]. }
      rewrite (toks_length fmt cs vs Hl), Hlm, Nat.eqb_refl.
      replace ((format =? "ASCII") || true || _) with true by (destruct (format =? "ASCII"); reflexivity).
      rewrite Hfill. reflexivity.
    - assert (Hs10 : forall s, s <> 10%nat -> get_slot s (set_pdg_valid pdg_valid p1) = get_slot s p1).
      { intros s Hs. unfold set_pdg_valid. destruct (get_slot 9 p1); apply get_set_other; congruence. }
      assert (Hv' : has_vals cs (set_pdg_valid pdg_valid p1)
                      (map (fun cv => rnd (s_fmt (fst cv)) (snd cv)) (combine cs vs))).
      { unfold has_vals.
        assert (K : forall (l : scheme) (ws : list Q),
                    List.length ws = List.length l ->
                    (forall j x v, nth_error l j = Some x -> nth_error ws j = Some v ->
                                   get_slot (s_slot x) (set_pdg_valid pdg_valid p1) = Some (rnd (s_fmt x) v)) ->
                    map (fun c => get_slot (s_slot c) (set_pdg_valid pdg_valid p1)) l
                    = map Some (map (fun cv => rnd (s_fmt (fst cv)) (snd cv)) (combine l ws))).
        { induction l as [|c l IHl]; intros [|w ws] Hlw Hget; try discriminate; [reflexivity|].
          cbn [map combine fst snd]. f_equal.
          - apply (Hget 0%nat c w); reflexivity.
          - apply (IHl ws); [cbn in Hlw; lia|]. intros j x v Hx Hvv. apply (Hget (S j) x v); assumption. }
        apply (K cs vs Hl). intros j x v Hx Hvv.
        rewrite Hs10.
        - eapply Hslots; eauto.
        - intros E. apply H10. rewrite <- E. apply in_map. eapply nth_error_In; eauto. }
      rewrite (Hw _ _ Hv').
      + f_equal. apply toks_idem; assumption.
      + apply Hex'. intros s Hs Hs'. rewrite Hs10 by exact Hs'. apply Hother, Hs.
  Qed.

  (* ---------------------------------------------------------------- writer side, generic *)
  Definition mk_scheme (ws : list wcol) (fs : list colfmt) : scheme :=
    map (fun wf => (fst (fst (fst wf)), snd (fst (fst wf)), snd wf)) (combine ws fs).

  Lemma col_values ws : forall p vs,
    map (fun w : wcol => get_slot (snd (fst w)) p) ws = map Some vs ->
    mapr (fun c => col_value c p) ws = Ok vs.
  Proof.
    induction ws as [|w ws IH]; intros p [|v vs] H; try discriminate; [reflexivity|].
    cbn [map] in H. injection H as Hv Hr. cbn [mapr]. unfold col_value at 1. rewrite Hv. cbn [bind].
    rewrite (IH p vs Hr). reflexivity.
  Qed.

  Lemma zipfmt_scheme : forall ws fs vs,
    List.length ws = List.length fs -> List.length vs = List.length fs ->
    zipfmt fmt fs vs = Ok (TOKS (mk_scheme ws fs) vs).
  Proof.
    induction ws as [|w ws IH]; intros [|f fs] [|v vs] H1 H2; try discriminate; [reflexivity|].
    cbn [zipfmt]. rewrite (IH fs vs) by (cbn in *; lia). reflexivity.
  Qed.

  Lemma has_vals_scheme ws fs p vs : List.length ws = List.length fs ->
    has_vals (mk_scheme ws fs) p vs -> map (fun w : wcol => get_slot (snd (fst w)) p) ws = map Some vs.
  Proof.
    unfold has_vals, mk_scheme. rewrite map_map. cbn [s_slot fst snd].
    revert fs vs. induction ws as [|w ws IH]; intros [|f fs] vs H; try discriminate; [intros E; exact E|].
    cbn [combine map fst snd]. destruct vs as [|v vs]; [discriminate|]. intros E. injection E as E1 E2.
    cbn [map]. f_equal; [exact E1|]. apply (IH fs vs); [cbn in H; lia|exact E2].
  Qed.

  (* ---------------------------------------------------------------- Oscar2013 *)
  Definition cs_2013 : scheme := mk_scheme wcols_2013 gen_format_oscar2013.

  Lemma nodup_nat (l : list nat) : (forallb (fun x => Nat.eqb (count_occ Nat.eq_dec l x) 1) l = true) -> NoDup l.
  Proof.
    intros H. apply (NoDup_count_occ' Nat.eq_dec). intros x Hin. rewrite forallb_forall in H.
    apply Nat.eqb_eq, H, Hin.
  Qed.

  Theorem row_rt_2013 ncols p vs :
    has_vals cs_2013 p vs -> row_rt tok_float tok_int pdg_valid fmt "Oscar2013" [] ncols p.
  Proof.
    intros Hv.
    apply (row_rt_scheme "Oscar2013" [] ncols cs_2013 (fun _ => True) p vs); try exact I; try (intros; exact I).
    - vm_compute. reflexivity.
    - vm_compute. reflexivity.
    - apply nodup_nat. vm_compute. reflexivity.
    - repeat constructor; cbn; lia.
    - vm_compute. intuition discriminate.
    - exact Hv.
    - intros p1 vs1 Hv1 _. unfold format_particle, row_values, row_formats, wcols_of.
      cbn [String.eqb Ascii.eqb Bool.eqb]. change ("Oscar2013" =? "ASCII") with false.
      change ("Oscar2013" =? "Oscar2013") with true. cbv iota. cbn [bind].
      rewrite (col_values wcols_2013 p1 vs1) by (apply (has_vals_scheme wcols_2013 gen_format_oscar2013); [reflexivity|exact Hv1]).
      cbn [bind]. apply zipfmt_scheme; [reflexivity|]. apply has_vals_length in Hv1. rewrite Hv1. reflexivity.
  Qed.

  (* ---------------------------------------------------------------- Oscar2013Extended, 22 columns *)
  Definition cs_ext22 : scheme :=
    mk_scheme (wcols_ext20 ++ [wcol_baryon; wcol_strange]) (gen_format_extended ++ [gen_format_extension; gen_format_extension]).

  Theorem row_rt_ext22 p vs :
    has_vals cs_ext22 p vs -> row_rt tok_float tok_int pdg_valid fmt "Oscar2013Extended" [] 22 p.
  Proof.
    intros Hv.
    apply (row_rt_scheme "Oscar2013Extended" [] 22 cs_ext22 (fun _ => True) p vs); try exact I; try (intros; exact I).
    - vm_compute. reflexivity.
    - vm_compute. reflexivity.
    - apply nodup_nat. vm_compute. reflexivity.
    - repeat constructor; cbn; lia.
    - vm_compute. intuition discriminate.
    - exact Hv.
    - intros p1 vs1 Hv1 _.
      pose proof (has_vals_scheme (wcols_ext20 ++ [wcol_baryon; wcol_strange])
                    (gen_format_extended ++ [gen_format_extension; gen_format_extension]) p1 vs1 eq_refl Hv1) as Hm.
      assert (H22 : exists b, get_slot 22 p1 = Some b).
      { apply (f_equal (fun l => nth 20 l None)) in Hm. cbn [wcols_ext20 wcols_2013 app map nth wcol_baryon fst snd] in Hm.
        rewrite Hm. apply has_vals_length in Hv1. do 21 (destruct vs1 as [|? vs1]; [discriminate|]). eexists; reflexivity. }
      assert (H23 : exists b, get_slot 23 p1 = Some b).
      { apply (f_equal (fun l => nth 21 l None)) in Hm. cbn [wcols_ext20 wcols_2013 app map nth wcol_strange fst snd] in Hm.
        rewrite Hm. apply has_vals_length in Hv1. do 22 (destruct vs1 as [|? vs1]; [discriminate|]). eexists; reflexivity. }
      destruct H22 as (b22 & E22). destruct H23 as (b23 & E23).
      unfold format_particle, row_values, row_formats, wcols_of.
      change ("Oscar2013Extended" =? "ASCII") with false. change ("Oscar2013Extended" =? "Oscar2013") with false.
      change ("Oscar2013Extended" =? "Oscar2013Extended") with true. cbv iota. cbn [orb bind]. rewrite E22, E23. cbn [bind].
      change (wcols_ext20 ++ [wcol_baryon] ++ [wcol_strange])%list with (wcols_ext20 ++ [wcol_baryon; wcol_strange])%list.
      rewrite (col_values _ p1 vs1 Hm). cbn [bind Nat.sub repeat].
      apply zipfmt_scheme; [reflexivity|]. apply has_vals_length in Hv1. rewrite Hv1. reflexivity.
  Qed.

  (* ---------------------------------------------------------------- composition for Oscar2013 *)
  Hypothesis dec_numeric : forall z, numeric (dec z) = true.
  Hypothesis dec_int : forall z, (0 <= z)%Z -> tok_int (dec z) = Some (zq z).

  Theorem oscar2013_roundtrip s :
    Inv s -> os_events s <> [] -> os_format s = "Oscar2013" -> os_attrs s = [] ->
    oscar_format (nth 0 (os_header s) []) = Ok ("Oscar2013", []) ->
    kind_scan (nth 0 (os_header s) []) = SOther -> kind_scan (nth 1 (os_header s) []) = SOther ->
    kind_scan (nth 2 (os_header s) []) = SOther ->
    footers_std tok_float (os_footers s) (os_counts s) ->
    Forall (Forall (fun p => exists vs, has_vals cs_2013 p vs)) (os_events s) ->
    exists file,
      write_oscar fmt dec s = Ok file /\
      load tok_float tok_int pdg_valid None file SelAll
        = Ok (expected tok_float tok_int pdg_valid (doc_of fmt dec s) "Oscar2013" []) /\
      write_oscar fmt dec (reread tok_float tok_int pdg_valid fmt dec s) = Ok file.
  Proof.
    intros Hi Hne Hf Ha Hfmt K1 K2 K3 Hfs Hv.
    assert (Hrt : Forall (Forall (row_rt tok_float tok_int pdg_valid fmt (os_format s) (os_attrs s) (ncols_of s))) (os_events s)).
    { rewrite Hf, Ha. eapply Forall_impl; [|exact Hv]. intros ev Hev. eapply Forall_impl; [|exact Hev].
      intros p (vs & Hp). eapply row_rt_2013; exact Hp. }
    assert (Hp : printable fmt s).
    { unfold printable. eapply Forall_impl; [|exact Hrt]. intros ev Hev. eapply Forall_impl; [|exact Hev].
      intros p (row & _ & Hrow & _). exists row. exact Hrow. }
    assert (Hwf : wf tok_float tok_int pdg_valid (doc_of fmt dec s) "Oscar2013" []).
    { pose proof (doc_wf tok_float tok_int pdg_valid fmt dec dec_numeric dec_int s Hi Hne) as H.
      rewrite Hf, Ha in H. apply H; try assumption.
      - left; reflexivity.
      - rewrite Hf, Ha in Hrt. exact Hrt. }
    destruct (read_back tok_float tok_int pdg_valid fmt dec s "Oscar2013" [] Hi Hp Hne Hwf) as (file & Hw & Hl).
    exists file. repeat split; try assumption.
    rewrite (rewrite_fixpoint tok_float tok_int pdg_valid fmt dec s Hi Hne Hrt). exact Hw.
  Qed.
End F.

(* C06: the per-format link between the writer's columns/formats and the loader's column tables
   (both regenerated from the source), giving the row round trip [row_rt] for every held particle. *)
From Coq Require Import List String ZArith QArith Bool Arith Lia.
From SX Require Import Lib.Strs Lib.StrLemmas Gen.GenParticleMap Gen.GenFormats Model.Oscar Model.OscarDoc Model.Writer
  Proofs.C01_Columns Proofs.C06_Row Proofs.C06_Oscar.
Import ListNotations.
Local Open Scope string_scope.

Section F.
  Variable tok_float : string -> option Q.
  Variable tok_int : string -> option Q.
  Variable pdg_valid : Q -> bool.
  Variable fmt : colfmt -> Q -> string.
  Variable dec : Z -> string.
  Variable rnd : colfmt -> Q -> Q.
  Hypothesis parse_float : forall f v, is_int_fmt f = false -> tok_float (fmt f v) = Some (rnd f v).
  Hypothesis parse_int : forall v, tok_int (fmt FD v) = Some (rnd FD v).
  Hypothesis fmt_idem : forall f v, fmt f (rnd f v) = fmt f v.
  Hypothesis fmt_numeric : forall f v, numeric (fmt f v) = true.

  Notation FP := (format_particle fmt).
  Notation TOKS := (toks_of fmt).

  (* all columns of the scheme are set in p, with these values *)
  Definition has_vals (cs : scheme) (p : particle) (vs : list Q) : Prop :=
    map (fun c => get_slot (s_slot c) p) cs = map Some vs.

  Lemma has_vals_length cs p vs : has_vals cs p vs -> List.length vs = List.length cs.
  Proof. intros H. apply (f_equal (@List.length _)) in H. rewrite !map_length in H. congruence. Qed.

  Lemma toks_numeric : forall cs vs, forallb numeric (TOKS cs vs) = true.
  Proof.
    intros cs vs. unfold toks_of. apply forallb_forall. intros t Hin. apply in_map_iff in Hin.
    destruct Hin as (x & <- & _). apply fmt_numeric.
  Qed.

  (* the generic step: a format whose loader mapping is [mapping_from 0 cs] and whose writer prints [TOKS cs]
     for every particle that has the scheme's columns set and satisfies the side condition [extra]
     (e.g. "the optional trailing columns are unset") *)
  Theorem row_rt_scheme (format : string) (attrs : list string) (ncols : nat) (cs ex : scheme)
          (extra : particle -> Prop) (p : particle) (vs : list Q) :
    mapping_of format attrs = Ok (mapping_from 0 (cs ++ ex)%list) ->
    (* the loader accepts a line with the columns of cs only *)
    ((format =? "ASCII") || (List.length cs =? List.length (cs ++ ex)%list)%nat
     || (mem_str format gen_relaxed_formats && (List.length cs <=? List.length (cs ++ ex)%list)%nat
         && (List.length (cs ++ ex)%list - gen_relax_slack <=? List.length cs)%nat)) = true ->
    forallb (cast_ok (format =? "ASCII")) cs = true ->
    NoDup (map s_slot cs) -> Forall (fun c => (s_slot c < 25)%nat) cs -> ~ In 10%nat (map s_slot cs) ->
    has_vals cs p vs -> extra p ->
    (forall p1, (forall s, ~ In s (map s_slot cs) -> s <> 10%nat -> get_slot s p1 = get_slot s blank) -> extra p1) ->
    (forall p1 vs1, has_vals cs p1 vs1 -> extra p1 -> FP format attrs ncols p1 = Ok (TOKS cs vs1)) ->
    row_rt tok_float tok_int pdg_valid fmt format attrs ncols p.
  Proof.
    intros Hmap Hok Hcast Hnd Hlt H10 Hv Hex Hex' Hw.
    pose proof (has_vals_length cs p vs Hv) as Hl.
    destruct (row_roundtrip tok_float tok_int fmt rnd parse_float parse_int (format =? "ASCII") cs vs blank
                Hl Hcast Hnd Hlt eq_refl) as (p1 & Hfill & Hslots & Hother & Hlen).
    exists (TOKS cs vs), (set_pdg_valid pdg_valid p1).
    split; [apply (Hw p vs Hv Hex)|]. split; [apply toks_numeric|]. split.
    - unfold mk_particle. rewrite Hmap. cbn [bind].
      assert (Hlm : forall l, List.length (mapping_from 0 l) = List.length l).
      { intros l. unfold mapping_from. rewrite map_length. generalize 0%nat.
        induction l as [|c t IH]; intros i; cbn; [reflexivity|now rewrite IH]. }
      rewrite (toks_length fmt cs vs Hl), Hlm, Hok.
      rewrite (fill_extra tok_float tok_int fmt (format =? "ASCII") cs ex vs blank Hl), Hfill. reflexivity.
    - assert (Hs10 : forall s, s <> 10%nat -> get_slot s (set_pdg_valid pdg_valid p1) = get_slot s p1).
      { intros s Hs. unfold set_pdg_valid. destruct (get_slot 9 p1); apply get_set_other; congruence. }
      assert (Hv' : has_vals cs (set_pdg_valid pdg_valid p1)
                      (map (fun cv => rnd (s_fmt (fst cv)) (snd cv)) (combine cs vs))).
      { unfold has_vals.
        assert (K : forall (l : scheme) (ws : list Q),
                    List.length ws = List.length l ->
                    (forall j x v, nth_error l j = Some x -> nth_error ws j = Some v ->
                                   get_slot (s_slot x) (set_pdg_valid pdg_valid p1) = Some (rnd (s_fmt x) v)) ->
                    map (fun c => get_slot (s_slot c) (set_pdg_valid pdg_valid p1)) l
                    = map Some (map (fun cv => rnd (s_fmt (fst cv)) (snd cv)) (combine l ws))).
        { induction l as [|c l IHl]; intros [|w ws] Hlw Hget; try discriminate; [reflexivity|].
          cbn [map combine fst snd]. f_equal.
          - apply (Hget 0%nat c w); reflexivity.
          - apply (IHl ws); [cbn in Hlw; lia|]. intros j x v Hx Hvv. apply (Hget (S j) x v); assumption. }
        apply (K cs vs Hl). intros j x v Hx Hvv.
        rewrite Hs10.
        - eapply Hslots; eauto.
        - intros E. apply H10. rewrite <- E. apply in_map. eapply nth_error_In; eauto. }
      rewrite (Hw _ _ Hv').
      + f_equal. apply toks_idem; assumption.
      + apply Hex'. intros s Hs Hs'. rewrite Hs10 by exact Hs'. apply Hother, Hs.
  Qed.

  (* ---------------------------------------------------------------- writer side, generic *)
  Definition mk_scheme (ws : list wcol) (fs : list colfmt) : scheme :=
    map (fun wf => (fst (fst (fst wf)), snd (fst (fst wf)), snd wf)) (combine ws fs).

  Lemma col_values ws : forall p vs,
    map (fun w : wcol => get_slot (snd (fst w)) p) ws = map Some vs ->
    mapr (fun c => col_value c p) ws = Ok vs.
  Proof.
    induction ws as [|w ws IH]; intros p [|v vs] H; try discriminate; [reflexivity|].
    cbn [map] in H. injection H as Hv Hr. cbn [mapr]. unfold col_value at 1. rewrite Hv. cbn [bind].
    rewrite (IH p vs Hr). reflexivity.
  Qed.

  Lemma zipfmt_scheme : forall ws fs vs,
    List.length ws = List.length fs -> List.length vs = List.length fs ->
    zipfmt fmt fs vs = Ok (TOKS (mk_scheme ws fs) vs).
  Proof.
    induction ws as [|w ws IH]; intros [|f fs] [|v vs] H1 H2; try discriminate; [reflexivity|].
    cbn [zipfmt]. rewrite (IH fs vs) by (cbn in *; lia). reflexivity.
  Qed.

  Lemma has_vals_scheme ws fs p vs : List.length ws = List.length fs ->
    has_vals (mk_scheme ws fs) p vs -> map (fun w : wcol => get_slot (snd (fst w)) p) ws = map Some vs.
  Proof.
    unfold has_vals, mk_scheme. rewrite map_map. cbn [s_slot fst snd].
    revert fs vs. induction ws as [|w ws IH]; intros [|f fs] vs H; try discriminate; [intros E; exact E|].
    cbn [combine map fst snd]. destruct vs as [|v vs]; [discriminate|]. intros E. injection E as E1 E2.
    cbn [map]. f_equal; [exact E1|]. apply (IH fs vs); [cbn in H; lia|exact E2].
  Qed.

  (* ---------------------------------------------------------------- Oscar2013 *)
  Definition cs_2013 : scheme := mk_scheme wcols_2013 gen_format_oscar2013.

  Lemma nodup_nat (l : list nat) : (forallb (fun x => Nat.eqb (count_occ Nat.eq_dec l x) 1) l = true) -> NoDup l.
  Proof.
    intros H. apply (NoDup_count_occ' Nat.eq_dec). intros x Hin. rewrite forallb_forall in H.
    apply Nat.eqb_eq, H, Hin.
  Qed.

  Theorem row_rt_2013 ncols p vs :
    has_vals cs_2013 p vs -> row_rt tok_float tok_int pdg_valid fmt "Oscar2013" [] ncols p.
  Proof.
    intros Hv.
    apply (row_rt_scheme "Oscar2013" [] ncols cs_2013 [] (fun _ => True) p vs); try exact I; try (intros; exact I).
    - vm_compute. reflexivity.
    - vm_compute. reflexivity.
    - vm_compute. reflexivity.
    - apply nodup_nat. vm_compute. reflexivity.
    - repeat constructor; cbn; lia.
    - vm_compute. intuition discriminate.
    - exact Hv.
    - intros p1 vs1 Hv1 _. unfold format_particle, row_values, row_formats, wcols_of.
      cbn [String.eqb Ascii.eqb Bool.eqb]. change ("Oscar2013" =? "ASCII") with false.
      change ("Oscar2013" =? "Oscar2013") with true. cbv iota. cbn [bind].
      rewrite (col_values wcols_2013 p1 vs1) by (apply (has_vals_scheme wcols_2013 gen_format_oscar2013); [reflexivity|exact Hv1]).
      cbn [bind]. apply zipfmt_scheme; [reflexivity|]. apply has_vals_length in Hv1. rewrite Hv1. reflexivity.
  Qed.

  (* ---------------------------------------------------------------- Oscar2013Extended, 22 columns *)
  Definition cs_ext22 : scheme :=
    mk_scheme (wcols_ext20 ++ [wcol_baryon; wcol_strange]) (gen_format_extended ++ [gen_format_extension; gen_format_extension]).

  Theorem row_rt_ext22 p vs :
    has_vals cs_ext22 p vs -> row_rt tok_float tok_int pdg_valid fmt "Oscar2013Extended" [] 22 p.
  Proof.
    intros Hv.
    apply (row_rt_scheme "Oscar2013Extended" [] 22 cs_ext22 [] (fun _ => True) p vs); try exact I; try (intros; exact I).
    - vm_compute. reflexivity.
    - vm_compute. reflexivity.
    - vm_compute. reflexivity.
    - apply nodup_nat. vm_compute. reflexivity.
    - repeat constructor; cbn; lia.
    - vm_compute. intuition discriminate.
    - exact Hv.
    - intros p1 vs1 Hv1 _.
      pose proof (has_vals_scheme (wcols_ext20 ++ [wcol_baryon; wcol_strange])
                    (gen_format_extended ++ [gen_format_extension; gen_format_extension]) p1 vs1 eq_refl Hv1) as Hm.
      assert (H22 : exists b, get_slot 22 p1 = Some b).
      { apply (f_equal (fun l => nth 20 l None)) in Hm. cbn [wcols_ext20 wcols_2013 app map nth wcol_baryon fst snd] in Hm.
        rewrite Hm. apply has_vals_length in Hv1. do 21 (destruct vs1 as [|? vs1]; [discriminate|]). eexists; reflexivity. }
      assert (H23 : exists b, get_slot 23 p1 = Some b).
      { apply (f_equal (fun l => nth 21 l None)) in Hm. cbn [wcols_ext20 wcols_2013 app map nth wcol_strange fst snd] in Hm.
        rewrite Hm. apply has_vals_length in Hv1. do 22 (destruct vs1 as [|? vs1]; [discriminate|]). eexists; reflexivity. }
      destruct H22 as (b22 & E22). destruct H23 as (b23 & E23).
      unfold format_particle, row_values, row_formats, wcols_of.
      change ("Oscar2013Extended" =? "ASCII") with false. change ("Oscar2013Extended" =? "Oscar2013") with false.
      change ("Oscar2013Extended" =? "Oscar2013Extended") with true. cbv iota. cbn [orb bind]. rewrite E22, E23. cbn [bind].
      change (wcols_ext20 ++ [wcol_baryon] ++ [wcol_strange])%list with (wcols_ext20 ++ [wcol_baryon; wcol_strange])%list.
      rewrite (col_values _ p1 vs1 Hm). cbn [bind Nat.sub repeat].
      apply zipfmt_scheme; [reflexivity|]. apply has_vals_length in Hv1. rewrite Hv1. reflexivity.
  Qed.

  (* ---------------------------------------------------------------- Oscar2013Extended, 20 and 21 columns
     (old SMASH output without baryon number / strangeness): the loader's table has 22 entries, the trailing
     ones are skipped for a shorter line; the writer prints the optional columns only when they are set *)
  Definition cs_ext20 : scheme := mk_scheme wcols_ext20 gen_format_extended.
  Definition ex_ext20 : scheme := mk_scheme [wcol_baryon; wcol_strange] [gen_format_extension; gen_format_extension].
  Definition cs_ext21 : scheme := mk_scheme (wcols_ext20 ++ [wcol_baryon]) (gen_format_extended ++ [gen_format_extension]).
  Definition ex_ext21 : scheme := mk_scheme [wcol_strange] [gen_format_extension].

  Theorem row_rt_ext20 p vs :
    has_vals cs_ext20 p vs -> get_slot 22 p = None -> get_slot 23 p = None ->
    row_rt tok_float tok_int pdg_valid fmt "Oscar2013Extended" [] 20 p.
  Proof.
    intros Hv H22 H23.
    apply (row_rt_scheme "Oscar2013Extended" [] 20 cs_ext20 ex_ext20
             (fun q => get_slot 22 q = None /\ get_slot 23 q = None) p vs).
    - vm_compute. reflexivity.
    - vm_compute. reflexivity.
    - vm_compute. reflexivity.
    - apply nodup_nat. vm_compute. reflexivity.
    - repeat constructor; cbn; lia.
    - vm_compute. intuition discriminate.
    - exact Hv.
    - split; assumption.
    - intros p1 Hb. split; (rewrite Hb; [reflexivity|vm_compute; intuition discriminate|discriminate]).
    - intros p1 vs1 Hv1 (E22 & E23).
      pose proof (has_vals_scheme wcols_ext20 gen_format_extended p1 vs1 eq_refl Hv1) as Hm.
      unfold format_particle, row_values, row_formats, wcols_of.
      change ("Oscar2013Extended" =? "ASCII") with false. change ("Oscar2013Extended" =? "Oscar2013") with false.
      change ("Oscar2013Extended" =? "Oscar2013Extended") with true. cbv iota. cbn [orb bind]. rewrite E22, E23. cbn [bind].
      change (wcols_ext20 ++ [] ++ [])%list with (wcols_ext20 ++ [])%list. rewrite app_nil_r.
      rewrite (col_values _ p1 vs1 Hm). cbn [bind Nat.sub repeat]. rewrite app_nil_r.
      apply zipfmt_scheme; [reflexivity|]. apply has_vals_length in Hv1. rewrite Hv1. reflexivity.
  Qed.

  Theorem row_rt_ext21 p vs :
    has_vals cs_ext21 p vs -> get_slot 23 p = None ->
    row_rt tok_float tok_int pdg_valid fmt "Oscar2013Extended" [] 21 p.
  Proof.
    intros Hv H23.
    apply (row_rt_scheme "Oscar2013Extended" [] 21 cs_ext21 ex_ext21 (fun q => get_slot 23 q = None) p vs).
    - vm_compute. reflexivity.
    - vm_compute. reflexivity.
    - vm_compute. reflexivity.
    - apply nodup_nat. vm_compute. reflexivity.
    - repeat constructor; cbn; lia.
    - vm_compute. intuition discriminate.
    - exact Hv.
    - exact H23.
    - intros p1 Hb. rewrite Hb; [reflexivity|vm_compute; intuition discriminate|discriminate].
    - intros p1 vs1 Hv1 E23.
      pose proof (has_vals_scheme (wcols_ext20 ++ [wcol_baryon]) (gen_format_extended ++ [gen_format_extension]) p1 vs1 eq_refl Hv1) as Hm.
      assert (H22 : exists b, get_slot 22 p1 = Some b).
      { apply (f_equal (fun l => nth 20 l None)) in Hm. cbn [wcols_ext20 wcols_2013 app map nth wcol_baryon fst snd] in Hm.
        rewrite Hm. apply has_vals_length in Hv1. do 21 (destruct vs1 as [|? vs1]; [discriminate|]). eexists; reflexivity. }
      destruct H22 as (b22 & E22).
      unfold format_particle, row_values, row_formats, wcols_of.
      change ("Oscar2013Extended" =? "ASCII") with false. change ("Oscar2013Extended" =? "Oscar2013") with false.
      change ("Oscar2013Extended" =? "Oscar2013Extended") with true. cbv iota. cbn [orb bind]. rewrite E22, E23. cbn [bind].
      change (wcols_ext20 ++ [wcol_baryon] ++ [])%list with (wcols_ext20 ++ [wcol_baryon])%list.
      rewrite (col_values _ p1 vs1 Hm). cbn [bind Nat.sub repeat].
      apply zipfmt_scheme; [reflexivity|]. apply has_vals_length in Hv1. rewrite Hv1. reflexivity.
  Qed.

  (* ---------------------------------------------------------------- custom ASCII files: ANY duplicate-free list of
     known attribute names, in any order *)
  Definition ascii_entry (a : string) : option (string * nat * colfmt) :=
    match assoc a attr_table, assoc a gen_format_map, assoc a allfields with
    | Some (s, _), Some f, Some (s', _) => if (s =? s')%nat then Some (a, s, f) else None
    | _, _, _ => None
    end.
  Definition known (a : string) : Prop := exists e, ascii_entry a = Some e.
  Definition cs_ascii (attrs : list string) : scheme :=
    flat_map (fun a => match ascii_entry a with Some e => [e] | None => [] end) attrs.

  Lemma ascii_entry_shape a e : ascii_entry a = Some e ->
    exists s isint f c, e = (a, s, f) /\ assoc a attr_table = Some (s, isint) /\ assoc a gen_format_map = Some f /\
                        assoc a allfields = Some (s, c).
  Proof.
    unfold ascii_entry. destruct (assoc a attr_table) as [[s isint]|]; [|discriminate].
    destruct (assoc a gen_format_map) as [f|]; [|discriminate].
    destruct (assoc a allfields) as [[s' c]|]; [|discriminate].
    destruct (Nat.eqb_spec s s') as [<-|]; [|discriminate]. intros H. inversion H; subst.
    exists s, isint, f, c. repeat split; reflexivity.
  Qed.

  Lemma assoc_in {A} a (l : list (string * A)) v : assoc a l = Some v -> In a (map fst l).
  Proof.
    induction l as [|[k w] l IH]; [discriminate|]. cbn [assoc map fst].
    destruct (String.eqb_spec a k) as [->|]; [left; reflexivity|right; apply IH; assumption].
  Qed.

  Lemma index_of_app_notin a : forall pre t, ~ In a pre -> index_of a (pre ++ a :: t)%list = Some (List.length pre).
  Proof.
    induction pre as [|x pre IH]; intros t H; cbn [app index_of List.length].
    - rewrite String.eqb_refl. reflexivity.
    - destruct (String.eqb_spec a x) as [->|]; [exfalso; apply H; left; reflexivity|].
      rewrite IH by (intros Hin; apply H; right; exact Hin). reflexivity.
  Qed.

  Lemma mem_str_in a l : mem_str a l = true <-> In a l.
  Proof.
    unfold mem_str. rewrite existsb_exists. split.
    - intros (x & Hin & E). apply String.eqb_eq in E. subst. exact Hin.
    - intros H. exists a. split; [exact H|apply String.eqb_refl].
  Qed.

  Lemma ascii_mapping_ok : forall t pre seen,
    NoDup (pre ++ t)%list -> Forall known t -> (forall x, In x seen <-> In x pre) ->
    ascii_mapping t (pre ++ t)%list seen = Ok (mapping_from (List.length pre) (cs_ascii t)).
  Proof.
    induction t as [|a t IH]; intros pre seen Hnd Hk Hseen; [reflexivity|].
    inversion Hk as [|? ? (e & He) Hk']; subst.
    destruct (ascii_entry_shape a e He) as (s & isint & f & c & -> & _ & _ & Hall).
    cbn [ascii_mapping]. fold allfields. unfold allfields in Hall |- *.
    destruct (assoc "Allfields" gen_mapping) as [allf|] eqn:Eall; [|discriminate].
    rewrite Hall.
    assert (Hsplit : (pre ++ a :: t)%list = ((pre ++ [a]) ++ t)%list) by (rewrite <- app_assoc; reflexivity).
    rewrite Hsplit. rewrite (IH (pre ++ [a])%list (a :: seen)).
    - cbn [bind].
      assert (Hnotin : ~ In a pre).
      { intros Hin. apply NoDup_remove_2 in Hnd. apply Hnd. apply in_or_app. left. exact Hin. }
      replace (mem_str a seen) with false
        by (symmetry; destruct (mem_str a seen) eqn:E; [exfalso; apply Hnotin, Hseen, mem_str_in, E|reflexivity]).
      rewrite <- Hsplit. rewrite (index_of_app_notin a pre t Hnotin).
      unfold cs_ascii. cbn [flat_map]. rewrite He. cbn [app]. unfold mapping_from. cbn [enum_from map fst snd s_attr s_slot].
      rewrite app_length. cbn [List.length]. rewrite Nat.add_1_r. reflexivity.
    - rewrite <- Hsplit. exact Hnd.
    - exact Hk'.
    - intros x. cbn [In]. rewrite in_app_iff. cbn [In]. rewrite Hseen. tauto.
  Qed.

  (* finite facts about the 22 known attributes, on the regenerated tables *)
  Lemma known_cast : forallb (fun a => match ascii_entry a with Some e => cast_ok true e | None => true end)
                             (map fst attr_table) = true.
  Proof. vm_compute. reflexivity. Qed.
  Lemma known_slots : forallb (fun a => match ascii_entry a with Some e => (s_slot e <? 25)%nat && negb (s_slot e =? 10)%nat | None => true end)
                              (map fst attr_table) = true.
  Proof. vm_compute. reflexivity. Qed.
  Lemma table_slots_nodup : NoDup (map (fun e : string * (nat * bool) => fst (snd e)) attr_table).
  Proof. apply nodup_nat. vm_compute. reflexivity. Qed.

  Lemma assoc_inj_slot : forall (l : list (string * (nat * bool))) a b s i1 i2,
    NoDup (map (fun e : string * (nat * bool) => fst (snd e)) l) ->
    assoc a l = Some (s, i1) -> assoc b l = Some (s, i2) -> a = b.
  Proof.
    induction l as [|[k [s0 i0]] l IH]; intros a b s i1 i2 Hnd Ha Hb; [discriminate|].
    inversion Hnd as [|? ? Hnotin Hnd']; subst. cbn [assoc] in Ha, Hb. cbn [map fst snd] in Hnotin.
    assert (Hin : forall x i, assoc x l = Some (s0, i) -> False).
    { intros x i Hx. apply Hnotin. clear - Hx. induction l as [|[k' [s' i']] l IHl]; [discriminate|].
      cbn [assoc] in Hx. cbn [map fst snd]. destruct (x =? k'); [inversion Hx; subst; left; reflexivity|right; apply IHl, Hx]. }
    destruct (String.eqb_spec a k) as [->|Ha'], (String.eqb_spec b k) as [->|Hb']; try reflexivity.
    - inversion Ha; subst. exfalso. eapply Hin; eauto.
    - inversion Hb; subst. exfalso. eapply Hin; eauto.
    - eapply IH; eauto.
  Qed.

  Lemma cs_ascii_facts : forall attrs, NoDup attrs -> Forall known attrs ->
    forallb (cast_ok true) (cs_ascii attrs) = true /\ NoDup (map s_slot (cs_ascii attrs)) /\
    Forall (fun c => (s_slot c < 25)%nat) (cs_ascii attrs) /\ ~ In 10%nat (map s_slot (cs_ascii attrs)) /\
    (forall x, In x (map s_slot (cs_ascii attrs)) -> exists a i, In a attrs /\ assoc a attr_table = Some (x, i)).
  Proof.
    induction attrs as [|a attrs IH]; intros Hnd Hk.
    - cbn. repeat split; try constructor; try tauto.
    - inversion Hnd as [|? ? Hnotin Hnd']; subst. inversion Hk as [|? ? (e & He) Hk']; subst.
      destruct (IH Hnd' Hk') as (C1 & C2 & C3 & C4 & C5).
      destruct (ascii_entry_shape a e He) as (s & isint & f & c & -> & Hat & _ & _).
      assert (Hina : In a (map fst attr_table)) by (eapply assoc_in; eauto).
      pose proof known_cast as KC. rewrite forallb_forall in KC. specialize (KC a Hina). rewrite He in KC.
      pose proof known_slots as KS. rewrite forallb_forall in KS. specialize (KS a Hina). rewrite He in KS.
      apply andb_true_iff in KS. destruct KS as [KS1 KS2]. apply Nat.ltb_lt in KS1.
      apply negb_true_iff, Nat.eqb_neq in KS2. cbn [s_slot fst snd] in KS1, KS2.
      unfold cs_ascii. cbn [flat_map]. rewrite He. cbn [app]. fold (cs_ascii attrs).
      cbn [forallb map s_slot fst snd]. repeat split.
      + rewrite KC, C1. reflexivity.
      + constructor; [|exact C2]. intros Hin. destruct (C5 s Hin) as (b & i & Hb & Hbt).
        assert (a = b) by (eapply assoc_inj_slot; [exact table_slots_nodup|exact Hat|exact Hbt]). subst. contradiction.
      + constructor; [exact KS1|exact C3].
      + intros [E|Hin]; [congruence|contradiction].
      + intros x [<-|Hin]; [exists a, isint; split; [left; reflexivity|exact Hat]|].
        destruct (C5 x Hin) as (b & i & Hb & Hbt). exists b, i. split; [right; exact Hb|exact Hbt].
  Qed.

  Lemma ascii_writer : forall attrs ncols p1 vs1, Forall known attrs ->
    has_vals (cs_ascii attrs) p1 vs1 -> FP "ASCII" attrs ncols p1 = Ok (TOKS (cs_ascii attrs) vs1).
  Proof.
    intros attrs ncols p1. unfold format_particle, row_values, row_formats.
    change ("ASCII" =? "ASCII") with true. change ("ASCII" =? "Oscar2013") with false.
    change ("ASCII" =? "Oscar2013Extended") with false. change ("ASCII" =? "Oscar2013Extended_IC") with false. cbv iota. cbn [orb].
    induction attrs as [|a attrs IH]; intros vs1 Hk Hv.
    - destruct vs1; [reflexivity|discriminate].
    - inversion Hk as [|? ? (e & He) Hk']; subst.
      destruct (ascii_entry_shape a e He) as (s & isint & f & c & -> & Hat & Hfm & _).
      unfold has_vals, cs_ascii in Hv. cbn [flat_map] in Hv. rewrite He in Hv. cbn [app map s_slot fst snd] in Hv.
      fold (cs_ascii attrs) in Hv. destruct vs1 as [|v vs1]; [discriminate|]. cbn [map] in Hv. injection Hv as Hv0 Hvr.
      specialize (IH vs1 Hk' Hvr).
      cbn [mapr]. rewrite Hat, Hfm. unfold col_value at 1. cbn [fst snd]. rewrite Hv0. cbn [bind].
      destruct (mapr _ attrs) as [vals|] eqn:E1; [|cbn [bind] in IH; discriminate]. cbn [bind] in IH |- *.
      destruct (mapr (fun a0 => match assoc a0 gen_format_map with Some f0 => Ok f0 | None => Err KeyError end) attrs) as [fs|] eqn:E2;
        [|cbn [bind] in IH; discriminate].
      cbn [bind] in IH |- *. cbn [zipfmt]. rewrite IH. cbn [bind].
      unfold cs_ascii. cbn [flat_map]. rewrite He. reflexivity.
  Qed.

  Theorem row_rt_ascii attrs ncols p vs :
    NoDup attrs -> Forall known attrs -> has_vals (cs_ascii attrs) p vs ->
    row_rt tok_float tok_int pdg_valid fmt "ASCII" attrs ncols p.
  Proof.
    intros Hnd Hk Hv. destruct (cs_ascii_facts attrs Hnd Hk) as (C1 & C2 & C3 & C4 & _).
    apply (row_rt_scheme "ASCII" attrs ncols (cs_ascii attrs) [] (fun _ => True) p vs); try exact I; try (intros; exact I);
      try assumption.
    - rewrite app_nil_r. unfold mapping_of. change ("ASCII" =? "ASCII") with true. cbv iota.
      apply (ascii_mapping_ok attrs [] []); [exact Hnd|exact Hk|tauto].
    - reflexivity.
    - intros p1 vs1 Hv1 _. apply ascii_writer; assumption.
  Qed.

  (* ---------------------------------------------------------------- composition for Oscar2013 *)
  Hypothesis dec_numeric : forall z, numeric (dec z) = true.
  Hypothesis dec_int : forall z, (0 <= z)%Z -> tok_int (dec z) = Some (zq z).

  Theorem oscar2013_roundtrip s :
    Inv s -> os_events s <> [] -> os_format s = "Oscar2013" -> os_attrs s = [] ->
    oscar_format (nth 0 (os_header s) []) = Ok ("Oscar2013", []) ->
    kind_scan (nth 0 (os_header s) []) = SOther -> kind_scan (nth 1 (os_header s) []) = SOther ->
    kind_scan (nth 2 (os_header s) []) = SOther ->
    footers_std tok_float (os_footers s) (os_counts s) ->
    Forall (Forall (fun p => exists vs, has_vals cs_2013 p vs)) (os_events s) ->
    exists file,
      write_oscar fmt dec s = Ok file /\
      load tok_float tok_int pdg_valid None file SelAll
        = Ok (expected tok_float tok_int pdg_valid (doc_of fmt dec s) "Oscar2013" []) /\
      write_oscar fmt dec (reread tok_float tok_int pdg_valid fmt dec s) = Ok file.
  Proof.
    intros Hi Hne Hf Ha Hfmt K1 K2 K3 Hfs Hv.
    assert (Hrt : Forall (Forall (row_rt tok_float tok_int pdg_valid fmt (os_format s) (os_attrs s) (ncols_of s))) (os_events s)).
    { rewrite Hf, Ha. eapply Forall_impl; [|exact Hv]. intros ev Hev. eapply Forall_impl; [|exact Hev].
      intros p (vs & Hp). eapply row_rt_2013; exact Hp. }
    assert (Hp : printable fmt s).
    { unfold printable. eapply Forall_impl; [|exact Hrt]. intros ev Hev. eapply Forall_impl; [|exact Hev].
      intros p (row & _ & Hrow & _). exists row. exact Hrow. }
    assert (Hwf : wf tok_float tok_int pdg_valid (doc_of fmt dec s) "Oscar2013" []).
    { pose proof (doc_wf tok_float tok_int pdg_valid fmt dec dec_numeric dec_int s Hi Hne) as H.
      rewrite Hf, Ha in H. apply H; try assumption.
      - left; reflexivity.
      - rewrite Hf, Ha in Hrt. exact Hrt. }
    destruct (read_back tok_float tok_int pdg_valid fmt dec s "Oscar2013" [] Hi Hp Hne Hwf) as (file & Hw & Hl).
    exists file. repeat split; try assumption.
    rewrite (rewrite_fixpoint tok_float tok_int pdg_valid fmt dec s Hi Hne Hrt). exact Hw.
  Qed.

  (* the same composition for any format, given the row round trip of every held particle *)
  Theorem oscar_roundtrip_generic s :
    Inv s -> os_events s <> [] ->
    oscar_format (nth 0 (os_header s) []) = Ok (os_format s, os_attrs s) -> std_format (os_format s) ->
    kind_scan (nth 0 (os_header s) []) = SOther -> kind_scan (nth 1 (os_header s) []) = SOther ->
    kind_scan (nth 2 (os_header s) []) = SOther ->
    footers_std tok_float (os_footers s) (os_counts s) ->
    Forall (Forall (row_rt tok_float tok_int pdg_valid fmt (os_format s) (os_attrs s) (ncols_of s))) (os_events s) ->
    exists file,
      write_oscar fmt dec s = Ok file /\
      load tok_float tok_int pdg_valid None file SelAll
        = Ok (expected tok_float tok_int pdg_valid (doc_of fmt dec s) (os_format s) (os_attrs s)) /\
      write_oscar fmt dec (reread tok_float tok_int pdg_valid fmt dec s) = Ok file.
  Proof.
    intros Hi Hne Hfmt Hstd K1 K2 K3 Hfs Hrt.
    assert (Hp : printable fmt s).
    { unfold printable. eapply Forall_impl; [|exact Hrt]. intros ev Hev. eapply Forall_impl; [|exact Hev].
      intros p (row & _ & Hrow & _). exists row. exact Hrow. }
    pose proof (doc_wf tok_float tok_int pdg_valid fmt dec dec_numeric dec_int s Hi Hne Hfmt Hstd K1 K2 K3 Hfs Hrt) as Hwf.
    destruct (read_back tok_float tok_int pdg_valid fmt dec s _ _ Hi Hp Hne Hwf) as (file & Hw & Hl).
    exists file. repeat split; try assumption.
    rewrite (rewrite_fixpoint tok_float tok_int pdg_valid fmt dec s Hi Hne Hrt). exact Hw.
  Qed.

  (* custom ASCII files: any duplicate-free list of known attributes *)
  Theorem ascii_roundtrip s :
    Inv s -> os_events s <> [] -> os_format s = "ASCII" -> NoDup (os_attrs s) -> Forall known (os_attrs s) ->
    oscar_format (nth 0 (os_header s) []) = Ok ("ASCII", os_attrs s) ->
    kind_scan (nth 0 (os_header s) []) = SOther -> kind_scan (nth 1 (os_header s) []) = SOther ->
    kind_scan (nth 2 (os_header s) []) = SOther ->
    footers_std tok_float (os_footers s) (os_counts s) ->
    Forall (Forall (fun p => exists vs, has_vals (cs_ascii (os_attrs s)) p vs)) (os_events s) ->
    exists file,
      write_oscar fmt dec s = Ok file /\
      load tok_float tok_int pdg_valid None file SelAll
        = Ok (expected tok_float tok_int pdg_valid (doc_of fmt dec s) "ASCII" (os_attrs s)) /\
      write_oscar fmt dec (reread tok_float tok_int pdg_valid fmt dec s) = Ok file.
  Proof.
    intros Hi Hne Hf Hnd Hk Hfmt K1 K2 K3 Hfs Hv.
    pose proof (oscar_roundtrip_generic s Hi Hne) as G. rewrite Hf in G. apply G; try assumption.
    - right; right; reflexivity.
    - eapply Forall_impl; [|exact Hv]. intros ev Hev. eapply Forall_impl; [|exact Hev].
      intros p (vs & Hp). rewrite <- Hf. rewrite Hf. eapply row_rt_ascii; eassumption.
  Qed.
End F.

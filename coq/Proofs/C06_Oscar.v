(* C06 (Oscar family): what the writer writes is the rendering of a document whose events are the held
   events (renumbered from 0, each with its own end line); by C01 that document reads back to the held data
   rounded to the printed precision; writing the re-read object gives the same file. *)
From Coq Require Import List String ZArith QArith Bool Arith Lia.
From SX Require Import Lib.Strs Lib.StrLemmas Gen.GenParticleMap Gen.GenFormats Model.Oscar Model.OscarDoc Model.Writer
  Proofs.C01_Oscar Proofs.C01_Columns Proofs.C01_Shapes Proofs.C06_Row.
Import ListNotations.
Local Open Scope string_scope.

Section P.
  Variable tok_float : string -> option Q.
  Variable tok_int : string -> option Q.
  Variable pdg_valid : Q -> bool.
  Variable fmt : colfmt -> Q -> string.
  Variable dec : Z -> string.

  Notation FP := (format_particle fmt).
  Notation WE := (write_events fmt dec).
  Notation FOOT := (footer_for dec).

  (* ---------------------------------------------------------------- the state right before writing *)
  (* counts describe the held events; every label has an end line with a label token *)
  Fixpoint held_ok (footers : list line) (evs : list (list particle)) (cnts : list (Z * Z)) : Prop :=
    match evs, cnts with
    | [], [] => True
    | ev :: evs', (label, n) :: cnts' =>
      n = Z.of_nat (List.length ev) /\ (0 <= label)%Z /\
      (exists f, nth_error footers (Z.to_nat label) = Some f /\ (3 <= List.length f)%nat) /\
      held_ok footers evs' cnts'
    | _, _ => False
    end.

  Definition Inv (s : ostate) : Prop :=
    os_nevents s = Z.of_nat (List.length (os_events s)) /\
    held_ok (os_footers s) (os_events s) (os_counts s) /\
    (exists h1 h2 h3, os_header s = [h1; h2; h3]).

  (* total versions of the writer's partial functions (used in statements only under [writable]) *)
  Definition row_of (format : string) (attrs : list string) (ncols : nat) (p : particle) : line :=
    match FP format attrs ncols p with Ok l => l | Err _ => [] end.
  Definition foot_of (footers : list line) (label : Z) (pos : nat) : line :=
    match FOOT footers label pos with Ok l => l | Err _ => [] end.

  Fixpoint doc_events (format : string) (attrs : list string) (footers : list line) (ncols pos : nat)
           (evs : list (list particle)) (cnts : list (Z * Z)) : list event :=
    match evs, cnts with
    | ev :: evs', (label, n) :: cnts' =>
      {| e_head := ["#"; "event"; dec (Z.of_nat pos); "out"; dec n];
         e_rows := map (row_of format attrs ncols) ev;
         e_foot := foot_of footers label pos |}
      :: doc_events format attrs footers ncols (S pos) evs' cnts'
    | _, _ => []
    end.

  Definition ncols_of (s : ostate) : nat := first_ncols (os_format s) (os_attrs s) (os_events s).

  Definition doc_of (s : ostate) : doc :=
    {| d_h1 := nth 0 (os_header s) []; d_h2 := nth 1 (os_header s) []; d_h3 := nth 2 (os_header s) [];
       d_events := doc_events (os_format s) (os_attrs s) (os_footers s) (ncols_of s) 0 (os_events s) (os_counts s) |}.

  (* every held particle can be printed *)
  Definition printable (s : ostate) : Prop :=
    Forall (Forall (fun p => exists l, FP (os_format s) (os_attrs s) (ncols_of s) p = Ok l)) (os_events s).

  Lemma take_all {A} (l : list A) : take (List.length l) l = Ok l.
  Proof. induction l as [|x t IH]; cbn [List.length take]; [reflexivity|]. rewrite IH. reflexivity. Qed.

  Lemma mapr_rows format attrs ncols ev :
    Forall (fun p => exists l, FP format attrs ncols p = Ok l) ev ->
    mapr (FP format attrs ncols) ev = Ok (map (row_of format attrs ncols) ev).
  Proof.
    induction 1 as [|p ev (l & Hl) _ IH]; [reflexivity|].
    cbn [mapr map]. unfold row_of at 1. rewrite Hl, IH. reflexivity.
  Qed.

  Lemma set_nth_ok {A} (v : A) : forall (l : list A) i, (i < List.length l)%nat -> exists l', set_nth i v l = Ok l'.
  Proof.
    induction l as [|x t IH]; intros i H; [cbn in H; lia|].
    destruct i; cbn [set_nth]; [eexists; reflexivity|].
    destruct (IH i ltac:(cbn in H; lia)) as (l' & ->). eexists; reflexivity.
  Qed.

  (* ---------------------------------------------------------------- T1: the written file is the rendering *)
  Lemma write_events_render format attrs footers ncols : forall evs cnts pos,
    held_ok footers evs cnts ->
    Forall (Forall (fun p => exists l, FP format attrs ncols p = Ok l)) evs ->
    WE format attrs footers ncols pos evs cnts
    = Ok (render_events (doc_events format attrs footers ncols pos evs cnts)).
  Proof.
    induction evs as [|ev evs IH]; intros cnts pos Hh Hp.
    - destruct cnts; [reflexivity|contradiction].
    - destruct cnts as [|[label n] cnts]; [contradiction|].
      destruct Hh as (Hn & Hl & (f & Hf & Hlen) & Hrest). inversion Hp as [|? ? Hp1 Hp2]; subst.
      cbn [write_events doc_events]. rewrite Nat2Z.id, take_all. cbn [bind].
      rewrite (mapr_rows format attrs ncols ev Hp1). cbn [bind].
      unfold foot_of. unfold footer_for at 1 2. rewrite Hf.
      destruct (set_nth_ok (dec (Z.of_nat pos)) f 2 ltac:(lia)) as (f' & Hf'). rewrite Hf'. cbn [bind].
      rewrite (IH cnts (S pos) Hrest Hp2). cbn [bind].
      unfold render_events. cbn [flat_map]. unfold render_event at 1. cbn [e_head e_rows e_foot]. reflexivity.
  Qed.

  Theorem write_is_render s :
    Inv s -> printable s -> os_events s <> [] ->
    write_oscar fmt dec s = Ok (render (doc_of s)).
  Proof.
    intros (Hn & Hh & (h1 & h2 & h3 & Hhd)) Hp Hne. unfold write_oscar.
    replace (os_nevents s =? 0)%Z with false.
    2:{ symmetry. apply Z.eqb_neq. rewrite Hn. destruct (os_events s); [congruence|cbn; lia]. }
    fold (ncols_of s). rewrite (write_events_render _ _ _ _ _ _ 0 Hh Hp). cbn [bind].
    unfold render, doc_of. rewrite Hhd. reflexivity.
  Qed.

  (* ---------------------------------------------------------------- T2: reading the written file back *)
  Notation WF := (wf tok_float tok_int pdg_valid).
  Notation LOAD := (load tok_float tok_int pdg_valid None).
  Notation EXPECTED := (expected tok_float tok_int pdg_valid).

  Theorem read_back s format attrs :
    Inv s -> printable s -> os_events s <> [] -> WF (doc_of s) format attrs ->
    exists file, write_oscar fmt dec s = Ok file /\ LOAD file SelAll = Ok (EXPECTED (doc_of s) format attrs).
  Proof.
    intros Hi Hp Hne Hwf. exists (render (doc_of s)). split; [apply write_is_render; assumption|].
    apply load_render, Hwf.
  Qed.

  (* what was read back: as many events, each with as many particles, under labels 0.. *)
  Lemma doc_events_length format attrs footers ncols : forall evs cnts pos,
    held_ok footers evs cnts -> List.length (doc_events format attrs footers ncols pos evs cnts) = List.length evs.
  Proof.
    induction evs as [|ev evs IH]; intros cnts pos H; destruct cnts as [|[l n] cnts]; try contradiction; [reflexivity|].
    destruct H as (_ & _ & _ & Hr). cbn [doc_events List.length]. rewrite (IH cnts (S pos) Hr). reflexivity.
  Qed.

  Lemma doc_events_counts format attrs footers ncols : forall evs cnts pos,
    held_ok footers evs cnts ->
    counts_from pos (doc_events format attrs footers ncols pos evs cnts)
    = map (fun ic => (Z.of_nat (fst ic), snd (snd ic))) (combine (seq pos (List.length evs)) cnts).
  Proof.
    induction evs as [|ev evs IH]; intros cnts pos H; destruct cnts as [|[l n] cnts]; try contradiction; [reflexivity|].
    destruct H as (Hn & _ & _ & Hr). cbn [doc_events counts_from List.length seq combine map fst snd e_rows].
    rewrite map_length, (IH cnts (S pos) Hr), Hn. reflexivity.
  Qed.

  Theorem read_back_counts s format attrs :
    Inv s ->
    l_nevents (EXPECTED (doc_of s) format attrs) = os_nevents s /\
    map snd (l_counts (EXPECTED (doc_of s) format attrs)) = map snd (os_counts s) /\
    map fst (l_counts (EXPECTED (doc_of s) format attrs)) = map Z.of_nat (seq 0 (List.length (os_events s))).
  Proof.
    intros (Hn & Hh & _). unfold expected, doc_of. cbn [l_nevents l_counts d_events].
    rewrite (doc_events_length _ _ _ _ _ _ 0 Hh), (doc_events_counts _ _ _ _ _ _ 0 Hh).
    split; [symmetry; exact Hn|].
    assert (Hlen : List.length (os_counts s) = List.length (os_events s)).
    { clear - Hh. revert Hh. generalize (os_counts s) as cnts. induction (os_events s) as [|ev evs IH]; intros [|[l n] cnts] H;
        try contradiction; [reflexivity|]. destruct H as (_ & _ & _ & Hr). cbn. rewrite (IH cnts Hr). reflexivity. }
    generalize 0%nat as pos. revert Hlen. generalize (os_counts s) as cnts. generalize (List.length (os_events s)) as k.
    induction k as [|k IH]; intros [|c cnts] Hlen pos; try discriminate; [split; reflexivity|].
    cbn [seq combine map fst snd]. destruct (IH cnts ltac:(cbn in Hlen; lia) (S pos)) as (A & B).
    split; f_equal; assumption.
  Qed.

  (* ---------------------------------------------------------------- T3: the written document is well-formed *)
  Hypothesis dec_numeric : forall z, numeric (dec z) = true.
  Hypothesis dec_int : forall z, (0 <= z)%Z -> tok_int (dec z) = Some (zq z).

  (* a held particle survives the round trip of its line: printable with numeric tokens, readable, and the
     particle read back prints to the same line *)
  Definition row_rt (format : string) (attrs : list string) (ncols : nat) (p : particle) : Prop :=
    exists row p', FP format attrs ncols p = Ok row /\ forallb numeric row = true /\
                   mk_particle tok_float tok_int pdg_valid format attrs row = Ok p' /\
                   FP format attrs ncols p' = Ok row.

  (* the end lines of the held events are SMASH end lines *)
  Fixpoint footers_std (footers : list line) (cnts : list (Z * Z)) : Prop :=
    match cnts with
    | [] => True
    | (label, _) :: t =>
      (exists lt b yn, nth_error footers (Z.to_nat label) = Some (smash_footer lt b yn) /\
                       numeric b = true /\ b <> "" /\ (exists v, tok_float b = Some v) /\ (yn = "yes" \/ yn = "no"))
      /\ footers_std footers t
    end.

  Lemma set_nth2_footer lt b yn v : set_nth 2 v (smash_footer lt b yn) = Ok (smash_footer v b yn).
  Proof. reflexivity. Qed.

  Lemma doc_events_wf format attrs footers ncols : forall evs cnts pos,
    held_ok footers evs cnts -> footers_std footers cnts ->
    Forall (Forall (row_rt format attrs ncols)) evs ->
    wf_events tok_float tok_int pdg_valid format attrs pos (doc_events format attrs footers ncols pos evs cnts).
  Proof.
    induction evs as [|ev evs IH]; intros cnts pos Hh Hf Hr.
    - destruct cnts; [exact I|contradiction].
    - destruct cnts as [|[label n] cnts]; [contradiction|].
      destruct Hh as (Hn & Hl & _ & Hrest). destruct Hf as ((lt & b & yn & Hfoot & Hb & Hbne & (v & Hv) & Hyn) & Hfrest).
      inversion Hr as [|? ? Hr1 Hr2]; subst.
      cbn [doc_events wf_events]. split; [|apply IH; assumption].
      destruct (header_kinds (dec (Z.of_nat pos)) (dec (Z.of_nat (List.length ev))) (dec_numeric _) (dec_numeric _))
        as (H1 & H2 & H3 & H4).
      assert (Efoot : foot_of footers label pos = smash_footer (dec (Z.of_nat pos)) b yn).
      { unfold foot_of, footer_for. rewrite Hfoot. reflexivity. }
      destruct (footer_kinds (dec (Z.of_nat pos)) b yn (dec_numeric _) Hb Hyn Hbne) as (F1 & F2 & _ & _ & _ & _ & F7).
      unfold wf_event. cbn [e_head e_rows e_foot]. rewrite Efoot, map_length.
      refine (conj H1 (conj H2 (conj _ (conj _ (conj F1 (conj F2 _)))))).
      + exists (dec (Z.of_nat pos)), (dec (Z.of_nat (List.length ev))).
        repeat split; try assumption; apply dec_int; lia.
      + apply Forall_forall. intros r Hin. apply in_map_iff in Hin. destruct Hin as (p & <- & Hp).
        rewrite Forall_forall in Hr1. destruct (Hr1 p Hp) as (row & p' & Hrow & Hnum & Hmk & _).
        unfold row_of. rewrite Hrow. destruct (row_kinds row Hnum) as (K1 & K2).
        repeat split; try assumption. exists p'. exact Hmk.
      + exists v. rewrite F7, Hv. reflexivity.
  Qed.

  Lemma doc_events_last format attrs footers ncols : forall evs cnts pos d0,
    held_ok footers evs cnts -> evs <> [] ->
    exists label, e_foot (last (doc_events format attrs footers ncols pos evs cnts) d0)
                  = foot_of footers label (pos + List.length evs - 1) /\ In label (map fst cnts).
  Proof.
    induction evs as [|ev evs IH]; intros cnts pos d0 Hh Hne; [congruence|].
    destruct cnts as [|[label n] cnts]; [contradiction|]. destruct Hh as (_ & _ & _ & Hrest).
    destruct evs as [|ev' evs'].
    - destruct cnts; [|contradiction]. exists label. cbn [doc_events last e_foot List.length map fst].
      replace (pos + 1 - 1)%nat with pos by lia. split; [reflexivity|left; reflexivity].
    - destruct cnts as [|[l' n'] cnts']; [contradiction|].
      destruct (IH ((l', n') :: cnts') (S pos) d0 Hrest ltac:(congruence)) as (lb & Hlb & Hin).
      exists lb. split; [|right; exact Hin].
      change (last (doc_events format attrs footers ncols pos (ev :: ev' :: evs') ((label, n) :: (l', n') :: cnts')) d0)
        with (last (doc_events format attrs footers ncols (S pos) (ev' :: evs') ((l', n') :: cnts')) d0).
      rewrite Hlb. f_equal. cbn [List.length]. lia.
  Qed.

  Lemma footers_std_in footers cnts label : footers_std footers cnts -> In label (map fst cnts) ->
    exists lt b yn, nth_error footers (Z.to_nat label) = Some (smash_footer lt b yn) /\
                    numeric b = true /\ b <> "" /\ (yn = "yes" \/ yn = "no").
  Proof.
    induction cnts as [|[l n] t IH]; intros H Hin; [destruct Hin|].
    destruct H as ((lt & b & yn & Hf & Hb & Hbne & _ & Hyn) & Ht). destruct Hin as [<-|Hin].
    - exists lt, b, yn. repeat split; assumption.
    - apply IH; assumption.
  Qed.

  Theorem doc_wf s :
    Inv s -> os_events s <> [] ->
    oscar_format (nth 0 (os_header s) []) = Ok (os_format s, os_attrs s) -> std_format (os_format s) ->
    kind_scan (nth 0 (os_header s) []) = SOther -> kind_scan (nth 1 (os_header s) []) = SOther ->
    kind_scan (nth 2 (os_header s) []) = SOther ->
    footers_std (os_footers s) (os_counts s) ->
    Forall (Forall (row_rt (os_format s) (os_attrs s) (ncols_of s))) (os_events s) ->
    WF (doc_of s) (os_format s) (os_attrs s).
  Proof.
    intros (Hn & Hh & _) Hne Hfmt Hstd K1 K2 K3 Hfs Hrt.
    unfold wf, doc_of. cbn [d_h1 d_h2 d_h3 d_events].
    refine (conj Hfmt (conj Hstd (conj K1 (conj K2 (conj K3 (conj _ (conj _ _))))))).
    - intros E. apply (f_equal (@List.length _)) in E. rewrite (doc_events_length _ _ _ _ _ _ 0 Hh) in E.
      destruct (os_events s); [congruence|discriminate].
    - apply doc_events_wf; assumption.
    - rewrite (doc_events_length _ _ _ _ _ _ 0 Hh).
      destruct (doc_events_last (os_format s) (os_attrs s) (os_footers s) (ncols_of s) (os_events s) (os_counts s) 0
                  {| e_head := []; e_rows := []; e_foot := [] |} Hh Hne) as (label & Hl & Hin).
      rewrite Hl. destruct (footers_std_in _ _ label Hfs Hin) as (lt & b & yn & Hf & Hb & Hbne & Hyn).
      unfold foot_of, footer_for. rewrite Hf. cbn [set_nth bind smash_footer].
      fold (smash_footer (dec (Z.of_nat (0 + List.length (os_events s) - 1))) b yn).
      destruct (footer_kinds (dec (Z.of_nat (0 + List.length (os_events s) - 1))) b yn (dec_numeric _) Hb Hyn Hbne)
        as (_ & _ & G3 & G4 & G5 & G6 & _).
      unfold wf_last. refine (conj G3 (conj G4 (conj G5 _))).
      eexists. split; [exact G6|]. rewrite dec_int by lia. f_equal. f_equal.
      destruct (os_events s); [congruence|cbn [List.length]; lia].
  Qed.

  (* ---------------------------------------------------------------- T4: re-writing the re-read object *)
  Definition rt_particle (format : string) (attrs : list string) (ncols : nat) (p : particle) : particle :=
    match mk_particle tok_float tok_int pdg_valid format attrs (row_of format attrs ncols p) with
    | Ok p' => p' | Err _ => blank end.

  Definition reread (s : ostate) : ostate :=
    let ld := EXPECTED (doc_of s) (os_format s) (os_attrs s) in
    {| os_events := l_events ld; os_nevents := l_nevents ld; os_counts := l_counts ld;
       os_format := l_format ld; os_attrs := l_attrs ld; os_footers := l_footers ld;
       os_header := os_header s |}.

  Lemma zipfmt_length : forall fs vs l, zipfmt fmt fs vs = Ok l -> List.length vs = List.length l.
  Proof.
    induction fs as [|f fs IH]; intros [|v vs] l H; cbn in H; try discriminate.
    - inversion H; reflexivity.
    - destruct (zipfmt fmt fs vs) as [r|] eqn:E; [|discriminate]. inversion H; subst. cbn. f_equal. apply (IH vs r E).
  Qed.

  Lemma fp_values_length format attrs ncols p row :
    FP format attrs ncols p = Ok row ->
    exists vs, row_values format attrs p = Ok vs /\ List.length vs = List.length row.
  Proof.
    unfold format_particle. destruct (row_values format attrs p) as [vs|]; [|discriminate]. cbn [bind].
    destruct (row_formats format attrs ncols) as [fs|]; [|discriminate]. cbn [bind]. intros H.
    exists vs. split; [reflexivity|]. apply (zipfmt_length fs vs row H).
  Qed.

  Lemma parse_rt format attrs ncols ev :
    Forall (row_rt format attrs ncols) ev ->
    parse_rows tok_float tok_int pdg_valid format attrs (map (row_of format attrs ncols) ev)
    = map (rt_particle format attrs ncols) ev.
  Proof.
    induction 1 as [|p ev (row & p' & Hrow & _ & Hmk & _) _ IH]; [reflexivity|].
    assert (E : row_of format attrs ncols p = row) by (unfold row_of; rewrite Hrow; reflexivity).
    cbn [map parse_rows]. unfold rt_particle at 1. rewrite E, Hmk, IH. reflexivity.
  Qed.

  Lemma first_ncols_rt format attrs ncols : forall evs,
    Forall (Forall (row_rt format attrs ncols)) evs ->
    first_ncols format attrs (map (map (rt_particle format attrs ncols)) evs) = first_ncols format attrs evs.
  Proof.
    induction evs as [|ev evs IH]; intros H; [reflexivity|]. inversion H as [|? ? H1 H2]; subst.
    destruct ev as [|p ev]; cbn [map first_ncols]; [apply IH, H2|].
    inversion H1 as [|? ? (row & p' & Hrow & _ & Hmk & Hrow') _]; subst.
    unfold rt_particle. unfold row_of. rewrite Hrow, Hmk.
    destruct (fp_values_length _ _ _ _ _ Hrow) as (vs & -> & L1).
    destruct (fp_values_length _ _ _ _ _ Hrow') as (vs' & -> & L2). congruence.
  Qed.

  Lemma rows_rt format attrs ncols ev :
    Forall (row_rt format attrs ncols) ev ->
    map (row_of format attrs ncols) (map (rt_particle format attrs ncols) ev) = map (row_of format attrs ncols) ev.
  Proof.
    induction 1 as [|p ev (row & p' & Hrow & _ & Hmk & Hrow') _ IH]; [reflexivity|].
    cbn [map]. rewrite IH. f_equal. unfold rt_particle, row_of. rewrite Hrow, Hmk, Hrow'. reflexivity.
  Qed.

  Lemma set_nth_same {A} (v : A) : forall (l l' : list A) i, set_nth i v l = Ok l' -> set_nth i v l' = Ok l'.
  Proof.
    induction l as [|x t IH]; intros l' i H; [destruct i; discriminate|].
    destruct i; cbn [set_nth] in H |- *.
    - inversion H; subst. reflexivity.
    - destruct (set_nth i v t) as [r|] eqn:E; [|discriminate]. inversion H; subst. cbn [set_nth].
      rewrite (IH r i E). reflexivity.
  Qed.

  Lemma doc_events_rt format attrs footers ncols : forall evs cnts pos pre,
    held_ok footers evs cnts -> Forall (Forall (row_rt format attrs ncols)) evs ->
    List.length pre = pos ->
    let devs := doc_events format attrs footers ncols pos evs cnts in
    doc_events format attrs (pre ++ map e_foot devs)%list ncols pos
               (map (fun e => parse_rows tok_float tok_int pdg_valid format attrs (e_rows e)) devs)
               (counts_from pos devs)
    = devs.
  Proof.
    induction evs as [|ev evs IH]; intros cnts pos pre Hh Hr Hpre; destruct cnts as [|[label n] cnts];
      try contradiction; [reflexivity|].
    destruct Hh as (Hn & Hl & (f & Hf & Hlen) & Hrest). inversion Hr as [|? ? Hr1 Hr2]; subst.
    cbn [doc_events map counts_from e_rows e_foot]. rewrite map_length.
    cbn [doc_events]. f_equal.
    - rewrite (parse_rt format attrs ncols ev Hr1), (rows_rt format attrs ncols ev Hr1). f_equal.
      unfold foot_of at 1. unfold footer_for at 1. rewrite Nat2Z.id.
      rewrite nth_error_app2 by lia. rewrite Nat.sub_diag. cbn [nth_error].
      unfold foot_of, footer_for. rewrite Hf.
      destruct (set_nth_ok (dec (Z.of_nat (List.length pre))) f 2 ltac:(lia)) as (f' & Hf'). rewrite Hf'.
      rewrite (set_nth_same _ _ _ _ Hf'). reflexivity.
    - specialize (IH cnts (S (List.length pre)) (pre ++ [foot_of footers label (List.length pre)])%list Hrest Hr2).
      rewrite app_length in IH. cbn [List.length] in IH. rewrite Nat.add_1_r in IH. specialize (IH eq_refl).
      cbn zeta in IH. rewrite <- app_assoc in IH. cbn [app] in IH. exact IH.
  Qed.

  Theorem rewrite_fixpoint s :
    Inv s -> os_events s <> [] ->
    Forall (Forall (row_rt (os_format s) (os_attrs s) (ncols_of s))) (os_events s) ->
    write_oscar fmt dec (reread s) = write_oscar fmt dec s.
  Proof.
    intros Hi Hne Hrt. pose proof Hi as (Hn & Hh & (h1 & h2 & h3 & Hhd)).
    assert (Hp : printable s).
    { unfold printable. eapply Forall_impl; [|exact Hrt]. intros ev Hev. eapply Forall_impl; [|exact Hev].
      intros p (row & _ & Hrow & _). exists row. exact Hrow. }
    rewrite (write_is_render s Hi Hp Hne).
    unfold write_oscar, reread, expected. cbn [os_nevents os_events os_counts os_format os_attrs os_footers os_header
                                              l_events l_nevents l_counts l_format l_attrs l_footers].
    unfold doc_of at 1 2 3 4 5 6. cbn [d_events].
    rewrite (doc_events_length _ _ _ _ _ _ 0 Hh).
    replace (Z.of_nat (List.length (os_events s)) =? 0)%Z with false
      by (symmetry; apply Z.eqb_neq; destruct (os_events s); [congruence|cbn; lia]).
    set (devs := doc_events (os_format s) (os_attrs s) (os_footers s) (ncols_of s) 0 (os_events s) (os_counts s)).
    assert (Hev' : map (fun e => parse_rows tok_float tok_int pdg_valid (os_format s) (os_attrs s) (e_rows e)) devs
                   = map (map (rt_particle (os_format s) (os_attrs s) (ncols_of s))) (os_events s)).
    { unfold devs. clear - Hh Hrt. revert Hh Hrt. generalize 0%nat as pos. generalize (os_counts s) as cnts.
      induction (os_events s) as [|ev evs IH]; intros cnts pos Hh Hrt; destruct cnts as [|[l n] cnts]; try contradiction;
        [reflexivity|].
      destruct Hh as (_ & _ & _ & Hr). inversion Hrt as [|? ? H1 H2]; subst.
      cbn [doc_events map e_rows]. rewrite (parse_rt _ _ _ ev H1). f_equal. apply IH; assumption. }
    assert (Hnc : first_ncols (os_format s) (os_attrs s)
                    (map (fun e => parse_rows tok_float tok_int pdg_valid (os_format s) (os_attrs s) (e_rows e)) devs)
                  = ncols_of s).
    { rewrite Hev'. apply first_ncols_rt, Hrt. }
    rewrite Hnc.
    pose proof (doc_events_rt (os_format s) (os_attrs s) (os_footers s) (ncols_of s) (os_events s) (os_counts s) 0 []
                  Hh Hrt eq_refl) as Hd. cbn zeta in Hd. cbn [app] in Hd. fold devs in Hd.
    assert (Hwe : write_events fmt dec (os_format s) (os_attrs s) (map e_foot devs) (ncols_of s) 0
                    (map (fun e => parse_rows tok_float tok_int pdg_valid (os_format s) (os_attrs s) (e_rows e)) devs)
                    (counts_from 0 devs) = Ok (render_events devs)).
    { rewrite <- Hd at 4. apply write_events_render.
      - (* the re-read state satisfies held_ok *)
        rewrite Hev'. unfold devs. clear - Hh Hrt dec_numeric. revert Hh Hrt.
        assert (G : forall evs cnts pos pre, held_ok (os_footers s) evs cnts ->
                      List.length pre = pos ->
                      held_ok (pre ++ map e_foot (doc_events (os_format s) (os_attrs s) (os_footers s) (ncols_of s) pos evs cnts))%list
                              (map (map (rt_particle (os_format s) (os_attrs s) (ncols_of s))) evs)
                              (counts_from pos (doc_events (os_format s) (os_attrs s) (os_footers s) (ncols_of s) pos evs cnts))).
        { induction evs as [|ev evs IH]; intros cnts pos pre Hh Hpre; destruct cnts as [|[l n] cnts]; try contradiction; [exact I|].
          destruct Hh as (Hn' & Hl & (f & Hf & Hlen) & Hr).
          cbn [doc_events map counts_from e_rows e_foot held_ok]. rewrite !map_length.
          refine (conj eq_refl (conj (Nat2Z.is_nonneg pos) (conj _ _))).
          - rewrite Nat2Z.id. rewrite nth_error_app2 by lia. rewrite Hpre, Nat.sub_diag. cbn [nth_error].
            eexists. split; [reflexivity|]. unfold foot_of, footer_for. rewrite Hf.
            destruct (set_nth_ok (dec (Z.of_nat pos)) f 2 ltac:(lia)) as (f' & Hf'). rewrite Hf'.
            clear - Hf' Hlen. revert Hf' Hlen. generalize 2%nat as i. revert f'.
            induction f as [|x t IHf]; intros f' i Hs Hl; [destruct i; discriminate|].
            destruct i; cbn [set_nth] in Hs; [inversion Hs; subst; exact Hl|].
            destruct (set_nth i (dec (Z.of_nat pos)) t) as [r|] eqn:E; [|discriminate]. inversion Hs; subst.
            cbn [List.length] in *. assert (List.length r = List.length t).
            { clear - E. revert r i E. induction t as [|y t IHt]; intros r i E; [destruct i; discriminate|].
              destruct i; cbn [set_nth] in E; [inversion E; reflexivity|].
              destruct (set_nth i (dec (Z.of_nat pos)) t) as [r'|] eqn:E'; [|discriminate]. inversion E; subst.
              cbn. f_equal. apply (IHt r' i E'). }
            lia.
          - specialize (IH cnts (S pos) (pre ++ [foot_of (os_footers s) l pos])%list Hr).
            rewrite app_length in IH. cbn [List.length] in IH. rewrite Hpre, Nat.add_1_r in IH. specialize (IH eq_refl).
            rewrite <- app_assoc in IH. exact IH. }
        intros Hh Hrt. exact (G (os_events s) (os_counts s) 0%nat [] Hh eq_refl).
      - (* printable *)
        rewrite Hev'. apply Forall_forall. intros ev' Hin. apply in_map_iff in Hin. destruct Hin as (ev & <- & Hin).
        rewrite Forall_forall in Hrt. specialize (Hrt ev Hin).
        apply Forall_forall. intros p' Hp'. apply in_map_iff in Hp'. destruct Hp' as (p & <- & Hp0).
        rewrite Forall_forall in Hrt. destruct (Hrt p Hp0) as (row & q & Hrow & _ & Hmk & Hrow').
        exists row. unfold rt_particle, row_of. rewrite Hrow, Hmk. exact Hrow'. }
    rewrite Hwe. cbn [bind]. unfold render, doc_of. rewrite Hhd. reflexivity.
  Qed.
End P.

(* C14: a concrete sample (non-vacuity of the C14 theorems). *)
From Coq Require Import List ZArith QArith Qcanon Bool Arith.
From SX Require Import Model.Histogram Model.Bulk Lib.HistBase Proofs.C09_Count.
Import ListNotations.
Local Open Scope nat_scope.

Definition z2 (n : Z) (d : positive) : Qc := Q2Qc (n # d).
Definition S2 (n : Z) (d : positive) : cell := Some (z2 n d).
(* three events, the first one empty; edges 0, 1, 3 *)
Definition ex_events : list (list cell) := [[]; [S2 0 1; S2 1 2; S2 1 1; S2 3 1; S2 (-1) 1]; [S2 5 2; S2 1 1]].
(* (rapidity, pT) pairs; a NaN rapidity *)
Definition ex_mid : list (list (cell * cell)) :=
  [[]; [(S2 0 1, S2 1 1); (S2 1 2, S2 2 1); (S2 3 1, S2 7 1); (None, S2 9 1)]; [(S2 (-1) 2, S2 5 1)]].

Definition c14_example_stmt : Prop :=
  match differential_yield qsqrt linspace_exact true (BList [z2 0 1; z2 1 1; z2 3 1]) ex_events with
  | Ok h => shapeb h = true /\ map (option_map this) (cur (hH h)) = [Some (2 # 3); Some (1 # 2)]%Q
  | Err _ => False
  end
  /\ match mid_rapidity_yield true (z2 1 1) (map (map fst) ex_mid) with Ok v => this v = (1 # 1)%Q | Err _ => False end
  /\ match mid_rapidity_mean true (z2 1 1) ex_mid with Ok (Some v) => this v = (13 # 4)%Q | _ => False end.

Lemma c14_example : c14_example_stmt.
Proof. vm_compute. repeat split; reflexivity. Qed.

(* Source tie for C15: the hand model Model/Pool.v (the per-task computation, the pool, the driver
   compute_jackknife_estimates) equals the method bodies of src/sparkx/Jackknife.py as regenerated on every run by
   tools/py2coq/gen_jackknife_methods.py (Gen/GenJackknifeMethods.v over Model/JackknifeRt.v).

   Every theorem is stated twice where the hand model goes through Gen/GenJackknife.v (which is regenerated from the same
   source): in CLOSED FORM (number of deleted points Qtrunc (f * n), task seed seed + index, summand (theta - mean)^2,
   scaling (n - d) / (d * N), sqrt) and against the hand model's functions (run_task, pool_samples, jackknife).

   Domain (explicit hypotheses): the object is what __init__ built from a finite float fraction and two ints; the
   statistic is a total pure function into the carrier; num_cores / os.cpu_count() are None or an int >= 1;
   the carrier is a ring (only where the hand model subtracts / multiplies in K what the source computes on ints).
   starmap: ASSUMED to apply the task function to the tuples in order on one initialised worker and to collect by
   position (Model/JackknifeRt.v); the hand model's pool is ANY schedule on ANY worker states, and the theorems below
   hold for every schedule that is a permutation of the tasks (via Proofs/C15_Sched.v). *)
From Coq Require Import List ZArith QArith Qround Bool Permutation Lia Ring Ring_theory InitialRing.
From SX Require Import Lib.Py Lib.PyLemmas Lib.KRing Gen.GenJackknife Model.Pool Model.JackknifeRt
     Gen.GenJackknifeMethods Proofs.C15_Sched Proofs.C15_Data.
Import ListNotations.

(* ---- runtime facts ---------------------------------------------------------------------------------------------- *)
Lemma rt_delete_from_model {T} (idx : list nat) : forall (a : list T) i, rt_delete_from i idx a = delete_from T i idx a.
Proof. induction a as [|x t IH]; intros i; cbn; [reflexivity | rewrite !IH; reflexivity]. Qed.

Lemma rt_np_delete_model {T} (a : list T) idx : rt_np_delete a idx = np_delete T idx a.
Proof. apply rt_delete_from_model. Qed.

Lemma zlen_nonneg {T} (l : list T) : (0 <= zlen l)%Z.
Proof. unfold zlen. lia. Qed.

Lemma getitem_app {T} (pre : list T) x suf : rt_getitem (pre ++ x :: suf) (Z.of_nat (length pre)) = Ok x.
Proof.
  unfold rt_getitem, pyget.
  assert (E : (Z.of_nat (length pre) <? 0)%Z = false) by (apply Z.ltb_ge; lia).
  rewrite E, E, Nat2Z.id, nth_error_app2 by lia. rewrite Nat.sub_diag. reflexivity.
Qed.

(* for i in range(len(l)): acc = F acc l[i]   is the left fold over l *)
Lemma rt_for_getitem {T U} (F : U -> T -> U) (body : U -> Z -> result U) (l : list T) :
  (forall acc i, body acc i = match rt_getitem l i with Err e => Err e | Ok r => Ok (F acc r) end) ->
  forall a, rt_for body (rt_range (zlen l)) a = Ok (fold_left F l a).
Proof.
  intros Hb. unfold rt_range, zlen. rewrite Nat2Z.id.
  assert (G : forall suf pre a, l = pre ++ suf ->
              rt_for body (map Z.of_nat (seq (length pre) (length suf))) a = Ok (fold_left F suf a)).
  { induction suf as [|x suf IH]; intros pre a E; [reflexivity|].
    cbn [length seq map rt_for fold_left]. rewrite Hb, E, getitem_app.
    replace (S (length pre)) with (length (pre ++ [x])) by (rewrite app_length; cbn; lia).
    apply IH. rewrite <- app_assoc. exact E. }
  intros a. apply (G l [] a). reflexivity.
Qed.

(* starmap over [mk i for i in range] when task i returns val i whatever the worker state *)
Lemma rt_starmap_tasks {St T R} (f : T -> St -> result (R * St)) (mk : Z -> T) (val : nat -> R) (nxt : nat -> St -> St) :
  (forall i w, f (mk (Z.of_nat i)) w = Ok (val i, nxt i w)) ->
  forall cnt i0 w, rt_starmap St f (map mk (map Z.of_nat (seq i0 cnt))) w = Ok (map val (seq i0 cnt)).
Proof.
  intros Hf. induction cnt as [|c IH]; intros i0 w; [reflexivity|].
  cbn [seq map rt_starmap]. rewrite Hf, IH. reflexivity.
Qed.

(* ---- the number of deleted points is a legal sample size --------------------------------------------------------- *)
Definition delete_count (f : Q) (n : Z) : Z := Qtrunc (Qmult f (inject_Z n)).

Lemma delete_count_model f n : delete_count f n = gen_jk_delete_n f n.
Proof. reflexivity. Qed.

Lemma delete_count_range f m : (0 <= f)%Q -> (f < 1)%Q ->
  (0 <= delete_count f (Z.of_nat m) <= Z.of_nat m)%Z.
Proof.
  intros H0 H1. destruct m as [|m].
  - unfold delete_count. rewrite (Qtrunc_comp _ 0%Q); [cbn; lia|]. cbn [Z.of_nat]. ring.
  - rewrite delete_count_model. pose proof (delete_n_lt f (Z.of_nat (S m)) H0 H1 ltac:(lia)). lia.
Qed.

Lemma accepted_fraction f : negb (Qle_bool 0 f) || Qle_bool 1 f = false -> (0 <= f)%Q /\ (f < 1)%Q.
Proof.
  intros H. apply orb_false_iff in H as [Ha Hb]. apply negb_false_iff in Ha. split.
  - apply Qle_bool_iff, Ha.
  - apply Qnot_le_lt. intros C. apply Qle_bool_iff in C. congruence.
Qed.

(* ---- Z -> K is a ring morphism (the source computes n - d and d * N on ints, the hand model in K) ----------------- *)
Section Morph.
  Variable K : Type.
  Variables (k0 k1 : K) (kadd kmul ksub : K -> K -> K) (kopp : K -> K).
  Hypothesis Kth : ring_theory k0 k1 kadd kmul ksub kopp (@eq K).
  Notation ofZ := (kz k0 k1 kadd kmul kopp).

  Lemma ofZ_phi z : ofZ z = gen_phiZ k0 k1 kadd kmul kopp z.
  Proof.
    rewrite (same_genZ (Eqsth K) (Eq_ext kadd kmul kopp) Kth). destruct z; reflexivity.
  Qed.
  Lemma ofZ_sub a b : ofZ (a - b) = ksub (ofZ a) (ofZ b).
  Proof. rewrite !ofZ_phi. apply (morph_sub (gen_phiZ_morph (Eqsth K) (Eq_ext kadd kmul kopp) Kth)). Qed.
  Lemma ofZ_mul a b : ofZ (a * b) = kmul (ofZ a) (ofZ b).
  Proof. rewrite !ofZ_phi. apply (morph_mul (gen_phiZ_morph (Eqsth K) (Eq_ext kadd kmul kopp) Kth)). Qed.
End Morph.

(* ---- the methods ------------------------------------------------------------------------------------------------ *)
Section Source.
  Variable K : Type.
  Variables (k0 k1 : K) (kadd kmul ksub kdiv : K -> K -> K) (kopp ksqrt : K -> K).
  Variable is_number : K -> bool.
  Variable St : Type.
  Variable reseed : Z -> St.
  Variable draw : St -> nat -> nat -> list nat * St.
  Variables A Args Kwargs : Type.
  Variable cpu_count : pyval.

  Notation ofZ := (kz k0 k1 kadd kmul kopp).
  Notation g_init := (gen_init K k0 k1 kadd kmul ksub kdiv kopp ksqrt is_number St reseed draw A Args Kwargs cpu_count).
  Notation g_init_random :=
    (gen_init_random K k0 k1 kadd kmul ksub kdiv kopp ksqrt is_number St reseed draw A Args Kwargs cpu_count).
  Notation g_init_random_subprocess :=
    (gen_init_random_subprocess K k0 k1 kadd kmul ksub kdiv kopp ksqrt is_number St reseed draw A Args Kwargs cpu_count).
  Notation g_randomly_delete_data :=
    (gen_randomly_delete_data K k0 k1 kadd kmul ksub kdiv kopp ksqrt is_number St reseed draw A Args Kwargs cpu_count).
  Notation g_apply_function :=
    (gen_apply_function_to_reduced_data K k0 k1 kadd kmul ksub kdiv kopp ksqrt is_number St reseed draw A Args Kwargs cpu_count).
  Notation g_one_sample :=
    (gen_compute_one_jackknife_sample K k0 k1 kadd kmul ksub kdiv kopp ksqrt is_number St reseed draw A Args Kwargs cpu_count).
  Notation g_helper_unpack :=
    (gen_helper_unpack K k0 k1 kadd kmul ksub kdiv kopp ksqrt is_number St reseed draw A Args Kwargs cpu_count).
  Notation g_samples :=
    (gen_compute_jackknife_samples K k0 k1 kadd kmul ksub kdiv kopp ksqrt is_number St reseed draw A Args Kwargs cpu_count).
  Notation g_estimates :=
    (gen_compute_jackknife_estimates K k0 k1 kadd kmul ksub kdiv kopp ksqrt is_number St reseed draw A Args Kwargs cpu_count).

  (* the object __init__ builds *)
  Definition jk_object (dfrac : Q) (N seed : Z) : jself := JSelf (Some dfrac) (Some N) (Some seed).
  (* num_cores / os.cpu_count(): None or an int >= 1 *)
  Definition cores_ok (v : pyval) : Prop := v = VNone \/ exists z, v = VInt z /\ (1 <= z)%Z.
  (* the statistic with the extra arguments bound: the hand model's [stat] *)
  Definition bound (function : list A -> Args -> Kwargs -> K) (args : Args) (kwargs : Kwargs) : list A -> K :=
    fun l => function l args kwargs.

  (* value of task i in closed form: reseed with seed + i, draw d = int(f * n) of the n indices, delete, apply *)
  Definition task_closed (stat : list A -> K) (seed : Z) (dfrac : Q) (data : list A) (i : nat) : K :=
    let n := length data in
    let d := Z.to_nat (delete_count dfrac (Z.of_nat n)) in
    stat (np_delete A (fst (draw (reseed (seed + Z.of_nat i)%Z) n d)) data).

  Lemma task_closed_model stat seed dfrac data i :
    task_closed stat seed dfrac data i = task_value St A K reseed draw stat seed dfrac data i.
  Proof. reflexivity. Qed.

  (* ---- __init__ ---------------------------------------------------------------------------------------------- *)
  (* the two range checks are the first two lines of the hand model's driver (Pool.jackknife_sq); the object holds the
     three arguments; the parent's generator is left freshly seeded *)
  Theorem source_init dfrac N seed g :
    g_init (VFloat dfrac) (VInt N) (VInt seed) g
    = if negb (Qle_bool 0 dfrac) || Qle_bool 1 dfrac then Err ValueError
      else if (N <? 1)%Z then Err ValueError
      else Ok (jk_object dfrac N seed, reseed seed).
  Proof.
    unfold gen_init. cbn. unfold rt_qlt.
    destruct (negb (Qle_bool 0 dfrac) || Qle_bool 1 dfrac); [reflexivity|].
    destruct (N <? 1)%Z; reflexivity.
  Qed.

  (* a fraction that is not a float, a number of samples or a seed that is not an int: TypeError *)
  Theorem source_init_type_error vd vn vs g :
    (forall q, vd <> VFloat q) \/ (forall z, vn <> VInt z) \/ (forall z, vs <> VInt z) ->
    g_init vd vn vs g = Err TypeError.
  Proof.
    intros H. unfold gen_init.
    destruct vd as [| |q|]; cbn; try reflexivity.
    destruct vn as [|z| |]; cbn; try reflexivity.
    destruct vs as [|z'| |]; cbn; try reflexivity.
    exfalso. destruct H as [H|[H|H]]; [apply (H q) | apply (H z) | apply (H z')]; reflexivity.
  Qed.

  Theorem source_init_random df ns seed g : g_init_random (JSelf df ns (Some seed)) g = Ok (tt, reseed seed).
  Proof. reflexivity. Qed.

  Theorem source_init_random_subprocess self z g : g_init_random_subprocess self z g = Ok (tt, reseed z).
  Proof. reflexivity. Qed.

  (* ---- the per-task computation ---------------------------------------------------------------------------------- *)
  Theorem source_randomly_delete_data dfrac ns sd (data : list A) g :
    (0 <= dfrac)%Q -> (dfrac < 1)%Q ->
    let n := length data in
    let d := Z.to_nat (delete_count dfrac (Z.of_nat n)) in
    g_randomly_delete_data (JSelf (Some dfrac) ns sd) data g
    = Ok (np_delete A (fst (draw g n d)) data, snd (draw g n d)).
  Proof.
    intros H0 H1 n d. unfold gen_randomly_delete_data. cbn [delete_fraction_]. unfold rt_copy, rt_sample.
    pose proof (delete_count_range dfrac (length data) H0 H1) as R.
    fold (delete_count dfrac (zlen data)). unfold zlen in *.
    rewrite Z.max_r by lia.
    assert (E1 : (delete_count dfrac (Z.of_nat (length data)) <? 0)%Z = false) by (apply Z.ltb_ge; lia).
    assert (E2 : (Z.of_nat (length data) <? delete_count dfrac (Z.of_nat (length data)))%Z = false) by (apply Z.ltb_ge; lia).
    rewrite E1, E2. cbn [orb]. rewrite Nat2Z.id. fold n. fold d.
    destruct (draw g n d) as [idx g']. cbn [fst snd]. rewrite rt_np_delete_model. reflexivity.
  Qed.

  Theorem source_apply_function_to_reduced_data self (reduced : list A) function args kwargs g :
    g_apply_function self reduced function args kwargs g = Ok (bound function args kwargs reduced, g).
  Proof. reflexivity. Qed.

  Theorem source_compute_one_jackknife_sample dfrac ns sd (data : list A) function args kwargs g :
    (0 <= dfrac)%Q -> (dfrac < 1)%Q ->
    let n := length data in
    let d := Z.to_nat (delete_count dfrac (Z.of_nat n)) in
    g_one_sample (JSelf (Some dfrac) ns sd) data function args kwargs g
    = Ok (bound function args kwargs (np_delete A (fst (draw g n d)) data), snd (draw g n d)).
  Proof.
    intros H0 H1 n d. unfold gen_compute_one_jackknife_sample.
    rewrite (source_randomly_delete_data dfrac ns sd data g H0 H1). reflexivity.
  Qed.

  (* _helper_unpack(instance, index, data, function, args, kwargs) on a process whose generator is in state g:
     closed form, and the hand model's run_task (value and the state the process is left in) *)
  Theorem source_helper_unpack dfrac ns seed (i : nat) (data : list A) function args kwargs g :
    (0 <= dfrac)%Q -> (dfrac < 1)%Q ->
    let n := length data in
    let d := Z.to_nat (delete_count dfrac (Z.of_nat n)) in
    g_helper_unpack (JSelf (Some dfrac) ns (Some seed)) (Z.of_nat i) data function args kwargs g
    = Ok (task_closed (bound function args kwargs) seed dfrac data i,
          snd (draw (reseed (seed + Z.of_nat i)%Z) n d)).
  Proof.
    intros H0 H1 n d. unfold gen_helper_unpack. cbn [seed_]. unfold rt_seed.
    rewrite (source_compute_one_jackknife_sample dfrac ns (Some seed) data function args kwargs _ H0 H1). reflexivity.
  Qed.

  Theorem source_helper_unpack_model dfrac ns seed (i : nat) (data : list A) function args kwargs g :
    (0 <= dfrac)%Q -> (dfrac < 1)%Q ->
    g_helper_unpack (JSelf (Some dfrac) ns (Some seed)) (Z.of_nat i) data function args kwargs g
    = Ok (run_task St A K reseed draw (bound function args kwargs) seed dfrac data g i).
  Proof. intros H0 H1. rewrite (source_helper_unpack dfrac ns seed i data function args kwargs g H0 H1). reflexivity. Qed.

  (* ---- the pool ---------------------------------------------------------------------------------------------------- *)
  Lemma effective_cores nc : cores_ok nc -> cores_ok cpu_count ->
    cores_ok (if rt_is_none nc then cpu_count else nc).
  Proof. intros [->|(z & -> & Hz)] Hc; cbn; [exact Hc | right; exists z; split; [reflexivity | exact Hz]]. Qed.

  Lemma pool_worker nc self z g : cores_ok nc ->
    rt_pool St nc (fun g' => g_init_random_subprocess self z g') g = Ok (reseed z).
  Proof.
    intros [->|(c & -> & Hc)]; cbn; [reflexivity|].
    assert (E : (c <? 1)%Z = false) by (apply Z.ltb_ge; lia). rewrite E. reflexivity.
  Qed.

  (* the samples in closed form; the parent's generator state is not touched *)
  Theorem source_compute_jackknife_samples dfrac N seed (data : list A) function nc args kwargs g :
    (0 <= dfrac)%Q -> (dfrac < 1)%Q -> cores_ok nc -> cores_ok cpu_count ->
    g_samples (jk_object dfrac N seed) data function nc args kwargs g
    = Ok (map (task_closed (bound function args kwargs) seed dfrac data) (seq 0 (Z.to_nat N)), g).
  Proof.
    intros H0 H1 Hnc Hcpu. unfold gen_compute_jackknife_samples.
    assert (E : match rt_as_int nc with None => false | Some z => (z <? 1)%Z end = false).
    { destruct Hnc as [->|(z & -> & Hz)]; cbn; [reflexivity | apply Z.ltb_ge; lia]. }
    rewrite E. cbn [seed_ number_samples_ jk_object].
    rewrite (pool_worker _ _ _ _ (effective_cores nc Hnc Hcpu)).
    unfold rt_range. rewrite map_map with (f := Z.of_nat). rewrite <- map_map with (g := fun z => (jk_object dfrac N seed, z, data, function, args, kwargs)).
    erewrite rt_starmap_tasks; [reflexivity|].
    intros i w. cbn beta iota. apply (source_helper_unpack dfrac (Some N) seed i data function args kwargs w H0 H1).
  Qed.

  (* ... which is what the hand model's pool returns for EVERY schedule that runs each task (any workers, any order,
     any initial worker states) *)
  Theorem source_compute_jackknife_samples_model dfrac N seed (data : list A) function nc args kwargs g sched init :
    (0 <= dfrac)%Q -> (dfrac < 1)%Q -> cores_ok nc -> cores_ok cpu_count ->
    Permutation (map snd sched) (seq 0 (Z.to_nat N)) ->
    g_samples (jk_object dfrac N seed) data function nc args kwargs g
    = match pool_samples St A K reseed draw (bound function args kwargs) seed dfrac data (Z.to_nat N) sched init with
      | Some th => Ok (th, g)
      | None => Err OtherError
      end.
  Proof.
    intros H0 H1 Hnc Hcpu P.
    rewrite (pool_permutation St A K reseed draw (bound function args kwargs) seed dfrac data (Z.to_nat N) sched init P).
    apply source_compute_jackknife_samples; assumption.
  Qed.

  (* an int below 1 as num_cores: ValueError, whatever the object and the data *)
  Theorem source_compute_jackknife_samples_num_cores self (data : list A) function z args kwargs g :
    (z < 1)%Z -> g_samples self data function (VInt z) args kwargs g = Err ValueError.
  Proof.
    intros Hz. unfold gen_compute_jackknife_samples. cbn [rt_as_int].
    assert (E : (z <? 1)%Z = true) by (apply Z.ltb_lt; exact Hz). rewrite E. reflexivity.
  Qed.

  (* ---- compute_jackknife_estimates --------------------------------------------------------------------------------- *)
  (* the slice the function is tried on: data[: max(1, len(data) // 100)] *)
  Definition test_slice (data : list A) : list A := rt_slice_to data (Z.max 1 (zlen data / 100)).

  (* closed form of the radicand: sum_i (theta_i - mean)^2 accumulated from 0 in index order, times (n - d) / (d * N) *)
  Definition radicand_closed (n d : Z) (th : list K) : K :=
    let mean := kdiv (ksum k0 kadd th) (ofZ (zlen th)) in
    kmul (fold_left (fun acc t => kadd acc (kpow k1 kmul (ksub t mean) 2)) th k0)
         (kdiv (ofZ (n - d)) (ofZ (d * zlen th))).

  Theorem source_compute_jackknife_estimates dfrac N seed (data : list A) function nc args kwargs g :
    (0 <= dfrac)%Q -> (dfrac < 1)%Q -> (1 <= N)%Z -> cores_ok nc -> cores_ok cpu_count ->
    is_number (bound function args kwargs (test_slice data)) = true ->
    let n := zlen data in
    let d := delete_count dfrac n in
    let th := map (task_closed (bound function args kwargs) seed dfrac data) (seq 0 (Z.to_nat N)) in
    g_estimates (jk_object dfrac N seed) data function nc args kwargs g
    = if (d <? 1)%Z then Err ValueError else Ok (ksqrt (radicand_closed n d th), g).
  Proof.
    intros H0 H1 HN Hnc Hcpu Hnum n d th. unfold gen_compute_jackknife_estimates.
    cbn [delete_fraction_ jk_object]. change (Qtrunc (Qmult dfrac (inject_Z (zlen data)))) with d.
    destruct (d <? 1)%Z eqn:Ed; [reflexivity|].
    unfold rt_is_ndarray, rt_callable. cbn [negb].
    unfold bound, test_slice in Hnum. rewrite Hnum. cbn [negb].
    change (JSelf (Some dfrac) (Some N) (Some seed)) with (jk_object dfrac N seed).
    rewrite (source_compute_jackknife_samples dfrac N seed data function nc args kwargs g H0 H1 Hnc Hcpu).
    fold th.
    rewrite (rt_for_getitem (fun acc t => kadd acc (kpow k1 kmul (ksub t (rt_np_mean K k0 k1 kadd kmul kdiv kopp th)) 2)))
      by (intros acc i; destruct (rt_getitem th i); reflexivity).
    unfold rt_truediv_int.
    assert (Hlen : zlen th = N).
    { unfold th, zlen. rewrite map_length, seq_length. lia. }
    assert (E : (d * zlen th =? 0)%Z = false).
    { apply Z.eqb_neq. rewrite Hlen. apply Z.ltb_ge in Ed. nia. }
    rewrite E. reflexivity.
  Qed.

  (* fewer than one point to delete: ValueError before anything else is looked at *)
  Theorem source_estimates_rejects_small_fraction dfrac ns sd (data : list A) function nc args kwargs g :
    (delete_count dfrac (zlen data) < 1)%Z ->
    g_estimates (JSelf (Some dfrac) ns sd) data function nc args kwargs g = Err ValueError.
  Proof.
    intros Hd. unfold gen_compute_jackknife_estimates. cbn [delete_fraction_].
    fold (delete_count dfrac (zlen data)).
    assert (E : (delete_count dfrac (zlen data) <? 1)%Z = true) by (apply Z.ltb_lt; exact Hd). rewrite E. reflexivity.
  Qed.

  (* the function does not return an int / float on the test slice: TypeError, the pool is never started *)
  Theorem source_estimates_rejects_non_number dfrac ns sd (data : list A) function nc args kwargs g :
    (1 <= delete_count dfrac (zlen data))%Z ->
    is_number (bound function args kwargs (test_slice data)) = false ->
    g_estimates (JSelf (Some dfrac) ns sd) data function nc args kwargs g = Err TypeError.
  Proof.
    intros Hd Hnum. unfold gen_compute_jackknife_estimates. cbn [delete_fraction_].
    fold (delete_count dfrac (zlen data)).
    assert (E : (delete_count dfrac (zlen data) <? 1)%Z = false) by (apply Z.ltb_ge; exact Hd). rewrite E.
    unfold rt_is_ndarray, rt_callable. cbn [negb].
    unfold bound, test_slice in Hnum. rewrite Hnum. reflexivity.
  Qed.

  (* ---- against the hand model's driver ------------------------------------------------------------------------------ *)
  Hypothesis Kth : ring_theory k0 k1 kadd kmul ksub kopp (@eq K).

  Lemma radicand_model n d th :
    radicand_closed n d th = estimate_sq K k0 k1 kadd kmul ksub kdiv kopp n d th.
  Proof.
    unfold radicand_closed, estimate_sq, variance_sum, mean_samples, gen_jk_term, gen_jk_factor, zlen.
    rewrite (ofZ_sub K k0 k1 kadd kmul ksub kopp Kth), (ofZ_mul K k0 k1 kadd kmul ksub kopp Kth). reflexivity.
  Qed.

  (* Jackknife(f, N, seed).compute_jackknife_estimates(data, function, num_cores, *args, **kwargs) for an object that
     passed __init__: the hand model's driver, for every schedule / worker states of its pool *)
  Theorem source_compute_jackknife_estimates_model dfrac N seed (data : list A) function nc args kwargs g sched init :
    (0 <= dfrac)%Q -> (dfrac < 1)%Q -> (1 <= N)%Z -> cores_ok nc -> cores_ok cpu_count ->
    is_number (bound function args kwargs (test_slice data)) = true ->
    Permutation (map snd sched) (seq 0 (Z.to_nat N)) ->
    g_estimates (jk_object dfrac N seed) data function nc args kwargs g
    = rmap (fun e => (e, g))
           (jackknife K k0 k1 kadd kmul ksub kdiv kopp ksqrt St A reseed draw dfrac N seed data
                      (bound function args kwargs) sched init).
  Proof.
    intros H0 H1 HN Hnc Hcpu Hnum P.
    rewrite (source_compute_jackknife_estimates dfrac N seed data function nc args kwargs g H0 H1 HN Hnc Hcpu Hnum).
    unfold jackknife, jackknife_sq.
    assert (Ea : negb (Qle_bool 0 dfrac) || Qle_bool 1 dfrac = false).
    { apply orb_false_iff. split.
      - apply negb_false_iff, Qle_bool_iff, H0.
      - destruct (Qle_bool 1 dfrac) eqn:C; [|reflexivity]. apply Qle_bool_iff in C. exfalso. apply (Qlt_not_le _ _ H1 C). }
    assert (Eb : (N <? 1)%Z = false) by (apply Z.ltb_ge; exact HN).
    rewrite Ea, Eb. cbn zeta.
    rewrite (pool_permutation St A K reseed draw (bound function args kwargs) seed dfrac data (Z.to_nat N) sched init P).
    change (gen_jk_delete_n dfrac (Z.of_nat (length data))) with (delete_count dfrac (Z.of_nat (length data))).
    unfold gen_jk_min_delete, zlen.
    destruct (delete_count dfrac (Z.of_nat (length data)) <? 1)%Z; [reflexivity|].
    cbn [rmap snd]. rewrite radicand_model. reflexivity.
  Qed.

  (* construction followed by the call, every float fraction, every int number of samples and seed: the hand model's
     driver including which inputs are rejected; the parent's generator is left as __init__ seeded it *)
  Theorem source_jackknife dfrac N seed (data : list A) function nc args kwargs g sched init :
    cores_ok nc -> cores_ok cpu_count ->
    is_number (bound function args kwargs (test_slice data)) = true ->
    Permutation (map snd sched) (seq 0 (Z.to_nat N)) ->
    rbind (g_init (VFloat dfrac) (VInt N) (VInt seed) g)
          (fun sg => g_estimates (fst sg) data function nc args kwargs (snd sg))
    = rmap (fun e => (e, reseed seed))
           (jackknife K k0 k1 kadd kmul ksub kdiv kopp ksqrt St A reseed draw dfrac N seed data
                      (bound function args kwargs) sched init).
  Proof.
    intros Hnc Hcpu Hnum P. rewrite source_init.
    destruct (negb (Qle_bool 0 dfrac) || Qle_bool 1 dfrac) eqn:Ea.
    { unfold jackknife, jackknife_sq. rewrite Ea. reflexivity. }
    destruct (N <? 1)%Z eqn:Eb.
    { unfold jackknife, jackknife_sq. rewrite Ea, Eb. reflexivity. }
    destruct (accepted_fraction dfrac Ea) as [H0 H1]. apply Z.ltb_ge in Eb.
    cbn [rbind fst snd].
    apply (source_compute_jackknife_estimates_model dfrac N seed data function nc args kwargs (reseed seed) sched init);
      assumption.
  Qed.
End Source.

(* defaults of the keyword arguments *)
Theorem source_defaults :
  gen_default_init_seed = VInt 42
  /\ gen_default_compute_jackknife_samples_num_cores = VNone
  /\ gen_default_compute_jackknife_estimates_num_cores = VNone.
Proof. repeat split; reflexivity. Qed.

(* non-vacuity, on the executable instance of Model/Pool.v (exact rationals, the generator an oracle table): the case of
   C15_example - 4 points, fraction 1/4 (d = 1), 2 samples, seed 7, statistic = sum, 3 cores - run through the
   TRANSLATED __init__ and compute_jackknife_estimates (np.sqrt left symbolic as the identity): radicand 27/4, the
   parent's generator as __init__ seeded it *)
Theorem source_example :
  rbind (gen_init Q 0%Q 1%Q rplus rmult rminus rdiv Qopp (fun x => x) (fun _ => true) ostate (fun z => Some z)
                  (table_draw [(7, [0%nat]); (8, [3%nat])]%Z) Q unit unit VNone
                  (VFloat (1 # 4)) (VInt 2) (VInt 7) None)
        (fun sg => gen_compute_jackknife_estimates Q 0%Q 1%Q rplus rmult rminus rdiv Qopp (fun x => x) (fun _ => true) ostate
                     (fun z => Some z) (table_draw [(7, [0%nat]); (8, [3%nat])]%Z) Q unit unit VNone
                     (fst sg) [1; 2; 3; 4]%Q (fun l _ _ => fold_left rplus l 0%Q) (VInt 3) tt tt (snd sg))
  = Ok ((27 # 4)%Q, Some 7%Z).
Proof. vm_compute. reflexivity. Qed.

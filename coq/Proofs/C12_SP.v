(* C12 - ScalarProductFlow and EventPlaneFlow: a unit rotation of an event (flow and reference particles alike),
   a permutation of the particles of an event and a permutation of the events are instances of the relation of
   Proofs/C12_Skel.v; differential flow commutes with them; one all-containing bin = integrated. *)
From Coq Require Import List ZArith Ring Ring_theory Arith Lia Bool Permutation.
From SX Require Import Lib.KRing Lib.Cpx Model.FlowRP Model.FlowSP Model.FlowEP Proofs.C12_Skel.
Import ListNotations.

Section SPEP.
  Variable K : Type.
  Variables (k0 k1 : K) (kadd kmul ksub : K -> K -> K) (kopp : K -> K).
  Variables (kinv ksqrt kabs : K -> K) (kis0 : K -> bool) (kltb : K -> K -> bool).
  Hypothesis Kth : ring_theory k0 k1 kadd kmul ksub kopp (@eq K).
  Add Ring KringSP : Kth.
  Variable D : Type.
  Variables (pw pwt : D -> K) (inA inB inbin : D -> bool).
  Notation C := (cpx K).
  Notation part := (part K D).
  Notation event := (event K D).
  Notation Unit := (cunit K k0 k1 kadd kmul ksub kopp).
  Notation Cmul := (cmul K kadd kmul ksub).
  Notation Rotp := (rotp K kadd kmul ksub D).
  Notation Rote := (rote K kadd kmul ksub D).
  Notation Qvec := (qvec K k0 kadd kmul D pw).
  Notation Qfull := (qfull K k0 kadd kmul D pw).
  Notation ToBin := (to_bin K D inbin).

  (* the two ways of relating samples *)
  Definition rotated (evs evs' : list event) : Prop :=
    Forall2 (fun e e' => exists rho, Unit rho /\ e' = Rote rho e) evs evs'.
  Definition pperm (e e' : event) : Prop := Permutation (fst e) (fst e') /\ Permutation (snd e) (snd e').
  Definition reordered (evs evs' : list event) : Prop :=
    exists evs1, Forall2 pperm evs evs1 /\ Permutation evs1 evs'.

  Ltac kr := cbv beta iota zeta delta [Cpx.cscale Cpx.csub Cpx.cadd Cpx.cmul Cpx.copp Cpx.conj Cpx.ofK Cpx.c0 Cpx.c1
                                       Cpx.re Cpx.im fst snd]; ring.

  Lemma filter_rot (sel : D -> bool) rho ev :
    filter (fun p : part => sel (snd p)) (map (Rotp rho) ev) = map (Rotp rho) (filter (fun p : part => sel (snd p)) ev).
  Proof.
    induction ev as [|p ev IH]; [reflexivity|]. cbn [map filter rotp snd]. destruct (sel (snd p)); cbn [map]; rewrite IH; reflexivity.
  Qed.

  Lemma wsum_rot rho ev :
    csum K k0 kadd (map (fun p : part => cscale K kmul (pw (snd p)) (fst p)) (map (Rotp rho) ev))
    = Cmul rho (csum K k0 kadd (map (fun p : part => cscale K kmul (pw (snd p)) (fst p)) ev)).
  Proof.
    unfold csum. induction ev as [|p ev IH]; cbn [map ksum rotp fst snd].
    - apply (cpx_ext K); kr.
    - rewrite IH. generalize (ksum (c0 K k0) (cadd K kadd) (map (fun p0 : part => cscale K kmul (pw (snd p0)) (fst p0)) ev)).
      intros s. destruct p as [u d]. cbn [fst snd]. apply (cpx_ext K); kr.
  Qed.

  Lemma qvec_rot sel rho ev : Qvec sel (map (Rotp rho) ev) = Cmul rho (Qvec sel ev).
  Proof. unfold qvec. rewrite filter_rot. apply wsum_rot. Qed.
  Lemma qfull_rot rho ev : Qfull (map (Rotp rho) ev) = Cmul rho (Qfull ev).
  Proof. apply wsum_rot. Qed.

  Lemma unit_norm rho : Unit rho -> kadd (kmul (re rho) (re rho)) (kmul (im rho) (im rho)) = k1.
  Proof. apply (cunit_iff K k0 k1 kadd kmul ksub kopp Kth). Qed.

  (* Re(conj(rho a) (rho b)) = |rho|^2 Re(conj a b) *)
  Lemma re_conj_rot rho (a b : C) : Unit rho ->
    re (Cmul (conj kopp (Cmul rho a)) (Cmul rho b)) = re (Cmul (conj kopp a) b).
  Proof.
    intros H. transitivity (kmul (kadd (kmul (re rho) (re rho)) (kmul (im rho) (im rho))) (re (Cmul (conj kopp a) b))).
    - kr.
    - rewrite (unit_norm rho H). ring.
  Qed.

  Lemma qvec_perm sel ev ev' : Permutation ev ev' -> Qvec sel ev = Qvec sel ev'.
  Proof.
    intros H. unfold qvec. apply (csum_map_perm K k0 k1 kadd kmul ksub kopp Kth), (perm_filter _ _ _ H).
  Qed.
  Lemma qfull_perm ev ev' : Permutation ev ev' -> Qfull ev = Qfull ev'.
  Proof. intros H. unfold qfull. apply (csum_map_perm K k0 k1 kadd kmul ksub kopp Kth), H. Qed.

  (* binning commutes with both relations *)
  Lemma tobin_rot rho e : ToBin (Rote rho e) = Rote rho (ToBin e).
  Proof. unfold to_bin, rote. cbn [fst snd]. rewrite filter_rot. reflexivity. Qed.
  Lemma rotated_bin evs evs' : rotated evs evs' -> rotated (map ToBin evs) (map ToBin evs').
  Proof.
    unfold rotated. induction 1 as [|e e' l l' [rho [Hr He]] Hl IH]; cbn [map]; [constructor|]. constructor; [|exact IH].
    exists rho. split; [exact Hr|]. rewrite He. apply tobin_rot.
  Qed.
  Lemma reordered_bin evs evs' : reordered evs evs' -> reordered (map ToBin evs) (map ToBin evs').
  Proof.
    intros [evs1 [H1 H2]]. exists (map ToBin evs1). split; [|apply Permutation_map, H2]. clear H2.
    induction H1 as [|e e' l l' [Hf Hs] Hl IH]; cbn [map]; [constructor|]. constructor; [|exact IH].
    split; cbn [to_bin fst snd]; [apply perm_filter, Hf | exact Hs].
  Qed.
  Lemma bin_all evs : (forall d, inbin d = true) -> map ToBin evs = evs.
  Proof.
    intros H. induction evs as [|[f r] evs IH]; cbn [map]; [reflexivity|]. rewrite IH. unfold to_bin. cbn [fst snd].
    rewrite (filter_all (fun p : part => inbin (snd p))); [reflexivity | intros x; apply H].
  Qed.

  (* ---------------- scalar product ---------------- *)
  Notation Qnsq := (qnsq K k0 kadd kmul ksub kopp D pw inA inB).
  Notation SPobs := (sp_obs K kadd kmul ksub kopp kabs D pw).
  Notation SPint := (sp_integrated K k0 k1 kadd kmul ksub kopp kinv ksqrt kabs kis0 kltb D pw pwt inA inB).
  Notation SPdiff := (sp_differential_bin K k0 k1 kadd kmul ksub kopp kinv ksqrt kabs kis0 kltb D pw pwt inA inB inbin).
  Notation WVsp sc := (wv K D pwt (fun e p => SPobs sc (Qfull (snd e)) p)).

  Lemma qnsq_rot rho e : Unit rho -> Qnsq (Rote rho e) = Qnsq e.
  Proof. intros H. unfold qnsq, rote. cbn [snd]. rewrite !qvec_rot. apply re_conj_rot, H. Qed.

  Lemma sp_obs_rot sc rho Q p : Unit rho -> SPobs sc (Cmul rho Q) (Rotp rho p) = SPobs sc Q p.
  Proof.
    intros H. unfold sp_obs, rotp. cbn [fst snd]. destruct sc.
    - transitivity (re (Cmul (conj kopp (Cmul rho (fst p)))
                             (Cmul rho (csub K ksub Q (cscale K kmul (kabs (pw (snd p))) (fst p)))))).
      + f_equal. f_equal. apply (cpx_ext K); kr.
      + apply re_conj_rot, H.
    - apply re_conj_rot, H.
  Qed.

  Lemma wv_sp_rot sc rho e : Unit rho -> WVsp sc (Rote rho e) = WVsp sc e.
  Proof.
    intros H. unfold wv, rote. cbn [fst snd]. rewrite map_map, qfull_rot. apply map_ext. intros p.
    cbn [rotp snd]. f_equal. apply (sp_obs_rot sc rho (Qfull (snd e)) p H).
  Qed.

  Lemma sp_rel_rot sc evs evs' : rotated evs evs' ->
    Forall2 (evrel K D pwt Qnsq Qnsq (fun e p => SPobs sc (Qfull (snd e)) p) (fun e p => SPobs sc (Qfull (snd e)) p)) evs evs'.
  Proof.
    induction 1 as [|e e' l l' [rho [Hr He]] Hl IH]; [constructor|]. constructor; [|exact IH]. subst e'. split.
    - symmetry. apply qnsq_rot, Hr.
    - rewrite (wv_sp_rot sc rho e Hr). apply Permutation_refl.
  Qed.

  Lemma sp_rel_perm sc evs evs1 : Forall2 pperm evs evs1 ->
    Forall2 (evrel K D pwt Qnsq Qnsq (fun e p => SPobs sc (Qfull (snd e)) p) (fun e p => SPobs sc (Qfull (snd e)) p)) evs evs1.
  Proof.
    induction 1 as [|e e' l l' [Hf Hs] Hl IH]; [constructor|]. constructor; [|exact IH]. split.
    - unfold qnsq. rewrite (qvec_perm inA _ _ Hs), (qvec_perm inB _ _ Hs). reflexivity.
    - unfold wv. rewrite (qfull_perm _ _ Hs). apply Permutation_map, Hf.
  Qed.

  Theorem sp_rotation sc evs evs' : rotated evs evs' -> SPint sc evs = SPint sc evs'.
  Proof.
    intros H. unfold sp_integrated.
    apply (skel_invariant K k0 k1 kadd kmul ksub kopp kinv ksqrt kis0 kltb Kth D pwt _ _ _ _ _ evs evs' evs').
    - apply sp_rel_rot, H.
    - apply Permutation_refl.
  Qed.

  Theorem sp_reorder sc evs evs' : reordered evs evs' -> SPint sc evs = SPint sc evs'.
  Proof.
    intros [evs1 [H1 H2]]. unfold sp_integrated.
    apply (skel_invariant K k0 k1 kadd kmul ksub kopp kinv ksqrt kis0 kltb Kth D pwt _ _ _ _ _ evs evs1 evs').
    - apply sp_rel_perm, H1.
    - exact H2.
  Qed.

  Theorem sp_diff_rotation sc evs evs' : rotated evs evs' -> SPdiff sc evs = SPdiff sc evs'.
  Proof. intros H. apply sp_rotation, rotated_bin, H. Qed.
  Theorem sp_diff_reorder sc evs evs' : reordered evs evs' -> SPdiff sc evs = SPdiff sc evs'.
  Proof. intros H. apply sp_reorder, reordered_bin, H. Qed.
  Theorem sp_diff_all sc evs : (forall d, inbin d = true) -> SPdiff sc evs = SPint sc evs.
  Proof. intros H. unfold sp_differential_bin. rewrite (bin_all evs H). reflexivity. Qed.

  (* ---------------- event plane ---------------- *)
  Variable cosAB : C -> C -> K.
  Variable obs : C -> C -> K.
  Variable res_fun : K -> K.
  (* what arctan2 provides (Proofs/C12_EPReal.v): the cosines only depend on the relative orientation, as long as
     the vectors whose angle is taken do not vanish *)
  Hypothesis cosAB_rot : forall rho a b, Unit rho -> a <> c0 K k0 -> b <> c0 K k0 ->
    cosAB (Cmul rho a) (Cmul rho b) = cosAB a b.
  Hypothesis obs_rot : forall rho u Q, Unit rho -> Q <> c0 K k0 -> obs (Cmul rho u) (Cmul rho Q) = obs u Q.

  Notation Qnorm := (qnorm K k0 kadd kmul kinv ksqrt kis0 D pw).
  Notation Rn2 := (rn2 K k0 kadd kmul kinv ksqrt kis0 D pw inA inB cosAB).
  Notation EPobs := (ep_obs K kmul ksub kabs D pw obs).
  Notation EPint := (ep_integrated K k0 k1 kadd kmul ksub kinv ksqrt kabs kis0 kltb D pw pwt inA inB cosAB obs res_fun).
  Notation EPdiff := (ep_differential_bin K k0 k1 kadd kmul ksub kinv ksqrt kabs kis0 kltb D pw pwt inA inB inbin cosAB obs res_fun).
  Notation WVep sc := (wv K D pwt (fun e p => EPobs sc (Qfull (snd e)) p)).

  (* the vector whose angle enters the observable of particle p *)
  Definition qprime (sc : bool) (e : event) (p : part) : C :=
    if sc then csub K ksub (Qfull (snd e)) (cscale K kmul (kabs (pw (snd p))) (fst p)) else Qfull (snd e).
  (* no vanishing vector: both sub-events and every corrected reference vector *)
  Definition nondegenerate (sc : bool) (e : event) : Prop :=
    Qnorm inA (snd e) <> c0 K k0 /\ Qnorm inB (snd e) <> c0 K k0 /\ Forall (fun p => qprime sc e p <> c0 K k0) (fst e).

  Lemma sumw2_rot sel rho ev :
    sumw2 K k0 kadd kmul D pw sel (map (Rotp rho) ev) = sumw2 K k0 kadd kmul D pw sel ev.
  Proof. unfold sumw2. rewrite filter_rot, map_map. reflexivity. Qed.

  Lemma qnorm_rot sel rho ev : Qnorm sel (map (Rotp rho) ev) = Cmul rho (Qnorm sel ev).
  Proof.
    unfold qnorm. cbv zeta. rewrite sumw2_rot, qvec_rot. destruct (kis0 _).
    - apply (cpx_ext K); kr.
    - generalize (kinv (ksqrt (sumw2 K k0 kadd kmul D pw sel ev))) (Qvec sel ev). intros x q. apply (cpx_ext K); kr.
  Qed.

  Lemma rn2_rot sc rho e : Unit rho -> nondegenerate sc e -> Rn2 (Rote rho e) = Rn2 e.
  Proof. intros H [Ha [Hb _]]. unfold rn2, rote. cbn [snd]. rewrite !qnorm_rot. apply cosAB_rot; assumption. Qed.

  Lemma ep_obs_rot sc rho e p : Unit rho -> qprime sc e p <> c0 K k0 ->
    EPobs sc (Cmul rho (Qfull (snd e))) (Rotp rho p) = EPobs sc (Qfull (snd e)) p.
  Proof.
    intros H Hq. unfold ep_obs, rotp, qprime in *. cbn [fst snd]. destruct sc.
    - rewrite <- (obs_rot rho (fst p) _ H Hq). f_equal. apply (cpx_ext K); kr.
    - apply obs_rot; assumption.
  Qed.

  Lemma wv_ep_rot sc rho e : Unit rho -> nondegenerate sc e -> WVep sc (Rote rho e) = WVep sc e.
  Proof.
    intros H [_ [_ Hq]]. unfold wv, rote. cbn [fst snd]. rewrite map_map, qfull_rot.
    induction Hq as [|p l Hp Hl IH]; cbn [map]; [reflexivity|]. rewrite IH. f_equal.
    cbn [rotp snd]. f_equal. apply ep_obs_rot; assumption.
  Qed.

  Theorem ep_rotation sc evs evs' : rotated evs evs' -> Forall (nondegenerate sc) evs -> EPint sc evs = EPint sc evs'.
  Proof.
    intros H Hn. unfold ep_integrated.
    apply (skel_invariant K k0 k1 kadd kmul ksub kopp kinv ksqrt kis0 kltb Kth D pwt _ _ _ _ _ evs evs' evs');
      [|apply Permutation_refl].
    induction H as [|e e' l l' [rho [Hr He]] Hl IH]; [constructor|]. constructor.
    - inversion Hn; subst. split.
      + symmetry. apply (rn2_rot sc); assumption.
      + rewrite (wv_ep_rot sc rho e); [apply Permutation_refl | assumption | assumption].
    - inversion Hn; subst. apply IH. assumption.
  Qed.

  Theorem ep_reorder sc evs evs' : reordered evs evs' -> EPint sc evs = EPint sc evs'.
  Proof.
    intros [evs1 [H1 H2]]. unfold ep_integrated.
    apply (skel_invariant K k0 k1 kadd kmul ksub kopp kinv ksqrt kis0 kltb Kth D pwt _ _ _ _ _ evs evs1 evs'); [|exact H2].
    clear H2. induction H1 as [|e e' l l' [Hf Hs] Hl IH]; [constructor|]. constructor; [|exact IH]. split.
    - unfold rn2, qnorm, sumw2. cbv zeta.
      rewrite (qvec_perm inA _ _ Hs), (qvec_perm inB _ _ Hs).
      rewrite (ksum_map_perm K k0 k1 kadd kmul ksub kopp Kth _ _ _ (perm_filter (fun p : part => inA (snd p)) _ _ Hs)).
      rewrite (ksum_map_perm K k0 k1 kadd kmul ksub kopp Kth _ _ _ (perm_filter (fun p : part => inB (snd p)) _ _ Hs)).
      reflexivity.
    - unfold wv. rewrite (qfull_perm _ _ Hs). apply Permutation_map, Hf.
  Qed.

  Theorem ep_diff_reorder sc evs evs' : reordered evs evs' -> EPdiff sc evs = EPdiff sc evs'.
  Proof. intros H. apply ep_reorder, reordered_bin, H. Qed.
  Theorem ep_diff_all sc evs : (forall d, inbin d = true) -> EPdiff sc evs = EPint sc evs.
  Proof. intros H. unfold ep_differential_bin. rewrite (bin_all evs H). reflexivity. Qed.

  Lemma nondeg_bin sc e : nondegenerate sc e -> nondegenerate sc (ToBin e).
  Proof.
    intros [Ha [Hb Hq]]. unfold nondegenerate, to_bin. cbn [fst snd]. repeat split; try assumption.
    induction Hq as [|p l Hp Hl IH]; cbn [filter]; [constructor|]. destruct (inbin (snd p)); [constructor|]; assumption.
  Qed.
  Theorem ep_diff_rotation sc evs evs' : rotated evs evs' -> Forall (nondegenerate sc) evs -> EPdiff sc evs = EPdiff sc evs'.
  Proof.
    intros H Hn. apply ep_rotation; [apply rotated_bin, H|].
    clear H. induction Hn; cbn [map]; [constructor|]. constructor; [apply nondeg_bin|]; assumption.
  Qed.
End SPEP.
